(* C03 / C09 at the byte level for the responses that do not come from query answering
   (REFUSED, NOTIMP for the special QTYPEs / QCLASS ANY, SERVFAIL for zones that are not loaded):
   [QueryW.respond_plain] is a run of the Writer operation language of C12, so the message-level
   round trip of C12 applies: the independent RFC 1035 decoder of Spec/MsgWriterS.v, applied to the
   finished octets, returns the request's ID, QR = 1, opcode 0, AA = TC = 0, RD as copied, RA = 0,
   Z = 0, the RCODE, exactly one question (the given one), empty answer and authority sections and,
   when the request carried an OPT, exactly one OPT record: owner root, class = the server's payload
   size, TTL field 0 (extended-RCODE bits 0, version 0, flags 0). *)
From QV Require Import Base.ListX Gen.Consts Model.MsgWriter Spec.MsgWriterS Spec.MsgWriterAbsS
  Proofs.MsgWriterP Proofs.MsgWriterNameP Proofs.MsgWriterInvP Proofs.MsgWriterStepP Proofs.MsgWriterHdrP
  Proofs.MsgWriterDecP Proofs.MsgWriterRtP Model.ZoneTree Model.Query Model.QueryW.
Local Open Scope nat_scope.

Definition plain_ops (tcp : bool) (id : N) (rd : bool) (qname : wname) (qtype qclass : N) (edns : option N)
    (limit : nat) (rcode : N) : list wop :=
  [OSetId id; OSetQr true; OSetOpcode 0; OSetRd rd; OAddQuestion qname qtype qclass] ++
  match edns with
  | Some size => OSetEdns size :: (if tcp then [] else [OSetLimit limit])
  | None => []
  end ++ [OSetRcode rcode].

Definition simple_op (o : wop) : Prop :=
  match o with
  | OAddRr _ _ _ _ _ _ _ _ | OAddRrset _ _ _ _ _ _ _ _ | OTemplate _ | OTemplateSubsequent => False
  | _ => True
  end.

Lemma stops_simple o r : simple_op o -> stops o r = false.
Proof. destruct o; simpl; try contradiction; reflexivity. Qed.

Lemma run_cons d o rest d1 d2 rs alive : simple_op o -> step d o = Ok (d1, RUnit) ->
  run d1 rest = Ok (d2, rs, alive) -> run d (o :: rest) = Ok (d2, RUnit :: rs, alive).
Proof. intros S E R. cbn [run]. rewrite E. cbn [bind]. rewrite (stops_simple o RUnit S), R. reflexivity. Qed.

Lemma run_contract_simple : forall ops d g, Forall simple_op ops -> Forall op_wf ops -> run_contract d g ops.
Proof.
  induction ops as [|o rest IH]; intros d g S W; cbn [run_contract]; [exact I|].
  inversion S; subst. inversion W; subst. split; [assumption|]. split; [destruct o; simpl; auto; contradiction|].
  destruct (step d o) as [[d1 r]|e|]; auto. rewrite (stops_simple o r) by assumption. apply IH; assumption.
Qed.

Lemma plain_ops_simple tcp id rd qname qt qc edns limit rcode : Forall simple_op (plain_ops tcp id rd qname qt qc edns limit rcode).
Proof. unfold plain_ops. destruct edns as [sz|]; [destruct tcp|]; repeat constructor. Qed.

Ltac rc S := eapply run_cons; [|exact S|]; [exact I|].

(* respond_plain IS a run of the operation language, every operation succeeding *)
Lemma respond_plain_run buf tcp id rd qname qt qc edns limit rcode len b :
  respond_plain buf tcp id rd qname qt qc edns limit rcode = Some (len, b) ->
  exists rr, run_writer buf (if tcp then tcp_limit_w else udp_limit_w) (plain_ops tcp id rd qname qt qc edns limit rcode) = Ok rr /\
             rr_final rr = Some (len, b) /\
             rr_outcomes rr = map (fun _ => RUnit) (plain_ops tcp id rd qname qt qc edns limit rcode).
Proof.
  unfold respond_plain, prepare_w.
  destruct (writer_new buf (if tcp then tcp_limit_w else udp_limit_w)) as [w0|e|] eqn:E0; try discriminate.
  destruct (set_id id w0) as [w1|e|] eqn:E1; cbn [bind]; try discriminate.
  destruct (set_qr true w1) as [w2|e|] eqn:E2; cbn [bind]; try discriminate.
  destruct (set_opcode 0 w2) as [w3|e|] eqn:E3; cbn [bind]; try discriminate.
  destruct (set_rd rd w3) as [w4|e|] eqn:E4; try discriminate.
  destruct (add_question qname qt qc w4) as [[u w5]|e|] eqn:E5; try discriminate.
  assert (S1 : step (mkD w0 []) (OSetId id) = Ok (mkD w1 [], RUnit)) by (cbn [step d_w of_R]; rewrite E1; reflexivity).
  assert (S2 : step (mkD w1 []) (OSetQr true) = Ok (mkD w2 [], RUnit)) by (cbn [step d_w of_R]; rewrite E2; reflexivity).
  assert (S3 : step (mkD w2 []) (OSetOpcode 0) = Ok (mkD w3 [], RUnit)) by (cbn [step d_w of_R]; rewrite E3; reflexivity).
  assert (S4 : step (mkD w3 []) (OSetRd rd) = Ok (mkD w4 [], RUnit)) by (cbn [step d_w of_R]; rewrite E4; reflexivity).
  assert (S5 : step (mkD w4 []) (OAddQuestion qname qt qc) = Ok (mkD w5 [], RUnit)) by (cbn [step d_w of_M]; rewrite E5; reflexivity).
  assert (Prefix : forall tailops d2 rs alive, run (mkD w5 []) tailops = Ok (d2, rs, alive) ->
            run (mkD w0 []) ([OSetId id; OSetQr true; OSetOpcode 0; OSetRd rd; OAddQuestion qname qt qc] ++ tailops) =
            Ok (d2, RUnit :: RUnit :: RUnit :: RUnit :: RUnit :: rs, alive)).
  { intros tailops d2 rs alive R. cbn [app].
    rc S1. rc S2. rc S3.
    rc S4. rc S5. exact R. }
  assert (Fin : forall tailops wf rs, run (mkD w5 []) tailops = Ok (mkD wf [], rs, true) -> finish wf = Ok (len, b) ->
            rs = map (fun _ => RUnit) tailops ->
            exists rr, run_writer buf (if tcp then tcp_limit_w else udp_limit_w)
                         ([OSetId id; OSetQr true; OSetOpcode 0; OSetRd rd; OAddQuestion qname qt qc] ++ tailops) = Ok rr /\
                       rr_final rr = Some (len, b) /\
                       rr_outcomes rr = map (fun _ => RUnit)
                         ([OSetId id; OSetQr true; OSetOpcode 0; OSetRd rd; OAddQuestion qname qt qc] ++ tailops)).
  { intros tailops wf rs R F Hrs. unfold run_writer, run_writer_gen. rewrite E0. cbn [bind].
    rewrite (Prefix _ _ _ _ R). cbn [bind d_w d_regs]. rewrite F. cbn [bind].
    eexists. split; [reflexivity|]. split; [reflexivity|]. cbn [rr_outcomes]. rewrite Hrs. reflexivity. }
  unfold plain_ops. destruct edns as [size|].
  - destruct (set_edns size w5) as [[u6 w6]|e|] eqn:E6; try discriminate.
    assert (S6 : step (mkD w5 []) (OSetEdns size) = Ok (mkD w6 [], RUnit)) by (cbn [step d_w of_M]; rewrite E6; destruct u6; reflexivity).
    destruct tcp.
    + destruct (set_rcode rcode w6) as [w'|e|] eqn:Er; try discriminate.
      destruct (finish w') as [[len' b']|e|] eqn:Ef; try discriminate. intros X; inversion X; subst len' b'.
      assert (S7 : step (mkD w6 []) (OSetRcode rcode) = Ok (mkD w' [], RUnit)) by (cbn [step d_w of_R]; rewrite Er; reflexivity).
      apply (Fin [OSetEdns size; OSetRcode rcode] w' [RUnit; RUnit]); [|exact Ef|reflexivity].
      rc S6. rc S7. reflexivity.
    + destruct (MsgWriter.set_limit limit w6) as [w7|e|] eqn:E7; try discriminate.
      destruct (set_rcode rcode w7) as [w'|e|] eqn:Er; try discriminate.
      destruct (finish w') as [[len' b']|e|] eqn:Ef; try discriminate. intros X; inversion X; subst len' b'.
      assert (S7 : step (mkD w6 []) (OSetLimit limit) = Ok (mkD w7 [], RUnit)) by (cbn [step d_w of_R]; rewrite E7; reflexivity).
      assert (S8 : step (mkD w7 []) (OSetRcode rcode) = Ok (mkD w' [], RUnit)) by (cbn [step d_w of_R]; rewrite Er; reflexivity).
      apply (Fin [OSetEdns size; OSetLimit limit; OSetRcode rcode] w' [RUnit; RUnit; RUnit]); [|exact Ef|reflexivity].
      rc S6. rc S7. rc S8. reflexivity.
  - destruct (set_rcode rcode w5) as [w'|e|] eqn:Er; try discriminate.
    destruct (finish w') as [[len' b']|e|] eqn:Ef; try discriminate. intros X; inversion X; subst len' b'.
    assert (S7 : step (mkD w5 []) (OSetRcode rcode) = Ok (mkD w' [], RUnit)) by (cbn [step d_w of_R]; rewrite Er; reflexivity).
    apply (Fin [OSetRcode rcode] w' [RUnit]); [|exact Ef|reflexivity].
    rc S7. reflexivity.
Qed.

Lemma Forall2_one_l {A B} (R : A -> B -> Prop) a l : Forall2 R [a] l -> exists d, l = [d] /\ R a d.
Proof. intros H. inversion H as [|x y l1 l2 Hxy Hr]; subst. inversion Hr; subst. eauto. Qed.
Lemma Forall2_nil_l {A B} (R : A -> B -> Prop) l : Forall2 R [] l -> l = [].
Proof. intros H. inversion H. reflexivity. Qed.

Theorem respond_plain_decodes buf tcp id rd qname qt qc edns limit rcode len b :
  (id < 65536)%N -> wf_name qname -> length (nm_wire qname) <= 255 -> (qt < 65536)%N -> (qc < 65536)%N ->
  (rcode < 16)%N -> (forall sz, edns = Some sz -> (sz < 65536)%N) ->
  respond_plain buf tcp id rd qname qt qc edns limit rcode = Some (len, b) ->
  exists m, decode_msg (firstn len b) = Some m /\
    m_id m = id /\ N.testbit (m_flags2 m) 7 = true /\ ((m_flags2 m / 8) mod 16 = 0)%N /\
    N.testbit (m_flags2 m) 2 = false /\ N.testbit (m_flags2 m) 1 = false /\ N.testbit (m_flags2 m) 0 = rd /\
    N.testbit (m_flags3 m) 7 = false /\ ((m_flags3 m / 16) mod 8 = 0)%N /\ (m_flags3 m mod 16 = rcode)%N /\
    (exists d, m_qs m = [d] /\ map (map lower) qname = map (map lower) (dq_name d) /\ dq_type d = qt /\ dq_class d = qc) /\
    m_an m = [] /\ m_ns m = [] /\
    match edns with
    | None => m_ar m = []
    | Some sz => exists d, m_ar m = [d] /\ dr_owner d = [] /\ dr_type d = 41%N /\ dr_class d = sz /\ dr_ttl d = 0%N
    end.
Proof.
  intros Hid Hwn Hlen Hqt Hqc Hrc Hsz R.
  destruct (respond_plain_run _ _ _ _ _ _ _ _ _ _ _ _ R) as (rr & Run & Fin & Outs).
  destruct (writer_new buf (if tcp then tcp_limit_w else udp_limit_w)) as [w0|e|] eqn:E0;
    [|unfold run_writer, run_writer_gen in Run; rewrite E0 in Run; discriminate
     |unfold run_writer, run_writer_gen in Run; rewrite E0 in Run; discriminate].
  set (ops := plain_ops tcp id rd qname qt qc edns limit rcode) in *.
  assert (Hsz' : match edns with Some sz => (sz < 65536)%N | None => True end).
  { destruct edns as [sz|]; [apply (Hsz sz eq_refl)|exact I]. }
  assert (W1 : Forall op_wf ops).
  { unfold ops, plain_ops. destruct edns as [sz|]; [destruct tcp|]; cbn [app];
      repeat (apply Forall_cons; [cbn [op_wf]; auto|]); apply Forall_nil. }
  assert (W2 : Forall op_wf2 ops).
  { unfold ops, plain_ops. destruct edns as [sz|]; [destruct tcp|]; cbn [app];
      repeat (apply Forall_cons; [cbn [op_wf2]; auto|]); apply Forall_nil. }
  assert (W3 : Forall op_wf3 ops).
  { unfold ops, plain_ops. destruct edns as [sz|]; [destruct tcp|]; cbn [app];
      repeat (apply Forall_cons; [cbn [op_wf3]; auto; lia|]); apply Forall_nil. }
  destruct (roundtrip_full buf _ w0 ops E0 (run_contract_simple ops _ _ (plain_ops_simple _ _ _ _ _ _ _ _ _) W1) W1 W2 W3)
    as (rr' & Run' & RT).
  rewrite Run in Run'. inversion Run'; subst rr'. clear Run'. rewrite Fin, Outs in RT.
  destruct RT as (m & D & Hh & Hq & Ha & Hn & Hr & _). exists m. split; [exact D|].
  assert (HH : hreplay ah0 ops (map (fun _ => RUnit) ops) =
               mkAH id true 0 false false rd false rcode (match edns with Some sz => Some (sz, 0%N) | None => None end) None).
  { unfold ops, plain_ops. destruct edns as [sz|]; [destruct tcp|]; reflexivity. }
  assert (AA : areplay am0 ops (map (fun _ => RUnit) ops) = mkAM Standard [mkAQ qname Standard qt qc] [] [] []).
  { unfold ops, plain_ops. destruct edns as [sz|]; [destruct tcp|]; reflexivity. }
  rewrite HH in Hh, Hr. rewrite AA in Hq, Ha, Hn, Hr. cbn [am_qs am_an am_ns am_ar am_mode] in *.
  destruct Hh as (H1 & H2 & H3 & H4 & H5 & H6 & H7 & H8 & H9). cbn [h_id h_qr h_opcode h_aa h_tc h_rd h_ra h_rcode] in *.
  repeat (split; [assumption|]).
  destruct (Forall2_one_l _ _ _ Hq) as (d & Eq & Qr). destruct Qr as (Q1 & Q2 & Q3). cbn in Q1, Q2, Q3.
  split; [exists d; auto|]. split; [apply (Forall2_nil_l _ _ Ha)|]. split; [apply (Forall2_nil_l _ _ Hn)|].
  unfold pseudo_of in Hr. cbn [h_edns h_tsig app] in Hr. destruct edns as [sz|].
  - cbn [app] in Hr. destruct (Forall2_one_l _ _ _ Hr) as (d' & Er & Rr). exists d'. split; [exact Er|].
    destruct Rr as (R1 & R2 & R3 & R4 & _). cbn in R1, R2, R3, R4.
    split; [symmetry in R1; apply map_eq_nil in R1; exact R1|]. auto.
  - cbn [app] in Hr. apply (Forall2_nil_l _ _ Hr).
Qed.
