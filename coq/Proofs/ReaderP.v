From QV Require Import Base.ListX Model.NameWire Model.Reader Spec.NameWireS Spec.NameRepr Spec.ReaderS
  Proofs.NameWireP.
Local Open Scope nat_scope.

(* ---------- small facts ---------- *)

Lemma header_size_val : header_size = 12.
Proof. reflexivity. Qed.

Lemma parse_ok_bound b c nm l : wf_bytes b ->
  parse_compressed_name b c = Ok (nm, l) -> c + l <= length b /\ 0 < l.
Proof.
  intros Hwf H. apply (parse_compressed_iff b c nm l Hwf) in H.
  destruct H as (ls & (e & D & -> & _) & _).
  pose proof (decodes_end_le _ _ _ _ _ D). lia.
Qed.

Lemma read_u16_from_no_panic b a : a <= length b -> read_u16_from b a <> Panic.
Proof.
  intros H. unfold read_u16_from. destruct (length b <? a) eqn:E; [apply Nat.ltb_lt in E; lia|].
  destruct (nth_error b a); [|discriminate]. destruct (nth_error b (a + 1)); discriminate.
Qed.

Lemma read_u16_from_ok b a v : read_u16_from b a = Ok v -> a + 2 <= length b /\ sbe16 b a = Some v.
Proof.
  unfold read_u16_from, sbe16. destruct (length b <? a); [discriminate|].
  destruct (nth_error b a) eqn:A; [|discriminate].
  destruct (nth_error b (a + 1)) eqn:B; [|discriminate].
  intros H; inversion H; subst. apply nth_error_Some_lt in B. split; [lia|reflexivity].
Qed.

Lemma read_u32_from_no_panic b a : a <= length b -> read_u32_from b a <> Panic.
Proof.
  intros H. unfold read_u32_from. destruct (length b <? a) eqn:E; [apply Nat.ltb_lt in E; lia|].
  destruct (nth_error b a); [|discriminate]. destruct (nth_error b (a + 1)); [|discriminate].
  destruct (nth_error b (a + 2)); [|discriminate]. destruct (nth_error b (a + 3)); discriminate.
Qed.

Lemma read_u32_from_ok b a v : read_u32_from b a = Ok v -> a + 4 <= length b /\ sbe32 b a = Some v.
Proof.
  unfold read_u32_from, sbe32, sbe16. destruct (length b <? a); [discriminate|].
  destruct (nth_error b a) eqn:A; [|discriminate].
  destruct (nth_error b (a + 1)) eqn:B; [|discriminate].
  destruct (nth_error b (a + 2)) eqn:C; [|discriminate].
  destruct (nth_error b (a + 3)) eqn:D; [|discriminate].
  intros H; inversion H; subst. pose proof (nth_error_Some_lt _ _ _ D) as Dl.
  replace (a + 2 + 1) with (a + 3) by lia. rewrite D. split; [lia|]. f_equal. lia.
Qed.

Lemma read_u16_get_no_panic b a : read_u16_get b a <> Panic.
Proof.
  unfold read_u16_get. destruct (length b <? a); [discriminate|].
  destruct (nth_error b a); [|discriminate]. destruct (nth_error b (a + 1)); discriminate.
Qed.

Lemma read_u16_get_ok b a v : read_u16_get b a = Ok v -> a + 2 <= length b /\ sbe16 b a = Some v.
Proof.
  unfold read_u16_get, sbe16. destruct (length b <? a); [discriminate|].
  destruct (nth_error b a) eqn:A; [|discriminate].
  destruct (nth_error b (a + 1)) eqn:B; [|discriminate].
  intros H; inversion H; subst. apply nth_error_Some_lt in B. split; [lia|reflexivity].
Qed.

Lemma be16_at_no_panic {E} b a : a + 2 <= length b -> @be16_at E b a <> Panic.
Proof.
  intros H. unfold be16_at. destruct (length b <? a + 2) eqn:X; [apply Nat.ltb_lt in X; lia|].
  destruct (nth_error b a) eqn:A; [|apply nth_error_None in A; lia].
  destruct (nth_error b (a + 1)) eqn:B; [discriminate|apply nth_error_None in B; lia].
Qed.

Lemma be16_at_not_err {E} b a e : @be16_at E b a <> Err e.
Proof.
  unfold be16_at. destruct (length b <? a + 2); [discriminate|].
  destruct (nth_error b a); [|discriminate]. destruct (nth_error b (a + 1)); discriminate.
Qed.

Lemma be32_at_no_panic {E} b a : a + 4 <= length b -> @be32_at E b a <> Panic.
Proof.
  intros H. unfold be32_at. destruct (length b <? a + 4) eqn:X; [apply Nat.ltb_lt in X; lia|].
  destruct (nth_error b a) eqn:A; [|apply nth_error_None in A; lia].
  destruct (nth_error b (a + 1)) eqn:B; [|apply nth_error_None in B; lia].
  destruct (nth_error b (a + 2)) eqn:C; [|apply nth_error_None in C; lia].
  destruct (nth_error b (a + 3)) eqn:D; [discriminate|apply nth_error_None in D; lia].
Qed.

Lemma idx_no_panic {E} b i : i < length b -> @idx E b i <> Panic.
Proof.
  intros H. unfold idx. destruct (nth_error b i) eqn:A; [discriminate|apply nth_error_None in A; lia].
Qed.

Lemma flag_at_no_panic {E} b byte mask : N.to_nat byte < length b -> @flag_at E b byte mask <> Panic.
Proof.
  intros H. unfold flag_at. pose proof (@idx_no_panic E b (N.to_nat byte) H) as P.
  destruct (idx b (N.to_nat byte)); cbn [bind]; congruence.
Qed.

(* a 4-bit field extracted with mask and shift is always a valid Opcode / Rcode *)
Lemma opcode_raw_lt x : (x < 256)%N -> (N.shiftr (N.land x OPCODE_MASK) OPCODE_SHIFT <? 16)%N = true.
Proof.
  intros H.
  assert (A : forallb (fun x => (N.shiftr (N.land x OPCODE_MASK) OPCODE_SHIFT <? 16)%N) (upto 256) = true)
    by (vm_compute; reflexivity).
  rewrite forallb_forall in A. exact (A x (upto_In 256 x H)).
Qed.

Lemma rcode_raw_lt x : (x < 256)%N -> (N.land x RCODE_MASK <? 16)%N = true.
Proof.
  intros H.
  assert (A : forallb (fun x => (N.land x RCODE_MASK <? 16)%N) (upto 256) = true)
    by (vm_compute; reflexivity).
  rewrite forallb_forall in A. exact (A x (upto_In 256 x H)).
Qed.

(* ---------- per-operation facts ---------- *)

Ltac err4 Hinv := cbn [fst snd]; split; [discriminate|split; [intros; reflexivity|split; [exact Hinv|intros ? X; discriminate X]]].
Ltac err3 Hinv := cbn [fst snd]; split; [discriminate|split; [intros; reflexivity|exact Hinv]].

Definition rinv (r : reader) : Prop :=
  wf_bytes (r_octets r) /\ 12 <= length (r_octets r) /\ r_cursor r <= length (r_octets r) /\
  (forall m, r_mark r = Some m -> m <= length (r_octets r)).

Lemma rinv_with_cursor r c : rinv r -> c <= length (r_octets r) -> rinv (with_cursor r c).
Proof. intros (A & B & C & D) H. unfold rinv, with_cursor; simpl. auto. Qed.

Lemma lift_name_cases {A} wrap (x : res name_err A) :
  (exists a, x = Ok a /\ lift_name wrap x = Ok a) \/
  (exists e, x = Err e /\ lift_name wrap x = Err (wrap e)) \/
  (x = Panic /\ lift_name wrap x = Panic).
Proof. destruct x; simpl; eauto. Qed.

Lemma read_question_facts r : rinv r ->
  snd (read_question r) <> Panic /\
  (forall e, snd (read_question r) = Err e -> fst (read_question r) = r) /\
  rinv (fst (read_question r)) /\
  (forall q, snd (read_question r) = Ok q ->
     exists ls, decodes_question (r_octets r) (r_cursor r) ls (q_type q) (q_class q)
                  (r_cursor (fst (read_question r))) /\
                q_name q = name_of ls /\
                r_octets (fst (read_question r)) = r_octets r /\
                r_mark (fst (read_question r)) = r_mark r).
Proof.
  intros Hinv. pose proof Hinv as (Hwf & H12 & Hc & Hm). unfold read_question.
  destruct (parse_compressed_total (r_octets r) (r_cursor r)) as [Hnp _].
  destruct (parse_compressed_name (r_octets r) (r_cursor r)) as [[nm l]|e|] eqn:P; cbn [lift_name map_err];
    [| err4 Hinv | congruence].
  pose proof (parse_ok_bound _ _ _ _ Hwf P) as [Hb Hl].
  pose proof (read_u16_from_no_panic (r_octets r) (r_cursor r + l) Hb) as N1.
  destruct (read_u16_from (r_octets r) (r_cursor r + l)) as [qt|e|] eqn:R1;
    [| err4 Hinv | congruence].
  apply read_u16_from_ok in R1. destruct R1 as [B1 S1].
  assert (B1' : r_cursor r + l + 2 <= length (r_octets r)) by lia.
  pose proof (read_u16_from_no_panic (r_octets r) (r_cursor r + l + 2) B1') as N2.
  destruct (read_u16_from (r_octets r) (r_cursor r + l + 2)) as [qc|e|] eqn:R2;
    [| err4 Hinv | congruence].
  apply read_u16_from_ok in R2. destruct R2 as [B2 S2].
  cbn [fst snd]. split; [discriminate|split; [intros e X; discriminate X|split]].
  - apply rinv_with_cursor; [exact Hinv|lia].
  - intros q Hq. inversion Hq; subst q. cbn.
    apply (parse_compressed_iff _ _ _ _ Hwf) in P. destruct P as (ls & D & ->).
    exists ls. split; [econstructor; eauto|]. repeat split; auto.
Qed.

Lemma skip_question_facts r : rinv r ->
  snd (skip_question r) <> Panic /\
  (forall e, snd (skip_question r) = Err e -> fst (skip_question r) = r) /\
  rinv (fst (skip_question r)).
Proof.
  intros Hinv. pose proof Hinv as (Hwf & H12 & Hc & Hm). unfold skip_question.
  destruct (length (r_octets r) <? r_cursor r) eqn:E; [apply Nat.ltb_lt in E; lia|].
  destruct (skip_compressed_total (skipn (r_cursor r) (r_octets r))) as [Hnp _].
  destruct (skip_compressed_name _) as [l|e|] eqn:P; cbn [lift_name map_err];
    [| err3 Hinv | congruence].
  destruct (length (r_octets r) <? r_cursor r + l + 4) eqn:F.
  - err3 Hinv.
  - apply Nat.ltb_ge in F. cbn [fst snd]. split; [discriminate|split; [intros e X; discriminate X|]].
    apply rinv_with_cursor; auto.
Qed.

Lemma skip_loop_gt f b o l : skip_loop f b o = Ok l -> o < l.
Proof.
  revert o; induction f as [|f IH]; intros o Q; [discriminate|]. cbn [skip_loop] in Q.
  destruct (nth_error b o) as [y|]; [|discriminate]. unfold skip_fin in Q.
  destruct (is_pointer_octet y); [destruct (max_wire_len <? o + 1); inversion Q; lia|].
  destruct (max_label_len <? y)%N; [discriminate|].
  destruct (y =? 0)%N; [destruct (max_wire_len <? o + 1); inversion Q; lia|].
  destruct (max_wire_len <? o + 1 + N.to_nat y); [discriminate|].
  apply IH in Q. lia.
Qed.

Section WithRd.
Variable rd : rdata_reader.
Hypothesis rd_total : forall c t b cur l, rd c t b cur l <> Panic.
Hypothesis rd_bounds : forall c t b cur l x, rd c t b cur l = Ok x -> cur + N.to_nat l <= length b.

Lemma read_rr_facts r : rinv r ->
  snd (read_rr rd r) <> Panic /\
  (forall e, snd (read_rr rd r) = Err e -> fst (read_rr rd r) = r) /\
  rinv (fst (read_rr rd r)) /\
  (forall rr, snd (read_rr rd r) = Ok rr ->
     exists ls raw_ttl rdlen rdstart,
       decodes_rr_fixed (r_octets r) (r_cursor r) ls (rr_type rr) (rr_class rr) raw_ttl rdlen rdstart
                        (r_cursor (fst (read_rr rd r))) /\
       rr_owner rr = name_of ls /\ rr_ttl rr = spec_ttl raw_ttl /\
       rd (rr_class rr) (rr_type rr) (r_octets r) rdstart rdlen = Ok (rr_rdata rr) /\
       r_octets (fst (read_rr rd r)) = r_octets r /\ r_mark (fst (read_rr rd r)) = r_mark r).
Proof.
  intros Hinv. pose proof Hinv as (Hwf & H12 & Hc & Hm). unfold read_rr.
  destruct (parse_compressed_total (r_octets r) (r_cursor r)) as [Hnp _].
  destruct (parse_compressed_name (r_octets r) (r_cursor r)) as [[nm l]|e|] eqn:P; cbn [lift_name map_err bind];
    [| err4 Hinv | congruence].
  pose proof (parse_ok_bound _ _ _ _ Hwf P) as [Hb Hl].
  pose proof (read_u16_from_no_panic (r_octets r) (r_cursor r + l) Hb) as N1.
  destruct (read_u16_from (r_octets r) (r_cursor r + l)) as [ty|e|] eqn:R1; cbn [bind];
    [| err4 Hinv | congruence].
  apply read_u16_from_ok in R1. destruct R1 as [B1 S1].
  assert (B1' : r_cursor r + l + 2 <= length (r_octets r)) by lia.
  pose proof (read_u16_from_no_panic _ _ B1') as N2.
  destruct (read_u16_from (r_octets r) (r_cursor r + l + 2)) as [cl|e|] eqn:R2; cbn [bind];
    [| err4 Hinv | congruence].
  apply read_u16_from_ok in R2. destruct R2 as [B2 S2].
  assert (B2' : r_cursor r + l + 4 <= length (r_octets r)) by lia.
  pose proof (read_u32_from_no_panic _ _ B2') as N3.
  destruct (read_u32_from (r_octets r) (r_cursor r + l + 4)) as [ttl|e|] eqn:R3; cbn [bind];
    [| err4 Hinv | congruence].
  apply read_u32_from_ok in R3. destruct R3 as [B3 S3].
  assert (B3' : r_cursor r + l + 8 <= length (r_octets r)) by lia.
  pose proof (read_u16_from_no_panic _ _ B3') as N4.
  destruct (read_u16_from (r_octets r) (r_cursor r + l + 8)) as [rdlen|e|] eqn:R4; cbn [bind];
    [| err4 Hinv | congruence].
  apply read_u16_from_ok in R4. destruct R4 as [B4 S4].
  pose proof (rd_total cl ty (r_octets r) (r_cursor r + l + 10) rdlen) as N5.
  destruct (rd cl ty (r_octets r) (r_cursor r + l + 10) rdlen) as [rdata|e|] eqn:R5; cbn [map_err bind];
    [| err4 Hinv | congruence].
  pose proof (rd_bounds _ _ _ _ _ _ R5) as B5.
  cbv [fst snd]. split; [discriminate|split; [intros e X; discriminate X|split]].
  - apply rinv_with_cursor; [exact Hinv|lia].
  - intros rr Hrr. inversion Hrr; subst rr. cbn.
    apply (parse_compressed_iff _ _ _ _ Hwf) in P. destruct P as (ls & D & ->).
    exists ls, ttl, rdlen, (r_cursor r + l + 10).
    split; [econstructor; eauto; lia|]. split; [reflexivity|]. split; [|repeat split; auto].
    unfold ttl_from, spec_ttl. destruct (2147483647 <? ttl)%N eqn:X.
    + apply N.ltb_lt in X. destruct (ttl <? 2147483648)%N eqn:Y; [apply N.ltb_lt in Y; lia|reflexivity].
    + apply N.ltb_ge in X. destruct (ttl <? 2147483648)%N eqn:Y; [reflexivity|apply N.ltb_ge in Y; lia].
Qed.

Lemma peek_core_facts r : rinv r ->
  peek_core r <> Panic /\
  (forall p, peek_core r = Ok p ->
     r_cursor r < p_owner_end p /\ p_owner_end p + 10 <= p_rr_end p /\ p_rr_end p <= length (r_octets r)).
Proof.
  intros (Hwf & H12 & Hc & Hm). unfold peek_core.
  destruct (length (r_octets r) <? r_cursor r) eqn:E; [apply Nat.ltb_lt in E; lia|].
  destruct (skip_compressed_total (skipn (r_cursor r) (r_octets r))) as [Hnp _].
  destruct (skip_compressed_name _) as [l|e|] eqn:P; cbn [lift_name map_err bind];
    [| split; [discriminate|intros p X; discriminate] | congruence].
  pose proof (read_u16_get_no_panic (r_octets r) (r_cursor r + l + 8)) as N1.
  destruct (read_u16_get (r_octets r) (r_cursor r + l + 8)) as [rdlen|e|] eqn:R1; cbn [bind];
    [| split; [discriminate|intros p X; discriminate] | congruence].
  destruct (length (r_octets r) <? r_cursor r + l + 10 + N.to_nat rdlen) eqn:F.
  - split; [discriminate|intros p X; discriminate].
  - apply Nat.ltb_ge in F. split; [discriminate|]. intros p X. inversion X; subst p. cbn.
    unfold skip_compressed_name in P. pose proof (skip_loop_gt _ _ _ _ P).
    lia.
Qed.

Lemma skip_rr_facts r : rinv r ->
  snd (skip_rr r) <> Panic /\
  (forall e, snd (skip_rr r) = Err e -> fst (skip_rr r) = r) /\
  rinv (fst (skip_rr r)).
Proof.
  intros Hinv. destruct (peek_core_facts r Hinv) as [Hnp Hok]. unfold skip_rr.
  destruct (peek_core r) as [p|e|]; [| err3 Hinv | congruence].
  destruct (Hok p eq_refl) as (A & B & C). cbn [fst snd].
  split; [discriminate|split; [intros e X; discriminate X|]].
  apply rinv_with_cursor; [exact Hinv|exact C].
Qed.

Lemma peek_parse_facts r p : rinv r -> peek_core r = Ok p ->
  snd (peek_parse rd r p) <> Panic /\
  (forall e, snd (peek_parse rd r p) = Err e -> fst (peek_parse rd r p) = r) /\
  rinv (fst (peek_parse rd r p)).
Proof.
  intros Hinv Hp. destruct (peek_core_facts r Hinv) as [_ Hok].
  destruct (Hok p Hp) as (A & B & C). unfold peek_parse, peek_owner, peek_class, peek_type, peek_rdlength,
    peek_ttl, peek_raw_ttl.
  destruct (parse_compressed_total (r_octets r) (r_cursor r)) as [Hnp _].
  destruct (parse_compressed_name (r_octets r) (r_cursor r)) as [[nm l]|e|]; cbn [lift_name map_err map_ok bind fst];
    [| err3 Hinv | congruence].
  pose proof (@be16_at_no_panic reader_err (r_octets r) (p_owner_end p + 2) ltac:(lia)) as N1.
  destruct (be16_at (r_octets r) (p_owner_end p + 2)) as [cl|e|] eqn:R1; cbn [bind];
    [| exfalso; eapply be16_at_not_err; eauto | congruence].
  pose proof (@be16_at_no_panic reader_err (r_octets r) (p_owner_end p) ltac:(lia)) as N2.
  destruct (be16_at (r_octets r) (p_owner_end p)) as [ty|e|] eqn:R2; cbn [bind];
    [| exfalso; eapply be16_at_not_err; eauto | congruence].
  pose proof (@be16_at_no_panic reader_err (r_octets r) (p_owner_end p + 8) ltac:(lia)) as N3.
  destruct (be16_at (r_octets r) (p_owner_end p + 8)) as [rl|e|] eqn:R3; cbn [bind];
    [| exfalso; eapply be16_at_not_err; eauto | congruence].
  pose proof (rd_total cl ty (r_octets r) (p_owner_end p + 10) rl) as N4.
  destruct (rd cl ty (r_octets r) (p_owner_end p + 10) rl) as [rdata|e|]; cbn [map_err bind];
    [| err3 Hinv | congruence].
  pose proof (@be32_at_no_panic reader_err (r_octets r) (p_owner_end p + 4) ltac:(lia)) as N5.
  destruct (be32_at (r_octets r) (p_owner_end p + 4)) as [ttl|e|] eqn:R5; cbn [map_ok bind];
    [| err3 Hinv | congruence].
  cbv [fst snd]. split; [discriminate|split; [intros e X; discriminate X|]].
  apply rinv_with_cursor; [exact Hinv|exact C].
Qed.

(* ---------- every operation: total, atomic, invariant-preserving ---------- *)

Lemma hdr_offsets :
  N.to_nat ID_START = 0 /\ N.to_nat QDCOUNT_START = 4 /\ N.to_nat ANCOUNT_START = 6 /\
  N.to_nat NSCOUNT_START = 8 /\ N.to_nat ARCOUNT_START = 10 /\
  N.to_nat QR_BYTE = 2 /\ N.to_nat AA_BYTE = 2 /\ N.to_nat TC_BYTE = 2 /\ N.to_nat RD_BYTE = 2 /\
  N.to_nat RA_BYTE = 3 /\ N.to_nat OPCODE_BYTE = 2 /\ N.to_nat RCODE_BYTE = 3.
Proof. repeat split; reflexivity. Qed.

Ltac hdr_lia :=
  destruct hdr_offsets as (O1 & O2 & O3 & O4 & O5 & O6 & O7 & O8 & O9 & O10 & O11 & O12);
  rewrite ?O1, ?O2, ?O3, ?O4, ?O5, ?O6, ?O7, ?O8, ?O9, ?O10, ?O11, ?O12; lia.


Definition op_ok (r : reader) (op : rop) : Prop :=
  match op with OpRewind => r_mark r <> None | _ => True end.

Theorem step_total r op : rinv r -> op_ok r op -> snd (step rd r op) <> Panic.
Proof.
  intros Hinv Hop. pose proof Hinv as (Hwf & H12 & Hc & Hm).
  destruct op; cbn [step].
  - (* header *)
    cbn [snd]. unfold rd_id, rd_qr, rd_aa, rd_tc, rd_rd, rd_ra, rd_opcode, rd_rcode,
      rd_qdcount, rd_ancount, rd_nscount, rd_arcount.
    repeat match goal with
    | |- bind (be16_at ?b ?a) _ <> Panic =>
      let H := fresh in let E := fresh in
      pose proof (@be16_at_no_panic reader_err b a ltac:(hdr_lia)) as H;
      destruct (be16_at b a) eqn:E; cbn [bind]; [|discriminate|congruence]
    | |- bind (flag_at ?b ?x ?m) _ <> Panic =>
      let H := fresh in let E := fresh in
      pose proof (@flag_at_no_panic reader_err b x m ltac:(hdr_lia)) as H;
      destruct (flag_at b x m) eqn:E; cbn [bind]; [|discriminate|congruence]
    end.
    + unfold idx. destruct (nth_error (r_octets r) (N.to_nat OPCODE_BYTE)) as [x|] eqn:X;
        [|apply nth_error_None in X; revert X; hdr_lia]. cbn [bind].
      rewrite opcode_raw_lt by exact (nth_error_Forall _ _ _ _ Hwf X).
      destruct (nth_error (r_octets r) (N.to_nat RCODE_BYTE)) as [y|] eqn:Y;
        [|apply nth_error_None in Y; revert Y; hdr_lia]. cbn [bind].
      rewrite rcode_raw_lt by exact (nth_error_Forall _ _ _ _ Hwf Y). cbn [bind].
      repeat match goal with
      | |- bind (be16_at ?b ?a) _ <> Panic =>
        let H := fresh in let E := fresh in
        pose proof (@be16_at_no_panic reader_err b a ltac:(hdr_lia)) as H;
        destruct (be16_at b a) eqn:E; cbn [bind]; [|discriminate|congruence]
      end. discriminate.
  - discriminate.
  - unfold rd_rewind. cbn [op_ok] in Hop. destruct (r_mark r); [cbn; discriminate|congruence].
  - pose proof (read_question_facts r Hinv) as (A & _). destruct (read_question r) as [r' x]. cbn [snd] in *.
    destruct x; cbn; congruence.
  - pose proof (skip_question_facts r Hinv) as (A & _). destruct (skip_question r) as [r' x]. cbn [snd] in *.
    destruct x; cbn; congruence.
  - pose proof (read_rr_facts r Hinv) as (A & _). destruct (read_rr rd r) as [r' x]. cbn [snd] in *.
    destruct x; cbn; congruence.
  - pose proof (skip_rr_facts r Hinv) as (A & _). destruct (skip_rr r) as [r' x]. cbn [snd] in *.
    destruct x; cbn; congruence.
  - (* peek fields *)
    cbn [snd]. unfold peek_rr. destruct (peek_core_facts r Hinv) as [Hnp Hok].
    destruct (peek_core r) as [p|e|]; cbn [bind]; [|discriminate|congruence].
    destruct (Hok p eq_refl) as (A & B & C).
    unfold peek_type, peek_class, peek_ttl, peek_raw_ttl, peek_rdlength, message_to_cursor.
    pose proof (@be16_at_no_panic reader_err (r_octets r) (p_owner_end p) ltac:(lia)) as N1.
    destruct (be16_at (r_octets r) (p_owner_end p)); cbn [bind]; [|discriminate|congruence].
    pose proof (@be16_at_no_panic reader_err (r_octets r) (p_owner_end p + 2) ltac:(lia)) as N2.
    destruct (be16_at (r_octets r) (p_owner_end p + 2)); cbn [bind]; [|discriminate|congruence].
    pose proof (@be32_at_no_panic reader_err (r_octets r) (p_owner_end p + 4) ltac:(lia)) as N3.
    destruct (be32_at (r_octets r) (p_owner_end p + 4)); cbn [bind map_ok]; [|discriminate|congruence].
    pose proof (@be16_at_no_panic reader_err (r_octets r) (p_owner_end p + 8) ltac:(lia)) as N4.
    destruct (be16_at (r_octets r) (p_owner_end p + 8)); cbn [bind]; [|discriminate|congruence].
    destruct (length (r_octets r) <? r_cursor r) eqn:E; [apply Nat.ltb_lt in E; lia|]. cbn [bind]. discriminate.
  - unfold peek_rr. destruct (peek_core_facts r Hinv) as [Hnp _].
    destruct (peek_core r); cbn [snd]; congruence.
  - unfold peek_rr. destruct (peek_core_facts r Hinv) as [Hnp _].
    destruct (peek_core r) as [p|e|] eqn:P; cbn [snd]; try congruence.
    pose proof (peek_parse_facts r p Hinv P) as (A & _). destruct (peek_parse rd r p) as [r' x]. cbn [snd] in *.
    destruct x; cbn; congruence.
  - discriminate.
  - cbn [snd]. unfold message_to_cursor.
    destruct (length (r_octets r) <? r_cursor r) eqn:E; [apply Nat.ltb_lt in E; lia|]. discriminate.
Qed.

Lemma map_ok_err {E A B} (f : A -> B) (x : res E A) e : map_ok f x = Err e -> x = Err e.
Proof. destruct x; simpl; congruence. Qed.

Theorem step_atomic r op e : rinv r -> snd (step rd r op) = Err e -> fst (step rd r op) = r.
Proof.
  intros Hinv. destruct op; cbn [step]; try (intros; reflexivity); try (cbn [snd]; discriminate).
  - unfold rd_rewind. destruct (r_mark r); cbn; [discriminate|auto].
  - pose proof (read_question_facts r Hinv) as (_ & A & _). destruct (read_question r) as [r' x].
    cbn [fst snd] in *. intros H. apply map_ok_err in H. exact (A _ H).
  - pose proof (skip_question_facts r Hinv) as (_ & A & _). destruct (skip_question r) as [r' x].
    cbn [fst snd] in *. intros H. apply map_ok_err in H. exact (A _ H).
  - pose proof (read_rr_facts r Hinv) as (_ & A & _). destruct (read_rr rd r) as [r' x].
    cbn [fst snd] in *. intros H. apply map_ok_err in H. exact (A _ H).
  - pose proof (skip_rr_facts r Hinv) as (_ & A & _). destruct (skip_rr r) as [r' x].
    cbn [fst snd] in *. intros H. apply map_ok_err in H. exact (A _ H).
  - unfold peek_rr. destruct (peek_core r); cbn; auto; discriminate.
  - unfold peek_rr. destruct (peek_core r) as [p|e'|] eqn:P; cbn [fst snd]; auto.
    pose proof (peek_parse_facts r p Hinv P) as (_ & A & _). destruct (peek_parse rd r p) as [r' x].
    cbn [fst snd] in *. intros H. apply map_ok_err in H. exact (A _ H).
Qed.

Theorem step_inv r op : rinv r -> rinv (fst (step rd r op)).
Proof.
  intros Hinv. pose proof Hinv as (Hwf & H12 & Hc & Hm).
  destruct op; cbn [step fst]; auto.
  - unfold rd_mark, rinv; simpl. repeat split; auto. intros m E; inversion E; subst; auto.
  - unfold rd_rewind. destruct (r_mark r) as [m|] eqn:E; cbn [fst]; auto.
    unfold rinv; simpl. repeat split; auto. discriminate.
  - pose proof (read_question_facts r Hinv) as (_ & _ & A & _). destruct (read_question r); auto.
  - pose proof (skip_question_facts r Hinv) as (_ & _ & A). destruct (skip_question r); auto.
  - pose proof (read_rr_facts r Hinv) as (_ & _ & A & _). destruct (read_rr rd r); auto.
  - pose proof (skip_rr_facts r Hinv) as (_ & _ & A). destruct (skip_rr r); auto.
  - unfold peek_rr. destruct (peek_core_facts r Hinv) as [_ Hok].
    destruct (peek_core r) as [p|e|] eqn:P; cbn [fst]; auto.
    destruct (Hok p eq_refl) as (A & B & C). apply rinv_with_cursor; auto.
  - unfold peek_rr. destruct (peek_core r) as [p|e|] eqn:P; cbn [fst]; auto.
    pose proof (peek_parse_facts r p Hinv P) as (_ & _ & A). destruct (peek_parse rd r p); auto.
Qed.

(* ---------- sequences of operations ---------- *)

Fixpoint run (r : reader) (ops : list rop) : reader * list (res reader_err rout) :=
  match ops with
  | [] => (r, [])
  | op :: rest =>
    let (r', o) := step rd r op in
    let (r'', os) := run r' rest in (r'', o :: os)
  end.

(* rewind is only issued when a mark is set (its documented precondition) *)
Fixpoint ops_ok (r : reader) (ops : list rop) : Prop :=
  match ops with
  | [] => True
  | op :: rest => op_ok r op /\ ops_ok (fst (step rd r op)) rest
  end.

Theorem run_total ops : forall r, rinv r -> ops_ok r ops ->
  rinv (fst (run r ops)) /\ Forall (fun o => o <> Panic) (snd (run r ops)).
Proof.
  induction ops as [|op rest IH]; intros r Hinv Hok; cbn [run].
  - split; [exact Hinv|constructor].
  - destruct Hok as [H1 H2].
    pose proof (step_total r op Hinv H1) as T. pose proof (step_inv r op Hinv) as I.
    destruct (step rd r op) as [r' o]. cbn [fst snd] in *.
    destruct (IH r' I H2) as [I2 F]. destruct (run r' rest) as [r'' os]. cbn [fst snd] in *.
    split; [exact I2|constructor; assumption].
Qed.

(* ---------- peeking is consistent with reading ---------- *)

Theorem peek_consistent r rr : rinv r -> snd (read_rr rd r) = Ok rr ->
  exists p, peek_rr r = Ok p /\ peek_parse rd r p = read_rr rd r.
Proof.
  intros Hinv H. pose proof Hinv as (Hwf & H12 & Hc & Hm).
  unfold read_rr in *.
  destruct (parse_compressed_name (r_octets r) (r_cursor r)) as [[nm l]|e|] eqn:P; cbn [lift_name map_err bind] in *;
    try discriminate.
  pose proof (skip_agrees _ _ _ _ Hwf P) as SK.
  destruct (read_u16_from (r_octets r) (r_cursor r + l)) as [ty|e|] eqn:R1; cbn [bind] in *; try discriminate.
  destruct (read_u16_from (r_octets r) (r_cursor r + l + 2)) as [cl|e|] eqn:R2; cbn [bind] in *; try discriminate.
  destruct (read_u32_from (r_octets r) (r_cursor r + l + 4)) as [ttl|e|] eqn:R3; cbn [bind] in *; try discriminate.
  destruct (read_u16_from (r_octets r) (r_cursor r + l + 8)) as [rdlen|e|] eqn:R4; cbn [bind] in *; try discriminate.
  destruct (rd cl ty (r_octets r) (r_cursor r + l + 10) rdlen) as [rdata|e|] eqn:R5; cbn [map_err bind] in *;
    try discriminate.
  pose proof (rd_bounds _ _ _ _ _ _ R5) as B5.
  exists (mkPeek (r_cursor r + l) (r_cursor r + l + 10 + N.to_nat rdlen)).
  assert (PK : peek_rr r = Ok (mkPeek (r_cursor r + l) (r_cursor r + l + 10 + N.to_nat rdlen))).
  { unfold peek_rr, peek_core.
    destruct (length (r_octets r) <? r_cursor r) eqn:E; [apply Nat.ltb_lt in E; lia|].
    rewrite SK. cbn [lift_name map_err bind].
    unfold read_u16_from in R4. unfold read_u16_get.
    destruct (length (r_octets r) <? r_cursor r + l + 8); [discriminate|].
    destruct (nth_error (r_octets r) (r_cursor r + l + 8)); [|discriminate].
    destruct (nth_error (r_octets r) (r_cursor r + l + 8 + 1)); [|discriminate].
    inversion R4; subst. cbn [bind].
    match goal with |- context [length (r_octets r) <? ?x + 10 + ?y] =>
      destruct (length (r_octets r) <? x + 10 + y) eqn:F end; [apply Nat.ltb_lt in F; lia|reflexivity]. }
  split; [exact PK|].
  unfold peek_parse, peek_owner, peek_class, peek_type, peek_rdlength, peek_ttl, peek_raw_ttl.
  cbn [p_owner_end p_rr_end]. rewrite P. cbn [lift_name map_err map_ok bind fst].
  assert (BE16 : forall a v, read_u16_from (r_octets r) a = Ok v -> @be16_at reader_err (r_octets r) a = Ok v).
  { intros a v Q. unfold read_u16_from in Q. unfold be16_at.
    destruct (length (r_octets r) <? a) eqn:X; [discriminate|].
    destruct (nth_error (r_octets r) a) eqn:A; [|discriminate].
    destruct (nth_error (r_octets r) (a + 1)) eqn:B; [|discriminate].
    pose proof (nth_error_Some_lt _ _ _ B).
    destruct (length (r_octets r) <? a + 2) eqn:Y; [apply Nat.ltb_lt in Y; lia|exact Q]. }
  rewrite (BE16 _ _ R2), (BE16 _ _ R1), (BE16 _ _ R4). cbn [bind].
  replace (r_cursor r + l + 10) with (r_cursor r + l + 10) by lia. rewrite R5. cbn [map_err bind].
  assert (BE32 : @be32_at reader_err (r_octets r) (r_cursor r + l + 4) = Ok ttl).
  { unfold read_u32_from in R3. unfold be32_at.
    destruct (length (r_octets r) <? r_cursor r + l + 4) eqn:X; [discriminate|].
    destruct (nth_error (r_octets r) (r_cursor r + l + 4)) eqn:A; [|discriminate].
    destruct (nth_error (r_octets r) (r_cursor r + l + 4 + 1)) eqn:B; [|discriminate].
    destruct (nth_error (r_octets r) (r_cursor r + l + 4 + 2)) eqn:C; [|discriminate].
    destruct (nth_error (r_octets r) (r_cursor r + l + 4 + 3)) eqn:D; [|discriminate].
    pose proof (nth_error_Some_lt _ _ _ D).
    destruct (length (r_octets r) <? r_cursor r + l + 4 + 4) eqn:Y; [apply Nat.ltb_lt in Y; lia|exact R3]. }
  rewrite BE32. cbn [map_ok bind]. reflexivity.
Qed.

End WithRd.

(* ---------- the pre-fix skip_rr/peek_rr panicked ---------- *)
Example peek_prefix_panics :
  let msg := [0;0;0;0; 0;0;0;1; 0;0;0;0; 0]%N in      (* 13 octets, ANCOUNT = 1, root owner *)
  peek_core_prefix (mkReader msg 12 None) = Panic /\
  peek_core (mkReader msg 12 None) = Err UnexpectedEomInField.
Proof. split; vm_compute; reflexivity. Qed.
