(* RrsetList / RdataSet: the model's incremental, sorted, de-duplicating list of RRsets at a node
   against the spec's per-(owner,type) reading of the flat record list. *)
From QV Require Import Base.Res Base.Octets Base.ListX Model.ZoneTree Spec.ZoneLookupS Proofs.ZoneBaseP.

Fixpoint sorted_rr (l : rrset_list) : Prop :=
  match l with
  | [] => True
  | r :: l' => Forall (fun x => (rs_type r < rs_type x)%N) l' /\ sorted_rr l'
  end.

Lemma rr_lookup_type ty l r : rr_lookup ty l = Some r -> rs_type r = ty.
Proof.
  induction l as [|x l IH]; simpl; [discriminate|].
  destruct (rs_type x =? ty)%N eqn:E; auto. intros H. inversion H; subst. apply N.eqb_eq. exact E.
Qed.

Lemma rr_lookup_In ty l r : rr_lookup ty l = Some r -> In r l.
Proof.
  induction l as [|x l IH]; simpl; [discriminate|].
  destruct (rs_type x =? ty)%N; auto. intros H. inversion H; auto.
Qed.

Lemma rr_lookup_none_above ty l :
  Forall (fun x => (ty < rs_type x)%N) l -> rr_lookup ty l = None.
Proof.
  induction 1 as [|x l H _ IH]; simpl; auto.
  destruct (rs_type x =? ty)%N eqn:E; auto. apply N.eqb_eq in E. lia.
Qed.

Lemma rr_lookup_sorted_self r l : sorted_rr l -> In r l -> rr_lookup (rs_type r) l = Some r.
Proof.
  induction l as [|x l IH]; simpl; [tauto|]. intros [Hx Hs] [->|Hin].
  - rewrite N.eqb_refl. reflexivity.
  - destruct (rs_type x =? rs_type r)%N eqn:E; auto.
    apply N.eqb_eq in E. rewrite Forall_forall in Hx. specialize (Hx r Hin). lia.
Qed.

(* two lists sorted by type with the same lookups are equal *)
Lemma sorted_rr_ext l1 l2 : sorted_rr l1 -> sorted_rr l2 ->
  (forall ty, rr_lookup ty l1 = rr_lookup ty l2) -> l1 = l2.
Proof.
  revert l2; induction l1 as [|x l1 IH]; intros l2 S1 S2 H.
  - destruct l2 as [|y l2]; auto. specialize (H (rs_type y)). simpl in H. rewrite N.eqb_refl in H. discriminate.
  - destruct l2 as [|y l2].
    + specialize (H (rs_type x)). simpl in H. rewrite N.eqb_refl in H. discriminate.
    + simpl in S1, S2. destruct S1 as [F1 S1], S2 as [F2 S2].
      assert (Exy : x = y).
      { pose proof (H (rs_type x)) as Hx. pose proof (H (rs_type y)) as Hy. simpl in Hx, Hy.
        rewrite N.eqb_refl in Hx, Hy.
        destruct (rs_type y =? rs_type x)%N eqn:E.
        - inversion Hx; auto.
        - rewrite N.eqb_sym in E. rewrite E in Hy.
          symmetry in Hx. apply rr_lookup_In in Hx. apply rr_lookup_In in Hy.
          rewrite Forall_forall in F1, F2. specialize (F1 _ Hy). specialize (F2 _ Hx). lia. }
      subst y. f_equal. apply IH; auto.
      intros ty. specialize (H ty). simpl in H.
      destruct (rs_type x =? ty)%N eqn:E; auto.
      apply N.eqb_eq in E. subst ty.
      rewrite (rr_lookup_none_above _ _ F1), (rr_lookup_none_above _ _ F2). reflexivity.
Qed.

Section WithReq.
Variable req : N -> N -> bytes -> bytes -> bool.
Hypothesis req_trans : forall cls ty a b c,
  req cls ty a b = true -> req cls ty b c = true -> req cls ty a c = true.

(* ---- RrsetList::add on a sorted list *)
Lemma rrsets_add_spec cls ty ttl rd l : sorted_rr l ->
  match rr_lookup ty l with
  | Some rs =>
    if (rs_ttl rs =? ttl)%N then
      exists l', rrsets_add req cls ty ttl rd l = Ok l' /\ sorted_rr l' /\
        forall ty', rr_lookup ty' l' =
          if (ty' =? ty)%N then Some (mk_rrset ty ttl (rdataset_insert req cls ty (rs_rdatas rs) rd))
          else rr_lookup ty' l
    else rrsets_add req cls ty ttl rd l = Err TtlMismatch
  | None =>
    exists l', rrsets_add req cls ty ttl rd l = Ok l' /\ sorted_rr l' /\
      forall ty', rr_lookup ty' l' =
        if (ty' =? ty)%N then Some (mk_rrset ty ttl [rd]) else rr_lookup ty' l
  end.
Proof.
  induction l as [|x l IH]; intros S.
  - simpl. eexists; split; [reflexivity|]. split; [simpl; auto|].
    intros ty'. simpl. rewrite (N.eqb_sym ty ty'). destruct (ty' =? ty)%N; reflexivity.
  - simpl in S. destruct S as [F S]. simpl.
    destruct (rs_type x =? ty)%N eqn:E.
    + apply N.eqb_eq in E. destruct (rs_ttl x =? ttl)%N eqn:T; simpl; auto.
      apply N.eqb_eq in T. eexists; split; [reflexivity|]. split; [simpl; auto|].
      intros ty'. simpl. rewrite E, T. rewrite (N.eqb_sym ty ty'). destruct (ty' =? ty)%N; reflexivity.
    + destruct (ty <? rs_type x)%N eqn:L.
      * apply N.ltb_lt in L.
        assert (Hn : rr_lookup ty l = None).
        { apply rr_lookup_none_above. eapply Forall_impl; [|exact F]. simpl. intros; lia. }
        rewrite Hn. eexists; split; [reflexivity|]. split.
        { simpl. split; auto. constructor; auto. eapply Forall_impl; [|exact F]. simpl; intros; lia. }
        intros ty'. simpl. rewrite (N.eqb_sym ty ty'). destruct (ty' =? ty)%N eqn:E'; auto.
      * apply N.ltb_ge in L. apply N.eqb_neq in E.
        specialize (IH S).
        assert (Hcons : forall l', sorted_rr l' ->
                  (forall ty', rr_lookup ty' l' = if (ty' =? ty)%N then rr_lookup ty l' else rr_lookup ty' l) ->
                  (forall r, In r l' -> In r l \/ rs_type r = ty) -> sorted_rr (x :: l')).
        { intros l' S' _ Hin. simpl. split; auto. rewrite Forall_forall. intros r Hr.
          destruct (Hin r Hr) as [Hl|Ht].
          - rewrite Forall_forall in F. auto.
          - lia. }
        destruct (rr_lookup ty l) as [rs|] eqn:Lk.
        -- destruct (rs_ttl rs =? ttl)%N eqn:T.
           ++ destruct IH as (l' & Hadd & S' & Hl'). rewrite Hadd. simpl.
              eexists; split; [reflexivity|]. split.
              ** simpl. split; auto. rewrite Forall_forall. intros r Hr.
                 pose proof (rr_lookup_sorted_self r l' S' Hr) as Hself. rewrite Hl' in Hself.
                 destruct (rs_type r =? ty)%N eqn:Er.
                 --- apply N.eqb_eq in Er. lia.
                 --- apply rr_lookup_In in Hself. rewrite Forall_forall in F. auto.
              ** intros ty'. simpl. rewrite Hl'.
                 destruct (rs_type x =? ty')%N eqn:E2; auto.
                 apply N.eqb_eq in E2. subst ty'. apply N.eqb_neq in E. rewrite E. reflexivity.
           ++ rewrite IH. reflexivity.
        -- destruct IH as (l' & Hadd & S' & Hl'). rewrite Hadd. simpl.
           eexists; split; [reflexivity|]. split.
           ** simpl. split; auto. rewrite Forall_forall. intros r Hr.
              pose proof (rr_lookup_sorted_self r l' S' Hr) as Hself. rewrite Hl' in Hself.
              destruct (rs_type r =? ty)%N eqn:Er.
              --- apply N.eqb_eq in Er. lia.
              --- apply rr_lookup_In in Hself. rewrite Forall_forall in F. auto.
           ** intros ty'. simpl. rewrite Hl'.
              destruct (rs_type x =? ty')%N eqn:E2; auto.
              apply N.eqb_eq in E2. subst ty'. apply N.eqb_neq in E. rewrite E. reflexivity.
Qed.

Lemma rrsets_add_no_panic cls ty ttl rd l : rrsets_add req cls ty ttl rd l <> Panic.
Proof.
  induction l as [|x l IH]; simpl; [discriminate|].
  destruct (rs_type x =? ty)%N.
  - destruct (negb (rs_ttl x =? ttl)%N); discriminate.
  - destruct (ty <? rs_type x)%N; [discriminate|].
    destruct (rrsets_add req cls ty ttl rd l); simpl; try discriminate. congruence.
Qed.

(* ---- de-duplication *)
Lemma existsb_keep_last cls ty x l :
  existsb (fun e => req cls ty x e) (keep_last req cls l ty) = existsb (fun e => req cls ty x e) l.
Proof.
  induction l as [|y l IH]; simpl; auto.
  destruct (existsb (fun e => req cls ty y e) l) eqn:Ey; simpl; rewrite IH; auto.
  destruct (req cls ty x y) eqn:Exy; simpl; auto.
  apply existsb_exists in Ey. destruct Ey as (e & He & Hye).
  apply existsb_exists. exists e. split; auto. eapply req_trans; eauto.
Qed.

Lemma existsb_rev {A} (P : A -> bool) l : existsb P (rev l) = existsb P l.
Proof.
  induction l as [|x l IH]; simpl; auto. rewrite existsb_app. simpl. rewrite IH.
  rewrite orb_false_r. apply orb_comm.
Qed.

Lemma dedup_first_snoc cls ty l x :
  dedup_first req cls (l ++ [x]) ty = rdataset_insert req cls ty (dedup_first req cls l ty) x.
Proof.
  unfold dedup_first, rdataset_insert. rewrite rev_app_distr. simpl.
  rewrite (existsb_rev _ (keep_last req cls (rev l) ty)), existsb_keep_last.
  destruct (existsb (fun e => req cls ty x e) (rev l)); simpl; reflexivity.
Qed.

Lemma dedup_first_single cls ty x : dedup_first req cls [x] ty = [x].
Proof. reflexivity. Qed.

(* ---- spec_rrset on an appended record *)
Definition rec_at (m : name) (ty : N) (r : record) : bool :=
  name_eqb (lc (r_owner r)) m && (r_type r =? ty)%N.

Lemma records_at_snoc R r m ty :
  records_at (R ++ [r]) m ty = records_at R m ty ++ (if rec_at m ty r then [r] else []).
Proof. unfold records_at. rewrite filter_app. reflexivity. Qed.

Lemma spec_rrset_snoc_other cls R r m ty : rec_at m ty r = false ->
  spec_rrset req cls (R ++ [r]) m ty = spec_rrset req cls R m ty.
Proof. intros H. unfold spec_rrset. rewrite records_at_snoc, H, app_nil_r. reflexivity. Qed.

Lemma spec_rrset_snoc_new cls R r m ty : rec_at m ty r = true ->
  spec_rrset req cls R m ty = None ->
  spec_rrset req cls (R ++ [r]) m ty = Some (mk_rrset ty (r_ttl r) [r_rdata r]).
Proof.
  intros H N. unfold spec_rrset in *. rewrite records_at_snoc, H.
  destruct (records_at R m ty) eqn:E; [|discriminate]. reflexivity.
Qed.

Lemma spec_rrset_snoc_old cls R r m ty rs : rec_at m ty r = true ->
  spec_rrset req cls R m ty = Some rs ->
  spec_rrset req cls (R ++ [r]) m ty =
    Some (mk_rrset ty (rs_ttl rs) (rdataset_insert req cls ty (rs_rdatas rs) (r_rdata r))).
Proof.
  intros H S. unfold spec_rrset in *. rewrite records_at_snoc, H.
  destruct (records_at R m ty) as [|r0 rest] eqn:E; [discriminate|].
  inversion S; subst; clear S. simpl app. cbv beta iota. simpl rs_ttl. simpl rs_rdatas.
  f_equal. f_equal.
  change (r0 :: rest ++ [r]) with ((r0 :: rest) ++ [r]). rewrite map_app. simpl map at 2.
  apply dedup_first_snoc.
Qed.

Lemma spec_rrset_type cls R m ty rs : spec_rrset req cls R m ty = Some rs -> rs_type rs = ty.
Proof.
  unfold spec_rrset. destruct (records_at R m ty); [discriminate|]. intros H; inversion H; reflexivity.
Qed.

(* the TTL the spec demands is the TTL of the RRset's first record *)
Lemma ttl_ok_spec cls R r :
  ttl_ok R r =
    match spec_rrset req cls R (lc (r_owner r)) (r_type r) with
    | Some rs => (rs_ttl rs =? r_ttl r)%N
    | None => true
    end.
Proof.
  unfold ttl_ok, spec_rrset, records_at. rewrite find_filter_hd.
  unfold same_rrset.
  destruct (filter _ R) as [|r0 rest]; reflexivity.
Qed.

(* ---- the node-level invariant and its preservation by an accepted add *)
Definition rrsets_ok (cls : N) (R : list record) (m : name) (d : rrset_list) : Prop :=
  sorted_rr d /\ forall ty, rr_lookup ty d = spec_rrset req cls R m ty.

Lemma rrsets_ok_other cls R r m d : name_eqb (lc (r_owner r)) m = false ->
  rrsets_ok cls R m d -> rrsets_ok cls (R ++ [r]) m d.
Proof.
  intros H [S L]. split; auto. intros ty. rewrite spec_rrset_snoc_other; auto.
  unfold rec_at. rewrite H. reflexivity.
Qed.

Lemma rrsets_ok_add R r d : rrsets_ok (r_class r) R (lc (r_owner r)) d ->
  if ttl_ok R r then
    exists d', rrsets_add req (r_class r) (r_type r) (r_ttl r) (r_rdata r) d = Ok d' /\
               rrsets_ok (r_class r) (R ++ [r]) (lc (r_owner r)) d'
  else rrsets_add req (r_class r) (r_type r) (r_ttl r) (r_rdata r) d = Err TtlMismatch.
Proof.
  intros [S L]. rewrite (ttl_ok_spec (r_class r)).
  pose proof (rrsets_add_spec (r_class r) (r_type r) (r_ttl r) (r_rdata r) d S) as H.
  rewrite L in H.
  assert (Hat : rec_at (lc (r_owner r)) (r_type r) r = true).
  { unfold rec_at. rewrite name_eqb_refl, N.eqb_refl. reflexivity. }
  destruct (spec_rrset req (r_class r) R (lc (r_owner r)) (r_type r)) as [rs|] eqn:Sp.
  - destruct (rs_ttl rs =? r_ttl r)%N eqn:T; auto.
    destruct H as (d' & Hadd & S' & L'). exists d'. split; auto. split; auto.
    intros ty. rewrite L'. destruct (ty =? r_type r)%N eqn:E.
    + apply N.eqb_eq in E. subst ty. rewrite (spec_rrset_snoc_old _ _ _ _ _ rs Hat Sp).
      apply N.eqb_eq in T. rewrite T. reflexivity.
    + rewrite spec_rrset_snoc_other; auto. unfold rec_at. rewrite N.eqb_sym, E. apply andb_false_r.
  - destruct H as (d' & Hadd & S' & L'). exists d'. split; auto. split; auto.
    intros ty. rewrite L'. destruct (ty =? r_type r)%N eqn:E.
    + apply N.eqb_eq in E. subst ty. rewrite (spec_rrset_snoc_new _ _ _ _ _ Hat Sp). reflexivity.
    + rewrite spec_rrset_snoc_other; auto. unfold rec_at. rewrite N.eqb_sym, E. apply andb_false_r.
Qed.

End WithReq.
