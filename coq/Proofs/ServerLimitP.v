(* C04, the server side: the value of the Writer's limit when the response is handed to query
   answering / sent.  TCP: 65535 (capped by the buffer).  UDP: 512, unless an OPT record of the
   request was processed, in which case it is the OPT's CLASS field (the requestor's payload size)
   clamped to [512, the server's configured size] (capped by the buffer).  Follows the limit through
   the whole pre-scan of Model/Server.v (every path that yields a response). *)
From QV Require Import Base.ListX Model.NameWire Model.Reader Model.RdataLite Model.Server Proofs.ServerP.
Local Open Scope nat_scope.

Definition L0 (cfg : config) : nat :=
  Nat.min (match c_transport cfg with Tcp => tcp_limit | Udp => udp_limit end) (c_buflen cfg).
Definition negotiated (cfg : config) (their : N) : nat :=
  Nat.min (N.to_nat (N.max 512 (N.min their (c_edns_size cfg)))) (c_buflen cfg).

(* [their] is the CLASS field of an OPT record the pre-scan met in the request [req] *)
Definition opt_class (req : bytes) (their : N) : Prop :=
  exists r p r2 rr, r_octets r = req /\ peek_rr r = Ok p /\ peek_type r p = Ok TYPE_OPT /\
                    peek_parse rd_lite r p = (r2, Ok rr) /\ rr_class rr = their.

Definition lim_ok (cfg : config) (req : bytes) (w : resp) : Prop :=
  w_buflen w = c_buflen cfg /\
  (w_limit w = L0 cfg \/
   (c_transport cfg = Udp /\ w_edns w <> None /\ exists their, opt_class req their /\ w_limit w = negotiated cfg their)).

(* the state of the additional-section scan: before an OPT was seen the limit is the initial one *)
Definition J (cfg : config) (req : bytes) (seen : bool) (w : resp) : Prop :=
  lim_ok cfg req w /\ (seen = false -> w_limit w = L0 cfg).

Lemma lim_set_rcode cfg req w rc : lim_ok cfg req w -> lim_ok cfg req (set_rcode w rc).
Proof.
  intros (A & B). split; [exact A|]. destruct B as [B|(T & E & their & O & B)]; [left; exact B|right].
  split; [exact T|]. split; [|exists their; auto]. cbn. destruct (w_edns w) as [[sz up]|]; [discriminate|congruence].
Qed.
Lemma lim_set_tc cfg req w : lim_ok cfg req w -> lim_ok cfg req (set_tc w).
Proof. auto. Qed.

Lemma set_tsig_lim w t w' : set_tsig w t = Ok w' ->
  w_limit w' = w_limit w /\ w_buflen w' = w_buflen w /\ w_edns w' = w_edns w.
Proof.
  unfold set_tsig. destruct (w_tsig w); [discriminate|]. destruct (_ <? _); [discriminate|].
  destruct (_ <=? _)%N; [discriminate|]. intros H; inv H. auto.
Qed.
Lemma lim_tsig_or_truncate cfg req w t : lim_ok cfg req w -> lim_ok cfg req (fst (set_tsig_or_truncate w t)).
Proof.
  intros L. unfold set_tsig_or_truncate. destruct (set_tsig w t) as [w'|e|] eqn:E; cbn [fst]; auto.
  destruct (set_tsig_lim _ _ _ E) as (A & B & C). destruct L as (L1 & L2). split; [congruence|].
  rewrite A, C. exact L2.
Qed.
Lemma limit_tsig_or_truncate w t : w_limit (fst (set_tsig_or_truncate w t)) = w_limit w.
Proof.
  unfold set_tsig_or_truncate. destruct (set_tsig w t) as [w'|e|] eqn:E; cbn [fst]; auto.
  destruct (set_tsig_lim _ _ _ E) as (A & _). exact A.
Qed.

Lemma set_edns_lim w sz w' : set_edns w sz = Ok w' ->
  w_limit w' = w_limit w /\ w_buflen w' = w_buflen w /\ w_edns w' <> None.
Proof.
  unfold set_edns. destruct (w_edns w); [discriminate|]. destruct (_ <? _); [discriminate|].
  destruct (_ <=? _)%N; [discriminate|]. intros H; inv H. cbn. repeat split; discriminate.
Qed.
Lemma set_xrcode_lim w raw w' : set_extended_rcode w raw = Ok w' ->
  w_limit w' = w_limit w /\ w_buflen w' = w_buflen w /\ (w_edns w <> None -> w_edns w' <> None).
Proof.
  unfold set_extended_rcode. destruct (w_edns w) as [[sz up]|]; [|discriminate].
  destruct (_ <? _)%N; [discriminate|]. intros H; inv H. cbn. repeat split; discriminate.
Qed.
Lemma set_limit_lim w n w' : set_limit w n = Ok w' -> w_limit w <= n ->
  w_limit w' = Nat.min n (w_buflen w) /\ w_buflen w' = w_buflen w /\ w_edns w' = w_edns w.
Proof.
  unfold set_limit. intros H Hle. apply Nat.leb_le in Hle. rewrite Hle in H.
  destruct (_ <? _); [discriminate|]. inv H. auto.
Qed.

Lemma L0_udp cfg : c_transport cfg = Udp -> L0 cfg <= 512.
Proof. intros T. unfold L0. rewrite T. change udp_limit with 512. apply Nat.le_min_l. Qed.

Lemma process_additional_lim verify cfg r w seen last r' s seen' :
  process_additional verify cfg r w seen last = Ok (r', s, seen') -> J cfg (r_octets r) seen w ->
  match s with
  | Continue w' => J cfg (r_octets r) seen' w'
  | Return w' => lim_ok cfg (r_octets r) w'
  | Silent => True
  end.
Proof.
  intros H (HL & Hfresh). pose proof HL as (Hbuf & _).
  unfold process_additional in H.
  destruct (peek_rr r) as [p|e|] eqn:P; [| inv H; apply lim_set_rcode; exact HL | discriminate].
  destruct (peek_type r p) as [ty|e|] eqn:Ety; cbn [bind] in H; try discriminate.
  destruct (ty =? TYPE_OPT)%N eqn:Topt.
  - apply N.eqb_eq in Topt. subst ty.
    destruct seen; [inv H; apply lim_set_rcode; exact HL|]. specialize (Hfresh eq_refl).
    destruct (set_edns w (c_edns_size cfg)) as [w1|e|] eqn:E1; try discriminate;
      [|inv H; apply lim_set_rcode; exact HL].
    destruct (set_edns_lim _ _ _ E1) as (A1 & B1 & C1).
    assert (HL1 : lim_ok cfg (r_octets r) w1) by (split; [congruence|left; congruence]).
    destruct (peek_raw_ttl r p) as [raw|e|]; cbn [bind] in H; try discriminate.
    destruct (peek_parse rd_lite r p) as [r0 x] eqn:PP.
    destruct x as [opt_rr|e|]; try discriminate; [|inv H; apply lim_set_rcode; exact HL1].
    (* the limit negotiation *)
    assert (HL2 : forall w2,
      (match c_transport cfg with
       | Udp => if (c_edns_size cfg <? 512)%N then Panic
                else match set_limit w1 (N.to_nat (N.max 512 (N.min (rr_class opt_rr) (c_edns_size cfg)))) with
                     | Ok w2 => Ok w2 | Err _ => Panic | Panic => Panic end
       | Tcp => Ok w1 end : res reader_err resp) = Ok w2 -> lim_ok cfg (r_octets r) w2 /\ w_edns w2 <> None).
    { intros w2. destruct (c_transport cfg) eqn:Tr; [intros X; inv X; auto|].
      destruct (_ <? _)%N; [discriminate|].
      destruct (set_limit w1 _) as [w2'|e|] eqn:E2; try discriminate. intros X; inv X.
      assert (Hle : w_limit w1 <= N.to_nat (N.max 512 (N.min (rr_class opt_rr) (c_edns_size cfg)))).
      { rewrite A1, Hfresh. pose proof (L0_udp cfg Tr). lia. }
      destruct (set_limit_lim _ _ _ E2 Hle) as (A2 & B2 & C2).
      split; [|congruence]. split; [congruence|]. right. split; [exact Tr|]. split; [congruence|].
      exists (rr_class opt_rr). split.
      - exists r, p, r0, opt_rr. auto.
      - unfold negotiated. rewrite A2, B1, Hbuf. reflexivity. }
    destruct (match c_transport cfg with Udp => _ | Tcp => Ok w1 end) as [w2|e|] eqn:EL; cbn [bind] in H; try discriminate.
    destruct (HL2 w2 eq_refl) as (L2 & Ed2).
    destruct (validate_opt (rr_owner opt_rr) raw) as [rc|].
    + destruct (set_extended_rcode w2 rc) as [w3|e|] eqn:E3; try discriminate. inv H.
      destruct (set_xrcode_lim _ _ _ E3) as (A3 & B3 & C3). destruct L2 as (L2a & L2b).
      split; [congruence|]. rewrite A3. destruct L2b as [X|(T & E & their & O & X)]; [left; exact X|right].
      split; [exact T|]. split; [apply C3; exact E|]. exists their. auto.
    + inv H. split; [exact L2|discriminate].
  - destruct (ty =? TYPE_TSIG)%N.
    + destruct last; cbn [negb] in H; [|inv H; apply lim_set_rcode; exact HL].
      destruct (message_to_cursor r); cbn [bind] in H; try discriminate.
      destruct (peek_parse rd_lite r p) as [r0 x]. destruct x as [rr|e|]; try discriminate;
        [|inv H; apply lim_set_rcode; exact HL].
      assert (G : forall rc t, lim_ok cfg (r_octets r) (fst (set_tsig_or_truncate (set_rcode w rc) t)))
        by (intros; apply lim_tsig_or_truncate, lim_set_rcode; exact HL).
      repeat (first [bm_hyp H | bb_hyp H]; try discriminate); inv H;
        try (match goal with |- context [if ?b then _ else _] => destruct b end);
        first [apply G | apply lim_set_rcode; exact HL
              | split; [apply G|]; intros Hs; rewrite limit_tsig_or_truncate; cbn; apply Hfresh; exact Hs].
    + inv H. split; [exact HL|exact Hfresh].
Qed.

Lemma scan_additional_lim verify cfg n : forall r w seen r' s,
  scan_additional verify cfg n r w seen = Ok (r', s) -> J cfg (r_octets r) seen w ->
  match s with
  | Continue w' | Return w' => lim_ok cfg (r_octets r) w'
  | Silent => True
  end.
Proof.
  induction n as [|n IH]; intros r w seen r' s H HJ; cbn [scan_additional] in H.
  - inv H. exact (proj1 HJ).
  - destruct (process_additional verify cfg r w seen (n =? 0)) as [[[r1 s1] seen1]|e|] eqn:E; cbn [bind] in H; try discriminate.
    pose proof (process_additional_lim _ _ _ _ _ _ _ _ _ E HJ) as L.
    destruct (process_additional_same _ _ _ _ _ _ _ _ _ E) as [Ho _].
    destruct s1 as [w1|w1|].
    + specialize (IH r1 w1 seen1 r' s H). rewrite Ho in IH. apply IH. exact L.
    + inv H. exact L.
    + inv H. exact I.
Qed.

Lemma scan_an_ns_lim n : forall r w r' s, scan_an_ns n r w = Ok (r', s) ->
  r_octets r' = r_octets r /\ (s = Continue w \/ s = Return (set_rcode w RC_FORMERR)).
Proof.
  induction n as [|n IH]; intros r w r' s H; cbn [scan_an_ns] in H.
  - inv H. auto.
  - destruct (peek_rr r) as [p|e|]; [| inv H; auto | discriminate].
    destruct (peek_type r p) as [ty|e|]; cbn [bind] in H; try discriminate.
    destruct (_ || _); [inv H; auto|].
    destruct (IH _ _ _ _ H) as [A B]. split; [rewrite A; reflexivity|exact B].
Qed.

Lemma prescan_rest_lim verify cfg r1 w1 p : prescan_rest verify cfg r1 w1 = Ok p ->
  J cfg (r_octets r1) false w1 ->
  match p with PEarly w | PClean _ w => lim_ok cfg (r_octets r1) w | PNone => True end.
Proof.
  intros H HJ. unfold prescan_rest in H.
  destruct (rd_ancount (rd_mark r1)) as [an|e|]; cbn [bind] in H; try discriminate.
  destruct (rd_nscount (rd_mark r1)) as [ns|e|]; cbn [bind] in H; try discriminate.
  destruct (scan_an_ns (N.to_nat an + N.to_nat ns) (rd_mark r1) w1) as [[r2 s2]|e|] eqn:E2; cbn [bind] in H; try discriminate.
  destruct (scan_an_ns_lim _ _ _ _ _ E2) as [O2 S2]. cbn [rd_mark r_octets] in O2.
  destruct S2 as [->| ->]; [|inv H; apply lim_set_rcode; exact (proj1 HJ)].
  destruct (rd_arcount r2) as [ar|e|]; cbn [bind] in H; try discriminate.
  destruct (scan_additional verify cfg (N.to_nat ar) r2 w1 false) as [[r3 s3]|e|] eqn:E3; cbn [bind] in H; try discriminate.
  assert (L3 := scan_additional_lim _ _ _ _ _ _ _ _ E3). rewrite O2 in L3. specialize (L3 HJ).
  destruct s3 as [w3|w3|]; [| inv H; exact L3 | inv H; exact I].
  destruct (negb (at_eom r3)); [inv H; apply lim_set_rcode; exact L3|].
  destruct (rd_rewind r3) as [r4 x]. destruct x as [[]|e|]; try discriminate.
  destruct (rd_opcode r4) as [opc|e|]; cbn [bind] in H; try discriminate. inv H. exact L3.
Qed.

Lemma read_question_octets r r1 q : read_question r = (r1, Ok q) -> r_octets r1 = r_octets r.
Proof.
  unfold read_question. destruct (lift_name _ _) as [[qn ql]|e|]; [| intros H; inv H | intros H; inv H].
  destruct (read_u16_from _ _) as [qt|e|]; [| intros H; inv H | intros H; inv H].
  destruct (read_u16_from _ _) as [qc|e|]; intros H; inv H. reflexivity.
Qed.

Lemma prescan_lim verify cfg req p : prescan verify cfg req = Ok p ->
  match p with PEarly w | PClean _ w => lim_ok cfg req w | PNone => True end.
Proof.
  intros H. unfold prescan in H. destruct (_ <? _); [discriminate|].
  unfold reader_new in H. destruct (header_size <=? length req); [|inv H; exact I].
  set (r0 := mkReader req header_size None) in *.
  destruct (rd_qr r0) as [qr|e|]; cbn [bind] in H; try discriminate.
  destruct qr; [inv H; exact I|].
  destruct (rd_id r0) as [id|e|]; cbn [bind] in H; try discriminate.
  destruct (rd_opcode r0) as [opc|e|]; cbn [bind] in H; try discriminate.
  destruct (rd_rd r0) as [rdf|e|]; cbn [bind] in H; try discriminate.
  destruct (initial_resp cfg id opc rdf) as [w0|e|] eqn:E0; cbn [bind] in H; try discriminate.
  assert (J0 : J cfg req false w0).
  { unfold initial_resp in E0. destruct (_ <? _); [discriminate|]. inv E0. split; [split; [reflexivity|left; reflexivity]|reflexivity]. }
  destruct (rd_qdcount r0) as [qd|e|]; cbn [bind] in H; try discriminate.
  destruct (qd =? 0)%N; [exact (prescan_rest_lim verify cfg r0 w0 p H J0)|].
  destruct (qd =? 1)%N; [|inv H; exact I].
  destruct (read_question r0) as [r1 x] eqn:EQ. destruct x as [q|e|]; try discriminate;
    [|inv H; apply lim_set_rcode; exact (proj1 J0)].
  destruct (add_question w0 q) as [w1|e|] eqn:EA; try discriminate; [|inv H; apply lim_set_rcode; exact (proj1 J0)].
  assert (J1 : J cfg req false w1).
  { unfold add_question in EA. destruct (_ <? _); [discriminate|]. destruct (_ <? _); [discriminate|].
    destruct (_ <? _); [discriminate|]. inv EA. exact J0. }
  pose proof (prescan_rest_lim verify cfg r1 w1 p H) as R. rewrite (read_question_octets _ _ _ EQ) in R.
  apply R. exact J1.
Qed.

Lemma lim_apply_body cfg req w b : lim_ok cfg req w -> lim_ok cfg req (apply_body w b).
Proof.
  intros L. unfold apply_body. destruct (b_rcode b) as [rc|].
  - apply (lim_set_rcode cfg req w rc) in L. exact L.
  - exact L.
Qed.

Theorem handle_message_limit answer verify cfg req w :
  handle_message answer verify cfg req = Ok (Some w) -> lim_ok cfg req w.
Proof.
  unfold handle_message. destruct (prescan verify cfg req) as [p|e|] eqn:E; cbn [bind]; try discriminate.
  pose proof (prescan_lim _ _ _ _ E) as L. destruct p as [|w0|opc w0]; try discriminate.
  - intros H; inv H. exact L.
  - destruct (opc =? OPCODE_QUERY)%N; intros H; inv H; [|apply lim_set_rcode; exact L].
    unfold handle_query. destruct (w_question w0) as [q|]; [|apply lim_set_rcode; exact L].
    destruct (existsb _ _); [apply lim_set_rcode; exact L|].
    destruct (_ =? _)%N; [apply lim_set_rcode; exact L|].
    destruct (cat_lookup _ _ _ _) as [e|]; [|apply lim_set_rcode; exact L].
    destruct (e_kind e); try (apply lim_set_rcode; exact L). apply lim_apply_body. exact L.
Qed.
