(* C07 o C22: the server's dispatch over the REAL catalog structure.
   Model/Server.v looks the zone up in a flat list ([Server.cat_lookup], longest suffix
   within the class); C22 proves the hash-map tree refines a flat reference map.  Here the
   two are joined: on the flat view [flat_of_tree c] of a well-formed tree [c] (every tree
   reachable by insert/remove histories is well-formed) [Server.cat_lookup] returns exactly
   the entry [CatTree.cat_lookup] returns — same class, same name modulo case, same kind. *)
From QV Require Import Base.ListX Model.NameWire Model.Reader Model.RdataLite Spec.NameWireS Spec.NameRepr
  Spec.ReaderS Model.CatTree Spec.CatTreeS Proofs.CatTreeP Proofs.CatTreeInvP Proofs.CatTreeSP Proofs.CatTreeCatP Proofs.CatTreeSingleP
  Proofs.NameWireP Proofs.ReaderP Model.Server Proofs.ServerP Model.ServerCat.
Local Open Scope nat_scope.

(* ---------- boolean equalities of Model/Server.v are equalities ---------- *)
Lemma eqb_combine_spec {A} (eqb : A -> A -> bool) (Heq : forall x y, eqb x y = true <-> x = y) (a : list A) :
  forall b, (length a =? length b) && forallb (fun p => eqb (fst p) (snd p)) (combine a b) = true <-> a = b.
Proof.
  induction a as [|x a IH]; intros [|y b]; simpl.
  - split; reflexivity.
  - split; discriminate.
  - split; discriminate.
  - split.
    + intros H. apply andb_true_iff in H. destruct H as [H1 H2]. apply andb_true_iff in H2. destruct H2 as [H2 H3].
      apply Heq in H2. subst y. f_equal. apply IH. rewrite H1, H3. reflexivity.
    + intros H. inversion H; subst. pose proof (proj2 (IH b) eq_refl) as T.
      apply andb_true_iff in T. destruct T as [T1 T2]. rewrite T1, T2, (proj2 (Heq y y) eq_refl). reflexivity.
Qed.

Lemma bytes_eqb_spec a b : bytes_eqb a b = true <-> a = b.
Proof. unfold bytes_eqb. apply (eqb_combine_spec N.eqb N.eqb_eq). Qed.

Lemma labels_eqb_spec a b : labels_eqb a b = true <-> a = b.
Proof. unfold labels_eqb. apply (eqb_combine_spec bytes_eqb bytes_eqb_spec). Qed.

Lemma srv_is_suffix_spec s l : Server.is_suffix s l = true <-> CatTreeS.is_suffix s l.
Proof.
  unfold Server.is_suffix, CatTreeS.is_suffix. split.
  - intros H. apply andb_true_iff in H. destruct H as [H1 H2]. apply labels_eqb_spec in H2.
    exists (firstn (length l - length s) l). set (k := length l - length s) in *.
    rewrite H2. symmetry. apply firstn_skipn.
  - intros [pre ->]. unfold bytes in *. rewrite app_length. apply andb_true_iff. split; [apply Nat.leb_le; lia|].
    apply labels_eqb_spec. replace (length pre + length s - length s) with (length pre) by lia.
    rewrite skipn_app, skipn_all, Nat.sub_diag. reflexivity.
Qed.

(* ---------- the link ---------- *)
(* For ANY catalog implementation that refines the flat reference map of C22 — a map [m] storing every
   entry at its own key, a listing [l] of exactly its entries — the server model's lookup on the flat
   view of the listing returns the entry the specification's longest-suffix lookup prescribes. *)
Lemma flat_lookup_refmap (m : refmap tentry) (l : list tentry) cls q r :
  rm_consistent CatTree.e_name CatTree.e_class m -> rm_is_iter CatTree.e_name CatTree.e_class m l ->
  rm_is_lookup m cls q r ->
  Server.cat_lookup (map srv_entry l) q cls None = option_map srv_entry r.
Proof.
  intros Cons [_ It] L.
  pose proof (cat_lookup_spec (map srv_entry l) q cls None _ eq_refl) as S.
  assert (F3 : forall e p, m (cls, p) = Some e -> CatTree.e_class e = cls /\ lower_name (CatTree.e_name e) = p).
  { intros e p H. apply Cons in H. unfold CatTreeS.key_of in H. inversion H. split; reflexivity. }
  assert (F4 : forall e, In e l -> m (CatTree.e_class e, lower_name (CatTree.e_name e)) = Some e).
  { intros e H. apply It in H. destruct H as [k H]. pose proof (Cons _ _ H) as K. unfold CatTreeS.key_of in K.
    rewrite <- K in H. exact H. }
  assert (F1 : forall e p, m (cls, p) = Some e ->
               In (srv_entry e) (map srv_entry l) /\ (Server.e_class (srv_entry e) =? cls)%N = true /\
               Server.e_name (srv_entry e) = p).
  { intros e p H. destruct (F3 e p H) as [A B]. split; [|split].
    - apply in_map. apply It. eauto.
    - simpl. apply N.eqb_eq. exact A.
    - simpl. exact B. }
  destruct (Server.cat_lookup (map srv_entry l) q cls None) as [s|].
  - destruct S as ([S0|(Sin & Scl & Ssuf)] & _ & Smax); [discriminate|].
    apply in_map_iff in Sin. destruct Sin as (e' & <- & Hin').
    simpl in Scl. apply N.eqb_eq in Scl. simpl in Ssuf. apply srv_is_suffix_spec in Ssuf.
    pose proof (F4 e' Hin') as A'. rewrite Scl in A'.
    destruct r as [e|]; simpl.
    + destruct L as (p & Ap & Psuf & Pmax).
      destruct (F1 e p Ap) as (I1 & C1 & N1).
      assert (Ssuf1 : Server.is_suffix (Server.e_name (srv_entry e)) q = true)
        by (apply srv_is_suffix_spec; rewrite N1; exact Psuf).
      pose proof (Smax (srv_entry e) I1 C1 Ssuf1) as Le1. rewrite N1 in Le1. simpl in Le1.
      pose proof (Pmax _ _ A' Ssuf) as Le2.
      assert (Peq : p = lower_name (CatTree.e_name e')) by (apply (is_suffix_same_length _ _ _ Psuf Ssuf); apply Nat.le_antisymm; assumption).
      rewrite Peq in Ap. assert (X : Some e = Some e') by (rewrite <- Ap; exact A'). inversion X. reflexivity.
    + exfalso. exact (L _ _ A' Ssuf).
  - destruct S as [_ S]. destruct r as [e|]; [exfalso|reflexivity].
    destruct L as (p & Ap & Psuf & _). destruct (F1 e p Ap) as (I1 & C1 & N1).
    apply (S _ I1). split; [exact C1|]. apply srv_is_suffix_spec. rewrite N1. exact Psuf.
Qed.

(* the hash-map tree *)
Lemma tree_lookup_flat (c : tcatalog) nm cls : wf_cat c ->
  exists r, CatTree.cat_lookup c nm cls = Ok r /\
            Server.cat_lookup (flat_of_tree c) (lower_name nm) cls None = option_map srv_entry r.
Proof.
  intros Hwf. destruct (cat_lookup_refine entry_kind c nm cls) as (r & E & L). exists r. split; [exact E|].
  change (canon nm) with (lower_name nm) in L.
  exact (flat_lookup_refmap (abs c) (cat_iter c) cls (lower_name nm) r (abs_consistent entry_kind c Hwf)
           (cat_iter_refine entry_kind c Hwf) L).
Qed.

(* SingleZoneCatalog (src/db/single_zone_catalog.rs): the catalog holding exactly one entry *)
Lemma single_lookup_flat (e : tentry) nm cls :
  Server.cat_lookup [srv_entry e] (lower_name nm) cls None = option_map srv_entry (single_lookup e nm cls).
Proof.
  apply (flat_lookup_refmap (rm_insert CatTree.e_name CatTree.e_class rm_empty e) [e] cls (lower_name nm)).
  - intros k x H. unfold rm_insert in H. destruct (skey_eq_dec k _) as [->|]; [inversion H; reflexivity|discriminate].
  - split; [repeat constructor; intros []|]. intros x. split.
    + intros [<-|[]]. exists (key_of CatTree.e_name CatTree.e_class e). unfold rm_insert.
      destruct (skey_eq_dec _ _); [reflexivity|congruence].
    + intros [k H]. unfold rm_insert in H. destruct (skey_eq_dec k _); [inversion H; left; reflexivity|discriminate].
  - exact (CatTreeSingleP.single_lookup_refine entry_kind e nm cls).
Qed.

(* every catalog built by a history of inserts/removes (lookups, gets, iterations interleaved) *)
Theorem tree_link_history (h : list (cat_op entry_kind)) c xs : cat_run cat_new h = Ok (c, xs) ->
  forall nm cls, exists r, CatTree.cat_lookup c nm cls = Ok r /\
    Server.cat_lookup (flat_of_tree c) (lower_name nm) cls None = option_map srv_entry r.
Proof.
  intros H nm cls. destruct (cat_run_wf entry_kind h) as (c' & xs' & H' & Hwf). rewrite H in H'. inversion H'; subst.
  apply tree_lookup_flat. exact Hwf.
Qed.

(* the entry is the same entry: class, name modulo case, kind *)
Lemma srv_entry_fields e :
  Server.e_class (srv_entry e) = CatTree.e_class e /\ Server.e_name (srv_entry e) = lower_name (CatTree.e_name e) /\
  Server.e_kind (srv_entry e) = CatTree.e_val e.
Proof. repeat split. Qed.

(* [tree_of_entries] is a history of inserts *)
Lemma tree_inserts_run : forall es (c c' : tcatalog), tree_inserts c es = Ok c' ->
  exists xs, cat_run c (map OpInsert es) = Ok (c', xs).
Proof.
  induction es as [|e es IH]; intros c c' H; cbn [tree_inserts] in H.
  - inversion H; subst. exists []. reflexivity.
  - destruct (cat_insert c e) as [[c1 old]|x|] eqn:E; cbn [bind] in H; try discriminate.
    destruct (IH _ _ H) as [xs R]. exists (OutEntry old :: xs).
    cbn [map]. unfold cat_run in *. cbn [cat_run_gen cat_step_gen]. rewrite E. cbn [bind]. rewrite R. reflexivity.
Qed.

Lemma tree_inserts_wf : forall es (c : tcatalog), wf_cat c -> exists c', tree_inserts c es = Ok c' /\ wf_cat c'.
Proof.
  induction es as [|e es IH]; intros c Hwf; cbn [tree_inserts].
  - eauto.
  - destruct (cat_insert_refine entry_kind c e Hwf) as (c1 & E & _ & Hwf1). rewrite E. cbn [bind]. apply IH. exact Hwf1.
Qed.

Theorem tree_of_entries_ok es : exists c, tree_of_entries es = Ok c /\ wf_cat c.
Proof. apply tree_inserts_wf. exact I. Qed.

(* ---------- query names ---------- *)
Lemma decodes_labels_nonempty b cs i ls e : decodes b cs i ls e -> Forall (fun l : bytes => l <> []) ls.
Proof.
  induction 1 as [| cs i len rest e Hn Hpos H63 Hb _ IH | ]; [constructor| |assumption].
  constructor; [|exact IH]. intros X. apply (f_equal (@length _)) in X. rewrite slice_length in X by lia.
  simpl in X. lia.
Qed.

Lemma wire_labels_aux_wire_of ls : Forall (fun l : bytes => l <> []) ls ->
  forall fuel, length (wire_of ls) <= fuel -> wire_labels_aux fuel (wire_of ls) = ls.
Proof.
  induction 1 as [|l r Hl _ IH]; intros fuel Hf.
  - destruct fuel; [simpl in Hf; lia|reflexivity].
  - rewrite wire_of_cons in *. destruct fuel; [simpl in Hf; lia|]. cbn [wire_labels_aux].
    destruct (N.of_nat (length l) =? 0)%N eqn:Z.
    { apply N.eqb_eq in Z. destruct l; [congruence|simpl in Z; lia]. }
    rewrite Nat2N.id, firstn_app, Nat.sub_diag, firstn_all. cbn [firstn]. rewrite app_nil_r.
    rewrite skipn_app, Nat.sub_diag, skipn_all. cbn [skipn app]. f_equal. apply IH.
    simpl in Hf. rewrite app_length in Hf. lia.
Qed.

Lemma name_key_name_of ls : Forall (fun l : bytes => l <> []) ls -> name_key (name_of ls) = lower_name ls.
Proof.
  intros H. unfold name_key, name_of, wire_labels. cbn [n_wire]. rewrite wire_labels_aux_wire_of by (auto; lia).
  reflexivity.
Qed.

(* the question read from a request: its name is the spec-level decoding, and its catalog key is
   the lower-cased label list *)
Lemma question_key req r1 q : wf_bytes req -> 12 <= length req -> read_question (r0_of req) = (r1, Ok q) ->
  exists ls, decodes_question req 12 ls (q_type q) (q_class q) (r_cursor r1) /\ q_name q = name_of ls /\
             name_key (q_name q) = lower_name ls.
Proof.
  intros Hw H12 E. pose proof (read_question_facts (r0_of req) (r0_inv req Hw H12)) as (_ & _ & _ & F).
  rewrite E in F. cbn [fst snd] in F. destruct (F q eq_refl) as (ls & D & Nm & _). exists ls.
  split; [exact D|]. split; [exact Nm|]. rewrite Nm. apply name_key_name_of.
  inversion D as [ls' l qt qc DN _ _]; subst. destruct DN as (e & De & _). eapply decodes_labels_nonempty; eauto.
Qed.

(* ---------- the decision table over the tree ---------- *)
Theorem handle_query_tree answer cfg (c : tcatalog) w q ls : wf_cat c -> c_catalog cfg = flat_of_tree c ->
  w_question w = Some q -> name_key (q_name q) = lower_name ls ->
  exists r, CatTree.cat_lookup c ls (q_class q) = Ok r /\
    handle_query answer cfg w =
      if existsb (N.eqb (q_type q)) [QTYPE_IXFR; QTYPE_AXFR; QTYPE_MAILB; QTYPE_MAILA] || (q_class q =? QCLASS_ANY)%N
      then set_rcode w RC_NOTIMP
      else match r with
           | None => set_rcode w RC_REFUSED
           | Some e =>
             match CatTree.e_val e with
             | ELoaded z => apply_body w (answer z q (c_transport cfg) (w_avail w - w_cursor w))
             | _ => set_rcode w RC_SERVFAIL
             end
           end.
Proof.
  intros Hwf Hc Hq Hk. destruct (tree_lookup_flat c ls (q_class q) Hwf) as (r & E & L). exists r. split; [exact E|].
  unfold handle_query. rewrite Hq, Hc, Hk, L.
  destruct (existsb _ _); cbn [orb]; [reflexivity|]. destruct (q_class q =? QCLASS_ANY)%N; [reflexivity|].
  destruct r as [e|]; [|reflexivity]. cbn [option_map]. destruct (CatTree.e_val e) eqn:K; simpl; rewrite K; reflexivity.
Qed.

(* end to end: a clean QUERY against a server whose catalog is the tree [c] *)
Theorem clean_query_tree answer verify cfg (c : tcatalog) req w0 : wf_cfg cfg -> wf_bytes req -> wf_cat c ->
  c_catalog cfg = flat_of_tree c ->
  prescan verify cfg req = Ok (PClean OPCODE_QUERY w0) ->
  match w_question w0 with
  | None => handle_message answer verify cfg req = Ok (Some (set_rcode w0 RC_FORMERR))
  | Some q =>
    exists ls r1 r, decodes_question req 12 ls (q_type q) (q_class q) (r_cursor r1) /\ q_name q = name_of ls /\
      CatTree.cat_lookup c ls (q_class q) = Ok r /\
      handle_message answer verify cfg req = Ok (Some (
        if existsb (N.eqb (q_type q)) [QTYPE_IXFR; QTYPE_AXFR; QTYPE_MAILB; QTYPE_MAILA] || (q_class q =? QCLASS_ANY)%N
        then set_rcode w0 RC_NOTIMP
        else match r with
             | None => set_rcode w0 RC_REFUSED
             | Some e =>
               match CatTree.e_val e with
               | ELoaded z => apply_body w0 (answer z q (c_transport cfg) (w_avail w0 - w_cursor w0))
               | _ => set_rcode w0 RC_SERVFAIL
               end
             end))
  end.
Proof.
  intros Hcfg Hwf Hc Hcat E.
  destruct (clean_dispatch answer verify cfg req _ w0 Hcfg Hwf E) as (_ & ND & HM).
  change (OPCODE_QUERY =? OPCODE_QUERY)%N with true in HM. cbv iota in HM.
  destruct (prescan_facts verify cfg req Hcfg Hwf) as (p & E' & F). rewrite E in E'. inversion E'; subst p. clear E'.
  destruct F as ((H12 & _ & _ & QE & _) & _).
  destruct (w_question w0) as [q|] eqn:Q.
  - unfold question_echo in QE. rewrite Q in QE.
    destruct QE as [QE|(_ & r1 & q' & RQ & QE)]; [discriminate|]. inversion QE; subst q'.
    destruct (question_key req r1 q Hwf H12 RQ) as (ls & D & Nm & K).
    destruct (handle_query_tree answer cfg c w0 q ls Hc Hcat Q K) as (r & L & T).
    exists ls, r1, r. split; [exact D|]. split; [exact Nm|]. split; [exact L|]. rewrite HM, T. reflexivity.
  - rewrite HM. unfold handle_query. rewrite Q. reflexivity.
Qed.
