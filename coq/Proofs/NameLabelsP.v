(* The labels of the Rust representation [name_of ls] of an abstract name are [ls ++ [[]]]
   (Index<usize> / labels() never panic on a well-formed name), plus general list lemmas used by
   the C16 proofs. *)
From QV Require Import Base.ListX Model.NameWire Model.NameText Spec.NameWireS Spec.NameRepr Spec.NameTextS Proofs.NameWireP.

(* all labels of a name, the root label last *)
Definition all_labels (ls : list label) : list label := ls ++ [[]].

Lemma wire_of_all ls : wire_of ls = lwire (all_labels ls).
Proof. unfold wire_of, all_labels. rewrite lwire_app. reflexivity. Qed.

Fixpoint offs_all (base : nat) (ls : list label) : list N :=
  match ls with
  | [] => []
  | l :: r => (N.of_nat base mod 256)%N :: offs_all (base + 1 + length l) r
  end.

Lemma offs_of_all base ls : offs_of base ls = offs_all base (all_labels ls).
Proof.
  revert base. induction ls as [|l r IH]; intros base; cbn; [reflexivity|]. rewrite IH. reflexivity.
Qed.

Lemma offs_all_length base ls : length (offs_all base ls) = length ls.
Proof. revert base. induction ls as [|l r IH]; intros base; cbn; [reflexivity|]. rewrite IH. reflexivity. Qed.

Lemma lwire_cons l r : lwire (l :: r) = N.of_nat (length l) :: l ++ lwire r.
Proof. reflexivity. Qed.

Lemma lwire_length_cons l r : length (lwire (l :: r)) = 1 + length l + length (lwire r).
Proof. rewrite lwire_cons. cbn. rewrite app_length. lia. Qed.

Lemma offs_all_nth pre : forall base l post,
  nth_error (offs_all base (pre ++ l :: post)) (length pre) = Some (N.of_nat (base + length (lwire pre)) mod 256)%N.
Proof.
  induction pre as [|p pre IH]; intros base l post.
  - cbn. rewrite Nat.add_0_r. reflexivity.
  - cbn [app length offs_all nth_error]. rewrite IH, lwire_length_cons. do 3 f_equal. lia.
Qed.

Lemma name_len_name_of ls : name_len (name_of ls) = S (length ls).
Proof.
  unfold name_len, name_of. cbn. rewrite offs_of_all, offs_all_length. unfold all_labels.
  rewrite app_length. cbn. lia.
Qed.

(* Index<usize> on the representation of a name returns the label *)
Lemma label_at_all ls pre l post : all_labels ls = pre ++ l :: post -> wire_len ls <= 255 ->
  label_at (name_of ls) (length pre) = Ok l.
Proof.
  intros Hall Hlen. unfold label_at, name_of. cbn [n_offsets n_wire].
  rewrite offs_of_all, wire_of_all, Hall, offs_all_nth. cbn [Nat.add].
  assert (Hw : length (lwire (pre ++ l :: post)) <= 255).
  { rewrite <- Hall, <- wire_of_all. exact Hlen. }
  rewrite lwire_app, app_length, lwire_length_cons in Hw.
  assert (Hoff : N.to_nat (N.of_nat (length (lwire pre)) mod 256) = length (lwire pre)).
  { rewrite N.mod_small by lia. apply Nat2N.id. }
  rewrite Hoff, lwire_app, lwire_cons.
  rewrite nth_error_app2 by lia. rewrite Nat.sub_diag. cbn [nth_error].
  rewrite Nat2N.id.
  set (w := lwire pre ++ N.of_nat (length l) :: l ++ lwire post).
  assert (Hwl : length w = length (lwire pre) + 1 + length l + length (lwire post)).
  { unfold w. rewrite app_length. cbn. rewrite app_length. lia. }
  destruct (length w <? length (lwire pre) + 1 + length l) eqn:E.
  { apply Nat.ltb_lt in E. lia. }
  f_equal. unfold slice, w.
  replace (length (lwire pre) + 1) with (length (lwire pre ++ [N.of_nat (length l)])) by (rewrite app_length; cbn; lia).
  replace (lwire pre ++ N.of_nat (length l) :: l ++ lwire post)
    with ((lwire pre ++ [N.of_nat (length l)]) ++ l ++ lwire post) by (rewrite <- app_assoc; reflexivity).
  rewrite skipn_app, skipn_all, Nat.sub_diag. cbn [skipn app].
  replace (length (lwire pre ++ [N.of_nat (length l)]) + length l - length (lwire pre ++ [N.of_nat (length l)])) with (length l + 0) by lia.
  rewrite firstn_app_2. cbn. apply app_nil_r.
Qed.

Lemma mapM_seq {E A} (f : nat -> res E A) (l : list A) : forall start,
  (forall i x, nth_error l i = Some x -> f (start + i) = Ok x) ->
  mapM f (seq start (length l)) = Ok l.
Proof.
  induction l as [|x l IH]; intros start H; [reflexivity|].
  cbn [length seq mapM]. rewrite <- (Nat.add_0_r start) at 1. rewrite (H 0 x eq_refl). cbn [bind].
  rewrite (IH (S start)); [reflexivity|].
  intros i y Hy. replace (S start + i) with (start + S i) by lia. apply H. exact Hy.
Qed.

Theorem labels_name_of ls : wire_len ls <= 255 -> labels (name_of ls) = Ok (all_labels ls).
Proof.
  intros Hlen. unfold labels. rewrite name_len_name_of.
  replace (S (length ls)) with (length (all_labels ls)) by (unfold all_labels; rewrite app_length; cbn; lia).
  apply mapM_seq. intros i x Hx. cbn [Nat.add].
  destruct (nth_error_split _ _ Hx) as (pre & post & Heq & Hl). subst i.
  apply (label_at_all ls pre x post Heq Hlen).
Qed.

(* ---- general lemmas ------------------------------------------------------------------------ *)

Lemma eq_nocase_lower a : forall b, eq_nocase a b = true <-> map lower a = map lower b.
Proof.
  induction a as [|x a IH]; intros [|y b]; cbn; try (split; [discriminate|congruence]).
  - tauto.
  - rewrite andb_true_iff, N.eqb_eq, IH. split; [intros [-> ->]; reflexivity|intros H; inversion H; auto].
Qed.

Lemma zip_all_same_length {A} (f : A -> A -> bool) (P : A -> A -> Prop) :
  (forall x y, f x y = true <-> P x y) ->
  forall a b, length a = length b -> (zip_all f a b = true <-> Forall2 P a b).
Proof.
  intros Hf. induction a as [|x a IH]; intros [|y b] Hl; try discriminate; cbn.
  - split; auto.
  - injection Hl as Hl. rewrite andb_true_iff, Hf, (IH b Hl). split.
    + intros [H1 H2]. constructor; assumption.
    + intros H. inversion H; subst. auto.
Qed.

Lemma Forall2_map_eq {A B} (g : A -> B) a : forall b, Forall2 (fun x y => g x = g y) a b <-> map g a = map g b.
Proof.
  induction a as [|x a IH]; intros [|y b]; cbn; split; intros H; try (inversion H; fail); auto.
  - inversion H; subst. f_equal; [assumption|]. apply IH. assumption.
  - inversion H. constructor; [assumption|]. apply IH. assumption.
Qed.
