(* Basic facts for the zone-store proofs: boolean equalities, case-insensitive label equality,
   suffix/prefix tests, list helpers. *)
From QV Require Import Base.Res Base.Octets Base.ListX Model.ZoneTree Spec.ZoneLookupS.

Lemma bytes_eqb_eq a b : bytes_eqb a b = true <-> a = b.
Proof.
  revert b; induction a as [|x a IH]; intros [|y b]; simpl; split; intros H; try discriminate; auto.
  - apply andb_true_iff in H. destruct H as [H1 H2]. apply N.eqb_eq in H1. apply IH in H2. congruence.
  - inversion H; subst. rewrite N.eqb_refl. simpl. apply IH. reflexivity.
Qed.

Lemma octets_eqb_eq a b : octets_eqb a b = true <-> a = b.
Proof.
  revert b; induction a as [|x a IH]; intros [|y b]; simpl; split; intros H; try discriminate; auto.
  - apply andb_true_iff in H. destruct H as [H1 H2]. apply N.eqb_eq in H1. apply IH in H2. congruence.
  - inversion H; subst. rewrite N.eqb_refl. simpl. apply IH. reflexivity.
Qed.

Lemma name_eqb_eq a b : name_eqb a b = true <-> a = b.
Proof.
  revert b; induction a as [|x a IH]; intros [|y b]; simpl; split; intros H; try discriminate; auto.
  - apply andb_true_iff in H. destruct H as [H1 H2]. apply octets_eqb_eq in H1. apply IH in H2. congruence.
  - inversion H; subst. apply andb_true_iff. split; [apply octets_eqb_eq|apply IH]; reflexivity.
Qed.

Lemma name_eqb_refl a : name_eqb a a = true.
Proof. apply name_eqb_eq. reflexivity. Qed.

Lemma name_eqb_neq a b : name_eqb a b = false <-> a <> b.
Proof.
  split.
  - intros H E. apply name_eqb_eq in E. congruence.
  - intros H. destruct (name_eqb a b) eqn:E; auto. apply name_eqb_eq in E. contradiction.
Qed.

Lemma name_eqb_sym a b : name_eqb a b = name_eqb b a.
Proof.
  destruct (name_eqb a b) eqn:E.
  - apply name_eqb_eq in E. subst. symmetry. apply name_eqb_refl.
  - symmetry. apply name_eqb_neq. apply name_eqb_neq in E. congruence.
Qed.

(* ---- label equality *)
Lemma label_eqb_iff k l : label_eqb k l = true <-> map lower k = map lower l.
Proof. unfold label_eqb, lower_label. apply bytes_eqb_eq. Qed.

Lemma label_eqb_refl k : label_eqb k k = true.
Proof. apply label_eqb_iff. reflexivity. Qed.

Lemma label_eqb_sym k l : label_eqb k l = label_eqb l k.
Proof.
  destruct (label_eqb k l) eqn:E.
  - apply label_eqb_iff in E. symmetry. apply label_eqb_iff. congruence.
  - destruct (label_eqb l k) eqn:F; auto. apply label_eqb_iff in F.
    assert (label_eqb k l = true) by (apply label_eqb_iff; congruence). congruence.
Qed.

Lemma label_eqb_trans_l a b : label_eqb a b = true -> forall k, label_eqb k a = label_eqb k b.
Proof.
  intros H k. apply label_eqb_iff in H.
  destruct (label_eqb k a) eqn:E.
  - apply label_eqb_iff in E. symmetry. apply label_eqb_iff. congruence.
  - destruct (label_eqb k b) eqn:F; auto. apply label_eqb_iff in F.
    assert (label_eqb k a = true) by (apply label_eqb_iff; congruence). congruence.
Qed.

(* ---- lc *)
Lemma lc_app a b : lc (a ++ b) = lc a ++ lc b.
Proof. unfold lc. apply map_app. Qed.
Lemma lc_rev a : lc (rev a) = rev (lc a).
Proof. unfold lc. apply map_rev. Qed.
Lemma lc_length a : length (lc a) = length a.
Proof. unfold lc. apply map_length. Qed.
Lemma lc_skipn k a : lc (skipn k a) = skipn k (lc a).
Proof. unfold lc. symmetry. apply skipn_map. Qed.
Lemma lc_firstn k a : lc (firstn k a) = firstn k (lc a).
Proof. unfold lc. symmetry. apply firstn_map. Qed.
Lemma lc_cons x a : lc (x :: a) = map lower x :: lc a.
Proof. reflexivity. Qed.

Lemma lower_label_idem l : map lower (map lower l) = map lower l.
Proof. rewrite map_map. apply map_ext. intros. apply lower_idem. Qed.
Lemma lc_idem a : lc (lc a) = lc a.
Proof. unfold lc. rewrite map_map. apply map_ext. intros. apply lower_label_idem. Qed.

(* ---- suffix test *)
Lemma is_suffixb_iff s n : is_suffixb s n = true <-> exists q, n = q ++ s.
Proof.
  unfold is_suffixb. split.
  - intros H. apply andb_true_iff in H. destruct H as [H1 H2]. apply Nat.leb_le in H1.
    apply name_eqb_eq in H2. exists (firstn (length n - length s) n).
    rewrite <- H2 at 2. symmetry. apply firstn_skipn.
  - intros [q ->]. apply andb_true_iff. split.
    + apply Nat.leb_le. rewrite app_length. lia.
    + apply name_eqb_eq. rewrite app_length.
      replace (length q + length s - length s) with (length q + 0) by lia.
      rewrite skipn_app. rewrite Nat.add_0_r, skipn_all.
      replace (length q - length q) with 0 by lia. reflexivity.
Qed.

Lemma is_suffixb_refl s : is_suffixb s s = true.
Proof. apply is_suffixb_iff. exists []. reflexivity. Qed.

Lemma is_suffixb_false s n : is_suffixb s n = false <-> ~ exists q, n = q ++ s.
Proof.
  split.
  - intros H E. apply is_suffixb_iff in E. congruence.
  - intros H. destruct (is_suffixb s n) eqn:E; auto. apply is_suffixb_iff in E. contradiction.
Qed.

Lemma is_suffixb_trans a b c : is_suffixb a b = true -> is_suffixb b c = true -> is_suffixb a c = true.
Proof.
  rewrite !is_suffixb_iff. intros [q ->] [q' ->]. exists (q' ++ q). rewrite app_assoc. reflexivity.
Qed.

Lemma app_inv_length_tail {A} (a b c d : list A) : a ++ b = c ++ d -> length b = length d -> a = c /\ b = d.
Proof.
  intros H L.
  assert (La : length a = length c).
  { apply (f_equal (@length A)) in H. rewrite !app_length in H. lia. }
  revert c H La. induction a as [|x a IH]; intros [|y c] H La; simpl in *; try discriminate; auto.
  inversion H; subst. destruct (IH c H2) as [-> ->]; auto.
Qed.

(* ---- find / filter *)
Lemma find_filter_hd {A} (P : A -> bool) l : find P l = hd_error (filter P l).
Proof. induction l as [|x l IH]; simpl; auto. destruct (P x); simpl; auto. Qed.

Lemma filter_snoc {A} (P : A -> bool) l x : filter P (l ++ [x]) = filter P l ++ (if P x then [x] else []).
Proof. rewrite filter_app. reflexivity. Qed.

Lemma existsb_snoc {A} (P : A -> bool) l x : existsb P (l ++ [x]) = existsb P l || P x.
Proof. rewrite existsb_app. simpl. rewrite orb_false_r. reflexivity. Qed.

(* ---- nth / firstn *)
Lemma firstn_S_snoc {A} (l : list A) n d : n < length l -> firstn (S n) l = firstn n l ++ [nth n l d].
Proof.
  revert n; induction l as [|x l IH]; intros n H; simpl in *; [lia|].
  destruct n; simpl; auto. rewrite <- IH by lia. reflexivity.
Qed.

Global Arguments lc : simpl never.
