(* Whole record operations preserve the anchor invariant: RDATA components, add_rr (with the
   RDLENGTH back-patch), add_rrset.  Ghost information: which name every anchor / hint-vector
   slot stands for. *)
From QV Require Import Base.ListX Model.MsgWriter Spec.NameRepr Proofs.NameWireP Proofs.MsgWriterP
     Proofs.MsgWriterScanP Proofs.MsgWriterNameP Proofs.MsgWriterInvP Proofs.MsgWriterClosP
     Proofs.MsgWriterScanSP Proofs.MsgWriterNameSP Proofs.MsgWriterLayP.

Local Open Scope nat_scope.

(* ---------------------------------------------------------------- names inside caller RDATA *)

Lemma decodes_unc_labels b : forall cs i ls e, decodes b cs i ls e -> cs = 0 -> Forall wf_label ls.
Proof.
  induction 1 as [cs i H | cs i len rest e H Hp Hl Hb Hd IH | cs i hi lo rest e' H Hh Hlo Ht Hd IH];
    intros Hcs.
  - constructor.
  - constructor; auto. unfold wf_label. rewrite slice_length by lia. lia.
  - lia.
Qed.

Lemma lwire_len_ge ls : Forall wf_label ls -> 2 * length ls <= length (nm_lwire ls).
Proof.
  induction 1 as [|l r [H1 _] _ IH]; simpl; [lia|]. rewrite app_length. lia.
Qed.

Lemma wire_labels_ok : forall ls fuel, Forall wf_label ls -> length ls < fuel ->
  wire_labels fuel (nm_wire ls) = ls.
Proof.
  induction ls as [|l r IH]; intros fuel Hwf Hf.
  - destruct fuel; [lia|]. reflexivity.
  - destruct fuel; [simpl in Hf; lia|]. inversion Hwf as [|? ? [H1 H63] Hwf']; subst.
    unfold nm_wire. rewrite nm_lwire_cons. simpl app. cbn [wire_labels].
    destruct (N.of_nat (length l) =? 0)%N eqn:E; [apply N.eqb_eq in E; lia|].
    rewrite Nat2N.id. rewrite <- app_assoc.
    rewrite firstn_app, Nat.sub_diag, firstn_all. simpl. rewrite app_nil_r.
    rewrite skipn_app, Nat.sub_diag, skipn_all. simpl. f_equal.
    apply IH; auto. simpl in Hf. lia.
Qed.

Lemma parse_unc_name rd nm len : wf_bytes rd -> parse_uncompressed_name rd false = Ok (nm, len) ->
  wf_name (labels_of_name nm) /\ length (nm_wire (labels_of_name nm)) = len /\ len <= length rd.
Proof.
  intros Hwf H. apply (parse_uncompressed_iff rd false nm len Hwf) in H as [ls [[D Hw] [-> _]]].
  destruct (decodes_nc_end _ _ _ _ _ D eq_refl) as [He Hs].
  pose proof (decodes_end_le _ _ _ _ _ D) as [_ Hle].
  pose proof (decodes_unc_labels _ _ _ _ _ D eq_refl) as Hl.
  pose proof (lwire_len_ge ls Hl) as Hge.
  unfold labels_of_name, name_of. cbn [n_wire]. change (wire_of ls) with (nm_wire ls).
  assert (Hwl : length (nm_wire ls) = wire_len ls) by reflexivity.
  rewrite nm_wire_length in Hwl.
  rewrite wire_labels_ok; auto; [|rewrite nm_wire_length; lia].
  split; [split; auto; lia|]. split; [rewrite nm_wire_length; lia|lia].
Qed.

(* ---------------------------------------------------------------- name equality modulo case *)

Lemma lab_eq_false_iff a b : lab_eq false a b <-> map lower a = map lower b.
Proof.
  unfold lab_eq, labels_equal. split; [apply bytes_eqb_eq|intros ->; apply bytes_eqb_refl].
Qed.

Lemma name_eq_sym a b : name_eq false a b -> name_eq false b a.
Proof.
  induction 1; constructor; auto. apply lab_eq_false_iff. symmetry. apply lab_eq_false_iff. auto.
Qed.

Lemma name_eq_trans a b c : name_eq false a b -> name_eq false b c -> name_eq false a c.
Proof.
  intros H. revert c. induction H as [|x y a b Hxy _ IH]; intros c Hc; inversion Hc; subst; constructor.
  - apply lab_eq_false_iff. apply lab_eq_false_iff in Hxy. rewrite Hxy. apply lab_eq_false_iff. auto.
  - apply IH; auto.
Qed.

Lemma named_false cp n b c i : named cp n b c i -> named false n b c i.
Proof. intros [m [H1 H2]]. exists m. split; auto. destruct cp; auto. apply name_eq_weaken; auto. Qed.

(* ---------------------------------------------------------------- what an anchor stands for *)

Definition stands (b : bytes) (c : nat) (L : nat -> Prop) (m : wname) (p : nat) : Prop :=
  L p /\ 0 < p /\ p <= pointer_max /\ named false m b c p.

Definition anch (b : bytes) (c : nat) (L : nat -> Prop) (o : option prior) (g : option wname) : Prop :=
  forall pr, o = Some pr -> exists m, g = Some m /\ stands b c L m (p_ptr pr) /\ p_len pr = nm_len m.

Lemma stands_hinted w h L m pr n : NInv w h L -> stands (w_buf w) (w_cursor w) L m (p_ptr pr) ->
  p_len pr = nm_len m -> name_eq false n m -> hinted n w pr.
Proof.
  intros Hi [HL [H0 [Hm [n' [Hn He]]]]] Hlen Hnm.
  pose proof (name_eq_length _ _ _ Hnm). pose proof (name_eq_length _ _ _ He).
  split; [|split].
  - split; [exact H0|]. split; [exact Hm|]. split; [eapply closed_real; [apply Hi|exact HL]|].
    exists n'. split; auto. rewrite Hlen. unfold nm_len. lia.
  - rewrite Hlen. unfold nm_len. lia.
  - exists n'. split; auto. eapply name_eq_trans; eauto.
Qed.

Lemma stands_mono b c (L : nat -> Prop) m p b' c' (L' : nat -> Prop) : stands b c L m p ->
  agree c b b' -> c <= c' -> (forall s, L s -> L' s) -> stands b' c' L' m p.
Proof.
  intros [HL [H0 [Hm [n' [Hn He]]]]] Ha Hc HLL. repeat split; auto.
  exists n'. split; auto. eapply name_at_stable; eauto.
Qed.

Lemma stands_transfer b lo c h L b' c0 m p : closed b lo c h L -> ragree lo c h b b' ->
  stands b c0 L m p -> stands b' c0 L m p.
Proof.
  intros Hc R [HL [H0 [Hm [n' [Hn He]]]]]. repeat split; auto.
  exists n'. split; auto. eapply name_at_transfer; eauto. left; auto.
Qed.

Lemma anch_mono b c (L : nat -> Prop) o g b' c' (L' : nat -> Prop) : anch b c L o g ->
  agree c b b' -> c <= c' -> (forall s, L s -> L' s) -> anch b' c' L' o g.
Proof.
  intros H Ha Hc HLL pr E. destruct (H pr E) as [m [G [S1 S2]]]. exists m. split; [auto|]. split; [|auto].
  eapply stands_mono; eauto.
Qed.

Lemma anch_transfer b lo c h L b' c0 o g : closed b lo c h L -> ragree lo c h b b' ->
  anch b c0 L o g -> anch b' c0 L o g.
Proof.
  intros Hc R H pr E. destruct (H pr E) as [m [G [S1 S2]]]. exists m. split; [auto|]. split; [|auto].
  eapply stands_transfer; eauto.
Qed.

Lemma anch_new cp c0 n w w' pr (L' : nat -> Prop) : wrote cp c0 n w w' pr ->
  (forall p, pr = Some p -> L' (p_ptr p)) -> anch (w_buf w') (w_cursor w') L' pr (Some n).
Proof.
  intros [_ [_ [_ W]]] HL p E. destruct (W p E) as [[P0 [Pm _]] [Plen Pn]].
  exists n. split; auto. split; auto. split; [apply HL; auto|]. split; auto. split; auto.
  eapply named_false; eauto.
Qed.

Lemma anch_prior_ok w h L o g : NInv w h L -> anch (w_buf w) (w_cursor w) L o g ->
  oprior_ok (w_buf w) (w_cursor w) o.
Proof.
  intros Hi H. destruct o as [pr|]; simpl; auto.
  destruct (H pr eq_refl) as [m [_ [S1 S2]]].
  apply (stands_hinted w h L m pr m Hi S1 S2 (name_eq_refl _ _)).
Qed.

(* ---------------------------------------------------------------- hint vectors *)

Definition vecl_ok (b : bytes) (c : nat) (L : nat -> Prop) (l : hvec) (names : list wname) : Prop :=
  length l = Nat.min hint_vec_size (length names) /\
  forall i p m, nth_error l i = Some (Some p) -> nth_error names i = Some m -> stands b c L m p.
Definition vec_ok (b : bytes) (c : nat) (L : nat -> Prop) (v : option hvec) (names : list wname) : Prop :=
  match v with Some l => vecl_ok b c L l names | None => True end.
Definition vsome (v : option hvec) : bool := match v with Some _ => true | None => false end.

Lemma vec_mono b c (L : nat -> Prop) v names b' c' (L' : nat -> Prop) : vec_ok b c L v names ->
  agree c b b' -> c <= c' -> (forall s, L s -> L' s) -> vec_ok b' c' L' v names.
Proof.
  destruct v as [l|]; simpl; auto. intros [H1 H2] Ha Hc HLL. split; auto.
  intros i p m E1 E2. eapply stands_mono; eauto.
Qed.

Lemma vec_transfer b lo c h L b' c0 v names : closed b lo c h L -> ragree lo c h b b' ->
  vec_ok b c0 L v names -> vec_ok b' c0 L v names.
Proof.
  destruct v as [l|]; simpl; auto. intros Hc R [H1 H2]. split; auto.
  intros i p m E1 E2. eapply stands_transfer; eauto.
Qed.

Lemma vsome_push v x : vsome (hv_push v x) = vsome v.
Proof. destruct v as [l|]; simpl; auto. destruct (length l <? hint_vec_size); auto. Qed.

Lemma vec_push b c L v names pr m : vec_ok b c L v names ->
  (forall p, pr = Some p -> stands b c L m (p_ptr p)) ->
  vec_ok b c L (hv_push v pr) (names ++ [m]).
Proof.
  destruct v as [l|]; simpl; auto. intros [H1 H2] Hp.
  destruct (length l <? hint_vec_size) eqn:E.
  - apply Nat.ltb_lt in E. assert (Hl : length l = length names) by lia.
    split; [unfold vecl_ok; rewrite !app_length; cbn [length]; lia|].
    intros i p m' E1 E2. destruct (Nat.lt_ge_cases i (length l)) as [Hi|Hi].
    + rewrite nth_error_app1 in E1 by lia. rewrite nth_error_app1 in E2 by lia. eauto.
    + destruct (Nat.eq_dec i (length l)) as [->|Hne].
      * rewrite nth_error_app2, Nat.sub_diag in E1 by lia. simpl in E1.
        rewrite Hl in E2. rewrite nth_error_app2, Nat.sub_diag in E2 by lia. simpl in E2.
        inversion E2; subst m'. destruct pr as [q|]; simpl in E1; [|discriminate].
        inversion E1; subst p. apply Hp; auto.
      * assert (K : nth_error (l ++ [option_map p_ptr pr]) i = None).
        { apply nth_error_None. rewrite app_length. simpl. lia. }
        rewrite K in E1. discriminate.
  - apply Nat.ltb_ge in E. split; [rewrite app_length; cbn [length]; lia|].
    intros i p m' E1 E2. assert (Hi : i < length l) by (apply nth_error_Some; congruence).
    rewrite nth_error_app1 in E2 by lia. eauto.
Qed.

(* ---------------------------------------------------------------- RDATA components *)

Fixpoint rd_names (cts : list ctype) (rd : bytes) : list wname :=
  match cts with
  | [] => []
  | CtFixed k :: r => if length rd <? k then [] else rd_names r (skipn k rd)
  | _ :: r => match parse_uncompressed_name rd false with
              | Ok (nm, len) => labels_of_name nm :: rd_names r (skipn len rd)
              | _ => []
              end
  end.

Definition lastn (names : list wname) (d : option wname) : option wname :=
  fold_left (fun _ m => Some m) names d.

Definition comps_post (h : nat) (cts : list ctype) (rd : bytes) (names : list wname)
           (gr : option wname) (v : option hvec) (w : writer) (L : nat -> Prop)
           (r : M (option hvec)) : Prop :=
  match r with
  | Ok (v', w') =>
    exists L', grew w w' L L' /\ NInv w' h L' /\ w_qname w' = w_qname w /\ w_mro w' = w_mro w /\
      anch (w_buf w') (w_cursor w') L' (w_mrn w') (lastn (rd_names cts rd) gr) /\
      vec_ok (w_buf w') (w_cursor w') L' v' (names ++ rd_names cts rd) /\ vsome v' = vsome v /\
      w_cursor w' <= w_cursor w + length rd /\ ext (w_cursor w) w w' /\
      exists parts, parts_at (w_buf w') L' parts (w_cursor w) (w_cursor w') /\
        map part_abs parts = rd_parts cts rd /\ Forall (part_cp (exactf (w_mode w))) parts /\
        (forall s, L' s <-> L s \/ In s (parts_starts parts)) /\ parts_shape cts parts /\
        (w_mode w = Disabled -> Forall part_plain parts)
  | Err (e, w') => (e = Truncation /\ w_avail w < w_cursor w + length rd) \/ (e = InvalidRdata /\ cts <> [])
  | Panic => False
  end.

Lemma wf_bytes_skipn k (rd : bytes) : wf_bytes rd -> wf_bytes (skipn k rd).
Proof. unfold wf_bytes. intros H. rewrite Forall_forall in *. intros x Hx. apply H. eapply In_skipn; eauto. Qed.

(* a chunk that is the plain wire form cannot also be read as labels + pointer *)
Lemma shape_plain_unique cp n b L pos e k pp : wf_name n -> shape_at cp n b L pos e (Some (k, pp)) ->
  slice b pos e = nm_wire n -> False.
Proof.
  intros [Hwf _] [Hk [Hs [_ [_ [_ [Hpm _]]]]]] Hp. rewrite Hp in Hs.
  destruct (ptr_word_bytes pp Hpm) as [hi [lo [Eb [Ehi _]]]]. rewrite Eb in Hs.
  unfold nm_wire in Hs. rewrite <- (firstn_skipn k n) in Hs at 1. rewrite nm_lwire_app, <- app_assoc in Hs.
  apply app_inv_head in Hs.
  destruct (skipn k n) as [|l r] eqn:E.
  - assert (length (skipn k n) = 0) by (rewrite E; reflexivity). rewrite skipn_length in H. lia.
  - assert (Hin : In l n) by (apply (In_skipn k); rewrite E; left; reflexivity).
    rewrite Forall_forall in Hwf. destruct (Hwf l Hin) as [_ H63].
    rewrite nm_lwire_cons in Hs. simpl in Hs. inversion Hs; subst hi.
    rewrite small_not_pointer in Ehi by lia. discriminate.
Qed.

Lemma comps_L h : forall cts rd names gr v w L, NInv w h L -> wf_bytes rd ->
  anch (w_buf w) (w_cursor w) L (w_mrn w) gr -> vec_ok (w_buf w) (w_cursor w) L v names ->
  comps_post h cts rd names gr v w L (write_components cts rd v w).
Proof.
  induction cts as [|ct rest IH]; intros rd names gr v w L Hi Hwf Ha Hv.
  - simpl. destruct (length rd =? 0) eqn:E0.
    + simpl. exists L. rewrite app_nil_r. split; [apply grew_refl|]. split; [exact Hi|].
      split; [reflexivity|]. split; [reflexivity|]. split; [exact Ha|]. split; [exact Hv|].
      split; [reflexivity|]. split; [lia|]. split; [apply ext_refl; apply Hi|].
      exists []. simpl. rewrite E0. split; [reflexivity|]. split; [reflexivity|]. split; [constructor|].
      split; [intros s; tauto|]. split; [exact I|intros _; constructor].
    + destruct (try_push rd w) as [[u w1]|[e w1]|] eqn:E; simpl.
      * destruct (try_push_ext (w_cursor w) _ _ _ _ E (le_n _)) as [X [[S1 [S2 [S3 S4]]] [Hcur [Hsl Hag]]]].
        exists L. rewrite app_nil_r. split; [apply grew_refl|]. split; [eapply NInv_try_push; eauto|].
        split; auto. split; auto. split; [rewrite S3; eapply anch_mono; eauto; lia|].
        split; [eapply vec_mono; eauto; lia|]. split; auto. split; [lia|]. split; [exact X|].
        exists [LPRaw (w_cursor w) rd]. simpl. rewrite E0.
        split; [split; auto; split; auto; split; [rewrite <- Hcur; exact Hsl|split; lia]|].
        split; [reflexivity|]. split; [repeat constructor|]. split; [intros s; tauto|].
        split; [destruct rd; [simpl in E0; discriminate E0|discriminate]|intros _; repeat constructor].
      * left. apply try_push_err in E as E'. destruct E' as [-> ->]. split; auto.
        eapply try_push_err_size; eauto. apply Hi.
      * destruct Hi as [[N1 N2] _ _ _ _ _ _ _]. eapply try_push_no_panic; eauto.
  - assert (Hstep : forall (wr : wname -> writer -> M (option prior)),
               (forall n, wf_name n -> name_postL (exactf (w_mode w)) h n w L (wr n w)) ->
               match ct with CtFixed _ => False | _ => True end ->
               ((is_comp ct = false \/ w_mode w = Disabled) -> forall n pr w1, wr n w = Ok (pr, w1) ->
                  slice (w_buf w1) (w_cursor w) (w_cursor w1) = nm_wire n) ->
               rd_parts (ct :: rest) rd =
                 match parse_uncompressed_name rd false with
                 | Ok (nm, len) => APName (labels_of_name nm) (is_comp ct) :: rd_parts rest (skipn len rd)
                 | _ => []
                 end ->
               rd_names (ct :: rest) rd =
                 match parse_uncompressed_name rd false with
                 | Ok (nm, len) => labels_of_name nm :: rd_names rest (skipn len rd)
                 | _ => []
                 end ->
               comps_post h (ct :: rest) rd names gr v w L
                 match parse_uncompressed_name rd false with
                 | Ok (nm, len) =>
                   let n := labels_of_name nm in
                   let* (pr, w1) := wr n w in
                   let w2 := set_mrn w1 pr in
                   write_components rest (skipn len rd) (hv_push v pr) w2
                 | Err _ => Err (InvalidRdata, w)
                 | Panic => Panic
                 end).
    { intros wr Hwr Hnf Hplain Hrp Hrn. unfold comps_post at 1. rewrite Hrn, Hrp.
      destruct (parse_uncompressed_name rd false) as [[nm len]|e|] eqn:Ep.
      - destruct (parse_unc_name rd nm len Hwf Ep) as [Hwn [Hlen Hle]].
        pose proof (Hwr _ Hwn) as Hpost. cbn zeta.
        destruct (wr (labels_of_name nm) w) as [[pr w1]|[e w1]|] eqn:Ew; simpl.
        + destruct Hpost as [W [Hsz [_ [L1 [G1 [Hi1 [HpL HT1]]]]]]].
          pose proof W as [X [[S1 [S2 [S3 S4]]] _]].
          pose proof (anch_new _ _ _ _ _ _ L1 W HpL) as Apr.
          assert (Hi2 : NInv (set_mrn w1 pr) h L1).
          { apply NInv_set_mrn; auto. eapply anch_prior_ok; eauto. }
          assert (A2 : anch (w_buf (set_mrn w1 pr)) (w_cursor (set_mrn w1 pr)) L1 (w_mrn (set_mrn w1 pr))
                            (Some (labels_of_name nm))) by exact Apr.
          assert (V2 : vec_ok (w_buf (set_mrn w1 pr)) (w_cursor (set_mrn w1 pr)) L1 (hv_push v pr)
                              (names ++ [labels_of_name nm])).
          { apply vec_push.
            - eapply vec_mono; eauto; [apply X|apply X|apply G1].
            - intros p E. destruct (Apr p E) as [m [Em [St _]]]. inversion Em; subst m. exact St. }
          specialize (IH (skipn len rd) (names ++ [labels_of_name nm]) (Some (labels_of_name nm))
                         (hv_push v pr) (set_mrn w1 pr) L1 Hi2 (wf_bytes_skipn _ _ Hwf) A2 V2).
          unfold comps_post in IH.
          destruct (write_components rest (skipn len rd) (hv_push v pr) (set_mrn w1 pr)) as [[v' w3]|[e w3]|];
            auto.
          * destruct IH as [L3 [G3 [Hi3 [Q3 [O3 [A3 [V3 [Vs [Hc3 [X3 [parts3 [P3 [Pa3 [Pc3 [Pt3 [Ps3 Pp3]]]]]]]]]]]]]]]].
            simpl in Q3, O3, Hc3, X3, G3, P3, Pc3.
            rewrite skipn_length in Hc3.
            exists L3. split.
            { eapply (grew_trans w w1 w3); eauto; [apply X|]. destruct X3; simpl in *; lia. }
            split; auto. split; [congruence|]. split; [congruence|].
            split; [exact A3|]. split; [rewrite <- app_assoc in V3; exact V3|].
            split; [rewrite Vs; apply vsome_push|]. split; [lia|].
            split.
            { eapply ext_trans; [exact X|].
              destruct X3. constructor; simpl in *; auto. eapply agree_le; eauto. apply X. }
            destruct HT1 as [sh [Hsh Ht1]].
            assert (Hlt : w_cursor w < w_cursor w1).
            { destruct W as [_ [_ [Hem _]]]. pose proof (nm_wire_length (labels_of_name nm)). destruct Hem; lia. }
            pose proof (x_agree _ _ _ X3) as Ag3. simpl in Ag3.
            pose proof (x_cur _ _ _ X3) as Cu3. simpl in Cu3.
            assert (Hsh'' : is_comp ct = false \/ w_mode w = Disabled -> sh = None).
            { intros Hc. destruct sh as [[k pp]|]; auto. exfalso.
              eapply shape_plain_unique; eauto. }
            assert (Hsh' : is_comp ct = false -> sh = None) by (intros; apply Hsh''; auto).
            exists (LPName (mkNC (w_cursor w) (w_cursor w1) (labels_of_name nm) (exactf (w_mode w)) sh) (is_comp ct)
                    :: parts3).
            split.
            { simpl. split; [reflexivity|]. split; [|split; [exact Hsh'|split; [lia|exact P3]]].
              eapply chunk_mono; [apply G3|].
              eapply (chunk_append (w_buf w1) (w_cursor w1)); [exact Ag3|simpl; lia|].
              split; [simpl; lia|]. simpl. eapply shape_mono; [apply G1|exact Hsh]. }
            split; [simpl; rewrite Pa3; reflexivity|].
            split; [constructor; [reflexivity|rewrite (x_mode _ _ _ X) in Pc3; exact Pc3]|].
            split; [intros s; rewrite Pt3, Ht1; simpl; unfold chunk_starts; simpl; rewrite in_app_iff; tauto|].
            split; [destruct ct; simpl; auto; contradiction|].
            intros Hd. constructor; [simpl; apply Hsh''; auto|]. apply Pp3. simpl. rewrite (x_mode _ _ _ X). exact Hd.
          * destruct IH as [[-> Hs]|[-> Hs]]; [left|right; split; auto; discriminate].
            split; auto. simpl in Hs. rewrite skipn_length in Hs. rewrite (x_av _ _ _ X) in Hs. lia.
        + destruct Hpost as [-> [X [Sd Hs]]]. left. split; auto. lia.
        + exact Hpost.
      - right. split; auto. discriminate.
      - destruct (parse_uncompressed_total rd false) as [Hp _]. congruence. }
    destruct ct as [| |k].
    + apply (Hstep write_unhinted_name); [|exact I| |reflexivity|reflexivity].
      * intros n Hwn. apply write_unhinted_L; auto.
      * intros [Hc|Hd] n pr w1 E; [discriminate|]. eapply disabled_plain_unhinted; eauto.
    + apply (Hstep write_uncompressed_name); [|exact I| |reflexivity|reflexivity].
      * intros n Hwn. apply name_postL_weaken. apply write_uncompressed_L; auto.
      * intros _ n pr w1 E. eapply uncompressed_plain; eauto.
    + simpl. destruct (length rd <? k) eqn:Ek; [right; split; auto; discriminate|].
      assert (Hrn : rd_names (CtFixed k :: rest) rd = rd_names rest (skipn k rd)) by (simpl; rewrite Ek; reflexivity).
      assert (Hrp : rd_parts (CtFixed k :: rest) rd = APRaw (firstn k rd) :: rd_parts rest (skipn k rd))
        by (simpl; rewrite Ek; reflexivity).
      unfold comps_post. rewrite Hrn, Hrp.
      apply Nat.ltb_ge in Ek.
      destruct (try_push (firstn k rd) w) as [[u w1]|[e w1]|] eqn:E; simpl.
      * destruct (try_push_ext (w_cursor w) _ _ _ _ E (le_n _)) as [X [[S1 [S2 [S3 S4]]] [Hcur [Hsl Hag]]]].
        rewrite firstn_length in Hcur.
        assert (Hi1 : NInv w1 h L) by (eapply NInv_try_push; eauto).
        assert (A1 : anch (w_buf w1) (w_cursor w1) L (w_mrn w1) gr)
          by (rewrite S3; eapply anch_mono; eauto; lia).
        assert (V1 : vec_ok (w_buf w1) (w_cursor w1) L v names) by (eapply vec_mono; eauto; lia).
        specialize (IH (skipn k rd) names gr v w1 L Hi1 (wf_bytes_skipn _ _ Hwf) A1 V1).
        unfold comps_post in IH.
        destruct (write_components rest (skipn k rd) v w1) as [[v' w3]|[e w3]|]; auto.
        -- destruct IH as [L3 [G3 [Hi3 [Q3 [O3 [A3 [V3 [Vs [Hc3 [X3 [parts3 [P3 [Pa3 [Pc3 [Pt3 [Ps3 Pp3]]]]]]]]]]]]]]]].
           rewrite skipn_length in Hc3.
           exists L3. split.
           { apply (grew_trans w w1 w3 L L L3); [apply X|apply X3|apply grew_refl|exact G3]. }
           split; [exact Hi3|]. split; [congruence|]. split; [congruence|].
           split; [exact A3|]. split; [exact V3|]. split; [exact Vs|]. split; [lia|].
           split.
           { eapply ext_trans; [exact X|].
             destruct X3. constructor; auto. eapply agree_le; eauto. apply X. }
           exists (LPRaw (w_cursor w) (firstn k rd) :: parts3).
           split.
           { simpl. rewrite firstn_length. split; auto. split; auto. split.
             - rewrite (agree_slice (w_cursor w1) (w_buf w1) (w_buf w3) _ _ (x_agree _ _ _ X3)) by lia.
               rewrite <- Hcur. exact Hsl.
             - pose proof (x_cur _ _ _ X3). split; [lia|]. rewrite <- Hcur. exact P3. }
           split; [simpl; rewrite Pa3; reflexivity|].
           split; [constructor; [exact I|rewrite (x_mode _ _ _ X) in Pc3; exact Pc3]|].
           split; [intros s; rewrite Pt3; simpl; tauto|].
           split; [simpl; split; auto; rewrite firstn_length; lia|].
           intros Hd. constructor; [exact I|]. apply Pp3. rewrite (x_mode _ _ _ X). exact Hd.
        -- destruct IH as [[-> Hs]|[-> Hs]]; [left|right; split; auto; discriminate].
           split; auto. rewrite skipn_length in Hs. rewrite (x_av _ _ _ X) in Hs. lia.
      * left. apply try_push_err in E as E'. destruct E' as [-> ->]. split; auto.
        pose proof (try_push_err_size _ _ _ _ (proj1 (ni_nb _ _ _ Hi)) E) as K.
        rewrite firstn_length in K. lia.
      * destruct Hi as [[N1 N2] _ _ _ _ _ _ _]. eapply try_push_no_panic; eauto.
Qed.

(* ---------------------------------------------------------------- writes outside the readable region *)

Lemma prior_ok_transfer b lo c h L b' c0 pr : closed b lo c h L -> ragree lo c h b b' ->
  L (p_ptr pr) -> prior_ok b c0 pr -> prior_ok b' c0 pr.
Proof.
  intros Hc R HL [H1 [H2 [H3 [ls [H4 H5]]]]]. split; auto. split; auto.
  split; [eapply real_transfer; eauto|]. exists ls. split; auto.
  eapply name_at_transfer; eauto. left; auto.
Qed.

Lemma NInv_patch w h L pos data b' : NInv w h L -> buf_write (w_buf w) pos data = Some b' ->
  (pos + length data <= header_size \/ (h <= pos /\ pos + length data <= h + 2)) ->
  NInv (set_buf w b') (length b') L /\ ragree header_size (w_cursor w) h (w_buf w) b'.
Proof.
  intros [[N1 N2] Hlo Hh Hcl Hd [Pq [Po Pr]] HL Hsd] W Hpos.
  assert (R : ragree header_size (w_cursor w) h (w_buf w) b').
  { eapply buf_write_ragree; eauto. tauto. }
  pose proof (buf_write_length _ _ _ _ W) as Hlen.
  split; auto. constructor; simpl.
  - split; simpl; lia.
  - exact Hlo.
  - left. lia.
  - eapply closed_rehole; [eapply closed_transfer; eauto|lia].
  - eapply decodable_transfer; eauto.
  - repeat split; simpl.
    + destruct (w_qname w) as [pr|] eqn:E; simpl; auto. eapply prior_ok_transfer; eauto.
    + destruct (w_mro w) as [pr|] eqn:E; simpl; auto. eapply prior_ok_transfer; eauto.
    + destruct (w_mrn w) as [pr|] eqn:E; simpl; auto. eapply prior_ok_transfer; eauto.
  - exact HL.
  - eapply sdec_transfer; eauto. lia.
Qed.

(* ---------------------------------------------------------------- the three named anchors *)

Definition anch3 (w : writer) (L : nat -> Prop) (gq go gr : option wname) : Prop :=
  anch (w_buf w) (w_cursor w) L (w_qname w) gq /\
  anch (w_buf w) (w_cursor w) L (w_mro w) go /\
  anch (w_buf w) (w_cursor w) L (w_mrn w) gr.

Lemma anch3_ext w w' (L L' : nat -> Prop) gq go gr : anch3 w L gq go gr -> ext (w_cursor w) w w' ->
  side_eq w w' -> (forall s, L s -> L' s) -> anch3 w' L' gq go gr.
Proof.
  intros [A1 [A2 A3]] X [S1 [S2 [S3 _]]] HLL. unfold anch3. rewrite S1, S2, S3.
  repeat split; eapply anch_mono; eauto; apply X.
Qed.

Lemma push_step data w u w' h L gq go gr v names : try_push data w = Ok (u, w') ->
  NInv w h L -> anch3 w L gq go gr -> vec_ok (w_buf w) (w_cursor w) L v names ->
  NInv w' h L /\ anch3 w' L gq go gr /\ vec_ok (w_buf w') (w_cursor w') L v names /\
  w_cursor w' = w_cursor w + length data /\ ext (w_cursor w) w w' /\ w_qname w' = w_qname w.
Proof.
  intros E Hi A V.
  destruct (try_push_ext (w_cursor w) _ _ _ _ E (le_n _)) as [X [Sd [Hcur [Hsl Hag]]]].
  split; [eapply NInv_try_push; eauto|]. split; [eapply anch3_ext; eauto|].
  split; [eapply vec_mono; eauto; lia|]. split; auto. split; auto. apply Sd.
Qed.

(* ---------------------------------------------------------------- add_rr *)

Definition rr_desc (r : lrr) (owner : wname) (cp : bool) (ty cl ttl : N) (cts : list ctype) (rd : bytes) : Prop :=
  nc_name (lr_owner r) = owner /\ nc_cp (lr_owner r) = cp /\ lr_ty r = ty /\ lr_cl r = cl /\ lr_ttl r = ttl /\
  map part_abs (lr_parts r) = rd_parts cts rd /\ Forall (part_cp cp) (lr_parts r) /\
  parts_shape cts (lr_parts r) /\ lr_end r <= nc_end (lr_owner r) + 10 + length rd.

Lemma push3 a1 a2 a3 w u2 w2 u3 w3 u4 w4 : try_push a1 w = Ok (u2, w2) -> try_push a2 w2 = Ok (u3, w3) ->
  try_push a3 w3 = Ok (u4, w4) ->
  slice (w_buf w4) (w_cursor w) (w_cursor w4) = a1 ++ a2 ++ a3 /\
  w_cursor w4 = w_cursor w + length a1 + length a2 + length a3.
Proof.
  intros E2 E3 E4.
  destruct (try_push_ext (w_cursor w) _ _ _ _ E2 (le_n _)) as [X2 [_ [C2 [S2 A2]]]].
  destruct (try_push_ext (w_cursor w2) _ _ _ _ E3 (le_n _)) as [X3 [_ [C3 [S3 A3]]]].
  destruct (try_push_ext (w_cursor w3) _ _ _ _ E4 (le_n _)) as [X4 [_ [C4 [S4 A4]]]].
  split; [|lia].
  rewrite (slice_app _ (w_cursor w) (w_cursor w2)) by lia.
  rewrite (slice_app _ (w_cursor w2) (w_cursor w3)) by lia.
  rewrite S4. f_equal; [|f_equal].
  - rewrite (agree_slice (w_cursor w3) (w_buf w3) (w_buf w4) _ _ A4) by lia.
    rewrite (agree_slice (w_cursor w2) (w_buf w2) (w_buf w3) _ _ A3) by lia. exact S2.
  - rewrite (agree_slice (w_cursor w3) (w_buf w3) (w_buf w4) _ _ A4) by lia. exact S3.
Qed.

Definition rr_post (owner : wname) (ty cl ttl : N) (cts : list ctype) (rd : bytes) (names : list wname)
           (gq gr : option wname) (v : option hvec) (w : writer) (L : nat -> Prop)
           (r : M (option hvec)) : Prop :=
  match r with
  | Ok (v', w') =>
    exists L', grew w w' L L' /\ NInv w' (length (w_buf w')) L' /\
      anch3 w' L' gq (Some owner) (lastn (rd_names cts rd) gr) /\
      vec_ok (w_buf w') (w_cursor w') L' v' (names ++ rd_names cts rd) /\ vsome v' = vsome v /\
      w_cursor w' <= w_cursor w + length (nm_wire owner) + 10 + length rd /\ w_qname w' = w_qname w /\
      exists r, rr_at (w_buf w') L' r /\ nc_pos (lr_owner r) = w_cursor w /\ lr_end r = w_cursor w' /\
                rr_desc r owner (exactf (w_mode w)) ty cl ttl cts rd /\
                (forall s, L' s <-> L s \/ In s (rr_starts r)) /\
                (w_mode w = Disabled -> rr_plain r)
  | Err (e, w') =>
    (e = Truncation /\ w_avail w < w_cursor w + length (nm_wire owner) + 10 + length rd) \/
    (e = InvalidRdata /\ cts <> [])
  | Panic => False
  end.

Lemma be32_length v : length (be32 v) = 4.
Proof. reflexivity. Qed.

Lemma add_rr_L h owner ty cl ttl rd v w L names gq go gr :
  NInv w (length (w_buf w)) L -> anch3 w L gq go gr -> vec_ok (w_buf w) (w_cursor w) L v names ->
  wf_name owner -> wf_bytes rd -> hint_contract h owner w -> hint_in h w L ->
  rr_post owner ty cl ttl (component_types cl ty) rd names gq gr v w L (add_rr h owner ty cl ttl rd v w).
Proof.
  intros Hi A V Hwf Hrd Hh HhL. unfold add_rr.
  pose proof (write_hinted_L _ h owner w L Hi Hwf Hh HhL) as P1.
  destruct (write_hinted_name h owner w) as [[pr w1]|[e w1]|] eqn:Ewh; simpl in P1; cbn [bind]; auto.
  2:{ destruct P1 as [-> [_ [_ Hs]]]. left. split; auto. lia. }
  destruct P1 as [W [Hsz [_ [L1 [G1 [Hi1 [HpL HT1]]]]]]].
  pose proof W as [X [Sd _]].
  pose proof (anch_new _ _ _ _ _ _ L1 W HpL) as Apr.
  assert (Hlen1 : length (w_buf w1) = length (w_buf w)) by apply X.
  rewrite <- Hlen1 in Hi1.
  assert (Hi1' : NInv (set_mro w1 pr) (length (w_buf w1)) L1).
  { apply NInv_set_mro; auto. eapply anch_prior_ok; eauto. }
  assert (A1 : anch3 (set_mro w1 pr) L1 gq (Some owner) gr).
  { destruct (anch3_ext _ _ _ L1 _ _ _ A X Sd (proj1 G1)) as [B1 [B2 B3]]. split; [exact B1|]. split; [exact Apr|exact B3]. }
  assert (V1 : vec_ok (w_buf (set_mro w1 pr)) (w_cursor (set_mro w1 pr)) L1 v names).
  { eapply vec_mono; eauto; [apply X|apply X|apply G1]. }
  destruct HT1 as [sh [Hsh Ht1]].
  assert (Hlt1 : w_cursor w < w_cursor w1).
  { destruct W as [_ [_ [Hem _]]]. pose proof (nm_wire_length owner). destruct Hem; lia. }
  assert (Hm1 : w_mode (set_mro w1 pr) = w_mode w) by (simpl; apply X).
  assert (Hc1 : w_cursor (set_mro w1 pr) = w_cursor w1) by reflexivity.
  assert (Hav1 : w_avail (set_mro w1 pr) = w_avail w1) by reflexivity.
  assert (Hl1 : w_buf (set_mro w1 pr) = w_buf w1) by reflexivity.
  assert (Hq1 : w_qname (set_mro w1 pr) = w_qname w) by (simpl; apply Sd).
  generalize dependent (set_mro w1 pr). intros w1' Hi1' A1 V1 Hm1 Hc1 Hav1 Hl1 Hq1.
  pose proof (x_av _ _ _ X) as Hav0. pose proof (x_cur _ _ _ X) as Hcur0.
  destruct (try_push_u16 ty w1') as [[u2 w2]|[e w2]|] eqn:E2; cbn [bind].
  3:{ destruct Hi1' as [[N1 N2] _ _ _ _ _ _ _]. eapply try_push_no_panic; eauto. }
  2:{ left. apply try_push_err in E2 as E'. destruct E' as [-> ->]. split; auto.
      pose proof (try_push_err_size _ _ _ _ (proj1 (ni_nb _ _ _ Hi1')) E2) as K.
      unfold be16 in K. simpl length in K. lia. }
  destruct (push_step _ _ _ _ _ _ _ _ _ _ _ E2 Hi1' A1 V1) as [Hi2 [A2 [V2 [Hc2 [X2 Q2]]]]].
  destruct (try_push_u16 cl w2) as [[u3 w3]|[e w3]|] eqn:E3; cbn [bind].
  3:{ destruct Hi2 as [[N1 N2] _ _ _ _ _ _ _]. eapply try_push_no_panic; eauto. }
  2:{ left. apply try_push_err in E3 as E'. destruct E' as [-> ->]. split; auto.
      pose proof (try_push_err_size _ _ _ _ (proj1 (ni_nb _ _ _ Hi2)) E3) as K.
      unfold be16 in K, Hc2. simpl length in K, Hc2. rewrite (x_av _ _ _ X2) in K. lia. }
  destruct (push_step _ _ _ _ _ _ _ _ _ _ _ E3 Hi2 A2 V2) as [Hi3 [A3 [V3 [Hc3 [X3 Q3]]]]].
  destruct (try_push_u32 ttl w3) as [[u4 w4]|[e w4]|] eqn:E4; cbn [bind].
  3:{ destruct Hi3 as [[N1 N2] _ _ _ _ _ _ _]. eapply try_push_no_panic; eauto. }
  2:{ left. apply try_push_err in E4 as E'. destruct E' as [-> ->]. split; auto.
      pose proof (try_push_err_size _ _ _ _ (proj1 (ni_nb _ _ _ Hi3)) E4) as K.
      unfold be16 in Hc2, Hc3. unfold be32 in K. simpl length in K, Hc2, Hc3.
      rewrite (x_av _ _ _ X3), (x_av _ _ _ X2) in K. lia. }
  destruct (push_step _ _ _ _ _ _ _ _ _ _ _ E4 Hi3 A3 V3) as [Hi4 [A4 [V4 [Hc4 [X4 Q4]]]]].
  destruct (push3 _ _ _ _ _ _ _ _ _ _ E2 E3 E4) as [Hfix _].
  unfold be16 in Hc2, Hc3. unfold be32 in Hc4. simpl length in Hc2, Hc3, Hc4.
  assert (Hav4 : w_avail w4 = w_avail w1').
  { rewrite (x_av _ _ _ X4), (x_av _ _ _ X3), (x_av _ _ _ X2). reflexivity. }
  assert (Hl4 : length (w_buf w4) = length (w_buf w1')).
  { rewrite (x_len _ _ _ X4), (x_len _ _ _ X3), (x_len _ _ _ X2). reflexivity. }
  pose proof (ni_nb _ _ _ Hi4) as [N41 N42].
  destruct (w_avail w4 <? w_cursor w4) eqn:Ea; [apply Nat.ltb_lt in Ea; lia|].
  destruct (w_avail w4 - w_cursor w4 <? 2) eqn:Eb.
  { apply Nat.ltb_lt in Eb. left. split; auto. lia. }
  apply Nat.ltb_ge in Eb. cbn zeta.
  set (c4 := w_cursor w4) in *.
  set (w5 := set_cursor w4 (c4 + 2)).
  assert (Hi5 : NInv w5 c4 L1).
  { destruct Hi4 as [_ Hlo4 _ Hcl4 Hd4 [Pq [Po Pr]] HL4 Hsd4]. constructor; simpl.
    - split; simpl; lia.
    - fold c4 in Hlo4. lia.
    - right. lia.
    - eapply closed_mono_c; [eapply closed_rehole; eauto|lia]; try (fold c4; lia).
    - eapply decodable_mono; eauto; try (fold c4; lia).
    - repeat split; simpl; eapply oprior_ok_stable; eauto; try apply agree_refl; fold c4; lia.
    - exact HL4.
    - eapply sdec_mono; eauto; try (fold c4; lia). }
  assert (A5 : anch3 w5 L1 gq (Some owner) gr).
  { destruct A4 as [B1 [B2 B3]]. unfold anch3, w5; simpl.
    repeat split; eapply anch_mono; eauto; try apply agree_refl; fold c4; lia. }
  assert (V5 : vec_ok (w_buf w5) (w_cursor w5) L1 v names).
  { unfold w5; simpl. eapply vec_mono; eauto; try apply agree_refl. fold c4; lia. }
  pose proof (comps_L c4 (component_types cl ty) rd names gr v w5 L1 Hi5 Hrd (proj2 (proj2 A5)) V5) as P6.
  unfold comps_post in P6.
  destruct (write_components (component_types cl ty) rd v w5) as [[v' w6]|[e w6]|]; cbn [bind]; auto.
  2:{ destruct P6 as [[-> Hs]|[-> Hs]]; [left|right; auto]. split; auto.
      unfold w5 in Hs; simpl in Hs. lia. }
  destruct P6 as [L6 [G6 [Hi6 [Q6 [O6 [A6 [V6 [Vs [Hc6 [X6 [parts [P6 [Pa6 [Pc6 [Pt6 [Ps6 Pp6]]]]]]]]]]]]]]]].
  unfold w5 in Q6, O6, Hc6, X6, P6, Pc6; simpl in Q6, O6, Hc6, X6, P6, Pc6. fold w5 in X6.
  pose proof (x_cur _ _ _ X6) as Hcur6. unfold w5 in Hcur6; simpl in Hcur6.
  destruct (w_cursor w6 <? c4 + 2) eqn:Ec; [apply Nat.ltb_lt in Ec; lia|].
  pose proof (ni_nb _ _ _ Hi6) as [N61 N62].
  destruct (buf_write_some (w_buf w6) c4 (be16 (N.of_nat (w_cursor w6 - c4 - 2) mod 65536)))
    as [b7 Hb7]; [unfold be16; simpl length; lia|].
  unfold lift, w_write. rewrite Hb7. cbn [bind].
  destruct (NInv_patch w6 c4 L6 c4 _ b7 Hi6 Hb7) as [Hi7 R7]; [right; unfold be16; simpl length; lia|].
  exists L6. split.
  { apply (grew_trans w w1 (set_buf w6 b7) L L1 L6); [lia|simpl; lia|exact G1|].
    destruct G6 as [G61 G62]. split; auto. intros s Hs. destruct (G62 s Hs) as [K|K]; auto.
    right. unfold w5 in K; simpl in K |- *. lia. }
  split; [exact Hi7|].
  assert (Hcl6 := ni_closed _ _ _ Hi6).
  split.
  { unfold anch3; simpl. rewrite Q6, O6.
    destruct A5 as [B1 [B2 B3]]. unfold w5 in B1, B2; simpl in B1, B2.
    pose proof (x_agree _ _ _ X6) as Ag6. unfold w5 in Ag6; simpl in Ag6.
    repeat split; eapply anch_transfer; eauto.
    - eapply anch_mono; eauto. apply G6.
    - eapply anch_mono; eauto. apply G6. }
  split; [simpl; eapply vec_transfer; eauto|]. split; auto. split; [simpl; lia|].
  split; [simpl; congruence|].
  (* the layout of the record *)
  pose proof (x_agree _ _ _ X6) as Ag6. unfold w5 in Ag6; simpl in Ag6.
  assert (Ag14 : agree (w_cursor w1) (w_buf w1) (w_buf w4)).
  { rewrite <- Hl1. rewrite <- Hc1.
    eapply agree_trans; [apply X2|]. eapply agree_trans; [eapply agree_le; [apply X3|lia]|].
    eapply agree_le; [apply X4|lia]. }
  assert (Ag16 : agree (w_cursor w1) (w_buf w1) (w_buf w6)).
  { eapply agree_trans; [exact Ag14|]. eapply agree_le; [exact Ag6|lia]. }
  assert (Hc41 : c4 = w_cursor w1 + 8) by lia.
  set (och := mkNC (w_cursor w) (w_cursor w1) owner (exactf (w_mode w)) sh).
  assert (Och6 : chunk_ok (w_buf w6) L6 och).
  { eapply chunk_mono; [apply G6|]. eapply (chunk_append (w_buf w1) (w_cursor w1)); [exact Ag16|simpl; lia|].
    split; [simpl; lia|]. simpl. eapply shape_mono; [apply G1|exact Hsh]. }
  exists (mkLR och ty cl ttl parts (w_cursor w6)).
  assert (Hle6 : w_cursor w6 <= length (w_buf w6)) by lia.
  split.
  { unfold rr_at; simpl.
    split.
    { eapply (chunk_transfer (w_buf w6) header_size (w_cursor w6) c4 L6); eauto.
      - simpl. unfold okr. pose proof (ni_lo _ _ _ Hi). lia.
      - simpl. lia. }
    split.
    { unfold rr_fixed. cbn [lr_ty lr_cl lr_ttl lr_end lr_owner nc_end och].
      replace (w_cursor w1 + 10) with (w_cursor w1 + 8 + 2) by lia.
      rewrite (slice_app _ (w_cursor w1) (w_cursor w1 + 8)) by lia.
      match goal with |- _ = ?a ++ ?b ++ ?c ++ ?d =>
        replace (a ++ b ++ c ++ d) with ((a ++ b ++ c) ++ d) by (rewrite <- !app_assoc; reflexivity) end.
      f_equal.
      - rewrite (ragree_slice header_size (w_cursor w6) c4 (w_buf w6) b7 _ _ R7); try lia.
        + rewrite (agree_slice (c4 + 2) (w_buf w4) (w_buf w6) _ _ Ag6) by lia.
          rewrite <- Hc41. rewrite <- Hc1. exact Hfix.
        + unfold okr. pose proof (ni_lo _ _ _ Hi). lia.
      - rewrite <- Hc41.
        pose proof (buf_write_data _ _ _ _ Hb7) as Hd7. unfold be16 in Hd7 at 1. simpl length in Hd7.
        rewrite Hd7. f_equal. f_equal. f_equal. lia. }
    split; [lia|].
    replace (w_cursor w1 + 10) with (c4 + 2) by lia.
    eapply (parts_transfer (w_buf w6) header_size (w_cursor w6) c4 L6); eauto.
    unfold okr. pose proof (ni_lo _ _ _ Hi). lia. }
  split; [reflexivity|]. split; [reflexivity|].
  split.
  { unfold rr_desc; simpl. repeat split; auto; try lia. rewrite <- Hm1.
    rewrite <- (x_mode _ _ _ X2), <- (x_mode _ _ _ X3), <- (x_mode _ _ _ X4). exact Pc6. }
  split; [intros s; rewrite Pt6, Ht1; unfold rr_starts, chunk_starts; simpl; rewrite in_app_iff; tauto|].
  intros Hd. split; simpl.
  - destruct sh as [[k pp]|]; auto. exfalso.
    destruct (disabled_plain_hinted h owner w pr w1 Hd Ewh) as [Hpl _].
    eapply shape_plain_unique; eauto.
  - apply Pp6. unfold w5. simpl. rewrite (x_mode _ _ _ X4), (x_mode _ _ _ X3), (x_mode _ _ _ X2), Hm1. exact Hd.
Qed.

(* ---------------------------------------------------------------- add_rrset *)

Fixpoint rds_names (cts : list ctype) (rds : list bytes) : list wname :=
  match rds with [] => [] | rd :: r => rd_names cts rd ++ rds_names cts r end.
Definition rds_size (owner : wname) (rds : list bytes) : nat :=
  fold_right (fun rd acc => length (nm_wire owner) + 10 + length rd + acc) 0 rds.

Lemma lastn_app a c d : lastn (a ++ c) d = lastn c (lastn a d).
Proof. unfold lastn. apply fold_left_app. Qed.

Lemma owner_hint_ok w h L gq gr owner : NInv w h L -> anch3 w L gq (Some owner) gr ->
  hint_contract HOwner owner w.
Proof.
  intros Hi [_ [A _]] pr E. destruct (A pr E) as [m [Em [St Hl]]]. inversion Em; subst m.
  eapply stands_hinted; eauto. apply name_eq_refl.
Qed.

Definition rrset_post (owner : wname) (ty cl ttl : N) (cts : list ctype) (rds : list bytes) (names : list wname)
           (gq go gr : option wname) (v : option hvec) (k : nat) (w : writer) (L : nat -> Prop)
           (r : M (option hvec * nat)) : Prop :=
  match r with
  | Ok ((v', k'), w') =>
    exists L', grew w w' L L' /\ NInv w' (length (w_buf w')) L' /\
      anch3 w' L' gq (match rds with [] => go | _ => Some owner end) (lastn (rds_names cts rds) gr) /\
      vec_ok (w_buf w') (w_cursor w') L' v' (names ++ rds_names cts rds) /\ vsome v' = vsome v /\
      k' = k + length rds /\ w_cursor w' <= w_cursor w + rds_size owner rds /\ w_cursor w <= w_cursor w' /\
      w_qname w' = w_qname w /\
      exists rs, rrs_at (w_buf w') L' rs (w_cursor w) (w_cursor w') /\
                 Forall2 (fun r rd => rr_desc r owner (exactf (w_mode w)) ty cl ttl cts rd) rs rds /\
                 (forall s, L' s <-> L s \/ In s (rrs_starts rs)) /\
                 (w_mode w = Disabled -> Forall rr_plain rs)
  | Err (e, w') =>
    (e = Truncation /\ w_avail w < w_cursor w + rds_size owner rds) \/ (e = InvalidRdata /\ cts <> [])
  | Panic => False
  end.

Lemma rrset_L owner ty cl ttl gq : forall rds h v k w L names go gr,
  NInv w (length (w_buf w)) L -> anch3 w L gq go gr -> vec_ok (w_buf w) (w_cursor w) L v names ->
  wf_name owner -> Forall wf_bytes rds -> hint_contract h owner w -> hint_in h w L ->
  rrset_post owner ty cl ttl (component_types cl ty) rds names gq go gr v k w L
             (add_rrset_loop h owner ty cl ttl rds v k w).
Proof.
  induction rds as [|rd rest IH]; intros h v k w L names go gr Hi A V Hwf Hrds Hh HhL.
  - simpl. exists L. rewrite app_nil_r. split; [apply grew_refl|]. split; [exact Hi|].
    split; [exact A|]. split; [exact V|]. split; [reflexivity|]. split; [lia|]. split; [lia|]. split; [lia|].
    split; [reflexivity|]. exists []. simpl. split; [reflexivity|]. split; [constructor|].
    split; [intros s; tauto|intros _; constructor].
  - inversion Hrds as [|? ? Hrd Hrest]; subst. cbn [add_rrset_loop].
    pose proof (add_rr_L h owner ty cl ttl rd v w L names gq go gr Hi A V Hwf Hrd Hh HhL) as P.
    assert (Hpre : pre (w_cursor w) w) by (split; [lia|apply Hi]).
    pose proof (frame_add_rr (w_cursor w) h owner ty cl ttl rd v w Hpre) as F.
    destruct (add_rr h owner ty cl ttl rd v w) as [[v1 w1]|[e w1]|]; simpl in P, F; cbn [bind]; auto.
    2:{ simpl. destruct P as [[-> Hs]|[-> Hs]]; [left|right; auto]. split; auto. lia. }
    destruct P as [L1 [G1 [Hi1 [A1 [V1 [Vs1 [Hc1 [Hq1 [r1 [R1 [Rp1 [Re1 [Rd1 [Rt1 Rpl1]]]]]]]]]]]]]].
    assert (Hpre1 : pre (w_cursor w1) w1) by (split; [lia|apply Hi1]).
    pose proof (frame_rrset_loop (w_cursor w1) rest HOwner owner ty cl ttl v1 (S k) w1 Hpre1) as F2.
    specialize (IH HOwner v1 (S k) w1 L1 (names ++ rd_names (component_types cl ty) rd) (Some owner)
                   (lastn (rd_names (component_types cl ty) rd) gr) Hi1 A1 V1 Hwf Hrest
                   (owner_hint_ok _ _ _ _ _ _ Hi1 A1) I).
    unfold rrset_post in IH |- *.
    destruct (add_rrset_loop HOwner owner ty cl ttl rest v1 (S k) w1) as [[[v2 k2] w2]|[e w2]|]; auto.
    + destruct IH as [L2 [G2 [Hi2 [A2 [V2 [Vs2 [Hk [Hc2 [Hm2 [Hq2 [rs2 [R2 [Rd2 [Rt2 Rpl2]]]]]]]]]]]]]].
      simpl in F2.
      pose proof (x_cur _ _ _ F) as Hm1.
      exists L2. split.
      { apply (grew_trans w w1 w2 L L1 L2); auto. }
      split; [exact Hi2|]. split.
      { cbn [rds_names]. rewrite lastn_app. destruct rest; exact A2. }
      split; [cbn [rds_names]; rewrite app_assoc; exact V2|]. split; [congruence|].
      split; [simpl; lia|]. split; [simpl; lia|]. split; [lia|]. split; [congruence|].
      exists (r1 :: rs2). split.
      { simpl. split; auto. split.
        - eapply rr_mono; [apply G2|]. eapply (rr_append (w_buf w1) (w_cursor w1)); [apply F2|lia|exact R1].
        - rewrite Re1. split; [lia|exact R2]. }
      split.
      { constructor; auto. rewrite <- (x_mode _ _ _ F). exact Rd2. }
      split; [intros s; rewrite Rt2, Rt1; unfold rrs_starts; simpl; rewrite in_app_iff; tauto|].
      intros Hd. constructor; auto. apply Rpl2. rewrite (x_mode _ _ _ F). exact Hd.
    + destruct IH as [[-> Hs]|[-> Hs]]; [left|right; auto]. split; auto.
      rewrite (x_av _ _ _ F) in Hs. simpl. lia.
Qed.
