(* C23 stages 3 and 4: a whole record line through parse_record_or_empty (with the context update), the
   $ORIGIN / $TTL directives, blank lines, and whole files through the iterator. *)
From QV Require Import Base.ListX Model.NameWire Spec.NameWireS Spec.NameRepr Proofs.NameWireP
  Model.ZfReader Model.ZfParser Proofs.ZfReaderP Proofs.ZfStdP Spec.ZfValidS Proofs.ZfNameP Proofs.ZfParserP
  Proofs.ZfRecordP Proofs.ZfFieldsP Proofs.ZfRunP Proofs.ZfTokP Proofs.ZfNameRP Proofs.ZfSymP Proofs.ZfAddrP
  Proofs.ZfRecRP Spec.ZfRenderS Model.ZfRecOnly.

Local Open Scope N_scope.

(* for either numbering of the bits of a WKS bit map; where a WKS record lists ports in its own syntax the
   parser's numbering is required ([ord_rdata] / [ord_line] / [ord_file]) *)
Section Ord.
Context {bo : BitOrder}.

Definition ord_rdata (dc : dchoice) (d : ardata) : Prop := bo = impl_order \/ wks_listed dc d = false.
Definition ord_line (l : aline) : Prop := bo = impl_order \/ line_wks_listed l = false.
Definition ord_file (ls : list aline) : Prop := Forall ord_line ls.

(* the record of the model that an abstract record denotes *)
Definition rr_of (r : arec) : rr :=
  mkRr (name_of (a_owner r)) (a_ttl r) (a_class r) (a_type r) (rdata_wire (a_rdata r)).

(* ---- the beginning of a line: skip_whitespace, then field navigation --------------------------------------------------- *)

(* a separator without its leading blanks *)
Definition sep_strip (s : sep) : bytes * sep :=
  match s_groups s with
  | (bl, it) :: gs => (bl, mkSep (([], it) :: gs) (s_tail s))
  | [] => (s_tail s, mkSep [] [])
  end.

Lemma sep_strip_spec s p p' : sep_paren p s = Some p' ->
  let (b0, s') := sep_strip s in
  render_sep s = b0 ++ render_sep s' /\ blanks_ok b0 = true /\ sep_paren p s' = Some p' /\
  sep_lead_blank s = negb (beq b0 []) /\ (forall X, not_ws_head X -> not_ws_head (render_sep s' ++ X)).
Proof.
  unfold sep_paren, sep_strip, sep_lead_blank, render_sep. destruct (blanks_ok (s_tail s)) eqn:Ht; [|discriminate].
  destruct (s_groups s) as [|[bl it] gs]; cbn [s_groups s_tail].
  - intros [= <-]. cbn [flat_map app]. rewrite app_nil_r. repeat split; auto.
  - cbn [groups_paren]. destruct (blanks_ok bl) eqn:Hb; [|discriminate]. intros H.
    cbn [flat_map]. unfold render_group_s at 1 3. cbn [fst snd app]. rewrite <- !app_assoc. rewrite Ht. cbn [blanks_ok forallb].
    repeat split; auto. intros X HX. rewrite <- !app_assoc. apply sitem_not_ws.
Qed.

Lemma lead_field {B} (g : bool -> field_or_eol -> M B) (T : bytes -> Prop) lead s2 p1 p2 v :
  sep_paren false lead = Some p1 -> (forall t, T t -> fstart (s2 ++ t)) ->
  runs T (g (sep_lead_blank lead) Field) s2 p1 p2 v ->
  runs T (bindM (lift skip_whitespace) (fun lw => bindM skip_to_next_field_or_through_eol (fun f => g lw f)))
       (render_sep lead ++ s2) false p2 v.
Proof.
  intros Hs Hf Hg r t E P W Ht. pose proof (sep_strip_spec lead false p1 Hs) as S. destruct (sep_strip lead) as [b0 lead'].
  destruct S as (Etext & Hb0 & Hs' & Hlb & Hnw).
  rewrite Etext, <- !app_assoc in E.
  assert (Hnws : not_ws_head (render_sep lead' ++ s2 ++ t)) by (apply Hnw, fstart_not_ws, Hf, Ht).
  destruct (skip_ws_post r b0 _ Hb0 Hnws E) as (S1 & P1 & Lw).
  unfold bindM at 1. unfold lift. destruct (skip_whitespace r) as [lw r1] eqn:Esw. cbn [fst snd] in S1, Lw. subst r1 lw.
  set (r1 := adv r (length b0)) in *.
  pose proof (post_wfr _ _ _ _ _ W E P1) as W1.
  assert (E1 : r_rest r1 = render_sep lead' ++ s2 ++ t) by (destruct P1 as (A & _); exact A).
  assert (Pp1 : r_paren r1 = false) by (destruct P1 as (_ & A & _); congruence).
  destruct (through_field_runs lead' false p1 Hs' r1 (s2 ++ t) E1 Pp1 W1 (Hf t Ht)) as (r2 & F2 & P2).
  unfold bindM at 1. rewrite F2.
  pose proof (post_wfr _ _ _ _ _ W1 E1 P2) as W2.
  destruct (Hg r2 t ltac:(destruct P2 as (A & _); exact A) ltac:(destruct P2 as (_ & A & _); exact A) W2 Ht) as (r3 & F3 & P3).
  exists r3. rewrite <- Hlb. split; [exact F3|]. rewrite Etext, <- app_assoc.
  eapply post_trans3; [|exact P2|exact P3]. rewrite P in P1. exact P1.
Qed.

Lemma lead_eol {B} (g : bool -> field_or_eol -> M B) e v :
  eol_ok false e = true -> (forall lw r, g lw Eol r = Ok (v, r)) ->
  runs (eoft (e_term e)) (bindM (lift skip_whitespace) (fun lw => bindM skip_to_next_field_or_through_eol (fun f => g lw f)))
       (render_eol e) false false v.
Proof.
  intros He Hg r t E P W Ht. pose proof He as He'. unfold eol_ok in He'.
  destruct (sep_paren false (e_sep e)) as [[|]|] eqn:Hs; try discriminate.
  pose proof (sep_strip_spec (e_sep e) false false Hs) as S. destruct (sep_strip (e_sep e)) as [b0 lead'].
  destruct S as (Etext & Hb0 & Hs' & Hlb & Hnw).
  unfold render_eol in E. rewrite Etext, <- !app_assoc in E.
  assert (Hnws : not_ws_head (render_sep lead' ++ render_term (e_term e) ++ t)) by (apply Hnw, term_not_ws, Ht).
  destruct (skip_ws_post r b0 _ Hb0 Hnws E) as (S1 & P1 & Lw).
  unfold bindM at 1. unfold lift. destruct (skip_whitespace r) as [lw r1] eqn:Esw. cbn [fst snd] in S1, Lw. subst r1 lw.
  set (r1 := adv r (length b0)) in *.
  pose proof (post_wfr _ _ _ _ _ W E P1) as W1.
  assert (E1 : r_rest r1 = render_eol (mkEol lead' (e_term e)) ++ t).
  { destruct P1 as (A & _). rewrite A. unfold render_eol. cbn [e_sep e_term]. rewrite <- app_assoc. reflexivity. }
  assert (Pp1 : r_paren r1 = false) by (destruct P1 as (_ & A & _); congruence).
  assert (He1 : eol_ok false (mkEol lead' (e_term e)) = true) by (unfold eol_ok; cbn [e_sep e_term]; rewrite Hs'; exact He').
  destruct (through_eol_runs (mkEol lead' (e_term e)) false He1 r1 t E1 Pp1 W1 Ht) as (r2 & F2 & P2).
  unfold bindM at 1. rewrite F2. exists r2. split; [apply Hg|].
  unfold render_eol at 1. rewrite Etext, <- app_assoc.
  eapply post_trans; [|exact P2]. rewrite P in P1. unfold render_eol. cbn [e_sep e_term]. rewrite <- app_assoc. exact P1.
Qed.

(* ---- the TYPE field ---------------------------------------------------------------------------------------------------------- *)

Lemma type_runs sc ty p : sym_ok spec_types sc ty = true -> type_allowed_b ty = true ->
  runs fend parse_type (render_type sc ty) p p ty.
Proof.
  intros Hok Hal. destruct (type_tok sc ty Hok) as [H1 H2]. unfold parse_type. apply runs_getpos. intros q.
  apply runs_app_nil. eapply runs_bind; [apply read_field_runs; [exact H1|exact H2|apply type_roundtrip; exact Hok]|intros t Ht; exact Ht|].
  cbv beta. unfold type_allowed_b in Hal. apply negb_true_iff in Hal. apply orb_false_iff in Hal. destruct Hal as [Hal H250].
  apply orb_false_iff in Hal. destruct Hal as [H10 H41].
  change TYPE_NULL with 10. change TYPE_OPT with 41. change TYPE_TSIG with 250. rewrite H10, H41, H250. apply runs_ret.
Qed.

Lemma tc_m_bind {B} c (K : N * N -> M B) r :
  bindM (parse_ttl_and_class c) (fun tc => bindM (skip_to_next_field ExpectedType) (fun _ => K tc)) r = bindM (tc_m c) K r.
Proof.
  unfold tc_m. rewrite bindM_assoc. unfold bindM. destruct (parse_ttl_and_class c r) as [[tc r1]|e|]; try reflexivity.
  destruct (skip_to_next_field ExpectedType r1) as [[u r2]|e|]; reflexivity.
Qed.

(* what follows the TYPE token ends its field *)
Lemma rdata_fend o p class type dc d p3 e t : rdata_ok o p class type dc d = Some p3 -> eol_ok p3 e = true ->
  eoft (e_term e) t -> fend (render_rdata dc d ++ render_eol e ++ t).
Proof.
  intros H He Ht. apply rdata_ok_inv in H. destruct H as (_ & _ & [(cs & fs & -> & -> & Hok)|(s0 & s1 & ic & ws & -> & Hgen)]).
  - cbn [render_rdata]. destruct fs as [|f fs].
    + apply fields_ok_nil in Hok. subst p3. cbn [render_fields app]. eapply fend_eol; eassumption.
    + apply fields_ok_cons in Hok. destruct Hok as (q & Hs & _). apply sep_ok_inv in Hs. destruct Hs as [Hs Hse].
      cbn [render_fields]. rewrite <- !app_assoc. eapply fend_sep; [exact Hs|apply Hse; reflexivity].
  - destruct Hgen as (p0 & p1 & Hs0 & _). apply sep_ok_inv in Hs0. destruct Hs0 as [Hs Hse].
    cbn [render_rdata]. rewrite <- !app_assoc. eapply fend_sep; [exact Hs|apply Hse; reflexivity].
Qed.

(* ---- one record line (stage 3) ---------------------------------------------------------------------------------------------------- *)

Lemma ctx_tc_of x : ctx_tc x (ctx_of x). Proof. repeat split. Qed.

Theorem record_fields_runs x rc r sol p1 : ord_rdata (rc_rdata rc) (a_rdata r) ->
  sctx_good x -> sep_paren false (rc_lead rc) = Some p1 -> record_ok x rc r = true ->
  runs (eoft (e_term (rc_end rc))) (parse_record_fields (ctx_of x) sol (sep_lead_blank (rc_lead rc)))
       (match rc_owner rc with Some (nc, s) => render_name nc (a_owner r) ++ render_sep s | None => [] end
        ++ render_tc (rc_tc rc) (a_class r) ++ render_type (rc_type rc) (a_type r)
        ++ render_rdata (rc_rdata rc) (a_rdata r) ++ render_eol (rc_end rc))
       p1 false
       (Some (mkLine (p_line sol) (CRecord (rr_of r))), ctx_of (after_record x r)).
Proof.
  intros Hord Hx Hlead Hok. unfold record_ok in Hok. rewrite Hlead in Hok.
  destruct (match rc_owner rc with
            | Some (nc, s) => if negb (sep_lead_blank (rc_lead rc)) && name_ok false true (x_origin x) nc (a_owner r)
                              then sep_ok p1 false s else None
            | None => if sep_lead_blank (rc_lead rc) && opt_lbeq (x_owner x) (a_owner r) then Some p1 else None
            end) as [p2|] eqn:Eown; [|discriminate].
  apply andb_true_iff in Hok. destruct Hok as [Hok Hrest]. apply andb_true_iff in Hok. destruct Hok as [Hok _].
  apply andb_true_iff in Hok. destruct Hok as [Hgo _].
  destruct (tc_ok x p2 (rc_tc rc) r) as [p3|] eqn:Etc; [|discriminate].
  apply andb_true_iff in Hrest. destruct Hrest as [Hty Hrd]. apply andb_true_iff in Hty. destruct Hty as [Hty Hal].
  destruct (rdata_ok (x_origin x) p3 (a_class r) (a_type r) (rc_rdata rc) (a_rdata r)) as [p4|] eqn:Erd; [|discriminate].
  rename Hrd into Heol.
  destruct (type_tok _ _ Hty) as [Htt1 Htt2].
  assert (Htoktail : forall t, eoft (e_term (rc_end rc)) t ->
            toktail (render_type (rc_type rc) (a_type r))
                    ((render_type (rc_type rc) (a_type r) ++ render_rdata (rc_rdata rc) (a_rdata r) ++ render_eol (rc_end rc)) ++ t)).
  { intros t Ht. eexists. split; [rewrite <- app_assoc; reflexivity|]. rewrite <- app_assoc. eapply rdata_fend; eassumption. }
  (* everything after the owner *)
  assert (Rest : forall K, (forall tc, K tc = (do rr_type <- parse_type; do rdata <- parse_rdata (ctx_of x) (snd tc) rr_type;
                                   ret (Some (mkLine (p_line sol) (CRecord (mkRr (name_of (a_owner r)) (fst tc) (snd tc) rr_type rdata))),
                                        mkCtx (c_origin (ctx_of x)) (Some (name_of (a_owner r))) (Some (fst tc)) (Some (snd tc)) (c_default_ttl (ctx_of x))))) ->
          runs (eoft (e_term (rc_end rc))) (bindM (tc_m (ctx_of x)) K)
               (render_tc (rc_tc rc) (a_class r) ++ render_type (rc_type rc) (a_type r)
                ++ render_rdata (rc_rdata rc) (a_rdata r) ++ render_eol (rc_end rc)) p2 false
               (Some (mkLine (p_line sol) (CRecord (rr_of r))), ctx_of (after_record x r))).
  { intros K HK.
    eapply runs_bind; [eapply (tc_runs x (ctx_of x) (rc_tc rc) r p2 p3); [apply ctx_tc_of|exact Etc|split; [exact Htt1|exact Htt2]|apply type_roundtrip; exact Hty]|exact Htoktail|].
    rewrite HK. cbn [fst snd].
    eapply runs_bind; [apply type_runs; assumption|intros t Ht; rewrite <- app_assoc; eapply rdata_fend; eassumption|].
    cbv beta. apply runs_app_nil.
    eapply runs_bind; [eapply rdata_runs; [exact Hx|exact Hord|exact Erd|exact Heol]|intros t Ht; exact Ht|].
    cbv beta. apply runs_ret. }
  unfold parse_record_fields. destruct (rc_owner rc) as [[nc s]|] eqn:Eo.
  - destruct (negb (sep_lead_blank (rc_lead rc))) eqn:Elb; [|discriminate]. cbn [andb] in Eown.
    destruct (name_ok false true (x_origin x) nc (a_owner r)) eqn:Enm; [|discriminate].
    apply negb_true_iff in Elb. rewrite Elb.
    pose proof (sep_ok_inv _ _ _ _ Eown) as [HPs HEs].
    rewrite <- !app_assoc.
    eapply runs_bind; [eapply name_runs; [exact Enm|exact Hx]|intros t Ht; rewrite <- app_assoc; eapply fend_sep; [exact HPs|apply HEs; reflexivity]|].
    cbv beta.
    eapply runs_bind; [apply skip_to_next_field_runs; exact HPs| |].
    { intros t Ht. destruct (Htoktail t Ht) as (t' & Et & Ht').
      destruct (rc_tc rc) as [|raw ic s'|sc s'|raw ic s1 sc s2|sc s1 raw ic s2]; cbn [render_tc app]; rewrite <- ?app_assoc.
      - apply tok_fstart; [exact Htt1|]. intros Hn. pose proof (type_roundtrip _ _ Hty) as Hr. rewrite Hn in Hr. rewrite type_from_str_nil in Hr. discriminate.
      - destruct (uint_head ic raw) as (h & tl & Eh & _ & Hp). rewrite Eh. cbn [app]. apply fstart_plain. exact Hp.
      - cbn [tc_ok] in Etc. destruct (class_shown_ok sc r) eqn:Ec; [|discriminate]. destruct (class_tok _ _ Ec) as [Hc1 _].
        apply tok_fstart; [exact Hc1|]. intros Hn. pose proof (class_roundtrip _ _ Ec) as Hr. rewrite Hn in Hr. vm_compute in Hr. discriminate.
      - destruct (uint_head ic raw) as (h & tl & Eh & _ & Hp). rewrite Eh. cbn [app]. apply fstart_plain. exact Hp.
      - cbn [tc_ok] in Etc. destruct (ttl_shown_ok raw ic r); [|discriminate]. destruct (class_shown_ok sc r) eqn:Ec; [|discriminate]. destruct (class_tok _ _ Ec) as [Hc1 _].
        apply tok_fstart; [exact Hc1|]. intros Hn. pose proof (class_roundtrip _ _ Ec) as Hr. rewrite Hn in Hr. vm_compute in Hr. discriminate. }
    cbv beta. eapply runs_eq; [intros r0; apply tc_m_bind|]. apply Rest. intros tc. reflexivity.
  - destruct (sep_lead_blank (rc_lead rc)) eqn:Elb; [|discriminate]. cbn [andb] in Eown.
    destruct (opt_lbeq (x_owner x) (a_owner r)) eqn:Eow; [|discriminate]. inversion Eown; subst p2.
    apply opt_lbeq_eq in Eow. cbn [app].
    assert (Epo : c_prev_owner (ctx_of x) = Some (name_of (a_owner r))) by (unfold ctx_of; cbn [c_prev_owner]; rewrite Eow; reflexivity).
    rewrite Epo. eapply runs_eq; [intros r0; apply bind_ret_l|].
    change (render_tc (rc_tc rc) (a_class r) ++ render_type (rc_type rc) (a_type r) ++ render_rdata (rc_rdata rc) (a_rdata r) ++ render_eol (rc_end rc))
      with ([] ++ render_tc (rc_tc rc) (a_class r) ++ render_type (rc_type rc) (a_type r) ++ render_rdata (rc_rdata rc) (a_rdata r) ++ render_eol (rc_end rc)).
    eapply runs_bind; [apply (skip_to_next_field_runs _ sep_none p1 p1); reflexivity| |].
    { intros t Ht. destruct (Htoktail t Ht) as (t' & Et & Ht').
      destruct (rc_tc rc) as [|raw ic s'|sc s'|raw ic s1 sc s2|sc s1 raw ic s2]; cbn [render_tc app]; rewrite <- ?app_assoc.
      - apply tok_fstart; [exact Htt1|]. intros Hn. pose proof (type_roundtrip _ _ Hty) as Hr. rewrite Hn in Hr. rewrite type_from_str_nil in Hr. discriminate.
      - destruct (uint_head ic raw) as (h & tl & Eh & _ & Hp). rewrite Eh. cbn [app]. apply fstart_plain. exact Hp.
      - cbn [tc_ok] in Etc. destruct (class_shown_ok sc r) eqn:Ec; [|discriminate]. destruct (class_tok _ _ Ec) as [Hc1 _].
        apply tok_fstart; [exact Hc1|]. intros Hn. pose proof (class_roundtrip _ _ Ec) as Hr. rewrite Hn in Hr. vm_compute in Hr. discriminate.
      - destruct (uint_head ic raw) as (h & tl & Eh & _ & Hp). rewrite Eh. cbn [app]. apply fstart_plain. exact Hp.
      - cbn [tc_ok] in Etc. destruct (ttl_shown_ok raw ic r); [|discriminate]. destruct (class_shown_ok sc r) eqn:Ec; [|discriminate]. destruct (class_tok _ _ Ec) as [Hc1 _].
        apply tok_fstart; [exact Hc1|]. intros Hn. pose proof (class_roundtrip _ _ Ec) as Hr. rewrite Hn in Hr. vm_compute in Hr. discriminate. }
    cbv beta. eapply runs_eq; [intros r0; apply tc_m_bind|]. apply Rest. intros tc. reflexivity.
Qed.

(* ---- whole lines ------------------------------------------------------------------------------------------------------------------------- *)

Definition item_of (n : N) (r : arec) : line := mkLine n (CRecord (rr_of r)).
(* the line of the model that an item of the specification denotes *)
Definition line_of (n : N) (it : aitem) : line :=
  match it with
  | IRecord r => item_of n r
  | IInclude path o => mkLine n (CInclude path (option_map name_of o))
  end.
(* what a line yields *)
Definition line_item (x : sctx) (l : aline) : option aitem :=
  match l with
  | LRecord _ r => Some (IRecord r)
  | LInclude _ _ _ path org _ => Some (IInclude path (match org with Some (_, _, ls) => Some ls | None => x_origin x end))
  | _ => None
  end.

Lemma tc_head x p2 tc r p3 sc ty rest : tc_ok x p2 tc r = Some p3 -> sym_ok spec_types sc ty = true ->
  exists h tl, render_tc tc (a_class r) ++ render_type sc ty ++ rest = h :: tl /\ plainb h = true /\ h <> 36.
Proof.
  intros Etc Hty. destruct (type_tok _ _ Hty) as [Htt1 _].
  assert (Tok : forall tok rest', forallb tokch tok = true -> tok <> [] -> (forall c, In c tok -> c <> 36) ->
                exists h tl, tok ++ rest' = h :: tl /\ plainb h = true /\ h <> 36).
  { intros tok rest' Ht Hne H36. destruct tok as [|h tl]; [congruence|]. exists h, (tl ++ rest'). split; [reflexivity|].
    cbn [forallb] in Ht. apply andb_true_iff in Ht. destruct Ht as [Ht _]. split; [apply tokch_plainb; exact Ht|apply H36; left; reflexivity]. }
  assert (No36 : forall tok v, (class_from_str tok = inl v \/ type_from_str tok = inl v \/ parse_uint U32_MAX tok = inl v) ->
                 match tok with h :: _ => h <> 36 | [] => False end).
  { intros tok v Hp. destruct tok as [|h tl].
    - destruct Hp as [Hp|[Hp|Hp]]; vm_compute in Hp; discriminate.
    - intros ->. destruct Hp as [Hp|[Hp|Hp]].
      + apply class_key in Hp. pose proof keys_letters as KL. rewrite forallb_forall in KL.
        specialize (KL _ (in_or_app _ _ _ (or_introl Hp))). unfold key in KL. destruct tl; vm_compute in KL; discriminate.
      + apply type_key in Hp. pose proof keys_letters as KL. rewrite forallb_forall in KL.
        specialize (KL _ (in_or_app _ _ _ (or_intror Hp))). unfold key in KL. destruct tl; vm_compute in KL; discriminate.
      + apply ZfFieldsP.uint_head in Hp. destruct Hp as (c & t' & [= <- _] & [Hd| Hd]); [vm_compute in Hd|]; discriminate. }
  assert (Head : forall tok v rest', forallb tokch tok = true ->
                 (class_from_str tok = inl v \/ type_from_str tok = inl v \/ parse_uint U32_MAX tok = inl v) ->
                 exists h tl, tok ++ rest' = h :: tl /\ plainb h = true /\ h <> 36).
  { intros tok v rest' Ht Hp. pose proof (No36 tok v Hp) as H. destruct tok as [|h tl]; [contradiction|].
    exists h, (tl ++ rest'). split; [reflexivity|]. cbn [forallb] in Ht. apply andb_true_iff in Ht. destruct Ht as [Ht _].
    split; [apply tokch_plainb; exact Ht|exact H]. }
  destruct tc as [|raw ic s'|cc s'|raw ic s1 cc s2|cc s1 raw ic s2]; cbn [render_tc tc_ok app] in *; rewrite <- ?app_assoc.
  - eapply Head; [exact Htt1|right; left; apply type_roundtrip; exact Hty].
  - destruct (ttl_shown_ok raw ic r) eqn:E1; [|discriminate]. unfold ttl_shown_ok in E1. apply andb_true_iff in E1. destruct E1 as [Hu _].
    destruct (uint_tok 4294967295 ic raw ltac:(lia) Hu) as [Hut _].
    eapply Head; [exact Hut|right; right; apply uint_roundtrip; exact Hu].
  - destruct (class_shown_ok cc r) eqn:Ec; [|discriminate]. destruct (class_tok _ _ Ec) as [Hc1 _].
    eapply Head; [exact Hc1|left; apply class_roundtrip; exact Ec].
  - destruct (ttl_shown_ok raw ic r) eqn:E1; [|discriminate]. unfold ttl_shown_ok in E1. apply andb_true_iff in E1. destruct E1 as [Hu _].
    destruct (uint_tok 4294967295 ic raw ltac:(lia) Hu) as [Hut _].
    eapply Head; [exact Hut|right; right; apply uint_roundtrip; exact Hu].
  - destruct (ttl_shown_ok raw ic r); [|discriminate]. destruct (class_shown_ok cc r) eqn:Ec; [|discriminate]. destruct (class_tok _ _ Ec) as [Hc1 _].
    eapply Head; [exact Hc1|left; apply class_roundtrip; exact Ec].
Qed.

Lemma record_ok_lead x rc r : record_ok x rc r = true -> exists p1, sep_paren false (rc_lead rc) = Some p1.
Proof. unfold record_ok. destruct (sep_paren false (rc_lead rc)) as [p1|]; [eauto|discriminate]. Qed.

(* the first octet of the text after the leading separator, and of the whole record line *)
Lemma record_after_lead x rc r p1 rest : sctx_good x -> sep_paren false (rc_lead rc) = Some p1 -> record_ok x rc r = true ->
  exists h tl, (match rc_owner rc with Some (nc, s) => render_name nc (a_owner r) ++ render_sep s | None => [] end
        ++ render_tc (rc_tc rc) (a_class r) ++ render_type (rc_type rc) (a_type r) ++ rest) = h :: tl /\ plainb h = true /\
        (sep_lead_blank (rc_lead rc) = false -> sep_empty (rc_lead rc) = true -> h <> 36).
Proof.
  intros Hx Hlead Hok. unfold record_ok in Hok. rewrite Hlead in Hok.
  destruct (rc_owner rc) as [[nc s]|] eqn:Eo.
  - destruct (negb (sep_lead_blank (rc_lead rc)) && name_ok false true (x_origin x) nc (a_owner r)) eqn:E; [|discriminate].
    apply andb_true_iff in E. destruct E as [_ Enm]. destruct (name_head _ _ _ _ _ Enm) as (h & tl & Eh & Hp).
    rewrite Eh. cbn [app]. exists h, (tl ++ render_sep s ++ render_tc (rc_tc rc) (a_class r) ++ render_type (rc_type rc) (a_type r) ++ rest).
    split; [rewrite <- !app_assoc; reflexivity|]. split; [exact Hp|]. intros _ _.
    unfold name_ok in Enm. apply andb_true_iff in Enm. destruct Enm as [_ Enm]. destruct nc as [|ess|k ess].
    + cbn [render_name] in Eh. inversion Eh; subst. discriminate.
    + apply andb_true_iff in Enm. destruct Enm as [_ Enm]. cbn [andb] in Enm. rewrite Eh in Enm. cbn [head_is] in Enm.
      apply negb_true_iff, N.eqb_neq in Enm. exact Enm.
    + repeat (apply andb_true_iff in Enm; destruct Enm as [Enm ?]). cbn [andb] in H. rewrite Eh in H. cbn [head_is] in H.
      apply negb_true_iff, N.eqb_neq in H. exact H.
  - destruct (sep_lead_blank (rc_lead rc) && opt_lbeq (x_owner x) (a_owner r)) eqn:E; [|discriminate].
    apply andb_true_iff in E. destruct E as [Elb _].
    apply andb_true_iff in Hok. destruct Hok as [_ Hrest].
    destruct (tc_ok x p1 (rc_tc rc) r) as [p3|] eqn:Etc; [|discriminate].
    apply andb_true_iff in Hrest. destruct Hrest as [Hty _]. apply andb_true_iff in Hty. destruct Hty as [Hty _].
    cbn [app]. destruct (tc_head x p1 (rc_tc rc) r p3 (rc_type rc) (a_type r) rest Etc Hty) as (h & tl & Eh & Hp & _).
    exists h, tl. split; [exact Eh|]. split; [exact Hp|]. intros Hf. congruence.
Qed.

Lemma peek_head r h tl : r_rest r = h :: tl -> peek_octet r = Some h.
Proof. intros E. unfold peek_octet. rewrite E. reflexivity. Qed.

(* the first octet of a separator is never '$' *)
Lemma sep_head_not_dollar s p p' rest : sep_paren p s = Some p' -> sep_empty s = false ->
  exists h tl, render_sep s ++ rest = h :: tl /\ h <> 36.
Proof.
  unfold sep_paren, sep_empty, render_sep. destruct (blanks_ok (s_tail s)) eqn:Ht; [|discriminate].
  destruct (s_groups s) as [|[bl it] gs].
  - intros _ Hne. destruct (s_tail s) as [|c tl]; [discriminate|]. cbn [flat_map app]. exists c, (tl ++ rest). split; [reflexivity|].
    unfold blanks_ok in Ht. cbn [forallb] in Ht. apply andb_true_iff in Ht. destruct Ht as [Hc _]. unfold is_blank in Hc.
    intros ->. discriminate.
  - cbn [groups_paren]. destruct (blanks_ok bl) eqn:Hb; [|discriminate]. intros _ _.
    cbn [flat_map]. unfold render_group_s at 1. cbn [fst snd]. rewrite <- !app_assoc. destruct bl as [|c bl].
    + cbn [app]. destruct it as [| |[|]|x cr]; cbn [render_sitem render_nl app]; eexists _, _; (split; [reflexivity|discriminate]).
    + cbn [app]. eexists _, _. split; [reflexivity|]. unfold blanks_ok in Hb. cbn [forallb] in Hb. apply andb_true_iff in Hb.
      destruct Hb as [Hc _]. unfold is_blank in Hc. intros ->. discriminate.
Qed.

Lemma render_record_split rc r :
  render_record rc r = render_sep (rc_lead rc) ++
    (match rc_owner rc with Some (nc, s) => render_name nc (a_owner r) ++ render_sep s | None => [] end
     ++ render_tc (rc_tc rc) (a_class r) ++ render_type (rc_type rc) (a_type r)
     ++ render_rdata (rc_rdata rc) (a_rdata r) ++ render_eol (rc_end rc)).
Proof. unfold render_record. destruct (rc_owner rc) as [[nc s]|]; rewrite <- ?app_assoc; reflexivity. Qed.

Lemma sep_empty_render s : sep_empty s = true -> render_sep s = [].
Proof. unfold sep_empty, render_sep. destruct (s_groups s); [|discriminate]. destruct (s_tail s); [reflexivity|discriminate]. Qed.

Lemma sep_empty_lead s : sep_empty s = true -> sep_lead_blank s = false.
Proof. unfold sep_empty, sep_lead_blank. destruct (s_groups s); [|discriminate]. destruct (s_tail s); [reflexivity|discriminate]. Qed.

(* a record line (stage 3): the record with the number of the line it starts on, and the new context *)
Theorem record_line_parses x rc r t rd0 : ord_rdata (rc_rdata rc) (a_rdata r) -> sctx_good x -> record_ok x rc r = true ->
  r_rest rd0 = render_record rc r ++ t -> r_paren rd0 = false -> wfr rd0 -> eoft (e_term (rc_end rc)) t ->
  exists rd1, parse_line (ctx_of x) rd0 = Ok ((Some (item_of (p_line (r_pos rd0)) r), ctx_of (after_record x r)), rd1) /\
              post rd0 rd1 (render_record rc r) t false.
Proof.
  intros Hord Hx Hok E P W Ht. destruct (record_ok_lead x rc r Hok) as (p1 & Hlead).
  rewrite render_record_split in *.
  set (body := match rc_owner rc with Some (nc, s) => render_name nc (a_owner r) ++ render_sep s | None => [] end
     ++ render_tc (rc_tc rc) (a_class r) ++ render_type (rc_type rc) (a_type r)
     ++ render_rdata (rc_rdata rc) (a_rdata r) ++ render_eol (rc_end rc)) in *.
  destruct (record_after_lead x rc r p1 (render_rdata (rc_rdata rc) (a_rdata r) ++ render_eol (rc_end rc)) Hx Hlead Hok)
    as (h & tl & Eh & Hp & H36).
  fold body in Eh.
  assert (Hnd : parse_line (ctx_of x) rd0 = parse_record_or_empty (ctx_of x) rd0).
  { unfold parse_line. destruct (sep_empty (rc_lead rc)) eqn:Ee.
    - rewrite (sep_empty_render _ Ee) in E. cbn [app] in E. rewrite Eh in E. cbn [app] in E. rewrite (peek_head _ _ _ E).
      specialize (H36 (sep_empty_lead _ Ee) eq_refl). apply N.eqb_neq in H36. rewrite H36. reflexivity.
    - destruct (sep_head_not_dollar _ _ _ (body ++ t) Hlead Ee) as (h0 & tl0 & E0 & Hh0).
      rewrite <- app_assoc, E0 in E. rewrite (peek_head _ _ _ E). apply N.eqb_neq in Hh0. rewrite Hh0. reflexivity. }
  rewrite Hnd. unfold parse_record_or_empty. unfold bindM at 1. unfold getpos.
  revert rd0 E P W Hnd. intros rd0 E P W _.
  assert (R : runs (eoft (e_term (rc_end rc)))
                (bindM (lift skip_whitespace) (fun lw => bindM skip_to_next_field_or_through_eol
                   (fun f => match f with Eol => ret (None, ctx_of x) | Field => parse_record_fields (ctx_of x) (r_pos rd0) lw end)))
                (render_sep (rc_lead rc) ++ body) false false
                (Some (item_of (p_line (r_pos rd0)) r), ctx_of (after_record x r))).
  { apply (lead_field (fun lw f => match f with Eol => ret (None, ctx_of x) | Field => parse_record_fields (ctx_of x) (r_pos rd0) lw end)
                      _ _ _ p1); [exact Hlead| |].
    - intros t0 _. rewrite Eh. cbn [app]. apply fstart_plain. exact Hp.
    - cbv beta iota. apply record_fields_runs; assumption. }
  exact (R rd0 t E P W Ht).
Qed.

(* a blank / comment line *)
Theorem blank_line_parses x e t rd0 : eol_ok false e = true -> r_rest rd0 = render_eol e ++ t -> r_paren rd0 = false -> wfr rd0 ->
  eoft (e_term e) t ->
  exists rd1, parse_line (ctx_of x) rd0 = Ok ((None, ctx_of x), rd1) /\ post rd0 rd1 (render_eol e) t false.
Proof.
  intros He E P W Ht.
  assert (Hnd : parse_line (ctx_of x) rd0 = parse_record_or_empty (ctx_of x) rd0).
  { unfold parse_line, peek_octet. rewrite E. unfold render_eol. pose proof He as He'. unfold eol_ok in He'.
    destruct (sep_paren false (e_sep e)) as [[|]|] eqn:Hs; try discriminate. destruct (sep_empty (e_sep e)) eqn:Ee.
    - rewrite (sep_empty_render _ Ee). cbn [app]. destruct (e_term e) as [[|]|cx [|]| |cx]; cbn [render_term render_nl app hd_error]; try reflexivity.
      rewrite (Ht eq_refl). reflexivity.
    - rewrite <- app_assoc. destruct (sep_head_not_dollar _ _ _ (render_term (e_term e) ++ t) Hs Ee) as (h0 & tl0 & E0 & Hh0).
      rewrite E0. cbn [hd_error]. apply N.eqb_neq in Hh0. rewrite Hh0. reflexivity. }
  rewrite Hnd. unfold parse_record_or_empty. unfold bindM at 1. unfold getpos.
  apply (lead_eol (fun lw f => match f with Eol => ret (None, ctx_of x) | Field => parse_record_fields (ctx_of x) (r_pos rd0) lw end) e
                  (None, ctx_of x) He); [reflexivity|exact E|exact P|exact W|exact Ht].
Qed.

(* ---- $ORIGIN and $TTL -------------------------------------------------------------------------------------------------------------------- *)

Lemma origin_word_ok : Forall (fun c => c <> 10) d_origin /\ Forall (fun c => lower c <> 10) d_origin.
Proof. split; repeat constructor; discriminate. Qed.
Lemma ttl_word_ok : Forall (fun c => c <> 10) d_ttl /\ Forall (fun c => lower c <> 10) d_ttl.
Proof. split; repeat constructor; discriminate. Qed.

Theorem origin_line_parses x lows s nc ls e t rd0 : sctx_good x -> line_ok x (LOrigin lows s nc ls e) = true ->
  r_rest rd0 = render_line (LOrigin lows s nc ls e) ++ t -> r_paren rd0 = false -> wfr rd0 -> eoft (e_term e) t ->
  exists rd1, parse_line (ctx_of x) rd0 = Ok ((None, ctx_of (after_line x (LOrigin lows s nc ls e))), rd1) /\
              post rd0 rd1 (render_line (LOrigin lows s nc ls e)) t false.
Proof.
  intros Hx Hok E P W Ht. cbn [line_ok] in Hok. destruct (sep_ok false false s) as [p1|] eqn:Es; [|discriminate].
  apply andb_true_iff in Hok. destruct Hok as [Hnm He]. pose proof (sep_ok_inv _ _ _ _ Es) as [HP HE].
  cbn [render_line] in *.
  assert (Hd : parse_line (ctx_of x) rd0 = parse_directive (ctx_of x) rd0).
  { unfold parse_line, peek_octet. rewrite E. cbn [apply_case d_origin_s app hd_error].
    destruct (hd false lows); reflexivity. }
  rewrite Hd. revert rd0 E P W Hd. intros rd0 E P W _. revert rd0 t E P W Ht.
  change (runs (eoft (e_term e)) (parse_directive (ctx_of x))
               (apply_case lows d_origin_s ++ render_sep s ++ render_name nc ls ++ render_eol e) false false
               (None, ctx_of (after_line x (LOrigin lows s nc ls e)))).
  unfold parse_directive.
  eapply runs_bind; [apply (directive_word lows d_origin); apply origin_word_ok| |].
  { intros t Ht. rewrite <- app_assoc. eapply fend_sep; [exact HP|apply HE; reflexivity]. }
  cbv beta iota. apply runs_app_nil. eapply runs_bind; [|intros t Ht; exact Ht|cbv beta; apply runs_ret].
  unfold parse_origin_directive.
  eapply runs_bind; [apply skip_to_next_field_runs; exact HP| |].
  { intros t Ht. destruct (name_head _ _ _ _ _ Hnm) as (h & tl & Eh & Hp). rewrite Eh. cbn [app]. apply fstart_plain. exact Hp. }
  cbv beta. eapply runs_bind; [eapply name_runs; [exact Hnm|exact Hx]|intros t Ht; eapply fend_eol; eassumption|].
  cbv beta. apply runs_app_nil. eapply runs_bind; [apply expect_eol_runs; exact He|intros t Ht; exact Ht|].
  cbv beta. apply runs_ret.
Qed.

Lemma not_origin_word lows rest r : r_rest r = apply_case lows d_ttl_s ++ rest -> expect_field_ci d_origin r = Ok (false, r).
Proof.
  intros E. apply expect_field_differs. rewrite E. cbn [apply_case d_ttl_s d_origin length app firstn].
  destruct (hd false lows); destruct (hd false (tl lows)); reflexivity.
Qed.

Theorem ttl_line_parses x lows s ic raw e t rd0 : line_ok x (LTtl lows s ic raw e) = true ->
  r_rest rd0 = render_line (LTtl lows s ic raw e) ++ t -> r_paren rd0 = false -> wfr rd0 -> eoft (e_term e) t ->
  exists rd1, parse_line (ctx_of x) rd0 = Ok ((None, ctx_of (after_line x (LTtl lows s ic raw e))), rd1) /\
              post rd0 rd1 (render_line (LTtl lows s ic raw e)) t false.
Proof.
  intros Hok E P W Ht. cbn [line_ok] in Hok. destruct (sep_ok false false s) as [p1|] eqn:Es; [|discriminate].
  apply andb_true_iff in Hok. destruct Hok as [Hu He]. pose proof (sep_ok_inv _ _ _ _ Es) as [HP HE].
  cbn [render_line] in *.
  assert (Hd : parse_line (ctx_of x) rd0 = parse_directive (ctx_of x) rd0).
  { unfold parse_line, peek_octet. rewrite E. cbn [apply_case d_ttl_s app hd_error].
    destruct (hd false lows); reflexivity. }
  rewrite Hd. revert rd0 E P W Hd. intros rd0 E P W _. revert rd0 t E P W Ht.
  change (runs (eoft (e_term e)) (parse_directive (ctx_of x))
               (apply_case lows d_ttl_s ++ render_sep s ++ render_uint ic raw ++ render_eol e) false false
               (None, ctx_of (after_line x (LTtl lows s ic raw e)))).
  unfold parse_directive.
  eapply runs_peek; [intros r0 t0 E0 _; rewrite <- app_assoc in E0; eapply not_origin_word; exact E0|].
  cbv beta iota.
  eapply runs_bind; [apply (directive_word lows d_ttl); apply ttl_word_ok| |].
  { intros t Ht. rewrite <- app_assoc. eapply fend_sep; [exact HP|apply HE; reflexivity]. }
  cbv beta iota. apply runs_app_nil. eapply runs_bind; [|intros t Ht; exact Ht|cbv beta; apply runs_ret].
  unfold parse_ttl_directive.
  eapply runs_bind; [apply skip_to_next_field_runs; exact HP| |].
  { intros t Ht. destruct (uint_head ic raw) as (h & tl & Eh & _ & Hp). rewrite Eh. cbn [app]. apply fstart_plain. exact Hp. }
  cbv beta. eapply runs_bind; [apply u32_runs; exact Hu|intros t Ht; eapply fend_eol; eassumption|].
  cbv beta. apply runs_app_nil. eapply runs_bind; [apply expect_eol_runs; exact He|intros t Ht; exact Ht|].
  cbv beta. unfold after_line, ctx_of. cbn [x_origin x_owner x_ttl x_class x_default c_origin c_prev_owner c_prev_ttl c_prev_class]. rewrite ttl_from_denote. apply runs_ret.
Qed.

(* ---- $INCLUDE ------------------------------------------------------------------------------------------------------------------------------ *)

Lemma include_word_ok : Forall (fun c => c <> 10) d_include /\ Forall (fun c => lower c <> 10) d_include.
Proof. split; repeat constructor; discriminate. Qed.

Lemma include_not_origin lows rest r : r_rest r = apply_case lows d_include_s ++ rest -> expect_field_ci d_origin r = Ok (false, r).
Proof.
  intros E. apply expect_field_differs. rewrite E. cbn [apply_case d_include_s d_origin length app firstn].
  destruct (hd false lows); destruct (hd false (tl lows)); reflexivity.
Qed.

Lemma include_not_ttl lows rest r : r_rest r = apply_case lows d_include_s ++ rest -> expect_field_ci d_ttl r = Ok (false, r).
Proof.
  intros E. apply expect_field_differs. rewrite E. cbn [apply_case d_include_s d_ttl length app firstn].
  destruct (hd false lows); destruct (hd false (tl lows)); reflexivity.
Qed.

(* everything after the word $INCLUDE; q is the position the line number is taken from *)
Lemma include_body_runs x q s pc path org e : sctx_good x -> line_ok x (LInclude [] s pc path org e) = true ->
  runs (eoft (e_term e))
       (skip_to_next_field ExpectedIncludePath ;;
        do pth <- parse_include_path;
        do f <- skip_to_next_field_or_through_eol;
        do origin <- (match f with
                      | Eol => ret (c_origin (ctx_of x))
                      | Field => do o <- parse_name (c_origin (ctx_of x)); expect_eol ;; ret (Some o)
                      end);
        ret (mkLine (p_line q) (CInclude pth origin)))
       (render_sep s ++ render_string pc path ++ render_org org ++ render_eol e) false false
       (mkLine (p_line q) (CInclude path (option_map name_of (match org with Some (_, _, ls) => Some ls | None => x_origin x end)))).
Proof.
  intros Hx Hok. cbn [line_ok] in Hok. destruct (sep_ok false false s) as [p1|] eqn:Es; [|discriminate].
  apply andb_true_iff in Hok. destruct Hok as [Hpath Hok]. pose proof (sep_ok_inv _ _ _ _ Es) as [HP HE].
  assert (Hhead : forall rest, fstart (render_string pc path ++ rest)).
  { intros rest. unfold path_ok in Hpath. apply andb_true_iff in Hpath. destruct Hpath as [_ Hpath]. destruct pc as [es|es]; cbn [render_string].
    - apply fstart_plain. reflexivity.
    - apply andb_true_iff in Hpath. destruct Hpath as [Hpath _]. apply andb_true_iff in Hpath. destruct Hpath as [Hpath Hne].
      destruct path as [|c path]; [discriminate|]. destruct (octets_head _ _ _ Hpath) as (h & tl & Eh & Hp). rewrite Eh. cbn [app]. apply fstart_plain. exact Hp. }
  eapply runs_bind; [apply skip_to_next_field_runs; exact HP|intros t Ht; rewrite <- app_assoc; apply Hhead|].
  cbv beta. destruct org as [[[s2 nc] ls]|]; cbn [render_org].
  - destruct (sep_ok p1 (quoted pc) s2) as [p2|] eqn:Es2; [|discriminate]. apply andb_true_iff in Hok. destruct Hok as [Hnm He].
    pose proof (sep_ok_inv _ _ _ _ Es2) as [HP2 HE2].
    eapply runs_bind; [apply path_runs; exact Hpath| |].
    { intros t Ht. destruct (quoted pc) eqn:Eq; [exact I|]. cbn [ftail]. rewrite <- !app_assoc. eapply fend_sep; [exact HP2|apply HE2; reflexivity]. }
    cbv beta. rewrite <- !app_assoc.
    eapply runs_bind; [apply through_field_runs; exact HP2| |].
    { intros t Ht. destruct (name_head _ _ _ _ _ Hnm) as (h & tl & Eh & Hp). rewrite <- app_assoc, Eh. cbn [app]. apply fstart_plain. exact Hp. }
    cbv beta iota. eapply runs_eq; [intros r; apply bindM_assoc|].
    eapply runs_bind; [eapply name_runs; [exact Hnm|exact Hx]|intros t Ht; eapply fend_eol; eassumption|].
    cbv beta. eapply runs_eq; [intros r; apply bindM_assoc|].
    apply runs_app_nil. eapply runs_bind; [apply expect_eol_runs; exact He|intros t Ht; exact Ht|].
    cbv beta. eapply runs_eq; [intros r; apply bind_ret_l|]. apply runs_ret.
  - cbn [app].
    eapply runs_bind; [apply path_runs; exact Hpath| |].
    { intros t Ht. destruct (quoted pc); [exact I|]. cbn [ftail]. eapply fend_eol; eassumption. }
    cbv beta. apply runs_app_nil.
    eapply runs_bind; [apply through_eol_runs; exact Hok|intros t Ht; exact Ht|].
    cbv beta iota. eapply runs_eq; [intros r; apply bind_ret_l|]. apply runs_ret.
Qed.

Theorem include_line_parses x lows s pc path org e t rd0 : sctx_good x -> line_ok x (LInclude lows s pc path org e) = true ->
  r_rest rd0 = render_line (LInclude lows s pc path org e) ++ t -> r_paren rd0 = false -> wfr rd0 -> eoft (e_term e) t ->
  exists rd1, parse_line (ctx_of x) rd0 =
                Ok ((option_map (line_of (p_line (r_pos rd0))) (line_item x (LInclude lows s pc path org e)), ctx_of x), rd1) /\
              post rd0 rd1 (render_line (LInclude lows s pc path org e)) t false.
Proof.
  intros Hx Hok E P W Ht. cbn [render_line line_item option_map line_of] in *.
  assert (Hok' : line_ok x (LInclude [] s pc path org e) = true) by exact Hok.
  pose proof Hok as Hok2. cbn [line_ok] in Hok2. destruct (sep_ok false false s) as [p1|] eqn:Es; [|discriminate].
  pose proof (sep_ok_inv _ _ _ _ Es) as [HP HE].
  assert (Hd : parse_line (ctx_of x) rd0 = parse_directive (ctx_of x) rd0).
  { unfold parse_line, peek_octet. rewrite E. cbn [apply_case d_include_s app hd_error]. destruct (hd false lows); reflexivity. }
  rewrite Hd. unfold parse_directive.
  unfold bindM at 1. rewrite <- app_assoc in E. rewrite (include_not_origin lows _ rd0 E).
  unfold bindM at 1. rewrite (include_not_ttl lows _ rd0 E).
  (* the word *)
  assert (Ht1 : fend ((render_sep s ++ render_string pc path ++ render_org org ++ render_eol e) ++ t)).
  { rewrite <- app_assoc. eapply fend_sep; [exact HP|apply HE; reflexivity]. }
  destruct (directive_word lows d_include false (proj1 include_word_ok) (proj2 include_word_ok) rd0 _ E P W Ht1) as (r1 & F1 & P1).
  unfold bindM at 1. rewrite F1.
  pose proof (post_wfr _ _ _ _ _ W E P1) as W1.
  assert (Hline : p_line (r_pos r1) = p_line (r_pos rd0)).
  { destruct P1 as (_ & _ & A3 & _). rewrite A3, count_nl_none; [lia|]. apply apply_case_no_nl; apply include_word_ok. }
  unfold parse_include_directive. unfold bindM at 1. unfold bindM at 1. unfold getpos.
  destruct (include_body_runs x (r_pos r1) s pc path org e Hx Hok' r1 t
              ltac:(destruct P1 as (A & _); rewrite A; reflexivity) ltac:(destruct P1 as (_ & A & _); exact A) W1 Ht) as (r2 & F2 & P2).
  rewrite F2. unfold ret. rewrite Hline. exists r2. split; [reflexivity|].
  eapply post_trans; [exact P1|]. exact P2.
Qed.

(* ---- any line ---------------------------------------------------------------------------------------------------------------------------------- *)

Theorem line_parses x l t rd0 : ord_line l -> sctx_good x -> line_ok x l = true ->
  r_rest rd0 = render_line l ++ t -> r_paren rd0 = false -> wfr rd0 -> eoft (e_term (line_end l)) t ->
  exists rd1, parse_line (ctx_of x) rd0 =
                Ok ((option_map (line_of (p_line (r_pos rd0))) (line_item x l), ctx_of (after_line x l)), rd1) /\
              post rd0 rd1 (render_line l) t false.
Proof.
  intros Hord Hx Hok E P W Ht. destruct l as [rc r|e|lows s nc ls e|lows s ic raw e|lows s pc path org e]; cbn [line_end] in Ht.
  - eapply record_line_parses; eassumption.
  - cbn [after_line]. eapply blank_line_parses; eassumption.
  - eapply origin_line_parses; eassumption.
  - eapply ttl_line_parses; eassumption.
  - cbn [after_line]. eapply include_line_parses; eassumption.
Qed.

Lemma after_line_good x l : sctx_good x -> line_ok x l = true -> sctx_good (after_line x l).
Proof.
  intros Hx Hok. destruct l as [rc r|e|lows s nc ls e|lows s ic raw e|lows s pc path org e]; cbn [after_line]; try exact Hx.
  cbn [line_ok] in Hok. destruct (sep_ok false false s); [|discriminate]. apply andb_true_iff in Hok. destruct Hok as [Hnm _].
  unfold sctx_good. cbn [x_origin]. intros ols [= <-]. eapply name_ok_good. exact Hnm.
Qed.

(* ---- whole files (stage 4) ------------------------------------------------------------------------------------------------------------------ *)

Lemma record_nonempty x rc r : sctx_good x -> record_ok x rc r = true -> render_record rc r <> [].
Proof.
  intros Hx Hok. destruct (record_ok_lead x rc r Hok) as (p1 & Hlead). rewrite render_record_split.
  destruct (record_after_lead x rc r p1 (render_rdata (rc_rdata rc) (a_rdata r) ++ render_eol (rc_end rc)) Hx Hlead Hok)
    as (h & tl & Eh & _). rewrite Eh. intros H. apply app_eq_nil in H. destruct H as [_ H]. discriminate.
Qed.

Lemma denote_cons x n l ls : denote x n (l :: ls) =
  match line_item x l with
  | Some it => (n, it) :: denote (after_line x l) (n + count_nl (render_line l)) ls
  | None => denote (after_line x l) (n + count_nl (render_line l)) ls
  end.
Proof. destruct l; reflexivity. Qed.

Lemma line_nonempty x l : sctx_good x -> line_ok x l = true -> line_item x l <> None -> render_line l <> [].
Proof.
  intros Hx Hok Hit. destruct l as [rc r|e|lows s nc ls e|lows s ic raw e|lows s pc path org e]; cbn [line_item] in Hit; try congruence.
  - cbn [render_line]. eapply record_nonempty; eassumption.
  - cbn [render_line apply_case d_include_s app]. discriminate.
Qed.

Lemma denote_empty : forall ls x n, sctx_good x -> file_ok x ls = true -> render_file ls = [] -> denote x n ls = [].
Proof.
  induction ls as [|l ls IH]; intros x n Hx Hok He; [reflexivity|].
  cbn [file_ok] in Hok. apply andb_true_iff in Hok. destruct Hok as [Hok Hrest]. apply andb_true_iff in Hok. destruct Hok as [Hl _].
  cbn [render_file] in He. apply app_eq_nil in He. destruct He as [He1 He2].
  rewrite denote_cons. destruct (line_item x l) as [it|] eqn:Eit.
  - exfalso. eapply (line_nonempty x l); [exact Hx|exact Hl|congruence|exact He1].
  - eapply IH; [eapply after_line_good; eassumption|exact Hrest|exact He2].
Qed.

Lemma lines_loop_file : forall ls x rd fuel, ord_file ls -> sctx_good x -> file_ok x ls = true ->
  r_rest rd = render_file ls -> r_paren rd = false -> wfr rd -> (length (r_rest rd) < fuel)%nat ->
  match denote x (p_line (r_pos rd)) ls with
  | [] => exists c' rd', lines_loop fuel (ctx_of x) rd = Ok (None, c', rd') /\ r_rest rd' = [] /\ wfr rd' /\ r_fuel rd' = r_fuel rd
  | (n, it) :: rest =>
    exists x' ls' rd', lines_loop fuel (ctx_of x) rd = Ok (Some (line_of n it), ctx_of x', rd') /\
      sctx_good x' /\ file_ok x' ls' = true /\ r_rest rd' = render_file ls' /\ r_paren rd' = false /\ wfr rd' /\
      r_fuel rd' = r_fuel rd /\ denote x' (p_line (r_pos rd')) ls' = rest /\ (length (r_rest rd') < length (r_rest rd))%nat /\
      (forall Q : aline -> Prop, Forall Q ls -> Forall Q ls')
  end.
Proof.
  induction ls as [|l ls IH]; intros x rd fuel Hord Hx Hok E P W L; (destruct fuel as [|fuel]; [lia|]).
  - cbn [denote lines_loop]. cbn [render_file] in E. unfold at_eof. rewrite E. eauto 8.
  - pose proof Hok as Hok0. cbn [file_ok] in Hok. apply andb_true_iff in Hok. destruct Hok as [Hok Hrest]. apply andb_true_iff in Hok. destruct Hok as [Hl Heof].
    cbn [render_file] in E.
    destruct (r_rest rd) as [|c0 rest0] eqn:Er.
    + rewrite (denote_empty (l :: ls) x _ Hx Hok0); [|cbn [render_file]; rewrite <- E; reflexivity].
      cbn [lines_loop]. unfold at_eof. rewrite Er. exists (ctx_of x), rd. rewrite Er. auto.
    + cbn [lines_loop]. unfold at_eof. rewrite Er.
      assert (Ht : eoft (e_term (line_end l)) (render_file ls)).
      { intros Hte. destruct ls as [|l2 ls2]; [reflexivity|]. rewrite Hte in Heof. discriminate. }
      assert (Hne : (1 <= length (render_line l))%nat).
      { destruct (render_line l) as [|c1 tx] eqn:Etx; [|simpl; lia]. exfalso.
        destruct l as [rc r|e|lows s nc ls0 e|lows s ic raw e|lows s pc path org e]; cbn [render_line line_end] in *.
        - exact (record_nonempty x rc r Hx Hl Etx).
        - unfold render_eol in Etx. apply app_eq_nil in Etx. destruct Etx as [_ Etx].
          destruct (e_term e) as [[|]|cx [|]| |cx]; try discriminate Etx. rewrite (Ht eq_refl) in E. discriminate E.
        - destruct (hd false lows); discriminate Etx.
        - destruct (hd false lows); discriminate Etx.
        - destruct (hd false lows); discriminate Etx. }
      inversion Hord as [|? ? Hordl Hordls]; subst.
      rewrite <- Er in *. destruct (line_parses x l (render_file ls) rd Hordl Hx Hl E P W Ht) as (rd1 & F1 & P1).
      rewrite F1. pose proof (post_wfr _ _ _ _ _ W E P1) as W1. pose proof (post_len _ _ _ _ _ E P1) as L1.
      destruct P1 as (A1 & A2 & A3 & A4).
      pose proof (after_line_good x l Hx Hl) as Hx'.
      rewrite denote_cons. destruct (line_item x l) as [it|] eqn:Eit; cbn [option_map].
      * exists (after_line x l), ls, rd1. split; [reflexivity|]. split; [exact Hx'|]. split; [exact Hrest|].
        split; [exact A1|]. split; [exact A2|]. split; [exact W1|]. split; [exact A4|]. split; [rewrite A3; reflexivity|]. split; [lia|].
        intros Q HQ. inversion HQ; assumption.
      * specialize (IH _ rd1 fuel Hordls Hx' Hrest A1 A2 W1 ltac:(lia)). rewrite A3 in IH.
        destruct (denote (after_line x l) (p_line (r_pos rd) + count_nl (render_line l)) ls) as [|[n it] rest].
        -- destruct IH as (c' & rd' & F & B1 & B2 & B3). exists c', rd'. split; [exact F|]. split; [exact B1|]. split; [exact B2|congruence].
        -- destruct IH as (x' & ls' & rd' & F & B1 & B2 & B3 & B4 & B5 & B6 & B7 & B8 & B9).
           exists x', ls', rd'. split; [exact F|]. split; [exact B1|]. split; [exact B2|]. split; [exact B3|]. split; [exact B4|]. split; [exact B5|]. split; [congruence|]. split; [exact B7|]. split; [lia|].
           intros Q HQ. apply B9. inversion HQ; assumption.
Qed.

Definition items_of (l : list (N * aitem)) : list (line + (pos * zkind)) := map (fun nr => inl (line_of (fst nr) (snd nr))) l.

Lemma collect_file : forall recs ls x rd fuel acc, denote x (p_line (r_pos rd)) ls = recs -> ord_file ls ->
  sctx_good x -> file_ok x ls = true -> r_rest rd = render_file ls -> r_paren rd = false -> wfr rd ->
  (length (r_rest rd) < fuel)%nat ->
  exists p', collect fuel (mkParser false rd (ctx_of x)) acc = Ok (rev acc ++ items_of recs, p').
Proof.
  induction recs as [|[n it] recs IH]; intros ls x rd fuel acc Hd Hord Hx Hok E P W L; (destruct fuel as [|fuel]; [lia|]).
  - assert (LL : (length (r_rest rd) < r_fuel rd)%nat) by (unfold wfr in W; lia).
    pose proof (lines_loop_file ls x rd (r_fuel rd) Hord Hx Hok E P W LL) as H. rewrite Hd in H.
    destruct H as (c' & rd' & F & _). cbn [collect]. unfold parser_next. cbn [ps_error ps_rd ps_ctx]. rewrite F. cbn [bind].
    eexists. rewrite rev_fast_rev, app_nil_r. reflexivity.
  - assert (LL : (length (r_rest rd) < r_fuel rd)%nat) by (unfold wfr in W; lia).
    pose proof (lines_loop_file ls x rd (r_fuel rd) Hord Hx Hok E P W LL) as H. rewrite Hd in H.
    destruct H as (x' & ls' & rd' & F & B1 & B2 & B3 & B4 & B5 & B6 & B7 & B8 & B9).
    cbn [collect]. unfold parser_next. cbn [ps_error ps_rd ps_ctx]. rewrite F. cbn [bind].
    destruct (IH ls' x' rd' fuel (inl (line_of n it) :: acc) B7 (B9 _ Hord) B1 B2 B3 B4 B5 ltac:(lia)) as (p' & Hc).
    exists p'. rewrite Hc. cbn [rev items_of map fst snd]. rewrite <- app_assoc. reflexivity.
Qed.

Lemma ctx0_of : ctx0 = ctx_of sctx0. Proof. reflexivity. Qed.

(* stage 4: a rendered file parses to exactly the records and $INCLUDE directives it denotes, in order, with their line numbers *)
Theorem file_roundtrip ls : ord_file ls -> file_ok sctx0 ls = true ->
  exists p, parse_all (render ls) = Ok (items_of (number_lines ls), p).
Proof.
  intros Hord Hok. unfold parse_all, parser_new, render, number_lines. rewrite ctx0_of.
  destruct (collect_file (denote sctx0 1 ls) ls sctx0 (rd_new (render_file ls)) (S (S (length (render_file ls)))) [] eq_refl Hord) as (p & H);
    [intros ols Ho; discriminate|exact Hok|reflexivity|reflexivity|unfold wfr, rd_new; cbn; lia|unfold rd_new; cbn; lia|].
  exists p. exact H.
Qed.

(* ---- the records-only iterator (what the zone loader consumes) on rendered files --------------------------------------------------- *)


Definition no_include (ls : list aline) : Prop := Forall (fun l => match l with LInclude _ _ _ _ _ _ => False | _ => True end) ls.

Fixpoint records_of (its : list (N * aitem)) : list (ro_line + (pos * zkind)) :=
  match its with
  | [] => []
  | (n, IRecord r) :: rest => inl (mkRoLine n (rr_of r)) :: records_of rest
  | (_, IInclude _ _) :: rest => records_of rest
  end.

Lemma denote_no_include : forall ls x n, no_include ls -> Forall (fun nit => exists r, snd nit = IRecord r) (denote x n ls).
Proof.
  induction ls as [|l ls IH]; intros x n H; [constructor|]. inversion H as [|? ? Hl Hls]; subst. rewrite denote_cons.
  destruct l; cbn [line_item]; try (apply IH; exact Hls); [|contradiction]. constructor; [eexists; reflexivity|apply IH; exact Hls].
Qed.

Lemma ro_collect_file : forall recs ls x rd fuel acc, denote x (p_line (r_pos rd)) ls = recs -> ord_file ls -> no_include ls ->
  sctx_good x -> file_ok x ls = true -> r_rest rd = render_file ls -> r_paren rd = false -> wfr rd ->
  (length (r_rest rd) < fuel)%nat ->
  exists p', ro_collect fuel (mkParser false rd (ctx_of x)) acc = Ok (rev acc ++ records_of recs, p').
Proof.
  induction recs as [|[n it] recs IH]; intros ls x rd fuel acc Hd Hord Hni Hx Hok E P W L; (destruct fuel as [|fuel]; [lia|]).
  - assert (LL : (length (r_rest rd) < r_fuel rd)%nat) by (unfold wfr in W; lia).
    pose proof (lines_loop_file ls x rd (r_fuel rd) Hord Hx Hok E P W LL) as H. rewrite Hd in H.
    destruct H as (c' & rd' & F & _). cbn [ro_collect]. unfold ro_next, parser_next. cbn [ps_error ps_rd ps_ctx]. rewrite F. cbn [bind].
    eexists. rewrite rev_fast_rev, app_nil_r. reflexivity.
  - assert (LL : (length (r_rest rd) < r_fuel rd)%nat) by (unfold wfr in W; lia).
    pose proof (denote_no_include ls x (p_line (r_pos rd)) Hni) as Hrec. rewrite Hd in Hrec. inversion Hrec as [|? ? [r Hr] Hrec']; subst. cbn [snd] in Hr. subst it.
    pose proof (lines_loop_file ls x rd (r_fuel rd) Hord Hx Hok E P W LL) as H. rewrite Hd in H.
    destruct H as (x' & ls' & rd' & F & B1 & B2 & B3 & B4 & B5 & B6 & B7 & B8 & B9).
    assert (Hni' : no_include ls') by (apply B9; exact Hni).
    cbn [ro_collect]. unfold ro_next, parser_next. cbn [ps_error ps_rd ps_ctx]. rewrite F. cbn [bind line_of item_of l_content l_number].
    destruct (IH ls' x' rd' fuel (inl (mkRoLine n (rr_of r)) :: acc) B7 (B9 _ Hord) Hni' B1 B2 B3 B4 B5 ltac:(lia)) as (p' & Hc).
    exists p'. rewrite Hc. cbn [rev records_of]. rewrite <- app_assoc. reflexivity.
Qed.

(* a rendered file without $INCLUDE lines, read through Parser::records_only(): exactly its records *)
Theorem file_roundtrip_records_only ls : ord_file ls -> file_ok sctx0 ls = true -> no_include ls ->
  exists p, ro_all (render ls) = Ok (records_of (number_lines ls), p).
Proof.
  intros Hord Hok Hni. unfold ro_all, parser_new, render, number_lines. rewrite ctx0_of.
  destruct (ro_collect_file (denote sctx0 1 ls) ls sctx0 (rd_new (render_file ls)) (S (S (length (render_file ls)))) [] eq_refl Hord Hni) as (p & H);
    [intros ols Ho; discriminate|exact Hok|reflexivity|reflexivity|unfold wfr, rd_new; cbn; lia|unfold rd_new; cbn; lia|].
  exists p. exact H.
Qed.

End Ord.

(* the two ways of meeting the side condition *)
Lemma ord_file_impl ls : @ord_file impl_order ls.
Proof. apply Forall_forall. intros l _. left. reflexivity. Qed.

Lemma ord_file_free {bo : BitOrder} ls : wks_free ls = true -> ord_file ls.
Proof.
  unfold wks_free. rewrite forallb_forall. intros H. apply Forall_forall. intros l Hl. right. apply negb_true_iff. apply H. exact Hl.
Qed.

(* ---- the statements against the RFC's numbering of the WKS bits (outside the class of known finding C23-1),
        against the implementation's numbering (no exclusion), and the witness of the difference ------------------- *)

Lemma rdata_runs_rfc x class type dc d e p p3 : sctx_good x -> wks_listed dc d = false ->
  @rdata_ok rfc_order (x_origin x) p class type dc d = Some p3 -> eol_ok p3 e = true ->
  runs (eoft (e_term e)) (parse_rdata (ctx_of x) class type) (@render_rdata rfc_order dc d ++ render_eol e) p false (@rdata_wire rfc_order d).
Proof. intros Hx Hw. apply (@rdata_runs rfc_order); [exact Hx|right; exact Hw]. Qed.

Lemma record_line_parses_rfc x rc r t rd0 : wks_listed (rc_rdata rc) (a_rdata r) = false -> sctx_good x ->
  @record_ok rfc_order x rc r = true ->
  r_rest rd0 = @render_record rfc_order rc r ++ t -> r_paren rd0 = false -> wfr rd0 -> eoft (e_term (rc_end rc)) t ->
  exists rd1, parse_line (ctx_of x) rd0 = Ok ((Some (@item_of rfc_order (p_line (r_pos rd0)) r), ctx_of (after_record x r)), rd1) /\
              post rd0 rd1 (@render_record rfc_order rc r) t false.
Proof. intros Hw. apply (@record_line_parses rfc_order). right. exact Hw. Qed.

Lemma line_parses_rfc x l t rd0 : line_wks_listed l = false -> sctx_good x -> @line_ok rfc_order x l = true ->
  r_rest rd0 = @render_line rfc_order l ++ t -> r_paren rd0 = false -> wfr rd0 -> eoft (e_term (line_end l)) t ->
  exists rd1, parse_line (ctx_of x) rd0 =
                Ok ((option_map (@line_of rfc_order (p_line (r_pos rd0))) (line_item x l), ctx_of (after_line x l)), rd1) /\
              post rd0 rd1 (@render_line rfc_order l) t false.
Proof. intros Hw. apply (@line_parses rfc_order). right. exact Hw. Qed.

Lemma file_roundtrip_rfc ls : wks_free ls = true -> @file_ok rfc_order sctx0 ls = true ->
  exists p, parse_all (@render rfc_order ls) = Ok (@items_of rfc_order (@number_lines rfc_order ls), p).
Proof. intros Hw. apply (@file_roundtrip rfc_order). apply ord_file_free. exact Hw. Qed.

Lemma file_roundtrip_records_only_rfc ls : wks_free ls = true -> @file_ok rfc_order sctx0 ls = true -> no_include ls ->
  exists p, ro_all (@render rfc_order ls) = Ok (@records_of rfc_order (@number_lines rfc_order ls), p).
Proof. intros Hw. apply (@file_roundtrip_records_only rfc_order). apply ord_file_free. exact Hw. Qed.

Lemma file_roundtrip_impl ls : @file_ok impl_order sctx0 ls = true ->
  exists p, parse_all (@render impl_order ls) = Ok (@items_of impl_order (@number_lines impl_order ls), p).
Proof. apply (@file_roundtrip impl_order). apply ord_file_impl. Qed.

(* ". 1 IN WKS 1.2.3.4 6 25<LF>" *)
Definition wks_witness : list aline :=
  let sp := mkSep [] [32] in
  [LRecord (mkRc sep_none (Some (NAbs [], sp)) (TcTC 1 i_plain sp (SymMnemonic []) sp) (SymMnemonic [])
              (DFields [(sp, CPlain); (sp, CProto (PNum i_plain)); (sp, CInt i_plain)]) (mkEol sep_none (TNl false)))
           (mkArec [] 1 1 11 (AFields [VIp4 1 2 3 4; VProto 6; VPort 25]))].

Lemma wks_bit_order_refuted :
  @file_ok rfc_order sctx0 wks_witness = true /\
  @render rfc_order wks_witness = [46;32;49;32;73;78;32;87;75;83;32;49;46;50;46;51;46;52;32;54;32;50;53;10] /\
  (exists r, @number_lines rfc_order wks_witness = [(1, IRecord r)] /\ @rdata_wire rfc_order (a_rdata r) = [1;2;3;4;6;0;0;0;64]) /\
  (exists r p, parse_all (@render rfc_order wks_witness) = Ok ([inl (mkLine 1 (CRecord r))], p) /\ rr_rdata r = [1;2;3;4;6;0;0;0;2]) /\
  (forall p, parse_all (@render rfc_order wks_witness) <> Ok (@items_of rfc_order (@number_lines rfc_order wks_witness), p)).
Proof.
  split; [vm_compute; reflexivity|]. split; [vm_compute; reflexivity|].
  split; [eexists; split; vm_compute; reflexivity|].
  split; [vm_compute; do 2 eexists; split; reflexivity|].
  intros p H. vm_compute in H. discriminate H.
Qed.
