(* C22, part 3: the whole catalog (per-class roots) refines the flat reference map:
   abstraction function, representation invariant, one refinement lemma per
   operation, the history theorem against the executable reference, SingleZoneCatalog. *)
From QV Require Import Model.CatTree Spec.CatTreeS Proofs.CatTreeP Proofs.CatTreeInvP Proofs.CatTreeSP.
From Coq Require Import Permutation.

Lemma usub_len (nm : cname) : usub (name_len nm) 1 = Some (length nm).
Proof. unfold usub, name_len. simpl. rewrite Nat.sub_0_r. reflexivity. Qed.

Section C.
Variable V : Type.
Notation entry := (entry V).
Notation node := (node V).
Notation forest := (forest V).
Notation catalog := (catalog V).
Notation ckey := (key_of (@e_name V) (@e_class V)).
Notation rmi := (rm_insert (@e_name V) (@e_class V)).
Notation is_iter := (rm_is_iter (@e_name V) (@e_class V)).

(* ---- roots_by_class as a map ------------------------------------------------------- *)

Lemma al_get_set_same k (n : node) c : al_get k (al_set k n c) = Some n.
Proof.
  induction c as [|[k' n'] r IH]; simpl.
  - destruct (N.eq_dec k k); congruence.
  - destruct (N.eq_dec k k') as [E|E]; simpl.
    + destruct (N.eq_dec k k'); congruence.
    + destruct (N.eq_dec k k'); congruence.
Qed.

Lemma al_get_set_other k k2 (n : node) c : k2 <> k -> al_get k2 (al_set k n c) = al_get k2 c.
Proof.
  intros Hne. induction c as [|[k' n'] r IH]; simpl.
  - destruct (N.eq_dec k2 k); congruence.
  - destruct (N.eq_dec k k') as [E|E]; simpl.
    + subst. destruct (N.eq_dec k2 k'); congruence.
    + destruct (N.eq_dec k2 k'); congruence.
Qed.

Lemma al_get_remove_same k (c : catalog) : al_get k (al_remove k c) = None.
Proof.
  induction c as [|[k' n'] r IH]; simpl; auto.
  destruct (N.eq_dec k k') as [E|E]; simpl; auto.
  destruct (N.eq_dec k k'); congruence.
Qed.

Lemma al_get_remove_other k k2 (c : catalog) : k2 <> k -> al_get k2 (al_remove k c) = al_get k2 c.
Proof.
  intros Hne. induction c as [|[k' n'] r IH]; simpl; auto.
  destruct (N.eq_dec k k') as [E|E]; simpl.
  - subst. destruct (N.eq_dec k2 k'); congruence.
  - destruct (N.eq_dec k2 k'); congruence.
Qed.

Lemma al_get_remove_none k k2 (c : catalog) : al_get k2 c = None -> al_get k2 (al_remove k c) = None.
Proof.
  intros H. destruct (N.eq_dec k2 k) as [E|E].
  - subst. apply al_get_remove_same.
  - rewrite al_get_remove_other; auto.
Qed.

(* ---- abstraction function and representation invariant ----------------------------- *)

Definition abs (c : catalog) : refmap entry :=
  fun k => match al_get (fst k) c with
           | Some root => adata root (rev (snd k))
           | None => None
           end.

Fixpoint wf_cat (c : catalog) : Prop :=
  match c with
  | [] => True
  | (k, n) :: r => al_get k r = None /\ wf_node V k [] n /\ node_live V n /\ wf_cat r
  end.

Lemma wf_cat_get k (c : catalog) n : wf_cat c -> al_get k c = Some n -> wf_node V k [] n /\ node_live V n.
Proof.
  induction c as [|[k' n'] r IH]; simpl; intros Hwf Hg; [discriminate|].
  destruct Hwf as [Hnone [Hn [Hl Hr]]]. destruct (N.eq_dec k k') as [E|E].
  - inversion Hg; subst. auto.
  - auto.
Qed.

Lemma wf_cat_set k (c : catalog) n :
  wf_cat c -> wf_node V k [] n -> node_live V n -> wf_cat (al_set k n c).
Proof.
  induction c as [|[k' n'] r IH]; simpl; intros Hwf Hn Hl.
  - auto.
  - destruct Hwf as [Hnone [Hn' [Hl' Hr]]]. destruct (N.eq_dec k k') as [E|E]; simpl.
    + subst. auto.
    + split; [|auto]. rewrite al_get_set_other by congruence. exact Hnone.
Qed.

Lemma wf_cat_remove k (c : catalog) : wf_cat c -> wf_cat (al_remove k c).
Proof.
  induction c as [|[k' n'] r IH]; simpl; intros Hwf; auto.
  destruct Hwf as [Hnone [Hn' [Hl' Hr]]]. destruct (N.eq_dec k k') as [E|E]; simpl; auto.
  split; [|auto]. apply al_get_remove_none. exact Hnone.
Qed.

Lemma wf_new_root cls : wf_node V cls [] (node_new []).
Proof. simpl. split; [reflexivity|]. split; [discriminate|exact I]. Qed.

Lemma abs_consistent c : wf_cat c -> rm_consistent (@e_name V) (@e_class V) (abs c).
Proof.
  intros Hwf [cls p] e H. unfold abs in H. simpl in H.
  destruct (al_get cls c) as [root|] eqn:Hg; [|discriminate].
  destruct (wf_cat_get _ _ _ Hwf Hg) as [Hroot _].
  destruct (adata_key V _ _ _ _ _ Hroot H) as [H1 H2]. simpl in H2.
  unfold CatTreeS.key_of. rewrite H1. f_equal.
  change (canon (e_name e)) with (lower_name (e_name e)). rewrite H2. apply rev_involutive.
Qed.

(* ---- insert -------------------------------------------------------------------------- *)

Lemma cat_insert_refine c e : wf_cat c ->
  exists c', cat_insert c e = Ok (c', abs c (ckey e)) /\
             (forall k, abs c' k = rmi (abs c) e k) /\ wf_cat c'.
Proof.
  intros Hwf. unfold cat_insert. rewrite usub_len.
  set (cls := e_class e). set (nm := e_name e).
  set (root := match al_get cls c with Some r => r | None => node_new [] end).
  assert (Hroot : wf_node V cls [] root).
  { unfold root. destruct (al_get cls c) eqn:Hg; [|apply wf_new_root].
    eapply wf_cat_get; eauto. }
  assert (Habs : forall p, abs c (cls, p) = adata root (rev p)).
  { intros p. unfold abs, root. simpl. destruct (al_get cls c); auto. symmetry. apply adata_new. }
  destruct (insert_desc_spec V (length nm) root nm e) as [n' [Hins [Hnew [Hoth _]]]]; [lia|].
  rewrite lpath_all in *. rewrite Hins. cbn [bind].
  eexists. split; [|split].
  - change (abs c (ckey e)) with (abs c (cls, canon (e_name e))). rewrite Habs. reflexivity.
  - intros [cls' p]. unfold CatTreeS.rm_insert.
    destruct (skey_eq_dec (cls', p) (ckey e)) as [Ek|Ek].
    + unfold CatTreeS.key_of in Ek. inversion Ek; subst cls' p.
      unfold abs. simpl. fold cls. rewrite al_get_set_same. exact Hnew.
    + destruct (N.eq_dec cls' cls) as [Ec|Ec].
      * subst cls'. unfold abs at 1. simpl. rewrite al_get_set_same. rewrite Hoth.
        -- symmetry. apply Habs.
        -- intros Hrev. apply rev_inj in Hrev. apply Ek. unfold CatTreeS.key_of. subst p. reflexivity.
      * unfold abs. simpl. rewrite al_get_set_other by exact Ec. reflexivity.
  - assert (Hskip : rev (@nil clabel) = lower_name (skipn (length nm) nm)) by (rewrite skipn_all; reflexivity).
    destruct (insert_desc_wf V _ _ _ _ cls [] _ _ (le_n _) Hskip eq_refl eq_refl Hroot Hins) as [Hwf' Hl'].
    apply wf_cat_set; assumption.
Qed.

(* ---- remove -------------------------------------------------------------------------- *)

Lemma cat_remove_refine c nm cls : wf_cat c ->
  exists c', cat_remove c nm cls = Ok (c', abs c (cls, canon nm)) /\
             (forall k, abs c' k = rm_remove (abs c) (cls, canon nm) k) /\ wf_cat c'.
Proof.
  intros Hwf. unfold cat_remove, cat_remove_gen.
  destruct (al_get cls c) as [root|] eqn:Hg.
  - rewrite usub_len. destruct (wf_cat_get _ _ _ Hwf Hg) as [Hroot Hlive].
    destruct (remove_in_class_spec V (length nm) root nm) as [n' [rm [Hrem [Hnone [Hoth [Hall _]]]]]]; [lia|].
    unfold remove_in_class in Hrem. rewrite lpath_all in *. rewrite Hrem. cbn [bind].
    assert (Habs : forall p, abs c (cls, p) = adata root (rev p)).
    { intros p. unfold abs. simpl. rewrite Hg. reflexivity. }
    destruct (remove_in_class_wf V (length nm) root nm cls [] n' _ rm (le_n _) Hroot Hrem) as [Hwf' Hl'].
    eexists. split; [|split].
    + rewrite Habs. reflexivity.
    + intros [cls' p]. unfold rm_remove.
      destruct (skey_eq_dec (cls', p) (cls, canon nm)) as [Ek|Ek].
      * inversion Ek; subst cls' p. unfold abs. simpl. destruct rm.
        -- rewrite al_get_remove_same. reflexivity.
        -- rewrite al_get_set_same. exact Hnone.
      * destruct (N.eq_dec cls' cls) as [Ec|Ec].
        -- subst cls'. rewrite Habs.
           assert (Hp : rev p <> rev (lower_name nm)).
           { intros Hrev. apply rev_inj in Hrev. apply Ek. subst p. reflexivity. }
           unfold abs. simpl. destruct rm.
           ++ rewrite al_get_remove_same. rewrite <- (Hoth _ Hp). symmetry. apply Hall. reflexivity.
           ++ rewrite al_get_set_same. apply Hoth. exact Hp.
        -- unfold abs. simpl. destruct rm.
           ++ rewrite al_get_remove_other by exact Ec. reflexivity.
           ++ rewrite al_get_set_other by exact Ec. reflexivity.
    + destruct rm.
      * apply wf_cat_remove. exact Hwf.
      * apply wf_cat_set; auto.
  - eexists. split; [|split].
    + unfold abs. simpl. rewrite Hg. reflexivity.
    + intros [cls' p]. unfold rm_remove.
      destruct (skey_eq_dec (cls', p) (cls, canon nm)) as [Ek|Ek]; [|reflexivity].
      inversion Ek; subst. unfold abs. simpl. rewrite Hg. reflexivity.
    + exact Hwf.
Qed.

(* ---- lookup -------------------------------------------------------------------------- *)

Lemma cat_lookup_deepest c nm cls :
  cat_lookup c nm cls = Ok (match al_get cls c with
                            | Some root => deepest root (rev (lower_name nm))
                            | None => @None entry
                            end).
Proof.
  unfold cat_lookup. destruct (al_get cls c) as [root|]; [|reflexivity].
  rewrite usub_len, lookup_in_class_deepest by lia. rewrite lpath_all. reflexivity.
Qed.

Lemma cat_lookup_refine c nm cls :
  exists r, cat_lookup c nm cls = Ok r /\ rm_is_lookup (abs c) cls (canon nm) r.
Proof.
  rewrite cat_lookup_deepest. eexists. split; [reflexivity|].
  destruct (al_get cls c) as [root|] eqn:Hg.
  - assert (Habs : forall p, abs c (cls, p) = adata root (rev p)).
    { intros p. unfold abs. simpl. rewrite Hg. reflexivity. }
    pose proof (deepest_spec V (rev (lower_name nm)) root) as H.
    destruct (deepest root (rev (lower_name nm))) as [e|]; simpl.
    + destruct H as [a [b [Hab [Ha Hmax]]]]. exists (rev a).
      rewrite Habs, rev_involutive. split; [exact Ha|].
      assert (Hq : canon nm = rev b ++ rev a).
      { change (canon nm) with (lower_name nm). rewrite <- rev_app_distr, <- Hab. symmetry. apply rev_involutive. }
      split; [exists (rev b); exact Hq|].
      intros p' e' Hp' [pre Hsuf]. rewrite Habs in Hp'. rewrite rev_length.
      destruct (le_lt_dec (length p') (length a)) as [Hle|Hlt]; [exact Hle|].
      rewrite (Hmax (rev p') (rev pre)) in Hp'; [discriminate| |rewrite rev_length; exact Hlt].
      rewrite <- rev_app_distr. change (canon nm) with (lower_name nm) in Hsuf. rewrite <- Hsuf. reflexivity.
    + intros p e' Hp [pre Hsuf]. rewrite Habs in Hp.
      rewrite (H (rev p) (rev pre)) in Hp; [discriminate|].
      rewrite <- rev_app_distr. change (canon nm) with (lower_name nm) in Hsuf. rewrite <- Hsuf. reflexivity.
  - simpl. intros p e' Hp. unfold abs in Hp. simpl in Hp. rewrite Hg in Hp. discriminate.
Qed.

(* ---- get (default implementation: lookup filtered by the label count) ----------------- *)

Lemma cat_get_refine c nm cls : wf_cat c -> cat_get c nm cls = Ok (abs c (cls, canon nm)).
Proof.
  intros Hwf. unfold cat_get. rewrite cat_lookup_deepest. cbn [bind]. f_equal.
  unfold abs. simpl. destruct (al_get cls c) as [root|] eqn:Hg; [|reflexivity].
  destruct (wf_cat_get _ _ _ Hwf Hg) as [Hroot _].
  change (canon nm) with (lower_name nm).
  pose proof (deepest_spec V (rev (lower_name nm)) root) as H.
  destruct (deepest root (rev (lower_name nm))) as [e|].
  - destruct H as [a [b [Hab [Ha Hmax]]]].
    destruct (adata_key V _ _ _ _ _ Hroot Ha) as [_ Hname]. simpl in Hname.
    assert (Hlen : length (e_name e) = length a).
    { rewrite <- (lower_name_length (e_name e)), Hname. apply rev_length. }
    assert (Hlq : length nm = length a + length b).
    { rewrite <- (lower_name_length nm), <- rev_length, Hab. apply app_length. }
    unfold name_len. change (S (length (e_name e)) =? S (length nm)) with (length (e_name e) =? length nm).
    destruct (length (e_name e) =? length nm) eqn:El.
    + apply Nat.eqb_eq in El. assert (Hb : b = []) by (destruct b; simpl in *; [reflexivity|lia]).
      subst b. rewrite app_nil_r in Hab. rewrite <- Ha. f_equal. symmetry. exact Hab.
    + apply Nat.eqb_neq in El. symmetry. apply (Hmax _ []).
      * rewrite app_nil_r. reflexivity.
      * rewrite rev_length, lower_name_length. lia.
  - symmetry. apply (H _ []). rewrite app_nil_r. reflexivity.
Qed.

(* ---- iter ---------------------------------------------------------------------------- *)

Lemma in_filter_data_adata cls (n : node) e : wf_node V cls [] n ->
  (In e (filter_data (node_iter n)) <-> exists rp, adata n rp = Some e).
Proof.
  intros Hwf. destruct (paths_iter V) as [Hpi _]. rewrite <- Hpi, in_map_iff. split.
  - intros [[rp e0] [He Hin]]. simpl in He. subst e0. exists rp.
    apply (node_paths_adata V rp n cls [] e Hwf). exact Hin.
  - intros [rp Ha]. exists (rp, e). split; [reflexivity|].
    apply (node_paths_adata V rp n cls [] e Hwf). exact Ha.
Qed.

Lemma cat_iter_in c : wf_cat c -> forall e, In e (cat_iter c) <-> exists k, abs c k = Some e.
Proof.
  induction c as [|[k n] r IH]; simpl; intros Hwf e.
  - split; [tauto|]. intros [k H]. discriminate.
  - destruct Hwf as [Hnone [Hn [_ Hr]]]. rewrite in_app_iff, (in_filter_data_adata k n e Hn), (IH Hr). split.
    + intros [[rp Ha]|[[k' p] Hk]].
      * exists (k, rev rp). unfold abs. simpl. destruct (N.eq_dec k k); [|congruence].
        rewrite rev_involutive. exact Ha.
      * exists (k', p). unfold abs in *. simpl in *. destruct (N.eq_dec k' k) as [E|E]; [|exact Hk].
        subst k'. rewrite Hnone in Hk. discriminate.
    + intros [[k' p] Hk]. unfold abs in Hk. simpl in Hk. destruct (N.eq_dec k' k) as [E|E].
      * left. eauto.
      * right. exists (k', p). exact Hk.
Qed.

Lemma node_keys cls (n : node) : wf_node V cls [] n ->
  map ckey (filter_data (node_iter n)) = map (fun rp => (cls, rev rp)) (map fst (node_paths V n)).
Proof.
  intros Hwf. destruct (paths_iter V) as [Hpi _]. rewrite <- Hpi, !map_map.
  apply map_ext_in. intros [rp e] Hin. simpl.
  apply (node_paths_adata V rp n cls [] e Hwf) in Hin.
  destruct (adata_key V _ _ _ _ _ Hwf Hin) as [H1 H2]. simpl in H2.
  unfold CatTreeS.key_of. rewrite H1. f_equal. exact H2.
Qed.

Lemma cat_iter_nodup c : wf_cat c -> NoDup (map ckey (cat_iter c)).
Proof.
  induction c as [|[k n] r IH]; simpl; intros Hwf; [constructor|].
  destruct Hwf as [Hnone [Hn [_ Hr]]]. rewrite map_app. apply NoDup_app_intro.
  - rewrite (node_keys k n Hn). destruct (paths_nodup V) as [Hnd _].
    specialize (Hnd n k [] Hn). revert Hnd. generalize (map fst (node_paths V n)).
    induction 1 as [|x l Hx Hl IHl]; simpl; constructor; auto.
    rewrite in_map_iff. intros [y [Hy Hin]]. inversion Hy as [Hrev]. apply rev_inj in Hrev. subst. auto.
  - apply IH. exact Hr.
  - intros x H1 H2. rewrite (node_keys k n Hn) in H1. apply in_map_iff in H1.
    destruct H1 as [rp [Hx _]]. subst x.
    apply in_map_iff in H2. destruct H2 as [e [He Hin]].
    apply (cat_iter_in r Hr) in Hin. destruct Hin as [[k' p] Hk].
    pose proof (abs_consistent r Hr _ _ Hk) as Hkey. rewrite He in Hkey. inversion Hkey; subst k'.
    unfold abs in Hk. simpl in Hk. rewrite Hnone in Hk. discriminate.
Qed.

Lemma cat_iter_refine c : wf_cat c -> is_iter (abs c) (cat_iter c).
Proof. intros Hwf. split; [apply cat_iter_nodup; exact Hwf|apply cat_iter_in; exact Hwf]. Qed.

(* ---- corollary: removal is local ------------------------------------------------------ *)

Lemma cat_remove_local c nm cls : wf_cat c ->
  exists c', cat_remove c nm cls = Ok (c', abs c (cls, canon nm)) /\ wf_cat c' /\
             abs c' (cls, canon nm) = None /\
             forall k', k' <> (cls, canon nm) -> abs c' k' = abs c k'.
Proof.
  intros Hwf. destruct (cat_remove_refine c nm cls Hwf) as [c' [H1 [H2 H3]]].
  exists c'. split; [exact H1|]. split; [exact H3|]. split.
  - rewrite H2. unfold rm_remove. destruct (skey_eq_dec (cls, canon nm) (cls, canon nm)); congruence.
  - intros k' Hk. rewrite H2. unfold rm_remove. destruct (skey_eq_dec k' (cls, canon nm)); congruence.
Qed.

(* ---- histories: the tree against the executable reference ------------------------------ *)

Definition op_spec (o : cat_op V) : r_op entry :=
  match o with
  | OpInsert e => RInsert e
  | OpRemove nm cls => RRemove nm cls
  | OpLookup nm cls => RLookup nm cls
  | OpGet nm cls => RGet nm cls
  | OpIter => RIter
  end.
Definition out_spec (x : cat_out V) : r_out entry :=
  match x with OutEntry o => ROne o | OutIter l => RAll l end.

Definition sim (c : catalog) (m : lmap entry) : Prop :=
  wf_cat c /\ lm_ok (@e_name V) (@e_class V) m /\
  forall k, abs c k = view (@e_name V) (@e_class V) m k.

Lemma sim_empty : sim cat_new [].
Proof. split; [exact I|]. split; [constructor|]. reflexivity. Qed.

Lemma cat_step_sim c m o : sim c m ->
  exists c' x, cat_step c o = Ok (c', x) /\
               sim c' (fst (l_step (@e_name V) (@e_class V) m (op_spec o))) /\
               r_out_equiv (out_spec x) (snd (l_step (@e_name V) (@e_class V) m (op_spec o))).
Proof.
  intros [Hwf [Hok Hext]].
  destruct o as [e|nm cls|nm cls|nm cls|]; unfold cat_step; cbn [cat_step_gen op_spec l_step].
  - destruct (cat_insert_refine c e Hwf) as [c' [Hins [Habs Hwf']]].
    rewrite Hins. cbn [bind]. eexists. eexists. split; [reflexivity|].
    destruct (l_insert_spec _ (@e_name V) (@e_class V) m e Hok) as [Hok' [Hold Hview]].
    destruct (l_insert (@e_name V) (@e_class V) m e) as [m' old].
    cbn [fst snd out_spec r_out_equiv] in *. split.
    + split; [exact Hwf'|]. split; [exact Hok'|]. intros k. rewrite Habs, Hview.
      unfold CatTreeS.rm_insert. destruct (skey_eq_dec k (ckey e)); auto.
    + rewrite Hold. apply Hext.
  - destruct (cat_remove_refine c nm cls Hwf) as [c' [Hrem [Habs Hwf']]].
    unfold cat_remove in Hrem. rewrite Hrem. cbn [bind]. eexists. eexists. split; [reflexivity|].
    destruct (l_remove_spec _ (@e_name V) (@e_class V) m (cls, canon nm) Hok) as [Hok' [Hold Hview]].
    destruct (l_remove (@e_name V) (@e_class V) m (cls, canon nm)) as [m' old].
    cbn [fst snd out_spec r_out_equiv] in *. split.
    + split; [exact Hwf'|]. split; [exact Hok'|]. intros k. rewrite Habs, Hview.
      unfold rm_remove. destruct (skey_eq_dec k (cls, canon nm)); auto.
    + rewrite Hold. apply Hext.
  - destruct (cat_lookup_refine c nm cls) as [r [Hl Hspec]].
    rewrite Hl. cbn [bind]. eexists. eexists. split; [reflexivity|]. cbn [fst snd out_spec r_out_equiv]. split.
    + split; [exact Hwf|]. split; [exact Hok|exact Hext].
    + eapply rm_is_lookup_fun.
      * apply (view_consistent _ (@e_name V) (@e_class V) m).
      * eapply rm_is_lookup_ext; [exact Hext|exact Hspec].
      * apply l_lookup_spec. exact Hok.
  - rewrite (cat_get_refine c nm cls Hwf). cbn [bind]. eexists. eexists. split; [reflexivity|].
    cbn [fst snd out_spec r_out_equiv]. split.
    + split; [exact Hwf|]. split; [exact Hok|exact Hext].
    + apply Hext.
  - eexists. eexists. split; [reflexivity|]. cbn [fst snd out_spec r_out_equiv]. split.
    + split; [exact Hwf|]. split; [exact Hok|exact Hext].
    + eapply rm_is_iter_perm; [exact Hext|apply cat_iter_refine; exact Hwf|apply l_iter_spec; exact Hok].
Qed.

Lemma cat_run_sim : forall h c m, sim c m ->
  exists c' xs, cat_run c h = Ok (c', xs) /\
                sim c' (fst (l_run (@e_name V) (@e_class V) m (map op_spec h))) /\
                Forall2 r_out_equiv (map out_spec xs) (snd (l_run (@e_name V) (@e_class V) m (map op_spec h))).
Proof.
  unfold cat_run.
  induction h as [|o h IH]; intros c m Hsim; simpl.
  - eexists. eexists. split; [reflexivity|]. split; [exact Hsim|constructor].
  - destruct (cat_step_sim c m o Hsim) as [c1 [x [Hstep [Hsim1 Hout]]]].
    unfold cat_step in Hstep. rewrite Hstep. cbn [bind].
    destruct (l_step (@e_name V) (@e_class V) m (op_spec o)) as [m1 y] eqn:El. simpl in Hsim1, Hout.
    destruct (IH c1 m1 Hsim1) as [c2 [xs [Hrun [Hsim2 Houts]]]].
    rewrite Hrun. cbn [bind].
    destruct (l_run (@e_name V) (@e_class V) m1 (map op_spec h)) as [m2 ys] eqn:Er. simpl in *.
    eexists. eexists. split; [reflexivity|]. split; [exact Hsim2|]. constructor; assumption.
Qed.

(* every reachable catalog satisfies the representation invariant (incl. no dead leaf) *)
Lemma cat_run_wf h : exists c xs, cat_run cat_new h = Ok (c, xs) /\ wf_cat c.
Proof.
  destruct (cat_run_sim h cat_new [] sim_empty) as [c [xs [H [[Hwf _] _]]]]. eauto.
Qed.

Lemma cat_history (h : list (cat_op V)) :
  exists c xs, cat_run cat_new h = Ok (c, xs) /\
    sim c (fst (l_run (@e_name V) (@e_class V) [] (map op_spec h))) /\
    Forall2 (@r_out_equiv _) (map out_spec xs) (snd (l_run (@e_name V) (@e_class V) [] (map op_spec h))).
Proof. exact (cat_run_sim h cat_new [] sim_empty). Qed.

End C.

Arguments abs {V}.
Arguments wf_cat {V}.
Arguments op_spec {V}.
Arguments out_spec {V}.
Arguments sim {V}.

(* ---- regression witness: the pruning test of the pinned code ---------------------------- *)

Definition c22_parent : entry N := mkEntry [[97%N]] 1%N 10%N.
Definition c22_child : entry N := mkEntry [[98%N]; [97%N]] 1%N 11%N.

Lemma remove_prefix_refuted :
  exists c xs c',
    cat_run_gen false cat_new [OpInsert c22_parent; OpInsert c22_child] = Ok (c, xs) /\
    cat_remove_gen false c [[98%N]; [97%N]] 1%N = Ok (c', Some c22_child) /\
    (1%N, [[97%N]]) <> (1%N, canon [[98%N]; [97%N]]) /\
    abs c (1%N, [[97%N]]) = Some c22_parent /\ abs c' (1%N, [[97%N]]) = None.
Proof.
  eexists. eexists. eexists. split; [vm_compute; reflexivity|].
  split; [vm_compute; reflexivity|]. split; [discriminate|]. split; vm_compute; reflexivity.
Qed.
