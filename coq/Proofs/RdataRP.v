(* Rdata::read (model) against the executable read specification: same result,
   never a panic, never out of fuel, for every message, cursor and RDLENGTH. *)
From QV Require Import Base.ListX Spec.NameWireS Spec.NameRepr Proofs.NameWireP Proofs.NameWireSP
  Model.RdataM Spec.RdataFormatS Proofs.RdNameP Proofs.RdataFormatSP Proofs.RdataVP.
Local Open Scope nat_scope.

Definition ragrees (x : res rd_err bytes) (o : option bytes) : Prop :=
  match x with
  | Ok r => o = Some r
  | Err e => o = None /\ e <> ROutOfFuel /\ e <> InvalidName OutOfFuel
  | Panic => False
  end.

Lemma ragrees_other o : o = None -> ragrees (Err ROther) o.
Proof. intros ->. repeat split; discriminate. Qed.

Definition gram_of_d (d : dreader) : list field :=
  match d with
  | D_read_name_rdata => [FName]
  | D_read_ch_a => [FName; FBytes 2]
  | D_read_soa => [FName; FName; FBytes 4; FBytes 4; FBytes 4; FBytes 4; FBytes 4]
  | D_read_minfo => [FName; FName]
  | D_read_mx => [FBytes 2; FName]
  | D_read_in_srv => [FBytes 2; FBytes 2; FBytes 2; FName]
  end.

(* ---- slices of the truncated buffer ---- *)

Lemma skipn_firstn_slice {A} (l : list A) p e : skipn p (firstn e l) = slice l p e.
Proof. unfold slice. apply skipn_firstn_comm. Qed.

Lemma slice_firstn {A} (l : list A) a b e : b <= e -> slice (firstn e l) a b = slice l a b.
Proof.
  intros H. unfold slice. rewrite skipn_firstn_comm, firstn_firstn. f_equal. lia.
Qed.

Lemma usub_ok {E} a b : b <= a -> @usub E a b = Ok (a - b).
Proof. intros H. unfold usub. destruct (a <? b) eqn:X; [apply Nat.ltb_lt in X; lia|reflexivity]. Qed.

Lemma to_rdata_ok {E} (v : bytes) : length v <= 1000 -> @to_rdata E v = Ok v.
Proof.
  intros H. unfold to_rdata. destruct (65535 <? N.of_nat (length v))%N eqn:X; [|reflexivity].
  apply N.ltb_lt in X. lia.
Qed.

Lemma slice_range_ok {E} (l : bytes) a b : a <= b -> b <= length l -> @slice_range E l a b = Ok (slice l a b).
Proof.
  intros H1 H2. unfold slice_range, get_range.
  destruct (b <? a) eqn:X; [apply Nat.ltb_lt in X; lia|].
  destruct (length l <? b) eqn:Y; [apply Nat.ltb_lt in Y; lia|]. reflexivity.
Qed.

(* ---- s_cmatch shapes ---- *)

Lemma s_cmatch_merge msg e pos a b g : e <= length msg ->
  s_cmatch msg e pos (FBytes a :: FBytes b :: g) = s_cmatch msg e pos (FBytes (a + b) :: g).
Proof.
  intros He. cbn [s_cmatch]. replace (pos + (a + b)) with (pos + a + b) by lia.
  destruct (pos + a <=? e) eqn:A, (pos + a + b <=? e) eqn:B; try reflexivity;
    try apply Nat.leb_le in A; try apply Nat.leb_le in B; try apply Nat.leb_gt in A;
    try apply Nat.leb_gt in B; try lia.
  destruct (s_cmatch msg e (pos + a + b) g) as [out|]; [|reflexivity].
  rewrite app_assoc. rewrite <- (slice_app msg pos (pos + a) (pos + a + b)) by lia. reflexivity.
Qed.

Lemma s_cmatch_last_bytes msg e pos n :
  s_cmatch msg e pos [FBytes n] = if pos + n =? e then Some (slice msg pos (pos + n)) else None.
Proof.
  cbn [s_cmatch]. destruct (pos + n =? e) eqn:B.
  - apply Nat.eqb_eq in B. replace (pos + n <=? e) with true by (symmetry; apply Nat.leb_le; lia).
    rewrite app_nil_r. reflexivity.
  - destruct (pos + n <=? e); reflexivity.
Qed.

Lemma s_cmatch_name msg e pos g :
  s_cmatch msg e pos (FName :: g) =
  match spec_decode_name (firstn e msg) pos with
  | Some (ls, l) => match s_cmatch msg e (pos + l) g with
                    | Some out => Some (wire_of ls ++ out) | None => None end
  | None => None
  end.
Proof. reflexivity. Qed.

Lemma wire_len_le ls b s l : spec_decode_name b s = Some (ls, l) -> length (wire_of ls) <= 255.
Proof. intros H. apply spec_decode_name_iff in H. destruct H as (e & _ & _ & Hw). exact Hw. Qed.

(* ---- the readers ---- *)

Section Prepared.
  Variables (msg : bytes) (cur : nat) (rdlen : N).
  Let e := cur + N.to_nat rdlen.
  Hypothesis Hwf : wf_bytes msg.
  Hypothesis He : e <= length msg.
  Let buf := firstn e msg.

  Lemma buf_len : length buf = e.
  Proof. unfold buf. apply firstn_length_le. exact He. Qed.
  Lemma buf_wf : wf_bytes buf.
  Proof. apply wf_firstn. exact Hwf. Qed.

  Lemma name_rdata_ok :
    ragrees (let* (nm, len) := pname buf cur in
             let* d := usub (length buf) cur in
             if negb (d =? len) then Err ROther else to_rdata (n_wire nm))
            (s_cmatch msg e cur [FName]).
  Proof.
    rewrite s_cmatch_name. fold buf. pose proof (pname_spec buf cur buf_wf) as H.
    destruct (pname buf cur) as [[nm l]|er|]; cbn [bind]; [| |exact H].
    - destruct H as (ls & Hs & -> & H1 & H2). rewrite Hs. rewrite buf_len in *.
      rewrite usub_ok by lia. cbn [bind s_cmatch].
      destruct (e - cur =? l) eqn:A; cbn [negb].
      + apply Nat.eqb_eq in A. replace (cur + l =? e) with true by (symmetry; apply Nat.eqb_eq; lia).
        cbn [name_of n_wire]. rewrite app_nil_r. rewrite to_rdata_ok; [reflexivity|].
        apply wire_len_le in Hs. lia.
      + apply Nat.eqb_neq in A. replace (cur + l =? e) with false by (symmetry; apply Nat.eqb_neq; lia).
        apply ragrees_other. reflexivity.
    - destruct H as (-> & H1 & H2). repeat split; auto.
  Qed.

  Lemma ch_a_ok :
    ragrees (let* (lan, lan_len) := pname buf cur in
             let* d := usub (length buf) cur in
             if d =? lan_len + 2 then
               let* tail := slice_from buf (cur + lan_len) in
               to_rdata (n_wire lan ++ tail)
             else Err ROther)
            (s_cmatch msg e cur [FName; FBytes 2]).
  Proof.
    rewrite s_cmatch_name. fold buf. pose proof (pname_spec buf cur buf_wf) as H.
    destruct (pname buf cur) as [[nm l]|er|]; cbn [bind]; [| |exact H].
    - destruct H as (ls & Hs & -> & H1 & H2). rewrite Hs. rewrite buf_len in *.
      rewrite usub_ok by lia. cbn [bind]. rewrite s_cmatch_last_bytes.
      destruct (e - cur =? l + 2) eqn:A.
      + apply Nat.eqb_eq in A. replace (cur + l + 2 =? e) with true by (symmetry; apply Nat.eqb_eq; lia).
        rewrite slice_from_ok by (rewrite buf_len; lia). cbn [bind name_of n_wire].
        unfold buf. rewrite skipn_firstn_slice. replace (cur + l + 2) with e by lia.
        rewrite to_rdata_ok; [reflexivity|].
        apply wire_len_le in Hs. rewrite app_length, slice_length by lia. lia.
      + apply Nat.eqb_neq in A. replace (cur + l + 2 =? e) with false by (symmetry; apply Nat.eqb_neq; lia).
        apply ragrees_other. reflexivity.
    - destruct H as (-> & H1 & H2). repeat split; auto.
  Qed.

  Lemma soa_ok :
    ragrees (let* (mname, mlen) := pname buf cur in
             let* (rname, rlen) := pname buf (cur + mlen) in
             let* d1 := usub (length buf) cur in
             let* d2 := usub d1 mlen in
             let* d3 := usub d2 rlen in
             if negb (d3 =? 20) then Err ROther
             else
               let* tail := slice_from buf (cur + mlen + rlen) in
               to_rdata (n_wire mname ++ n_wire rname ++ tail))
            (s_cmatch msg e cur [FName; FName; FBytes 4; FBytes 4; FBytes 4; FBytes 4; FBytes 4]).
  Proof.
    rewrite s_cmatch_name. fold buf. pose proof (pname_spec buf cur buf_wf) as H.
    destruct (pname buf cur) as [[nm l]|er|]; cbn [bind]; [| |exact H].
    2: { destruct H as (-> & H1 & H2). repeat split; auto. }
    destruct H as (ls & Hs & -> & H1 & H2). rewrite Hs.
    rewrite s_cmatch_name. fold buf. pose proof (pname_spec buf (cur + l) buf_wf) as H'.
    destruct (pname buf (cur + l)) as [[nm2 l2]|er|]; cbn [bind]; [| |exact H'].
    2: { destruct H' as (-> & H3 & H4). repeat split; auto. }
    destruct H' as (ls2 & Hs2 & -> & H3 & H4). rewrite Hs2. rewrite buf_len in *.
    rewrite usub_ok by lia. cbn [bind]. rewrite usub_ok by lia. cbn [bind].
    rewrite usub_ok by lia. cbn [bind].
    rewrite !s_cmatch_merge by exact He. cbn [Nat.add]. rewrite s_cmatch_last_bytes.
    destruct (e - cur - l - l2 =? 20) eqn:A; cbn [negb].
    - apply Nat.eqb_eq in A. replace (cur + l + l2 + 20 =? e) with true by (symmetry; apply Nat.eqb_eq; lia).
      rewrite slice_from_ok by (rewrite buf_len; lia). cbn [bind name_of n_wire].
      unfold buf. rewrite skipn_firstn_slice. replace (cur + l + l2 + 20) with e by lia.
      rewrite to_rdata_ok; [reflexivity|].
      apply wire_len_le in Hs. apply wire_len_le in Hs2. rewrite !app_length, slice_length by lia. lia.
    - apply Nat.eqb_neq in A. replace (cur + l + l2 + 20 =? e) with false by (symmetry; apply Nat.eqb_neq; lia).
      apply ragrees_other. reflexivity.
  Qed.

  Lemma minfo_ok :
    ragrees (let* (rmailbx, rlen) := pname buf cur in
             let* (emailbx, elen) := pname buf (cur + rlen) in
             let* d := usub (length buf) cur in
             if negb (d =? rlen + elen) then Err ROther
             else to_rdata (n_wire rmailbx ++ n_wire emailbx))
            (s_cmatch msg e cur [FName; FName]).
  Proof.
    rewrite s_cmatch_name. fold buf. pose proof (pname_spec buf cur buf_wf) as H.
    destruct (pname buf cur) as [[nm l]|er|]; cbn [bind]; [| |exact H].
    2: { destruct H as (-> & H1 & H2). repeat split; auto. }
    destruct H as (ls & Hs & -> & H1 & H2). rewrite Hs.
    rewrite s_cmatch_name. fold buf. pose proof (pname_spec buf (cur + l) buf_wf) as H'.
    destruct (pname buf (cur + l)) as [[nm2 l2]|er|]; cbn [bind]; [| |exact H'].
    2: { destruct H' as (-> & H3 & H4). repeat split; auto. }
    destruct H' as (ls2 & Hs2 & -> & H3 & H4). rewrite Hs2. rewrite buf_len in *.
    rewrite !usub_ok by lia. cbn [bind s_cmatch].
    destruct (e - cur =? l + l2) eqn:A; cbn [negb].
    - apply Nat.eqb_eq in A. replace (cur + l + l2 =? e) with true by (symmetry; apply Nat.eqb_eq; lia).
      cbn [name_of n_wire]. rewrite app_nil_r.
      rewrite to_rdata_ok; [reflexivity|].
      apply wire_len_le in Hs. apply wire_len_le in Hs2. rewrite !app_length. lia.
    - apply Nat.eqb_neq in A. replace (cur + l + l2 =? e) with false by (symmetry; apply Nat.eqb_neq; lia).
      apply ragrees_other. reflexivity.
  Qed.

  Lemma fixed_then_name_ok k : k <= 100 ->
    ragrees (let* d := usub (length buf) cur in
             if d <? k then Err ROther
             else
               let* (exchange, len) := pname buf (cur + k) in
               let* d' := usub (length buf) cur in
               if negb (d' =? len + k) then Err ROther
               else
                 let* pre := slice_range buf cur (cur + k) in
                 to_rdata (pre ++ n_wire exchange))
            (s_cmatch msg e cur [FBytes k; FName]).
  Proof.
    intros Hk. assert (Hc : cur <= e) by (unfold e; lia).
    rewrite buf_len. rewrite usub_ok by lia. cbn [bind]. cbn [s_cmatch]. fold buf.
    destruct (e - cur <? k) eqn:A.
    - apply Nat.ltb_lt in A. replace (cur + k <=? e) with false by (symmetry; apply Nat.leb_gt; lia).
      apply ragrees_other. reflexivity.
    - apply Nat.ltb_ge in A. replace (cur + k <=? e) with true by (symmetry; apply Nat.leb_le; lia).
      pose proof (pname_spec buf (cur + k) buf_wf) as H.
      destruct (pname buf (cur + k)) as [[nm l]|er|]; cbn [bind]; [| |exact H].
      2: { destruct H as (-> & H1 & H2). repeat split; auto. }
      destruct H as (ls & Hs & -> & H1 & H2). rewrite Hs. rewrite buf_len in *.
      destruct (e - cur =? l + k) eqn:B; cbn [negb].
      + apply Nat.eqb_eq in B. replace (cur + k + l =? e) with true by (symmetry; apply Nat.eqb_eq; lia).
        rewrite slice_range_ok by (try rewrite buf_len; lia). cbn [bind name_of n_wire].
        unfold buf. rewrite slice_firstn by lia. rewrite app_nil_r.
        rewrite to_rdata_ok; [reflexivity|].
        apply wire_len_le in Hs. rewrite !app_length, slice_length by lia. lia.
      + apply Nat.eqb_neq in B. replace (cur + k + l =? e) with false by (symmetry; apply Nat.eqb_neq; lia).
        apply ragrees_other. reflexivity.
  Qed.
End Prepared.

Theorem run_reader_agrees d msg cur rdlen : wf_bytes msg ->
  ragrees (run_reader d msg cur rdlen)
          (if cur + N.to_nat rdlen <=? length msg
           then s_cmatch msg (cur + N.to_nat rdlen) cur (gram_of_d d) else None).
Proof.
  intros Hwf.
  assert (P : forall body,
    (cur + N.to_nat rdlen <= length msg ->
       ragrees (body (firstn (cur + N.to_nat rdlen) msg))
               (s_cmatch msg (cur + N.to_nat rdlen) cur (gram_of_d d))) ->
    ragrees (let* buf := prepare_to_read_rdata msg cur rdlen in body buf)
            (if cur + N.to_nat rdlen <=? length msg
             then s_cmatch msg (cur + N.to_nat rdlen) cur (gram_of_d d) else None)).
  { intros body Hb. unfold prepare_to_read_rdata.
    destruct (length msg <? cur + N.to_nat rdlen) eqn:A.
    - apply Nat.ltb_lt in A. replace (cur + N.to_nat rdlen <=? length msg) with false
        by (symmetry; apply Nat.leb_gt; lia). cbn [bind]. repeat split; discriminate.
    - apply Nat.ltb_ge in A. replace (cur + N.to_nat rdlen <=? length msg) with true
        by (symmetry; apply Nat.leb_le; lia). cbn [bind]. apply Hb. exact A. }
  destruct d; cbn [run_reader gram_of_d].
  - apply P. intros He. apply name_rdata_ok; auto.
  - apply P. intros He. apply ch_a_ok; auto.
  - apply P. intros He. apply soa_ok; auto.
  - apply P. intros He. apply minfo_ok; auto.
  - apply P. intros He. apply (fixed_then_name_ok msg cur rdlen Hwf He 2). lia.
  - apply P. intros He. cbn [gram_of_d]. rewrite !s_cmatch_merge by exact He. cbn [Nat.add].
    apply (fixed_then_name_ok msg cur rdlen Hwf He 6). lia.
Qed.

(* ---- types read without decompression ---- *)

Lemma agrees_ragrees x b r :
  agrees x b -> ragrees (let* _ := x in Ok r) (if b then Some r else None).
Proof.
  destruct x as [u|e|]; cbn [agrees bind ragrees].
  - intros ->. reflexivity.
  - intros (-> & H1 & H2). auto.
  - auto.
Qed.

Theorem without_decompression_agrees v msg cur rdlen : wf_bytes msg -> (rdlen < 65536)%N ->
  ragrees (without_decompression v msg cur rdlen)
          (if cur + N.to_nat rdlen <=? length msg
           then let r := slice msg cur (cur + N.to_nat rdlen) in
                if smatch (gram_of_v v) r then Some r else None
           else None).
Proof.
  intros Hwf Hlen. unfold without_decompression, prepare_to_read_rdata.
  set (e := cur + N.to_nat rdlen).
  destruct (length msg <? e) eqn:A.
  - apply Nat.ltb_lt in A. replace (e <=? length msg) with false by (symmetry; apply Nat.leb_gt; lia).
    cbn [bind]. repeat split; discriminate.
  - apply Nat.ltb_ge in A. replace (e <=? length msg) with true by (symmetry; apply Nat.leb_le; lia).
    cbn [bind]. rewrite slice_from_ok by (rewrite firstn_length_le by lia; unfold e; lia).
    cbn [bind]. rewrite skipn_firstn_slice.
    assert (L : length (slice msg cur e) = N.to_nat rdlen) by (rewrite slice_length; unfold e; lia).
    unfold to_rdata. rewrite L, N2Nat.id.
    destruct (65535 <? rdlen)%N eqn:B; [apply N.ltb_lt in B; lia|]. cbn [bind]. cbv zeta.
    apply agrees_ragrees. apply run_validator_agrees. apply Forall_slice. exact Hwf.
Qed.

(* ---- the read dispatch table against the RFCs ---- *)

Ltac case_class2 c :=
  repeat match goal with
  | |- context [(c =? ?k)%N] => destruct (N.eqb_spec c k); [subst c|]
  end; try (split; reflexivity); try lia.

Ltac case_types2 c t :=
  repeat match goal with
  | |- context [(t =? ?k)%N] =>
    destruct (N.eqb_spec t k); [subst t; cbn; case_class2 c|]
  end; cbn; case_class2 c.

Theorem dispatch_read c t :
  match lookup read_arms read_default c t with
  | R_dec d => decompressed c t = true /\ gram_of_d d = grammar c t
  | R_nodec v => decompressed c t = false /\ gram_of_v v = grammar c t
  end.
Proof.
  unfold decompressed, grammar, one_of, read_arms, read_default. unfold_types.
  cbn [lookup]. unfold arm_matches. cbn [existsb fst snd]. case_types2 c t.
Qed.

(* ---- Rdata::read ---- *)

Theorem read_agrees c t msg cur rdlen : wf_bytes msg -> (rdlen < 65536)%N ->
  ragrees (read c t msg cur rdlen) (spec_read c t msg cur rdlen).
Proof.
  intros Hwf Hlen. unfold read, spec_read. cbv zeta. pose proof (dispatch_read c t) as D.
  destruct (lookup read_arms read_default c t) as [d|v]; destruct D as [-> <-].
  - apply run_reader_agrees. exact Hwf.
  - apply (without_decompression_agrees v msg cur rdlen Hwf Hlen).
Qed.

Theorem read_total c t msg cur rdlen : wf_bytes msg -> (rdlen < 65536)%N ->
  read c t msg cur rdlen <> Panic /\ read c t msg cur rdlen <> Err ROutOfFuel /\
  read c t msg cur rdlen <> Err (InvalidName OutOfFuel).
Proof.
  intros Hwf Hlen. pose proof (read_agrees c t msg cur rdlen Hwf Hlen) as H.
  destruct (read c t msg cur rdlen) as [r|e|]; cbn [ragrees] in H.
  - repeat split; discriminate.
  - destruct H as (_ & H1 & H2). repeat split; congruence.
  - contradiction.
Qed.

Theorem read_iff c t msg cur rdlen r : wf_bytes msg -> (rdlen < 65536)%N ->
  (read c t msg cur rdlen = Ok r <-> read_spec c t msg cur rdlen r).
Proof.
  intros Hwf Hlen. rewrite <- (spec_read_iff c t msg cur rdlen r Hwf).
  pose proof (read_agrees c t msg cur rdlen Hwf Hlen) as H.
  destruct (read c t msg cur rdlen) as [r'|e|]; cbn [ragrees] in H.
  - rewrite H. split; intros E; inversion E; reflexivity.
  - destruct H as (-> & _). split; discriminate.
  - contradiction.
Qed.

Theorem read_err c t msg cur rdlen : wf_bytes msg -> (rdlen < 65536)%N ->
  (~ exists r, read_spec c t msg cur rdlen r) -> exists e, read c t msg cur rdlen = Err e.
Proof.
  intros Hwf Hlen Hn. destruct (read_total c t msg cur rdlen Hwf Hlen) as (Hp & _).
  destruct (read c t msg cur rdlen) as [r|e|] eqn:E; [|eauto|congruence].
  exfalso. apply Hn. exists r. apply (read_iff c t msg cur rdlen r Hwf Hlen). exact E.
Qed.

(* ---- Rdata::validate ---- *)

Theorem validate_iff c t r : wf_bytes r ->
  (validate c t r = Ok tt <-> matches (grammar c t) r).
Proof.
  intros Hwf. rewrite <- (smatch_iff (grammar c t) r Hwf), <- dispatch_validate. unfold validate.
  pose proof (run_validator_agrees (lookup validate_arms validate_default c t) r Hwf) as H.
  destruct (run_validator _ r) as [[]|e|]; cbn [agrees] in H.
  - rewrite H. split; reflexivity.
  - destruct H as (-> & _). split; discriminate.
  - contradiction.
Qed.

Theorem validate_total c t r : wf_bytes r ->
  validate c t r <> Panic /\ validate c t r <> Err ROutOfFuel /\
  validate c t r <> Err (InvalidName OutOfFuel).
Proof.
  intros Hwf. unfold validate.
  pose proof (run_validator_agrees (lookup validate_arms validate_default c t) r Hwf) as H.
  destruct (run_validator _ r) as [[]|e|]; cbn [agrees] in H.
  - repeat split; discriminate.
  - destruct H as (_ & H1 & H2). repeat split; congruence.
  - contradiction.
Qed.

Theorem validate_err c t r : wf_bytes r -> ~ matches (grammar c t) r -> exists e, validate c t r = Err e.
Proof.
  intros Hwf Hn. destruct (validate_total c t r Hwf) as (Hp & _).
  destruct (validate c t r) as [[]|e|] eqn:E; [|eauto|congruence].
  exfalso. apply Hn. apply (validate_iff c t r Hwf). exact E.
Qed.

(* types the RFCs leave opaque (and every unknown type) validate, whatever the octets *)
Theorem validate_opaque c t r : grammar c t = [FRest] -> validate c t r = Ok tt.
Proof.
  intros G. unfold validate. rewrite <- dispatch_validate in G.
  destruct (lookup validate_arms validate_default c t); try discriminate. reflexivity.
Qed.

(* ---- what read returns is validated, pointer-free RDATA ---- *)

Lemma cmatches_wf msg e : wf_bytes msg ->
  forall pos g out, cmatches msg e pos g out -> wf_bytes out.
Proof.
  intros Hwf. induction 1 as [|pos ls l g out D C IH|pos n g out Hle C IH].
  - constructor.
  - apply wf_app. split; auto. eapply decodes_name_wf; [|exact D]. apply wf_firstn. exact Hwf.
  - apply wf_app. split; auto. apply Forall_slice. exact Hwf.
Qed.

Theorem read_valid c t msg cur rdlen r : wf_bytes msg -> (rdlen < 65536)%N ->
  read c t msg cur rdlen = Ok r ->
  wf_bytes r /\ matches (grammar c t) r /\ validate c t r = Ok tt.
Proof.
  intros Hwf Hlen H. apply (read_iff c t msg cur rdlen r Hwf Hlen) in H.
  destruct H as [He H].
  assert (P : wf_bytes r /\ matches (grammar c t) r).
  { destruct (decompressed c t).
    - split; [eapply cmatches_wf; eauto|eapply cmatches_matches; eauto].
    - destruct H as [-> M]. split; [apply Forall_slice; exact Hwf|exact M]. }
  destruct P as [P1 P2]. split; [exact P1|]. split; [exact P2|].
  apply validate_iff; assumption.
Qed.
