(* C23 stage 1/3: CLASS and TYPE tokens (mnemonics in any letter case, CLASSnnn / TYPEnnn), and the
   TTL / class reading order of parse_ttl_and_class on every presence/order choice. *)
From QV Require Import Base.ListX Model.ZfReader Model.ZfParser Proofs.ZfReaderP Proofs.ZfStdP Proofs.ZfFieldsP
  Proofs.ZfRunP Proofs.ZfTokP Spec.ZfRenderS.

Local Open Scope N_scope.

(* ---- case-insensitive comparison ------------------------------------------------------------------------------ *)

Lemma eqic_lower : forall a b, eq_ignore_case a b = bytes_eqb (map lower a) (map lower b).
Proof. induction a as [|x a IH]; intros [|y b]; simpl; try reflexivity. rewrite IH. reflexivity. Qed.

Lemma apply_case_lower : forall s lows, map lower (apply_case lows s) = map lower s.
Proof.
  induction s as [|c s IH]; intros lows; [reflexivity|]. cbn [apply_case map]. rewrite IH.
  destruct (hd false lows); [rewrite lower_idem|]; reflexivity.
Qed.

Lemma apply_case_length : forall s lows, length (apply_case lows s) = length s.
Proof. induction s as [|c s IH]; intros lows; simpl; [reflexivity|]. rewrite IH. reflexivity. Qed.

Lemma eqic_apply_case lows m m' : eq_ignore_case (apply_case lows m) m' = eq_ignore_case m m'.
Proof. rewrite !eqic_lower, apply_case_lower. reflexivity. Qed.

(* ---- the tables ----------------------------------------------------------------------------------------------------- *)

(* every mnemonic of the specification is found in the parser's table, with the same value, whatever its case *)
Definition tbl_agree (spec gen : list (bytes * N)) : bool :=
  forallb (fun mv => existsb (fun mw => eq_ignore_case (fst mv) (fst mw)) gen &&
                     forallb (fun mw => implb (eq_ignore_case (fst mv) (fst mw)) (snd mw =? snd mv)) gen) spec.

Lemma class_tbl_agree : tbl_agree spec_classes class_mnemonics = true. Proof. vm_compute. reflexivity. Qed.
Lemma type_tbl_agree : tbl_agree spec_types type_mnemonics = true. Proof. vm_compute. reflexivity. Qed.
Lemma caseless_val : class_mnemonics_caseless = true /\ type_mnemonics_caseless = true.
Proof. split; reflexivity. Qed.
Lemma prefix_val : class_prefix = spec_class_prefix /\ type_prefix = spec_type_prefix.
Proof. split; reflexivity. Qed.

Lemma mnemonic_of_in : forall tbl v m, mnemonic_of tbl v = Some m -> In (m, v) tbl.
Proof.
  induction tbl as [|[m' w] tbl IH]; intros v m H; simpl in H; [discriminate|].
  destruct (w =? v) eqn:E.
  - apply N.eqb_eq in E. inversion H; subst. left. reflexivity.
  - right. apply IH. exact H.
Qed.

Lemma lookup_ci : forall gen s v,
  (exists mw, In mw gen /\ eq_ignore_case s (fst mw) = true) ->
  (forall mw, In mw gen -> eq_ignore_case s (fst mw) = true -> snd mw = v) ->
  lookup_mnemonic true gen s = Some v.
Proof.
  induction gen as [|[m' w] gen IH]; intros s v (mw & Hin & He) Hall; [destruct Hin|].
  cbn [lookup_mnemonic]. destruct (eq_ignore_case s m') eqn:E.
  - f_equal. apply (Hall (m', w)); [left; reflexivity|exact E].
  - apply IH.
    + destruct Hin as [<-|Hin]; [cbn [fst] in He; congruence|]. eauto.
    + intros mw' Hin'. apply Hall. right. exact Hin'.
Qed.

Lemma lookup_mnemonic_cased spec gen lows m v : tbl_agree spec gen = true -> In (m, v) spec ->
  lookup_mnemonic true gen (apply_case lows m) = Some v.
Proof.
  unfold tbl_agree. intros H Hin. rewrite forallb_forall in H. specialize (H _ Hin). cbn [fst snd] in H.
  apply andb_true_iff in H. destruct H as [H1 H2]. apply existsb_exists in H1. destruct H1 as (mw & Hmw & He).
  rewrite forallb_forall in H2. apply lookup_ci.
  - exists mw. split; [exact Hmw|]. rewrite eqic_apply_case. exact He.
  - intros mw' Hin' He'. rewrite eqic_apply_case in He'. specialize (H2 _ Hin'). rewrite He' in H2. cbn [implb] in H2.
    apply N.eqb_eq. exact H2.
Qed.

(* ---- tokens ---------------------------------------------------------------------------------------------------------- *)

Lemma tokch_lower_sweep : forallb (fun c => implb (tokch c) (tokch (lower c))) octets256 = true.
Proof. vm_compute. reflexivity. Qed.

Lemma tokch_lower c : tokch c = true -> tokch (lower c) = true.
Proof.
  intros H. assert (Hc : c < 256).
  { unfold tokch in H. apply andb_true_iff in H. destruct H as [_ H]. apply N.ltb_lt in H. lia. }
  pose proof (sweep256 _ tokch_lower_sweep c Hc) as G. cbv beta in G. rewrite H in G. exact G.
Qed.

Lemma tokch_apply_case : forall s lows, forallb tokch s = true -> forallb tokch (apply_case lows s) = true.
Proof.
  induction s as [|c s IH]; intros lows H; [reflexivity|]. cbn [forallb] in H. apply andb_true_iff in H. destruct H as [Hc Hs].
  cbn [apply_case forallb]. rewrite (IH _ Hs). destruct (hd false lows); [rewrite tokch_lower by exact Hc|rewrite Hc]; reflexivity.
Qed.

Definition tbl_tok (tbl : list (bytes * N)) : bool :=
  forallb (fun mv => forallb tokch (fst mv) && (length (fst mv) <=? 8)%nat) tbl.
Lemma spec_tbls_tok : tbl_tok spec_classes = true /\ tbl_tok spec_types = true /\
  forallb tokch spec_class_prefix = true /\ forallb tokch spec_type_prefix = true.
Proof. repeat split; vm_compute; reflexivity. Qed.

(* CLASSnnn / TYPEnnn is not a mnemonic: the first two letters differ from those of every mnemonic *)
Lemma prefix_keys : negb (existsb (bytes_eqb (key class_prefix)) (keys_of class_mnemonics)) = true /\
                    negb (existsb (bytes_eqb (key type_prefix)) (keys_of type_mnemonics)) = true.
Proof. split; vm_compute; reflexivity. Qed.

Lemma key_prefixed lows prefix rest : (2 <= length prefix)%nat -> key (apply_case lows prefix ++ rest) = key prefix.
Proof.
  intros H. unfold key. rewrite firstn_app. rewrite apply_case_length.
  replace (2 - length prefix)%nat with 0%nat by lia. rewrite firstn_O, app_nil_r.
  rewrite <- !firstn_map, apply_case_lower. reflexivity.
Qed.

Lemma lookup_none_by_key tbl s : negb (existsb (bytes_eqb (key s)) (keys_of tbl)) = true ->
  lookup_mnemonic true tbl s = None.
Proof.
  intros H. destruct (lookup_mnemonic true tbl s) as [v|] eqn:E; [|reflexivity].
  apply lookup_key in E. apply negb_true_iff in H.
  assert (existsb (bytes_eqb (key s)) (keys_of tbl) = true); [|congruence].
  apply existsb_exists. exists (key s). split; [exact E|apply bytes_eqb_refl].
Qed.

Section Sym.
Variables (spec gen : list (bytes * N)) (prefix : bytes).
Hypothesis Hagree : tbl_agree spec gen = true.
Hypothesis Hkeys : negb (existsb (bytes_eqb (key prefix)) (keys_of gen)) = true.
Hypothesis Hplen : (2 <= length prefix <= 8)%nat.
Hypothesis Htok : tbl_tok spec = true.
Hypothesis Hptok : forallb tokch prefix = true.

Lemma sym_roundtrip sc v : sym_ok spec sc v = true ->
  sym_from_str true gen prefix (render_sym spec prefix sc v) = inl v.
Proof.
  unfold sym_ok, render_sym, sym_from_str. destruct sc as [lows|lows ic].
  - destruct (mnemonic_of spec v) as [m|] eqn:Em; [|discriminate]. intros _.
    rewrite (lookup_mnemonic_cased spec gen lows m v Hagree (mnemonic_of_in _ _ _ Em)). reflexivity.
  - intros Hok. rewrite lookup_none_by_key by (rewrite key_prefixed by lia; exact Hkeys).
    rewrite app_length, apply_case_length.
    assert (L : (length prefix <=? length prefix + length (render_uint ic v))%nat = true) by (apply Nat.leb_le; lia).
    rewrite L.
    assert (F : firstn (length prefix) (apply_case lows prefix ++ render_uint ic v) = apply_case lows prefix)
      by (rewrite <- (apply_case_length prefix lows); apply firstn_app_exact).
    assert (S : skipn (length prefix) (apply_case lows prefix ++ render_uint ic v) = render_uint ic v)
      by (rewrite <- (apply_case_length prefix lows); apply skipn_app_exact).
    rewrite F, S.
    rewrite eqic_apply_case, eqic_lower, bytes_eqb_refl. cbn [andb].
    change U16_MAX with 65535. rewrite (uint_roundtrip _ _ _ Hok). reflexivity.
Qed.

Lemma sym_tok sc v : sym_ok spec sc v = true ->
  forallb tokch (render_sym spec prefix sc v) = true /\ N.of_nat (length (render_sym spec prefix sc v)) <= 65536.
Proof.
  unfold sym_ok, render_sym. destruct sc as [lows|lows ic].
  - destruct (mnemonic_of spec v) as [m|] eqn:Em; [|discriminate]. intros _.
    apply mnemonic_of_in in Em. unfold tbl_tok in Htok. rewrite forallb_forall in Htok. specialize (Htok _ Em).
    cbn [fst] in Htok. apply andb_true_iff in Htok. destruct Htok as [H1 H2]. apply Nat.leb_le in H2.
    split; [apply tokch_apply_case; exact H1|]. rewrite apply_case_length. lia.
  - intros Hok. destruct (uint_tok 65535 ic v ltac:(lia) Hok) as [H1 H2]. split.
    + rewrite forallb_app, (tokch_apply_case _ _ Hptok), H1. reflexivity.
    + rewrite app_length, apply_case_length, Nat2N.inj_add.
      unfold uint_ok in Hok. apply andb_true_iff in Hok. destruct Hok as [Hv Hz]. apply N.leb_le in Hz.
      unfold render_uint in *. rewrite !app_length, repeat_length in *.
      pose proof (num_length 10 v ltac:(apply N.leb_le in Hv; lia)) as HL. fold (dec v) in HL.
      assert (N.of_nat (length (if i_plus ic then [43] else [])) <= 1) by (destruct (i_plus ic); simpl; lia).
      rewrite !Nat2N.inj_add. lia.
Qed.
End Sym.

Theorem class_roundtrip sc v : sym_ok spec_classes sc v = true -> class_from_str (render_class sc v) = inl v.
Proof.
  apply (sym_roundtrip spec_classes class_mnemonics spec_class_prefix class_tbl_agree (proj1 prefix_keys)). simpl. lia.
Qed.

Theorem type_roundtrip sc v : sym_ok spec_types sc v = true -> type_from_str (render_type sc v) = inl v.
Proof.
  apply (sym_roundtrip spec_types type_mnemonics spec_type_prefix type_tbl_agree (proj2 prefix_keys)). simpl. lia.
Qed.

Lemma class_tok sc v : sym_ok spec_classes sc v = true ->
  forallb tokch (render_class sc v) = true /\ N.of_nat (length (render_class sc v)) <= 65536.
Proof.
  destruct spec_tbls_tok as (H1 & _ & H3 & _). apply sym_tok; [simpl; lia|exact H1|exact H3].
Qed.

Lemma type_tok sc v : sym_ok spec_types sc v = true ->
  forallb tokch (render_type sc v) = true /\ N.of_nat (length (render_type sc v)) <= 65536.
Proof.
  destruct spec_tbls_tok as (_ & H2 & _ & H4). apply sym_tok; [simpl; lia|exact H2|exact H4].
Qed.

(* ---- TTL and class in either order, either or both omitted -------------------------------------------------------------------- *)

Definition is_tok (tok : bytes) : Prop := forallb tokch tok = true /\ N.of_nat (length tok) <= 65536.
(* the tail begins with a given token, which ends there *)
Definition toktail (tok t : bytes) : Prop := exists t', t = tok ++ t' /\ fend t'.

Lemma toktail_fstart tok t : is_tok tok -> tok <> [] -> toktail tok t -> fstart t.
Proof.
  intros [Ht _] Hne (t' & -> & _). destruct tok as [|c tok]; [congruence|]. cbn [forallb] in Ht.
  apply andb_true_iff in Ht. destruct Ht as [Hc _]. unfold tokch in Hc. apply andb_true_iff in Hc. destruct Hc as [Hc _].
  cbn [app]. apply fstart_plain. exact Hc.
Qed.

Lemma parse_ttl_fails tok e r t' : is_tok tok -> parse_uint U32_MAX tok = inr e -> r_rest r = tok ++ t' -> fend t' ->
  try_ok parse_ttl r = Ok (None, r).
Proof.
  intros [H1 H2] He E Ht. eapply try_ok_fails. unfold parse_ttl, parse_u32, bindM.
  rewrite (read_field_fails _ _ tok e r t' H1 H2 He E Ht). reflexivity.
Qed.

Lemma parse_class_fails tok e r t' : is_tok tok -> class_from_str tok = inr e -> r_rest r = tok ++ t' -> fend t' ->
  try_ok parse_class r = Ok (None, r).
Proof.
  intros [H1 H2] He E Ht. eapply try_ok_fails. unfold parse_class.
  rewrite (read_field_fails _ _ tok e r t' H1 H2 He E Ht). reflexivity.
Qed.

Lemma class_not_uint tok c : class_from_str tok = inl c -> exists e, parse_uint U32_MAX tok = inr e.
Proof.
  intros H. destruct (parse_uint U32_MAX tok) as [v|e] eqn:E; [|eauto].
  destruct (fields_disjoint tok) as [D _]. destruct (D v E) as [D1 _]. exfalso. exact (D1 c H).
Qed.

Lemma type_not_uint tok ty : type_from_str tok = inl ty -> exists e, parse_uint U32_MAX tok = inr e.
Proof.
  intros H. destruct (parse_uint U32_MAX tok) as [v|e] eqn:E; [|eauto].
  destruct (fields_disjoint tok) as [D _]. destruct (D v E) as [_ D2]. exfalso. exact (D2 ty H).
Qed.

Lemma type_not_class tok ty : type_from_str tok = inl ty -> exists e, class_from_str tok = inr e.
Proof.
  intros H. destruct (class_from_str tok) as [c|e] eqn:E; [|eauto].
  destruct (fields_disjoint tok) as [_ D]. exfalso. exact (D c E ty H).
Qed.

Lemma ttl_from_denote raw : ttl_from raw = ttl_denote raw.
Proof.
  unfold ttl_from, ttl_denote. destruct (2147483647 <? raw) eqn:E1; destruct (raw <=? 2147483647) eqn:E2; try reflexivity.
  - apply N.ltb_lt in E1. apply N.leb_le in E2. lia.
  - apply N.ltb_ge in E1. apply N.leb_gt in E2. lia.
Qed.

Lemma ttl_runs ic raw p : uint_ok 4294967295 ic raw = true ->
  runs fend (try_ok parse_ttl) (render_uint ic raw) p p (Some (ttl_denote raw)).
Proof.
  intros H. apply runs_try_ok. unfold parse_ttl, parse_u32. apply runs_app_nil.
  eapply runs_bind; [apply (uint_field_runs U32_MAX); [unfold U32_MAX; lia|exact H]|intros t Ht; exact Ht|].
  cbv beta. rewrite ttl_from_denote. apply runs_ret.
Qed.

Lemma class_runs sc v p : sym_ok spec_classes sc v = true ->
  runs fend (try_ok parse_class) (render_class sc v) p p (Some v).
Proof.
  intros H. apply runs_try_ok. unfold parse_class. destruct (class_tok sc v H) as [H1 H2].
  apply read_field_runs; [exact H1|exact H2|apply class_roundtrip; exact H].
Qed.

Lemma opt_eqb_eq o v : opt_eqb o v = true -> o = Some v.
Proof. destruct o as [x|]; simpl; [|discriminate]. intros H. apply N.eqb_eq in H. congruence. Qed.

(* the part of the text read by parse_ttl_and_class itself, and the separator left to its caller *)
Definition tc_text1 (tc : tcchoice) (class : N) : bytes :=
  match tc with
  | TcNone => []
  | TcT raw ic s => render_uint ic raw ++ render_sep s
  | TcC sc s => render_class sc class ++ render_sep s
  | TcTC raw ic s1 sc s2 => render_uint ic raw ++ render_sep s1 ++ render_class sc class
  | TcCT sc s1 raw ic s2 => render_class sc class ++ render_sep s1 ++ render_uint ic raw
  end.
Definition tc_sep2 (tc : tcchoice) : sep :=
  match tc with TcTC _ _ _ _ s2 | TcCT _ _ _ _ s2 => s2 | _ => sep_none end.

Lemma render_tc_split tc class : render_tc tc class = tc_text1 tc class ++ render_sep (tc_sep2 tc).
Proof.
  destruct tc; cbn [render_tc tc_text1 tc_sep2]; rewrite <- ?app_assoc; try reflexivity;
    change (render_sep sep_none) with (@nil N); rewrite ?app_nil_r; reflexivity.
Qed.

Lemma sep_ok_inv p closed s p' : sep_ok p closed s = Some p' ->
  sep_paren p s = Some p' /\ (closed = false -> sep_empty s = false).
Proof.
  unfold sep_ok. destruct (sep_empty s) eqn:E; destruct closed; cbn [negb andb]; try discriminate; intros H; split; auto; discriminate.
Qed.

Definition ctx_tc (x : sctx) (c : ctx) : Prop :=
  c_prev_ttl c = x_ttl x /\ c_prev_class c = x_class x /\ c_default_ttl c = x_default x.

Lemma default_or_previous_eq x c : ctx_tc x c -> default_or_previous_ttl c = default_or_previous x.
Proof. intros (H1 & H2 & H3). unfold default_or_previous_ttl, default_or_previous. rewrite H1, H3. reflexivity. Qed.

Definition tc_m (c : ctx) : M (N * N) := do tc <- parse_ttl_and_class c; skip_to_next_field ExpectedType ;; ret tc.

Theorem tc_runs x c tc r p p' ttok ty : ctx_tc x c -> tc_ok x p tc r = Some p' ->
  is_tok ttok -> type_from_str ttok = inl ty ->
  runs (toktail ttok) (tc_m c) (render_tc tc (a_class r)) p p' (a_ttl r, a_class r).
Proof.
  intros Hc Hok Htok Hty.
  assert (Hne : ttok <> []) by (intros ->; rewrite type_from_str_nil in Hty; discriminate).
  destruct (type_not_uint _ _ Hty) as (e1 & Hnu). destruct (type_not_class _ _ Hty) as (e2 & Hnc).
  pose proof (default_or_previous_eq x c Hc) as Hdp. destruct Hc as (_ & Hpc & _).
  assert (PeekT : forall r0 t, r_rest r0 = [] ++ t -> toktail ttok t -> try_ok parse_ttl r0 = Ok (None, r0)).
  { intros r0 t E (t' & -> & Ht'). eapply parse_ttl_fails; [exact Htok|exact Hnu|exact E|exact Ht']. }
  assert (PeekC : forall r0 t, r_rest r0 = [] ++ t -> toktail ttok t -> try_ok parse_class r0 = Ok (None, r0)).
  { intros r0 t E (t' & -> & Ht'). eapply parse_class_fails; [exact Htok|exact Hnc|exact E|exact Ht']. }
  rewrite render_tc_split. unfold tc_m.
  destruct tc as [|raw ic s|sc s|raw ic s1 sc s2|sc s1 raw ic s2]; cbn [tc_ok tc_text1 tc_sep2] in *.
  - (* neither *)
    destruct (opt_eqb (default_or_previous x) (a_ttl r)) eqn:E1; [|discriminate].
    destruct (opt_eqb (x_class x) (a_class r)) eqn:E2; [|discriminate]. cbn [andb] in Hok. inversion Hok; subst p'.
    apply opt_eqb_eq in E1, E2.
    eapply runs_bind; [|intros t Ht; exact Ht|].
    + unfold parse_ttl_and_class. eapply runs_peek; [exact PeekT|]. cbv beta iota.
      eapply runs_peek; [exact PeekC|]. cbv beta iota. rewrite Hdp, E1, Hpc, E2. apply runs_ret.
    + cbv beta. apply runs_app_nil. eapply runs_bind; [apply (skip_to_next_field_runs _ sep_none p p); reflexivity| |apply runs_ret].
      intros t Ht. eapply toktail_fstart; eassumption.
  - (* TTL only *)
    destruct (ttl_shown_ok raw ic r) eqn:E1; [|discriminate].
    destruct (opt_eqb (x_class x) (a_class r)) eqn:E2; [|discriminate]. cbn [andb] in Hok.
    apply sep_ok_inv in Hok. destruct Hok as [Hs Hse]. apply opt_eqb_eq in E2.
    unfold ttl_shown_ok in E1. apply andb_true_iff in E1. destruct E1 as [Hu Hd]. apply N.eqb_eq in Hd.
    eapply runs_bind; [|intros t Ht; exact Ht|].
    + unfold parse_ttl_and_class. eapply runs_bind; [apply ttl_runs; exact Hu| |].
      * intros t Ht. eapply fend_sep; [exact Hs|apply Hse; reflexivity].
      * cbv beta iota. apply runs_app_nil.
        eapply runs_bind; [apply skip_to_next_field_runs; exact Hs|intros t Ht; eapply toktail_fstart; eassumption|].
        cbv beta. eapply runs_peek; [exact PeekC|]. cbv beta iota. rewrite Hpc, E2, Hd. apply runs_ret.
    + cbv beta. apply runs_app_nil. eapply runs_bind; [apply (skip_to_next_field_runs _ sep_none p' p'); reflexivity| |apply runs_ret].
      intros t Ht. eapply toktail_fstart; eassumption.
  - (* class only *)
    destruct (class_shown_ok sc r) eqn:E1; [|discriminate].
    destruct (opt_eqb (default_or_previous x) (a_ttl r)) eqn:E2; [|discriminate]. cbn [andb] in Hok.
    apply sep_ok_inv in Hok. destruct Hok as [Hs Hse]. apply opt_eqb_eq in E2. unfold class_shown_ok in E1.
    destruct (class_tok _ _ E1) as [Hct1 Hct2]. destruct (class_not_uint _ _ (class_roundtrip _ _ E1)) as (e3 & Hcu).
    eapply runs_bind; [|intros t Ht; exact Ht|].
    + unfold parse_ttl_and_class. eapply runs_peek.
      { intros r0 t E Ht. rewrite <- app_assoc in E. eapply parse_ttl_fails; [split; eassumption|exact Hcu|exact E|].
        eapply fend_sep; [exact Hs|apply Hse; reflexivity]. }
      cbv beta iota. eapply runs_bind; [apply class_runs; exact E1| |].
      * intros t Ht. eapply fend_sep; [exact Hs|apply Hse; reflexivity].
      * cbv beta iota. apply runs_app_nil.
        eapply runs_bind; [apply skip_to_next_field_runs; exact Hs|intros t Ht; eapply toktail_fstart; eassumption|].
        cbv beta. eapply runs_peek; [exact PeekT|]. cbv beta iota. rewrite Hdp, E2. apply runs_ret.
    + cbv beta. apply runs_app_nil. eapply runs_bind; [apply (skip_to_next_field_runs _ sep_none p' p'); reflexivity| |apply runs_ret].
      intros t Ht. eapply toktail_fstart; eassumption.
  - (* TTL, class *)
    destruct (ttl_shown_ok raw ic r) eqn:E1; [|discriminate]. destruct (class_shown_ok sc r) eqn:E2; [|discriminate].
    cbn [andb] in Hok. destruct (sep_ok p false s1) as [p1|] eqn:Es1; [|discriminate].
    apply sep_ok_inv in Es1, Hok. destruct Es1 as [Hs1 Hse1]. destruct Hok as [Hs2 Hse2].
    unfold ttl_shown_ok in E1. apply andb_true_iff in E1. destruct E1 as [Hu Hd]. apply N.eqb_eq in Hd. unfold class_shown_ok in E2.
    destruct (class_tok _ _ E2) as [Hct1 Hct2].
    eapply runs_bind; [| |].
    + unfold parse_ttl_and_class. eapply runs_bind; [apply ttl_runs; exact Hu| |].
      * intros t Ht. rewrite <- app_assoc. eapply fend_sep; [exact Hs1|apply Hse1; reflexivity].
      * cbv beta iota. eapply runs_bind; [apply skip_to_next_field_runs; exact Hs1| |].
        -- intros t Ht. destruct (render_class sc (a_class r)) as [|c0 tk] eqn:Ek.
           ++ pose proof (class_roundtrip _ _ E2) as Hr. rewrite Ek in Hr. vm_compute in Hr. discriminate.
           ++ cbn [app]. apply fstart_plain. cbn [forallb] in Hct1. apply andb_true_iff in Hct1. destruct Hct1 as [Hc0 _].
              unfold tokch in Hc0. apply andb_true_iff in Hc0. tauto.
        -- cbv beta. apply runs_app_nil. eapply runs_bind; [apply class_runs; exact E2|intros t Ht; exact Ht|].
           cbv beta iota. rewrite Hd. apply runs_ret.
    + intros t Ht. eapply fend_sep; [exact Hs2|apply Hse2; reflexivity].
    + cbv beta. apply runs_app_nil. eapply runs_bind; [apply skip_to_next_field_runs; exact Hs2| |apply runs_ret].
      intros t Ht. eapply toktail_fstart; eassumption.
  - (* class, TTL *)
    destruct (ttl_shown_ok raw ic r) eqn:E1; [|discriminate]. destruct (class_shown_ok sc r) eqn:E2; [|discriminate].
    cbn [andb] in Hok. destruct (sep_ok p false s1) as [p1|] eqn:Es1; [|discriminate].
    apply sep_ok_inv in Es1, Hok. destruct Es1 as [Hs1 Hse1]. destruct Hok as [Hs2 Hse2].
    unfold ttl_shown_ok in E1. apply andb_true_iff in E1. destruct E1 as [Hu Hd]. apply N.eqb_eq in Hd. unfold class_shown_ok in E2.
    destruct (class_tok _ _ E2) as [Hct1 Hct2]. destruct (class_not_uint _ _ (class_roundtrip _ _ E2)) as (e3 & Hcu).
    destruct (uint_tok 4294967295 ic raw ltac:(lia) Hu) as [Hut1 Hut2].
    eapply runs_bind; [| |].
    + unfold parse_ttl_and_class. eapply runs_peek.
      { intros r0 t E Ht. rewrite <- !app_assoc in E. eapply (parse_ttl_fails (render_class sc (a_class r))); [split; [exact Hct1|exact Hct2]|exact Hcu|exact E|].
        eapply fend_sep; [exact Hs1|apply Hse1; reflexivity]. }
      cbv beta iota. eapply runs_bind; [apply class_runs; exact E2| |].
      * intros t Ht. rewrite <- app_assoc. eapply fend_sep; [exact Hs1|apply Hse1; reflexivity].
      * cbv beta iota. eapply runs_bind; [apply skip_to_next_field_runs; exact Hs1| |].
        -- intros t Ht. destruct (render_uint ic raw) as [|c0 tk] eqn:Ek.
           ++ pose proof (uint_roundtrip _ _ _ Hu) as Hr. rewrite Ek in Hr. discriminate.
           ++ cbn [app]. apply fstart_plain. cbn [forallb] in Hut1. apply andb_true_iff in Hut1. destruct Hut1 as [Hc0 _].
              unfold tokch in Hc0. apply andb_true_iff in Hc0. tauto.
        -- cbv beta. apply runs_app_nil. eapply runs_bind; [apply ttl_runs; exact Hu|intros t Ht; exact Ht|].
           cbv beta iota. rewrite Hd. apply runs_ret.
    + intros t Ht. eapply fend_sep; [exact Hs2|apply Hse2; reflexivity].
    + cbv beta. apply runs_app_nil. eapply runs_bind; [apply skip_to_next_field_runs; exact Hs2| |apply runs_ret].
      intros t Ht. eapply toktail_fstart; eassumption.
Qed.
