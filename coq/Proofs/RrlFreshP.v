(* On the table Rrl::new builds, no stream other than the placeholder key has a bucket. *)
From QV Require Import Base.Res Base.Octets Model.Rrl Spec.RrlBucketS Proofs.RrlP Proofs.RrlKeyP.
Local Open Scope N_scope.

Lemma abs_bucket_new hkey p now k : k <> init_key -> abs_bucket hkey p (rrl_new p now) k = None.
Proof.
  intros H. unfold abs_bucket, rrl_new. cbn [t_get e_key].
  assert (E : key_eqb init_key k = false) by (apply key_eqb_neq; intros E; apply H; symmetry; exact E).
  rewrite E. reflexivity.
Qed.

(* c27_pair on a freshly started server *)
Lemma pair_limited_iff_fresh hname hkey p t0 c1 c2 k1 k2 now1 now2 rnd1 rnd2 :
  wf_params p -> (forall cat, rate_of p cat = 1) -> p_window p = 1 ->
  subject_to_rrl c1 = true -> subject_to_rrl c2 = true ->
  key_of hname p c1 = Some k1 -> key_of hname p c2 = Some k2 ->
  k1 <> init_key -> k2 <> init_key ->
  now1 <= now2 < now1 + nanos_per_sec ->
  exists t1 t2,
    process_response hname hkey p (rrl_new p t0) c1 now1 rnd1 = Ok (t1, apply_action c1 Send) /\
    process_response hname hkey p t1 c2 now2 rnd2
    = Ok (t2, apply_action c2 (if key_eqb k1 k2
                               then action_of_verdict (limited_verdict (p_slip p) rnd2)
                               else Send)).
Proof.
  intros W R1 W1 S1 S2 K1 K2 N1 N2 T.
  apply (pair_limited_iff hname hkey p (rrl_new p t0) c1 c2 k1 k2 now1 now2 rnd1 rnd2 W R1 W1
           (rrl_new_wf p t0 W) S1 S2 K1 K2 (abs_bucket_new hkey p t0 k1 N1) (abs_bucket_new hkey p t0 k2 N2) T).
Qed.
