(* C03, the Writer side of the octet-for-octet question echo, at the BYTE level of the composition
   the server-level runner uses (Model/QueryW.v: prepare_w / respond_w / respond_plain):
   the first question written into a fresh Writer is the name's wire form, uncompressed and with its
   case preserved, followed by QTYPE and QCLASS, at offset 12; nothing that happens afterwards
   (EDNS reservation, limit negotiation, the whole of query answering through the Writer interface,
   header setters, clear_rrs, finish with its OPT/TSIG records) changes those octets.
   Built on the C12 frame lemmas (Proofs/MsgWriterInvP.v) and the lifting of Proofs/QueryInvP.v. *)
From QV Require Import Base.ListX Gen.Consts Model.MsgWriter Proofs.MsgWriterP Proofs.MsgWriterNameP
  Proofs.MsgWriterInvP Model.ZoneTree Model.Query Model.QueryW Proofs.QueryInvP Proofs.QueryWP.
Local Open Scope nat_scope.

(* ---------- slices and pointwise agreement ---------- *)
Lemma list_ext_nth {A} (l : list A) : forall l', (forall i, nth_error l i = nth_error l' i) -> l = l'.
Proof.
  induction l as [|x l IH]; intros [|y l'] H; auto; try (specialize (H 0); discriminate).
  f_equal; [specialize (H 0); inversion H; reflexivity|]. apply IH. intros i. exact (H (S i)).
Qed.

Lemma nth_error_slice {A} (b : list A) a e i :
  nth_error (slice b a e) i = if i <? e - a then nth_error b (a + i) else None.
Proof.
  unfold slice. destruct (i <? e - a) eqn:E.
  - apply Nat.ltb_lt in E. rewrite nth_error_firstn_lt by exact E. apply nth_error_skipn.
  - apply Nat.ltb_ge in E. apply nth_error_None. rewrite firstn_length. lia.
Qed.

Lemma slice_ext {A} (b b' : list A) a e : (forall j, a <= j -> j < e -> nth_error b' j = nth_error b j) ->
  slice b' a e = slice b a e.
Proof.
  intros H. apply list_ext_nth. intros i. rewrite !nth_error_slice. destruct (i <? e - a) eqn:E; [|reflexivity].
  apply Nat.ltb_lt in E. apply H; lia.
Qed.

(* ---------- the invariant: the question octets Q sit at [12, rr_start) ---------- *)
Definition QK (Q : bytes) (w : writer) : Prop :=
  Inv_n w /\ w_rr_start w = 12 + length Q /\ slice (w_buf w) 12 (12 + length Q) = Q.

Lemma QK_ext Q c0 w w' : QK Q w -> ext c0 w w' -> w_rr_start w <= c0 -> Inv_n w' -> QK Q w'.
Proof.
  intros (Hi & Hr & Hs) X Hc Hi'. split; [exact Hi'|]. split; [rewrite (x_rs _ _ _ X); exact Hr|].
  rewrite (agree_slice c0 (w_buf w) (w_buf w')); [exact Hs|exact (x_agree _ _ _ X)|lia].
Qed.

Lemma QK_obs Q w w' : QK Q w -> obs_eq w w' -> QK Q w'.
Proof.
  intros (Hi & Hr & Hs) X. split; [eapply obs_eq_inv; eauto|]. split; [rewrite (o_rs _ _ X); exact Hr|].
  rewrite (agree_slice (w_cursor w) (w_buf w) (w_buf w')); [exact Hs|exact (o_buf _ _ X)|].
  destruct Hi. lia.
Qed.

Lemma QK_ext_counts Q w w2 s c : QK Q w -> ext (w_cursor w) w w2 -> Inv_n (set_sec_count s w2 c) ->
  QK Q (set_sec_count s w2 c).
Proof.
  intros (Hi & Hr & Hs) X Hi'. split; [exact Hi'|].
  split; [destruct s; cbn; rewrite (x_rs _ _ _ X); exact Hr|].
  assert (H : slice (w_buf w2) 12 (12 + length Q) = Q).
  { rewrite (agree_slice (w_cursor w) (w_buf w) (w_buf w2)); [exact Hs|exact (x_agree _ _ _ X)|]. destruct Hi. lia. }
  destruct s; exact H.
Qed.

Lemma QK_modify Q w i f w' : QK Q w -> w_modify w i f = Ok w' -> N.to_nat i < 12 -> QK Q w'.
Proof.
  intros (Hi & Hr & Hs) E Hlt. pose proof (inv_w_modify _ _ _ _ Hi E) as Hi'.
  destruct (w_modify_nth _ _ _ _ E) as (x & Hx & Hx' & Hoth & b' & -> & Hlen).
  split; [exact Hi'|]. split; [exact Hr|]. cbn [w_buf set_buf] in *. transitivity (slice (w_buf w) 12 (12 + length Q)); [|exact Hs].
  apply slice_ext. intros j Hj _. apply Hoth. lia.
Qed.

Lemma QK_write_low Q w pos d w' : QK Q w -> w_write w pos d = Ok w' -> pos + length d <= 12 -> QK Q w'.
Proof.
  intros (Hi & Hr & Hs) E Hle. pose proof (inv_w_write _ _ _ _ Hi E) as Hi'.
  apply w_write_inv in E as (b' & Hb & ->). split; [exact Hi'|]. split; [exact Hr|].
  cbn [w_buf set_buf]. transitivity (slice (w_buf w) 12 (12 + length Q)); [|exact Hs]. apply slice_ext. intros j Hj _. apply (buf_write_nth_out _ _ _ _ _ Hb). lia.
Qed.

Lemma QK_set_aa Q b w w' : QK Q w -> set_aa b w = Ok w' -> QK Q w'.
Proof. intros H E. unfold set_aa, w_set_flag in E. eapply QK_modify; eauto. change (N.to_nat AA_BYTE) with 2. lia. Qed.

Lemma QK_set_tc Q b w w' : QK Q w -> set_tc b w = Ok w' -> QK Q w'.
Proof. intros H E. unfold set_tc, w_set_flag in E. eapply QK_modify; eauto. change (N.to_nat TC_BYTE) with 2. lia. Qed.

Lemma QK_set_rcode Q rc w w' : QK Q w -> set_rcode rc w = Ok w' -> QK Q w'.
Proof.
  intros H E. unfold set_rcode in E.
  destruct (w_modify w RCODE_BYTE _) as [w1|e|] eqn:E1; cbn [bind] in E; try discriminate.
  inversion E; subst. assert (H1 : QK Q w1) by (eapply QK_modify; eauto; change (N.to_nat RCODE_BYTE) with 3; lia).
  destruct H1 as (Hi & Hr & Hs). split; [apply inv_clear_upper; exact Hi|].
  unfold clear_upper. destruct (w_edns w1); auto.
Qed.

Lemma QK_clear Q w : QK Q w -> QK Q (clear_rrs w).
Proof.
  intros (Hi & Hr & Hs). split; [|split; [exact Hr|exact Hs]].
  destruct Hi as [h1 h2 h3 h4 h5]. constructor; cbn; auto; try lia.
Qed.

(* ---------- the interface instance preserves QK ---------- *)
Lemma wi_rr_QK Q s h o ty c ttl rd w : QK Q w -> RP (QK Q) (wi_add_rr w_iface s h o ty c ttl rd w).
Proof.
  intros Hp. pose proof Hp as (Hi & _ & _). cbn [wi_add_rr w_iface].
  pose proof (section_rr_ok (sec_of s) (hint_of h) o ty c (ttl_from ttl) rd None w Hi) as H.
  destruct (add_section_rr (sec_of s) (hint_of h) o ty c (ttl_from ttl) rd None w) as [[v w']|[e w']|]; cbn [RP]; auto.
  - destruct H as (Hi' & w2 & cc & X & ->). eapply QK_ext_counts; eauto.
  - eapply QK_obs; eauto.
Qed.

Lemma wi_rrset_QK Q s h o ty c ttl rds b w : QK Q w ->
  match wi_add_rrset w_iface s h o ty c ttl rds b w with
  | Ok (_, w') => QK Q w' | Err (_, w') => QK Q w' | Panic => True end.
Proof.
  intros Hp. pose proof Hp as (Hi & _ & _). cbn [wi_add_rrset w_iface].
  pose proof (section_rrset_ok (sec_of s) (hint_of h) o ty c (ttl_from ttl) rds (if b then Some [] else None) w Hi) as H.
  destruct (add_section_rrset (sec_of s) (hint_of h) o ty c (ttl_from ttl) rds (if b then Some [] else None) w)
    as [[v w']|[e w']|]; auto.
  - destruct H as (Hi' & w2 & cc & X & ->). eapply QK_ext_counts; eauto.
  - eapply QK_obs; eauto.
Qed.

Lemma wi_aa_QK Q b w w' : QK Q w -> wi_set_aa w_iface b w = Some w' -> QK Q w'.
Proof.
  cbn [wi_set_aa w_iface]. intros H E. destruct (set_aa b w) as [w1|e|] eqn:E1; try discriminate.
  inversion E; subst. eapply QK_set_aa; eauto.
Qed.
Lemma wi_rc_QK Q c w w' : QK Q w -> wi_set_rcode w_iface c w = Some w' -> QK Q w'.
Proof.
  cbn [wi_set_rcode w_iface]. intros H E. destruct (set_rcode c w) as [w1|e|] eqn:E1; try discriminate.
  inversion E; subst. eapply QK_set_rcode; eauto.
Qed.

Lemma finish_w_QK Q tcp q w' : QP (QK Q) q -> finish_w tcp q = Some w' -> QK Q w'.
Proof.
  destruct q as [[u w1]|[[|] w1]|]; cbn [QP finish_w]; intros HQ; try discriminate.
  - intros E; inversion E; subst. exact HQ.
  - destruct (wi_set_aa w_iface false w1) as [w2|] eqn:E2; [|discriminate].
    destruct (wi_set_rcode w_iface RCODE_SERVFAIL w2) as [w3|] eqn:E3; [|discriminate].
    intros E; inversion E; subst. cbn [wi_clear_rrs w_iface]. apply QK_clear.
    exact (wi_rc_QK Q _ _ _ (wi_aa_QK Q _ _ _ HQ E2) E3).
  - cbn [wi_clear_rrs w_iface]. pose proof (QK_clear Q w1 HQ) as Hc.
    destruct tcp.
    + destruct (wi_set_aa w_iface false (clear_rrs w1)) as [w2|] eqn:E2; [|discriminate].
      intros E3. exact (wi_rc_QK Q _ _ _ (wi_aa_QK Q _ _ _ Hc E2) E3).
    + cbn [wi_set_tc w_iface]. destruct (set_tc true (clear_rrs w1)) as [w2|e|] eqn:E2; try discriminate.
      intros E; inversion E; subst. eapply QK_set_tc; eauto.
Qed.

Theorem handle_QK Q negttl z qname qtype tcp w w' : QK Q w ->
  handle_non_axfr_query w_iface negttl z qname qtype tcp w = Some w' -> QK Q w'.
Proof.
  intros Hp. rewrite handle_w_finish. apply finish_w_QK.
  destruct (qtype =? QTYPE_ANY)%N.
  - apply answer_any_P; first [exact Hp | intros; first [apply wi_rr_QK; assumption | apply wi_rrset_QK; assumption | eapply wi_aa_QK; eassumption | eapply wi_rc_QK; eassumption]].
  - apply answer_P; first [exact Hp | intros; first [apply wi_rr_QK; assumption | apply wi_rrset_QK; assumption | eapply wi_aa_QK; eassumption | eapply wi_rc_QK; eassumption]].
Qed.

(* ---------- finish ---------- *)
Lemma finish_QK Q w len b : QK Q w -> finish w = Ok (len, b) ->
  slice b 12 (12 + length Q) = Q /\ 12 + length Q <= len.
Proof.
  intros H0. unfold finish, finish_gen.
  destruct (w_write w (N.to_nat QDCOUNT_START) _) as [w1|e|] eqn:E1; cbn [bind]; try discriminate.
  destruct (w_write w1 (N.to_nat ANCOUNT_START) _) as [w2|e|] eqn:E2; cbn [bind]; try discriminate.
  destruct (w_write w2 (N.to_nat NSCOUNT_START) _) as [w3|e|] eqn:E3; cbn [bind]; try discriminate.
  destruct (w_write w3 (N.to_nat ARCOUNT_START) _) as [w4|e|] eqn:E4; cbn [bind]; try discriminate.
  assert (H1 : QK Q w1) by (eapply QK_write_low; [exact H0|exact E1|cbn; lia]).
  assert (H2 : QK Q w2) by (eapply QK_write_low; [exact H1|exact E2|cbn; lia]).
  assert (H3 : QK Q w3) by (eapply QK_write_low; [exact H2|exact E3|cbn; lia]).
  assert (H4 : QK Q w4) by (eapply QK_write_low; [exact H3|exact E4|cbn; lia]).
  clear E1 E2 E3 E4 H0 H1 H2 H3.
  destruct H4 as (Hi & Hr & Hs). destruct Hi as [h1 h2 h3 h4 h5].
  (* what the two pseudo-records preserve: the octets below rr_start, and a cursor at or above it *)
  set (K := fun w5 : writer => slice (w_buf w5) 12 (12 + length Q) = Q /\ 12 + length Q <= w_cursor w5 /\
                                w_cursor w5 <= w_avail w5).
  assert (K4 : K w4) by (unfold K; repeat split; auto; lia).
  assert (Kadd : forall w5 h owner ty cl ttl rd a w6, K w5 -> w_cursor w5 <= a ->
            unwrap_w (add_rr h owner ty cl ttl rd None (set_avail w5 a)) = Ok w6 -> K w6).
  { intros w5 h owner ty cl ttl rd a w6 (A & B & C) Ha U.
    assert (Hp : pre (w_cursor w5) (set_avail w5 a)) by (split; cbn [w_avail w_cursor set_avail set_limit_avail]; lia).
    pose proof (unwrap_frame (w_cursor w5) _ _ _ U (frame_add_rr (w_cursor w5) _ _ _ _ _ _ _ _ Hp)) as X.
    pose proof (x_cur _ _ _ X) as Xc. pose proof (x_cav _ _ _ X) as Xa. pose proof (x_agree _ _ _ X) as Xg.
    cbn [w_cursor w_buf set_avail set_limit_avail] in *. unfold K. split; [|split; [lia|exact Xa]].
    rewrite (agree_slice (w_cursor w5) (w_buf w5) (w_buf w6)); [exact A|exact Xg|lia]. }
  assert (K5 : forall w5, match w_edns w4 with
                          | Some e => unwrap_w (add_rr HNone [] TYPE_OPT (e_udp e) (e_upper e * 16777216)%N [] None
                                                       (set_avail w4 (w_avail w4 + opt_record_size)))
                          | None => Ok w4 end = Ok w5 -> K w5).
  { intros w5. destruct (w_edns w4) as [e|].
    - intros U. eapply Kadd; [exact K4| |exact U]. lia.
    - intros U; inversion U; subst. exact K4. }
  destruct (match w_edns w4 with Some e => _ | None => Ok w4 end) as [w5|e|] eqn:E5; cbn [bind]; try discriminate.
  specialize (K5 w5 eq_refl).
  destruct (w_tsig w5) as [t|] eqn:Et.
  - destruct (unwrap_w _) as [w6|e|] eqn:E6; cbn [bind]; try discriminate.
    intros H; inversion H; subst.
    assert (K6 : K w6).
    { refine (Kadd (set_tsig_f w5 None) _ _ _ _ _ _ _ w6 _ _ E6).
      - destruct K5 as (A & B & C). unfold K. cbn [w_buf w_cursor w_avail set_tsig_f]. auto.
      - destruct K5 as (A & B & C). cbn [w_cursor w_avail set_tsig_f]. lia. }
    destruct K6 as (A & B & _). split; [exact A|exact B].
  - intros H; inversion H; subst. destruct K5 as (A & B & _). split; [exact A|exact B].
Qed.

(* ---------- the prepared writer: the first question is written plainly at offset 12 ---------- *)
Lemma set_buf_idem w b b' : set_buf (set_buf w b) b' = set_buf w b'.
Proof. reflexivity. Qed.

Lemma fresh_add_question buf0 lim qname qtype qclass b4 u w5 :
  let w4 := set_buf (mkW buf0 header_size lim lim header_size SecQuestion 0 0 0 0 None None None Standard None None) b4 in
  add_question qname qtype qclass w4 = Ok (u, w5) ->
  w_rr_start w5 = 12 + length (nm_wire qname ++ be16 qtype ++ be16 qclass) /\
  slice (w_buf w5) 12 (12 + length (nm_wire qname ++ be16 qtype ++ be16 qclass)) = nm_wire qname ++ be16 qtype ++ be16 qclass /\
  w_tsig w5 = None /\ w_edns w5 = None.
Proof.
  intros w4 E. unfold add_question in E. cbn [w_section w4 set_buf w_qd] in E.
  change (checked_add16 0 1) with (Some 1%N) in E. cbv iota in E. unfold with_rollback in E.
  assert (Hname : write_unhinted_name qname w4 = write_uncompressed_name qname w4).
  { unfold write_unhinted_name. cbn [w_mode w4 set_buf]. destruct (2 <? length (nm_wire qname)); reflexivity. }
  rewrite Hname in E. unfold write_uncompressed_name in E.
  destruct (try_push (nm_wire qname) w4) as [[[] wa]|[e wa]|] eqn:P1; cbn [bind] in E; try discriminate.
  apply try_push_ok in P1. destruct P1 as (ba & Ba & -> & _).
  cbn [w_qd set_cursor set_buf w4] in E. change (0 =? 0)%N with true in E. cbv iota in E.
  unfold try_push_u16 in E.
  match type of E with context [try_push (be16 qtype) ?x] => set (wb0 := x) in E end.
  destruct (try_push (be16 qtype) wb0) as [[[] wb]|[e wb]|] eqn:P2; cbn [bind] in E; try discriminate.
  apply try_push_ok in P2. destruct P2 as (bb & Bb & -> & _).
  match type of E with context [try_push (be16 qclass) ?x] => set (wc0 := x) in E end.
  destruct (try_push (be16 qclass) wc0) as [[[] wc]|[e wc]|] eqn:P3; cbn [bind] in E; try discriminate.
  apply try_push_ok in P3. destruct P3 as (bc & Bc & -> & _).
  inversion E; subst w5. clear E.
  cbn [w_buf w_cursor set_buf set_cursor set_qname wb0 wc0 w4 set_rr_start set_counts w_rr_start] in *.
  change header_size with 12 in *.
  assert (L16 : forall v, length (be16 v) = 2) by reflexivity.
  rewrite !app_length, !L16. rewrite !L16 in *.
  set (n := length (nm_wire qname)) in *.
  split; [lia|]. split; [|split; reflexivity].
  replace (12 + (n + (2 + 2))) with (12 + n + 2 + 2) by lia.
  rewrite (slice_app bc 12 (12 + n) (12 + n + 2 + 2)) by lia.
  rewrite (slice_app bc (12 + n) (12 + n + 2) (12 + n + 2 + 2)) by lia.
  f_equal; [|f_equal].
  - rewrite (agree_slice (12 + n + 2) bb bc) by (first [eapply buf_write_agree; eauto; lia | lia]).
    rewrite (agree_slice (12 + n) ba bb) by (first [eapply buf_write_agree; eauto; lia | lia]).
    pose proof (buf_write_data _ _ _ _ Ba) as D. fold n in D. exact D.
  - rewrite (agree_slice (12 + n + 2) bb bc) by (first [eapply buf_write_agree; eauto; lia | lia]).
    pose proof (buf_write_data _ _ _ _ Bb) as D. rewrite L16 in D. exact D.
  - pose proof (buf_write_data _ _ _ _ Bc) as D. rewrite L16 in D. exact D.
Qed.

Theorem prepare_QK buf tcp id rd qname qtype qclass edns limit w :
  prepare_w buf tcp id rd qname qtype qclass edns limit = Some w ->
  QK (nm_wire qname ++ be16 qtype ++ be16 qclass) w.
Proof.
  intros E. destruct (prepare_PW _ _ _ _ _ _ _ _ _ _ E) as (L & (Hi & _ & _) & _).
  split; [exact Hi|]. revert E. unfold prepare_w.
  destruct (writer_new buf (if tcp then tcp_limit_w else udp_limit_w)) as [w0|e|] eqn:E0; try discriminate.
  unfold writer_new in E0. destruct (_ <? header_size); [discriminate|]. destruct (length buf <? header_size); [discriminate|].
  inversion E0; subst w0. clear E0.
  match goal with |- context [set_id id ?x] => set (w0 := x) end.
  destruct (set_id id w0) as [w1|e|] eqn:E1; cbn [bind]; try discriminate.
  destruct (set_qr true w1) as [w2|e|] eqn:E2; cbn [bind]; try discriminate.
  destruct (set_opcode 0 w2) as [w3|e|] eqn:E3; cbn [bind]; try discriminate.
  destruct (set_rd rd w3) as [w4|e|] eqn:E4; try discriminate.
  unfold set_id in E1. apply w_write_inv in E1. destruct E1 as (b1 & _ & ->).
  unfold set_qr, w_set_flag, w_modify in E2. destruct (nth_error _ _); [|discriminate].
  apply w_write_inv in E2. destruct E2 as (b2 & _ & ->). rewrite set_buf_idem in *.
  unfold set_opcode, w_modify in E3. destruct (nth_error _ _); [|discriminate].
  apply w_write_inv in E3. destruct E3 as (b3 & _ & ->). rewrite set_buf_idem in *.
  unfold set_rd, w_set_flag, w_modify in E4. destruct (nth_error _ _); [|discriminate].
  apply w_write_inv in E4. destruct E4 as (b4 & _ & ->). rewrite set_buf_idem in *.
  destruct (add_question qname qtype qclass (set_buf w0 b4)) as [[u w5]|e|] eqn:E5; try discriminate.
  destruct (fresh_add_question _ _ _ _ _ _ _ _ E5) as (R5 & S5 & _).
  destruct edns as [size|].
  - unfold set_edns. destruct (w_edns w5); [discriminate|].
    destruct (w_avail w5 <? w_cursor w5 + opt_record_size); [discriminate|].
    destruct (checked_add16 (w_ar w5) 1) as [ar|]; [|discriminate].
    destruct tcp.
    + intros H; inversion H; subst. split; [exact R5|exact S5].
    + match goal with |- context [MsgWriter.set_limit limit ?x] => set (w6 := x) end.
      destruct (MsgWriter.set_limit limit w6) as [w7|e|] eqn:E7; try discriminate.
      intros H; injection H as Hw; subst w7.
      destruct (set_limit_facts _ _ _ E7) as (Hb & _).
      assert (Hr : w_rr_start w = w_rr_start w6).
      { revert E7. unfold MsgWriter.set_limit. destruct (_ <=? _).
        - destruct (_ <? _); [discriminate|]. intros X; inversion X; reflexivity.
        - destruct (_ <? _); [discriminate|]. destruct (_ <? _); [discriminate|]. destruct (_ <? _); [discriminate|].
          intros X; inversion X; reflexivity. }
      rewrite Hr, Hb. split; [exact R5|exact S5].
  - intros H; inversion H; subst. split; [exact R5|exact S5].
Qed.

(* ---------- the complete responses ---------- *)
Theorem respond_w_question negttl buf tcp id rd qname qtype qclass edns limit z len b :
  respond_w negttl buf tcp id rd qname qtype qclass edns limit z = Some (len, b) ->
  let Q := nm_wire qname ++ be16 qtype ++ be16 qclass in
  slice b 12 (12 + length Q) = Q /\ 12 + length Q <= len.
Proof.
  unfold respond_w.
  destruct (prepare_w buf tcp id rd qname qtype qclass edns limit) as [w|] eqn:Ep; [|discriminate].
  pose proof (prepare_QK _ _ _ _ _ _ _ _ _ _ Ep) as Hp.
  destruct (handle_non_axfr_query w_iface negttl z qname qtype tcp w) as [w'|] eqn:Eh; [|discriminate].
  pose proof (handle_QK _ _ _ _ _ _ _ _ Hp Eh) as Hq.
  destruct (finish w') as [[len' b']|e|] eqn:Ef; try discriminate.
  intros E; injection E as E1 E2; subst len' b'. cbv zeta. eapply finish_QK; eauto.
Qed.

Theorem respond_plain_question buf tcp id rd qname qtype qclass edns limit rcode len b :
  respond_plain buf tcp id rd qname qtype qclass edns limit rcode = Some (len, b) ->
  let Q := nm_wire qname ++ be16 qtype ++ be16 qclass in
  slice b 12 (12 + length Q) = Q /\ 12 + length Q <= len.
Proof.
  unfold respond_plain.
  destruct (prepare_w buf tcp id rd qname qtype qclass edns limit) as [w|] eqn:Ep; [|discriminate].
  pose proof (prepare_QK _ _ _ _ _ _ _ _ _ _ Ep) as Hp.
  destruct (set_rcode rcode w) as [w'|e|] eqn:Er; try discriminate.
  pose proof (QK_set_rcode _ _ _ _ Hp Er) as Hq.
  destruct (finish w') as [[len' b']|e|] eqn:Ef; try discriminate.
  intros E; injection E as E1 E2; subst len' b'. cbv zeta. eapply finish_QK; eauto.
Qed.
