(* Composition, part 13 (C04): the three endings of handle_non_axfr_query, read off the finished octets.
   The answering logic succeeded  <=>  the decoded response has TC clear and an RCODE other than SERVFAIL.
   (Ok arm: the only RCODE the answering logic sets is NXDOMAIN and it never touches TC; error arms: the
   last header operations are set_rcode(SERVFAIL) or set_tc(true).)  This turns the model-level premise of
   the clause (iv) theorem into a statement about the response itself. *)
From QV Require Import Base.ListX Gen.Consts Model.NameWire Model.MsgWriter Model.ZoneTree
  Spec.ZoneLookupS Proofs.ZoneInvP Model.Query Model.QueryW
  Spec.NameWireS Spec.MsgWriterS Spec.MsgWriterAbsS Spec.RdataFormatS Spec.RespS
  Proofs.MsgWriterP Proofs.MsgWriterScanP Proofs.MsgWriterNameP Proofs.MsgWriterInvP Proofs.MsgWriterOpP
  Proofs.MsgWriterStepP Proofs.MsgWriterDecP Proofs.MsgWriterHdrP Proofs.MsgWriterRtP
  Proofs.ComposeTraceP Proofs.ComposeWfP Proofs.ComposeNameP Proofs.ComposeKeyP Proofs.ComposeTopP Proofs.ComposeRdataP
  Proofs.ComposeRespP Proofs.ComposeTcP Proofs.ComposeGlueP Proofs.ComposeAbsP.
From QV Require Proofs.QueryTopP Spec.ResolveS Spec.ResolveRepr.
Local Open Scope nat_scope.

(* decoding the finished message of a contract-obeying run: C12's round trip, packaged *)
Lemma run_decode Pop buf lim w0 ops outs d' g' L : writer_new buf lim = Ok w0 ->
  Reach Pop (mkD w0 []) g0 ops outs d' g' -> AInv d' g' L ->
  exists len b m, finish (d_w d') = Ok (len, b) /\ decode_msg (firstn len b) = Some m /\
    hdr_rel (hreplay ah0 ops outs) m /\
    Forall2 (rr_rel xparts) (am_an (areplay am0 ops outs)) (m_an m) /\
    Forall2 (rr_rel xparts) (am_ns (areplay am0 ops outs)) (m_ns m) /\
    Forall2 (rr_rel xparts) (am_ar (areplay am0 ops outs) ++ pseudo_of (am_mode (areplay am0 ops outs)) (hreplay ah0 ops outs)) (m_ar m).
Proof.
  intros E0 Rall Hi.
  destruct (Reach_run Pop _ _ _ _ _ _ Rall) as (Hrun & Hrc & F1 & F2 & F3 & F4 & Hlen).
  destruct (MsgWriterStepP.finish_ok (fun x => x) d' g' L Hi) as (wF & LF & EF & _).
  exists (w_cursor wF), (w_buf wF).
  destruct (roundtrip_full buf _ w0 ops E0 Hrc F1 F2 F3) as (rr & Err & Hrt).
  assert (Hrr' : rr = mkRR outs (d_regs d') (Some (w_cursor wF, w_buf wF))).
  { unfold run_writer, run_writer_gen in Err. rewrite E0 in Err. cbn [bind] in Err. rewrite Hrun in Err. cbn [bind] in Err.
    unfold finish in Err. rewrite EF in Err. cbn [bind] in Err. inversion Err. reflexivity. }
  subst rr. cbn [rr_final rr_outcomes] in Hrt.
  destruct Hrt as (m & Em & Hh & _ & Han & Hns & Har & _). exists m. auto 10.
Qed.

Lemma land15 x : N.land x 15 = (x mod 16)%N.
Proof. change 15%N with (N.ones 4). rewrite N.land_ones. reflexivity. Qed.

(* the query phase: no TC, no TSIG, and the only RCODE it sets is NXDOMAIN *)
Definition Pop_r (o : wop) : Prop :=
  match o with
  | OSetTc _ | OSetMode _ | OSetTsig _ _ _ _ _ _ _ | OUpdateTime _ | OTemplate _ | OTemplateSubsequent | OSetXrcode _ => False
  | OSetRcode v => v = RCODE_NXDOMAIN
  | _ => True
  end.
Lemma Pop_r_t o : Pop_r o -> Pop_t o.
Proof. destruct o; cbn; auto. Qed.

Definition Good_r (H : ahdr) : Prop := h_tc H = false /\ h_tsig H = None /\ (h_rcode H = 0%N \/ h_rcode H = 3%N).
Lemma Good_r_step H o r : Good_r H -> Pop_r o -> Good_r (hstep H o r).
Proof.
  intros (A & B & C) P. destruct o; cbn [Pop_r] in P; try contradiction; destruct r; cbn [hstep]; try (repeat split; assumption);
    repeat split; cbn; auto.
Qed.
Lemma Good_r_replay : forall ops outs H, Forall Pop_r ops -> Good_r H -> Good_r (hreplay H ops outs).
Proof.
  induction ops as [|o ops IH]; intros outs H Hf G; [exact G|].
  destruct outs as [|r outs]; [exact G|]. inversion Hf; subst. cbn [hreplay]. apply IH; auto. apply Good_r_step; auto.
Qed.
Lemma Good_r_prepared tcp id rd qname qtype qclass edns limit :
  let ops := pre_ops tcp id rd qname qtype qclass edns limit in
  Good_r (hreplay ah0 ops (map (fun _ => RUnit) ops)).
Proof. unfold pre_ops. destruct edns as [size|]; [destruct tcp|]; cbn; repeat split; auto. Qed.

Lemma Pop_r_q o : Pop_r o -> Pop_q o.
Proof. destruct o; cbn; auto. Qed.

(* single header steps from a state satisfying the invariant *)
Lemma step_aa d g L b : AInv d g L ->
  exists w' L', wi_set_aa w_iface b (d_w d) = Some w' /\ step d (OSetAa b) = Ok (mkD w' (d_regs d), RUnit) /\ AInv (mkD w' (d_regs d)) g L'.
Proof.
  intros Hi. pose proof (step_ok_all d g L (OSetAa b) Hi I I) as S. unfold step_ok in S. cbn [step] in S |- *. cbn [wi_set_aa w_iface].
  pose proof (w_modify_no_err (d_w d) AA_BYTE (set_bit AA_MASK b)) as NE. unfold set_aa, w_set_flag in *.
  destruct (w_modify (d_w d) AA_BYTE (set_bit AA_MASK b)) as [w'|e|]; cbn [of_R] in S; [|exfalso; eapply NE; reflexivity|contradiction].
  destruct S as [L' Hi']. exists w', L'. split; [reflexivity|]. split; [reflexivity|exact Hi'].
Qed.
Lemma step_tc d g L b : AInv d g L ->
  exists w' L', wi_set_tc w_iface b (d_w d) = Some w' /\ step d (OSetTc b) = Ok (mkD w' (d_regs d), RUnit) /\ AInv (mkD w' (d_regs d)) g L'.
Proof.
  intros Hi. pose proof (step_ok_all d g L (OSetTc b) Hi I I) as S. unfold step_ok in S. cbn [step] in S |- *. cbn [wi_set_tc w_iface].
  pose proof (w_modify_no_err (d_w d) TC_BYTE (set_bit TC_MASK b)) as NE. unfold set_tc, w_set_flag in *.
  destruct (w_modify (d_w d) TC_BYTE (set_bit TC_MASK b)) as [w'|e|]; cbn [of_R] in S; [|exfalso; eapply NE; reflexivity|contradiction].
  destruct S as [L' Hi']. exists w', L'. split; [reflexivity|]. split; [reflexivity|exact Hi'].
Qed.
Lemma step_rc d g L v : AInv d g L ->
  exists w' L', wi_set_rcode w_iface v (d_w d) = Some w' /\ step d (OSetRcode v) = Ok (mkD w' (d_regs d), RUnit) /\ AInv (mkD w' (d_regs d)) g L'.
Proof.
  intros Hi. pose proof (step_ok_all d g L (OSetRcode v) Hi I I) as S. unfold step_ok in S. cbn [step] in S |- *. cbn [wi_set_rcode w_iface].
  unfold set_rcode in *.
  match type of S with context [w_modify ?a ?b ?c] => pose proof (w_modify_no_err a b c) as NE; destruct (w_modify a b c) as [w'|e|] end;
    cbn [bind of_R] in S; [|exfalso; eapply NE; reflexivity|contradiction].
  destruct S as [L' Hi']. eexists _, L'. split; [reflexivity|]. split; [reflexivity|exact Hi'].
Qed.
Lemma step_clr d g L : AInv d g L ->
  exists L', step d OClearRrs = Ok (mkD (clear_rrs (d_w d)) (d_regs d), RUnit) /\ AInv (mkD (clear_rrs (d_w d)) (d_regs d)) (gstep d g OClearRrs RUnit) L'.
Proof.
  intros Hi. pose proof (step_ok_all d g L OClearRrs Hi I I) as S. unfold step_ok in S. cbn [step] in S |- *.
  destruct S as [L' Hi']. exists L'. split; [reflexivity|exact Hi'].
Qed.

Lemma okt o : Pop_t o -> op_wf o -> op_wf2 o -> op_wf3 o -> op_ok Pop_t o.
Proof. intros. repeat split; auto. Qed.

Section End.
Variable reqf : N -> N -> bytes -> bytes -> bool.
Variable apex : name.
Variable cls : N.
Variable R : list record.
Variable z : zone.
Hypothesis Hinv : Inv reqf apex cls z R.
Hypothesis Hapex : good_name apex.
Hypothesis Hclass : (cls < 65536)%N.
Hypothesis HR : Forall (fun r => Pz (fun _ _ => True) (r_type r) (r_rdata r)) R.
Variable negttl : N -> N -> N.

Theorem respond_w_endings buf tcp id rd qname qtype qclass edns limit :
  512 <= length buf -> good_name qname -> in_zone apex qname = true ->
  (id < 65536)%N -> (qtype < 65536)%N -> (qclass < 65536)%N -> (forall s, edns = Some s -> (s < 65536)%N) ->
  exists w len b m,
    prepare_w buf tcp id rd qname qtype qclass edns limit = Some w /\
    respond_w negttl buf tcp id rd qname qtype qclass edns limit z = Some (len, b) /\
    decode_msg (firstn len b) = Some m /\
    match answering z negttl w_iface qname qtype w with
    | Ok _ => tc_bit m = false /\ rcode_of_msg m <> 2%N
    | Err _ => tc_bit m = true \/ rcode_of_msg m = 2%N
    | Panic => False
    end.
Proof.
  intros Hb Gq Hz Hid Hqt Hqc Hed.
  destruct (prepare_total buf tcp id rd qname qtype qclass edns limit Hb (proj2 Gq)) as (w & Ew).
  exists w.
  assert (Hhdr : forall o, match o with
    | OSetId _ | OSetQr true | OSetOpcode _ | OSetRd _ | OAddQuestion _ _ _ | OSetEdns _ | OSetLimit _ => Pop_r o
    | _ => True end).
  { intros o. destruct o; try exact I. destruct b; exact I. }
  destruct (prepare_Reach Pop_r Hhdr buf tcp id rd qname qtype qclass edns limit w Ew Gq Hid Hqt Hqc Hed) as (w0 & E0 & Rpre).
  set (pre := pre_ops tcp id rd qname qtype qclass edns limit) in *.
  set (opre := map (fun _ : wop => RUnit) pre) in *.
  assert (Hlp : length pre = length opre) by (unfold opre; rewrite map_length; reflexivity).
  destruct (Reach_AInv Pop_r _ _ _ _ _ _ Rpre L0 (AInv_new _ _ _ E0)) as (Lp & Hip).
  assert (RpreT : Reach Pop_t (mkD w0 []) g0 pre opre (mkD w []) (g_prepared qname)) by (exact (Reach_weaken _ _ Pop_r_t _ _ _ _ _ _ Rpre)).
  (* decoding a finished run that continues the preparation *)
  assert (Dec : forall ops2 outs2 d' g' L, Reach Pop_t (mkD w []) (g_prepared qname) ops2 outs2 d' g' -> AInv d' g' L ->
            exists len b m, finish (d_w d') = Ok (len, b) /\ decode_msg (firstn len b) = Some m /\
              tc_bit m = h_tc (hreplay (hreplay ah0 pre opre) ops2 outs2) /\
              rcode_of_msg m = h_rcode (hreplay (hreplay ah0 pre opre) ops2 outs2)).
  { intros ops2 outs2 d' g' L R2 Hi.
    destruct (run_decode Pop_t buf _ w0 _ _ d' g' L E0 (Reach_trans Pop_t _ _ _ _ _ _ _ _ _ _ RpreT R2) Hi) as (len & b & m & Ef & Em & Hh & _).
    rewrite hreplay_app in Hh by exact Hlp. exists len, b, m. split; [exact Ef|]. split; [exact Em|].
    destruct Hh as (_ & _ & _ & _ & Htc & _ & _ & _ & Hrc). split; [exact Htc|]. unfold rcode_of_msg. rewrite land15. exact Hrc. }
  (* the two analyses of the query phase *)
  assert (SpQ : St Pop_q (mkD w []) (g_prepared qname) (mkD w []) (g_prepared qname)).
  { exists [], [], Lp. split; [constructor|exact Hip]. }
  assert (SpA : StA Pop_r (mkD w []) (g_prepared qname) am0 (mkD w []) (g_prepared qname) am0).
  { exists [], [], Lp. split; [constructor|]. split; [exact Hip|reflexivity]. }
  assert (HRel0 : RelE am0 rec_empty) by (unfold RelE, Rel; cbn; auto).
  unfold respond_w. rewrite Ew. unfold handle_non_axfr_query.
  change (if (qtype =? QTYPE_ANY)%N then answer_any w_iface negttl z qname w else answer w_iface negttl z qname qtype w)
    with (answering z negttl w_iface qname qtype w).
  set (qq := answering z negttl w_iface qname qtype w).
  assert (Q1 : QS Pop_q (mkD w []) (g_prepared qname) (mkD w []) (g_prepared qname) qq).
  { unfold qq, answering. destruct (qtype =? QTYPE_ANY)%N.
    - apply (answer_any_S reqf apex cls R z Hinv (fun _ _ => True) Pop_q HR Hapex Hclass
               (fun _ _ _ _ _ _ _ _ => I) (fun _ _ _ _ _ _ _ _ => I) (fun _ => I) (fun _ => I) negttl _ _ qname Gq Hz
               (mkD w []) (g_prepared qname) SpQ eq_refl).
    - apply (answer_S reqf apex cls R z Hinv (fun _ _ => True) Pop_q HR Hapex Hclass
               (fun _ _ _ _ _ _ _ _ => I) (fun _ _ _ _ _ _ _ _ => I) (fun _ => I) (fun _ => I) negttl _ _ qname Gq Hz
               qtype (mkD w []) (g_prepared qname) SpQ eq_refl). }
  assert (Q2 : QC Pop_r (mkD w []) (g_prepared qname) am0 (mkD w []) (g_prepared qname) RelO qq (answering z negttl rec_iface qname qtype rec_empty)).
  { unfold qq, answering. destruct (qtype =? QTYPE_ANY)%N.
    - apply (answer_any_C reqf apex cls R z Hinv HR Hapex Hclass Pop_r (fun _ _ _ _ _ _ _ _ => I) (fun _ _ _ _ _ _ _ _ => I)
               (fun _ => I) eq_refl negttl _ _ am0 qname Gq Hz (mkD w []) (g_prepared qname) am0 rec_empty SpA HRel0 eq_refl eq_refl).
    - apply (answer_C reqf apex cls R z Hinv HR Hapex Hclass Pop_r (fun _ _ _ _ _ _ _ _ => I) (fun _ _ _ _ _ _ _ _ => I)
               (fun _ => I) eq_refl negttl _ _ am0 qname Gq Hz qtype (mkD w []) (g_prepared qname) am0 rec_empty SpA HRel0 eq_refl eq_refl). }
  clearbody qq.
  destruct qq as [[u w1]|[[|] w1]|]; cbn [QS QC] in Q1, Q2; try contradiction.
  - (* the answering logic succeeded: only Pop_r operations *)
    destruct Q2 as (d1 & g1 & A1 & r1 & (ops1 & outs1 & L1 & R1 & Hi1 & _) & Hw1 & _).
    destruct (Reach_run _ _ _ _ _ _ _ R1) as (_ & _ & _ & _ & _ & F4 & _).
    destruct (Dec ops1 outs1 d1 g1 L1 (Reach_weaken _ _ Pop_r_t _ _ _ _ _ _ R1) Hi1) as (len & b & m & Ef & Em & Htc & Hrc).
    exists len, b, m. split; [reflexivity|]. rewrite <- Hw1, Ef. split; [reflexivity|]. split; [exact Em|].
    destruct (Good_r_replay ops1 outs1 _ F4 (Good_r_prepared tcp id rd qname qtype qclass edns limit)) as (G1 & _ & G3).
    fold pre opre in G1, G3. split; [congruence|]. rewrite Hrc. destruct G3 as [-> | ->]; discriminate.
  - (* ServFail: set_aa(false), set_rcode(SERVFAIL), clear_rrs *)
    destruct Q1 as (d1 & g1 & (ops1 & outs1 & L1 & R1 & Hi1) & Hw1 & _). subst w1.
    destruct (Reach_run _ _ _ _ _ _ _ R1) as (_ & _ & _ & _ & _ & _ & Hl1).
    destruct (step_aa d1 g1 L1 false Hi1) as (w2 & L2 & E2 & T2 & Hi2). rewrite E2.
    destruct (step_rc (mkD w2 (d_regs d1)) g1 L2 RCODE_SERVFAIL Hi2) as (w3 & L3 & E3 & T3 & Hi3). cbn [d_w d_regs] in E3, T3, Hi3. rewrite E3.
    destruct (step_clr (mkD w3 (d_regs d1)) g1 L3 Hi3) as (L4 & T4 & Hi4). cbn [d_w d_regs] in T4, Hi4.
    assert (R2 : Reach Pop_t (mkD w []) (g_prepared qname) (ops1 ++ [OSetAa false; OSetRcode RCODE_SERVFAIL; OClearRrs]) (outs1 ++ [RUnit; RUnit; RUnit])
                   (mkD (clear_rrs w3) (d_regs d1)) (gstep (mkD w3 (d_regs d1)) g1 OClearRrs RUnit)).
    { eapply Reach_trans; [exact (Reach_weaken _ _ Pop_q_t _ _ _ _ _ _ R1)|].
      eapply (R_cons Pop_t d1 g1 (OSetAa false)); [apply okt; exact I|exact I|exact T2|reflexivity|]. cbn [gstep].
      eapply (R_cons Pop_t _ g1 (OSetRcode RCODE_SERVFAIL)); [apply okt; try exact I; reflexivity|exact I|exact T3|reflexivity|]. cbn [gstep].
      eapply (R_cons Pop_t _ g1 OClearRrs); [apply okt; exact I|exact I|exact T4|reflexivity|constructor]. }
    destruct (Dec _ _ _ _ L4 R2 Hi4) as (len & b & m & Ef & Em & Htc & Hrc). cbn [d_w] in Ef.
    exists len, b, m. split; [reflexivity|]. cbn [wi_clear_rrs w_iface]. rewrite Ef. split; [reflexivity|]. split; [exact Em|]. right.
    rewrite Hrc. rewrite hreplay_app by lia. reflexivity.
  - (* Truncation *)
    destruct Q1 as (d1 & g1 & (ops1 & outs1 & L1 & R1 & Hi1) & Hw1 & _). subst w1. cbv zeta.
    destruct (Reach_run _ _ _ _ _ _ _ R1) as (_ & _ & _ & _ & _ & _ & Hl1).
    destruct (step_clr d1 g1 L1 Hi1) as (L2 & T2 & Hi2).
    set (d2 := mkD (clear_rrs (d_w d1)) (d_regs d1)) in *. set (g2 := gstep d1 g1 OClearRrs RUnit) in *.
    cbn [wi_clear_rrs w_iface]. destruct tcp.
    + destruct (step_aa d2 g2 L2 false Hi2) as (w3 & L3 & E3 & T3 & Hi3). cbn [d_w d2] in E3. rewrite E3.
      destruct (step_rc (mkD w3 (d_regs d2)) g2 L3 RCODE_SERVFAIL Hi3) as (w4 & L4 & E4 & T4 & Hi4). cbn [d_w d_regs] in E4, T4, Hi4. rewrite E4.
      assert (R2 : Reach Pop_t (mkD w []) (g_prepared qname) (ops1 ++ [OClearRrs; OSetAa false; OSetRcode RCODE_SERVFAIL]) (outs1 ++ [RUnit; RUnit; RUnit])
                     (mkD w4 (d_regs d2)) g2).
      { eapply Reach_trans; [exact (Reach_weaken _ _ Pop_q_t _ _ _ _ _ _ R1)|].
        eapply (R_cons Pop_t d1 g1 OClearRrs); [apply okt; exact I|exact I|exact T2|reflexivity|]. fold g2.
        eapply (R_cons Pop_t d2 g2 (OSetAa false)); [apply okt; exact I|exact I|exact T3|reflexivity|]. cbn [gstep].
        eapply (R_cons Pop_t _ g2 (OSetRcode RCODE_SERVFAIL)); [apply okt; try exact I; reflexivity|exact I|exact T4|reflexivity|constructor]. }
      destruct (Dec _ _ _ _ L4 R2 Hi4) as (len & b & m & Ef & Em & Htc & Hrc). cbn [d_w] in Ef.
      exists len, b, m. split; [reflexivity|]. rewrite Ef. split; [reflexivity|]. split; [exact Em|]. right.
      rewrite Hrc. rewrite hreplay_app by lia. reflexivity.
    + destruct (step_tc d2 g2 L2 true Hi2) as (w3 & L3 & E3 & T3 & Hi3). cbn [d_w d2] in E3. rewrite E3.
      assert (R2 : Reach Pop_t (mkD w []) (g_prepared qname) (ops1 ++ [OClearRrs; OSetTc true]) (outs1 ++ [RUnit; RUnit])
                     (mkD w3 (d_regs d2)) g2).
      { eapply Reach_trans; [exact (Reach_weaken _ _ Pop_q_t _ _ _ _ _ _ R1)|].
        eapply (R_cons Pop_t d1 g1 OClearRrs); [apply okt; exact I|exact I|exact T2|reflexivity|]. fold g2.
        eapply (R_cons Pop_t d2 g2 (OSetTc true)); [apply okt; exact I|exact I|exact T3|reflexivity|constructor]. }
      destruct (Dec _ _ _ _ L3 R2 Hi3) as (len & b & m & Ef & Em & Htc & Hrc). cbn [d_w] in Ef.
      exists len, b, m. split; [reflexivity|]. rewrite Ef. split; [reflexivity|]. split; [exact Em|]. left.
      rewrite Htc. rewrite hreplay_app by lia. reflexivity.
Qed.

End End.

(* clause (iv) with its premise read off the response: TC clear and not SERVFAIL *)
Theorem respond_w_clause_iv reqf apex cls wide recs z buf tcp id rd qname qtype qclass edns limit :
  (forall c t a b d, reqf c t a b = true -> reqf c t b d = true -> reqf c t a d = true) ->
  zone_build reqf (zone_new apex cls wide) recs = Some z ->
  Forall (fun r => good_rd (r_rdata r) /\ (r_type r < 65536)%N) recs -> good_name apex -> (cls < 65536)%N ->
  512 <= length buf -> good_name qname -> in_zone apex qname = true ->
  (id < 65536)%N -> (qtype < 65536)%N -> (qclass < 65536)%N -> (forall s, edns = Some s -> (s < 65536)%N) ->
  exists len b m,
    respond_w neg_ttl buf tcp id rd qname qtype qclass edns limit z = Some (len, b) /\
    decode_msg (firstn len b) = Some m /\
    (tc_bit m = false -> rcode_of_msg m <> 2%N ->
     exists r, (forall tcp', answer_rec z qname qtype tcp' = Some r) /\
       ResolveRepr.norm_rec r = ResolveS.resolve reqf apex cls (accepted apex cls recs) qname qtype /\
       Forall2 (rr_rel xparts) (map q2a (rc_an r)) (m_an m) /\
       Forall2 (rr_rel xparts) (map q2a (rc_ns r)) (m_ns m) /\
       exists M X Oq dsM dsX dsP,
         map q2a (rc_ar r) = M ++ map q2a Oq /\ Sub X (map q2a Oq) /\
         Forall (fun q => ~ in_bailiwick (rc_ns r) q) Oq /\
         m_ar m = dsM ++ dsX ++ dsP /\ Forall2 (rr_rel xparts) M dsM /\ Forall2 (rr_rel xparts) X dsX /\
         forallb is_pseudo dsP = true).
Proof.
  intros Ht Hb Hrecs Ga Hc Hbuf Gq Hz Hid Hqt Hqc Hed.
  assert (HR : Forall (fun r => Pz (fun _ _ => True) (r_type r) (r_rdata r)) (accepted apex cls recs)).
  { apply Forall_forall. intros r Hr. apply QueryTopP.accepted_In in Hr. rewrite Forall_forall in Hrecs.
    destruct (Hrecs r Hr) as [A B]. split; [exact A|split; [exact B|exact I]]. }
  destruct (respond_w_vs_resolve reqf apex cls wide recs z buf tcp id rd qname qtype qclass edns limit
              Ht Hb Hrecs Ga Hc Hbuf Gq Hz Hid Hqt Hqc Hed) as (w & len & b & m & E1 & E2 & E3 & Hm).
  destruct (respond_w_endings reqf apex cls (accepted apex cls recs) z (ZoneTopP.build_inv reqf Ht apex cls wide recs z Hb) Ga Hc HR neg_ttl
              buf tcp id rd qname qtype qclass edns limit Hbuf Gq Hz Hid Hqt Hqc Hed) as (w' & len' & b' & m' & F1 & F2 & F3 & Hend).
  rewrite E1 in F1. inversion F1; subst w'. rewrite E2 in F2. inversion F2; subst len' b'. rewrite E3 in F3. inversion F3; subst m'.
  exists len, b, m. split; [exact E2|]. split; [exact E3|]. intros Htc Hrc.
  destruct (answering z neg_ttl w_iface qname qtype w) as [[u w1]|e|].
  - exact Hm.
  - destruct Hend as [H|H]; congruence.
  - contradiction.
Qed.
