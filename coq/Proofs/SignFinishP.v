(* finish_with_mac for TsigMode::Response (Model/ServerWT.v: finish_signed): the analogue of C12's finish_ok2
   (Proofs/MsgWriterMsgP.v) for the SIGNING TSIG record.

   The Writer invariants of C12 (AInv / LInv) are stated for TsigMode::Unsigned: tsig_wf demands
   reserved_len = unsigned_len.  A writer on which Writer::set_tsig installed a SIGNING mode differs from such a state
   in two fields only: reserved_len (larger by the output size of the algorithm) and hence the limit the available
   space is measured against.  [real_of wh t lim] is that writer, given the "hypothetical" unsigned state [wh] (same
   buffer, cursor, available, anchors, counts, EDNS): the four header writes do not look at the two fields, and the
   invariants of names below the cursor (NInv, anch3, PLay) do not mention them, so the OPT record and the TSIG record
   are appended through C12's add_rr_fits2 on the REAL state.

   finish_signed_ok2: under the invariant, for every hmac whose output has the algorithm's output size (hmac_len) and
   consists of octets (hmac_wf), finish_signed never panics; the octets written stay within limit; the message
   signed is the finished message minus the TSIG record; the layout is the old one plus (OPT iff EDNS) plus ONE record
   described by key name / TYPE TSIG / CLASS ANY / TTL 0 / RDATA = serialize_tsig_unchecked(algorithm name, time
   signed, fudge, MAC, original ID, error, other data), MAC of the output size.

   The reservation arithmetic is inside: the record fits exactly because
     reserved_len = key name + algorithm name + 26 (+ 6 other data for BADTIME) + output size;
   with 6 octets less (BADTIME other data forgotten) or a MAC longer than the output size add_rr_fits2 would not apply. *)
From QV Require Import Model.ServerWT.
From QV Require Import Base.ListX Model.MsgWriter Spec.NameRepr Proofs.NameWireP Proofs.MsgWriterP
     Proofs.MsgWriterScanP Proofs.MsgWriterNameP Proofs.MsgWriterInvP Proofs.MsgWriterClosP
     Proofs.MsgWriterScanSP Proofs.MsgWriterNameSP Proofs.MsgWriterLayP Proofs.MsgWriterOpP Proofs.MsgWriterStepP
     Proofs.MsgWriterMsgP.
From QV Require Import Spec.MsgWriterAbsS.
From QV Require Model.TsigMsg.

Local Open Scope nat_scope.

(* ---------------------------------------------------------------- PreparedTsigRr::sign_response *)

Lemma sf_alg_name_len a : length (TsigMsg.alg_name a) <= 13.
Proof. destruct a; cbv; lia. Qed.
Lemma sf_output_size_le a : TsigMsg.output_size a <= 32.
Proof. destruct a; cbv; lia. Qed.
Lemma sf_alg_name_wf a : wf_bytes (TsigMsg.alg_name a).
Proof. destruct a; apply wf_bytesb_spec; reflexivity. Qed.

Lemma sf_be_dec_be16 v : (v < 65536)%N -> TsigMsg.be_dec (MsgWriter.be16 v) = v.
Proof.
  intros H. unfold TsigMsg.be_dec, MsgWriter.be16. cbn [fold_left].
  rewrite (N.mod_small (v / 256) 256) by (apply N.div_lt_upper_bound; lia).
  pose proof (N.div_mod' v 256). lia.
Qed.

Lemma sf_wf_be16 v : wf_bytes (TsigMsg.be16 v).
Proof. exact (wf_bytes_be16 v). Qed.

Section Sign.
Variable hmac : TsigMsg.alg -> bytes -> bytes -> bytes.
Hypothesis hmac_len : forall a k d, length (hmac a k d) = TsigMsg.output_size a.

(* sign_response never panics on a message with a header whose ARCOUNT is not 0, for a request MAC that fits a u16 *)
Lemma sign_response_ok p msg rmac a secret :
  (N.of_nat (length rmac) <= 65535)%N -> 12 <= length msg -> TsigMsg.be_dec (slice msg 10 12) <> 0%N ->
  length (TsigMsg.p_server_time p) = 6 ->
  exists d, TsigMsg.sign_digest p msg (TsigMsg.SResponse rmac) a = Ok d /\
    TsigMsg.sign hmac p msg (TsigMsg.SResponse rmac) a secret =
      Ok (TsigMsg.serialize_tsig_unchecked (TsigMsg.alg_name a) (TsigMsg.p_time_signed p) (TsigMsg.p_fudge p)
            (hmac a secret d) (TsigMsg.p_original_id p) (TsigMsg.p_error p) (TsigMsg.p_other p), hmac a secret d).
Proof.
  intros Hr Hm Har Hst. unfold TsigMsg.sign, TsigMsg.sign_digest.
  destruct (65535 <? N.of_nat (length rmac))%N eqn:E; [apply N.ltb_lt in E; lia|].
  unfold TsigMsg.add_modified_message, TsigMsg.get_range, TsigMsg.get_from.
  change TsigMsg.id_end with 2. change TsigMsg.arcount_start with 10. change TsigMsg.arcount_end with 12.
  assert (E1 : (2 <=? 10) && (10 <=? length msg) = true) by (apply andb_true_iff; split; apply Nat.leb_le; lia).
  assert (E2 : (10 <=? 12) && (12 <=? length msg) = true) by (apply andb_true_iff; split; apply Nat.leb_le; lia).
  assert (E3 : (12 <=? length msg) = true) by (apply Nat.leb_le; lia).
  rewrite E1, E2, E3.
  destruct (TsigMsg.be_dec (slice msg 10 12) =? 0)%N eqn:E4; [apply N.eqb_eq in E4; contradiction|].
  cbn [bind]. eexists. split; [reflexivity|].
  unfold TsigMsg.serialize_rdata, TsigMsg.new_tsig, TsigMsg.required_len. rewrite hmac_len.
  assert (Ho : length (TsigMsg.p_other p) <= 6).
  { unfold TsigMsg.p_other. destruct (TsigMsg.p_error p =? _)%N; [rewrite Hst|simpl]; lia. }
  pose proof (sf_alg_name_len a) as Ha. pose proof (sf_output_size_le a) as Hs.
  change (N.to_nat TsigConsts.TSIG_RDATA_FIXED_LEN) with 16.
  destruct (N.of_nat (length (TsigMsg.alg_name a) + 16 + TsigMsg.output_size a + length (TsigMsg.p_other p)) <=? 65535)%N eqn:E5;
    [reflexivity|apply N.leb_gt in E5; lia].
Qed.

End Sign.

(* ---------------------------------------------------------------- the real writer over a hypothetical unsigned one *)

Definition real_of (wh : writer) (t : tsigr) (lim : nat) : writer :=
  mkW (w_buf wh) (w_cursor wh) lim (w_avail wh) (w_rr_start wh) (w_section wh) (w_qd wh) (w_an wh) (w_ns wh) (w_ar wh)
      (w_qname wh) (w_mro wh) (w_mrn wh) (w_mode wh) (w_edns wh) (Some t).

Definition signed_of (tu : tsigr) (osz : nat) : tsigr :=
  mkTsig (t_alg tu) (t_reserved tu + osz) (t_key tu) (t_time tu) (t_fudge tu) (t_origid tu) (t_error tu) (t_server_time tu).

Definition prep_of (t : tsigr) : TsigMsg.prepared :=
  TsigMsg.mkPrepared (nm_wire (t_key t)) (t_time t) (t_fudge t) (t_origid t) (t_error t) (t_server_time t).

Definition hdr4 (w : writer) : res werr writer :=
  let* w := w_write w (N.to_nat QDCOUNT_START) (MsgWriter.be16 (w_qd w)) in
  let* w := w_write w (N.to_nat ANCOUNT_START) (MsgWriter.be16 (w_an w)) in
  let* w := w_write w (N.to_nat NSCOUNT_START) (MsgWriter.be16 (w_ns w)) in
  w_write w (N.to_nat ARCOUNT_START) (MsgWriter.be16 (w_ar w)).

Definition opt_part (w : writer) : res werr writer :=
  match w_edns w with
  | Some e => unwrap_w (add_rr HNone [] TYPE_OPT (e_udp e) (e_upper e * 16777216)%N [] None
                               (set_avail w (w_avail w + opt_record_size)))
  | None => Ok w
  end.

Lemma finish_head_eq w : finish_head w = let* w4 := hdr4 w in opt_part w4.
Proof.
  unfold finish_head, hdr4, opt_part.
  destruct (w_write w (N.to_nat QDCOUNT_START) _) as [w1|e|]; cbn [bind]; auto.
  destruct (w_write w1 (N.to_nat ANCOUNT_START) _) as [w2|e|]; cbn [bind]; auto.
  destruct (w_write w2 (N.to_nat NSCOUNT_START) _) as [w3|e|]; cbn [bind]; auto.
Qed.

Lemma hdr4_real wh t lim wh4 : hdr4 wh = Ok wh4 -> hdr4 (real_of wh t lim) = Ok (real_of wh4 t lim).
Proof.
  intros H. unfold hdr4, w_write in *. simpl in *.
  repeat match type of H with context [match buf_write ?b ?p ?d with _ => _ end] =>
    destruct (buf_write b p d); simpl in *; [|discriminate H] end.
  inversion H; subst. reflexivity.
Qed.

Lemma NInv_real wh t lim h L : NInv wh h L -> NInv (real_of wh t lim) h L.
Proof. intros [H1 H2 H3 H4 H5 H6 H7 H8]. constructor; auto. Qed.

(* the pseudo-records finish_signed appends *)
Definition pseudo_signed (wh : writer) (key : wname) (rdata : bytes) : list arr :=
  (match w_edns wh with
   | Some e => [mkAR [] (w_mode wh) TYPE_OPT (e_udp e) (e_upper e * 16777216)%N []]
   | None => [] end) ++
  [mkAR key (w_mode wh) TYPE_TSIG qclass_any (ttl_from 0) rdata].

Section Fin.
Variable hmac : TsigMsg.alg -> bytes -> bytes -> bytes.
Hypothesis hmac_len : forall a k d, length (hmac a k d) = TsigMsg.output_size a.
Hypothesis hmac_wf : forall a k d, wf_bytes (hmac a k d).

Theorem finish_signed_ok2 dh g y A L tu a secret rmac :
  AInv dh g L -> LInv dh y A L -> w_tsig (d_w dh) = Some tu ->
  length (nm_wire (t_alg tu)) = length (TsigMsg.alg_name a) ->
  (N.of_nat (length rmac) <= 65535)%N ->
  w_limit (d_w dh) + TsigMsg.output_size a <= length (w_buf (d_w dh)) ->
  exists wF LF rsP c5 rdata mac,
    finish_signed hmac a secret rmac
      (real_of (d_w dh) (signed_of tu (TsigMsg.output_size a)) (w_limit (d_w dh) + TsigMsg.output_size a))
      = Ok (w_cursor wF, w_buf wF) /\
    NInv wF (length (w_buf wF)) LF /\
    PLay (w_buf wF) LF (mkLay (y_qs y) (y_rrs y ++ rsP)) (w_rr_start (d_w dh)) (w_cursor wF) /\
    Forall2 rr_desc2 rsP (pseudo_signed (d_w dh) (t_key tu) rdata) /\
    slice (w_buf wF) 4 12 = MsgWriter.be16 (w_qd (d_w dh)) ++ MsgWriter.be16 (w_an (d_w dh)) ++
                            MsgWriter.be16 (w_ns (d_w dh)) ++ MsgWriter.be16 (w_ar (d_w dh)) /\
    agree 4 (w_buf (d_w dh)) (w_buf wF) /\
    w_cursor wF <= w_limit (d_w dh) + TsigMsg.output_size a /\
    c5 <= w_cursor wF /\
    TsigMsg.sign hmac (prep_of tu) (firstn c5 (w_buf wF)) (TsigMsg.SResponse rmac) a secret = Ok (rdata, mac) /\
    length mac = TsigMsg.output_size a /\
    rdata = TsigMsg.serialize_tsig_unchecked (TsigMsg.alg_name a) (t_time tu) (t_fudge tu) mac (t_origid tu) (t_error tu)
              (if (t_error tu =? 18)%N then t_server_time tu else []).
Proof.
  intros Hi HL Etu Hal Hrm Hlimb.
  set (osz := TsigMsg.output_size a) in *. set (ts := signed_of tu osz). set (lim := w_limit (d_w dh) + osz).
  unfold finish_signed. rewrite finish_head_eq.
  set (c0 := w_cursor (d_w dh)).
  destruct (hdr_write_ok2 dh g y A L (N.to_nat QDCOUNT_START) (MsgWriter.be16 (w_qd (d_w dh))) Hi HL ltac:(cbv; lia))
    as [w1 [E1 [H1 [HL1 [He1 Ht1]]]]].
  destruct (hdr_write_ok2 _ g y A L (N.to_nat ANCOUNT_START) (MsgWriter.be16 (w_an w1)) H1 HL1 ltac:(cbv; lia))
    as [w2 [E2 [H2 [HL2 [He2 Ht2]]]]].
  cbn [d_w d_regs] in E2, He2, Ht2.
  destruct (hdr_write_ok2 _ g y A L (N.to_nat NSCOUNT_START) (MsgWriter.be16 (w_ns w2)) H2 HL2 ltac:(cbv; lia))
    as [w3 [E3 [H3 [HL3 [He3 Ht3]]]]].
  cbn [d_w d_regs] in E3, He3, Ht3.
  destruct (hdr_write_ok2 _ g y A L (N.to_nat ARCOUNT_START) (MsgWriter.be16 (w_ar w3)) H3 HL3 ltac:(cbv; lia))
    as [w4 [E4 [H4 [HL4 [He4 Ht4]]]]].
  cbn [d_w d_regs] in E4, He4, Ht4, H4, HL4.
  assert (Eh : hdr4 (d_w dh) = Ok w4).
  { unfold hdr4. rewrite E1. cbn [bind]. rewrite E2. cbn [bind]. rewrite E3. cbn [bind]. exact E4. }
  rewrite (hdr4_real _ ts lim _ Eh). cbn [bind].
  destruct (w_write_slice _ _ _ _ E1) as [S1 [G1 [Q1 [A1 [N1 R1]]]]].
  destruct (w_write_slice _ _ _ _ E2) as [S2 [G2 [Q2 [A2 [N2 R2]]]]].
  destruct (w_write_slice _ _ _ _ E3) as [S3 [G3 [Q3 [A3 [N3 R3]]]]].
  destruct (w_write_slice _ _ _ _ E4) as [S4 [G4 [Q4 [A4 [N4 R4]]]]].
  change (N.to_nat QDCOUNT_START) with 4 in *. change (N.to_nat ANCOUNT_START) with 6 in *.
  change (N.to_nat NSCOUNT_START) with 8 in *. change (N.to_nat ARCOUNT_START) with 10 in *.
  unfold MsgWriter.be16 in S1, S2, S3, S4. simpl length in S1, S2, S3, S4. simpl Nat.add in S1, S2, S3, S4.
  assert (Hdr : slice (w_buf w4) 4 12 = MsgWriter.be16 (w_qd (d_w dh)) ++ MsgWriter.be16 (w_an (d_w dh)) ++
                                        MsgWriter.be16 (w_ns (d_w dh)) ++ MsgWriter.be16 (w_ar (d_w dh))).
  { rewrite (slice_app _ 4 6 12) by lia. rewrite (slice_app _ 6 8 12) by lia. rewrite (slice_app _ 8 10 12) by lia.
    f_equal; [|f_equal; [|f_equal]].
    - rewrite (agree_slice 6 _ _ 4 6 (G4 6 ltac:(lia))) by lia.
      rewrite (agree_slice 6 _ _ 4 6 (G3 6 ltac:(lia))) by lia.
      rewrite (agree_slice 6 _ _ 4 6 (G2 6 ltac:(lia))) by lia. exact S1.
    - rewrite (agree_slice 8 _ _ 6 8 (G4 8 ltac:(lia))) by lia.
      rewrite (agree_slice 8 _ _ 6 8 (G3 8 ltac:(lia))) by lia. rewrite A1 in S2. exact S2.
    - rewrite (agree_slice 10 _ _ 8 10 (G4 10 ltac:(lia))) by lia. rewrite N2, N1 in S3. exact S3.
    - rewrite R3, R2, R1 in S4. exact S4. }
  assert (Har : slice (w_buf w4) 10 12 = MsgWriter.be16 (w_ar (d_w dh))).
  { rewrite R3, R2, R1 in S4. exact S4. }
  assert (Hag4 : agree 4 (w_buf (d_w dh)) (w_buf w4)).
  { eapply agree_trans; [apply (G1 4); lia|]. eapply agree_trans; [apply (G2 4); lia|].
    eapply agree_trans; [apply (G3 4); lia|apply (G4 4); lia]. }
  pose proof (a_n _ _ _ Hi) as Hn0. pose proof wconsts as [Khs _].
  assert (Hc12 : 12 <= c0) by (destruct Hn0; unfold c0; lia).
  assert (Hw4 : exists b4, w4 = set_buf (d_w dh) b4 /\ length b4 = length (w_buf (d_w dh))).
  { apply w_write_inv in E1 as [b1 [B1 ->]]. apply w_write_inv in E2 as [b2 [B2 ->]].
    apply w_write_inv in E3 as [b3 [B3 ->]]. apply w_write_inv in E4 as [b4 [B4 ->]].
    exists b4. split; [reflexivity|]. cbn [w_buf set_buf] in *.
    rewrite (buf_write_length _ _ _ _ B4), (buf_write_length _ _ _ _ B3), (buf_write_length _ _ _ _ B2).
    exact (buf_write_length _ _ _ _ B1). }
  destruct Hw4 as [b4 [Ew4 Hlen4]].
  assert (Hc : w_cursor w4 = c0) by (rewrite Ew4; reflexivity).
  assert (Hrs : w_rr_start w4 = w_rr_start (d_w dh)) by (rewrite Ew4; reflexivity).
  assert (Hmd : w_mode w4 = w_mode (d_w dh)) by (rewrite Ew4; reflexivity).
  assert (Hlm : w_limit w4 = w_limit (d_w dh)) by (rewrite Ew4; reflexivity).
  assert (Hln : length (w_buf w4) = length (w_buf (d_w dh))) by (rewrite Ew4; exact Hlen4).
  assert (Hed : w_edns w4 = w_edns (d_w dh)) by (rewrite Ew4; reflexivity).
  assert (Htg : w_tsig w4 = Some tu) by (rewrite Ew4; exact Etu).
  pose proof (a_ts _ _ _ Hi tu Etu) as Twf.
  destruct HL4 as [HP4 HF4]. cbn [d_w] in HP4, HF4. rewrite Hrs, Hc in HP4.
  pose proof (a_n _ _ _ H4) as Hn4. pose proof (a_ni _ _ _ H4) as Hi4.
  pose proof (a_an _ _ _ H4) as A4'. cbn [d_w d_regs] in Hn4, Hi4, A4'.
  (* ARCOUNT is at least 1: set_tsig counted the TSIG record *)
  assert (Harc : (1 <= w_ar (d_w dh) <= 65535)%N).
  { destruct HL as [_ HF0]. destruct HF0 as [_ _ _ _ _ _ Cr [_ [_ [_ Br]]] _ _]. rewrite Etu in Cr. simpl in Cr. lia. }
  unfold pseudo_signed. rewrite <- Hed, <- Hmd.
  clear E1 E2 E3 E4 H1 H2 H3 HL1 HL2 HL3 He1 He2 He3 He4 Ht1 Ht2 Ht3 Ht4 S1 S2 S3 S4 G1 G2 G3 G4
        Q1 Q2 Q3 Q4 A1 A2 A3 A4 N1 N2 N3 N4 R1 R2 R3 R4 w1 w2 w3 Eh Hed Hmd.
  (* OPT, on the real state *)
  assert (Hopt : exists w5 L5 rs5,
    opt_part (real_of w4 ts lim) = Ok w5 /\
    NInv w5 (length (w_buf w5)) L5 /\ (forall s, L s -> L5 s) /\
    (exists go, anch3 w5 L5 (g_q g) go (g_r g)) /\
    agree c0 (w_buf w4) (w_buf w5) /\ c0 <= w_cursor w5 /\ w_tsig w5 = Some ts /\ w_mode w5 = w_mode w4 /\
    w_avail w5 + t_reserved tu <= w_limit w4 /\ length (w_buf w5) = length (w_buf w4) /\
    rrs_at (w_buf w5) L5 rs5 c0 (w_cursor w5) /\ (forall s, L5 s <-> L s \/ In s (rrs_starts rs5)) /\
    Forall2 rr_desc2 rs5
      match w_edns w4 with
      | Some e => [mkAR [] (w_mode w4) TYPE_OPT (e_udp e) (e_upper e * 16777216)%N []]
      | None => [] end).
  { destruct Hn4 as [h1 h2 h3 h4 h5]. unfold resv in h4. rewrite Htg in h4.
    unfold opt_part. change (w_edns (real_of w4 ts lim)) with (w_edns w4).
    destruct (w_edns w4) as [e|] eqn:Ee.
    - set (w4' := set_avail (real_of w4 ts lim) (w_avail (real_of w4 ts lim) + opt_record_size)).
      assert (Hi4' : NInv w4' (length (w_buf w4')) L).
      { unfold w4'. apply NInv_set_avail; [apply NInv_real; exact Hi4| |]; simpl; unfold opt_record_size in *; simpl in *; lia. }
      destruct (add_rr_fits2 HNone [] TYPE_OPT (e_udp e) (e_upper e * 16777216)%N [] None w4' L []
                  (g_q g) (g_o g) (g_r g) Hi4' A4' I)
        as [v' [w5 [E5 [L5 [G5 [Hi5 [A5 [X5 [r5 [R5 [Rp5 [Re5 [Rd5 [Rt5 Rpl5]]]]]]]]]]]]]].
      + split; [constructor|simpl; lia].
      + constructor.
      + exact I.
      + exact I.
      + reflexivity.
      + unfold w4'. simpl. unfold opt_record_size. simpl. lia.
      + rewrite E5. simpl. exists w5, L5, [r5]. split; auto. split; auto.
        split; [apply G5|]. split; [eauto|].
        pose proof (x_agree _ _ _ X5) as Ag. pose proof (x_cur _ _ _ X5) as Cu.
        unfold w4' in Ag, Cu, Rp5. simpl in Ag, Cu, Rp5. rewrite Hc in Ag, Cu, Rp5.
        split; [exact Ag|]. split; [exact Cu|]. split; [rewrite (x_tsig _ _ _ X5); reflexivity|].
        split; [rewrite (x_mode _ _ _ X5); reflexivity|].
        split.
        { rewrite (x_av _ _ _ X5). unfold w4'. simpl. unfold opt_record_size in *. simpl in *. lia. }
        split; [rewrite (x_len _ _ _ X5); reflexivity|].
        split; [simpl; split; auto; split; auto; split; [lia|auto]|].
        split; [intros s; rewrite Rt5; unfold rrs_starts; simpl; rewrite app_nil_r; tauto|].
        constructor; [|constructor]. unfold rr_desc2, ar_exact. simpl. rewrite <- exactf_of. split; [exact Rd5|exact Rpl5].
    - exists (real_of w4 ts lim), L, []. split; auto. split; [apply NInv_real; exact Hi4|]. split; auto. split; [exists (g_o g); exact A4'|].
      split; [apply agree_refl|]. split; [simpl; lia|]. split; [reflexivity|]. split; [reflexivity|].
      split; [simpl; lia|]. split; [reflexivity|].
      split; [simpl; lia|]. split; [intros s; simpl; tauto|constructor]. }
  destruct Hopt as [w5 [L5 [rs5 [E5 [Hi5 [M5 [[go5 A5] [Ag5 [Hc5 [Ht5 [Hm5 [Hav5 [Hl5 [R5 [T5 D5]]]]]]]]]]]]]]].
  rewrite E5. cbn [bind].
  assert (PL5 : PLay (w_buf w5) L5 (mkLay (y_qs y) (y_rrs y ++ rs5)) (w_rr_start (d_w dh)) (w_cursor w5)).
  { eapply (PLay_app (w_buf w4) L y _ c0); eauto. destruct Hn0. unfold c0. lia. }
  assert (Hdr5 : slice (w_buf w5) 4 12 = slice (w_buf w4) 4 12) by (apply (agree_slice c0); auto).
  rewrite Ht5.
  pose proof (ni_nb _ _ _ Hi5) as [K1 K2].
  destruct (length (w_buf w5) <? w_cursor w5) eqn:Elen; [apply Nat.ltb_lt in Elen; lia|].
  (* the signature *)
  change (TsigMsg.mkPrepared (nm_wire (t_key ts)) (t_time ts) (t_fudge ts) (t_origid ts) (MsgWriter.t_error ts) (t_server_time ts))
    with (prep_of tu).
  destruct Twf as [T1 [T2 [T3 [T4 [T5' [T6 [T7 [T8 [T9 T10]]]]]]]]].
  set (msg := firstn (w_cursor w5) (w_buf w5)).
  assert (Hmsg12 : 12 <= length msg) by (unfold msg; rewrite firstn_length; lia).
  assert (Hmar : TsigMsg.be_dec (slice msg 10 12) <> 0%N).
  { unfold msg. rewrite slice_firstn by lia. rewrite (agree_slice c0 _ _ 10 12 Ag5) by lia. rewrite Har.
    rewrite sf_be_dec_be16 by lia. lia. }
  destruct (sign_response_ok hmac hmac_len (prep_of tu) msg rmac a secret Hrm Hmsg12 Hmar T4) as [dg [Edg Esg]].
  rewrite Esg. cbn [TsigMsg.p_time_signed TsigMsg.p_fudge TsigMsg.p_original_id TsigMsg.p_error TsigMsg.p_other prep_of].
  set (mac := hmac a secret dg).
  assert (Hother : TsigMsg.p_other (prep_of tu) = if (t_error tu =? 18)%N then t_server_time tu else []) by reflexivity.
  set (other := if (t_error tu =? 18)%N then t_server_time tu else []) in *.
  cbn [prep_of TsigMsg.p_time_signed TsigMsg.p_fudge TsigMsg.p_original_id TsigMsg.p_error] in Esg. rewrite Hother in Esg |- *.
  set (rdata := TsigMsg.serialize_tsig_unchecked (TsigMsg.alg_name a) (t_time tu) (t_fudge tu) mac (t_origid tu) (t_error tu) other) in *.
  assert (Hmacl : length mac = osz) by (apply hmac_len).
  assert (Hol : length other = if (t_error tu =? badtime)%N then 6 else 0).
  { unfold other, badtime. destruct (t_error tu =? 18)%N; [exact T4|reflexivity]. }
  assert (Hob : wf_bytes other) by (unfold other; destruct (t_error tu =? 18)%N; [exact T8|constructor]).
  assert (Hrdl : length rdata = length (TsigMsg.alg_name a) + 16 + osz + length other).
  { unfold rdata, TsigMsg.serialize_tsig_unchecked. rewrite !app_length. unfold TsigMsg.be16. simpl length. rewrite T3, Hmacl. lia. }
  assert (Hrdw : wf_bytes rdata).
  { unfold rdata, TsigMsg.serialize_tsig_unchecked.
    repeat (apply wf_bytes_app; [first [apply sf_alg_name_wf|exact T7|apply sf_wf_be16|apply hmac_wf|exact Hob]|]). exact Hob. }
  change (t_key ts) with (t_key tu). change (MsgWriter.t_reserved ts) with (t_reserved tu + osz).
  set (w5' := set_avail (set_tsig_f w5 None) (w_avail w5 + (t_reserved tu + osz))).
  assert (Hi5' : NInv w5' (length (w_buf w5')) L5).
  { unfold w5'. apply NInv_set_avail; [apply NInv_clear_tsig; exact Hi5|simpl; lia|simpl; lia]. }
  destruct (add_rr_fits2 HNone (t_key tu) TYPE_TSIG qclass_any (ttl_from 0) rdata None w5' L5 []
              (g_q g) go5 (g_r g) Hi5' A5 I)
    as [v' [w6 [E6 [L6 [G6 [Hi6 [A6 [X6 [r6 [R6 [Rp6 [Re6 [Rd6 [Rt6 Rpl6]]]]]]]]]]]]]].
  - exact T1.
  - exact Hrdw.
  - exact I.
  - exact I.
  - reflexivity.
  - unfold w5'. simpl. rewrite Hrdl, Hol. rewrite T5'. unfold tsig_unsigned_len. rewrite Hal. lia.
  - rewrite E6. simpl. exists w6, L6, (rs5 ++ [r6]), (w_cursor w5), rdata, mac. split; auto. split; auto.
    pose proof (x_agree _ _ _ X6) as Ag6. pose proof (x_cur _ _ _ X6) as Cu6. pose proof (x_cav _ _ _ X6) as Cav6.
    rewrite (x_av _ _ _ X6) in Cav6.
    unfold w5' in Ag6, Cu6, Rp6, Cav6. simpl in Ag6, Cu6, Rp6, Cav6.
    split.
    { rewrite app_assoc.
      change (mkLay (y_qs y) ((y_rrs y ++ rs5) ++ [r6]))
        with (mkLay (y_qs (mkLay (y_qs y) (y_rrs y ++ rs5))) (y_rrs (mkLay (y_qs y) (y_rrs y ++ rs5)) ++ [r6])).
      eapply (PLay_app (w_buf w5) L5 _ _ (w_cursor w5)); eauto.
      - apply G6.
      - destruct Hn0. unfold c0 in *. lia.
      - simpl. split; auto. split; auto. split; [lia|auto].
      - intros s. rewrite Rt6. unfold rrs_starts. simpl. rewrite app_nil_r. tauto. }
    split.
    { apply Forall2_app; auto. constructor; [|constructor]. unfold rr_desc2, ar_exact. simpl.
      unfold w5' in Rd6, Rpl6. simpl in Rd6, Rpl6. rewrite Hm5 in Rd6, Rpl6. rewrite <- exactf_of.
      split; [exact Rd6|exact Rpl6]. }
    split.
    { transitivity (slice (w_buf w5) 4 12); [|rewrite Hdr5; exact Hdr].
      apply (agree_slice (w_cursor w5)); auto. lia. }
    split.
    { eapply agree_trans; [exact Hag4|]. eapply agree_trans; [eapply agree_le; [exact Ag5|lia]|].
      eapply agree_le; [exact Ag6|lia]. }
    split; [unfold lim in *; lia|].
    split; [exact Cu6|].
    split.
    { unfold agree in Ag6. rewrite Ag6. exact Esg. }
    split; [exact Hmacl|reflexivity].
Qed.

End Fin.
