(* Facts about the std-parser models used by the zone-file proofs. *)
From QV Require Import Base.ListX Model.ZfStd.

Local Open Scope N_scope.

Lemma uint_loop_le max : forall ds acc v, acc <= max -> uint_loop max ds acc = inl v -> v <= max.
Proof.
  induction ds as [|c ds IH]; intros acc v Hacc H; simpl in H.
  - inversion H; subst; exact Hacc.
  - destruct (is_digit c); [|discriminate].
    destruct (max <? acc * 10) eqn:E1; [discriminate|].
    destruct (max <? acc * 10 + (c - 48)) eqn:E2; [discriminate|].
    apply N.ltb_ge in E2. eapply IH; [|exact H]. exact E2.
Qed.

Lemma parse_uint_le max s v : parse_uint max s = inl v -> v <= max.
Proof.
  unfold parse_uint. destruct s as [|c [|d r]]; [discriminate| |].
  - destruct ((c =? 43) || (c =? 45)); [discriminate|]. apply uint_loop_le. lia.
  - destruct (c =? 43); apply uint_loop_le; lia.
Qed.

Lemma parse_uint_nil max : parse_uint max [] = inr IeEmpty.
Proof. reflexivity. Qed.

Lemma ipv4_from_str_length s a : ipv4_from_str s = Some a -> length a = 4%nat.
Proof.
  unfold ipv4_from_str. destruct (15 <? length s)%nat; [discriminate|].
  destruct (read_ipv4_addr s) as [[[[[x y] z] w] [|? ?]]|]; try discriminate.
  intros H; inversion H; reflexivity.
Qed.

(* read_groups never returns more groups than the slice it fills *)
Lemma read_groups_length : forall n i limit l acc gs v4 l',
  length acc = i -> (i + n = limit)%nat ->
  read_groups n i limit l acc = (gs, v4, l') -> (length gs <= limit)%nat.
Proof.
  induction n as [|n IH]; intros i limit l acc gs v4 l' Ha Hl H; simpl in H.
  - inversion H; subst. lia.
  - destruct (i <? limit - 1)%nat eqn:E.
    + apply Nat.ltb_lt in E.
      destruct (read_sep 58 i read_ipv4_addr l) as [[[[[a b] c] d] l1]|].
      * inversion H; subst. rewrite app_length. simpl. lia.
      * destruct (read_sep 58 i (read_number 16 4 true U16_MAX) l) as [[g l1]|].
        -- eapply (IH (S i)); [| |exact H]; [rewrite app_length; simpl; lia|lia].
        -- inversion H; subst. lia.
    + destruct (read_sep 58 i (read_number 16 4 true U16_MAX) l) as [[g l1]|].
      * eapply (IH (S i)); [| |exact H]; [rewrite app_length; simpl; lia|lia].
      * inversion H; subst. lia.
Qed.

Lemma flat_map_group_length gs : length (flat_map group_octets gs) = (2 * length gs)%nat.
Proof. induction gs as [|g gs IH]; simpl; [reflexivity|]. rewrite IH. lia. Qed.

Lemma ipv6_from_str_length s a : ipv6_from_str s = Some a -> length a = 16%nat.
Proof.
  unfold ipv6_from_str, read_ipv6_addr.
  destruct (read_groups 8 0 8 s []) as [[head hv4] l1] eqn:E1.
  pose proof (read_groups_length 8 0 8 s [] head hv4 l1 eq_refl eq_refl E1) as Hh.
  destruct (length head =? 8)%nat eqn:E8.
  - apply Nat.eqb_eq in E8. destruct l1; [|discriminate]. intros [= <-].
    rewrite flat_map_group_length. lia.
  - destruct hv4; [discriminate|].
    destruct l1 as [|c1 [|c2 l2]]; try discriminate.
    destruct ((c1 =? 58) && (c2 =? 58)); [|discriminate].
    apply Nat.eqb_neq in E8.
    destruct (read_groups (8 - (length head + 1)) 0 (8 - (length head + 1)) l2 []) as [[tail tv4] l3] eqn:E2.
    pose proof (read_groups_length _ 0 _ l2 [] tail tv4 l3 eq_refl eq_refl E2) as Ht.
    destruct l3; [|discriminate].
    remember (8 - length head - length tail)%nat as k eqn:Hk. intros [= <-].
    rewrite flat_map_group_length, !app_length, repeat_length. lia.
Qed.

Lemma type_from_str_nil : type_from_str [] = inr SeUnknown.
Proof. vm_compute. reflexivity. Qed.
