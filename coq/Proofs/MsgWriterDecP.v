(* The RFC 1035 decoder of Spec/MsgWriterS.v run on a buffer with a given layout returns what the
   layout stands for. *)
From QV Require Import Base.ListX Model.MsgWriter Spec.NameRepr Spec.MsgWriterS Spec.MsgWriterAbsS
     Proofs.NameWireP Proofs.NameWireSP Proofs.MsgWriterP Proofs.MsgWriterScanP Proofs.MsgWriterNameP
     Proofs.MsgWriterClosP Proofs.MsgWriterNameSP Proofs.MsgWriterLayP Proofs.MsgWriterOpP.

Local Open Scope nat_scope.

(* ---------------------------------------------------------------- big-endian fields *)

Lemma get16_be16 (b : bytes) i v : slice b i (i + 2) = be16 v -> (v < 65536)%N -> get16 b i = Some v.
Proof.
  intros Hs Hv. unfold be16 in Hs. apply slice_head in Hs as [H1 [Hs _]].
  apply slice_head in Hs as [H2 _]. unfold get16. replace (i + 1) with (S i) by lia. rewrite H1, H2.
  f_equal.
  assert (E : (v / 256 < 256)%N) by (apply N.div_lt_upper_bound; lia).
  rewrite (N.mod_small (v / 256) 256 E).
  pose proof (N.div_mod v 256 ltac:(lia)). lia.
Qed.

Lemma be32_digits v : (v < 4294967296)%N ->
  exists a b c d, (a < 256 /\ b < 256 /\ c < 256 /\ d < 256)%N /\ be32 v = [a; b; c; d] /\
                  v = ((a * 256 + b) * 65536 + (c * 256 + d))%N.
Proof.
  intros Hv.
  pose proof (N.div_mod v 16777216 ltac:(lia)) as D1. pose proof (N.mod_lt v 16777216 ltac:(lia)) as R1.
  set (a := (v / 16777216)%N) in *. set (r1 := (v mod 16777216)%N) in *.
  pose proof (N.div_mod r1 65536 ltac:(lia)) as D2. pose proof (N.mod_lt r1 65536 ltac:(lia)) as R2.
  set (b := (r1 / 65536)%N) in *. set (r2 := (r1 mod 65536)%N) in *.
  pose proof (N.div_mod r2 256 ltac:(lia)) as D3. pose proof (N.mod_lt r2 256 ltac:(lia)) as R3.
  set (c := (r2 / 256)%N) in *. set (d := (r2 mod 256)%N) in *.
  assert (Ha : (a < 256)%N) by (unfold a; apply N.div_lt_upper_bound; lia).
  assert (Hb : (b < 256)%N) by (unfold b; apply N.div_lt_upper_bound; lia).
  assert (Hc : (c < 256)%N) by (unfold c; apply N.div_lt_upper_bound; lia).
  exists a, b, c, d. split; [auto|]. split; [|lia].
  unfold be32. fold a.
  assert (E2 : (v / 65536 = a * 256 + b)%N) by (symmetry; apply (N.div_unique _ _ _ r2); lia).
  assert (E3 : (v / 256 = (a * 256 + b) * 256 + c)%N) by (symmetry; apply (N.div_unique _ _ _ d); lia).
  assert (E4 : (v mod 256 = d)%N) by (symmetry; apply (N.mod_unique _ _ ((a * 256 + b) * 256 + c)%N); lia).
  rewrite E2, E3, E4.
  f_equal; [apply N.mod_small; auto|]. f_equal; [symmetry; apply (N.mod_unique _ _ a); lia|].
  f_equal. symmetry. apply (N.mod_unique _ _ (a * 256 + b)%N); lia.
Qed.

Lemma get32_be32 (b : bytes) i v : slice b i (i + 4) = be32 v -> (v < 4294967296)%N -> get32 b i = Some v.
Proof.
  intros Hs Hv. destruct (be32_digits v Hv) as [a [b0 [c [d [[Ha [Hb [Hc Hd]]] [E Ev]]]]]].
  rewrite E in Hs. apply slice_head in Hs as [H1 [Hs _]]. apply slice_head in Hs as [H2 [Hs _]].
  apply slice_head in Hs as [H3 [Hs _]]. apply slice_head in Hs as [H4 _].
  unfold get32, get16. replace (i + 1) with (S i) by lia. replace (i + 2) with (S (S i)) by lia.
  replace (S (S i) + 1) with (S (S (S i))) by lia. rewrite H1, H2, H3, H4. f_equal. lia.
Qed.

(* ---------------------------------------------------------------- names *)

Lemma lab_eq_len cp a b : lab_eq cp a b -> length a = length b.
Proof.
  destruct cp; intros H.
  - apply bytes_eqb_eq in H. subst; auto.
  - apply lab_eq_false_iff in H. rewrite <- (map_length lower a), H, map_length. reflexivity.
Qed.

Lemma name_eq_lwire_len cp a b : name_eq cp a b -> length (nm_lwire a) = length (nm_lwire b).
Proof.
  induction 1 as [|x y a b H _ IH]; auto. rewrite !nm_lwire_cons. simpl. rewrite !app_length.
  rewrite (lab_eq_len _ _ _ H). lia.
Qed.

Lemma name_eq_rel cp a b : name_eq cp a b -> name_rel cp a b.
Proof.
  unfold name_rel. destruct cp; intros H.
  - apply name_eq_exact; auto.
  - induction H as [|x y a b H _ IH]; auto. simpl. f_equal; auto. apply lab_eq_false_iff; auto.
Qed.

Lemma name_eq_wf cp a b : name_eq cp a b -> Forall wf_label a -> Forall wf_label b.
Proof.
  induction 1 as [|x y a b H _ IH]; intros Hw; auto. inversion Hw; subst. constructor; auto.
  unfold wf_label in *. rewrite <- (lab_eq_len _ _ _ H). auto.
Qed.

Lemma decodes_plain b cs pos n e : Forall wf_label n -> slice b pos e = nm_wire n -> e <= length b ->
  pos <= e -> decodes b cs pos n e.
Proof.
  intros Hwf Hs He Hpe.
  assert (Hl : length (slice b pos e) = e - pos) by (apply slice_length; lia).
  rewrite Hs, nm_wire_length in Hl. unfold nm_wire in Hs.
  destruct (slice_app_l b pos (pos + length (nm_lwire n)) e _ _ Hs eq_refl ltac:(lia) He) as [S1 S2].
  apply slice_head in S2 as [Hz _].
  rewrite <- (app_nil_r n). apply decodes_labels; auto; try lia.
  replace e with (pos + length (nm_lwire n) + 1) by lia. constructor. exact Hz.
Qed.

(* a chunk of the layout decodes, under the specification's decoder, to the name it stands for *)
Lemma chunk_decode b lo c h L ch : closed b lo c h L -> sdec b c L -> chunk_ok b L ch ->
  nc_end ch <= length b -> wf_name (nc_name ch) -> length (nm_wire (nc_name ch)) <= 255 ->
  exists n', spec_decode_name b (nc_pos ch) = Some (n', nc_end ch - nc_pos ch) /\
             name_rel (nc_cp ch) (nc_name ch) n' /\
             decodes b (nc_pos ch) (nc_pos ch) n' (nc_end ch).
Proof.
  intros Hc Hsd [Hlt Hsh] He [Hwf _] H255.
  destruct (nc_sh ch) as [[k pp]|]; simpl in Hsh.
  - destruct Hsh as [Hk [Hs [HL [Hpp [H0 [Hpm [m' [Hm' Hme]]]]]]]].
    destruct (Hsd pp HL) as [m [em [Hm Hdm]]].
    pose proof (name_at_fun _ _ _ _ Hm' _ _ Hm). subst m'.
    assert (Hl : length (slice b (nc_pos ch) (nc_end ch)) = nc_end ch - nc_pos ch) by (apply slice_length; lia).
    rewrite Hs, app_length in Hl. simpl in Hl.
    destruct (slice_app_l b (nc_pos ch) (nc_pos ch + length (nm_lwire (firstn k (nc_name ch)))) (nc_end ch) _ _ Hs
                eq_refl ltac:(lia) He) as [S1 S2].
    destruct (ptr_word_bytes pp Hpm) as [hi [lo' [Eb [Ehi Et]]]].
    assert (Hhi : (hi < 256)%N) by (unfold be16 in Eb; inversion Eb; apply N.mod_lt; lia).
    rewrite Eb in S2. apply slice_head in S2 as [Z1 [S3 _]]. apply slice_head in S3 as [Z2 _].
    destruct (spec_target hi lo' Ehi Hhi) as [H192 Etspec].
    assert (Hwk : Forall wf_label (firstn k (nc_name ch))).
    { rewrite Forall_forall in *. intros x Hx. apply Hwf. eapply In_firstn; eauto. }
    assert (D : decodes b (nc_pos ch) (nc_pos ch) (firstn k (nc_name ch) ++ m) (nc_end ch)).
    { apply decodes_labels; auto; try lia.
      replace (nc_end ch) with (nc_pos ch + length (nm_lwire (firstn k (nc_name ch))) + 2) by lia.
      eapply dec_ptr; eauto.
      - replace (nc_pos ch + length (nm_lwire (firstn k (nc_name ch))) + 1)
          with (S (nc_pos ch + length (nm_lwire (firstn k (nc_name ch))))) by lia. exact Z2.
      - rewrite Etspec, Et. lia.
      - rewrite Etspec, Et. exact Hdm. }
    assert (Hne : name_eq (nc_cp ch) (nc_name ch) (firstn k (nc_name ch) ++ m)).
    { rewrite <- (firstn_skipn k (nc_name ch)) at 1. apply Forall2_app; [apply name_eq_refl|exact Hme]. }
    exists (firstn k (nc_name ch) ++ m). split; [|split; [apply name_eq_rel; auto|exact D]].
    apply spec_decode_name_iff. exists (nc_end ch). split; [exact D|]. split; [reflexivity|].
    change (wire_len (firstn k (nc_name ch) ++ m)) with (length (nm_wire (firstn k (nc_name ch) ++ m))).
    rewrite nm_wire_length, <- (name_eq_lwire_len _ _ _ Hne), <- nm_wire_length. exact H255.
  - assert (D : decodes b (nc_pos ch) (nc_pos ch) (nc_name ch) (nc_end ch))
      by (apply decodes_plain; auto; lia).
    exists (nc_name ch). split; [|split; [apply name_eq_rel, name_eq_refl|exact D]].
    apply spec_decode_name_iff. exists (nc_end ch). split; [exact D|]. split; [reflexivity|exact H255].
Qed.

Lemma uchunk_decode b L ch : chunk_ok b L ch -> nc_sh ch = None -> nc_end ch <= length b ->
  wf_name (nc_name ch) -> length (nm_wire (nc_name ch)) <= 255 ->
  dec_uname b (nc_pos ch) = Some (nc_name ch, nc_end ch - nc_pos ch).
Proof.
  intros [Hlt Hsh] Hn He [Hwf _] H255. rewrite Hn in Hsh. simpl in Hsh.
  assert (D : decodes b 0 (nc_pos ch) (nc_name ch) (nc_end ch)) by (apply decodes_plain; auto; lia).
  unfold dec_uname. rewrite (sdecode_complete b _ _ _ _ D); [reflexivity|exact H255|lia].
Qed.

(* ---------------------------------------------------------------- RDATA parts *)

Definition sf_of (ct : ctype) : sfield :=
  match ct with CtCompressible => FCName | CtUncompressible => FUName | CtFixed k => FBytes k end.

(* the component table regenerated from the Rust source agrees with the RFC layout of the specification *)
Lemma layout_table cl ty : layout cl ty = map sf_of (component_types cl ty).
Proof.
  assert (Hcl : forall a : N, (a =? cl)%N = (cl =? a)%N) by (intros; apply N.eqb_sym).
  destruct (N.eq_dec ty 2) as [->|N2]; [reflexivity|].
  destruct (N.eq_dec ty 3) as [->|N3]; [reflexivity|].
  destruct (N.eq_dec ty 4) as [->|N4]; [reflexivity|].
  destruct (N.eq_dec ty 5) as [->|N5]; [reflexivity|].
  destruct (N.eq_dec ty 7) as [->|N7]; [reflexivity|].
  destruct (N.eq_dec ty 8) as [->|N8]; [reflexivity|].
  destruct (N.eq_dec ty 9) as [->|N9]; [reflexivity|].
  destruct (N.eq_dec ty 12) as [->|N12]; [reflexivity|].
  destruct (N.eq_dec ty 6) as [->|N6]; [reflexivity|].
  destruct (N.eq_dec ty 14) as [->|N14]; [reflexivity|].
  destruct (N.eq_dec ty 15) as [->|N15]; [reflexivity|].
  destruct (N.eq_dec ty 1) as [->|N1].
  { destruct (N.eq_dec cl 3) as [->|Hc3]; [reflexivity|].
    assert (Ec : (cl =? 3)%N = false) by (apply N.eqb_neq; auto).
    assert (Ec' : (3 =? cl)%N = false) by (apply N.eqb_neq; auto).
    unfold layout, component_types, COMPONENT_TABLE, mem_N, one_name_types. cbn [existsb lookup_ctypes].
    rewrite Ec, Ec'. reflexivity. }
  destruct (N.eq_dec ty 33) as [->|N33].
  { destruct (N.eq_dec cl 1) as [->|Hc1]; [reflexivity|].
    assert (Ec : (cl =? 1)%N = false) by (apply N.eqb_neq; auto).
    assert (Ec' : (1 =? cl)%N = false) by (apply N.eqb_neq; auto).
    unfold layout, component_types, COMPONENT_TABLE, mem_N, one_name_types. cbn [existsb lookup_ctypes].
    rewrite Ec, Ec'. reflexivity. }
  assert (E : forall a : N, a <> ty -> (a =? ty)%N = false) by (intros a Ha; apply N.eqb_neq; auto).
  assert (E' : forall a : N, ty <> a -> (ty =? a)%N = false) by (intros a Ha; apply N.eqb_neq; auto).
  unfold layout, component_types, COMPONENT_TABLE, mem_N, one_name_types. cbn [existsb lookup_ctypes].
  rewrite !E by congruence. rewrite !E' by congruence. reflexivity.
Qed.

Definition lpart_rel (p : lpart) (r : rpart) : Prop :=
  match p, r with
  | LPName ch comp, PName n' pos c => name_rel (nc_cp ch) (nc_name ch) n' /\ c = comp /\ pos = nc_pos ch
  | LPRaw _ d, PRaw d' => d' = d
  | _, _ => False
  end.

Definition part_wf (p : lpart) : Prop :=
  match p with LPName ch _ => wf_name (nc_name ch) /\ length (nm_wire (nc_name ch)) <= 255 | _ => True end.

Lemma parts_decode b lo c h L : closed b lo c h L -> sdec b c L ->
  forall cts ps pos e, parts_shape cts ps -> parts_at b L ps pos e -> Forall part_wf ps -> e <= length b ->
  exists dps, dec_parts false (map sf_of cts) b pos e = Some dps /\ Forall2 lpart_rel ps dps.
Proof.
  intros Hc Hsd. induction cts as [|ct rest IH]; intros ps pos e Hsh Hat Hwf He.
  - simpl in *. destruct ps as [|[ch comp|p d] [|? ?]]; try contradiction.
    + simpl in Hat. subst. rewrite Nat.eqb_refl. exists []. split; auto.
    + simpl in Hat. destruct Hat as [-> [_ [Hs [Hle <-]]]].
      assert (length d <> 0) by (destruct d; [congruence|simpl; lia]).
      destruct (pos =? pos + length d) eqn:E1; [apply Nat.eqb_eq in E1; lia|].
      destruct (pos <? pos + length d) eqn:E2; [|apply Nat.ltb_ge in E2; lia].
      exists [PRaw (slice b pos (pos + length d))]. split; [reflexivity|]. constructor; [simpl; exact Hs|constructor].
  - destruct ct as [| |k]; simpl in Hsh.
    + destruct ps as [|[ch comp|p d] ps']; try contradiction. destruct Hsh as [-> Hsh].
      simpl in Hat. destruct Hat as [Hp [Hch [_ [Hle Hat]]]]. inversion Hwf as [|? ? HW Hwf']; subst. destruct HW as [W1 W2].
      pose proof (parts_le _ _ _ _ _ Hat) as Hpe.
      destruct (chunk_decode b lo c h L ch Hc Hsd Hch ltac:(lia) W1 W2) as [n' [E [Hr _]]].
      cbn [map sf_of dec_parts andb negb is_comp]. unfold dec_cname. rewrite E.
      pose proof (proj1 Hch) as Hlt.
      replace (nc_pos ch + (nc_end ch - nc_pos ch)) with (nc_end ch) by lia.
      destruct (nc_end ch <=? e) eqn:E1; [|apply Nat.leb_gt in E1; lia].
      destruct (IH ps' (nc_end ch) e Hsh Hat Hwf' He) as [dps [E2 F2]]. rewrite E2.
      eexists. split; [reflexivity|]. constructor; auto. simpl. auto.
    + destruct ps as [|[ch comp|p d] ps']; try contradiction. destruct Hsh as [-> Hsh].
      simpl in Hat. destruct Hat as [Hp [Hch [Hn [Hle Hat]]]]. inversion Hwf as [|? ? HW Hwf']; subst. destruct HW as [W1 W2].
      pose proof (parts_le _ _ _ _ _ Hat) as Hpe.
      cbn [map sf_of dec_parts andb negb is_comp].
      rewrite (uchunk_decode b L ch Hch (Hn eq_refl) ltac:(lia) W1 W2).
      pose proof (proj1 Hch) as Hlt.
      replace (nc_pos ch + (nc_end ch - nc_pos ch)) with (nc_end ch) by lia.
      destruct (nc_end ch <=? e) eqn:E1; [|apply Nat.leb_gt in E1; lia].
      destruct (IH ps' (nc_end ch) e Hsh Hat Hwf' He) as [dps [E2 F2]]. rewrite E2.
      eexists. split; [reflexivity|]. constructor; auto. simpl. split; [apply name_eq_rel, name_eq_refl|auto].
    + destruct ps as [|[ch comp|p d] ps']; try contradiction. destruct Hsh as [Hk Hsh].
      simpl in Hat. destruct Hat as [-> [_ [Hs [Hle Hat]]]]. inversion Hwf as [|? ? _ Hwf']; subst.
      cbn [map sf_of dec_parts].
      destruct (pos + length d <=? e) eqn:E1; [|apply Nat.leb_gt in E1; lia].
      destruct (IH ps' (pos + length d) e Hsh Hat Hwf' He) as [dps [E2 F2]]. rewrite E2.
      eexists. split; [reflexivity|]. constructor; auto.
Qed.

(* ---------------------------------------------------------------- records *)

Definition xp (p : apart) : xpart := match p with APName n c => XName n c | APRaw d => XRaw d end.
Definition xparts (a : arr) : list xpart :=
  map xp (rd_parts (component_types (ar_cl a) (ar_ty a)) (ar_rd a)).

Definition arr_wf (a : arr) : Prop :=
  wf_name (ar_owner a) /\ length (nm_wire (ar_owner a)) <= 255 /\ (ar_ty a < 65536)%N /\
  (ar_cl a < 65536)%N /\ (ar_ttl a < 4294967296)%N /\ (N.of_nat (length (ar_rd a)) < 65536)%N /\ wf_bytes (ar_rd a).
Definition aq_wf (a : aq) : Prop :=
  wf_name (aq_name a) /\ length (nm_wire (aq_name a)) <= 255 /\ (aq_ty a < 65536)%N /\ (aq_cl a < 65536)%N.

Lemma parse_unc_255 rd nm len : wf_bytes rd -> parse_uncompressed_name rd false = Ok (nm, len) -> len <= 255.
Proof.
  intros Hwf H. apply (parse_uncompressed_iff rd false nm len Hwf) in H as [ls [[D Hw] _]].
  destruct (decodes_nc_end _ _ _ _ _ D eq_refl) as [He _]. lia.
Qed.

Definition apart_wf (p : apart) : Prop :=
  match p with APName n _ => wf_name n /\ length (nm_wire n) <= 255 | APRaw _ => True end.

Lemma rd_parts_wf : forall cts rd, wf_bytes rd -> Forall apart_wf (rd_parts cts rd).
Proof.
  induction cts as [|ct rest IH]; intros rd Hwf; simpl.
  - destruct (length rd =? 0); repeat constructor.
  - assert (Hn : Forall apart_wf
               match parse_uncompressed_name rd false with
               | Ok (nm, len) => APName (labels_of_name nm) (is_comp ct) :: rd_parts rest (skipn len rd)
               | _ => []
               end).
    { destruct (parse_uncompressed_name rd false) as [[nm len]|e|] eqn:E; try constructor.
      - destruct (parse_unc_name rd nm len Hwf E) as [W1 [W2 _]]. pose proof (parse_unc_255 rd nm len Hwf E).
        simpl. split; auto. lia.
      - apply IH. apply wf_bytes_skipn; auto. }
    destruct ct as [| |k]; auto.
    destruct (length rd <? k); constructor; [exact I|]. apply IH. apply wf_bytes_skipn; auto.
Qed.

Lemma parts_wf_of ps aps : map part_abs ps = aps -> Forall apart_wf aps -> Forall part_wf ps.
Proof.
  intros <-. induction ps as [|[ch comp|p d] r IH]; simpl; intros H; constructor; inversion H; subst; auto.
Qed.

Lemma parts_rel_of cp ps dps : Forall (part_cp cp) ps -> Forall2 lpart_rel ps dps ->
  Forall2 (part_rel cp) (map xp (map part_abs ps)) dps.
Proof.
  intros Hcp H. induction H as [|p d ps dps Hr _ IH]; simpl; [constructor|].
  inversion Hcp as [|? ? Hc1 Hc2]; subst. constructor; auto.
  destruct p as [ch comp|q dd]; destruct d as [n' pos c|dd']; simpl in *; try contradiction.
  - destruct Hr as [R1 [R2 _]]. subst. auto.
  - auto.
Qed.

Lemma slice_sub (b : bytes) a e a' e' x : slice b a e = x -> a <= a' -> a' <= e' -> e' <= e -> e <= length b ->
  slice b a' e' = slice x (a' - a) (e' - a).
Proof.
  intros <- H1 H2 H3 H4. unfold slice.
  rewrite skipn_firstn_comm. rewrite skipn_plus. replace (a + (a' - a)) with a' by lia.
  rewrite firstn_firstn. f_equal. lia.
Qed.

Definition rrd (r : lrr) (a : arr) : Prop :=
  rr_desc r (ar_owner a) (ar_exact a) (ar_ty a) (ar_cl a) (ar_ttl a)
          (component_types (ar_cl a) (ar_ty a)) (ar_rd a).

Lemma rr_decode b lo c h L r a : closed b lo c h L -> sdec b c L -> rr_at b L r -> rrd r a ->
  arr_wf a -> lr_end r <= length b ->
  exists d, rr_rel xparts a d /\ (dr_pos d = nc_pos (lr_owner r) /\ Forall2 lpart_rel (lr_parts r) (dr_parts d)) /\
    forall n, dec_rrs (S n) b (nc_pos (lr_owner r)) =
              match dec_rrs n b (lr_end r) with Some (rs, e') => Some (d :: rs, e') | None => None end.
Proof.
  intros Hc Hsd [Ho [Hf [Hle Hp]]] [D1 [D2 [D3 [D4 [D5 [D6 [D7 [D8 D9]]]]]]]] [W1 [W2 [W3 [W4 [W5 [W6 W7]]]]]] He.
  pose proof (proj1 Ho) as Hlt.
  rewrite <- D1 in W1, W2.
  destruct (chunk_decode b lo c h L (lr_owner r) Hc Hsd Ho ltac:(lia) W1 W2) as [n' [E [Hr _]]].
  set (p := nc_end (lr_owner r)) in *.
  assert (Hrd : (N.of_nat (lr_end r - (p + 10)) < 65536)%N) by lia.
  unfold rr_fixed in Hf. fold p in Hf.
  assert (F1 : get16 b p = Some (lr_ty r)).
  { apply get16_be16; [|rewrite D3; auto].
    rewrite (slice_sub b p (p + 10) p (p + 2) _ Hf) by lia.
    replace (p - p) with 0 by lia. replace (p + 2 - p) with 2 by lia. reflexivity. }
  assert (F2 : get16 b (p + 2) = Some (lr_cl r)).
  { apply get16_be16; [|rewrite D4; auto].
    rewrite (slice_sub b p (p + 10) (p + 2) (p + 2 + 2) _ Hf) by lia.
    replace (p + 2 - p) with 2 by lia. replace (p + 2 + 2 - p) with 4 by lia. reflexivity. }
  assert (F3 : get32 b (p + 4) = Some (lr_ttl r)).
  { apply get32_be32; [|rewrite D5; auto].
    rewrite (slice_sub b p (p + 10) (p + 4) (p + 4 + 4) _ Hf) by lia.
    replace (p + 4 - p) with 4 by lia. replace (p + 4 + 4 - p) with 8 by lia. reflexivity. }
  assert (F4 : get16 b (p + 8) = Some (N.of_nat (lr_end r - (p + 10)))).
  { apply get16_be16; [|lia].
    rewrite (slice_sub b p (p + 10) (p + 8) (p + 8 + 2) _ Hf) by lia.
    replace (p + 8 - p) with 8 by lia. replace (p + 8 + 2 - p) with 10 by lia.
    rewrite N.mod_small by lia. reflexivity. }
  assert (Hpw : Forall part_wf (lr_parts r)).
  { eapply parts_wf_of; [exact D6|]. apply rd_parts_wf. exact W7. }
  destruct (parts_decode b lo c h L Hc Hsd _ _ _ _ D8 Hp Hpw He) as [dps [Ep Fp]].
  exists (mkDRR n' (nc_pos (lr_owner r)) (lr_ty r) (lr_cl r) (lr_ttl r) dps). split; [|split; [split; [reflexivity|exact Fp]|]].
  - unfold rr_rel. simpl. rewrite <- D1, <- D2. split; [exact Hr|]. repeat split; auto.
    unfold xparts. rewrite <- D6. apply parts_rel_of; auto. rewrite D2. exact D7.
  - intros n. cbn [dec_rrs]. unfold dec_cname. rewrite E.
    replace (nc_pos (lr_owner r) + (p - nc_pos (lr_owner r))) with p by lia.
    rewrite F1, F2, F3, F4. rewrite Nat2N.id.
    replace (p + 10 + (lr_end r - (p + 10))) with (lr_end r) by lia.
    destruct (lr_end r <=? length b) eqn:E1; [|apply Nat.leb_gt in E1; lia].
    rewrite layout_table, D4, D3. rewrite Ep. reflexivity.
Qed.

Lemma rrs_decode b lo c h L : closed b lo c h L -> sdec b c L ->
  forall rs al pos e, rrs_at b L rs pos e -> Forall2 rrd rs al -> Forall arr_wf al -> e <= length b ->
  exists ds, dec_rrs (length rs) b pos = Some (ds, e) /\ Forall2 (rr_rel xparts) al ds /\
             Forall2 (fun r d => dr_pos d = nc_pos (lr_owner r) /\ Forall2 lpart_rel (lr_parts r) (dr_parts d)) rs ds.
Proof.
  intros Hc Hsd. induction rs as [|r rest IH]; intros al pos e Hat Hd Hw He.
  - inversion Hd; subst. simpl in Hat. subst. exists []. split; auto.
  - inversion Hd as [|? a ? al' Hda Hd']; subst. inversion Hw; subst.
    simpl in Hat. destruct Hat as [Hp [Hr [Hle Hat]]].
    destruct (rr_decode b lo c h L r a Hc Hsd Hr Hda ltac:(auto) ltac:(lia)) as [d [Rd [Lk Ed]]].
    destruct (IH al' (lr_end r) e Hat Hd' ltac:(auto) He) as [ds [E [F Lks]]].
    exists (d :: ds). split; [|split; constructor; auto].
    change (length (r :: rest)) with (S (length rest)). rewrite <- Hp, Ed, E. reflexivity.
Qed.

(* ---------------------------------------------------------------- questions *)

Lemma qs_decode b lo c h L : closed b lo c h L -> sdec b c L ->
  forall qs al pos e, qs_at b L qs pos e ->
  Forall2 (fun q a => nc_name (lq_name q) = aq_name a /\ nc_cp (lq_name q) = aq_exact a /\
                      lq_ty q = aq_ty a /\ lq_cl q = aq_cl a) qs al ->
  Forall aq_wf al -> e <= length b ->
  exists ds, dec_questions (length qs) b pos = Some (ds, e) /\ Forall2 q_rel al ds /\
             Forall2 (fun q d => dq_pos d = nc_pos (lq_name q)) qs ds.
Proof.
  intros Hc Hsd. induction qs as [|q rest IH]; intros al pos e Hat Hd Hw He.
  - inversion Hd; subst. simpl in Hat. subst. exists []. split; auto.
  - inversion Hd as [|? a ? al' [D1 [D2 [D3 D4]]] Hd']; subst. inversion Hw as [|? ? [W1 [W2 [W3 W4]]] Hw']; subst.
    simpl in Hat. destruct Hat as [Hp [[Ho Hf] [Hle Hat]]].
    pose proof (proj1 Ho) as Hlt. pose proof (qs_le _ _ _ _ _ Hat) as Hqe.
    rewrite <- D1 in W1, W2.
    destruct (chunk_decode b lo c h L (lq_name q) Hc Hsd Ho ltac:(lia) W1 W2) as [n' [E [Hr _]]].
    set (p := nc_end (lq_name q)) in *.
    assert (F1 : get16 b p = Some (lq_ty q)).
    { apply get16_be16; [|rewrite D3; auto].
      rewrite (slice_sub b p (p + 4) p (p + 2) _ Hf) by lia.
      replace (p - p) with 0 by lia. replace (p + 2 - p) with 2 by lia. reflexivity. }
    assert (F2 : get16 b (p + 2) = Some (lq_cl q)).
    { apply get16_be16; [|rewrite D4; auto].
      rewrite (slice_sub b p (p + 4) (p + 2) (p + 2 + 2) _ Hf) by lia.
      replace (p + 2 - p) with 2 by lia. replace (p + 2 + 2 - p) with 4 by lia. reflexivity. }
    destruct (IH al' (p + 4) e Hat Hd' Hw' He) as [ds [E2 [F Lks]]].
    exists (mkDQ n' (nc_pos (lq_name q)) (lq_ty q) (lq_cl q) :: ds). split; [|split; [|constructor; auto]].
    + change (length (q :: rest)) with (S (length rest)). cbn [dec_questions]. unfold dec_cname.
      rewrite <- Hp, E.
      replace (nc_pos (lq_name q) + (p - nc_pos (lq_name q))) with p by lia.
      rewrite F1, F2, E2. reflexivity.
    + constructor; auto. unfold q_rel. simpl. rewrite <- D1, <- D2. auto.
Qed.

(* ---------------------------------------------------------------- the pointer-rule checker of the specification *)

Lemma chunk_scan_labels b : forall ls fuel i acc, Forall wf_label ls ->
  slice b i (i + length (nm_lwire ls)) = nm_lwire ls -> i + length (nm_lwire ls) <= length b ->
  length ls <= fuel ->
  chunk_scan fuel b i acc = chunk_scan (fuel - length ls) b (i + length (nm_lwire ls)) (acc ++ lstarts i ls).
Proof.
  induction ls as [|l r IH]; intros fuel i acc Hwf Hs Hlen Hf.
  - simpl. rewrite Nat.add_0_r, Nat.sub_0_r, app_nil_r. reflexivity.
  - inversion Hwf as [|? ? [Hl1 Hl63] Hwf']; subst.
    rewrite nm_lwire_cons in *. simpl length in *. rewrite app_length in *.
    destruct (lwire_tail b i l r Hl63 Hs Hlen) as [Hnth [Hsl Hsr]].
    destruct fuel as [|f]; [lia|]. cbn [chunk_scan]. rewrite Hnth.
    destruct (N.of_nat (length l) =? 0)%N eqn:E0; [apply N.eqb_eq in E0; lia|].
    destruct (N.of_nat (length l) <=? 63)%N eqn:E1; [|apply N.leb_gt in E1; lia].
    rewrite Nat2N.id. rewrite (IH f (i + 1 + length l) (acc ++ [i])); auto; try lia.
    simpl. rewrite <- app_assoc. simpl.
    replace (i + 1 + length l + length (nm_lwire r)) with (i + S (length l + length (nm_lwire r))) by lia.
    reflexivity.
Qed.

Definition shape_term (pos : nat) (n : wname) (sh : shape) : option (nat * nat) :=
  match sh with None => None | Some (k, pp) => Some (pos + length (nm_lwire (firstn k n)), pp) end.

Lemma chunk_scan_shape cp n b L pos e sh acc : shape_at cp n b L pos e sh -> wf_name n -> e <= length b ->
  pos <= e -> chunk_scan 130 b pos acc = Some (acc ++ own_starts pos n sh, shape_term pos n sh).
Proof.
  intros Hsh [Hwf Hn127] He Hpe.
  assert (Hl : length (slice b pos e) = e - pos) by (apply slice_length; lia).
  destruct sh as [[k pp]|]; simpl in Hsh; cbn [own_starts shape_term].
  - destruct Hsh as [Hk [Hs [_ [_ [_ [Hpm _]]]]]].
    rewrite Hs, app_length in Hl. simpl in Hl.
    destruct (slice_app_l b pos (pos + length (nm_lwire (firstn k n))) e _ _ Hs eq_refl ltac:(lia) He) as [S1 S2].
    destruct (ptr_word_bytes pp Hpm) as [hi [lo' [Eb [Ehi Et]]]].
    assert (Hhi : (hi < 256)%N) by (unfold be16 in Eb; inversion Eb; apply N.mod_lt; lia).
    rewrite Eb in S2. apply slice_head in S2 as [Z1 [S3 _]]. apply slice_head in S3 as [Z2 _].
    destruct (spec_target hi lo' Ehi Hhi) as [H192 Etspec].
    assert (Hwk : Forall wf_label (firstn k n)).
    { rewrite Forall_forall in *. intros x Hx. apply Hwf. eapply In_firstn; eauto. }
    assert (Hlk : length (firstn k n) <= 127) by (rewrite firstn_length; lia).
    rewrite (chunk_scan_labels b (firstn k n) 130 pos acc Hwk S1 ltac:(lia) ltac:(lia)).
    destruct (130 - length (firstn k n)) as [|f] eqn:Ef; [lia|]. cbn [chunk_scan]. rewrite Z1.
    destruct (hi =? 0)%N eqn:E0; [apply N.eqb_eq in E0; lia|].
    destruct (hi <=? 63)%N eqn:E1; [apply N.leb_le in E1; lia|].
    destruct (192 <=? hi)%N eqn:E2; [|apply N.leb_gt in E2; lia].
    replace (pos + length (nm_lwire (firstn k n)) + 1) with (S (pos + length (nm_lwire (firstn k n)))) by lia.
    rewrite Z2, Etspec, Et. reflexivity.
  - rewrite Hsh, nm_wire_length in Hl. unfold nm_wire in Hsh.
    destruct (slice_app_l b pos (pos + length (nm_lwire n)) e _ _ Hsh eq_refl ltac:(lia) He) as [S1 S2].
    apply slice_head in S2 as [Hz _].
    rewrite (chunk_scan_labels b n 130 pos acc Hwf S1 ltac:(lia) ltac:(lia)).
    destruct (130 - length n) as [|f] eqn:Ef; [lia|]. cbn [chunk_scan]. rewrite Hz.
    change (0 =? 0)%N with true. cbv iota. rewrite <- app_assoc. reflexivity.
Qed.

Lemma mem_nat_in x l : In x l -> mem_nat x l = true.
Proof. intros H. unfold mem_nat. apply existsb_exists. exists x. split; auto. apply Nat.eqb_refl. Qed.

(* a chunk passes the checker when its pointer target is among the starts collected so far *)
Lemma check_name_ok b L ch (nocomp : bool) starts : chunk_ok b L ch -> wf_name (nc_name ch) ->
  nc_end ch <= length b -> (nocomp = true -> nc_sh ch = None) ->
  (forall s, L s -> s < nc_pos ch -> In s starts) ->
  check_name b nocomp starts (nc_pos ch) = Ok (starts ++ chunk_starts ch).
Proof.
  intros [Hlt Hsh] Hwf He Hno Hst. unfold check_name.
  rewrite (chunk_scan_shape _ _ _ _ _ _ _ [] Hsh Hwf He ltac:(lia)). cbn [app].
  unfold chunk_starts. destruct (nc_sh ch) as [[k pp]|] eqn:Esh; cbn [shape_term]; auto.
  destruct nocomp; [specialize (Hno eq_refl); discriminate|].
  simpl in Hsh. destruct Hsh as [_ [_ [HL [Hpp _]]]].
  destruct (pp <? nc_pos ch) eqn:E1; [|apply Nat.ltb_ge in E1; lia].
  rewrite (mem_nat_in pp starts (Hst pp HL Hpp)). reflexivity.
Qed.

Lemma check_parts_ok b L (nocomp : bool) (P R : list nat) : forall ps dps pos e, parts_at b L ps pos e -> e <= length b ->
  Forall2 lpart_rel ps dps -> Forall part_wf ps -> (nocomp = true -> Forall part_plain ps) ->
  (forall s, L s -> In s (P ++ parts_starts ps ++ R)) -> (forall s, In s P -> s < pos) ->
  (forall s, In s R -> e <= s) ->
  check_parts b nocomp P dps = Ok (P ++ parts_starts ps).
Proof.
  intros ps. revert P. induction ps as [|[ch comp|p d] r IH]; intros P dps pos e Hat He Hrel Hwf Hpl HL HP HR.
  - inversion Hrel; subst. simpl. rewrite app_nil_r. reflexivity.
  - inversion Hrel as [|? dp ? dps' Hr Hrel']; subst. inversion Hwf as [|? ? HW Hwf']; subst. destruct HW as [W1 W2].
    destruct dp as [n' pos' c|]; simpl in Hr; [|contradiction]. destruct Hr as [_ [-> ->]].
    simpl in Hat. destruct Hat as [Hp [Hch [Hn [Hle Hat]]]]. pose proof (proj1 Hch) as Hlt.
    pose proof (parts_le _ _ _ _ _ Hat) as Hpe.
    cbn [check_parts].
    rewrite (check_name_ok b L ch (nocomp || negb comp) P Hch W1 ltac:(lia)).
    + cbn [bind]. simpl parts_starts. rewrite app_assoc.
      apply (IH (P ++ chunk_starts ch) dps' (nc_end ch) e); auto.
      * intros Hn'. specialize (Hpl Hn'). inversion Hpl; auto.
      * intros s Hs. specialize (HL s Hs). simpl in HL. rewrite <- !app_assoc. rewrite <- app_assoc in HL. exact HL.
      * intros s Hs. apply in_app_iff in Hs as [Hs|Hs]; [apply HP in Hs; lia|].
        apply (chunk_starts_bound b L ch s Hch) in Hs; lia.
    + intros Hc. apply orb_true_iff in Hc as [Hc|Hc].
      * specialize (Hpl Hc). inversion Hpl; auto.
      * apply Hn. destruct comp; [discriminate|reflexivity].
    + intros s Hs Hlt'. specialize (HL s Hs). simpl in HL. rewrite !in_app_iff in HL.
      destruct HL as [K|[[K|K]|K]]; auto.
      * apply (chunk_starts_bound b L ch s Hch) in K; lia.
      * apply (parts_starts_bound _ _ _ _ _ _ Hat He) in K. lia.
      * apply HR in K. lia.
  - inversion Hrel as [|? dp ? dps' Hr Hrel']; subst. inversion Hwf as [|? ? _ Hwf']; subst.
    destruct dp as [|d']; simpl in Hr; [contradiction|]. subst d'.
    simpl in Hat. destruct Hat as [-> [_ [Hs [Hle Hat]]]].
    cbn [check_parts]. simpl parts_starts.
    apply (IH P dps' (pos + length d) e); auto.
    + intros Hn'. specialize (Hpl Hn'). inversion Hpl; auto.
    + intros s Hs'. apply HP in Hs'. lia.
Qed.

Definition rr_wfL (r : lrr) : Prop := wf_name (nc_name (lr_owner r)) /\ Forall part_wf (lr_parts r).

Lemma rr_wfL_of r a : rrd r a -> arr_wf a -> rr_wfL r.
Proof.
  intros [D1 [D2 [D3 [D4 [D5 [D6 [D7 [D8 D9]]]]]]]] [W1 [W2 [W3 [W4 [W5 [W6 W7]]]]]]. split.
  - rewrite D1. exact W1.
  - eapply parts_wf_of; [exact D6|]. apply rd_parts_wf. exact W7.
Qed.

Definition rlink (r : lrr) (d : drr) : Prop :=
  dr_pos d = nc_pos (lr_owner r) /\ Forall2 lpart_rel (lr_parts r) (dr_parts d).

Lemma check_rrs_ok b L : forall rs ds es (P R : list nat) pos e, rrs_at b L rs pos e -> e <= length b ->
  Forall2 rlink rs ds -> Forall rr_wfL rs -> Forall2 (fun a r => a_nocomp a = true -> rr_plain r) es rs ->
  (forall s, L s -> In s (P ++ rrs_starts rs ++ R)) -> (forall s, In s P -> s < pos) ->
  (forall s, In s R -> e <= s) ->
  check_rrs b P es ds = Ok (P ++ rrs_starts rs).
Proof.
  induction rs as [|r rest IH]; intros ds es P R pos e Hat He Hlk Hwf Hes HL HP HR.
  - inversion Hlk; subst. destruct es; simpl; rewrite app_nil_r; reflexivity.
  - inversion Hlk as [|? d ? ds' [Lp Lparts] Hlk']; subst. inversion Hwf as [|? ? [W1 W2] Hwf']; subst.
    inversion Hes as [|a ? es' ? Ha Hes']; subst.
    simpl in Hat. destruct Hat as [Hp [Hr [Hle Hat]]]. pose proof Hr as [Ho [Hf [Hle2 Hparts]]].
    pose proof (proj1 Ho) as Hlt. pose proof (rrs_le _ _ _ _ _ Hat) as Hre.
    cbn [check_rrs]. rewrite Lp.
    rewrite (check_name_ok b L (lr_owner r) (a_nocomp a) P Ho W1 ltac:(lia)); [|intros Hn; apply (Ha Hn)|].
    2:{ intros s Hs Hlt'. specialize (HL s Hs). rewrite !in_app_iff in HL. destruct HL as [K|[K|K]]; auto.
        - apply (rrs_starts_bound b L (r :: rest) pos e s) in K; [lia| |lia].
          simpl. split; auto.
        - apply HR in K. lia. }
    cbn [bind].
    assert (Hplp : a_nocomp a = true -> Forall part_plain (lr_parts r)) by (intros Hn; apply (Ha Hn)).
    rewrite (check_parts_ok b L (a_nocomp a) (P ++ chunk_starts (lr_owner r)) (rrs_starts rest ++ R) (lr_parts r) (dr_parts d)
               (nc_end (lr_owner r) + 10) (lr_end r)); auto; try lia.
    + cbn [bind].
      assert (Eq : P ++ rrs_starts (r :: rest) =
                   ((P ++ chunk_starts (lr_owner r)) ++ parts_starts (lr_parts r)) ++ rrs_starts rest).
      { unfold rrs_starts. simpl. unfold rr_starts. rewrite <- !app_assoc. reflexivity. }
      rewrite Eq.
      apply (IH ds' es' ((P ++ chunk_starts (lr_owner r)) ++ parts_starts (lr_parts r)) R (lr_end r) e); auto.
      * intros s Hs. specialize (HL s Hs). unfold rrs_starts in HL. simpl in HL. unfold rr_starts in HL.
        rewrite !in_app_iff in *. tauto.
      * intros s Hs. rewrite !in_app_iff in Hs. destruct Hs as [[Hs|Hs]|Hs].
        -- apply HP in Hs. lia.
        -- apply (chunk_starts_bound b L _ s Ho) in Hs; lia.
        -- apply (parts_starts_bound _ _ _ _ _ _ Hparts) in Hs; lia.
    + intros s Hs. specialize (HL s Hs). unfold rrs_starts in HL. simpl in HL. unfold rr_starts in HL.
      rewrite !in_app_iff in *. tauto.
    + intros s Hs. rewrite in_app_iff in Hs. destruct Hs as [Hs|Hs]; [apply HP in Hs; lia|].
      apply (chunk_starts_bound b L _ s Ho) in Hs; lia.
    + intros s Hs. rewrite in_app_iff in Hs. destruct Hs as [Hs|Hs].
      * apply (rrs_starts_bound _ _ _ _ _ _ Hat He) in Hs. lia.
      * apply HR in Hs. lia.
Qed.

Lemma check_qs_ok b L : forall qs ds es (P R : list nat) pos e, qs_at b L qs pos e -> e <= length b ->
  Forall2 (fun q d => dq_pos d = nc_pos (lq_name q)) qs ds -> Forall (fun q => wf_name (nc_name (lq_name q))) qs ->
  Forall2 (fun a q => a_nocomp a = true -> nc_sh (lq_name q) = None) es qs ->
  (forall s, L s -> In s (P ++ qs_starts qs ++ R)) -> (forall s, In s P -> s < pos) ->
  (forall s, In s R -> e <= s) ->
  check_qs b P es ds = Ok (P ++ qs_starts qs).
Proof.
  induction qs as [|q rest IH]; intros ds es P R pos e Hat He Hlk Hwf Hes HL HP HR.
  - inversion Hlk; subst. destruct es; simpl; rewrite app_nil_r; reflexivity.
  - inversion Hlk as [|? d ? ds' Lp Hlk']; subst. inversion Hwf as [|? ? W1 Hwf']; subst.
    inversion Hes as [|a ? es' ? Ha Hes']; subst.
    simpl in Hat. destruct Hat as [Hp [[Ho Hf] [Hle Hat]]].
    pose proof (proj1 Ho) as Hlt. pose proof (qs_le _ _ _ _ _ Hat) as Hre.
    cbn [check_qs]. rewrite Lp.
    rewrite (check_name_ok b L (lq_name q) (a_nocomp a) P Ho W1 ltac:(lia)); [|exact Ha|].
    2:{ intros s Hs Hlt'. specialize (HL s Hs). rewrite !in_app_iff in HL. destruct HL as [K|[K|K]]; auto.
        - apply (qs_starts_bound b L (q :: rest) pos e s) in K; [lia| |lia].
          simpl. split; auto. split; [split; auto|auto].
        - apply HR in K. lia. }
    cbn [bind].
    assert (Eq : P ++ qs_starts (q :: rest) = (P ++ chunk_starts (lq_name q)) ++ qs_starts rest).
    { unfold qs_starts. simpl. rewrite <- !app_assoc. reflexivity. }
    rewrite Eq.
    apply (IH ds' es' (P ++ chunk_starts (lq_name q)) R (nc_end (lq_name q) + 4) e); auto.
    + intros s Hs. specialize (HL s Hs). unfold qs_starts in HL. simpl in HL.
      rewrite !in_app_iff in *. tauto.
    + intros s Hs. rewrite in_app_iff in Hs. destruct Hs as [Hs|Hs]; [apply HP in Hs; lia|].
      apply (chunk_starts_bound b L _ s Ho) in Hs; lia.
Qed.
