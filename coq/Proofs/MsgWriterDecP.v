(* The RFC 1035 decoder of Spec/MsgWriterS.v run on a buffer with a given layout returns what the
   layout stands for. *)
From QV Require Import Base.ListX Model.MsgWriter Spec.NameRepr Spec.MsgWriterS Spec.MsgWriterAbsS
     Proofs.NameWireP Proofs.NameWireSP Proofs.MsgWriterP Proofs.MsgWriterScanP Proofs.MsgWriterNameP
     Proofs.MsgWriterClosP Proofs.MsgWriterNameSP Proofs.MsgWriterLayP Proofs.MsgWriterOpP.

Local Open Scope nat_scope.

(* ---------------------------------------------------------------- big-endian fields *)

Lemma get16_be16 (b : bytes) i v : slice b i (i + 2) = be16 v -> (v < 65536)%N -> get16 b i = Some v.
Proof.
  intros Hs Hv. unfold be16 in Hs. apply slice_head in Hs as [H1 [Hs _]].
  apply slice_head in Hs as [H2 _]. unfold get16. replace (i + 1) with (S i) by lia. rewrite H1, H2.
  f_equal.
  assert (E : (v / 256 < 256)%N) by (apply N.div_lt_upper_bound; lia).
  rewrite (N.mod_small (v / 256) 256 E).
  pose proof (N.div_mod v 256 ltac:(lia)). lia.
Qed.

Lemma be32_digits v : (v < 4294967296)%N ->
  exists a b c d, (a < 256 /\ b < 256 /\ c < 256 /\ d < 256)%N /\ be32 v = [a; b; c; d] /\
                  v = ((a * 256 + b) * 65536 + (c * 256 + d))%N.
Proof.
  intros Hv.
  pose proof (N.div_mod v 16777216 ltac:(lia)) as D1. pose proof (N.mod_lt v 16777216 ltac:(lia)) as R1.
  set (a := (v / 16777216)%N) in *. set (r1 := (v mod 16777216)%N) in *.
  pose proof (N.div_mod r1 65536 ltac:(lia)) as D2. pose proof (N.mod_lt r1 65536 ltac:(lia)) as R2.
  set (b := (r1 / 65536)%N) in *. set (r2 := (r1 mod 65536)%N) in *.
  pose proof (N.div_mod r2 256 ltac:(lia)) as D3. pose proof (N.mod_lt r2 256 ltac:(lia)) as R3.
  set (c := (r2 / 256)%N) in *. set (d := (r2 mod 256)%N) in *.
  assert (Ha : (a < 256)%N) by (unfold a; apply N.div_lt_upper_bound; lia).
  assert (Hb : (b < 256)%N) by (unfold b; apply N.div_lt_upper_bound; lia).
  assert (Hc : (c < 256)%N) by (unfold c; apply N.div_lt_upper_bound; lia).
  exists a, b, c, d. split; [auto|]. split; [|lia].
  unfold be32. fold a.
  assert (E2 : (v / 65536 = a * 256 + b)%N) by (symmetry; apply (N.div_unique _ _ _ r2); lia).
  assert (E3 : (v / 256 = (a * 256 + b) * 256 + c)%N) by (symmetry; apply (N.div_unique _ _ _ d); lia).
  assert (E4 : (v mod 256 = d)%N) by (symmetry; apply (N.mod_unique _ _ ((a * 256 + b) * 256 + c)%N); lia).
  rewrite E2, E3, E4.
  f_equal; [apply N.mod_small; auto|]. f_equal; [symmetry; apply (N.mod_unique _ _ a); lia|].
  f_equal. symmetry. apply (N.mod_unique _ _ (a * 256 + b)%N); lia.
Qed.

Lemma get32_be32 (b : bytes) i v : slice b i (i + 4) = be32 v -> (v < 4294967296)%N -> get32 b i = Some v.
Proof.
  intros Hs Hv. destruct (be32_digits v Hv) as [a [b0 [c [d [[Ha [Hb [Hc Hd]]] [E Ev]]]]]].
  rewrite E in Hs. apply slice_head in Hs as [H1 [Hs _]]. apply slice_head in Hs as [H2 [Hs _]].
  apply slice_head in Hs as [H3 [Hs _]]. apply slice_head in Hs as [H4 _].
  unfold get32, get16. replace (i + 1) with (S i) by lia. replace (i + 2) with (S (S i)) by lia.
  replace (S (S i) + 1) with (S (S (S i))) by lia. rewrite H1, H2, H3, H4. f_equal. lia.
Qed.

(* ---------------------------------------------------------------- names *)

Lemma lab_eq_len cp a b : lab_eq cp a b -> length a = length b.
Proof.
  destruct cp; intros H.
  - apply bytes_eqb_eq in H. subst; auto.
  - apply lab_eq_false_iff in H. rewrite <- (map_length lower a), H, map_length. reflexivity.
Qed.

Lemma name_eq_lwire_len cp a b : name_eq cp a b -> length (nm_lwire a) = length (nm_lwire b).
Proof.
  induction 1 as [|x y a b H _ IH]; auto. rewrite !nm_lwire_cons. simpl. rewrite !app_length.
  rewrite (lab_eq_len _ _ _ H). lia.
Qed.

Lemma name_eq_rel cp a b : name_eq cp a b -> name_rel cp a b.
Proof.
  unfold name_rel. destruct cp; intros H.
  - apply name_eq_exact; auto.
  - induction H as [|x y a b H _ IH]; auto. simpl. f_equal; auto. apply lab_eq_false_iff; auto.
Qed.

Lemma name_eq_wf cp a b : name_eq cp a b -> Forall wf_label a -> Forall wf_label b.
Proof.
  induction 1 as [|x y a b H _ IH]; intros Hw; auto. inversion Hw; subst. constructor; auto.
  unfold wf_label in *. rewrite <- (lab_eq_len _ _ _ H). auto.
Qed.

Lemma decodes_plain b cs pos n e : Forall wf_label n -> slice b pos e = nm_wire n -> e <= length b ->
  pos <= e -> decodes b cs pos n e.
Proof.
  intros Hwf Hs He Hpe.
  assert (Hl : length (slice b pos e) = e - pos) by (apply slice_length; lia).
  rewrite Hs, nm_wire_length in Hl. unfold nm_wire in Hs.
  destruct (slice_app_l b pos (pos + length (nm_lwire n)) e _ _ Hs eq_refl ltac:(lia) He) as [S1 S2].
  apply slice_head in S2 as [Hz _].
  rewrite <- (app_nil_r n). apply decodes_labels; auto; try lia.
  replace e with (pos + length (nm_lwire n) + 1) by lia. constructor. exact Hz.
Qed.

(* a chunk of the layout decodes, under the specification's decoder, to the name it stands for *)
Lemma chunk_decode b lo c h L ch : closed b lo c h L -> sdec b c L -> chunk_ok b L ch ->
  nc_end ch <= length b -> wf_name (nc_name ch) -> length (nm_wire (nc_name ch)) <= 255 ->
  exists n', spec_decode_name b (nc_pos ch) = Some (n', nc_end ch - nc_pos ch) /\
             name_rel (nc_cp ch) (nc_name ch) n' /\
             decodes b (nc_pos ch) (nc_pos ch) n' (nc_end ch).
Proof.
  intros Hc Hsd [Hlt Hsh] He [Hwf _] H255.
  destruct (nc_sh ch) as [[k pp]|]; simpl in Hsh.
  - destruct Hsh as [Hk [Hs [HL [Hpp [H0 [Hpm [m' [Hm' Hme]]]]]]]].
    destruct (Hsd pp HL) as [m [em [Hm Hdm]]].
    pose proof (name_at_fun _ _ _ _ Hm' _ _ Hm). subst m'.
    assert (Hl : length (slice b (nc_pos ch) (nc_end ch)) = nc_end ch - nc_pos ch) by (apply slice_length; lia).
    rewrite Hs, app_length in Hl. simpl in Hl.
    destruct (slice_app_l b (nc_pos ch) (nc_pos ch + length (nm_lwire (firstn k (nc_name ch)))) (nc_end ch) _ _ Hs
                eq_refl ltac:(lia) He) as [S1 S2].
    destruct (ptr_word_bytes pp Hpm) as [hi [lo' [Eb [Ehi Et]]]].
    assert (Hhi : (hi < 256)%N) by (unfold be16 in Eb; inversion Eb; apply N.mod_lt; lia).
    rewrite Eb in S2. apply slice_head in S2 as [Z1 [S3 _]]. apply slice_head in S3 as [Z2 _].
    destruct (spec_target hi lo' Ehi Hhi) as [H192 Etspec].
    assert (Hwk : Forall wf_label (firstn k (nc_name ch))).
    { rewrite Forall_forall in *. intros x Hx. apply Hwf. eapply In_firstn; eauto. }
    assert (D : decodes b (nc_pos ch) (nc_pos ch) (firstn k (nc_name ch) ++ m) (nc_end ch)).
    { apply decodes_labels; auto; try lia.
      replace (nc_end ch) with (nc_pos ch + length (nm_lwire (firstn k (nc_name ch))) + 2) by lia.
      eapply dec_ptr; eauto.
      - replace (nc_pos ch + length (nm_lwire (firstn k (nc_name ch))) + 1)
          with (S (nc_pos ch + length (nm_lwire (firstn k (nc_name ch))))) by lia. exact Z2.
      - rewrite Etspec, Et. lia.
      - rewrite Etspec, Et. exact Hdm. }
    assert (Hne : name_eq (nc_cp ch) (nc_name ch) (firstn k (nc_name ch) ++ m)).
    { rewrite <- (firstn_skipn k (nc_name ch)) at 1. apply Forall2_app; [apply name_eq_refl|exact Hme]. }
    exists (firstn k (nc_name ch) ++ m). split; [|split; [apply name_eq_rel; auto|exact D]].
    apply spec_decode_name_iff. exists (nc_end ch). split; [exact D|]. split; [reflexivity|].
    change (wire_len (firstn k (nc_name ch) ++ m)) with (length (nm_wire (firstn k (nc_name ch) ++ m))).
    rewrite nm_wire_length, <- (name_eq_lwire_len _ _ _ Hne), <- nm_wire_length. exact H255.
  - assert (D : decodes b (nc_pos ch) (nc_pos ch) (nc_name ch) (nc_end ch))
      by (apply decodes_plain; auto; lia).
    exists (nc_name ch). split; [|split; [apply name_eq_rel, name_eq_refl|exact D]].
    apply spec_decode_name_iff. exists (nc_end ch). split; [exact D|]. split; [reflexivity|exact H255].
Qed.

Lemma uchunk_decode b L ch : chunk_ok b L ch -> nc_sh ch = None -> nc_end ch <= length b ->
  wf_name (nc_name ch) -> length (nm_wire (nc_name ch)) <= 255 ->
  dec_uname b (nc_pos ch) = Some (nc_name ch, nc_end ch - nc_pos ch).
Proof.
  intros [Hlt Hsh] Hn He [Hwf _] H255. rewrite Hn in Hsh. simpl in Hsh.
  assert (D : decodes b 0 (nc_pos ch) (nc_name ch) (nc_end ch)) by (apply decodes_plain; auto; lia).
  unfold dec_uname. rewrite (sdecode_complete b _ _ _ _ D); [reflexivity|exact H255|lia].
Qed.

(* ---------------------------------------------------------------- RDATA parts *)

Definition sf_of (ct : ctype) : sfield :=
  match ct with CtCompressible => FCName | CtUncompressible => FUName | CtFixed k => FBytes k end.

(* the component table regenerated from the Rust source agrees with the RFC layout of the specification *)
Lemma layout_table cl ty : layout cl ty = map sf_of (component_types cl ty).
Proof.
  assert (Hcl : forall a : N, (a =? cl)%N = (cl =? a)%N) by (intros; apply N.eqb_sym).
  destruct (N.eq_dec ty 2) as [->|N2]; [reflexivity|].
  destruct (N.eq_dec ty 3) as [->|N3]; [reflexivity|].
  destruct (N.eq_dec ty 4) as [->|N4]; [reflexivity|].
  destruct (N.eq_dec ty 5) as [->|N5]; [reflexivity|].
  destruct (N.eq_dec ty 7) as [->|N7]; [reflexivity|].
  destruct (N.eq_dec ty 8) as [->|N8]; [reflexivity|].
  destruct (N.eq_dec ty 9) as [->|N9]; [reflexivity|].
  destruct (N.eq_dec ty 12) as [->|N12]; [reflexivity|].
  destruct (N.eq_dec ty 6) as [->|N6]; [reflexivity|].
  destruct (N.eq_dec ty 14) as [->|N14]; [reflexivity|].
  destruct (N.eq_dec ty 15) as [->|N15]; [reflexivity|].
  destruct (N.eq_dec ty 1) as [->|N1].
  { destruct (N.eq_dec cl 3) as [->|Hc3]; [reflexivity|].
    assert (Ec : (cl =? 3)%N = false) by (apply N.eqb_neq; auto).
    assert (Ec' : (3 =? cl)%N = false) by (apply N.eqb_neq; auto).
    unfold layout, component_types, COMPONENT_TABLE, mem_N, one_name_types. cbn [existsb lookup_ctypes].
    rewrite Ec, Ec'. reflexivity. }
  destruct (N.eq_dec ty 33) as [->|N33].
  { destruct (N.eq_dec cl 1) as [->|Hc1]; [reflexivity|].
    assert (Ec : (cl =? 1)%N = false) by (apply N.eqb_neq; auto).
    assert (Ec' : (1 =? cl)%N = false) by (apply N.eqb_neq; auto).
    unfold layout, component_types, COMPONENT_TABLE, mem_N, one_name_types. cbn [existsb lookup_ctypes].
    rewrite Ec, Ec'. reflexivity. }
  assert (E : forall a : N, a <> ty -> (a =? ty)%N = false) by (intros a Ha; apply N.eqb_neq; auto).
  assert (E' : forall a : N, ty <> a -> (ty =? a)%N = false) by (intros a Ha; apply N.eqb_neq; auto).
  unfold layout, component_types, COMPONENT_TABLE, mem_N, one_name_types. cbn [existsb lookup_ctypes].
  rewrite !E by congruence. rewrite !E' by congruence. reflexivity.
Qed.

Definition lpart_rel (p : lpart) (r : rpart) : Prop :=
  match p, r with
  | LPName ch comp, PName n' pos c => name_rel (nc_cp ch) (nc_name ch) n' /\ c = comp /\ pos = nc_pos ch
  | LPRaw _ d, PRaw d' => d' = d
  | _, _ => False
  end.

Definition part_wf (p : lpart) : Prop :=
  match p with LPName ch _ => wf_name (nc_name ch) /\ length (nm_wire (nc_name ch)) <= 255 | _ => True end.

Lemma parts_decode b lo c h L : closed b lo c h L -> sdec b c L ->
  forall cts ps pos e, parts_shape cts ps -> parts_at b L ps pos e -> Forall part_wf ps -> e <= length b ->
  exists dps, dec_parts false (map sf_of cts) b pos e = Some dps /\ Forall2 lpart_rel ps dps.
Proof.
  intros Hc Hsd. induction cts as [|ct rest IH]; intros ps pos e Hsh Hat Hwf He.
  - simpl in *. destruct ps as [|[ch comp|p d] [|? ?]]; try contradiction.
    + simpl in Hat. subst. rewrite Nat.eqb_refl. exists []. split; auto.
    + simpl in Hat. destruct Hat as [-> [_ [Hs [Hle <-]]]].
      assert (length d <> 0) by (destruct d; [congruence|simpl; lia]).
      destruct (pos =? pos + length d) eqn:E1; [apply Nat.eqb_eq in E1; lia|].
      destruct (pos <? pos + length d) eqn:E2; [|apply Nat.ltb_ge in E2; lia].
      exists [PRaw (slice b pos (pos + length d))]. split; [reflexivity|]. constructor; [simpl; exact Hs|constructor].
  - destruct ct as [| |k]; simpl in Hsh.
    + destruct ps as [|[ch comp|p d] ps']; try contradiction. destruct Hsh as [-> Hsh].
      simpl in Hat. destruct Hat as [Hp [Hch [_ [Hle Hat]]]]. inversion Hwf as [|? ? HW Hwf']; subst. destruct HW as [W1 W2].
      pose proof (parts_le _ _ _ _ _ Hat) as Hpe.
      destruct (chunk_decode b lo c h L ch Hc Hsd Hch ltac:(lia) W1 W2) as [n' [E [Hr _]]].
      cbn [map sf_of dec_parts andb negb is_comp]. unfold dec_cname. rewrite E.
      pose proof (proj1 Hch) as Hlt.
      replace (nc_pos ch + (nc_end ch - nc_pos ch)) with (nc_end ch) by lia.
      destruct (nc_end ch <=? e) eqn:E1; [|apply Nat.leb_gt in E1; lia].
      destruct (IH ps' (nc_end ch) e Hsh Hat Hwf' He) as [dps [E2 F2]]. rewrite E2.
      eexists. split; [reflexivity|]. constructor; auto. simpl. auto.
    + destruct ps as [|[ch comp|p d] ps']; try contradiction. destruct Hsh as [-> Hsh].
      simpl in Hat. destruct Hat as [Hp [Hch [Hn [Hle Hat]]]]. inversion Hwf as [|? ? HW Hwf']; subst. destruct HW as [W1 W2].
      pose proof (parts_le _ _ _ _ _ Hat) as Hpe.
      cbn [map sf_of dec_parts andb negb is_comp].
      rewrite (uchunk_decode b L ch Hch (Hn eq_refl) ltac:(lia) W1 W2).
      pose proof (proj1 Hch) as Hlt.
      replace (nc_pos ch + (nc_end ch - nc_pos ch)) with (nc_end ch) by lia.
      destruct (nc_end ch <=? e) eqn:E1; [|apply Nat.leb_gt in E1; lia].
      destruct (IH ps' (nc_end ch) e Hsh Hat Hwf' He) as [dps [E2 F2]]. rewrite E2.
      eexists. split; [reflexivity|]. constructor; auto. simpl. split; [apply name_eq_rel, name_eq_refl|auto].
    + destruct ps as [|[ch comp|p d] ps']; try contradiction. destruct Hsh as [Hk Hsh].
      simpl in Hat. destruct Hat as [-> [_ [Hs [Hle Hat]]]]. inversion Hwf as [|? ? _ Hwf']; subst.
      cbn [map sf_of dec_parts].
      destruct (pos + length d <=? e) eqn:E1; [|apply Nat.leb_gt in E1; lia].
      destruct (IH ps' (pos + length d) e Hsh Hat Hwf' He) as [dps [E2 F2]]. rewrite E2.
      eexists. split; [reflexivity|]. constructor; auto.
Qed.
