(* Node::iter's explicit-stack state machine yields exactly the pre-order walk, and the model's
   fuel suffices. *)
From QV Require Import Base.Res Base.Octets Base.ListX Model.ZoneTree Proofs.ZoneIterP.

Definition ccost (ch : list (label * node)) : nat :=
  list_sum (map (fun kc => 2 + iter_cost (snd kc)) ch).

Lemma iter_cost_unfold nm ch d : iter_cost (Node nm ch d) = S (ccost ch).
Proof.
  simpl. f_equal. unfold ccost.
  induction ch as [|[k c] ch IH]; simpl; auto.
Qed.

Definition sm_node_ok (t : node) : Prop :=
  forall st f l, iter_run f (ISChildren [] st) = Some l ->
                 iter_run (iter_cost t + f) (ISNode t st) = Some (node_iter t ++ l).

Lemma sm_children ch : Forall (fun kc => sm_node_ok (snd kc)) ch ->
  forall st f l, iter_run f (ISChildren [] st) = Some l ->
                 iter_run (ccost ch + f) (ISChildren ch st) = Some (iter_children ch ++ l).
Proof.
  induction ch as [|[k c] ch IH]; intros HF st f l H.
  - exact H.
  - inversion HF as [|? ? Hc Hch]; subst. simpl in Hc.
    change (ccost ((k, c) :: ch)) with (2 + iter_cost c + ccost ch).
    replace (2 + iter_cost c + ccost ch + f) with (S (iter_cost c + S (ccost ch + f))) by lia.
    cbn [iter_run iter_step].
    change (iter_children ((k, c) :: ch)) with (node_iter c ++ iter_children ch). rewrite <- app_assoc.
    apply Hc. cbn [iter_run iter_step]. apply IH; auto.
Qed.

Lemma sm_node t : sm_node_ok t.
Proof.
  induction t as [nm ch d IH] using node_ind'. intros st f l H.
  rewrite iter_cost_unfold, node_iter_unfold. cbn [plus iter_run iter_step node_children node_name node_data].
  rewrite (sm_children ch IH st f l H). reflexivity.
Qed.

Theorem node_iter_sm_correct t : node_iter_sm t = Some (node_iter t).
Proof.
  unfold node_iter_sm. replace (S (iter_cost t)) with (iter_cost t + 1) by lia.
  rewrite (sm_node t [] 1 []); [rewrite app_nil_r; reflexivity|reflexivity].
Qed.
