(* Rdata::equals (model, with the repaired names_equal) against the characterisation
   spec_equals; the equals dispatch table against the RFC list of case-insensitive types. *)
From QV Require Import Base.ListX Model.NameWire Spec.NameWireS Spec.NameRepr Proofs.NameWireP
  Proofs.NameWireSP Model.RdataM Spec.RdataFormatS Spec.RdataEqS Proofs.RdNameP Proofs.RdataFormatSP
  Proofs.RdataVP Proofs.RdataRP Proofs.RdNameEqP Proofs.RdataEqSP Model.RdataSetM Proofs.RdataSetP.
Local Open Scope nat_scope.

Lemma decode0_facts a ls n : spec_decode_name a 0 = Some (ls, n) ->
  valid_name ls /\ n = wire_len ls /\ n <= length a /\ 1 <= n.
Proof.
  intros H. apply spec_decode_name_iff, decodes_name0_unc in H.
  pose proof (proj1 (decodes_unc_gen a ls n) H) as (Hv & Hn & _).
  destruct H as [D _]. apply decodes_end_le in D. split; [exact Hv|]. split; [exact Hn|]. lia.
Qed.

Lemma uname_decode a : wf_bytes a ->
  match parse_uncompressed_name a false with
  | Ok (nm, n) => exists ls, spec_decode_name a 0 = Some (ls, n) /\ nm = name_of ls
  | Err _ => spec_decode_name a 0 = None
  | Panic => False
  end.
Proof.
  intros Hwf. pose proof (uname_spec a Hwf) as H.
  destruct (parse_uncompressed_name a false) as [[nm n]|e|]; auto.
  - destruct H as (ls & D & ->). exists ls. split; [|reflexivity].
    apply spec_decode_name_iff, decodes_name0_unc. exact D.
  - destruct H as [H _]. unfold sname in H. destruct (spec_decode_name a 0) as [[? ?]|]; [discriminate|reflexivity].
Qed.

Lemma label_ci_len a b : label_ci_eqb a b = true -> length a = length b.
Proof.
  revert b; induction a as [|x a IH]; intros [|y b]; simpl; intros H; try discriminate; auto.
  apply andb_true_iff in H. destruct H as [_ H]. f_equal. apply IH. exact H.
Qed.

Lemma labels_ci_wire_len a b : labels_ci_eqb a b = true -> wire_len a = wire_len b.
Proof.
  revert b; induction a as [|x a IH]; intros [|y b]; simpl; intros H; try discriminate; auto.
  apply andb_true_iff in H. destruct H as [H1 H2]. rewrite !wire_len_cons.
  rewrite (label_ci_len _ _ H1), (IH _ H2). reflexivity.
Qed.

(* one name field at the start of both buffers *)
Definition tnf1_spec (a b : bytes) : option (option nat) :=
  match spec_decode_name a 0, spec_decode_name b 0 with
  | None, None => None
  | Some _, None | None, Some _ => Some None
  | Some (la, na), Some (lb, _) => if labels_ci_eqb la lb then Some (Some na) else Some None
  end.

Lemma tnf1 a b : wf_bytes a -> wf_bytes b -> test_n_name_fields a b 1 = Ok (tnf1_spec a b).
Proof.
  intros Ha Hb. unfold test_n_name_fields, tnf1_spec. cbn [tnf_loop].
  rewrite !slice_from_ok by lia. cbn [bind skipn].
  pose proof (uname_decode a Ha) as Da. pose proof (uname_decode b Hb) as Db.
  destruct (parse_uncompressed_name a false) as [[nma na]|ea|]; [| |contradiction];
    destruct (parse_uncompressed_name b false) as [[nmb nb]|eb|]; try contradiction.
  - destruct Da as (la & Sa & ->). destruct Db as (lb & Sb & ->). rewrite Sa, Sb.
    pose proof (decode0_facts a la na Sa) as (Va & _).
    pose proof (decode0_facts b lb nb Sb) as (Vb & _).
    rewrite (name_eq_spec la lb) by auto. cbn [bind].
    destruct (labels_ci_eqb la lb); reflexivity.
  - destruct Da as (la & -> & ->). rewrite Db. reflexivity.
  - destruct Db as (lb & -> & ->). rewrite Da. reflexivity.
  - rewrite Da, Db. reflexivity.
Qed.

(* the characterisation for a format [g], whatever (class, type) has it *)
Definition eq_spec (g : list field) (a b : bytes) : bool :=
  if smatch g a && smatch g b then ci_fields g a b else octets_eqb a b.

Lemma smatch_name_only a :
  smatch [FName] a = match spec_decode_name a 0 with Some (_, n) => length a <=? n | None => false end.
Proof.
  rewrite smatch_name. unfold sname. destruct (spec_decode_name a 0) as [[ls n]|]; [|reflexivity].
  rewrite smatch_nil, is_nil_skipn. reflexivity.
Qed.

Theorem names_equal_char a b : wf_bytes a -> wf_bytes b ->
  names_equal a b = Ok (eq_spec [FName] a b).
Proof.
  intros Ha Hb. unfold names_equal. rewrite (tnf1 a b Ha Hb). cbn [bind].
  unfold tnf1_spec, eq_spec. rewrite !smatch_name_only. cbn [ci_fields].
  rewrite bytes_eqb_octets.
  destruct (spec_decode_name a 0) as [[la na]|] eqn:Sa; destruct (spec_decode_name b 0) as [[lb nb]|] eqn:Sb.
  - pose proof (decode0_facts a la na Sa) as (Va & Na & La & _).
    pose proof (decode0_facts b lb nb Sb) as (Vb & Nb & Lb & _).
    destruct (labels_ci_eqb la lb) eqn:L.
    + pose proof (labels_ci_wire_len la lb L) as W. assert (E : nb = na) by lia.
      destruct (Nat.eqb_spec na (length a)) as [A|A], (Nat.eqb_spec na (length b)) as [B|B]; cbn [andb].
      * replace (length a <=? na) with true by (symmetry; apply Nat.leb_le; lia).
        replace (length b <=? nb) with true by (symmetry; apply Nat.leb_le; lia). cbn [andb].
        rewrite !skipn_all2 by lia. reflexivity.
      * replace (length b <=? nb) with false by (symmetry; apply Nat.leb_gt; lia).
        rewrite andb_false_r. reflexivity.
      * replace (length a <=? na) with false by (symmetry; apply Nat.leb_gt; lia). reflexivity.
      * replace (length a <=? na) with false by (symmetry; apply Nat.leb_gt; lia). reflexivity.
    + cbn [andb]. destruct ((length a <=? na) && (length b <=? nb)); [reflexivity|].
      destruct (octets_eqb a b) eqn:O; [|reflexivity]. apply octets_eqb_eq in O. subst b.
      rewrite Sa in Sb. inversion Sb; subst. rewrite labels_ci_refl in L. discriminate.
  - rewrite andb_false_r. destruct (octets_eqb a b) eqn:O; [|reflexivity].
    apply octets_eqb_eq in O. subst b. congruence.
  - cbn [andb]. destruct (octets_eqb a b) eqn:O; [|reflexivity].
    apply octets_eqb_eq in O. subst b. congruence.
  - reflexivity.
Qed.

(* ---- the equals dispatch table against the RFCs ---- *)

Theorem dispatch_equals c t :
  match lookup equals_arms equals_default c t with
  | E_names_equal => ci_type c t = true /\ grammar c t = [FName]
  | E_equals_as_ch_a => ci_type c t = true /\ grammar c t = [FName; FBytes 2]
  | E_equals_as_soa => ci_type c t = true /\
      grammar c t = [FName; FName; FBytes 4; FBytes 4; FBytes 4; FBytes 4; FBytes 4]
  | E_equals_as_minfo => ci_type c t = true /\ grammar c t = [FName; FName]
  | E_equals_as_mx => ci_type c t = true /\ grammar c t = [FBytes 2; FName]
  | E_equals_as_in_srv => ci_type c t = true /\ grammar c t = [FBytes 2; FBytes 2; FBytes 2; FName]
  | E_bitwise => ci_type c t = false /\ True
  end.
Proof.
  unfold ci_type, grammar, one_of, equals_arms, equals_default. unfold_types.
  cbn [lookup]. unfold arm_matches. cbn [existsb fst snd]. case_types2 c t.
Qed.

Lemma spec_equals_eq_spec c t a b : ci_type c t = true -> spec_equals c t a b = eq_spec (grammar c t) a b.
Proof. intros H. unfold spec_equals, eq_spec, spec_valid. rewrite H. reflexivity. Qed.

(* the handlers proved so far: the eight single-name types and every bitwise type *)
Definition char_proved (h : ehandler) : bool :=
  match h with E_names_equal | E_bitwise => true | _ => false end.

Theorem equals_char_partial c t a b : wf_bytes a -> wf_bytes b ->
  char_proved (lookup equals_arms equals_default c t) = true ->
  equals c t a b = Ok (spec_equals c t a b).
Proof.
  intros Ha Hb P. unfold equals. pose proof (dispatch_equals c t) as D.
  destruct (lookup equals_arms equals_default c t); try discriminate; cbn [run_equals].
  - destruct D as [C G]. rewrite (spec_equals_eq_spec c t a b C), G. apply names_equal_char; auto.
  - destruct D as [C _]. unfold spec_equals. rewrite C. cbn [andb]. rewrite bytes_eqb_octets. reflexivity.
Qed.

(* the laws, for every (class, type) whose handler is covered *)
Theorem equals_laws_partial c t : char_proved (lookup equals_arms equals_default c t) = true ->
  (forall a, wf_bytes a -> equals c t a a = Ok true) /\
  (forall a b, wf_bytes a -> wf_bytes b -> equals c t a b = equals c t b a) /\
  (forall a b d, wf_bytes a -> wf_bytes b -> wf_bytes d ->
     equals c t a b = Ok true -> equals c t b d = Ok true -> equals c t a d = Ok true).
Proof.
  intros P. split; [|split].
  - intros a Ha. rewrite (equals_char_partial c t a a Ha Ha P), spec_equals_refl. reflexivity.
  - intros a b Ha Hb. rewrite (equals_char_partial c t a b Ha Hb P), (equals_char_partial c t b a Hb Ha P).
    rewrite spec_equals_sym. reflexivity.
  - intros a b d Ha Hb Hd.
    rewrite (equals_char_partial c t a b Ha Hb P), (equals_char_partial c t b d Hb Hd P),
            (equals_char_partial c t a d Ha Hd P).
    intros H1 H2. assert (E1 : spec_equals c t a b = true) by congruence.
    assert (E2 : spec_equals c t b d = true) by congruence.
    rewrite (spec_equals_trans c t a b d E1 E2). reflexivity.
Qed.

(* the pre-fix code is not symmetric *)
Theorem equals_prefix_asym :
  equals_prefix 1 2 [1; 97; 0]%N [1; 97; 0; 9]%N = Ok true /\
  equals_prefix 1 2 [1; 97; 0; 9]%N [1; 97; 0]%N = Ok false.
Proof. split; vm_compute; reflexivity. Qed.

(* which (class, type) the partial theorems cover: everything except SOA, MINFO, MX, CH A, IN SRV *)
Theorem covered_types c t :
  char_proved (lookup equals_arms equals_default c t) =
  negb (one_of t [6; 14; 15]%N || ((c =? 3)%N && (t =? 1)%N) || ((c =? 1)%N && (t =? 33)%N)).
Proof.
  unfold one_of, equals_arms, equals_default. unfold_types.
  cbn [lookup]. unfold arm_matches. cbn [existsb fst snd]. case_types c t.
Qed.

Theorem set_partial c t be rs :
  char_proved (lookup equals_arms equals_default c t) = true ->
  Forall small rs -> Forall wf_bytes rs ->
  forall inner, from_iter be c t rs = Ok (Some inner) ->
  set_iter be inner = nodup_by (spec_equals c t) [] rs.
Proof.
  intros P Hs Hw.
  apply (from_iter_spec c t (spec_equals c t) rs); auto; [|apply incl_refl].
  intros x y Hx Hy. rewrite Forall_forall in Hw. apply equals_char_partial; auto.
Qed.
