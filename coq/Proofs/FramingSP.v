(* C30 — facts about the framing specification (Spec/FramingS.v): the executable deframer
   is the relation [framed]; service on a list of requests. *)
From QV Require Import Base.Res Base.Octets Base.ListX Spec.FramingS.

Lemma deframe_f_indep : forall f1 f2 s, length s <= f1 -> length s <= f2 ->
  deframe_f f1 s = deframe_f f2 s.
Proof.
  induction f1 as [|f1 IH]; intros f2 s H1 H2.
  - destruct s; [|simpl in H1; lia]. destruct f2; reflexivity.
  - destruct f2 as [|f2].
    + destruct s; [reflexivity|simpl in H2; lia].
    + cbn [deframe_f]. destruct s as [|h [|l rest]]; try reflexivity.
      destruct (N.to_nat (h * 256 + l) <=? length rest) eqn:E; [|reflexivity].
      f_equal. simpl in H1, H2.
      apply IH; rewrite skipn_length; lia.
Qed.

Lemma deframe_short s : length s < 2 -> deframe s = [].
Proof.
  unfold deframe. destruct s as [|h [|l rest]]; simpl; intros H; try reflexivity. lia.
Qed.

Lemma deframe_f_S f h l rest :
  deframe_f (S f) (h :: l :: rest) =
  if N.to_nat (h * 256 + l) <=? length rest
  then firstn (N.to_nat (h * 256 + l)) rest :: deframe_f f (skipn (N.to_nat (h * 256 + l)) rest)
  else [].
Proof. reflexivity. Qed.

Lemma deframe_cons h l rest :
  deframe (h :: l :: rest) =
  if N.to_nat (h * 256 + l) <=? length rest
  then firstn (N.to_nat (h * 256 + l)) rest :: deframe (skipn (N.to_nat (h * 256 + l)) rest)
  else [].
Proof.
  unfold deframe. change (length (h :: l :: rest)) with (S (S (length rest))).
  rewrite deframe_f_S.
  destruct (N.to_nat (h * 256 + l) <=? length rest) eqn:E; [|reflexivity].
  f_equal. apply deframe_f_indep; rewrite skipn_length; lia.
Qed.

Lemma frame_header_val (m : bytes) :
  (N.of_nat (length m / 256) * 256 + N.of_nat (length m mod 256))%N = N.of_nat (length m).
Proof.
  pose proof (Nat.div_mod (length m) 256). lia.
Qed.

Lemma deframe_frame m s : deframe (frame m ++ s) = m :: deframe s.
Proof.
  unfold frame. cbn [app]. rewrite deframe_cons, frame_header_val, Nat2N.id.
  rewrite app_length.
  assert (E : (length m <=? length m + length s) = true) by (apply Nat.leb_le; lia).
  rewrite E. f_equal.
  - rewrite firstn_app, Nat.sub_diag, firstn_all. simpl. apply app_nil_r.
  - rewrite skipn_app, Nat.sub_diag, skipn_all. reflexivity.
Qed.

Lemma deframe_incomplete t : incomplete t -> deframe t = [].
Proof.
  intros [H|(h & l & rest & -> & H)]; [apply deframe_short; exact H|].
  rewrite deframe_cons.
  assert (E : (N.to_nat (h * 256 + l) <=? length rest) = false) by (apply Nat.leb_gt; lia).
  rewrite E. reflexivity.
Qed.

(* the relation determines the message list: the executable deframer computes it *)
Lemma framed_deframe ms t s : framed ms t s -> deframe s = ms.
Proof.
  induction 1 as [t Ht|m ms t s Hm _ IH].
  - apply deframe_incomplete; exact Ht.
  - rewrite deframe_frame, IH. reflexivity.
Qed.

Lemma frame_of_split h l rest :
  is_octet h -> is_octet l -> N.to_nat (h * 256 + l) <= length rest ->
  h :: l :: rest = frame (firstn (N.to_nat (h * 256 + l)) rest) ++ skipn (N.to_nat (h * 256 + l)) rest.
Proof.
  unfold is_octet. intros Hh Hl Hlen. unfold frame. cbn [app].
  rewrite firstn_length, Nat.min_l by exact Hlen.
  set (L := N.to_nat (h * 256 + l)).
  assert (E1 : N.of_nat (L / 256) = h).
  { unfold L. assert (Nat.div (N.to_nat (h * 256 + l)) 256 = N.to_nat h).
    { replace (N.to_nat (h * 256 + l)) with (N.to_nat l + N.to_nat h * 256) by lia.
      rewrite Nat.div_add by lia. rewrite Nat.div_small by lia. lia. }
    rewrite H. apply N2Nat.id. }
  assert (E2 : N.of_nat (L mod 256) = l).
  { unfold L. assert (Nat.modulo (N.to_nat (h * 256 + l)) 256 = N.to_nat l).
    { replace (N.to_nat (h * 256 + l)) with (N.to_nat l + N.to_nat h * 256) by lia.
      rewrite Nat.mod_add by lia. apply Nat.mod_small. lia. }
    rewrite H. apply N2Nat.id. }
  rewrite E1, E2, firstn_skipn. reflexivity.
Qed.

(* ... and every well-formed stream is framed (by exactly the deframer's messages) *)
Lemma deframe_framed : forall n s, length s <= n -> wf_bytes s -> exists t, framed (deframe s) t s.
Proof.
  induction n as [|n IH]; intros s Hn Hwf.
  - destruct s; [|simpl in Hn; lia]. exists []. rewrite deframe_short by (simpl; lia).
    constructor. left. simpl. lia.
  - destruct s as [|h [|l rest]].
    + exists []. rewrite deframe_short by (simpl; lia). constructor. left. simpl. lia.
    + exists [h]. rewrite deframe_short by (simpl; lia). constructor. left. simpl. lia.
    + rewrite deframe_cons.
      destruct (N.to_nat (h * 256 + l) <=? length rest) eqn:E.
      * apply Nat.leb_le in E.
        inversion Hwf as [|? ? Hh Hwf1]; subst. inversion Hwf1 as [|? ? Hl Hwf2]; subst.
        destruct (IH (skipn (N.to_nat (h * 256 + l)) rest)) as [t Ht].
        { rewrite skipn_length. simpl in Hn. lia. }
        { apply Forall_forall. intros x Hx. apply In_skipn in Hx.
          rewrite Forall_forall in Hwf2. auto. }
        exists t. rewrite (frame_of_split h l rest Hh Hl E).
        constructor; [|exact Ht].
        rewrite firstn_length, Nat.min_l by exact E. unfold is_octet in *. lia.
      * apply Nat.leb_gt in E. exists (h :: l :: rest). constructor. right.
        exists h, l, rest. split; [reflexivity|exact E].
Qed.

Lemma deframe_iff s ms : wf_bytes s -> (deframe s = ms <-> exists t, framed ms t s).
Proof.
  intros Hwf. split.
  - intros <-. apply (deframe_framed (length s)); auto.
  - intros [t H]. eapply framed_deframe; eauto.
Qed.

(* the concatenation of complete frames is framed with an empty tail *)
Lemma framed_frame_all ms :
  Forall (fun m => (N.of_nat (length m) < 65536)%N) ms -> framed ms [] (frame_all ms).
Proof.
  induction 1 as [|m ms Hm _ IH]; unfold frame_all; cbn [map concat].
  - constructor. left. simpl. lia.
  - constructor; assumption.
Qed.

Lemma wf_frame m : wf_bytes m -> (N.of_nat (length m) < 65536)%N -> wf_bytes (frame m).
Proof.
  intros Hwf Hlen. unfold frame. cbn [app]. constructor; [|constructor; [|exact Hwf]]; unfold is_octet.
  - assert (length m / 256 < 256).
    { apply Nat.div_lt_upper_bound; lia. }
    lia.
  - pose proof (Nat.mod_upper_bound (length m) 256). lia.
Qed.

Lemma wf_frame_all ms :
  Forall wf_bytes ms -> Forall (fun m => (N.of_nat (length m) < 65536)%N) ms -> wf_bytes (frame_all ms).
Proof.
  intros H1 H2. unfold frame_all. induction ms as [|m ms IH]; cbn [map concat]; [constructor|].
  inversion H1; inversion H2; subst. unfold wf_bytes. apply Forall_app. split; [apply wf_frame; auto|apply IH; auto].
Qed.

Section Service.
  Variable handler : bytes -> option bytes.

  Lemma service_nil e : service handler [] e = ([], e).
  Proof. reflexivity. Qed.

  Lemma service_cons_none m ms e : handler m = None -> service handler (m :: ms) e = ([], EndNoResponse).
  Proof. intros H. unfold service, all_answered. simpl. rewrite H. reflexivity. Qed.

  Lemma service_cons_some m ms e r : handler m = Some r ->
    service handler (m :: ms) e = (frame r :: fst (service handler ms e), snd (service handler ms e)).
  Proof. intros H. unfold service, all_answered. simpl. rewrite H. reflexivity. Qed.

  (* closing right after the first response-less request *)
  Lemma service_close_after_none pre m post e :
    all_answered handler pre = true -> handler m = None ->
    service handler (pre ++ m :: post) e = (fst (service handler pre e), EndNoResponse).
  Proof.
    intros Hpre Hm. induction pre as [|p pre IH].
    - simpl. rewrite service_cons_none by exact Hm. reflexivity.
    - simpl in Hpre. destruct (handler p) as [r|] eqn:Hp; [|discriminate].
      simpl app. rewrite (service_cons_some p _ e r Hp), (service_cons_some p pre e r Hp), IH by exact Hpre.
      reflexivity.
  Qed.

  Lemma service_all_answered ms e :
    all_answered handler ms = true ->
    length (fst (service handler ms e)) = length ms /\ snd (service handler ms e) = e.
  Proof.
    intros H. split.
    - induction ms as [|m ms IH]; [reflexivity|]. simpl in H.
      destruct (handler m) as [r|] eqn:Hm; [|discriminate].
      rewrite (service_cons_some m ms e r Hm). simpl. f_equal. apply IH. exact H.
    - unfold service. simpl. rewrite H. reflexivity.
  Qed.
End Service.
