(* Preservation of [Inv]: shut_down (group, pool), await_shutdown, spurious wake-ups, timers. *)
From Coq Require Import Lia Permutation.
From QV Require Import Model.Pool Proofs.PoolLemmas Proofs.PoolInv.

Lemma inv_sdg s i s' : Inv s -> step true s (LSdG i) = Some s' -> Inv s'.
Proof.
  intros I H. simpl in H.
  destruct (glock s) eqn:Egl; [discriminate|].
  destruct (nth_error (thr s) i) as [[]|] eqn:E; try discriminate.
  open_inv I.
  destruct (reg s) eqn:Ereg; inversion H; subst s'; clear H.
  - inv_case HT HS.
  - pose proof (nth_na_other on_sd _ _ _ E eq_refl) as E2. inv_case HT HS.
Qed.

Lemma inv_sdp s i s' : Inv s -> step true s (LSdP i) = Some s' -> Inv s'.
Proof.
  intros I H. simpl in H.
  destruct (nth_error (thr s) i) as [[]|] eqn:E; try discriminate.
  open_inv I. nth_facts E. simpl in *.
  inversion H; subst s'; clear H.
  pose proof (nth_na_other on_task _ _ _ E eq_refl) as E2.
  pose proof (nth_na_other on_avail _ _ _ E2 eq_refl) as E3.
  pose proof (nth_na_other on_sd _ _ _ E3 eq_refl) as E4.
  destruct (glock s) eqn:Egl; [|exfalso; simpl in *; lia].
  inv_case HT HS.
Qed.

Lemma inv_psd1 s i s' : Inv s -> step true s (LPsd1 i) = Some s' -> Inv s'.
Proof.
  intros I H. simpl in H.
  destruct (glock s) eqn:Egl; [discriminate|].
  destruct (nth_error (thr s) i) as [[]|] eqn:E; try discriminate.
  open_inv I. inversion H; subst s'; clear H. inv_case HT HS.
Qed.

Lemma inv_psd2 s i s' : Inv s -> step true s (LPsd2 i) = Some s' -> Inv s'.
Proof.
  intros I H. simpl in H.
  destruct (nth_error (thr s) i) as [[]|] eqn:E; try discriminate.
  open_inv I. nth_facts E. simpl in *. inversion H; subst s'; clear H.
  pose proof (nth_na_other on_task _ _ _ E eq_refl) as E2.
  pose proof (nth_na_other on_avail _ _ _ E2 eq_refl) as E3.
  destruct (glock s) eqn:Egl; [|exfalso; simpl in *; lia].
  inv_case HT HS.
Qed.

Lemma inv_await s i o s' : Inv s -> step true s (LAwait i o) = Some s' -> Inv s'.
Proof.
  intros I H. simpl in H.
  destruct (glock s) eqn:Egl; [discriminate|].
  open_inv I.
  destruct (nth_error (thr s) i) as [[]|] eqn:E; try discriminate;
    (destruct (gsd s && (tcount s =? 0)) eqn:Eg;
     [apply andb_true_iff in Eg; destruct Eg as [Eg1 Eg2]; apply Nat.eqb_eq in Eg2
     |apply andb_false_iff in Eg; rewrite Nat.eqb_neq in Eg];
     destruct o; try discriminate; inversion H; subst s'; clear H; inv_case HT HS).
Qed.

Lemma inv_spurious s i s' : Inv s -> step true s (LSpurious i) = Some s' -> Inv s'.
Proof.
  intros I H. simpl in H.
  destruct (nth_error (thr s) i) as [pi|] eqn:E; [|discriminate].
  open_inv I.
  destruct pi; simpl in H; try discriminate; inversion H; subst s'; clear H; inv_case HT HS.
Qed.

Lemma inv_timer s i s' : Inv s -> step true s (LTimer i) = Some s' -> Inv s'.
Proof.
  intros I H. simpl in H.
  destruct (nth_error (thr s) i) as [pi|] eqn:E; [|discriminate].
  open_inv I.
  destruct pi as [| | | | |[]|[] []| | | | | | | | | | | | | | |]; simpl in H; try discriminate;
    inversion H; subst s'; clear H; inv_case HT HS.
Qed.
