(* Proofs about Model/CodeText.v against Spec/CodeTextS.v. *)
From QV Require Import Base.ListX Model.DecU16 Model.CodeText Spec.CodeTextS Proofs.DecU16P.
Local Open Scope N_scope.

(* ---- caseless comparison ----------------------------------------------------------- *)

Lemma bytes_eqb_eq a : forall b, bytes_eqb a b = true <-> a = b.
Proof.
  induction a as [|x a IH]; intros [|y b]; cbn; try (split; [discriminate|congruence]).
  - tauto.
  - rewrite andb_true_iff, N.eqb_eq, IH. split; [intros [-> ->]; reflexivity|intros H; inversion H; auto].
Qed.

Lemma bytes_eqb_refl a : bytes_eqb a a = true.
Proof. apply bytes_eqb_eq. reflexivity. Qed.

Lemma eq_nocase_spec a : forall b, eq_nocase a b = bytes_eqb (lower_str a) (lower_str b).
Proof.
  induction a as [|x a IH]; intros [|y b]; cbn; try reflexivity.
  rewrite IH. reflexivity.
Qed.

Lemma eq_nocase_iff a b : eq_nocase a b = true <-> lower_str a = lower_str b.
Proof. rewrite eq_nocase_spec. apply bytes_eqb_eq. Qed.

Lemma starts_with_app p d : starts_with (p ++ d) p = true.
Proof. induction p as [|x p IH]; [destruct d; reflexivity|]. cbn. rewrite N.eqb_refl. exact IH. Qed.

Lemma starts_with_length s p : starts_with s p = true -> (length p <= length s)%nat.
Proof.
  revert s. induction p as [|y p IH]; intros s H; [cbn; lia|].
  destruct s as [|x s]; [discriminate|]. cbn in H. apply andb_true_iff in H. destruct H as [_ H].
  apply IH in H. cbn. lia.
Qed.

(* prefix.eq_ignore_ascii_case(WORD) on text[0..len WORD] is "the lower-cased text starts with the
   lower-cased word" *)
Lemma eq_nocase_firstn p : forall text,
  eq_nocase (firstn (length p) text) p = starts_with (lower_str text) (lower_str p).
Proof.
  induction p as [|y p IH]; intros text.
  - cbn. destruct (lower_str text); reflexivity.
  - destruct text as [|x t]; [reflexivity|]. cbn. rewrite IH. reflexivity.
Qed.

Lemma lower_str_length s : length (lower_str s) = length s.
Proof. apply map_length. Qed.

Lemma lower_str_app a b : lower_str (a ++ b) = lower_str a ++ lower_str b.
Proof. apply map_app. Qed.

(* ---- the arms are a first-match lookup ----------------------------------------------- *)

Lemma match_arms_lookup text arms : match_arms eq_nocase text arms = lookup_mnemonic arms text.
Proof.
  unfold lookup_mnemonic. induction arms as [|[m v] r IH]; [reflexivity|].
  cbn [match_arms find fst snd]. rewrite eq_nocase_spec.
  destruct (bytes_eqb (lower_str text) (lower_str m)); [reflexivity|exact IH].
Qed.

Lemma lookup_app a b s :
  lookup_mnemonic (a ++ b) s = match lookup_mnemonic a s with Some v => Some v | None => lookup_mnemonic b s end.
Proof.
  unfold lookup_mnemonic. induction a as [|e a IH]; [reflexivity|].
  cbn [app find]. destruct (bytes_eqb (lower_str s) (lower_str (fst e))); [reflexivity|exact IH].
Qed.

Lemma lookup_lower table s s' : lower_str s = lower_str s' -> lookup_mnemonic table s = lookup_mnemonic table s'.
Proof. intros H. unfold lookup_mnemonic. rewrite H. reflexivity. Qed.

Lemma lookup_some_in table s v : lookup_mnemonic table s = Some v ->
  exists m, In (m, v) table /\ lower_str s = lower_str m.
Proof.
  unfold lookup_mnemonic. destruct (find _ table) as [[m v']|] eqn:E; [|discriminate].
  intros H. inversion H; subst. apply find_some in E. destruct E as [Hin Heq].
  exists m. split; [exact Hin|]. apply bytes_eqb_eq. exact Heq.
Qed.

(* a text that begins (caselessly) with WORD is no mnemonic of a table none of whose
   mnemonics begins with WORD *)
Definition no_word_prefix (word : bytes) (table : list (bytes * N)) : bool :=
  forallb (fun e => negb (starts_with (lower_str (fst e)) (lower_str word))) table.

Lemma lookup_generic_none word table p d :
  no_word_prefix word table = true -> lower_str p = lower_str word ->
  lookup_mnemonic table (p ++ d) = None.
Proof.
  intros Hno Hp. destruct (lookup_mnemonic table (p ++ d)) as [v|] eqn:E; [|reflexivity].
  apply lookup_some_in in E. destruct E as (m & Hin & Hm).
  unfold no_word_prefix in Hno. rewrite forallb_forall in Hno. specialize (Hno _ Hin). cbn [fst] in Hno.
  rewrite <- Hm, lower_str_app, Hp, starts_with_app in Hno. discriminate.
Qed.

(* ---- the generic RFC 3597 branch --------------------------------------------------- *)

Lemma nth_error_skipn_cons {A} (l : list A) n b : nth_error l n = Some b -> skipn n l = b :: skipn (S n) l.
Proof.
  revert l. induction n as [|n IH]; intros [|x l] H; try discriminate.
  - cbn in H. inversion H. reflexivity.
  - cbn in H. cbn [skipn]. apply IH in H. exact H.
Qed.

Lemma generic_from_str_spec prefix text v :
  generic_from_str (length prefix) prefix (length prefix) text = Ok v <->
  starts_with (lower_str text) (lower_str prefix) = true /\
  spec_number true (skipn (length prefix) text) = Some v.
Proof.
  unfold generic_from_str. set (n := length prefix).
  destruct (is_char_boundary text n) eqn:Eb.
  - unfold n at 1. rewrite eq_nocase_firstn. fold n.
    destruct (starts_with (lower_str text) (lower_str prefix)).
    + destruct (u16_from_str (skipn n text)) as [w|e|] eqn:Eu.
      * apply u16_from_str_spec in Eu. rewrite Eu. split.
        -- intros H. inversion H; subst. auto.
        -- intros [_ H]. congruence.
      * split; [discriminate|]. intros [_ H]. apply u16_from_str_spec in H. congruence.
      * exfalso. exact (uint_from_str_no_panic _ _ Eu).
    + split; [discriminate|]. intros [H _]. discriminate.
  - split; [discriminate|]. intros [Hs Hn]. exfalso.
    unfold is_char_boundary in Eb. destruct (n =? 0)%nat; [discriminate|].
    destruct (nth_error text n) as [b|] eqn:En.
    + rewrite (nth_error_skipn_cons _ _ _ En) in Hn.
      apply negb_false_iff, andb_true_iff in Eb. destruct Eb as [E1 E2].
      apply N.leb_le in E1. apply N.ltb_lt in E2.
      rewrite spec_number_bad_head in Hn; [discriminate|lia|].
      destruct (is_dec_digit b) eqn:Ed; [|reflexivity]. apply is_dec_digit_spec in Ed. lia.
    + apply nth_error_None in En. apply Nat.eqb_neq in Eb.
      apply starts_with_length in Hs. rewrite !lower_str_length in Hs. fold n in Hs. lia.
Qed.

Lemma generic_from_str_no_panic prefix text :
  generic_from_str (length prefix) prefix (length prefix) text <> Panic.
Proof.
  unfold generic_from_str. destruct (is_char_boundary text (length prefix)); [|discriminate].
  destruct (eq_nocase _ _); [|discriminate].
  destruct (u16_from_str _) eqn:E; try discriminate. exfalso. exact (uint_from_str_no_panic _ _ E).
Qed.

(* ---- parsers = the lenient reading of the spec -------------------------------------- *)

Lemma arms_generic_spec arms prefix text v :
  arms_then eq_nocase arms (generic_from_str (length prefix) prefix (length prefix)) text = Ok v <->
  spec_code arms prefix true text = Some v.
Proof.
  unfold arms_then, spec_code. rewrite match_arms_lookup.
  destruct (lookup_mnemonic arms text) as [w|].
  - split; intros H; inversion H; reflexivity.
  - rewrite generic_from_str_spec.
    destruct (starts_with (lower_str text) (lower_str prefix)).
    + tauto.
    + split; [intros [H _]; discriminate|discriminate].
Qed.

Lemma type_generic_eq : type_generic = generic_from_str (length word_type) word_type (length word_type).
Proof. reflexivity. Qed.
Lemma class_generic_eq : class_generic = generic_from_str (length word_class) word_class (length word_class).
Proof. reflexivity. Qed.
(* the implementation's tables are the RFC's *)
Lemma type_arms_rfc : type_parse_arms = rfc_types. Proof. reflexivity. Qed.
Lemma class_arms_rfc : class_parse_arms = rfc_classes. Proof. reflexivity. Qed.
Lemma qtype_arms_rfc : qtype_parse_arms = rfc_qtypes_only. Proof. reflexivity. Qed.
Lemma qclass_arms_rfc : qclass_parse_arms = rfc_qclasses_only. Proof. reflexivity. Qed.

Lemma type_from_str_exact s v : type_from_str s = Ok v <-> spec_type true s = Some v.
Proof. unfold type_from_str. rewrite type_generic_eq, type_arms_rfc. apply arms_generic_spec. Qed.

Lemma class_from_str_exact s v : class_from_str s = Ok v <-> spec_class true s = Some v.
Proof. unfold class_from_str. rewrite class_generic_eq, class_arms_rfc. apply arms_generic_spec. Qed.

Lemma spec_code_app a b word lenient s :
  spec_code (a ++ b) word lenient s =
  match lookup_mnemonic a s with Some v => Some v | None => spec_code b word lenient s end.
Proof. unfold spec_code. rewrite lookup_app. destruct (lookup_mnemonic a s); reflexivity. Qed.

Lemma qtype_from_str_exact s v : qtype_from_str s = Ok v <-> spec_qtype true s = Some v.
Proof.
  unfold qtype_from_str, spec_qtype, arms_then. rewrite spec_code_app, match_arms_lookup, qtype_arms_rfc.
  destruct (lookup_mnemonic rfc_qtypes_only s).
  - split; intros H; inversion H; reflexivity.
  - apply type_from_str_exact.
Qed.

Lemma qclass_from_str_exact s v : qclass_from_str s = Ok v <-> spec_qclass true s = Some v.
Proof.
  unfold qclass_from_str, spec_qclass, arms_then. rewrite spec_code_app, match_arms_lookup, qclass_arms_rfc.
  destruct (lookup_mnemonic rfc_qclasses_only s).
  - split; intros H; inversion H; reflexivity.
  - apply class_from_str_exact.
Qed.

Lemma spec_code_strict_lenient table word s v :
  spec_code table word false s = Some v -> spec_code table word true s = Some v.
Proof.
  unfold spec_code. destruct (lookup_mnemonic table s); [auto|].
  destruct (starts_with _ _); [|auto]. apply spec_number_strict_lenient.
Qed.

(* ---- no panics ------------------------------------------------------------------------ *)

Lemma arms_then_no_panic arms rest text :
  (forall t, rest t <> Panic) -> arms_then (E := code_err) eq_nocase arms rest text <> Panic.
Proof. intros H. unfold arms_then. destruct (match_arms _ _ _); [discriminate|apply H]. Qed.

Lemma type_from_str_no_panic s : type_from_str s <> Panic.
Proof. apply arms_then_no_panic. intros t. rewrite type_generic_eq. apply generic_from_str_no_panic. Qed.
Lemma class_from_str_no_panic s : class_from_str s <> Panic.
Proof. apply arms_then_no_panic. intros t. rewrite class_generic_eq. apply generic_from_str_no_panic. Qed.
Lemma qtype_from_str_no_panic s : qtype_from_str s <> Panic.
Proof. apply arms_then_no_panic. apply type_from_str_no_panic. Qed.
Lemma qclass_from_str_no_panic s : qclass_from_str s <> Panic.
Proof. apply arms_then_no_panic. apply class_from_str_no_panic. Qed.

(* ---- WORDnnn denotes nnn --------------------------------------------------------------- *)

Lemma lower_str_eq_length a b : lower_str a = lower_str b -> length a = length b.
Proof. intros H. rewrite <- (lower_str_length a), H. apply lower_str_length. Qed.

Lemma skipn_app_exact {A} (a b : list A) n : n = length a -> skipn n (a ++ b) = b.
Proof. intros ->. rewrite skipn_app, skipn_all, Nat.sub_diag. reflexivity. Qed.

Lemma spec_code_generic table word lenient p k v :
  no_word_prefix word table = true -> lower_str p = lower_str word -> v < 65536 ->
  spec_code table word lenient (p ++ repeat 48 k ++ u16_display v) = Some v.
Proof.
  intros Hno Hp Hv. unfold spec_code. rewrite (lookup_generic_none word) by assumption.
  rewrite lower_str_app, Hp, starts_with_app.
  rewrite skipn_app_exact by (symmetry; apply lower_str_eq_length; exact Hp).
  apply spec_number_zeros. exact Hv.
Qed.

(* ---- what is rendered denotes the value ------------------------------------------------ *)

Definition opt_eqb (a b : option N) : bool :=
  match a, b with Some x, Some y => x =? y | None, None => true | _, _ => false end.

Lemma opt_eqb_eq a b : opt_eqb a b = true -> a = b.
Proof. destruct a, b; cbn; try discriminate; auto. intros H. apply N.eqb_eq in H. congruence. Qed.

(* every Display arm writes a mnemonic that the RFC table maps back to the arm's value *)
Definition display_arms_ok (table : list (bytes * N)) (arms : list (N * bytes)) : bool :=
  forallb (fun a => opt_eqb (lookup_mnemonic table (snd a)) (Some (fst a))) arms.

Lemma display_arm_in v arms m : display_arm v arms = Some m -> In (v, m) arms.
Proof.
  induction arms as [|[c s] r IH]; [discriminate|]. cbn [display_arm].
  destruct (c =? v) eqn:E.
  - apply N.eqb_eq in E. intros H. inversion H; subst. left. reflexivity.
  - intros H. right. apply IH. exact H.
Qed.

Lemma arm_or_denotes table word arms rest v :
  display_arms_ok table arms = true ->
  (display_arm v arms = None -> spec_code table word false (rest v) = Some v) ->
  spec_code table word false (arm_or arms rest v) = Some v.
Proof.
  intros Hok Hrest. unfold arm_or. destruct (display_arm v arms) as [m|] eqn:E; [|auto].
  apply display_arm_in in E. unfold display_arms_ok in Hok. rewrite forallb_forall in Hok.
  specialize (Hok _ E). cbn [fst snd] in Hok. apply opt_eqb_eq in Hok.
  unfold spec_code. rewrite Hok. reflexivity.
Qed.

Lemma generic_text_denotes table word v : no_word_prefix word table = true -> v < 65536 ->
  spec_code table word false (word ++ u16_display v) = Some v.
Proof. intros Hno Hv. apply (spec_code_generic table word false word 0 v Hno eq_refl Hv). Qed.

Lemma type_display_denotes v : v < 65536 -> spec_type false (type_to_string v) = Some v.
Proof.
  intros Hv. unfold spec_type, type_to_string. apply arm_or_denotes; [vm_compute; reflexivity|].
  intros _. apply (generic_text_denotes rfc_types word_type v); [vm_compute; reflexivity|exact Hv].
Qed.

Lemma class_display_denotes v : v < 65536 -> spec_class false (class_to_string v) = Some v.
Proof.
  intros Hv. unfold spec_class, class_to_string. apply arm_or_denotes; [vm_compute; reflexivity|].
  intros _. apply (generic_text_denotes rfc_classes word_class v); [vm_compute; reflexivity|exact Hv].
Qed.

Lemma qtype_display_denotes v : v < 65536 -> spec_qtype false (qtype_to_string v) = Some v.
Proof.
  intros Hv. unfold spec_qtype, qtype_to_string. apply arm_or_denotes; [vm_compute; reflexivity|].
  intros _. unfold type_to_string. apply arm_or_denotes; [vm_compute; reflexivity|].
  intros _. apply (generic_text_denotes (rfc_qtypes_only ++ rfc_types) word_type v); [vm_compute; reflexivity|exact Hv].
Qed.

Lemma qclass_display_denotes v : v < 65536 -> spec_qclass false (qclass_to_string v) = Some v.
Proof.
  intros Hv. unfold spec_qclass, qclass_to_string. apply arm_or_denotes; [vm_compute; reflexivity|].
  intros _. unfold class_to_string. apply arm_or_denotes; [vm_compute; reflexivity|].
  intros _. apply (generic_text_denotes (rfc_qclasses_only ++ rfc_classes) word_class v); [vm_compute; reflexivity|exact Hv].
Qed.

(* ---- round trips ------------------------------------------------------------------------- *)

Lemma type_roundtrip v : v < 65536 -> type_from_str (type_to_string v) = Ok v.
Proof. intros Hv. apply type_from_str_exact, spec_code_strict_lenient, type_display_denotes, Hv. Qed.
Lemma class_roundtrip v : v < 65536 -> class_from_str (class_to_string v) = Ok v.
Proof. intros Hv. apply class_from_str_exact, spec_code_strict_lenient, class_display_denotes, Hv. Qed.
Lemma qtype_roundtrip v : v < 65536 -> qtype_from_str (qtype_to_string v) = Ok v.
Proof. intros Hv. apply qtype_from_str_exact, spec_code_strict_lenient, qtype_display_denotes, Hv. Qed.
Lemma qclass_roundtrip v : v < 65536 -> qclass_from_str (qclass_to_string v) = Ok v.
Proof. intros Hv. apply qclass_from_str_exact, spec_code_strict_lenient, qclass_display_denotes, Hv. Qed.

(* every text the RFC reading accepts is accepted with the same value, by every parser *)
Lemma accepts_rfc_forms s v :
  (spec_type false s = Some v -> type_from_str s = Ok v) /\
  (spec_class false s = Some v -> class_from_str s = Ok v) /\
  (spec_qtype false s = Some v -> qtype_from_str s = Ok v) /\
  (spec_qclass false s = Some v -> qclass_from_str s = Ok v).
Proof.
  repeat split; intros H.
  - apply type_from_str_exact, spec_code_strict_lenient, H.
  - apply class_from_str_exact, spec_code_strict_lenient, H.
  - apply qtype_from_str_exact, spec_code_strict_lenient, H.
  - apply qclass_from_str_exact, spec_code_strict_lenient, H.
Qed.

(* ---- mnemonics in any letter case ------------------------------------------------------- *)

(* no entry of the table is shadowed by an earlier one that differs only in case but carries another value *)
Definition table_consistent (table : list (bytes * N)) : bool :=
  forallb (fun e => opt_eqb (lookup_mnemonic table (fst e)) (Some (snd e))) table.

Lemma mnemonic_case_spec table word lenient m v s :
  table_consistent table = true -> In (m, v) table -> lower_str s = lower_str m ->
  spec_code table word lenient s = Some v.
Proof.
  intros Hc Hin Hs. unfold spec_code. rewrite (lookup_lower table s m Hs).
  unfold table_consistent in Hc. rewrite forallb_forall in Hc. specialize (Hc _ Hin). cbn [fst snd] in Hc.
  apply opt_eqb_eq in Hc. rewrite Hc. reflexivity.
Qed.

Lemma type_mnemonic_case m v s : In (m, v) type_parse_arms -> lower_str s = lower_str m -> type_from_str s = Ok v.
Proof.
  intros Hin Hs. apply type_from_str_exact. rewrite type_arms_rfc in Hin.
  apply (mnemonic_case_spec rfc_types word_type true m v s); [vm_compute; reflexivity|exact Hin|exact Hs].
Qed.

Lemma class_mnemonic_case m v s : In (m, v) class_parse_arms -> lower_str s = lower_str m -> class_from_str s = Ok v.
Proof.
  intros Hin Hs. apply class_from_str_exact. rewrite class_arms_rfc in Hin.
  apply (mnemonic_case_spec rfc_classes word_class true m v s); [vm_compute; reflexivity|exact Hin|exact Hs].
Qed.

Lemma qtype_mnemonic_case m v s : In (m, v) (qtype_parse_arms ++ type_parse_arms) -> lower_str s = lower_str m ->
  qtype_from_str s = Ok v.
Proof.
  intros Hin Hs. apply qtype_from_str_exact. rewrite qtype_arms_rfc, type_arms_rfc in Hin.
  apply (mnemonic_case_spec (rfc_qtypes_only ++ rfc_types) word_type true m v s); [vm_compute; reflexivity|exact Hin|exact Hs].
Qed.

Lemma qclass_mnemonic_case m v s : In (m, v) (qclass_parse_arms ++ class_parse_arms) -> lower_str s = lower_str m ->
  qclass_from_str s = Ok v.
Proof.
  intros Hin Hs. apply qclass_from_str_exact. rewrite qclass_arms_rfc, class_arms_rfc in Hin.
  apply (mnemonic_case_spec (rfc_qclasses_only ++ rfc_classes) word_class true m v s); [vm_compute; reflexivity|exact Hin|exact Hs].
Qed.

(* ---- TYPEnnn / CLASSnnn for every value, any case of the word, any number of leading zeros -- *)

Lemma type_generic_form p k v : lower_str p = lower_str word_type -> v < 65536 ->
  type_from_str (p ++ repeat 48 k ++ u16_display v) = Ok v.
Proof.
  intros Hp Hv. apply type_from_str_exact.
  apply (spec_code_generic rfc_types word_type true p k v); [vm_compute; reflexivity|exact Hp|exact Hv].
Qed.

Lemma class_generic_form p k v : lower_str p = lower_str word_class -> v < 65536 ->
  class_from_str (p ++ repeat 48 k ++ u16_display v) = Ok v.
Proof.
  intros Hp Hv. apply class_from_str_exact.
  apply (spec_code_generic rfc_classes word_class true p k v); [vm_compute; reflexivity|exact Hp|exact Hv].
Qed.

Lemma qtype_generic_form p k v : lower_str p = lower_str word_type -> v < 65536 ->
  qtype_from_str (p ++ repeat 48 k ++ u16_display v) = Ok v.
Proof.
  intros Hp Hv. apply qtype_from_str_exact.
  apply (spec_code_generic (rfc_qtypes_only ++ rfc_types) word_type true p k v); [vm_compute; reflexivity|exact Hp|exact Hv].
Qed.

Lemma qclass_generic_form p k v : lower_str p = lower_str word_class -> v < 65536 ->
  qclass_from_str (p ++ repeat 48 k ++ u16_display v) = Ok v.
Proof.
  intros Hp Hv. apply qclass_from_str_exact.
  apply (spec_code_generic (rfc_qclasses_only ++ rfc_classes) word_class true p k v); [vm_compute; reflexivity|exact Hp|exact Hv].
Qed.

(* ---- 4-bit codes ---------------------------------------------------------------------------- *)

Lemma opcode_try_from_spec v c : opcode_try_from v = Ok c <-> v < 16 /\ c = v.
Proof.
  unfold opcode_try_from. change opcode_bound with 16. destruct (v <? 16) eqn:E.
  - apply N.ltb_lt in E. split; [intros H; inversion H; subst; auto|intros [_ ->]; reflexivity].
  - apply N.ltb_ge in E. split; [discriminate|intros [H _]; lia].
Qed.

Lemma rcode_try_from_spec v c : rcode_try_from v = Ok c <-> v < 16 /\ c = v.
Proof.
  unfold rcode_try_from. change rcode_bound with 16. destruct (v <? 16) eqn:E.
  - apply N.ltb_lt in E. split; [intros H; inversion H; subst; auto|intros [_ ->]; reflexivity].
  - apply N.ltb_ge in E. split; [discriminate|intros [H _]; lia].
Qed.

Lemma rcode_try_from_ext_spec e c : rcode_try_from_ext e = Ok c <-> e < 16 /\ c = e.
Proof.
  unfold rcode_try_from_ext. change rcode_ext_bound with 16. destruct (e <? 16) eqn:E.
  - apply N.ltb_lt in E. rewrite N.mod_small by lia.
    split; [intros H; inversion H; subst; auto|intros [_ ->]; reflexivity].
  - apply N.ltb_ge in E. split; [discriminate|intros [H _]; lia].
Qed.

Lemma try_from_total v :
  opcode_try_from v <> Panic /\ rcode_try_from v <> Panic /\ rcode_try_from_ext v <> Panic.
Proof.
  unfold opcode_try_from, rcode_try_from, rcode_try_from_ext.
  destruct (v <? opcode_bound), (v <? rcode_bound), (v <? rcode_ext_bound); repeat split; discriminate.
Qed.

(* the extended RCODE of an RCODE converts back to it *)
Lemma rcode_ext_roundtrip r : r < 16 -> rcode_try_from_ext (ercode_from_rcode r) = Ok r.
Proof. intros H. apply rcode_try_from_ext_spec. auto. Qed.

(* ---- pre-fix regression ------------------------------------------------------------------- *)

Lemma prefix_rejects_lowercase : type_from_str_prefix [97] = Err UnknownCode /\ type_from_str [97] = Ok 1.
Proof. split; vm_compute; reflexivity. Qed.
