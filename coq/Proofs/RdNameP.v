(* Name facts used by the RDATA proofs: the generative description of an
   uncompressed name (wire_of ls with valid labels) against the C14 decoding
   relation, and what the model's three name entry points return in terms of the
   executable spec decoder. *)
From QV Require Import Base.ListX Model.NameWire Spec.NameWireS Spec.NameRepr
  Proofs.NameWireP Proofs.NameWireSP Model.RdataM Spec.RdataFormatS.
Local Open Scope nat_scope.

Lemma decodes_labels_valid b cs i ls e : decodes b cs i ls e -> Forall valid_label ls.
Proof.
  induction 1 as [cs i H | cs i len rest e H Hp Hl Hb Hd IH | cs i hi lo rest e' H Hh Hlo Ht Hd IH]; auto.
  constructor; auto. unfold valid_label. rewrite slice_length by lia. lia.
Qed.

Lemma skipn_app_exact {A} (a b : list A) n : n = length a -> skipn n (a ++ b) = b.
Proof. intros ->. rewrite skipn_app, skipn_all, Nat.sub_diag. reflexivity. Qed.

Lemma firstn_app_exact {A} (a b : list A) n : n = length a -> firstn n (a ++ b) = a.
Proof. intros ->. rewrite firstn_app, firstn_all, Nat.sub_diag. simpl. apply app_nil_r. Qed.

Lemma nth_error_app_at {A} (pre : list A) x post : nth_error (pre ++ x :: post) (length pre) = Some x.
Proof. rewrite nth_error_app2 by lia. rewrite Nat.sub_diag. reflexivity. Qed.

Lemma slice_app_mid {A} (pre mid post : list A) a b :
  a = length pre -> b = length pre + length mid -> slice (pre ++ mid ++ post) a b = mid.
Proof.
  intros -> ->. unfold slice. rewrite skipn_app_exact by reflexivity.
  apply firstn_app_exact. lia.
Qed.

(* the encoding of a valid name decodes to that name, wherever it sits *)
Lemma decodes_of_wire ls : Forall valid_label ls -> forall pre post cs,
  decodes (pre ++ wire_of ls ++ post) cs (length pre) ls (length pre + wire_len ls).
Proof.
  induction ls as [|l ls IH]; intros Hv pre post cs.
  - change (wire_of []) with [0%N]. unfold wire_len. simpl length.
    apply dec_root. simpl. apply nth_error_app_at.
  - inversion Hv as [|? ? [Hl1 Hl2] Hv']; subst.
    rewrite wire_len_cons, wire_of_cons.
    set (b := pre ++ (N.of_nat (length l) :: l ++ wire_of ls) ++ post).
    assert (Hb : b = (pre ++ N.of_nat (length l) :: l) ++ wire_of ls ++ post).
    { unfold b. rewrite <- !app_assoc. simpl. rewrite <- app_assoc. reflexivity. }
    assert (Hsl : slice b (length pre + 1) (length pre + 1 + N.to_nat (N.of_nat (length l))) = l).
    { rewrite Nat2N.id. unfold b.
      replace (pre ++ (N.of_nat (length l) :: l ++ wire_of ls) ++ post)
        with ((pre ++ [N.of_nat (length l)]) ++ l ++ (wire_of ls ++ post))
        by (rewrite <- !app_assoc; simpl; rewrite <- app_assoc; reflexivity).
      apply slice_app_mid; rewrite app_length; simpl; lia. }
    rewrite <- Hsl at 1.
    apply dec_label.
    + unfold b. simpl. apply nth_error_app_at.
    + lia.
    + lia.
    + rewrite Nat2N.id. unfold b. rewrite !app_length. simpl. rewrite app_length. lia.
    + rewrite Nat2N.id. rewrite Hb.
      specialize (IH Hv' (pre ++ N.of_nat (length l) :: l) post cs).
      rewrite app_length in IH. simpl length in IH.
      replace (length pre + 1 + length l) with (length pre + S (length l)) by lia.
      replace (length pre + (1 + length l + wire_len ls)) with (length pre + S (length l) + wire_len ls) by lia.
      exact IH.
Qed.

Lemma wf_label_octet (l : label) : length l <= 63 -> is_octet (N.of_nat (length l)).
Proof. unfold is_octet. lia. Qed.

Lemma wf_wire_of ls : Forall valid_label ls -> Forall wf_bytes ls -> wf_bytes (wire_of ls).
Proof.
  induction ls as [|l ls IH]; intros Hv Hw.
  - repeat constructor.
  - inversion Hv as [|? ? [H1 H2] Hv']; inversion Hw; subst. rewrite wire_of_cons.
    constructor; [apply wf_label_octet; lia|]. apply Forall_app. split; [assumption|apply IH; assumption].
Qed.

Lemma decodes_labels_wf b cs i ls e : wf_bytes b -> decodes b cs i ls e -> Forall wf_bytes ls.
Proof.
  intros Hwf. induction 1; auto. constructor; auto. apply Forall_slice. exact Hwf.
Qed.

(* generative form of "an uncompressed name at the start of b" *)
Lemma decodes_unc_gen b ls l :
  decodes_uncompressed b ls l <->
  valid_name ls /\ l = wire_len ls /\ b = wire_of ls ++ skipn l b.
Proof.
  unfold decodes_uncompressed, valid_name. split.
  - intros [D Hw]. destruct (decodes_nc_end _ _ _ _ _ D eq_refl) as [Hl Hs]. simpl in Hl.
    split; [split; [eapply decodes_labels_valid; eauto|exact Hw]|]. split; [exact Hl|].
    rewrite slice_0 in Hs. rewrite <- Hs. symmetry. apply firstn_skipn.
  - intros ((Hv & Hw) & -> & Hb). split; [|exact Hw].
    rewrite Hb. apply (decodes_of_wire ls Hv [] (skipn (wire_len ls) b) 0).
Qed.

Lemma decodes_name0_unc b ls l : decodes_name b 0 ls l <-> decodes_uncompressed b ls l.
Proof.
  unfold decodes_name, decodes_uncompressed. split.
  - intros (e & D & -> & Hw). rewrite Nat.sub_0_r. auto.
  - intros [D Hw]. exists l. rewrite Nat.sub_0_r. auto.
Qed.

(* ---- what the model's name functions return, in terms of the spec decoder ---- *)

Lemma sname_Some r l : sname r = Some l <-> exists ls, decodes_uncompressed r ls l.
Proof.
  unfold sname. split.
  - destruct (spec_decode_name r 0) as [[ls l']|] eqn:E; [|discriminate].
    intros H; inversion H; subst. exists ls. apply decodes_name0_unc, spec_decode_name_iff. exact E.
  - intros [ls D]. apply decodes_name0_unc, spec_decode_name_iff in D. rewrite D. reflexivity.
Qed.

Lemma uname_spec r : wf_bytes r ->
  match parse_uncompressed_name r false with
  | Ok (nm, n) => exists ls, decodes_uncompressed r ls n /\ nm = name_of ls
  | Err e => sname r = None /\ e <> OutOfFuel
  | Panic => False
  end.
Proof.
  intros Hwf. destruct (parse_uncompressed_total r false) as [Hp Hf].
  destruct (parse_uncompressed_name r false) as [[nm n]|e|] eqn:E; [| |congruence].
  - apply (parse_uncompressed_iff r false nm n Hwf) in E. destruct E as (ls & D & -> & _). eauto.
  - split; [|congruence]. destruct (sname r) as [l|] eqn:S; [|reflexivity]. exfalso.
    apply sname_Some in S. destruct S as [ls D].
    assert (P : parse_uncompressed_name r false = Ok (name_of ls, l)).
    { apply (parse_uncompressed_iff r false _ _ Hwf). exists ls. split; [exact D|]. split; [reflexivity|discriminate]. }
    congruence.
Qed.

Lemma vun_spec r : wf_bytes r ->
  match validate_uncompressed_name r false with
  | Ok n => sname r = Some n /\ 1 <= n /\ n <= length r
  | Err e => sname r = None /\ e <> OutOfFuel
  | Panic => False
  end.
Proof.
  intros Hwf. rewrite validate_agrees. pose proof (uname_spec r Hwf) as H.
  destruct (parse_uncompressed_name r false) as [[nm n]|e|]; cbn [map_ok snd]; auto.
  destruct H as (ls & D & _). split; [apply sname_Some; eauto|].
  destruct D as [D _]. apply decodes_end_le in D. lia.
Qed.

Lemma vun_all r :
  validate_uncompressed_name r true =
  match validate_uncompressed_name r false with
  | Ok n => if n <? length r then Err ExtraData else Ok n
  | x => x
  end.
Proof.
  unfold validate_uncompressed_name.
  destruct (val_loop unc_fuel r 0) as [n|e|]; cbn [bind andb]; reflexivity.
Qed.

Lemma vname_spec r : wf_bytes r ->
  match vname r false with
  | Ok n => sname r = Some n /\ 1 <= n /\ n <= length r
  | Err e => sname r = None /\ e <> ROutOfFuel /\ e <> InvalidName OutOfFuel
  | Panic => False
  end.
Proof.
  intros Hwf. unfold vname. pose proof (vun_spec r Hwf) as H.
  destruct (validate_uncompressed_name r false) as [n|e|]; cbn [map_err]; auto.
  destruct H as [H1 H2]. repeat split; auto; congruence.
Qed.

Lemma vname_all r : wf_bytes r ->
  match vname r true with
  | Ok n => sname r = Some n /\ n = length r /\ 1 <= n
  | Err e => (sname r = None \/ exists n, sname r = Some n /\ n < length r) /\
             e <> ROutOfFuel /\ e <> InvalidName OutOfFuel
  | Panic => False
  end.
Proof.
  intros Hwf. unfold vname. rewrite vun_all. pose proof (vun_spec r Hwf) as H.
  destruct (validate_uncompressed_name r false) as [n|e|]; cbn [map_err]; auto.
  - destruct H as (H1 & H2 & H3). destruct (n <? length r) eqn:E; cbn [map_err].
    + apply Nat.ltb_lt in E. split; [right; eauto|]. split; congruence.
    + apply Nat.ltb_ge in E. repeat split; auto; lia.
  - destruct H as [H1 H2]. split; [left; auto|]. split; congruence.
Qed.

Lemma pname_spec buf s : wf_bytes buf ->
  match pname buf s with
  | Ok (nm, l) => exists ls, spec_decode_name buf s = Some (ls, l) /\ nm = name_of ls /\
                  1 <= l /\ s + l <= length buf
  | Err e => spec_decode_name buf s = None /\ e <> ROutOfFuel /\ e <> InvalidName OutOfFuel
  | Panic => False
  end.
Proof.
  intros Hwf. unfold pname. destruct (parse_compressed_total buf s) as [Hp Hf].
  destruct (parse_compressed_name buf s) as [[nm l]|e|] eqn:E; cbn [map_err]; [| |congruence].
  - apply (parse_compressed_iff buf s nm l Hwf) in E. destruct E as (ls & D & ->).
    exists ls. split; [apply spec_decode_name_iff; exact D|]. split; [reflexivity|].
    destruct D as (e & D & -> & _). apply decodes_end_le in D. lia.
  - split; [|split; congruence].
    destruct (spec_decode_name buf s) as [[ls l]|] eqn:S; [|reflexivity]. exfalso.
    apply spec_decode_name_iff in S.
    assert (P : parse_compressed_name buf s = Ok (name_of ls, l))
      by (apply (parse_compressed_iff buf s _ _ Hwf); eauto).
    congruence.
Qed.

(* decoded names are valid and their encodings are well-formed octets *)
Lemma decodes_name_valid b s ls l : decodes_name b s ls l -> valid_name ls.
Proof. intros (e & D & _ & Hw). split; [eapply decodes_labels_valid; eauto|exact Hw]. Qed.

Lemma decodes_name_wf b s ls l : wf_bytes b -> decodes_name b s ls l -> wf_bytes (wire_of ls).
Proof.
  intros Hwf (e & D & _ & Hw). apply wf_wire_of.
  - eapply decodes_labels_valid; eauto.
  - eapply decodes_labels_wf; eauto.
Qed.
