(* Lemma library for C22: the tree of Model/CatTree.v refines the flat reference
   map of Spec/CatTreeS.v.  Part 1: association forests, paths, abstraction
   function, per-node specifications of insert / remove / lookup. *)
From QV Require Import Model.CatTree Spec.CatTreeS.
From Coq Require Import Permutation.

Scheme node_mind := Induction for node Sort Prop
  with forest_mind := Induction for forest Sort Prop.
Combined Scheme node_forest_ind from node_mind, forest_mind.

(* ---- general list facts --------------------------------------------------------- *)

Lemma firstn_S_nth {A} (l : list A) i x : nth_error l i = Some x ->
  firstn (S i) l = firstn i l ++ [x].
Proof.
  revert i; induction l as [|y l IH]; intros i H.
  - destruct i; discriminate.
  - destruct i as [|i]; simpl in H.
    + inversion H; subst. reflexivity.
    + simpl. f_equal. apply IH. exact H.
Qed.

Lemma skipn_nth_cons {A} (l : list A) i x : nth_error l i = Some x ->
  skipn i l = x :: skipn (S i) l.
Proof.
  revert i; induction l as [|y l IH]; intros i H.
  - destruct i; discriminate.
  - destruct i as [|i]; simpl in H.
    + inversion H; subst. reflexivity.
    + simpl. apply IH. exact H.
Qed.

Lemma rev_inj {A} (a b : list A) : rev a = rev b -> a = b.
Proof. intros H. rewrite <- (rev_involutive a), <- (rev_involutive b). f_equal. exact H. Qed.

Lemma lower_name_app a b : lower_name (a ++ b) = lower_name a ++ lower_name b.
Proof. unfold lower_name. apply map_app. Qed.

Lemma lower_name_length a : length (lower_name a) = length a.
Proof. unfold lower_name. apply map_length. Qed.

Lemma name_index_lt (nm : cname) i : i < length nm ->
  exists lab, name_index nm i = Some lab /\ nth_error nm i = Some lab.
Proof.
  intros H. unfold name_index. rewrite nth_error_app1 by exact H.
  destruct (nth_error nm i) eqn:E.
  - eauto.
  - apply nth_error_None in E. lia.
Qed.

(* the path (root downwards, lower-cased) that a descent from [level] follows *)
Definition lpath (nm : cname) (level : nat) : list clabel := rev (lower_name (firstn level nm)).

Lemma lpath_0 nm : lpath nm 0 = [].
Proof. reflexivity. Qed.

Lemma lpath_S nm l lab : nth_error nm l = Some lab ->
  lpath nm (S l) = lower_label lab :: lpath nm l.
Proof.
  intros H. unfold lpath. rewrite (firstn_S_nth _ _ _ H), lower_name_app, rev_app_distr. reflexivity.
Qed.

Lemma lpath_all nm : lpath nm (length nm) = rev (lower_name nm).
Proof. unfold lpath. rewrite firstn_all. reflexivity. Qed.

Section P.
Variable V : Type.
Notation entry := (entry V).
Notation node := (node V).
Notation forest := (forest V).
Notation catalog := (catalog V).

(* ---- forests as maps ------------------------------------------------------------ *)

Lemma f_get_set_same k (n : node) f : f_get k (f_set k n f) = Some n.
Proof.
  induction f as [|k' c r IH]; simpl.
  - destruct (label_eq_dec k k); congruence.
  - destruct (label_eq_dec k k') as [E|E]; simpl.
    + destruct (label_eq_dec k k'); congruence.
    + destruct (label_eq_dec k k'); congruence.
Qed.

Lemma f_get_set_other k k2 (n : node) f : k2 <> k -> f_get k2 (f_set k n f) = f_get k2 f.
Proof.
  intros Hne. induction f as [|k' c r IH]; simpl.
  - destruct (label_eq_dec k2 k); congruence.
  - destruct (label_eq_dec k k') as [E|E]; simpl.
    + subst. destruct (label_eq_dec k2 k'); congruence.
    + destruct (label_eq_dec k2 k'); congruence.
Qed.

Lemma f_get_remove_same k (f : forest) : f_get k (f_remove k f) = None.
Proof.
  induction f as [|k' c r IH]; simpl; auto.
  destruct (label_eq_dec k k') as [E|E]; simpl; auto.
  destruct (label_eq_dec k k'); congruence.
Qed.

Lemma f_get_remove_other k k2 (f : forest) : k2 <> k -> f_get k2 (f_remove k f) = f_get k2 f.
Proof.
  intros Hne. induction f as [|k' c r IH]; simpl; auto.
  destruct (label_eq_dec k k') as [E|E]; simpl.
  - subst. destruct (label_eq_dec k2 k'); congruence.
  - destruct (label_eq_dec k2 k'); congruence.
Qed.

Lemma f_get_remove_none k k2 (f : forest) : f_get k2 f = None -> f_get k2 (f_remove k f) = None.
Proof.
  intros H. destruct (label_eq_dec k2 k) as [E|E].
  - subst. apply f_get_remove_same.
  - rewrite f_get_remove_other; auto.
Qed.

Lemma f_is_empty_true (f : forest) : f_is_empty f = true -> f = FNil.
Proof. destruct f; simpl; congruence. Qed.

(* ---- walking the tree; the abstraction of one class tree ------------------------- *)

Fixpoint walk (n : node) (rp : list clabel) : option node :=
  match rp with
  | [] => Some n
  | k :: r => match f_get k (node_children n) with
              | Some c => walk c r
              | None => None
              end
  end.

Definition adata (n : node) (rp : list clabel) : option entry :=
  match walk n rp with Some m => node_data m | None => None end.

Lemma adata_nil n : adata n [] = node_data n.
Proof. reflexivity. Qed.

Lemma adata_cons n k r :
  adata n (k :: r) = match f_get k (node_children n) with Some c => adata c r | None => None end.
Proof. unfold adata. simpl. destruct (f_get k (node_children n)); reflexivity. Qed.

Lemma adata_new s rp : adata (node_new s : node) rp = None.
Proof. destruct rp; reflexivity. Qed.

(* ---- insert ---------------------------------------------------------------------- *)

Lemma insert_desc_spec : forall level (n : node) nm e, level <= length nm ->
  exists n', insert_desc n nm level e = Ok (n', adata n (lpath nm level)) /\
             adata n' (lpath nm level) = Some e /\
             (forall rp, rp <> lpath nm level -> adata n' rp = adata n rp) /\
             node_name n' = node_name n.
Proof.
  induction level as [|l IH]; intros n nm e Hl.
  - destruct n as [nn d ch]. simpl. eexists. split; [reflexivity|]. rewrite lpath_0.
    split; [reflexivity|]. split; [|reflexivity].
    intros rp Hrp. destruct rp as [|k r]; [congruence|]. rewrite !adata_cons. reflexivity.
  - destruct (name_index_lt nm l) as [lab [Hi Hn]]; [lia|].
    cbn [insert_desc]. rewrite Hi. destruct n as [nn d ch].
    rewrite (lpath_S _ _ _ Hn). set (k := lower_label lab).
    assert (Hsup : superdomain nm l = Some (skipn l nm)).
    { unfold superdomain, name_len. destruct (l <? S (length nm)) eqn:E; auto.
      apply Nat.ltb_ge in E. lia. }
    rewrite Hsup.
    set (c := match f_get k ch with Some c => c | None => node_new (skipn l nm) end).
    assert (Hc : (match f_get k ch with Some c0 => Ok c0 | None => Ok (node_new (skipn l nm)) end
                  : res unit node) = Ok c).
    { unfold c. destruct (f_get k ch); reflexivity. }
    rewrite Hc. cbn [bind].
    destruct (IH c nm e) as [c' [Hins [Hnew [Hoth Hname]]]]; [lia|].
    rewrite Hins. cbn [bind].
    assert (Hold : adata (Node nn d ch) (k :: lpath nm l) = adata c (lpath nm l)).
    { rewrite adata_cons. simpl. unfold c. destruct (f_get k ch); auto. rewrite adata_new. reflexivity. }
    eexists. split; [rewrite Hold; reflexivity|]. split; [|split; [|reflexivity]].
    + rewrite adata_cons. simpl. rewrite f_get_set_same. exact Hnew.
    + intros rp Hrp. destruct rp as [|k2 r]; [reflexivity|]. rewrite !adata_cons. simpl.
      destruct (label_eq_dec k2 k) as [E|E].
      * subst k2. rewrite f_get_set_same. rewrite Hoth by congruence.
        unfold c. destruct (f_get k ch); auto. apply adata_new.
      * rewrite f_get_set_other by exact E. reflexivity.
Qed.

(* ---- remove ---------------------------------------------------------------------- *)

Lemma remove_in_class_spec : forall level (n : node) nm, level <= length nm ->
  exists n' rm, remove_in_class n nm level = Ok (n', adata n (lpath nm level), rm) /\
                adata n' (lpath nm level) = None /\
                (forall rp, rp <> lpath nm level -> adata n' rp = adata n rp) /\
                (rm = true -> forall rp, adata n' rp = None) /\
                node_name n' = node_name n.
Proof.
  unfold remove_in_class.
  induction level as [|l IH]; intros n nm Hl.
  - destruct n as [nn d ch]. simpl. eexists. eexists. split; [reflexivity|]. rewrite lpath_0.
    split; [reflexivity|]. split; [|split; [|reflexivity]].
    + intros rp Hrp. destruct rp as [|k r]; [congruence|]. rewrite !adata_cons. reflexivity.
    + intros Hrm rp. apply f_is_empty_true in Hrm. subst ch. destruct rp; reflexivity.
  - destruct (name_index_lt nm l) as [lab [Hi Hn]]; [lia|].
    cbn [remove_in_class_gen]. rewrite Hi. destruct n as [nn d ch].
    rewrite (lpath_S _ _ _ Hn). set (k := lower_label lab).
    destruct (f_get k ch) as [sub|] eqn:Hg.
    + destruct (IH sub nm) as [sub' [rm' [Hrem [Hnone [Hoth [Hall Hname]]]]]]; [lia|].
      rewrite Hrem. cbn [bind].
      assert (Hold : adata (Node nn d ch) (k :: lpath nm l) = adata sub (lpath nm l)).
      { rewrite adata_cons. simpl. rewrite Hg. reflexivity. }
      destruct rm'.
      * eexists. eexists. split; [rewrite Hold; reflexivity|]. split; [|split; [|split; [|reflexivity]]].
        -- rewrite adata_cons. simpl. rewrite f_get_remove_same. reflexivity.
        -- intros rp Hrp. destruct rp as [|k2 r]; [reflexivity|]. rewrite !adata_cons. simpl.
           destruct (label_eq_dec k2 k) as [E|E].
           ++ subst k2. rewrite f_get_remove_same, Hg.
              rewrite <- Hoth by congruence. symmetry. apply Hall. reflexivity.
           ++ rewrite f_get_remove_other by exact E. reflexivity.
        -- intros Hrm rp. apply andb_true_iff in Hrm. destruct Hrm as [H1 H2].
           apply f_is_empty_true in H1. destruct d; [discriminate|].
           destruct rp as [|k2 r]; [reflexivity|]. rewrite adata_cons. simpl. rewrite H1. reflexivity.
      * eexists. eexists. split; [rewrite Hold; reflexivity|]. split; [|split; [|split; [|reflexivity]]].
        -- rewrite adata_cons. simpl. rewrite f_get_set_same. exact Hnone.
        -- intros rp Hrp. destruct rp as [|k2 r]; [reflexivity|]. rewrite !adata_cons. simpl.
           destruct (label_eq_dec k2 k) as [E|E].
           ++ subst k2. rewrite f_get_set_same, Hg. apply Hoth. congruence.
           ++ rewrite f_get_set_other by exact E. reflexivity.
        -- discriminate.
    + eexists. eexists. split; [|split; [|split; [|split; [|reflexivity]]]].
      * rewrite adata_cons. simpl. rewrite Hg. reflexivity.
      * rewrite adata_cons. simpl. rewrite Hg. reflexivity.
      * reflexivity.
      * discriminate.
Qed.

(* ---- lookup ---------------------------------------------------------------------- *)

(* deepest entry along a path, top-down *)
Fixpoint deepest (n : node) (rp : list clabel) : option entry :=
  match rp with
  | [] => node_data n
  | k :: r => match f_get k (node_children n) with
              | Some c => match deepest c r with Some e => Some e | None => node_data n end
              | None => node_data n
              end
  end.

Lemma lookup_in_class_deepest : forall level (n : node) nm, level <= length nm ->
  lookup_in_class n nm level = Ok (deepest n (lpath nm level)).
Proof.
  induction level as [|l IH]; intros n nm Hl.
  - reflexivity.
  - destruct (name_index_lt nm l) as [lab [Hi Hn]]; [lia|].
    cbn [lookup_in_class]. rewrite Hi, (lpath_S _ _ _ Hn). cbn [deepest].
    destruct (f_get (lower_label lab) (node_children n)) as [sub|].
    + rewrite IH by lia. reflexivity.
    + reflexivity.
Qed.

Lemma deepest_spec : forall rp (n : node),
  match deepest n rp with
  | Some e => exists a b, rp = a ++ b /\ adata n a = Some e /\
                          forall a' b', rp = a' ++ b' -> length a < length a' -> adata n a' = None
  | None => forall a b, rp = a ++ b -> adata n a = None
  end.
Proof.
  induction rp as [|k r IH]; intros n.
  - cbn [deepest]. destruct (node_data n) as [e|] eqn:Hd.
    + exists [], []. split; [reflexivity|]. split; [exact Hd|].
      intros a' b' H Hlen. destruct a'; [simpl in Hlen; lia|discriminate].
    + intros a b H. destruct a; [exact Hd|discriminate].
  - cbn [deepest].
    assert (Hnone : forall m, f_get k (node_children n) = None \/
                     (f_get k (node_children n) = Some m /\ forall a b, r = a ++ b -> adata m a = None) ->
              match node_data n with
              | Some e => exists a b, k :: r = a ++ b /\ adata n a = Some e /\
                   forall a' b', k :: r = a' ++ b' -> length a < length a' -> adata n a' = None
              | None => forall a b, k :: r = a ++ b -> adata n a = None
              end).
    { intros m Hm.
      assert (Hdeep : forall a' b', k :: r = a' ++ b' -> 0 < length a' -> adata n a' = None).
      { intros a' b' H Hlen. destruct a' as [|k2 a2]; [simpl in Hlen; lia|].
        simpl in H. inversion H; subst. rewrite adata_cons.
        destruct Hm as [Hm|[Hm Hall]]; rewrite Hm; auto. eapply Hall. reflexivity. }
      destruct (node_data n) as [e|] eqn:Hd.
      - exists [], (k :: r). split; [reflexivity|]. split; [exact Hd|]. exact Hdeep.
      - intros a b H. destruct a as [|k2 a2]; [exact Hd|]. eapply Hdeep; [exact H|simpl; lia]. }
    destruct (f_get k (node_children n)) as [c|] eqn:Hg.
    + specialize (IH c). destruct (deepest c r) as [e|].
      * destruct IH as [a [b [Hr [Ha Hmax]]]]. exists (k :: a), b.
        split; [simpl; congruence|]. split; [rewrite adata_cons, Hg; exact Ha|].
        intros a' b' H Hlen. destruct a' as [|k2 a2]; [simpl in Hlen; lia|].
        simpl in H. injection H as Hk Hr'. subst k2. rewrite adata_cons, Hg.
        eapply Hmax; [exact Hr'|simpl in Hlen; lia].
      * apply (Hnone c). right. split; [reflexivity|exact IH].
    + apply (Hnone n). left. reflexivity.
Qed.

End P.

Arguments walk {V}.
Arguments adata {V}.
Arguments deepest {V}.
