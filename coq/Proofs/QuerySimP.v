(* Relational lifting through the answering logic of Model/Query.v: run 1 on an interface whose
   operations never fail (a strict interface), run 2 on another interface; if every operation that
   succeeds in run 1 towards a state satisfying the (backward-closed) goal predicate G also succeeds
   in run 2 from any R-related state, with the same result and R-related states, then a successful
   run 1 of answer / answer_any ending in G is matched step by step by run 2. *)
From QV Require Import Base.ListX Gen.ZoneConsts Gen.QueryConsts Model.ZoneTree Model.Query.

Section Sim.
Context {W1 W2 : Type}.
Variable wi1 : wiface W1.
Variable wi2 : wiface W2.
Variable negttl : N -> N -> N.
Variable z : zone.
Variable R : W1 -> W2 -> Prop.
Variable G : W1 -> Prop.

(* success in run 1 ending in G: G held before, and run 2 follows *)
Definition simQ {A} (f1 : W1 -> res (perr * W1) (A * W1)) (f2 : W2 -> res (perr * W2) (A * W2)) : Prop :=
  forall w1 x w1', f1 w1 = Ok (x, w1') -> G w1' ->
    G w1 /\ forall w2, R w1 w2 -> exists w2', f2 w2 = Ok (x, w2') /\ R w1' w2'.
Definition simR (f1 : W1 -> res (wierr * W1) W1) (f2 : W2 -> res (wierr * W2) W2) : Prop :=
  forall w1 w1', f1 w1 = Ok w1' -> G w1' ->
    G w1 /\ forall w2, R w1 w2 -> exists w2', f2 w2 = Ok w2' /\ R w1' w2'.

Hypothesis Hrr : forall s h o ty c ttl rd, simR (wi_add_rr wi1 s h o ty c ttl rd) (wi_add_rr wi2 s h o ty c ttl rd).
Hypothesis Hrrset : forall s h o ty c ttl rds b w1 v w1',
  wi_add_rrset wi1 s h o ty c ttl rds b w1 = Ok (v, w1') -> G w1' ->
  G w1 /\ forall w2, R w1 w2 -> exists w2', wi_add_rrset wi2 s h o ty c ttl rds b w2 = Ok (v, w2') /\ R w1' w2'.
Hypothesis Haa : forall b w1 w1', wi_set_aa wi1 b w1 = Some w1' -> G w1' ->
  G w1 /\ forall w2, R w1 w2 -> exists w2', wi_set_aa wi2 b w2 = Some w2' /\ R w1' w2'.
Hypothesis Hrc : forall c w1 w1', wi_set_rcode wi1 c w1 = Some w1' -> G w1' ->
  G w1 /\ forall w2, R w1 w2 -> exists w2', wi_set_rcode wi2 c w2 = Some w2' /\ R w1' w2'.
(* run 1 is strict: its add operations never report an error *)
Hypothesis Hstrict_rr : forall s h o ty c ttl rd w e, wi_add_rr wi1 s h o ty c ttl rd w <> Err e.
Hypothesis Hstrict_rrset : forall s h o ty c ttl rds b w e, wi_add_rrset wi1 s h o ty c ttl rds b w <> Err e.

Lemma addrs_noerr owner h sbc w e : add_additional_addresses wi1 z owner h sbc w <> Err e.
Proof.
  unfold add_additional_addresses.
  destruct (zl (zone_lookup_addrs z owner false sbc)) as [[a aaaa sos|c ns| |]|]; try discriminate.
  destruct a as [[ta ra]|].
  - destruct (wi_add_rrset wi1 SAr h owner TYPE_A (z_class z) ta ra false w) as [[v w1]|e1|] eqn:E1; try discriminate;
      [|exfalso; eapply Hstrict_rrset; eauto].
    destruct (z_class z =? CLASS_IN)%N; try discriminate. destruct aaaa as [[tb rb]|]; try discriminate.
    destruct (wi_add_rrset wi1 SAr QhOwner owner TYPE_AAAA CLASS_IN tb rb false w1) as [[v2 w2]|e2|] eqn:E2; try discriminate.
    exfalso; eapply Hstrict_rrset; eauto.
  - destruct (z_class z =? CLASS_IN)%N; try discriminate. destruct aaaa as [[tb rb]|]; try discriminate.
    destruct (wi_add_rrset wi1 SAr h owner TYPE_AAAA CLASS_IN tb rb false w) as [[v2 w2]|e2|] eqn:E2; try discriminate.
    exfalso; eapply Hstrict_rrset; eauto.
Qed.

Lemma sim_addrs owner h sbc :
  simR (add_additional_addresses wi1 z owner h sbc) (add_additional_addresses wi2 z owner h sbc).
Proof.
  intros w1 w1'. unfold add_additional_addresses.
  destruct (zl (zone_lookup_addrs z owner false sbc)) as [[a aaaa sos|c ns| |]|]; try discriminate;
    try (intros H HG; inversion H; subst; split; [exact HG|]; intros w2 HR; exists w2; auto).
  destruct a as [[ta ra]|].
  - destruct (wi_add_rrset wi1 SAr h owner TYPE_A (z_class z) ta ra false w1) as [[v w1a]|e1|] eqn:E1; try discriminate.
    destruct (z_class z =? CLASS_IN)%N.
    + destruct aaaa as [[tb rb]|].
      * destruct (wi_add_rrset wi1 SAr QhOwner owner TYPE_AAAA CLASS_IN tb rb false w1a) as [[v2 w1b]|e2|] eqn:E2; try discriminate.
        intros H HG; inversion H; subst.
        destruct (Hrrset _ _ _ _ _ _ _ _ _ _ _ E2 HG) as [Ga S2]. destruct (Hrrset _ _ _ _ _ _ _ _ _ _ _ E1 Ga) as [G0 S1].
        split; [exact G0|]. intros w2 HR. destruct (S1 w2 HR) as (w2a & -> & Ra). destruct (S2 w2a Ra) as (w2b & -> & Rb).
        exists w2b. auto.
      * intros H HG; inversion H; subst. destruct (Hrrset _ _ _ _ _ _ _ _ _ _ _ E1 HG) as [G0 S1].
        split; [exact G0|]. intros w2 HR. destruct (S1 w2 HR) as (w2a & -> & Ra). exists w2a. auto.
    + intros H HG; inversion H; subst. destruct (Hrrset _ _ _ _ _ _ _ _ _ _ _ E1 HG) as [G0 S1].
      split; [exact G0|]. intros w2 HR. destruct (S1 w2 HR) as (w2a & -> & Ra). exists w2a. auto.
  - destruct (z_class z =? CLASS_IN)%N.
    + destruct aaaa as [[tb rb]|].
      * destruct (wi_add_rrset wi1 SAr h owner TYPE_AAAA CLASS_IN tb rb false w1) as [[v2 w1b]|e2|] eqn:E2; try discriminate.
        intros H HG; inversion H; subst. destruct (Hrrset _ _ _ _ _ _ _ _ _ _ _ E2 HG) as [G0 S2].
        split; [exact G0|]. intros w2 HR. destruct (S2 w2 HR) as (w2b & -> & Rb). exists w2b. auto.
      * intros H HG; inversion H; subst. split; [exact HG|]. intros w2 HR. exists w2. auto.
    + intros H HG; inversion H; subst. split; [exact HG|]. intros w2 HR. exists w2. auto.
Qed.

(* allow_truncation / lift_add of a strict computation *)
Lemma allow_ok_inv (r : res (wierr * W1) W1) u w' : (forall e, r <> Err e) -> allow_truncation r = Ok (u, w') -> r = Ok w'.
Proof. destruct r as [w0|[[|] w0]|]; cbn; intros Hn H; try discriminate; try (exfalso; eapply Hn; reflexivity). inversion H; reflexivity. Qed.
Lemma lift_add_ok_inv {W} (r : res (wierr * W) W) u w' : lift_add r = Ok (u, w') -> r = Ok w'.
Proof. destruct r as [w0|[e w0]|]; cbn; intros H; try discriminate. inversion H; reflexivity. Qed.

Lemma sim_additional_loop start : forall rds v idx,
  simQ (additional_loop wi1 z start rds v idx) (additional_loop wi2 z start rds v idx).
Proof.
  induction rds as [|rd rds IH]; intros v idx w1 x w1'; cbn [additional_loop].
  - intros H HG; inversion H; subst. split; [exact HG|]. intros w2 HR. exists w2. auto.
  - destruct (read_name_from_rdata rd start) as [n|e|]; try discriminate.
    destruct (allow_truncation (add_additional_addresses wi1 z n (hint_from_vec v idx) false w1)) as [[u w1a]|e|] eqn:E; try discriminate.
    intros H HG. apply allow_ok_inv in E; [|intros e; apply addrs_noerr].
    destruct (IH v (S idx) _ _ _ H HG) as [Ga S2]. destruct (sim_addrs _ _ _ _ _ E Ga) as [G0 S1].
    split; [exact G0|]. intros w2 HR. destruct (S1 w2 HR) as (w2a & -> & Ra). cbn [allow_truncation].
    apply S2. exact Ra.
Qed.

Lemma sim_additional ty s v :
  simQ (do_additional_section_processing wi1 z ty s v) (do_additional_section_processing wi2 z ty s v).
Proof.
  intros w1 x w1'. unfold do_additional_section_processing.
  destruct (negb _); [intros H HG; inversion H; subst; split; [exact HG|]; intros w2 HR; exists w2; auto|].
  destruct (lookup_offset ADDITIONAL_TABLE ty); [apply sim_additional_loop|].
  intros H HG; inversion H; subst; split; [exact HG|]; intros w2 HR; exists w2; auto.
Qed.

Lemma sim_negsoa : simQ (add_negative_caching_soa wi1 negttl z) (add_negative_caching_soa wi2 negttl z).
Proof.
  intros w1 x w1'. unfold add_negative_caching_soa.
  destruct (zone_soa z) as [[ttl [|rd rest]]|]; try discriminate.
  destruct (read_soa_minimum rd) as [m|e|]; try discriminate.
  intros H HG. destruct x. apply lift_add_ok_inv in H. destruct (Hrr _ _ _ _ _ _ _ _ _ H HG) as [G0 S1].
  split; [exact G0|]. intros w2 HR. destruct (S1 w2 HR) as (w2a & -> & Ra). exists w2a. auto.
Qed.

Lemma sim_glue_loop : forall l v, simQ (glue_loop wi1 z l v) (glue_loop wi2 z l v).
Proof.
  induction l as [|[idx n] l IH]; intros v w1 x w1'; cbn [glue_loop].
  - intros H HG; inversion H; subst. split; [exact HG|]. intros w2 HR. exists w2. auto.
  - destruct (lift_add (add_additional_addresses wi1 z n (hint_from_vec (Some v) idx) true w1)) as [[u w1a]|e|] eqn:E; try discriminate.
    intros H HG. apply lift_add_ok_inv in E.
    destruct (IH v _ _ _ H HG) as [Ga S2]. destruct (sim_addrs _ _ _ _ _ E Ga) as [G0 S1].
    split; [exact G0|]. intros w2 HR. destruct (S1 w2 HR) as (w2a & -> & Ra). cbn [lift_add]. apply S2. exact Ra.
Qed.
Lemma sim_optional_loop : forall l v, simQ (optional_loop wi1 z l v) (optional_loop wi2 z l v).
Proof.
  induction l as [|[idx n] l IH]; intros v w1 x w1'; cbn [optional_loop].
  - intros H HG; inversion H; subst. split; [exact HG|]. intros w2 HR. exists w2. auto.
  - destruct (allow_truncation (add_additional_addresses wi1 z n (hint_from_vec (Some v) idx) true w1)) as [[u w1a]|e|] eqn:E; try discriminate.
    intros H HG. apply allow_ok_inv in E; [|intros e; apply addrs_noerr].
    destruct (IH v _ _ _ H HG) as [Ga S2]. destruct (sim_addrs _ _ _ _ _ E Ga) as [G0 S1].
    split; [exact G0|]. intros w2 HR. destruct (S1 w2 HR) as (w2a & -> & Ra). cbn [allow_truncation]. apply S2. exact Ra.
Qed.

Lemma sim_referral child ns : simQ (do_referral wi1 z child ns) (do_referral wi2 z child ns).
Proof.
  intros w1 x w1'. unfold do_referral.
  destruct (wi_add_rrset wi1 SNs QhNone child TYPE_NS (z_class z) (fst ns) (snd ns) true w1) as [[v w1a]|[e w1a]|] eqn:E1;
    cbn [lift_addv]; try discriminate.
  destruct (referral_names child (snd ns) 0) as [[g a]|e|]; try discriminate.
  destruct (glue_loop wi1 z g v w1a) as [[u w1b]|e|] eqn:E2; try discriminate.
  intros H HG. destruct (sim_optional_loop a v _ _ _ H HG) as [Gb S3].
  destruct (sim_glue_loop g v _ _ _ E2 Gb) as [Ga S2]. destruct (Hrrset _ _ _ _ _ _ _ _ _ _ _ E1 Ga) as [G0 S1].
  split; [exact G0|]. intros w2 HR. destruct (S1 w2 HR) as (w2a & -> & Ra). cbn [lift_addv].
  destruct (S2 w2a Ra) as (w2b & -> & Rb). apply S3. exact Rb.
Qed.

Lemma sim_found h owner ty rs : simQ (add_found wi1 z h owner ty rs) (add_found wi2 z h owner ty rs).
Proof.
  intros w1 x w1'. unfold add_found.
  destruct (wi_add_rrset wi1 SAn h owner ty (z_class z) (fst rs) (snd rs) true w1) as [[v w1a]|[e w1a]|] eqn:E1;
    cbn [lift_addv]; try discriminate.
  intros H HG. destruct (sim_additional ty rs (Some v) _ _ _ H HG) as [Ga S2].
  destruct (Hrrset _ _ _ _ _ _ _ _ _ _ _ E1 Ga) as [G0 S1].
  split; [exact G0|]. intros w2 HR. destruct (S1 w2 HR) as (w2a & -> & Ra). cbn [lift_addv]. apply S2. exact Ra.
Qed.

Lemma sim_set_rcode_then {A} c (k1 : W1 -> res (perr * W1) (A * W1)) (k2 : W2 -> res (perr * W2) (A * W2)) :
  simQ k1 k2 ->
  simQ (fun w => match lift_set (wi_set_rcode wi1 c w) with Ok (_, w1) => k1 w1 | Err e => Err e | Panic => Panic end)
       (fun w => match lift_set (wi_set_rcode wi2 c w) with Ok (_, w1) => k2 w1 | Err e => Err e | Panic => Panic end).
Proof.
  intros Hk w1 x w1'. cbn beta. destruct (wi_set_rcode wi1 c w1) as [w1a|] eqn:E; cbn [lift_set]; try discriminate.
  intros H HG. destruct (Hk _ _ _ H HG) as [Ga S2]. destruct (Hrc _ _ _ E Ga) as [G0 S1].
  split; [exact G0|]. intros w2 HR. destruct (S1 w2 HR) as (w2a & -> & Ra). cbn [lift_set]. apply S2. exact Ra.
Qed.

Lemma sim_set_aa_then k1 k2 : simQ k1 k2 -> simQ (set_aa_then wi1 k1) (set_aa_then wi2 k2).
Proof.
  intros Hk w1 x w1'. unfold set_aa_then. destruct (wi_set_aa wi1 true w1) as [w1a|] eqn:E; cbn [lift_set]; try discriminate.
  intros H HG. destruct (Hk _ _ _ H HG) as [Ga S2]. destruct (Haa _ _ _ E Ga) as [G0 S1].
  split; [exact G0|]. intros w2 HR. destruct (S1 w2 HR) as (w2a & -> & Ra). cbn [lift_set]. apply S2. exact Ra.
Qed.

Lemma sim_cname qname ty : forall fuel cn os,
  simQ (follow_cname_1 wi1 negttl z fuel qname ty cn os) (follow_cname_1 wi2 negttl z fuel qname ty cn os).
Proof.
  induction fuel as [|fuel IH]; intros cn os w1 x w1'; cbn [follow_cname_1]; try discriminate.
  destruct (snd cn) as [|rd rest]; try discriminate.
  destruct (name_from_all rd) as [[[cname wire]|]|e|]; try discriminate.
  destruct (_ || _); try discriminate.
  assert (Hstep : forall h owner,
    simQ (fun w => match wire with
                   | [] => Panic
                   | _ :: _ =>
                     match lift_add (wi_add_rr wi1 SAn h owner TYPE_CNAME (z_class z) (fst cn) wire w) with
                     | Ok (_, w1) => follow_cname_2_body wi1 negttl z (follow_cname_1 wi1 negttl z fuel qname ty) qname cname ty os w1
                     | Err e => Err e
                     | Panic => Panic
                     end
                   end)
         (fun w => match wire with
                   | [] => Panic
                   | _ :: _ =>
                     match lift_add (wi_add_rr wi2 SAn h owner TYPE_CNAME (z_class z) (fst cn) wire w) with
                     | Ok (_, w1) => follow_cname_2_body wi2 negttl z (follow_cname_1 wi2 negttl z fuel qname ty) qname cname ty os w1
                     | Err e => Err e
                     | Panic => Panic
                     end
                   end)).
  { intros h owner w0 y w0'. cbn beta. destruct wire as [|b0 wire']; try discriminate.
    destruct (lift_add (wi_add_rr wi1 SAn h owner TYPE_CNAME (z_class z) (fst cn) (b0 :: wire') w0)) as [[u w0a]|e|] eqn:E; try discriminate.
    apply lift_add_ok_inv in E. intros H HG.
    assert (S2 : G w0a /\ forall w2a, R w0a w2a -> exists w2',
              follow_cname_2_body wi2 negttl z (follow_cname_1 wi2 negttl z fuel qname ty) qname cname ty os w2a = Ok (y, w2') /\ R w0' w2').
    { revert H. unfold follow_cname_2_body.
      destruct (zl (zone_lookup z cname ty false false)) as [[s sos|next sos|c ns|sos| |]|]; try discriminate.
      - intros H. exact (sim_found _ _ _ _ _ _ _ H HG).
      - destruct (length os <? PREVIOUS_OWNERS_CAP); try discriminate. intros H. exact (IH _ _ _ _ _ H HG).
      - intros H. exact (sim_referral _ _ _ _ _ H HG).
      - intros H. exact (sim_negsoa _ _ _ H HG).
      - intros H. exact (sim_set_rcode_then RCODE_NXDOMAIN _ _ sim_negsoa _ _ _ H HG).
      - intros H; inversion H; subst. split; [exact HG|]. intros w2a Ra. exists w2a. auto. }
    destruct S2 as [Ga S2]. destruct (Hrr _ _ _ _ _ _ _ _ _ E Ga) as [G0 S1].
    split; [exact G0|]. intros w2 HR. destruct (S1 w2 HR) as (w2a & -> & Ra). cbn [lift_add]. apply S2. exact Ra. }
  destruct (last_opt os); apply Hstep.
Qed.

Lemma sim_nxdomain : simQ (nxdomain wi1 negttl z) (nxdomain wi2 negttl z).
Proof.
  unfold nxdomain. apply (sim_set_rcode_then RCODE_NXDOMAIN). apply sim_set_aa_then. apply sim_negsoa.
Qed.

Theorem sim_answer qname ty : simQ (answer wi1 negttl z qname ty) (answer wi2 negttl z qname ty).
Proof.
  intros w1 x w1'. unfold answer.
  destruct (zl (zone_lookup z qname ty true false)) as [[s sos|cn sos|c ns|sos| |]|]; try discriminate.
  - apply sim_set_aa_then. apply sim_found.
  - unfold do_cname. destruct (wi_set_aa wi1 true w1) as [w1a|] eqn:E; cbn [lift_set]; try discriminate.
    intros H HG. destruct (sim_cname _ _ _ _ _ _ _ _ H HG) as [Ga S2]. destruct (Haa _ _ _ E Ga) as [G0 S1].
    split; [exact G0|]. intros w2 HR. destruct (S1 w2 HR) as (w2a & -> & Ra). cbn [lift_set]. apply S2. exact Ra.
  - apply sim_referral.
  - apply sim_set_aa_then. apply sim_negsoa.
  - apply sim_nxdomain.
Qed.

Lemma sim_any_loop qname : forall rrsets n, simQ (any_loop wi1 z qname rrsets n) (any_loop wi2 z qname rrsets n).
Proof.
  induction rrsets as [|r rrsets IH]; intros n w1 x w1'; cbn [any_loop].
  - intros H HG; inversion H; subst. split; [exact HG|]. intros w2 HR. exists w2. auto.
  - destruct (wi_add_rrset wi1 SAn QhQname qname (rs_type r) (z_class z) (rs_ttl r) (rs_rdatas r) false w1) as [[v w1a]|[e w1a]|] eqn:E1;
      cbn [lift_addv]; try discriminate.
    intros H HG. destruct (IH _ _ _ _ H HG) as [Ga S2]. destruct (Hrrset _ _ _ _ _ _ _ _ _ _ _ E1 Ga) as [G0 S1].
    split; [exact G0|]. intros w2 HR. destruct (S1 w2 HR) as (w2a & -> & Ra). cbn [lift_addv]. apply S2. exact Ra.
Qed.

Theorem sim_answer_any qname : simQ (answer_any wi1 negttl z qname) (answer_any wi2 negttl z qname).
Proof.
  intros w1 x w1'. unfold answer_any.
  destruct (zl (zone_lookup_all z qname true false)) as [[rrsets sos|c ns| |]|]; try discriminate.
  - apply sim_set_aa_then. intros w0 y w0'. cbn beta.
    destruct (any_loop wi1 z qname rrsets 0 w0) as [[n w0a]|[e w0a]|] eqn:E; try discriminate.
    intros H HG.
    assert (S2 : G w0a /\ forall w2a, R w0a w2a -> exists w2',
              (if n =? 0 then add_negative_caching_soa wi2 negttl z w2a else Ok (tt, w2a)) = Ok (y, w2') /\ R w0' w2').
    { destruct (n =? 0); [exact (sim_negsoa _ _ _ H HG)|]. inversion H; subst. split; [exact HG|]. intros w2a Ra. exists w2a. auto. }
    destruct S2 as [Ga S2]. destruct (sim_any_loop _ _ _ _ _ _ E Ga) as [G0 S1].
    split; [exact G0|]. intros w2 HR. destruct (S1 w2 HR) as (w2a & -> & Ra). apply S2. exact Ra.
  - apply sim_referral.
  - apply sim_nxdomain.
Qed.

End Sim.
