(* C04, the Writer side: the octet-level instance of the query model (Model/QueryW.v) keeps the
   Writer's numeric invariant, never changes the limit, and touches the TC bit only in the
   Truncation arm of handle_non_axfr_query, after clear_rrs and only over UDP.  Built on the C12
   frame lemmas (Proofs/MsgWriterInvP.v) and the generic lifting of Proofs/QueryInvP.v. *)
From QV Require Import Base.ListX Gen.Consts Model.MsgWriter Proofs.MsgWriterP Proofs.MsgWriterNameP
  Proofs.MsgWriterInvP Model.ZoneTree Model.Query Model.QueryW Proofs.QueryInvP.
Local Open Scope nat_scope.

Definition hdr_flag_clear (w : writer) (byte mask : N) : Prop :=
  exists x, nth_error (w_buf w) (N.to_nat byte) = Some x /\ N.land x mask = 0%N.
Definition tc_clear (w : writer) : Prop := hdr_flag_clear w TC_BYTE TC_MASK.
Definition tc_set (w : writer) : Prop :=
  exists x, nth_error (w_buf w) (N.to_nat TC_BYTE) = Some x /\ N.land x TC_MASK <> 0%N.

(* the invariant carried through query answering *)
Definition PW (L : nat) (w : writer) : Prop := Inv_n w /\ w_limit w = L /\ tc_clear w.

Lemma inv_cursor_12 w : Inv_n w -> 12 <= w_cursor w.
Proof. intros []. change header_size with 12 in *. lia. Qed.

Lemma tc_clear_agree w b' : Inv_n w -> agree (w_cursor w) (w_buf w) b' -> tc_clear w ->
  exists x, nth_error b' (N.to_nat TC_BYTE) = Some x /\ N.land x TC_MASK = 0%N.
Proof.
  intros Hi Ha (x & Hx & Hm). exists x. split; [|exact Hm].
  rewrite (agree_nth _ _ _ _ Ha); [exact Hx|]. pose proof (inv_cursor_12 w Hi). change (N.to_nat TC_BYTE) with 2. lia.
Qed.

Lemma PW_obs L w w' : PW L w -> obs_eq w w' -> PW L w'.
Proof.
  intros (Hi & Hl & Ht) X. split; [eapply obs_eq_inv; eauto|]. split; [rewrite (o_lim _ _ X); exact Hl|].
  exact (tc_clear_agree w (w_buf w') Hi (o_buf _ _ X) Ht).
Qed.

Lemma PW_ext_counts L w w2 s c : PW L w -> ext (w_cursor w) w w2 -> Inv_n (set_sec_count s w2 c) ->
  PW L (set_sec_count s w2 c).
Proof.
  intros (Hi & Hl & Ht) X Hi'. split; [exact Hi'|].
  split; [destruct s; cbn; rewrite (x_lim _ _ _ X); exact Hl|].
  pose proof (tc_clear_agree w (w_buf w2) Hi (x_agree _ _ _ X) Ht) as H. destruct s; exact H.
Qed.

(* ---- add_*_rr / add_*_rrset: success extends and bumps one counter, failure is observably a no-op *)
Lemma section_rr_ok s h owner ty cl ttl rd v w : Inv_n w ->
  match add_section_rr s h owner ty cl ttl rd v w with
  | Ok (_, w') => Inv_n w' /\ exists w2 c, ext (w_cursor w) w w2 /\ w' = set_sec_count s w2 c
  | Err (_, w') => obs_eq w w'
  | Panic => True
  end.
Proof.
  intros Hi. pose proof (inv_pre _ Hi) as Hp. unfold add_section_rr, with_rollback.
  pose proof (frame_section_rr_body (w_cursor w) s h owner ty cl ttl rd v w Hp) as B.
  pose proof (frame_change_section (w_cursor w) s w Hp) as F1.
  destruct (change_section s w) as [[[] w1]|[e w1]|]; cbn [bind] in *.
  - pose proof (frame_add_rr (w_cursor w) h owner ty cl ttl rd v w1 (pre_ext _ _ _ Hp F1)) as F2.
    destruct (add_rr h owner ty cl ttl rd v w1) as [[v' w2]|[e w2]|]; cbn [bind] in *; auto.
    + destruct (checked_add16 (sec_count s w2) 1) as [c|].
      * split; [apply B; exact Hi|]. exists w2, c. split; [eapply ext_trans; eauto|reflexivity].
      * destruct B. constructor; simpl; auto.
    + destruct B. constructor; simpl; auto.
  - destruct B. constructor; simpl; auto.
  - exact I.
Qed.

Lemma section_rrset_ok s h owner ty cl ttl rds v w : Inv_n w ->
  match add_section_rrset s h owner ty cl ttl rds v w with
  | Ok (_, w') => Inv_n w' /\ exists w2 c, ext (w_cursor w) w w2 /\ w' = set_sec_count s w2 c
  | Err (_, w') => obs_eq w w'
  | Panic => True
  end.
Proof.
  intros Hi. pose proof (inv_pre _ Hi) as Hp. unfold add_section_rrset, with_rollback.
  pose proof (frame_section_rrset_body (w_cursor w) s h owner ty cl ttl rds v w Hp) as B.
  pose proof (frame_change_section (w_cursor w) s w Hp) as F1.
  destruct (change_section s w) as [[[] w1]|[e w1]|]; cbn [bind] in *.
  - pose proof (frame_rrset_loop (w_cursor w) rds h owner ty cl ttl v 0 w1 (pre_ext _ _ _ Hp F1)) as F2.
    destruct (add_rrset_loop h owner ty cl ttl rds v 0 w1) as [[[v' k] w2]|[e w2]|]; cbn [bind] in *; auto.
    + destruct (65535 <? N.of_nat k)%N.
      * destruct B. constructor; simpl; auto.
      * destruct (checked_add16 (sec_count s w2) (N.of_nat k)) as [c|].
        -- split; [apply B; exact Hi|]. exists w2, c. split; [eapply ext_trans; eauto|reflexivity].
        -- destruct B. constructor; simpl; auto.
    + destruct B. constructor; simpl; auto.
  - destruct B. constructor; simpl; auto.
  - exact I.
Qed.

(* ---- header setters *)
Lemma land_set_bit_other mask m v x : N.land mask m = 0%N -> N.land (255 - mask) m = m ->
  N.land (set_bit mask v x) m = N.land x m.
Proof.
  intros H0 H1. unfold set_bit. destruct v.
  - rewrite N.land_lor_distr_l, H0. apply N.lor_0_r.
  - rewrite <- N.land_assoc, H1. reflexivity.
Qed.

Lemma w_modify_nth w i f w' : w_modify w i f = Ok w' ->
  exists x, nth_error (w_buf w) (N.to_nat i) = Some x /\
            nth_error (w_buf w') (N.to_nat i) = Some (f x) /\
            (forall j, j <> N.to_nat i -> nth_error (w_buf w') j = nth_error (w_buf w) j) /\
            exists b', w' = set_buf w b' /\ length b' = length (w_buf w).
Proof.
  unfold w_modify. destruct (nth_error (w_buf w) (N.to_nat i)) as [x|] eqn:E; [|discriminate].
  intros H. apply w_write_inv in H as (b' & Hb & ->). exists x. split; [reflexivity|].
  split; [|split].
  - cbn [w_buf set_buf]. pose proof (buf_write_nth_in _ _ _ _ 0 (f x) Hb eq_refl) as H. rewrite Nat.add_0_r in H. exact H.
  - intros j Hj. cbn [w_buf set_buf]. apply buf_write_inv in Hb as [Hlen ->]. cbn [length app] in *.
    destruct (lt_dec j (N.to_nat i)) as [Hlt|Hge].
    + rewrite nth_error_app1 by (rewrite firstn_length; lia). apply nth_error_firstn_lt. exact Hlt.
    + rewrite nth_error_app2 by (rewrite firstn_length; lia). rewrite firstn_length.
      assert (Hi : N.to_nat i < length (w_buf w)) by (apply nth_error_Some; congruence).
      replace (j - Nat.min (N.to_nat i) (length (w_buf w))) with (S (j - N.to_nat i - 1)) by lia.
      cbn [nth_error]. rewrite nth_error_skipn. f_equal. lia.
  - exists b'. split; [reflexivity|]. eapply buf_write_length; eauto.
Qed.

Lemma PW_modify_keep L w i f w' : PW L w -> w_modify w i f = Ok w' ->
  (N.to_nat i = N.to_nat TC_BYTE -> forall x, N.land (f x) TC_MASK = N.land x TC_MASK) ->
  PW L w'.
Proof.
  intros (Hi & Hl & (x0 & Hx0 & Hm0)) E Hf. pose proof (inv_w_modify _ _ _ _ Hi E) as Hi'.
  destruct (w_modify_nth _ _ _ _ E) as (x & Hx & Hx' & Hoth & b' & -> & Hlen).
  split; [exact Hi'|]. split; [exact Hl|].
  destruct (Nat.eq_dec (N.to_nat i) (N.to_nat TC_BYTE)) as [Heq|Hne].
  - exists (f x). rewrite <- Heq. split; [exact Hx'|]. rewrite (Hf Heq). rewrite Heq in Hx. congruence.
  - exists x0. split; [|exact Hm0]. rewrite Hoth by auto. exact Hx0.
Qed.

Lemma PW_set_aa L b w w' : PW L w -> set_aa b w = Ok w' -> PW L w'.
Proof.
  intros H E. unfold set_aa, w_set_flag in E. eapply PW_modify_keep; eauto.
  intros _ x. apply land_set_bit_other; reflexivity.
Qed.

Lemma PW_set_rcode L rc w w' : PW L w -> set_rcode rc w = Ok w' -> PW L w'.
Proof.
  intros H E. unfold set_rcode in E.
  destruct (w_modify w RCODE_BYTE _) as [w1|e|] eqn:E1; cbn [bind] in E; try discriminate.
  inversion E; subst. assert (H1 : PW L w1).
  { eapply PW_modify_keep; eauto. intros Habs. exfalso. revert Habs. change (N.to_nat RCODE_BYTE) with 3.
    change (N.to_nat TC_BYTE) with 2. lia. }
  destruct H1 as (Hi & Hl & Ht). split; [apply inv_clear_upper; exact Hi|].
  unfold clear_upper. destruct (w_edns w1); auto.
Qed.

(* ---- the interface instance preserves PW *)
Lemma wi_rr_PW L s h o ty c ttl rd w : PW L w -> RP (PW L) (wi_add_rr w_iface s h o ty c ttl rd w).
Proof.
  intros Hp. pose proof Hp as (Hi & _ & _). cbn [wi_add_rr w_iface].
  pose proof (section_rr_ok (sec_of s) (hint_of h) o ty c (ttl_from ttl) rd None w Hi) as H.
  destruct (add_section_rr (sec_of s) (hint_of h) o ty c (ttl_from ttl) rd None w) as [[v w']|[e w']|]; cbn [RP]; auto.
  - destruct H as (Hi' & w2 & cc & X & ->). eapply PW_ext_counts; eauto.
  - eapply PW_obs; eauto.
Qed.

Lemma wi_rrset_PW L s h o ty c ttl rds b w : PW L w ->
  match wi_add_rrset w_iface s h o ty c ttl rds b w with
  | Ok (_, w') => PW L w' | Err (_, w') => PW L w' | Panic => True end.
Proof.
  intros Hp. pose proof Hp as (Hi & _ & _). cbn [wi_add_rrset w_iface].
  pose proof (section_rrset_ok (sec_of s) (hint_of h) o ty c (ttl_from ttl) rds (if b then Some [] else None) w Hi) as H.
  destruct (add_section_rrset (sec_of s) (hint_of h) o ty c (ttl_from ttl) rds (if b then Some [] else None) w)
    as [[v w']|[e w']|]; auto.
  - destruct H as (Hi' & w2 & cc & X & ->). eapply PW_ext_counts; eauto.
  - eapply PW_obs; eauto.
Qed.

Lemma wi_aa_PW L b w w' : PW L w -> wi_set_aa w_iface b w = Some w' -> PW L w'.
Proof.
  cbn [wi_set_aa w_iface]. intros H E. destruct (set_aa b w) as [w1|e|] eqn:E1; try discriminate.
  inversion E; subst. eapply PW_set_aa; eauto.
Qed.
Lemma wi_rc_PW L c w w' : PW L w -> wi_set_rcode w_iface c w = Some w' -> PW L w'.
Proof.
  cbn [wi_set_rcode w_iface]. intros H E. destruct (set_rcode c w) as [w1|e|] eqn:E1; try discriminate.
  inversion E; subst. eapply PW_set_rcode; eauto.
Qed.

(* ---- clear_rrs *)
Definition pseudo_count (w : writer) : N := ((if w_edns w then 1 else 0) + (if w_tsig w then 1 else 0))%N.
Definition no_records (w : writer) : Prop :=
  w_an w = 0%N /\ w_ns w = 0%N /\ w_ar w = pseudo_count w /\ w_cursor w = w_rr_start w.

Lemma PW_clear L w : PW L w -> PW L (clear_rrs w) /\ no_records (clear_rrs w).
Proof.
  intros (Hi & Hl & Ht). split; [|repeat split].
  destruct Hi as [h1 h2 h3 h4 h5]. split; [constructor; cbn; auto; try lia|split; [exact Hl|exact Ht]].
Qed.

(* ---- the whole answering logic *)
Definition finish_w (tcp : bool) (q : res (perr * writer) (unit * writer)) : option writer :=
  match q with
  | Panic => None
  | Ok (_, w1) => Some w1
  | Err (PServFail, w1) =>
    match wi_set_aa w_iface false w1 with
    | None => None
    | Some w2 => match wi_set_rcode w_iface RCODE_SERVFAIL w2 with
                 | None => None
                 | Some w3 => Some (wi_clear_rrs w_iface w3)
                 end
    end
  | Err (PTruncation, w1) =>
    let w2 := wi_clear_rrs w_iface w1 in
    if tcp then
      match wi_set_aa w_iface false w2 with
      | None => None
      | Some w3 => wi_set_rcode w_iface RCODE_SERVFAIL w3
      end
    else wi_set_tc w_iface true w2
  end.

Lemma handle_w_finish negttl z qname qtype tcp w :
  handle_non_axfr_query w_iface negttl z qname qtype tcp w =
  finish_w tcp (if (qtype =? QTYPE_ANY)%N then answer_any w_iface negttl z qname w
                else answer w_iface negttl z qname qtype w).
Proof. reflexivity. Qed.

Lemma finish_PW L tcp q w' : QP (PW L) q -> finish_w tcp q = Some w' ->
  Inv_n w' /\ w_limit w' = L /\
  (tcp = true -> tc_clear w') /\
  (tc_clear w' \/ (tcp = false /\ tc_set w' /\ no_records w')).
Proof.
  destruct q as [[u w1]|[[|] w1]|]; cbn [QP finish_w]; intros HQ; try discriminate.
  - intros E; inversion E; subst. destruct HQ as (A & B & C). auto.
  - destruct (wi_set_aa w_iface false w1) as [w2|] eqn:E2; [|discriminate].
    destruct (wi_set_rcode w_iface RCODE_SERVFAIL w2) as [w3|] eqn:E3; [|discriminate].
    intros E; inversion E; subst. cbn [wi_clear_rrs w_iface].
    pose proof (wi_rc_PW L _ _ _ (wi_aa_PW L _ _ _ HQ E2) E3) as H3.
    destruct (PW_clear L w3 H3) as ((A & B & C) & _). auto.
  - cbn [wi_clear_rrs w_iface]. destruct (PW_clear L w1 HQ) as (Hc & Hn).
    destruct tcp.
    + destruct (wi_set_aa w_iface false (clear_rrs w1)) as [w2|] eqn:E2; [|discriminate].
      intros E3. destruct (wi_rc_PW L _ _ _ (wi_aa_PW L _ _ _ Hc E2) E3) as (A & B & C). auto.
    + cbn [wi_set_tc w_iface]. destruct (set_tc true (clear_rrs w1)) as [w2|e|] eqn:E2; try discriminate.
      intros E; inversion E; subst. unfold set_tc, w_set_flag in E2.
      destruct Hc as (Hi & Hl & Ht). pose proof (inv_w_modify _ _ _ _ Hi E2) as Hi'.
      destruct (w_modify_nth _ _ _ _ E2) as (x & Hx & Hx' & Hoth & b' & -> & Hlen).
      split; [exact Hi'|]. split; [exact Hl|]. split; [discriminate|]. right. split; [reflexivity|]. split.
      * exists (set_bit TC_MASK true x). split; [exact Hx'|]. unfold set_bit.
        intros Habs. assert (H : N.testbit (N.lor x TC_MASK) 1 = true).
        { rewrite N.lor_spec. change (N.testbit TC_MASK 1) with true. apply orb_true_r. }
        assert (H0 : N.testbit (N.land (N.lor x TC_MASK) TC_MASK) 1 = true).
        { rewrite N.land_spec, H. reflexivity. }
        rewrite Habs in H0. discriminate.
      * exact Hn.
Qed.

Theorem handle_PW L negttl z qname qtype tcp w w' : PW L w ->
  handle_non_axfr_query w_iface negttl z qname qtype tcp w = Some w' ->
  Inv_n w' /\ w_limit w' = L /\
  (tcp = true -> tc_clear w') /\
  (tc_clear w' \/ (tcp = false /\ tc_set w' /\ no_records w')).
Proof.
  intros Hp. rewrite handle_w_finish. apply finish_PW.
  destruct (qtype =? QTYPE_ANY)%N.
  - apply answer_any_P; first [exact Hp | intros; first [apply wi_rr_PW; assumption | apply wi_rrset_PW; assumption | eapply wi_aa_PW; eassumption | eapply wi_rc_PW; eassumption]].
  - apply answer_P; first [exact Hp | intros; first [apply wi_rr_PW; assumption | apply wi_rrset_PW; assumption | eapply wi_aa_PW; eassumption | eapply wi_rc_PW; eassumption]].
Qed.

(* ---------------------------------------------------------------- the prepared writer *)
Lemma buf_write_nth_out b pos d b' j : buf_write b pos d = Some b' -> pos + length d <= j ->
  nth_error b' j = nth_error b j.
Proof.
  intros H Hj. apply buf_write_inv in H as [Hlen ->].
  rewrite nth_error_app2 by (rewrite firstn_length; lia). rewrite firstn_length.
  rewrite nth_error_app2 by lia. rewrite nth_error_skipn. f_equal. lia.
Qed.

Lemma PW_write_low L w pos d w' : PW L w -> w_write w pos d = Ok w' -> pos + length d <= 2 -> PW L w'.
Proof.
  intros (Hi & Hl & (x & Hx & Hm)) E Hle. pose proof (inv_w_write _ _ _ _ Hi E) as Hi'.
  apply w_write_inv in E as (b' & Hb & ->). split; [exact Hi'|]. split; [exact Hl|].
  exists x. split; [|exact Hm]. cbn [w_buf set_buf]. rewrite (buf_write_nth_out _ _ _ _ _ Hb); [exact Hx|].
  change (N.to_nat TC_BYTE) with 2. lia.
Qed.

Lemma PW_add_question L qname qtype qclass w u w' : PW L w -> add_question qname qtype qclass w = Ok (u, w') -> PW L w'.
Proof.
  intros (Hi & Hl & Ht) E. pose proof (inv_pre _ Hi) as Hp.
  assert (Hi' : Inv_n w').
  { pose proof (step_good_all (mkD w []) (OAddQuestion qname qtype qclass) Hi) as G. cbn [step d_w] in G.
    rewrite E in G. exact G. }
  unfold add_question in E. destruct (w_section w); try discriminate.
  destruct (checked_add16 (w_qd w) 1) as [nq|]; [|discriminate].
  match type of E with context [with_rollback ?f _] =>
    pose proof (rollback_spec f w Hi (question_body_frame _ qname qtype qclass w Hp)) as R;
    destruct (with_rollback f w) as [[[] w1]|[e w1]|] end; cbn [bind] in E; try discriminate.
  injection E as _ Hw. subst w'. split; [exact Hi'|]. split; [cbn; rewrite (x_lim _ _ _ R); exact Hl|].
  exact (tc_clear_agree w (w_buf w1) Hi (x_agree _ _ _ R) Ht).
Qed.

Lemma land_opcode x : N.land (N.lor (N.land x (255 - OPCODE_MASK)) ((0 * 2 ^ OPCODE_SHIFT) mod 256)) TC_MASK = N.land x TC_MASK.
Proof.
  change ((0 * 2 ^ OPCODE_SHIFT) mod 256)%N with 0%N. rewrite N.lor_0_r, <- N.land_assoc. reflexivity.
Qed.

Lemma set_limit_facts l w w' : MsgWriter.set_limit l w = Ok w' ->
  w_buf w' = w_buf w /\ (w_limit w <= l -> w_limit w' = Nat.min l (length (w_buf w))).
Proof.
  unfold MsgWriter.set_limit. destruct (w_limit w <=? l) eqn:Le.
  - destruct (_ <? _); [discriminate|]. intros H; inversion H; subst. cbn. auto.
  - apply Nat.leb_gt in Le. destruct (_ <? _); [discriminate|]. destruct (_ <? _); [discriminate|].
    destruct (_ <? _); [discriminate|]. intros H; inversion H; subst. cbn. split; [reflexivity|lia].
Qed.

Theorem prepare_PW buf tcp id rd qname qtype qclass edns limit w :
  prepare_w buf tcp id rd qname qtype qclass edns limit = Some w ->
  exists L, PW L w /\
    (tcp = true -> L <= N.to_nat 65535) /\
    (tcp = false -> edns = None -> L <= N.to_nat 512) /\
    (tcp = false -> edns <> None -> N.to_nat 512 <= limit -> L <= limit).
Proof.
  unfold prepare_w.
  destruct (writer_new buf (if tcp then tcp_limit_w else udp_limit_w)) as [w0|e|] eqn:E0; try discriminate.
  assert (H0 : PW (Nat.min (if tcp then tcp_limit_w else udp_limit_w) (length buf)) w0).
  { split; [eapply writer_new_inv; eauto|]. unfold writer_new in E0.
    destruct (_ <? header_size); [discriminate|]. destruct (length buf <? header_size); [discriminate|].
    inversion E0; subst. split; [reflexivity|]. exists 0%N. split; reflexivity. }
  set (L0 := Nat.min (if tcp then tcp_limit_w else udp_limit_w) (length buf)) in *.
  destruct (set_id id w0) as [w1|e|] eqn:E1; cbn [bind]; try discriminate.
  destruct (set_qr true w1) as [w2|e|] eqn:E2; cbn [bind]; try discriminate.
  destruct (set_opcode 0 w2) as [w3|e|] eqn:E3; cbn [bind]; try discriminate.
  destruct (set_rd rd w3) as [w4|e|] eqn:E4; try discriminate.
  assert (H1 : PW L0 w1) by (eapply PW_write_low; [exact H0|exact E1|cbn; lia]).
  assert (H2 : PW L0 w2).
  { unfold set_qr, w_set_flag in E2. eapply PW_modify_keep; eauto. intros _ x. apply land_set_bit_other; reflexivity. }
  assert (H3 : PW L0 w3).
  { unfold set_opcode in E3. eapply PW_modify_keep; eauto. intros _ x. apply land_opcode. }
  assert (H4 : PW L0 w4).
  { unfold set_rd, w_set_flag in E4. eapply PW_modify_keep; eauto. intros _ x. apply land_set_bit_other; reflexivity. }
  destruct (add_question qname qtype qclass w4) as [[u w5]|e|] eqn:E5; try discriminate.
  pose proof (PW_add_question _ _ _ _ _ _ _ H4 E5) as H5.
  assert (HL0 : (tcp = true -> L0 <= N.to_nat 65535) /\ (tcp = false -> L0 <= N.to_nat 512)).
  { unfold L0. split; intros ->; [change tcp_limit_w with (N.to_nat 65535)|change udp_limit_w with (N.to_nat 512)]; apply Nat.le_min_l. }
  destruct edns as [size|].
  - unfold set_edns. destruct (w_edns w5) eqn:Ee; [discriminate|].
    destruct (w_avail w5 <? w_cursor w5 + opt_record_size) eqn:Ea; [discriminate|].
    destruct (checked_add16 (w_ar w5) 1) as [ar|]; [|discriminate].
    set (w6 := set_edns_f _ _).
    assert (H6 : PW L0 w6).
    { destruct H5 as (Hi & Hl & Ht). apply Nat.ltb_ge in Ea. split; [|split; [exact Hl|exact Ht]].
      destruct Hi as [h1 h2 h3 h4 h5]. unfold resv in *. rewrite Ee in h4.
      unfold w6. change opt_record_size with 11 in *.
      constructor; unfold resv; change opt_record_size with 11;
        cbn [w_rr_start w_cursor w_avail w_limit w_buf w_edns w_tsig set_edns_f set_avail set_limit_avail set_counts];
        try lia; destruct (w_tsig w5); lia. }
    destruct tcp.
    + intros E; inversion E; subst. exists L0. split; [exact H6|]. destruct HL0. repeat split; auto; discriminate.
    + destruct (MsgWriter.set_limit limit w6) as [w7|e|] eqn:E7; try discriminate.
      intros E; injection E as Hw; subst w7. destruct H6 as (Hi & Hl & Ht).
      destruct (set_limit_facts _ _ _ E7) as (Hb & Hlim).
      exists (w_limit w). split; [split; [eapply set_limit_inv; eauto|split; [reflexivity|]]|].
      * unfold tc_clear, hdr_flag_clear. rewrite Hb. exact Ht.
      * split; [discriminate|]. split; [intros _ Hn; discriminate|]. intros _ _ H512.
        destruct HL0 as [_ HL0]. specialize (HL0 eq_refl).
        rewrite Hlim by lia. apply Nat.le_min_l.
  - intros E; inversion E; subst. exists L0. split; [exact H5|]. destruct HL0. repeat split; auto.
    intros _ Hn. congruence.
Qed.

(* the complete response is never longer than the limit in effect *)
Theorem respond_w_limit negttl buf tcp id rd qname qtype qclass edns limit z len b :
  respond_w negttl buf tcp id rd qname qtype qclass edns limit z = Some (len, b) ->
  (tcp = true -> len <= N.to_nat 65535) /\
  (tcp = false -> edns = None -> len <= N.to_nat 512) /\
  (tcp = false -> edns <> None -> N.to_nat 512 <= limit -> len <= limit).
Proof.
  unfold respond_w.
  destruct (prepare_w buf tcp id rd qname qtype qclass edns limit) as [w|] eqn:Ep; [|discriminate].
  destruct (prepare_PW _ _ _ _ _ _ _ _ _ _ Ep) as (L & Hp & B1 & B2 & B3).
  destruct (handle_non_axfr_query w_iface negttl z qname qtype tcp w) as [w'|] eqn:Eh; [|discriminate].
  destruct (handle_PW L _ _ _ _ _ _ _ Hp Eh) as (Hi & Hl & _).
  destruct (finish w') as [[len' b']|e|] eqn:Ef; try discriminate.
  intros E; injection E as E1 E2; subst len' b'.
  destruct (finish_gen_limit _ _ _ _ Hi Ef) as [Hlen _]. rewrite Hl in Hlen.
  repeat split; intros; etransitivity; eauto.
Qed.
