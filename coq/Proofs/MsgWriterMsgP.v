(* Message level: every operation preserves, together with the anchor invariant, the LAYOUT invariant:
   the buffer below the cursor consists of the questions and records of the abstract message denoted
   by the operations that succeeded (Spec/MsgWriterAbsS.v), each name chunk being the plain wire
   form or labels + one pointer to a label start of an earlier chunk. *)
From QV Require Import Base.ListX Model.MsgWriter Spec.NameRepr Proofs.NameWireP Proofs.MsgWriterP
     Proofs.MsgWriterScanP Proofs.MsgWriterNameP Proofs.MsgWriterInvP Proofs.MsgWriterClosP
     Proofs.MsgWriterScanSP Proofs.MsgWriterNameSP Proofs.MsgWriterLayP Proofs.MsgWriterOpP
     Proofs.MsgWriterStepP.
From QV Require Import Spec.MsgWriterAbsS.

Local Open Scope nat_scope.

(* ---------------------------------------------------------------- the section field is only set by change_section *)

Definition secf {A} (w : writer) (r : M A) : Prop :=
  match r with
  | Ok (_, w') => w_section w' = w_section w
  | Err (_, w') => w_section w' = w_section w
  | Panic => True
  end.

Lemma secf_bind {A B} w (r : M A) (g : A * writer -> M B) : secf w r ->
  (forall a w1, r = Ok (a, w1) -> secf w1 (g (a, w1))) -> secf w (bind r g).
Proof.
  intros Hr Hg. destruct r as [[a w1]|[e w1]|]; simpl in *; auto.
  specialize (Hg a w1 eq_refl). destruct (g (a, w1)) as [[b w2]|[e w2]|]; simpl in *; congruence.
Qed.

Lemma secf_try_push data w : secf w (try_push data w).
Proof.
  destruct (try_push data w) as [[u w1]|[e w1]|] eqn:E; simpl; auto.
  - destruct (try_push_ext 0 _ _ _ _ E ltac:(lia)) as [_ [[_ [_ [_ S]]] _]]. exact S.
  - apply try_push_err in E as [_ ->]. reflexivity.
Qed.

Lemma secf_uncompressed n w : secf w (write_uncompressed_name n w).
Proof.
  unfold write_uncompressed_name. apply secf_bind; [apply secf_try_push|].
  intros [] w1 _. simpl. reflexivity.
Qed.

Lemma secf_tail n w cs : secf w (compressed_tail n w cs).
Proof.
  unfold compressed_tail. destruct (longest_match cs) as [[sc pp]|]; [|apply secf_uncompressed].
  destruct (sc =? 0).
  - apply secf_bind; [apply secf_try_push|]. intros [] w1 _. simpl. reflexivity.
  - destruct (nm_wire_to n sc); simpl; auto.
    apply secf_bind; [apply secf_try_push|]. intros [] w1 _.
    apply secf_bind; [apply secf_try_push|]. intros [] w2 _. simpl. reflexivity.
Qed.

Lemma secf_compressed n w : secf w (write_compressed_unhinted_name n w).
Proof.
  rewrite write_compressed_unfold.
  assert (G : secf w
    (let* (cs, _) := lift (let* c1 := opt_build (w_buf w) (nm_len n) (or_else (w_mro w) (w_qname w)) in
                           let* c2 := opt_build (w_buf w) (nm_len n) (w_mrn w) in
                           scan (w_buf w) (cpflag (w_mode w)) 0 n (c1, c2)) w in
     compressed_tail n w cs)).
  { match goal with |- context [lift ?X _] => destruct X as [cs|e|] end; simpl; auto. apply secf_tail. }
  destruct (or_else (w_mro w) (w_qname w)); [exact G|].
  destruct (w_mrn w); [exact G|apply secf_uncompressed].
Qed.

Lemma secf_unhinted n w : secf w (write_unhinted_name n w).
Proof.
  unfold write_unhinted_name.
  destruct (w_mode w); try destruct (2 <? length (nm_wire n));
    first [apply secf_compressed|apply secf_uncompressed].
Qed.

Lemma secf_push_prior pr w : secf w (push_prior_ptr pr w).
Proof.
  unfold push_prior_ptr. apply secf_bind; [apply secf_try_push|]. intros [] w1 _. simpl. reflexivity.
Qed.

Lemma secf_hinted h n w : secf w (write_hinted_name h n w).
Proof.
  unfold write_hinted_name.
  destruct (w_mode w); try destruct (length (nm_wire n) <=? 2);
    try (apply secf_uncompressed); try (apply secf_compressed).
  destruct h.
  - destruct (w_qname w); [apply secf_push_prior|apply secf_compressed].
  - destruct (w_mro w); [apply secf_push_prior|apply secf_compressed].
  - destruct (w_mrn w); [apply secf_push_prior|apply secf_compressed].
  - destruct (p <? w_cursor w); [apply secf_push_prior|apply secf_compressed].
  - apply secf_compressed.
Qed.

Lemma secf_components : forall cts rdata v w, secf w (write_components cts rdata v w).
Proof.
  induction cts as [|ct rest IH]; intros rdata v w; simpl.
  - destruct (length rdata =? 0); [simpl; reflexivity|].
    apply secf_bind; [apply secf_try_push|]. intros [] w1 _. simpl. reflexivity.
  - assert (Hname : forall (wr : wname -> writer -> M (option prior)),
               (forall n w, secf w (wr n w)) ->
               secf w
                 match parse_uncompressed_name rdata false with
                 | Ok (nm, len) =>
                   let n := labels_of_name nm in
                   let* (pr, w1) := wr n w in
                   let w2 := set_mrn w1 pr in
                   write_components rest (skipn len rdata) (hv_push v pr) w2
                 | Err _ => Err (InvalidRdata, w)
                 | Panic => Panic
                 end).
    { intros wr Hwr. destruct (parse_uncompressed_name rdata false) as [[nm len]|e|]; simpl; auto.
      apply secf_bind; auto. intros pr w1 _. simpl.
      specialize (IH (skipn len rdata) (hv_push v pr) (set_mrn w1 pr)).
      destruct (write_components rest (skipn len rdata) (hv_push v pr) (set_mrn w1 pr)) as [[a w3]|[e w3]|];
        simpl in *; auto. }
    destruct ct as [| |k].
    + apply (Hname write_unhinted_name). intros; apply secf_unhinted.
    + apply (Hname write_uncompressed_name). intros; apply secf_uncompressed.
    + destruct (length rdata <? k); [simpl; reflexivity|].
      apply secf_bind; [apply secf_try_push|]. intros [] w1 _. apply IH.
Qed.

Lemma secf_add_rr h owner ty cl ttl rd v w : secf w (add_rr h owner ty cl ttl rd v w).
Proof.
  unfold add_rr. apply secf_bind; [apply secf_hinted|]. intros pr w1 _. cbn beta iota.
  cut (secf (set_mro w1 pr)
        (let* (_, w2) := try_push_u16 ty (set_mro w1 pr) in
         let* (_, w3) := try_push_u16 cl w2 in
         let* (_, w4) := try_push_u32 ttl w3 in
         if w_avail w4 <? w_cursor w4 then Panic
         else if w_avail w4 - w_cursor w4 <? 2 then Err (Truncation, w4)
         else
           let rdlength_start := w_cursor w4 in
           let w5 := set_cursor w4 (w_cursor w4 + 2) in
           let* (v', w6) := write_components (component_types cl ty) rd v w5 in
           if w_cursor w6 <? rdlength_start + 2 then Panic
           else
             let rdlength := w_cursor w6 - rdlength_start - 2 in
             let* (w7, _) := lift (w_write w6 rdlength_start (be16 (N.of_nat rdlength mod 65536))) w6 in
             Ok (v', w7))).
  { intros F. destruct (let* (_, w2) := try_push_u16 ty (set_mro w1 pr) in _) as [[a wz]|[e wz]|];
      simpl in *; auto. }
  apply secf_bind; [apply secf_try_push|]. intros [] w2 _.
  apply secf_bind; [apply secf_try_push|]. intros [] w3 _.
  apply secf_bind; [apply secf_try_push|]. intros [] w4 _. cbn beta iota.
  destruct (w_avail w4 <? w_cursor w4); [exact I|].
  destruct (w_avail w4 - w_cursor w4 <? 2); [simpl; reflexivity|]. cbn zeta.
  pose proof (secf_components (component_types cl ty) rd v (set_cursor w4 (w_cursor w4 + 2))) as F6.
  destruct (write_components (component_types cl ty) rd v (set_cursor w4 (w_cursor w4 + 2)))
    as [[v' w6]|[e w6]|]; simpl in *; auto.
  destruct (w_cursor w6 <? w_cursor w4 + 2); [exact I|].
  unfold lift, w_write. destruct (buf_write (w_buf w6) (w_cursor w4) _); simpl; auto.
Qed.

Lemma secf_rrset_loop : forall rds h owner ty cl ttl v k w, secf w (add_rrset_loop h owner ty cl ttl rds v k w).
Proof.
  induction rds as [|rd rest IH]; intros h owner ty cl ttl v k w; simpl; [reflexivity|].
  apply secf_bind; [apply secf_add_rr|]. intros v' w1 _. apply IH.
Qed.

(* ---------------------------------------------------------------- the field part of the layout invariant *)

Lemma change_section_ok s w u w1 : change_section s w = Ok (u, w1) ->
  w1 = set_section w s /\
  match s with
  | SecQuestion => False
  | SecAnswer => w_section w = SecQuestion \/ w_section w = SecAnswer
  | SecAuthority => w_section w <> SecAdditional
  | SecAdditional => True
  end.
Proof.
  unfold change_section. destruct s; destruct (w_section w) eqn:E; intros H; inversion H; subst;
    split; auto; try discriminate; try (rewrite <- E; apply set_section_id).
Qed.

Lemma checked_add16_some a b c : checked_add16 a b = Some c -> c = (a + b)%N /\ (c <= 65535)%N.
Proof.
  unfold checked_add16. destruct (65535 <? a + b)%N eqn:E; intros H; inversion H; subst.
  apply N.ltb_ge in E. auto.
Qed.

Lemma FLay_add w y A s w2 c rsn asn : FLay w y A ->
  match s with
  | SecQuestion => False
  | SecAnswer => w_section w = SecQuestion \/ w_section w = SecAnswer
  | SecAuthority => w_section w <> SecAdditional
  | SecAdditional => True
  end ->
  w_section w2 = s -> w_mode w2 = w_mode w -> w_qd w2 = w_qd w -> w_an w2 = w_an w -> w_ns w2 = w_ns w ->
  w_ar w2 = w_ar w -> w_edns w2 = w_edns w -> w_tsig w2 = w_tsig w ->
  Forall2 rr_desc2 rsn asn -> checked_add16 (sec_count s w2) (N.of_nat (length asn)) = Some c ->
  FLay (set_sec_count s w2 c) (mkLay (y_qs y) (y_rrs y ++ rsn)) (add_rrs A s asn).
Proof.
  intros [Fq Fr Fm Cq Ca Cn Cr [Bq [Ba [Bn Br]]] Fe Fs] Hs Es Em Eq Ea En Er Ee Et Hd Hc.
  apply checked_add16_some in Hc as [Hc Hb].
  destruct s; [contradiction| | |].
  - (* answer *)
    assert (Hnil : am_ns A = [] /\ am_ar A = []).
    { destruct Hs as [K|K]; rewrite K in Fs; tauto. }
    destruct Hnil as [N1 N2]. rewrite N1, N2 in Fr. rewrite !app_nil_r in Fr.
    constructor; simpl; auto; try congruence.
    + rewrite N1, N2, !app_nil_r. apply Forall2_app; auto.
    + simpl in Hc. rewrite Hc, Ea, Ca, app_length. lia.
    + simpl in Hb. rewrite Eq, En, Er. auto.
    + intros e0 He0. apply Fe. congruence.
    + rewrite Es. auto.
  - (* authority *)
    assert (Hnil : am_ar A = []).
    { destruct (w_section w); try tauto. }
    rewrite Hnil in Fr. rewrite !app_nil_r in Fr.
    constructor; simpl; auto; try congruence.
    + rewrite Hnil, !app_nil_r. rewrite app_assoc. apply Forall2_app; auto.
    + simpl in Hc. rewrite Hc, En, Cn, app_length. lia.
    + simpl in Hb. rewrite Eq, Ea, Er. auto.
    + intros e0 He0. apply Fe. congruence.
    + rewrite Es. auto.
  - (* additional *)
    constructor; simpl; auto; try congruence.
    + rewrite !app_assoc. apply Forall2_app; auto. rewrite <- app_assoc. exact Fr.
    + simpl in Hc. rewrite Hc, Er, Cr, Ee, Et, app_length. lia.
    + simpl in Hb. rewrite Eq, Ea, En. auto.
    + intros e0 He0. apply Fe. congruence.
    + rewrite Es. auto.
Qed.

(* ---------------------------------------------------------------- combined preservation *)

Definition step_ok2 (d : dstate) (g : gn) (y : lay) (A : amsg) (o : wop) : Prop :=
  match step d o with
  | Ok (d', r) => exists L' y', AInv d' (gstep d g o r) L' /\ LInv d' y' (astep A o r) L'
  | _ => False
  end.

Lemma PLay_append d g y A L w2 L2 rsn : AInv d g L -> LInv d y A L ->
  ext (w_cursor (d_w d)) (d_w d) w2 -> grew (d_w d) w2 L L2 ->
  rrs_at (w_buf w2) L2 rsn (w_cursor (d_w d)) (w_cursor w2) ->
  (forall s, L2 s <-> L s \/ In s (rrs_starts rsn)) ->
  PLay (w_buf w2) L2 (mkLay (y_qs y) (y_rrs y ++ rsn)) (w_rr_start (d_w d)) (w_cursor w2).
Proof.
  intros Hi [[P1 P2 P3] _] X G R T. pose proof (a_n _ _ _ Hi) as Hn.
  pose proof (x_agree _ _ _ X) as Ag. destruct Hn.
  constructor; simpl.
  - eapply qs_mono; [apply G|]. eapply qs_append; eauto.
  - eapply rrs_at_app; [|exact R]. eapply rrs_mono; [apply G|]. eapply rrs_append; eauto.
  - intros s. rewrite T, P3, rrs_starts_app, !in_app_iff. tauto.
Qed.

Lemma step2_rr d g y A L s h n ty cl ttl rd vec : AInv d g L -> LInv d y A L -> wf_name n ->
  wf_bytes rd -> hs_contract (d_regs d) g h n -> step_ok2 d g y A (OAddRr s h n ty cl ttl rd vec).
Proof.
  intros Hi HL Hwf Hrd Hc. unfold step_ok2.
  pose proof (step_good_all d (OAddRr s h n ty cl ttl rd vec) (a_n _ _ _ Hi)) as G.
  destruct (contract_ok d g L h n Hi Hc Hwf) as [Hh HhL].
  cbn [step] in *. unfold add_section_rr, with_rollback in *.
  destruct (change_section s (d_w d)) as [[[] w1]|[e w1]|] eqn:Ecs; cbn [bind] in *.
  3:{ eapply change_section_no_panic; eauto. }
  2:{ simpl in G |- *. exists L, y. split; [apply AInv_err; auto|]. eapply (LInv_obs d g); eauto. }
  destruct (change_section_ok _ _ _ _ Ecs) as [-> Hsec].
  pose proof (add_rr_L (resolve_hint (d_regs d) h) n ty cl (ttl_from ttl) rd (if vec then Some [] else None)
                (set_section (d_w d) s) L [] (g_q g) (g_o g) (g_r g)
                (NInv_set_section _ _ _ s (a_ni _ _ _ Hi)) (a_an _ _ _ Hi) (vec0_ok _ _ _ vec) Hwf Hrd Hh HhL) as P.
  assert (Hpre : pre (w_cursor (d_w d)) (set_section (d_w d) s)).
  { split; simpl; [lia|]. apply (a_n _ _ _ Hi). }
  pose proof (frame_add_rr (w_cursor (d_w d)) (resolve_hint (d_regs d) h) n ty cl (ttl_from ttl) rd
                (if vec then Some [] else None) _ Hpre) as F.
  pose proof (secf_add_rr (resolve_hint (d_regs d) h) n ty cl (ttl_from ttl) rd
                (if vec then Some [] else None) (set_section (d_w d) s)) as Sf.
  destruct (add_rr (resolve_hint (d_regs d) h) n ty cl (ttl_from ttl) rd (if vec then Some [] else None)
                   (set_section (d_w d) s)) as [[v' w2]|[e w2]|]; simpl in P, F, Sf; cbn [bind] in *; auto.
  2:{ simpl in G |- *. exists L, y. split; [apply AInv_err; auto|]. eapply (LInv_obs d g); eauto. }
  destruct (checked_add16 (sec_count s w2) 1) as [c|] eqn:Ec; simpl in G |- *.
  2:{ exists L, y. split; [apply AInv_err; auto|]. eapply (LInv_obs d g); eauto. }
  destruct P as [L' [G' [Hi' [A' [V' [Vs [Hc' [Hq' [r [R [Rp [Re [Rd [Rt Rpl]]]]]]]]]]]]]]. simpl in Hq', Rp, Rpl.
  apply ext_unsection in F.
  exists L', (mkLay (y_qs y) (y_rrs y ++ [r])). split.
  - apply (AInv_set_sec_count (mkD w2 _) _ L' s c).
    apply (AInv_rr d g L w2 L'); auto.
    eapply regs_after; eauto.
    eapply regs_ok_mono; [apply (a_regs _ _ _ Hi)|apply F|apply F|apply G'].
  - destruct HL as [HP HF]. split; simpl.
    + assert (PL : PLay (w_buf w2) L' (mkLay (y_qs y) (y_rrs y ++ [r])) (w_rr_start (d_w d)) (w_cursor w2)).
      { apply (PLay_append d g y A L w2 L' [r] Hi (conj HP HF) F G').
        - simpl. split; auto. split; auto. split; [lia|auto].
        - intros s0. rewrite Rt. unfold rrs_starts. simpl. rewrite app_nil_r. tauto. }
      destruct s; simpl; rewrite ?(x_rs _ _ _ F); exact PL.
    + simpl in Sf.
      apply (FLay_add (d_w d) y A s w2 c [r] [mkAR n (am_mode A) ty cl (ttl_rfc ttl) rd]); auto;
        try apply F.
      constructor; [|constructor]. unfold rr_desc2, ar_exact. simpl.
      rewrite (f_mode _ _ _ HF), <- exactf_of, <- ttl_from_rfc. simpl in Rd. split; [exact Rd|exact Rpl].
Qed.

Lemma Forall2_map_r {A B C} (P : A -> C -> Prop) (f : B -> C) l1 l2 :
  Forall2 (fun a b => P a (f b)) l1 l2 -> Forall2 P l1 (map f l2).
Proof. induction 1; simpl; constructor; auto. Qed.

Lemma step2_rrset d g y A L s h n ty cl ttl rds vec : AInv d g L -> LInv d y A L -> wf_name n ->
  Forall wf_bytes rds -> hs_contract (d_regs d) g h n -> step_ok2 d g y A (OAddRrset s h n ty cl ttl rds vec).
Proof.
  intros Hi HL Hwf Hrd Hc. unfold step_ok2.
  pose proof (step_good_all d (OAddRrset s h n ty cl ttl rds vec) (a_n _ _ _ Hi)) as G.
  destruct (contract_ok d g L h n Hi Hc Hwf) as [Hh HhL].
  cbn [step] in *. unfold add_section_rrset, with_rollback in *.
  destruct (change_section s (d_w d)) as [[[] w1]|[e w1]|] eqn:Ecs; cbn [bind] in *.
  3:{ eapply change_section_no_panic; eauto. }
  2:{ simpl in G |- *. exists L, y. split; [apply AInv_err; auto|]. eapply (LInv_obs d g); eauto. }
  destruct (change_section_ok _ _ _ _ Ecs) as [-> Hsec].
  pose proof (rrset_L n ty cl (ttl_from ttl) (g_q g) rds (resolve_hint (d_regs d) h) (if vec then Some [] else None) 0
                (set_section (d_w d) s) L [] (g_o g) (g_r g)
                (NInv_set_section _ _ _ s (a_ni _ _ _ Hi)) (a_an _ _ _ Hi) (vec0_ok _ _ _ vec) Hwf Hrd Hh HhL) as P.
  assert (Hpre : pre (w_cursor (d_w d)) (set_section (d_w d) s)).
  { split; simpl; [lia|]. apply (a_n _ _ _ Hi). }
  pose proof (frame_rrset_loop (w_cursor (d_w d)) rds (resolve_hint (d_regs d) h) n ty cl (ttl_from ttl)
                (if vec then Some [] else None) 0 _ Hpre) as F.
  pose proof (secf_rrset_loop rds (resolve_hint (d_regs d) h) n ty cl (ttl_from ttl)
                (if vec then Some [] else None) 0 (set_section (d_w d) s)) as Sf.
  destruct (add_rrset_loop (resolve_hint (d_regs d) h) n ty cl (ttl_from ttl) rds (if vec then Some [] else None) 0
                   (set_section (d_w d) s)) as [[[v' k] w2]|[e w2]|]; simpl in P, F, Sf; cbn [bind] in *; auto.
  2:{ simpl in G |- *. exists L, y. split; [apply AInv_err; auto|]. eapply (LInv_obs d g); eauto. }
  destruct (65535 <? N.of_nat k)%N; simpl in G |- *.
  { exists L, y. split; [apply AInv_err; auto|]. eapply (LInv_obs d g); eauto. }
  destruct (checked_add16 (sec_count s w2) (N.of_nat k)) as [c|] eqn:Ec; simpl in G |- *.
  2:{ exists L, y. split; [apply AInv_err; auto|]. eapply (LInv_obs d g); eauto. }
  destruct P as [L' [G' [Hi' [A' [V' [Vs [Hk [Hc' [Hm' [Hq' [rs [R [Rd [Rt Rpl]]]]]]]]]]]]]]. simpl in Hq', R, Rpl.
  apply ext_unsection in F.
  exists L', (mkLay (y_qs y) (y_rrs y ++ rs)). split.
  - apply (AInv_set_sec_count (mkD w2 _) _ L' s c).
    apply (AInv_rr d g L w2 L'); auto.
    eapply regs_after; eauto.
    eapply regs_ok_mono; [apply (a_regs _ _ _ Hi)|apply F|apply F|apply G'].
  - destruct HL as [HP HF]. split; simpl.
    + assert (PL : PLay (w_buf w2) L' (mkLay (y_qs y) (y_rrs y ++ rs)) (w_rr_start (d_w d)) (w_cursor w2)).
      { apply (PLay_append d g y A L w2 L' rs Hi (conj HP HF) F G'); auto. }
      destruct s; simpl; rewrite ?(x_rs _ _ _ F); exact PL.
    + simpl in Sf.
      apply (FLay_add (d_w d) y A s w2 c rs (map (mkAR n (am_mode A) ty cl (ttl_rfc ttl)) rds)); auto;
        try apply F.
      * apply Forall2_map_r. unfold rr_desc2, ar_exact. simpl.
        rewrite (f_mode _ _ _ HF), <- exactf_of, <- ttl_from_rfc. simpl in Rd.
        clear - Rd Rpl. induction Rd as [|r rd rs0 rds0 Hr _ IH]; constructor.
        -- split; auto. intros Hd. specialize (Rpl Hd). inversion Rpl; auto.
        -- apply IH. intros Hd. specialize (Rpl Hd). inversion Rpl; auto.
      * rewrite map_length. simpl in Hk. subst k. exact Ec.
Qed.

Lemma step2_question d g y A L n qt qc : AInv d g L -> LInv d y A L -> wf_name n ->
  step_ok2 d g y A (OAddQuestion n qt qc).
Proof.
  intros Hi HL Hwf. unfold step_ok2.
  pose proof (step_good_all d (OAddQuestion n qt qc) (a_n _ _ _ Hi)) as G.
  pose proof (step_question d g L n qt qc Hi Hwf) as OLD. unfold step_ok in OLD.
  cbn [step] in *. unfold add_question in *.
  destruct (w_section (d_w d)) eqn:Esec;
    try (simpl in G |- *; exists L, y; split; [apply AInv_obs; auto|eapply (LInv_obs d g); eauto]; fail).
  destruct (checked_add16 (w_qd (d_w d)) 1) as [nq|] eqn:Enq;
    [|simpl in G |- *; exists L, y; split; [apply AInv_obs; auto|eapply (LInv_obs d g); eauto]].
  unfold with_rollback in *.
  pose proof (write_unhinted_L _ n (d_w d) L (a_ni _ _ _ Hi) Hwf) as P1.
  destruct (write_unhinted_name n (d_w d)) as [[pr w1]|[e w1]|] eqn:Ewq; simpl in P1; cbn [bind] in *.
  3:{ exact P1. }
  2:{ simpl in G |- *. exists L, y. split; [apply AInv_obs; auto|eapply (LInv_obs d g); eauto]. }
  destruct P1 as [W [Hsz [_ [L1 [G1 [Hi1 [HpL [sh [Hsh Ht1]]]]]]]]].
  pose proof W as [X [Sd _]].
  pose proof (anch_new _ _ _ _ _ _ L1 W HpL) as Apr.
  rewrite <- (x_len _ _ _ X) in Hi1.
  destruct (anch3_ext _ _ _ L1 _ _ _ (a_an _ _ _ Hi) X Sd (proj1 G1)) as [B1 [B2 B3]].
  assert (Hlt1 : w_cursor (d_w d) < w_cursor w1).
  { destruct W as [_ [_ [Hem _]]]. pose proof (nm_wire_length n). destruct Hem; lia. }
  set (gq' := if (w_qd w1 =? 0)%N then Some n else g_q g).
  set (w1' := if (w_qd w1 =? 0)%N then set_qname w1 pr else w1) in *.
  assert (Hi1' : NInv w1' (length (w_buf w1)) L1).
  { unfold w1'. destruct (w_qd w1 =? 0)%N; auto. apply NInv_set_qname; auto. eapply anch_prior_ok; eauto. }
  assert (A1 : anch3 w1' L1 gq' (g_o g) (g_r g)).
  { unfold w1', gq'. destruct (w_qd w1 =? 0)%N; split; auto. }
  assert (E1 : w_cursor w1' = w_cursor w1 /\ w_buf w1' = w_buf w1 /\ w_tsig w1' = w_tsig w1 /\
               w_avail w1' = w_avail w1 /\ w_section w1' = w_section w1 /\ w_mode w1' = w_mode w1 /\
               w_edns w1' = w_edns w1 /\ w_an w1' = w_an w1 /\ w_ns w1' = w_ns w1 /\ w_ar w1' = w_ar w1)
    by (unfold w1'; destruct (w_qd w1 =? 0)%N; repeat split; auto).
  destruct E1 as [Ec1 [Eb1 [Et1 [Ea1 [Es1 [Em1 [Ee1 [Ean1 [Ens1 Ear1]]]]]]]]].
  clearbody w1'.
  destruct (try_push_u16 qt w1') as [[u2 w2]|[e w2]|] eqn:E2; cbn [bind] in *.
  3:{ destruct Hi1' as [[N1 N2] _ _ _ _ _ _ _]. eapply try_push_no_panic; eauto. }
  2:{ simpl in G |- *. exists L, y. split; [apply AInv_obs; auto|eapply (LInv_obs d g); eauto]. }
  destruct (push_step _ _ _ _ _ _ _ _ _ None [] E2 Hi1' A1 I) as [Hi2 [A2 [_ [Hc2 [X2 Q2]]]]].
  destruct (try_push_u16 qc w2) as [[u3 w3]|[e w3]|] eqn:E3; cbn [bind] in *.
  3:{ destruct Hi2 as [[N1 N2] _ _ _ _ _ _ _]. eapply try_push_no_panic; eauto. }
  2:{ simpl in G |- *. exists L, y. split; [apply AInv_obs; auto|eapply (LInv_obs d g); eauto]. }
  destruct (push_step _ _ _ _ _ _ _ _ _ None [] E3 Hi2 A2 I) as [Hi3 [A3 [_ [Hc3 [X3 Q3]]]]].
  destruct (try_push_ext (w_cursor w1') _ _ _ _ E2 (le_n _)) as [_ [Sd2 [_ [Sl2 Ag2]]]].
  destruct (try_push_ext (w_cursor w2) _ _ _ _ E3 (le_n _)) as [_ [Sd3 [_ [Sl3 Ag3]]]].
  unfold be16 in Hc2, Hc3. simpl length in Hc2, Hc3.
  simpl in G, OLD |- *.
  destruct OLD as [L1' OLD]. clear OLD L1'.
  assert (Hl3 : length (w_buf w3) = length (w_buf w1)).
  { rewrite (x_len _ _ _ X3), (x_len _ _ _ X2), Eb1. reflexivity. }
  rewrite <- Hl3 in Hi3.
  pose proof (ni_closed _ _ _ Hi3) as Hcl3.
  pose proof (closed_all_Lq _ _ _ _ _ Hcl3) as Eqv.
  assert (Ag13 : agree (w_cursor w1) (w_buf w1) (w_buf w3)).
  { rewrite <- Eb1, <- Ec1. eapply agree_trans; [exact Ag2|]. eapply agree_le; [exact Ag3|lia]. }
  assert (Ag : agree (w_cursor (d_w d)) (w_buf (d_w d)) (w_buf w3)).
  { eapply agree_trans; [apply X|]. eapply agree_le; [exact Ag13|lia]. }
  assert (Hcm : w_cursor (d_w d) <= w_cursor w3) by lia.
  destruct HL as [[P1 P2 P3] HF]. pose proof HF as [Fq Fr Fm Cq Ca Cn Cr [Bq [Ba [Bn Br]]] Fe Fs].
  rewrite Esec in Fs. destruct Fs as [Fa [Fn Fra]]. rewrite Fa, Fn, Fra in Fr. simpl in Fr.
  inversion Fr as [Hnil|]; subst. rewrite <- Hnil in *. simpl in P2.
  set (q := mkLQ (mkNC (w_cursor (d_w d)) (w_cursor w1) n (exactf (w_mode (d_w d))) sh) qt qc).
  exists L1, (mkLay (y_qs y ++ [q]) []). split.
  - (* the anchor invariant, as before *)
    assert (Hfin : AInv (mkD (set_rr_start (set_counts w3 nq (w_an w3) (w_ns w3) (w_ar w3)) (w_cursor w3)) (d_regs d))
                        (mkGn gq' (g_o g) (g_r g) (g_regs g)) L1).
    { constructor; simpl; auto.
      - destruct Hi3. constructor; auto.
      - apply (closed_equiv _ _ _ _ L1 (Lq L1 (w_cursor w3)) Eqv). exact Hcl3.
      - apply (decodable_sub _ _ L1); [intros s Hs; apply Eqv; exact Hs|apply Hi3].
      - destruct A3 as [A31 _]. eapply anch_sub; [exact A31|].
        intros p Ep. apply Eqv. destruct (A31 p Ep) as [m [_ [[K _] _]]]. exact K.
      - eapply regs_ok_mono; [apply (a_regs _ _ _ Hi)|exact Ag|exact Hcm|apply G1].
      - intros t Et. apply (a_ts _ _ _ Hi).
        rewrite <- (x_tsig _ _ _ X), <- Et1, <- (x_tsig _ _ _ X2), <- (x_tsig _ _ _ X3). exact Et. }
    unfold gq' in Hfin. rewrite (x_qd _ _ _ X) in Hfin.
    destruct (w_qd (d_w d) =? 0)%N; auto. eapply AInv_ghost_eq; eauto.
  - split; simpl.
    + pose proof (a_n _ _ _ Hi) as Hn0. destruct Hn0.
      constructor; simpl.
      * eapply qs_at_app.
        -- eapply qs_mono; [apply G1|]. eapply qs_append; eauto; try lia.
        -- simpl. split; [lia|]. split.
           ++ split.
              ** eapply (chunk_append (w_buf w1) (w_cursor w1)); [exact Ag13|simpl; lia|].
                 split; [simpl; lia|]. simpl. eapply shape_mono; [apply G1|exact Hsh].
              ** unfold q; cbn [lq_name lq_ty lq_cl nc_end]. replace (w_cursor w1 + 4) with (w_cursor w1 + 2 + 2) by lia.
                 rewrite (slice_app _ (w_cursor w1) (w_cursor w1 + 2)) by lia. f_equal.
                 --- rewrite (agree_slice (w_cursor w2) (w_buf w2) (w_buf w3) _ _ Ag3) by lia.
                     rewrite <- Ec1. rewrite <- Hc2. exact Sl2.
                 --- rewrite <- Ec1, <- Hc2, <- Hc3. exact Sl3.
           ++ simpl. split; lia.
      * reflexivity.
      * intros s. rewrite Ht1, P3, qs_starts_app. simpl. rewrite !app_nil_r, in_app_iff.
        unfold chunk_starts. simpl. tauto.
    + apply checked_add16_some in Enq as [Enq Hbq].
      constructor; simpl.
      * apply Forall2_app; auto. constructor; [|constructor].
        unfold q_desc, q, aq_exact. simpl. rewrite Fm, exactf_of. split; [auto|].
        intros Hd. destruct sh as [[k pp]|]; auto. exfalso.
        destruct (disabled_plain_unhinted n (d_w d) pr w1 Hd Ewq) as [Hpl _].
        eapply shape_plain_unique; eauto.
      * rewrite Fa, Fn, Fra. constructor.
      * rewrite (x_mode _ _ _ X3), (x_mode _ _ _ X2), Em1, (x_mode _ _ _ X). exact Fm.
      * rewrite Enq, Cq, app_length. simpl. lia.
      * rewrite (x_an _ _ _ X3), (x_an _ _ _ X2), Ean1, (x_an _ _ _ X). exact Ca.
      * rewrite (x_ns _ _ _ X3), (x_ns _ _ _ X2), Ens1, (x_ns _ _ _ X). exact Cn.
      * rewrite (x_ar _ _ _ X3), (x_ar _ _ _ X2), Ear1, (x_ar _ _ _ X).
        rewrite (x_edns _ _ _ X3), (x_edns _ _ _ X2), Ee1, (x_edns _ _ _ X).
        rewrite (x_tsig _ _ _ X3), (x_tsig _ _ _ X2), Et1, (x_tsig _ _ _ X). exact Cr.
      * rewrite (x_an _ _ _ X3), (x_an _ _ _ X2), Ean1, (x_an _ _ _ X).
        rewrite (x_ns _ _ _ X3), (x_ns _ _ _ X2), Ens1, (x_ns _ _ _ X).
        rewrite (x_ar _ _ _ X3), (x_ar _ _ _ X2), Ear1, (x_ar _ _ _ X). auto.
      * rewrite (x_edns _ _ _ X3), (x_edns _ _ _ X2), Ee1, (x_edns _ _ _ X). exact Fe.
      * destruct Sd3 as [_ [_ [_ S3]]]. destruct Sd2 as [_ [_ [_ S2]]]. destruct Sd as [_ [_ [_ S1]]].
        rewrite S3, S2, Es1, S1, Esec. auto.
Qed.

(* ---------------------------------------------------------------- the remaining operations *)

Lemma LInv_fields d y A L w' regs' : LInv d y A L -> w_buf w' = w_buf (d_w d) ->
  w_cursor w' = w_cursor (d_w d) -> w_rr_start w' = w_rr_start (d_w d) -> FLay w' y A ->
  LInv (mkD w' regs') y A L.
Proof. intros [HP _] E1 E2 E3 HF. split; auto. simpl. rewrite E1, E2, E3. exact HP. Qed.

Lemma hdr_write_ok2 d g y A L pos data : AInv d g L -> LInv d y A L -> pos + length data <= header_size ->
  exists w', w_write (d_w d) pos data = Ok w' /\ AInv (mkD w' (d_regs d)) g L /\
             LInv (mkD w' (d_regs d)) y A L /\ w_edns w' = w_edns (d_w d) /\ w_tsig w' = w_tsig (d_w d).
Proof.
  intros Hi HL Hp.
  destruct (hdr_write_ok d g L pos data Hi Hp) as [w' [E [H [He [Ht [Hc R]]]]]].
  exists w'. split; auto. split; auto. split; auto.
  apply w_write_inv in E as [b' [Hb ->]].
  eapply (LInv_move d g); eauto; try reflexivity.
  - apply H.
  - destruct HL as [_ HF]. eapply FLay_fields; eauto.
Qed.

Lemma hdr_modify_ok2 d g y A L i f : AInv d g L -> LInv d y A L -> N.to_nat i < header_size ->
  exists w', w_modify (d_w d) i f = Ok w' /\ AInv (mkD w' (d_regs d)) g L /\
             LInv (mkD w' (d_regs d)) y A L /\ w_edns w' = w_edns (d_w d) /\ w_tsig w' = w_tsig (d_w d).
Proof.
  intros Hi HL Hp. pose proof (a_n _ _ _ Hi) as Hn. unfold w_modify.
  destruct (nth_error (w_buf (d_w d)) (N.to_nat i)) as [x|] eqn:E.
  - apply hdr_write_ok2; auto. simpl. lia.
  - apply nth_error_None in E. destruct Hn. lia.
Qed.

Lemma LInv_clear d g y A L : AInv d g L -> LInv d y A L ->
  LInv (mkD (clear_rrs (d_w d)) (d_regs d)) (mkLay (y_qs y) [])
       (mkAM (am_mode A) (am_qs A) [] [] []) (Lq L (w_rr_start (d_w d))).
Proof.
  intros Hi [[P1 P2 P3] HF]. pose proof (a_n _ _ _ Hi) as Hn. destruct Hn.
  split; simpl.
  - constructor; simpl.
    + apply qs_restrict; auto.
    + reflexivity.
    + intros s. unfold Lq. rewrite P3, !in_app_iff. simpl. split.
      * intros [[K|K] Hlt]; auto.
        apply (rrs_starts_bound _ _ _ _ _ _ P2) in K; lia.
      * intros [K|[]]. split; auto.
        apply (qs_starts_bound _ _ _ _ _ _ P1) in K; lia.
  - destruct HF as [Fq Fr Fm Cq Ca Cn Cr [Bq _] Fe Fs]. constructor; simpl; auto.
    + destruct (w_edns (d_w d)); destruct (w_tsig (d_w d)); reflexivity.
    + split; auto. destruct (w_edns (d_w d)); destruct (w_tsig (d_w d)); simpl; lia.
Qed.

Lemma FLay_clear_upper w y A : FLay w y A -> FLay (clear_upper w) y A.
Proof.
  intros HF. unfold clear_upper. destruct (w_edns w) eqn:E; auto.
  destruct HF as [Fq Fr Fm Cq Ca Cn Cr Fb Fe Fs]. constructor; simpl; auto.
  - rewrite Cr, E. reflexivity.
  - intros e0 H0. inversion H0; subst e0. simpl. destruct (Fe _ E). split; auto. lia.
Qed.

Theorem step2_all d g y A L o : AInv d g L -> LInv d y A L -> op_wf o -> op_contract d g o ->
  step_ok2 d g y A o.
Proof.
  intros Hi HL Hwf Hc. pose proof (a_n _ _ _ Hi) as Hn. pose proof HL as [HP HF].
  destruct o; simpl in Hwf, Hc;
    try (eapply step2_question; eauto; fail);
    try (match type of Hc with (_ = Standard -> _) => idtac end;
         destruct Hwf as [W1 W2]; destruct (w_mode (d_w d)) eqn:Em;
         [eapply step2_rr; eauto
         |unfold step_ok2; rewrite step_rr_nonstd by congruence; exact (step2_rr d g y A L _ HsNone _ _ _ _ _ _ Hi HL W1 W2 I)
         |unfold step_ok2; rewrite step_rr_nonstd by congruence; exact (step2_rr d g y A L _ HsNone _ _ _ _ _ _ Hi HL W1 W2 I)]; fail);
    try (match type of Hc with (_ = Standard -> _) => idtac end;
         destruct Hwf as [W1 W2]; destruct (w_mode (d_w d)) eqn:Em;
         [eapply step2_rrset; eauto
         |unfold step_ok2; rewrite step_rrset_nonstd by congruence; exact (step2_rrset d g y A L _ HsNone _ _ _ _ _ _ Hi HL W1 W2 I)
         |unfold step_ok2; rewrite step_rrset_nonstd by congruence; exact (step2_rrset d g y A L _ HsNone _ _ _ _ _ _ Hi HL W1 W2 I)]; fail);
    unfold step_ok2; cbn [step].
  - destruct (hdr_write_ok2 d g y A L (N.to_nat ID_START) (be16 v) Hi HL ltac:(cbv; lia)) as [w' [E [H [H' _]]]].
    unfold set_id. rewrite E. simpl. eauto.
  - destruct (hdr_modify_ok2 d g y A L QR_BYTE (set_bit QR_MASK b) Hi HL ltac:(cbv; lia)) as [w' [E [H [H' _]]]].
    unfold set_qr, w_set_flag. rewrite E. simpl. eauto.
  - destruct (hdr_modify_ok2 d g y A L OPCODE_BYTE (fun x => N.lor (N.land x (255 - OPCODE_MASK)) ((v * 2 ^ OPCODE_SHIFT) mod 256)) Hi HL ltac:(cbv; lia)) as [w' [E [H [H' _]]]].
    unfold set_opcode. rewrite E. simpl. eauto.
  - destruct (hdr_modify_ok2 d g y A L AA_BYTE (set_bit AA_MASK b) Hi HL ltac:(cbv; lia)) as [w' [E [H [H' _]]]].
    unfold set_aa, w_set_flag. rewrite E. simpl. eauto.
  - destruct (hdr_modify_ok2 d g y A L TC_BYTE (set_bit TC_MASK b) Hi HL ltac:(cbv; lia)) as [w' [E [H [H' _]]]].
    unfold set_tc, w_set_flag. rewrite E. simpl. eauto.
  - destruct (hdr_modify_ok2 d g y A L RD_BYTE (set_bit RD_MASK b) Hi HL ltac:(cbv; lia)) as [w' [E [H [H' _]]]].
    unfold set_rd, w_set_flag. rewrite E. simpl. eauto.
  - destruct (hdr_modify_ok2 d g y A L RA_BYTE (set_bit RA_MASK b) Hi HL ltac:(cbv; lia)) as [w' [E [H [H' _]]]].
    unfold set_ra, w_set_flag. rewrite E. simpl. eauto.
  - (* set_rcode *)
    destruct (hdr_modify_ok2 d g y A L RCODE_BYTE (fun x => N.lor (N.land x (255 - RCODE_MASK)) v) Hi HL ltac:(cbv; lia))
      as [w' [E [H [H' [He Ht]]]]].
    unfold set_rcode. rewrite E. simpl. exists L, y. split.
    + apply (AInv_fields (mkD w' (d_regs d)) g L (clear_upper w')); auto;
        try (unfold clear_upper; destruct (w_edns w'); reflexivity).
      * apply inv_clear_upper. apply H.
      * intros t Et. apply (a_ts _ _ _ H). simpl. unfold clear_upper in Et. destruct (w_edns w'); exact Et.
    + apply (LInv_fields (mkD w' (d_regs d)) y A L); auto;
        try (unfold clear_upper; destruct (w_edns w'); reflexivity).
      destruct H' as [_ HF']. apply FLay_clear_upper. exact HF'.
  - (* set_extended_rcode *)
    unfold set_extended_rcode. destruct (w_edns (d_w d)) as [e|] eqn:Ee;
      [|simpl; exists L, y; split; [apply AInv_eta; auto|exact HL]].
    destruct (4095 <? v)%N; [simpl; exists L, y; split; [apply AInv_eta; auto|exact HL]|].
    destruct (hdr_modify_ok2 d g y A L RCODE_BYTE
                (fun x => N.lor (N.land x (255 - RCODE_MASK)) (N.land (v mod 256) RCODE_MASK)) Hi HL ltac:(cbv; lia))
      as [w' [E [H [H' [He Ht]]]]].
    rewrite E. simpl. exists L, y. split.
    + apply (AInv_fields (mkD w' (d_regs d)) g L (set_edns_f w' (Some (mkEdns (e_udp e) ((v / 16) mod 256))))); auto.
      * pose proof (a_n _ _ _ H) as []. simpl in *. constructor; simpl; auto.
        unfold resv in *. simpl in *. rewrite He, Ee in i_av. exact i_av.
      * intros t Et. apply (a_ts _ _ _ H). exact Et.
    + apply (LInv_fields (mkD w' (d_regs d)) y A L); auto.
      destruct H' as [_ HF']. cbn [d_w] in HF'.
      destruct HF' as [Fq Fr Fm Cq Ca Cn Cr Fb Fe Fs]. constructor; simpl; auto.
      * rewrite Cr, He, Ee. reflexivity.
      * intros e0 H0. inversion H0; subst e0. simpl. rewrite He in Fe. destruct (Fe _ Ee). split; auto.
        apply N.mod_lt. lia.
  - (* set_limit *)
    destruct (set_limit_ok l (d_w d) Hn) as [nl [av E]]. rewrite E. simpl. exists L, y. split.
    + apply (AInv_fields d g L); auto. eapply set_limit_inv; eauto. apply (a_ts _ _ _ Hi).
    + apply (LInv_fields d y A L); auto. eapply FLay_fields; eauto.
  - (* set_mode *)
    exists L, y. split.
    + apply (AInv_fields d g L); auto. destruct Hn. constructor; auto. apply (a_ts _ _ _ Hi).
    + split; [exact HP|]. destruct HF. constructor; simpl; auto.
  - (* set_edns *)
    pose proof (step_good_all d (OSetEdns udp) Hn) as G. cbn [step] in G.
    destruct (set_edns udp (d_w d)) as [[[] w']|[e w']|] eqn:E; simpl in G |- *.
    + exists L, y. unfold set_edns in E. destruct (w_edns (d_w d)) eqn:Ee; [discriminate|].
      destruct (w_avail (d_w d) <? w_cursor (d_w d) + opt_record_size); [discriminate|].
      destruct (checked_add16 (w_ar (d_w d)) 1) as [ar|] eqn:Ea; [|discriminate]. inversion E; subst w'.
      apply checked_add16_some in Ea as [Ea Hba].
      split; [apply (AInv_fields d g L); auto; apply (a_ts _ _ _ Hi)|].
      apply (LInv_fields d y A L); auto. destruct HF as [Fq Fr Fm Cq Ca Cn Cr [Bq [Ba [Bn Br]]] Fe Fs].
      constructor; simpl; auto.
      * rewrite Ea, Cr, Ee. simpl. lia.
      * intros e0 H0. inversion H0; subst e0. simpl. split; [exact Hwf|lia].
    + exists L, y. split; [apply AInv_obs; auto|eapply (LInv_obs d g); eauto].
    + unfold set_edns in E. destruct (w_edns (d_w d)); [discriminate|].
      destruct (w_avail (d_w d) <? w_cursor (d_w d) + opt_record_size); [discriminate|].
      destruct (checked_add16 (w_ar (d_w d)) 1); discriminate.
  - (* set_tsig *)
    destruct Hwf as [Wa [Wk [Wt [Ws [Oa [Ot [Os [Lk La]]]]]]]].
    pose proof (step_good_all d (OSetTsig alg key time fudge origid error stime) Hn) as G. cbn [step] in G.
    destruct (set_tsig (nm_lower alg) (nm_lower key) time fudge origid error stime (d_w d)) as [[[] w']|[e w']|] eqn:E;
      simpl in G |- *.
    + exists L, y. unfold set_tsig in E. destruct (w_tsig (d_w d)) eqn:Ets; [discriminate|].
      destruct (w_avail (d_w d) <? _); [discriminate|].
      destruct (checked_add16 (w_ar (d_w d)) 1) as [ar|] eqn:Ea; [|discriminate]. inversion E; subst w'.
      apply checked_add16_some in Ea as [Ea Hba].
      split.
      * apply (AInv_fields d g L); auto. simpl. intros t Et. inversion Et; subst t.
        unfold tsig_wf; simpl. split; [apply wf_name_lower; auto|]. split; [apply wf_name_lower; auto|].
        split; auto. split; auto. split; auto. split; [apply wf_bytes_lower; auto|]. split; auto.
        split; auto. rewrite !wire_lower_length. auto.
      * apply (LInv_fields d y A L); auto. destruct HF as [Fq Fr Fm Cq Ca Cn Cr [Bq [Ba [Bn Br]]] Fe Fs].
        constructor; simpl; auto. rewrite Ea, Cr, Ets. simpl. lia.
    + exists L, y. split; [apply AInv_obs; auto|eapply (LInv_obs d g); eauto].
    + unfold set_tsig in E. destruct (w_tsig (d_w d)); [discriminate|].
      destruct (w_avail (d_w d) <? _); [discriminate|].
      destruct (checked_add16 (w_ar (d_w d)) 1); discriminate.
  - (* update_time_signed *)
    unfold update_time_signed. destruct (w_tsig (d_w d)) as [t|] eqn:Et; simpl;
      [|exists L, y; split; [apply AInv_eta; auto|exact HL]].
    exists L, y. split.
    + apply (AInv_fields d g L); auto.
      * destruct Hn. constructor; simpl; auto. unfold resv in *. simpl. rewrite Et in i_av. exact i_av.
      * simpl. intros t' E'. inversion E'; subst t'.
        destruct (a_ts _ _ _ Hi t Et) as [T1 [T2 [T3 [T4 [T5 [T6 [T7 [T8 [T9 T10]]]]]]]]].
        destruct Hwf as [W1 W2]. unfold tsig_wf; simpl. auto 12.
    + apply (LInv_fields d y A L); auto. eapply FLay_fields; eauto. simpl. rewrite Et. reflexivity.
  - (* clear_rrs *) eexists. eexists. split; [apply AInv_clear; exact Hi|]. eapply LInv_clear; eauto.
  - (* template *)
    destruct (retemplate_ok newbuf (d_w d) Hn) as [[lim [av E]]|E]; rewrite E; simpl;
      [|exists L, y; split; auto].
    assert (Hag : ragree header_size (w_cursor (d_w d)) (length (w_buf (d_w d))) (w_buf (d_w d))
                    (firstn (w_cursor (d_w d)) (w_buf (d_w d)) ++ skipn (w_cursor (d_w d)) newbuf)).
    { apply agree_ragree. unfold agree.
      rewrite firstn_app, firstn_firstn, firstn_length.
      replace (Nat.min (w_cursor (d_w d)) (w_cursor (d_w d))) with (w_cursor (d_w d)) by lia.
      assert (Hle : w_cursor (d_w d) <= length (w_buf (d_w d))) by (destruct Hn; lia).
      replace (w_cursor (d_w d) - Nat.min (w_cursor (d_w d)) (length (w_buf (d_w d)))) with 0 by lia.
      simpl. apply app_nil_r. }
    exists L, y. split.
    + apply AInv_move; auto. eapply retemplate_inv; eauto. apply (a_ts _ _ _ Hi).
    + eapply (LInv_move d g); eauto.
      * eapply retemplate_inv; eauto.
      * eapply FLay_fields; eauto.
  - (* template subsequent *) exists L, y. auto.
  - (* get *) destruct (getters_ok (d_w d) Hn) as [l ->]. simpl. exists L, y. auto.
Qed.

(* ---------------------------------------------------------------- finish *)

Lemma PLay_app b (L : nat -> Prop) y rs c b2 (L2 : nat -> Prop) c2 rsn : PLay b L y rs c ->
  agree c b b2 -> (forall s, L s -> L2 s) -> rs <= c ->
  rrs_at b2 L2 rsn c c2 -> (forall s, L2 s <-> L s \/ In s (rrs_starts rsn)) ->
  PLay b2 L2 (mkLay (y_qs y) (y_rrs y ++ rsn)) rs c2.
Proof.
  intros [P1 P2 P3] Ag G Hrs R T. constructor; simpl.
  - eapply qs_mono; [apply G|]. eapply qs_append; eauto.
  - eapply rrs_at_app; [|exact R]. eapply rrs_mono; [apply G|]. eapply rrs_append; eauto.
  - intros s. rewrite T, P3, rrs_starts_app, !in_app_iff. tauto.
Qed.

Lemma add_rr_fits2 h owner ty cl ttl rd v w L names gq go gr :
  NInv w (length (w_buf w)) L -> anch3 w L gq go gr -> vec_ok (w_buf w) (w_cursor w) L v names ->
  wf_name owner -> wf_bytes rd -> hint_contract h owner w -> hint_in h w L ->
  component_types cl ty = [] -> w_cursor w + length (nm_wire owner) + 10 + length rd <= w_avail w ->
  exists v' w', add_rr h owner ty cl ttl rd v w = Ok (v', w') /\
    exists L', grew w w' L L' /\ NInv w' (length (w_buf w')) L' /\ anch3 w' L' gq (Some owner) gr /\
               ext (w_cursor w) w w' /\
               exists r, rr_at (w_buf w') L' r /\ nc_pos (lr_owner r) = w_cursor w /\ lr_end r = w_cursor w' /\
                         rr_desc r owner (exactf (w_mode w)) ty cl ttl (component_types cl ty) rd /\
                         (forall s, L' s <-> L s \/ In s (rr_starts r)) /\
                         (w_mode w = Disabled -> rr_plain r).
Proof.
  intros Hi A V Hwf Hrd Hh HhL Hct Hfit.
  pose proof (add_rr_L h owner ty cl ttl rd v w L names gq go gr Hi A V Hwf Hrd Hh HhL) as P.
  assert (Hpre : pre (w_cursor w) w) by (split; [lia|apply Hi]).
  pose proof (frame_add_rr (w_cursor w) h owner ty cl ttl rd v w Hpre) as F.
  destruct (add_rr h owner ty cl ttl rd v w) as [[v' w']|[e w']|]; simpl in P, F.
  - exists v', w'. split; auto. destruct P as [L' [G' [Hi' [A' [_ [_ [Hc' [_ [r [R1 [R2 [R3 [R4 [R5 R6]]]]]]]]]]]]]].
    exists L'. rewrite Hct in A'. simpl in A'. split; auto. split; auto. split; auto. split; auto.
    exists r. auto 10.
  - rewrite Hct in P. destruct P as [[_ K]|[_ K]]; [lia|congruence].
  - contradiction.
Qed.

(* the pseudo-records finish appends, read off the writer's EDNS / TSIG fields *)
Definition pseudo (w : writer) : list arr :=
  (match w_edns w with
   | Some e => [mkAR [] (w_mode w) TYPE_OPT (e_udp e) (e_upper e * 16777216)%N []]
   | None => [] end) ++
  (match w_tsig w with
   | Some t => [mkAR (t_key t) (w_mode w) TYPE_TSIG qclass_any (ttl_from 0) (tsig_unsigned_rdata t)]
   | None => [] end).

Lemma w_write_slice w pos data w' : w_write w pos data = Ok w' ->
  slice (w_buf w') pos (pos + length data) = data /\ (forall c, c <= pos -> agree c (w_buf w) (w_buf w')) /\
  w_qd w' = w_qd w /\ w_an w' = w_an w /\ w_ns w' = w_ns w /\ w_ar w' = w_ar w.
Proof.
  intros E. apply w_write_inv in E as [b' [Hb ->]]. simpl. split; [eapply buf_write_data; eauto|].
  split; auto. intros c Hc. eapply buf_write_agree; eauto.
Qed.

Theorem finish_ok2 d g y A L : AInv d g L -> LInv d y A L ->
  exists wF LF rsP, finish (d_w d) = Ok (w_cursor wF, w_buf wF) /\
    NInv wF (length (w_buf wF)) LF /\
    PLay (w_buf wF) LF (mkLay (y_qs y) (y_rrs y ++ rsP)) (w_rr_start (d_w d)) (w_cursor wF) /\
    Forall2 rr_desc2 rsP (pseudo (d_w d)) /\
    slice (w_buf wF) 4 12 = be16 (w_qd (d_w d)) ++ be16 (w_an (d_w d)) ++ be16 (w_ns (d_w d)) ++ be16 (w_ar (d_w d)) /\
    agree 4 (w_buf (d_w d)) (w_buf wF).
Proof.
  intros Hi HL. unfold finish, finish_gen.
  set (c0 := w_cursor (d_w d)). set (h0 := length (w_buf (d_w d))).
  destruct (hdr_write_ok2 d g y A L (N.to_nat QDCOUNT_START) (be16 (w_qd (d_w d))) Hi HL ltac:(cbv; lia))
    as [w1 [E1 [H1 [HL1 [He1 Ht1]]]]].
  rewrite E1. cbn [bind].
  destruct (hdr_write_ok2 _ g y A L (N.to_nat ANCOUNT_START) (be16 (w_an w1)) H1 HL1 ltac:(cbv; lia))
    as [w2 [E2 [H2 [HL2 [He2 Ht2]]]]].
  cbn [d_w d_regs] in E2, He2, Ht2. rewrite E2. cbn [bind].
  destruct (hdr_write_ok2 _ g y A L (N.to_nat NSCOUNT_START) (be16 (w_ns w2)) H2 HL2 ltac:(cbv; lia))
    as [w3 [E3 [H3 [HL3 [He3 Ht3]]]]].
  cbn [d_w d_regs] in E3, He3, Ht3. rewrite E3. cbn [bind].
  destruct (hdr_write_ok2 _ g y A L (N.to_nat ARCOUNT_START) (be16 (w_ar w3)) H3 HL3 ltac:(cbv; lia))
    as [w4 [E4 [H4 [HL4 [He4 Ht4]]]]].
  cbn [d_w d_regs] in E4, He4, Ht4, H4, HL4. rewrite E4. cbn [bind].
  destruct (w_write_slice _ _ _ _ E1) as [S1 [G1 [Q1 [A1 [N1 R1]]]]].
  destruct (w_write_slice _ _ _ _ E2) as [S2 [G2 [Q2 [A2 [N2 R2]]]]].
  destruct (w_write_slice _ _ _ _ E3) as [S3 [G3 [Q3 [A3 [N3 R3]]]]].
  destruct (w_write_slice _ _ _ _ E4) as [S4 [G4 [Q4 [A4 [N4 R4]]]]].
  change (N.to_nat QDCOUNT_START) with 4 in *. change (N.to_nat ANCOUNT_START) with 6 in *.
  change (N.to_nat NSCOUNT_START) with 8 in *. change (N.to_nat ARCOUNT_START) with 10 in *.
  unfold be16 in S1, S2, S3, S4. simpl length in S1, S2, S3, S4. simpl Nat.add in S1, S2, S3, S4.
  assert (Hdr : slice (w_buf w4) 4 12 = be16 (w_qd (d_w d)) ++ be16 (w_an (d_w d)) ++ be16 (w_ns (d_w d)) ++ be16 (w_ar (d_w d))).
  { rewrite (slice_app _ 4 6 12) by lia. rewrite (slice_app _ 6 8 12) by lia. rewrite (slice_app _ 8 10 12) by lia.
    f_equal; [|f_equal; [|f_equal]].
    - rewrite (agree_slice 6 _ _ 4 6 (G4 6 ltac:(lia))) by lia.
      rewrite (agree_slice 6 _ _ 4 6 (G3 6 ltac:(lia))) by lia.
      rewrite (agree_slice 6 _ _ 4 6 (G2 6 ltac:(lia))) by lia. exact S1.
    - rewrite (agree_slice 8 _ _ 6 8 (G4 8 ltac:(lia))) by lia.
      rewrite (agree_slice 8 _ _ 6 8 (G3 8 ltac:(lia))) by lia. rewrite A1 in S2. exact S2.
    - rewrite (agree_slice 10 _ _ 8 10 (G4 10 ltac:(lia))) by lia. rewrite N2, N1 in S3. exact S3.
    - rewrite R3, R2, R1 in S4. exact S4. }
  assert (Hag4 : agree 4 (w_buf (d_w d)) (w_buf w4)).
  { eapply agree_trans; [apply (G1 4); lia|]. eapply agree_trans; [apply (G2 4); lia|].
    eapply agree_trans; [apply (G3 4); lia|apply (G4 4); lia]. }
  assert (Hc12 : 4 <= c0).
  { pose proof (a_n _ _ _ Hi) as []. pose proof wconsts as [K _]. unfold c0. lia. }
  assert (Hc : w_cursor w4 = c0).
  { apply w_write_inv in E1 as [? [_ ->]]. apply w_write_inv in E2 as [? [_ ->]].
    apply w_write_inv in E3 as [? [_ ->]]. apply w_write_inv in E4 as [? [_ ->]]. reflexivity. }
  assert (Hrs : w_rr_start w4 = w_rr_start (d_w d)).
  { apply w_write_inv in E1 as [? [_ ->]]. apply w_write_inv in E2 as [? [_ ->]].
    apply w_write_inv in E3 as [? [_ ->]]. apply w_write_inv in E4 as [? [_ ->]]. reflexivity. }
  assert (Hmd : w_mode w4 = w_mode (d_w d)).
  { apply w_write_inv in E1 as [? [_ ->]]. apply w_write_inv in E2 as [? [_ ->]].
    apply w_write_inv in E3 as [? [_ ->]]. apply w_write_inv in E4 as [? [_ ->]]. reflexivity. }
  assert (Hed : w_edns w4 = w_edns (d_w d)) by congruence.
  assert (Htg : w_tsig w4 = w_tsig (d_w d)) by congruence.
  assert (Hts : forall t, w_tsig w4 = Some t -> tsig_wf t).
  { intros t E. apply (a_ts _ _ _ H4); exact E. }
  destruct HL4 as [HP4 _]. cbn [d_w] in HP4. rewrite Hrs, Hc in HP4.
  pose proof (a_n _ _ _ H4) as Hn4. pose proof (a_ni _ _ _ H4) as Hi4.
  pose proof (a_an _ _ _ H4) as A4'. cbn [d_w d_regs] in Hn4, Hi4, A4'.
  unfold pseudo. rewrite <- Hed, <- Htg, <- Hmd.
  clear E1 E2 E3 E4 H1 H2 H3 HL1 HL2 HL3 He1 He2 He3 He4 Ht1 Ht2 Ht3 Ht4 S1 S2 S3 S4 G1 G2 G3 G4
        Q1 Q2 Q3 Q4 A1 A2 A3 A4 N1 N2 N3 N4 R1 R2 R3 R4 w1 w2 w3 Hed Htg Hmd.
  (* OPT *)
  assert (Hopt : exists w5 L5 rs5,
    match w_edns w4 with
    | Some e => unwrap_w (add_rr HNone [] TYPE_OPT (e_udp e) (e_upper e * 16777216)%N [] None
                                 (set_avail w4 (w_avail w4 + opt_record_size)))
    | None => Ok w4 end = Ok w5 /\
    NInv w5 (length (w_buf w5)) L5 /\ (forall s, L s -> L5 s) /\
    (exists go, anch3 w5 L5 (g_q g) go (g_r g)) /\
    agree c0 (w_buf w4) (w_buf w5) /\ c0 <= w_cursor w5 /\ w_tsig w5 = w_tsig w4 /\ w_mode w5 = w_mode w4 /\
    w_avail w5 + match w_tsig w5 with Some t => t_reserved t | None => 0 end <= length (w_buf w5) /\
    rrs_at (w_buf w5) L5 rs5 c0 (w_cursor w5) /\ (forall s, L5 s <-> L s \/ In s (rrs_starts rs5)) /\
    Forall2 rr_desc2 rs5
      match w_edns w4 with
      | Some e => [mkAR [] (w_mode w4) TYPE_OPT (e_udp e) (e_upper e * 16777216)%N []]
      | None => [] end).
  { destruct Hn4 as [h1 h2 h3 h4 h5]. unfold resv in h4.
    destruct (w_edns w4) as [e|] eqn:Ee.
    - set (w4' := set_avail w4 (w_avail w4 + opt_record_size)).
      assert (Hi4' : NInv w4' (length (w_buf w4')) L).
      { unfold w4'. apply NInv_set_avail; auto; simpl; destruct (w_tsig w4); lia. }
      destruct (add_rr_fits2 HNone [] TYPE_OPT (e_udp e) (e_upper e * 16777216)%N [] None w4' L []
                  (g_q g) (g_o g) (g_r g) Hi4' A4' I)
        as [v' [w5 [E5 [L5 [G5 [Hi5 [A5 [X5 [r5 [R5 [Rp5 [Re5 [Rd5 [Rt5 Rpl5]]]]]]]]]]]]]].
      + split; [constructor|simpl; lia].
      + constructor.
      + exact I.
      + exact I.
      + reflexivity.
      + unfold w4'. simpl. unfold opt_record_size. simpl. lia.
      + rewrite E5. simpl. exists w5, L5, [r5]. split; auto. split; auto.
        split; [apply G5|]. split; [eauto|].
        pose proof (x_agree _ _ _ X5) as Ag. pose proof (x_cur _ _ _ X5) as Cu.
        unfold w4' in Ag, Cu, Rp5. simpl in Ag, Cu, Rp5. rewrite Hc in Ag, Cu, Rp5.
        split; [exact Ag|]. split; [exact Cu|]. split; [apply X5|]. split; [apply X5|].
        split.
        { rewrite (x_tsig _ _ _ X5), (x_av _ _ _ X5), (x_len _ _ _ X5). unfold w4'. simpl.
          unfold opt_record_size in *. simpl in *. destruct (w_tsig w4); lia. }
        split; [simpl; split; auto; split; auto; split; [lia|auto]|].
        split; [intros s; rewrite Rt5; unfold rrs_starts; simpl; rewrite app_nil_r; tauto|].
        constructor; [|constructor]. unfold rr_desc2, ar_exact. simpl. rewrite <- exactf_of. split; [exact Rd5|exact Rpl5].
    - exists w4, L, []. split; auto. split; auto. split; auto. split; [eauto|].
      split; [apply agree_refl|]. split; [lia|]. split; auto. split; auto.
      split; [destruct (w_tsig w4); lia|]. split; [simpl; lia|]. split; [intros s; simpl; tauto|constructor]. }
  destruct Hopt as [w5 [L5 [rs5 [E5 [Hi5 [M5 [[go5 A5] [Ag5 [Hc5 [Ht5 [Hm5 [Hl5 [R5 [T5 D5]]]]]]]]]]]]]].
  rewrite E5. cbn [bind].
  assert (PL5 : PLay (w_buf w5) L5 (mkLay (y_qs y) (y_rrs y ++ rs5)) (w_rr_start (d_w d)) (w_cursor w5)).
  { eapply (PLay_app (w_buf w4) L y _ c0); eauto. pose proof (a_n _ _ _ Hi) as []. unfold c0. lia. }
  assert (Hdr5 : slice (w_buf w5) 4 12 = slice (w_buf w4) 4 12).
  { apply (agree_slice c0); auto. pose proof (a_n _ _ _ Hi) as []. pose proof wconsts as [K _].
    unfold c0. lia. }
  destruct (w_tsig w5) as [t|] eqn:Et5.
  - pose proof (Hts t ltac:(congruence)) as Twf. pose proof (octets_rdata t Twf) as Toct.
    pose proof (tsig_rdata_length t Twf) as Tlen.
    set (w5' := set_avail (set_tsig_f w5 None) (w_avail w5 + t_reserved t)).
    pose proof (ni_nb _ _ _ Hi5) as [K1 K2].
    assert (Hi5' : NInv w5' (length (w_buf w5')) L5).
    { unfold w5'. apply NInv_set_avail; [apply NInv_clear_tsig; exact Hi5|simpl; lia|simpl; lia]. }
    destruct (add_rr_fits2 HNone (t_key t) TYPE_TSIG qclass_any (ttl_from 0) (tsig_unsigned_rdata t) None w5' L5 []
                (g_q g) go5 (g_r g) Hi5' A5 I)
      as [v' [w6 [E6 [L6 [G6 [Hi6 [A6 [X6 [r6 [R6 [Rp6 [Re6 [Rd6 [Rt6 Rpl6]]]]]]]]]]]]]].
    + apply Twf.
    + exact Toct.
    + exact I.
    + exact I.
    + reflexivity.
    + unfold w5'. simpl. lia.
    + rewrite E6. simpl. exists w6, L6, (rs5 ++ [r6]). split; auto. split; auto.
      pose proof (x_agree _ _ _ X6) as Ag6. pose proof (x_cur _ _ _ X6) as Cu6.
      unfold w5' in Ag6, Cu6, Rp6. simpl in Ag6, Cu6, Rp6.
      split.
      { rewrite app_assoc.
        change (mkLay (y_qs y) ((y_rrs y ++ rs5) ++ [r6]))
          with (mkLay (y_qs (mkLay (y_qs y) (y_rrs y ++ rs5))) (y_rrs (mkLay (y_qs y) (y_rrs y ++ rs5)) ++ [r6])).
        eapply (PLay_app (w_buf w5) L5 _ _ (w_cursor w5)); eauto.
        - apply G6.
        - pose proof (a_n _ _ _ Hi) as []. unfold c0 in *. lia.
        - simpl. split; auto. split; auto. split; [lia|auto].
        - intros s. rewrite Rt6. unfold rrs_starts. simpl. rewrite app_nil_r. tauto. }
      assert (Et4 : w_tsig w4 = Some t) by congruence.
      rewrite Et4.
      split.
      { apply Forall2_app; auto. constructor; [|constructor]. unfold rr_desc2, ar_exact. simpl.
        unfold w5' in Rd6, Rpl6. simpl in Rd6, Rpl6. rewrite Hm5 in Rd6, Rpl6. rewrite <- exactf_of.
        split; [exact Rd6|exact Rpl6]. }
      split.
      { transitivity (slice (w_buf w5) 4 12); [|rewrite Hdr5; exact Hdr].
        apply (agree_slice (w_cursor w5)); auto.
        pose proof (a_n _ _ _ Hi) as []. pose proof wconsts as [K _]. unfold c0 in *. lia. }
      eapply agree_trans; [exact Hag4|]. eapply agree_trans; [eapply agree_le; [exact Ag5|lia]|].
      eapply agree_le; [exact Ag6|lia].
  - exists w5, L5, rs5. split; auto. split; auto. split; auto.
    assert (Et4 : w_tsig w4 = None) by congruence.
    rewrite Et4, app_nil_r. split; auto. split; [rewrite Hdr5; exact Hdr|].
    eapply agree_trans; [exact Hag4|]. eapply agree_le; [exact Ag5|lia].
Qed.

(* ---------------------------------------------------------------- whole runs *)

Lemma Forall2_len {A B} (P : A -> B -> Prop) l1 l2 : Forall2 P l1 l2 -> length l1 = length l2.
Proof. induction 1; simpl; auto. Qed.

Definition y0 : lay := mkLay [] [].

Lemma LInv_new buf limit w0 : writer_new buf limit = Ok w0 -> LInv (mkD w0 []) y0 am0 L0.
Proof.
  intros H. unfold writer_new in H.
  destruct (Nat.min limit (length buf) <? header_size); [discriminate|].
  destruct (length buf <? header_size); [discriminate|].
  inversion H; subst w0. clear H. split; simpl.
  - constructor; simpl; auto. intros s. unfold L0. tauto.
  - constructor; simpl; auto; try constructor; try lia; repeat split; try lia; try discriminate.
Qed.

Theorem run_ok2 : forall ops d g y A L, AInv d g L -> LInv d y A L -> run_contract d g ops ->
  exists d' outs alive g' y' L', run d ops = Ok (d', outs, alive) /\ AInv d' g' L' /\
    LInv d' y' (areplay A ops outs) L'.
Proof.
  induction ops as [|o rest IH]; intros d g y A L Hi HL Hc.
  - simpl. exists d, [], true, g, y, L. auto.
  - destruct Hc as [Hwf [Hoc Hrest]]. pose proof (step2_all d g y A L o Hi HL Hwf Hoc) as S.
    unfold step_ok2 in S. cbn [run].
    destruct (step d o) as [[d1 r]|e|] eqn:E; try contradiction. cbn [bind].
    destruct S as [L1 [y1 [H1 HL1]]].
    destruct (stops o r).
    + exists d1, [r], false, (gstep d g o r), y1, L1. split; auto. split; auto.
      simpl. destruct rest; exact HL1.
    + destruct (IH d1 (gstep d g o r) y1 (astep A o r) L1 H1 HL1 Hrest) as [d2 [outs [alive [g2 [y2 [L2 [E2 [H2 HL2]]]]]]]].
      rewrite E2. cbn [bind]. exists d2, (r :: outs), alive, g2, y2, L2. auto.
Qed.

(* the finished message: its layout, tied to the abstract message of the succeeded operations *)
Theorem run_writer_layout buf limit w0 ops : writer_new buf limit = Ok w0 ->
  run_contract (mkD w0 []) g0 ops ->
  exists rr, run_writer buf limit ops = Ok rr /\
    match rr_final rr with
    | Some (len, b) =>
      exists d wF LF yF,
        run (mkD w0 []) ops = Ok (d, rr_outcomes rr, true) /\
        (forall t, w_tsig (d_w d) = Some t -> tsig_wf t) /\
        len = w_cursor wF /\ b = w_buf wF /\ NInv wF (length b) LF /\
        PLay b LF yF (w_rr_start (d_w d)) len /\
        Forall2 q_desc (y_qs yF) (am_qs (areplay am0 ops (rr_outcomes rr))) /\
        Forall2 rr_desc2 (y_rrs yF)
          (am_an (areplay am0 ops (rr_outcomes rr)) ++ am_ns (areplay am0 ops (rr_outcomes rr)) ++
           am_ar (areplay am0 ops (rr_outcomes rr)) ++ pseudo (d_w d)) /\
        FLay (d_w d) (mkLay (y_qs yF) (firstn (length (y_rrs yF) - length (pseudo (d_w d))) (y_rrs yF)))
             (areplay am0 ops (rr_outcomes rr)) /\
        slice b 4 12 = be16 (w_qd (d_w d)) ++ be16 (w_an (d_w d)) ++ be16 (w_ns (d_w d)) ++ be16 (w_ar (d_w d)) /\
        agree 4 (w_buf (d_w d)) b
    | None => True
    end.
Proof.
  intros H0 Hc. unfold run_writer, run_writer_gen. rewrite H0. cbn [bind].
  destruct (run_ok2 ops _ _ _ _ _ (AInv_new _ _ _ H0) (LInv_new _ _ _ H0) Hc)
    as [d [outs [alive [g [y [L [E [Hi HL]]]]]]]].
  rewrite E. cbn [bind]. destruct alive.
  - destruct (finish_ok2 d g y _ L Hi HL) as [wF [LF [rsP [EF [HiF [PF [DF [HF HA4]]]]]]]].
    rewrite EF. cbn [bind]. eexists. split; [reflexivity|]. simpl.
    exists d, wF, LF, (mkLay (y_qs y) (y_rrs y ++ rsP)). destruct HL as [_ HFl].
    split; auto. split; [apply (a_ts _ _ _ Hi)|].
    split; auto. split; auto. split; auto. split; auto. simpl.
    split; [apply HFl|]. split.
    { rewrite !app_assoc. apply Forall2_app; auto. rewrite <- !app_assoc. apply HFl. }
    split; auto.
    rewrite app_length, (Forall2_len _ _ _ DF). replace (length (y_rrs y) + length (pseudo (d_w d)) - length (pseudo (d_w d))) with (length (y_rrs y)) by lia.
    rewrite firstn_app, Nat.sub_diag, firstn_all. simpl. rewrite app_nil_r. destruct y; exact HFl.
  - eexists. split; [reflexivity|]. exact I.
Qed.
