(* C25 — the include machine instantiated with the full zone-file parser (Model/ZfParser.v):
   the spec's per-file budget always suffices, nothing panics, every record yielded through any
   nesting of includes is valid (C24 lifted across include boundaries), and the explicit form of
   what crosses an include boundary. *)
From QV Require Import Base.ListX Base.Res Base.Octets Model.NameWire Model.ZfReader Model.ZfParser Spec.ZfValidS
  Proofs.ZfReaderP Proofs.ZfNameP Proofs.ZfParserP Proofs.ZfRecordP.
From QV Require Import Model.ZfFs Spec.ZfFsS Proofs.ZfFsP Model.ZfInc Spec.ZfIncS Proofs.ZfIncP.

Notation zctx := ZfParser.ctx.

Definition rec_ok (r : rr) : Prop :=
  good_name (rr_owner r) /\ type_allowed (rr_type r) /\
  rdata_validate (rr_class r) (rr_type r) (rr_rdata r) = Ok true.
Definition fitem_ok (it : full_item) : Prop := rec_ok (snd it).

(* "the includer path has been successfully opened ..., so this should be a safe assumption"
   (comment of compute_path): the path has a parent *)
Definition has_parent (p : path) : Prop := path_parent p <> None.

Lemma of_to_fctx (c : zctx) : of_fctx (to_fctx c) = c.
Proof. destruct c; reflexivity. Qed.
Lemma to_of_fctx (c : fctx) : to_fctx (of_fctx c) = c.
Proof. destruct c; reflexivity. Qed.

Lemma full_size_measure s : ps_error s = false -> measure s = full_size (FP s).
Proof. intros H. unfold measure, full_size. rewrite H. reflexivity. Qed.

(* the invariant of a stack entry's parser: C24's invariant and no error reported yet; for an
   unreadable file only the context *)
Definition finv (s : fparser) : Prop :=
  match s with
  | FP p => pinv p /\ ps_error p = false
  | FUnreadable c => ctx_ok c
  end.

(* one call of the per-file iterator, as the include machine sees it *)
Lemma full_pnext_spec s : finv s ->
  match full_pnext s with
  | PNone _ _ _ _ _ s' => finv s'
  | PErr _ _ _ _ _ _ => True
  | PRec _ _ _ _ _ _ r s' => rec_ok r /\ finv s' /\ full_size s' < full_size s
  | PInc _ _ _ _ _ _ _ o s' => origin_ok o /\ finv s' /\ full_size s' < full_size s
  | PAbort _ _ _ _ _ _ => False
  end.
Proof.
  destruct s as [s|c]; [|intros _; exact I]. intros [Hi He].
  destruct (next_spec s Hi He) as (o & s' & Hn & Hi' & Ho).
  unfold full_pnext. rewrite Hn. destruct o as [[l|e]|].
  - destruct Ho as (Hl & He' & Hm). rewrite !full_size_measure in Hm by assumption.
    unfold line_ok in Hl. destruct (l_content l) as [ip o|r]; cbn [finv full_size].
    + auto.
    + split; [exact Hl|]. auto.
  - exact I.
  - split; assumption.
Qed.

Lemma finv_full_pnew o c : ctx_ok (of_fctx c) -> finv (full_pnew o c).
Proof.
  intros H. destruct o as [content|]; cbn; [|exact H].
  split; [|reflexivity]. split; [unfold wfr; cbn; lia|exact H].
Qed.

Lemma finv_ctx s : finv s -> ctx_ok (of_fctx (full_pctx s)).
Proof. destruct s as [p|c]; cbn; rewrite of_to_fctx; [intros [[_ H] _]; exact H|auto]. Qed.

Lemma finv_full_pwith s c : finv s -> ctx_ok (of_fctx c) -> finv (full_pwith s c) /\ full_size (full_pwith s c) = full_size s.
Proof.
  destruct s as [p|c0]; cbn; [|auto]. intros [[Hr _] He] Hc.
  split; [split; [split; [exact Hr|exact Hc]|exact He]|reflexivity].
Qed.

Lemma ctx_ok_start (c : zctx) o : ctx_ok c -> origin_ok o ->
  ctx_ok (of_fctx (start_ctx _ _ _ _ (to_fctx c) o)).
Proof.
  intros [H1 H2] Ho. destruct o as [n|]; cbn.
  - split; cbn; assumption.
  - rewrite of_to_fctx. split; assumption.
Qed.

Lemma ctx_ok_resume (c : zctx) (cend : fctx) : ctx_ok c -> ctx_ok (of_fctx cend) ->
  ctx_ok (of_fctx (resume_ctx _ _ _ _ (to_fctx c) cend)).
Proof. intros [H1 _] [_ H2]. split; cbn; assumption. Qed.

Lemma compute_path_parent p ip : has_parent p -> exists newp, compute_path p ip = Some newp.
Proof. unfold has_parent, compute_path. destruct (path_parent p); [eauto|congruence]. Qed.

Section Full.
  Variable fs : path -> option fobj.
  (* every file that can be opened has a parent directory *)
  Hypothesis fs_parent : forall p c, fs p = Some c -> has_parent p.

  Notation fexpand := (full_expand fs).

  Definition out_ok (o : goutcome name name N N ferr N) : Prop :=
    match o with
    | GCtx _ _ _ _ _ _ cend => ctx_ok (of_fctx cend)
    | GBad _ _ _ _ _ _ _ _ => True
    | GAbort _ _ _ _ _ _ _ => False
    | GFuel _ _ _ _ _ _ => False
    end.

  Lemma full_size_pos s : 1 <= full_size s.
  Proof. destruct s; cbn; lia. Qed.

  Lemma full_expand_ok : forall d chain p k s,
    finv s -> full_size s <= k -> has_parent p ->
    Forall fitem_ok (fst (fexpand d chain p k s)) /\ out_ok (snd (fexpand d chain p k s)).
  Proof.
    induction d as [|d IHd]; intros chain p k; revert chain p;
      induction k as [|k IHk]; intros chain p s Hi Hk Hp;
      try (pose proof (full_size_pos s); lia).
    - unfold full_expand. rewrite gexpand_S. fold (full_expand fs).
      pose proof (full_pnext_spec s Hi) as Hs.
      destruct (full_pnext s) as [s'|e|n r s'|n ip org s'|a]; cbn [fst snd].
      + split; [constructor|]. cbn. apply finv_ctx. exact Hs.
      + split; [constructor|exact I].
      + destruct Hs as (Hr & Hi' & Hm).
        assert (Hk' : full_size s' <= k) by lia.
        specialize (IHk chain p s' Hi' Hk' Hp).
        destruct (fexpand 0 chain p k s') as [it o]. cbn [fst snd] in *.
        split; [constructor; [exact Hr|apply IHk]|apply IHk].
      + split; [constructor|exact I].
      + contradiction.
    - unfold full_expand. rewrite gexpand_S. fold (full_expand fs).
      pose proof (full_pnext_spec s Hi) as Hs.
      destruct (full_pnext s) as [s'|e|n r s'|n ip org s'|a]; cbn [fst snd].
      + split; [constructor|]. cbn. apply finv_ctx. exact Hs.
      + split; [constructor|exact I].
      + destruct Hs as (Hr & Hi' & Hm).
        assert (Hk' : full_size s' <= k) by lia.
        specialize (IHk chain p s' Hi' Hk' Hp).
        destruct (fexpand (S d) chain p k s') as [it o]. cbn [fst snd] in *.
        split; [constructor; [exact Hr|apply IHk]|apply IHk].
      + destruct Hs as (Ho & Hi' & Hm).
        destruct (compute_path_parent p ip Hp) as [newp ->].
        destruct (fs newp) as [content|] eqn:Hf; [|split; [constructor|exact I]].
        cbv zeta.
        set (child := full_pnew content (start_ctx _ _ _ _ (full_pctx s') org)).
        assert (Hic : finv child).
        { apply finv_full_pnew. pose proof (finv_ctx s' Hi') as Hc'.
          rewrite <- (to_of_fctx (full_pctx s')). apply ctx_ok_start; [exact Hc'|exact Ho]. }
        pose proof (IHd (chain ++ [(p, n)]) newp (S (full_size child)) child Hic
                      (Nat.le_succ_diag_r _) (fs_parent _ _ Hf)) as Hc.
        destruct (fexpand d (chain ++ [(p, n)]) newp (S (full_size child)) child) as [it [cend|bp be|a|]];
          cbn [fst snd] in Hc; destruct Hc as [Hc1 Hc2]; cbn in Hc2; try contradiction.
        * set (s2 := full_pwith s' (resume_ctx _ _ _ _ (full_pctx s') cend)).
          assert (Hr2 : ctx_ok (of_fctx (resume_ctx _ _ _ _ (full_pctx s') cend))).
          { pose proof (finv_ctx s' Hi') as Hc'. rewrite <- (to_of_fctx (full_pctx s')).
            apply ctx_ok_resume; [exact Hc'|exact Hc2]. }
          destruct (finv_full_pwith s' _ Hi' Hr2) as [Hi2 Hsz2]. fold s2 in Hi2, Hsz2.
          assert (Hk2 : full_size s2 <= k) by lia.
          specialize (IHk chain p s2 Hi2 Hk2 Hp).
          destruct (fexpand (S d) chain p k s2) as [it' o']. cbn [fst snd] in *.
          split; [apply Forall_app; split; [exact Hc1|apply IHk]|apply IHk].
        * split; [exact Hc1|exact I].
      + contradiction.
  Qed.

  Variable max_depth : nat.
  Variables (p0 : path) (o0 : fobj).
  Hypothesis root_parent : has_parent p0.

  Notation items0 := (fst (full_expand_root fs max_depth p0 o0)).
  Notation out0 := (snd (full_expand_root fs max_depth p0 o0)).

  Lemma full_root_ok : Forall fitem_ok items0 /\ out_ok out0.
  Proof.
    unfold full_expand_root. apply full_expand_ok; [|lia|exact root_parent].
    unfold full_root. apply finv_full_pnew. split; intros n H; discriminate.
  Qed.

  (* MAIN for the zone-file parser: no budget hypothesis is left *)
  Theorem full_run_eq_expand :
    exists f0, forall fuel, f0 <= fuel ->
      full_run fs max_depth fuel [(p0, 0%N, full_root o0)] =
      (items0, gfinal_of _ _ _ _ _ _ out0).
  Proof.
    unfold full_run, full_expand_root, full_expand. apply run_eq_gexpand.
    pose proof full_root_ok as [_ H]. unfold full_expand_root, full_expand in H.
    intros E. rewrite E in H. exact H.
  Qed.

  (* whatever fuel the runner uses: a result other than "out of fuel" is the structural expansion *)
  Theorem full_run_any_fuel fuel :
    snd (full_run fs max_depth fuel [(p0, 0%N, full_root o0)]) <> FOutOfFuel _ _ ->
    full_run fs max_depth fuel [(p0, 0%N, full_root o0)] = (items0, gfinal_of _ _ _ _ _ _ out0).
  Proof.
    intros Hf. unfold full_run, full_expand_root, full_expand in *. apply run_any_fuel; [|exact Hf].
    pose proof full_root_ok as [_ H]. unfold full_expand_root, full_expand in H.
    intros E. rewrite E in H. exact H.
  Qed.

  Theorem full_run_total :
    exists f0, forall fuel, f0 <= fuel ->
      exists items, (full_run fs max_depth fuel [(p0, 0%N, full_root o0)] = (items, FDone _ _) \/
                     exists p e, full_run fs max_depth fuel [(p0, 0%N, full_root o0)] = (items, FBad _ _ p e)) /\
                    Forall fitem_ok items.
  Proof.
    destruct full_run_eq_expand as [f0 H]. exists f0. intros fuel Hf. rewrite (H fuel Hf).
    pose proof full_root_ok as [H1 H2]. exists items0. split; [|exact H1].
    destruct out0 as [cend|bp be|a|]; cbn in H2 |- *; try contradiction; eauto.
  Qed.
End Full.

(* ---- what crosses an include boundary, in the fields of zone_file::Context ------------------ *)

(* the included file's parser: a fresh reader (line 1, column 1, not inside parentheses) on the
   file's content, no error, the includer's previous owner / TTL / class and default TTL, and the
   directive's origin if it names one, else the includer's *)
Lemma full_child_start content (s' : parser) (org : option name) :
  full_pnew (FFile content) (start_ctx _ _ _ _ (full_pctx (FP s')) org) =
  FP (mkParser false (rd_new content)
        (mkCtx (match org with Some o => Some o | None => ZfParser.c_origin (ps_ctx s') end)
               (c_prev_owner (ps_ctx s')) (c_prev_ttl (ps_ctx s')) (c_prev_class (ps_ctx s'))
               (c_default_ttl (ps_ctx s')))).
Proof. destruct org; destruct s' as [e r [o w t c dt]]; reflexivity. Qed.

(* the includer afterwards: its own reader (position, parenthesis state, unread input) and its own
   origin; previous owner / TTL / class and default TTL are those the included file ended with *)
Lemma full_includer_resume (s' : parser) (cend : fctx) :
  full_pwith (FP s') (resume_ctx _ _ _ _ (full_pctx (FP s')) cend) =
  FP (mkParser (ps_error s') (ps_rd s')
        (mkCtx (ZfParser.c_origin (ps_ctx s'))
               (c_owner _ _ _ _ cend) (c_ttl _ _ _ _ cend) (c_class _ _ _ _ cend) (c_dttl _ _ _ _ cend))).
Proof. destruct s' as [e r [o w t c dt]]; reflexivity. Qed.

Lemma full_expand_include fs d chain p k s n ip org s' newp content :
  full_pnext s = PInc _ _ _ _ _ n ip org (FP s') -> compute_path p ip = Some newp -> fs newp = Some (FFile content) ->
  full_expand fs (S d) chain p (S k) s =
  (let child := FP (mkParser false (rd_new content)
                  (mkCtx (match org with Some o => Some o | None => ZfParser.c_origin (ps_ctx s') end)
                         (c_prev_owner (ps_ctx s')) (c_prev_ttl (ps_ctx s')) (c_prev_class (ps_ctx s'))
                         (c_default_ttl (ps_ctx s')))) in
   let '(it, o) := full_expand fs d (chain ++ [(p, n)]) newp (S (full_size child)) child in
   match o with
   | GCtx _ _ _ _ _ _ cend =>
       let '(it', o') := full_expand fs (S d) chain p k
                           (FP (mkParser (ps_error s') (ps_rd s')
                              (mkCtx (ZfParser.c_origin (ps_ctx s')) (c_owner _ _ _ _ cend) (c_ttl _ _ _ _ cend)
                                     (c_class _ _ _ _ cend) (c_dttl _ _ _ _ cend)))) in
       (it ++ it', o')
   | bad => (it, bad)
   end).
Proof.
  intros H1 H2 H3. unfold full_expand. rewrite (gexpand_include _ _ _ _ _ _ _ _ _ _ _ _ _ _ _ _ _ _ _ _ _ _ _ _ _ _ H1 H2 H3).
  cbv zeta. rewrite full_child_start.
  destruct (gexpand _ _ _ _ _ _ _ _ _ _ _ _ _ _ _ d _ _ _ _) as [it [cend|bp be|a|]]; reflexivity.
Qed.

(* every state the per-file iterator hands back is a parser on a readable file *)
Lemma full_pnext_inc_fp s n ip org s' : full_pnext s = PInc _ _ _ _ _ n ip org s' -> exists q, s' = FP q.
Proof.
  destruct s as [p|c]; cbn; [|discriminate].
  destruct (parser_next p) as [[[[l|e]|] p']|e|]; try discriminate.
  destruct (l_content l); [|discriminate]. intros [= _ _ _ <-]. eauto.
Qed.

(* an $INCLUDE naming a directory: File::open succeeds, the first read fails; reported as the
   per-file parser's I/O error against the directory's path, nothing of the includer resumes *)
Lemma full_expand_include_dir fs d chain p k s n ip org s' newp :
  full_pnext s = PInc _ _ _ _ _ n ip org s' -> compute_path p ip = Some newp -> fs newp = Some FDir ->
  full_expand fs (S d) chain p (S k) s = ([], GBad _ _ _ _ _ _ newp (ISyntax _ _ EIo)).
Proof.
  intros H1 H2 H3. unfold full_expand. rewrite (gexpand_include _ _ _ _ _ _ _ _ _ _ _ _ _ _ _ _ _ _ _ _ _ _ _ _ _ _ H1 H2 H3).
  cbv zeta. cbn [full_pnew full_size]. rewrite gexpand_S. reflexivity.
Qed.

(* the totality / validity statement with the record predicate spelled out as in C24 *)
Theorem full_run_total_valid fs max_depth p0 o0 :
  (forall p c, fs p = Some c -> has_parent p) -> has_parent p0 ->
  exists f0, forall fuel, f0 <= fuel ->
    exists items,
      (full_run fs max_depth fuel [(p0, 0%N, full_root o0)] = (items, FDone _ _) \/
       exists p e, full_run fs max_depth fuel [(p0, 0%N, full_root o0)] = (items, FBad _ _ p e)) /\
      Forall (fun it : full_item =>
                good_name (rr_owner (snd it)) /\ ~ In (rr_type (snd it)) forbidden_types /\
                rdata_validate (rr_class (snd it)) (rr_type (snd it)) (rr_rdata (snd it)) = Ok true) items.
Proof.
  intros Hfs Hp. destruct (full_run_total fs Hfs max_depth p0 o0 Hp) as [f0 H].
  exists f0. intros fuel Hf. destruct (H fuel Hf) as (items & Hr & Hv). exists items. split; [exact Hr|].
  eapply Forall_impl; [|exact Hv]. intros it (A & B & C). split; [exact A|].
  split; [apply type_allowed_forbidden; exact B|exact C].
Qed.
