(* Composition, part 9 (C04, clause (ii) on the finished OCTETS): for the response respond_w returns,
   the RFC 1035 decoder finds the TC bit set only over UDP, and then no answer record, no authority
   record, and nothing but the OPT pseudo-record in the additional section.
   The TC bit is touched by exactly one operation of the whole run — set_tc(true) in the Truncation arm
   of handle_non_axfr_query over UDP, right after clear_rrs: the query phase runs under a per-operation
   predicate that excludes OSetTc, and the last two operations of that arm are appended explicitly. *)
From QV Require Import Base.ListX Gen.Consts Model.NameWire Model.MsgWriter Model.ZoneTree
  Spec.ZoneLookupS Proofs.ZoneInvP Model.Query Model.QueryW
  Spec.NameWireS Spec.MsgWriterS Spec.MsgWriterAbsS Spec.RdataFormatS Spec.RespS
  Proofs.MsgWriterP Proofs.MsgWriterScanP Proofs.MsgWriterNameP Proofs.MsgWriterInvP Proofs.MsgWriterOpP
  Proofs.MsgWriterStepP Proofs.MsgWriterDecP Proofs.MsgWriterHdrP Proofs.MsgWriterRtP
  Proofs.ComposeTraceP Proofs.ComposeWfP Proofs.ComposeNameP Proofs.ComposeKeyP Proofs.ComposeTopP Proofs.ComposeRdataP
  Proofs.ComposeRespP.
From QV Require Proofs.ZoneTopP Proofs.QueryTopP.
Local Open Scope nat_scope.

Lemma Reach_weaken (P P' : wop -> Prop) : (forall o, P o -> P' o) ->
  forall d g ops outs d' g', Reach P d g ops outs d' g' -> Reach P' d g ops outs d' g'.
Proof.
  intros HP. induction 1 as [d g|d g o d1 r ops outs d' g' (W1 & W2 & W3 & W4) Hc Hs Hst _ IH]; [constructor|].
  econstructor; eauto. repeat split; auto.
Qed.

(* everything the server does to a response except touching TC, TSIG, the compression mode, templates *)
Definition Pop_q (o : wop) : Prop :=
  match o with
  | OSetTc _ | OSetMode _ | OSetTsig _ _ _ _ _ _ _ | OUpdateTime _ | OTemplate _ | OTemplateSubsequent => False
  | _ => True
  end.
(* ... and the one operation that sets TC *)
Definition Pop_t (o : wop) : Prop :=
  match o with
  | OSetMode _ | OSetTsig _ _ _ _ _ _ _ | OUpdateTime _ | OTemplate _ | OTemplateSubsequent => False
  | _ => True
  end.

Lemma Pop_q_t o : Pop_q o -> Pop_t o.
Proof. destruct o; cbn; auto. Qed.

(* TC stays clear and there is no TSIG as long as no operation of Pop_q's complement is issued *)
Definition Good_q (H : ahdr) : Prop := h_tc H = false /\ h_tsig H = None.
Lemma Good_q_step H o r : Good_q H -> Pop_q o -> Good_q (hstep H o r).
Proof.
  intros [A B] P. destruct o; cbn [Pop_q] in P; try contradiction; destruct r; cbn [hstep]; try (split; assumption);
    split; cbn; auto.
Qed.
Lemma Good_q_replay : forall ops outs H, Forall Pop_q ops -> Good_q H -> Good_q (hreplay H ops outs).
Proof.
  induction ops as [|o ops IH]; intros outs H Hf G; [exact G|].
  destruct outs as [|r outs]; [exact G|]. inversion Hf; subst. cbn [hreplay]. apply IH; auto. apply Good_q_step; auto.
Qed.
Lemma tsig_t_step H o r : h_tsig H = None -> Pop_t o -> h_tsig (hstep H o r) = None.
Proof.
  intros A P. destruct o; cbn [Pop_t] in P; try contradiction; destruct r; cbn [hstep]; auto.
Qed.

Lemma Good_q_prepared tcp id rd qname qtype qclass edns limit :
  let ops := pre_ops tcp id rd qname qtype qclass edns limit in
  Good_q (hreplay ah0 ops (map (fun _ => RUnit) ops)).
Proof. unfold pre_ops. destruct edns as [size|]; [destruct tcp|]; cbn; split; reflexivity. Qed.

Section Tc.
Variable reqf : N -> N -> bytes -> bytes -> bool.
Variable apex : name.
Variable cls : N.
Variable R : list record.
Variable z : zone.
Hypothesis Hinv : Inv reqf apex cls z R.
Hypothesis Hapex : good_name apex.
Hypothesis Hclass : (cls < 65536)%N.
Hypothesis HR : Forall (fun r => Pz (fun _ _ => True) (r_type r) (r_rdata r)) R.
Variable negttl : N -> N -> N.

Theorem respond_w_tc buf tcp id rd qname qtype qclass edns limit :
  512 <= length buf -> good_name qname -> in_zone apex qname = true ->
  (id < 65536)%N -> (qtype < 65536)%N -> (qclass < 65536)%N -> (forall s, edns = Some s -> (s < 65536)%N) ->
  exists len b m, respond_w negttl buf tcp id rd qname qtype qclass edns limit z = Some (len, b) /\
    decode_msg (firstn len b) = Some m /\
    (tcp = true -> tc_bit m = false) /\
    (tc_bit m = true -> m_an m = [] /\ m_ns m = [] /\ forallb is_pseudo (m_ar m) = true).
Proof.
  intros Hb Gq Hz Hid Hqt Hqc Hed.
  assert (Hhdr : forall o, match o with
    | OSetId _ | OSetQr true | OSetOpcode _ | OSetRd _ | OAddQuestion _ _ _ | OSetEdns _ | OSetLimit _ => Pop_q o
    | _ => True end).
  { intros o. destruct o; try exact I. destruct b; exact I. }
  destruct (prepare_total buf tcp id rd qname qtype qclass edns limit Hb (proj2 Gq)) as (w & Ew).
  destruct (prepare_Reach Pop_q Hhdr buf tcp id rd qname qtype qclass edns limit w Ew Gq Hid Hqt Hqc Hed) as (w0 & E0 & Rpre).
  set (pre := pre_ops tcp id rd qname qtype qclass edns limit) in *.
  set (opre := map (fun _ : wop => RUnit) pre) in *.
  assert (Hlp : length pre = length opre) by (unfold opre; rewrite map_length; reflexivity).
  destruct (Reach_AInv Pop_q _ _ _ _ _ _ Rpre L0 (AInv_new _ _ _ E0)) as (Lp & Hip).
  assert (Sp : St Pop_q (mkD w []) (g_prepared qname) (mkD w []) (g_prepared qname)).
  { exists [], [], Lp. split; [constructor|exact Hip]. }
  (* a finished run under Pop_t whose header settings have no TSIG: decode + what TC means *)
  assert (Fin : forall ops2 outs2 d' g' L, Reach Pop_t (mkD w []) (g_prepared qname) ops2 outs2 d' g' -> AInv d' g' L ->
            let A := areplay am0 (pre ++ ops2) (opre ++ outs2) in
            let H := hreplay ah0 (pre ++ ops2) (opre ++ outs2) in
            h_tsig H = None ->
            (h_tc H = true -> tcp = false /\ am_an A = [] /\ am_ns A = [] /\ am_ar A = []) ->
            exists len b m, finish (d_w d') = Ok (len, b) /\ decode_msg (firstn len b) = Some m /\
              (tcp = true -> tc_bit m = false) /\
              (tc_bit m = true -> m_an m = [] /\ m_ns m = [] /\ forallb is_pseudo (m_ar m) = true)).
  { intros ops2 outs2 d' g' L Rq Hi A H Hts Htc.
    pose proof (Reach_trans Pop_t _ _ _ _ _ _ _ _ _ _ (Reach_weaken _ _ Pop_q_t _ _ _ _ _ _ Rpre) Rq) as Rall.
    destruct (Reach_run _ _ _ _ _ _ _ Rall) as (Hrun & Hrc & F1 & F2 & F3 & F4 & Hlen).
    destruct (finish_ok (fun x => x) d' g' L Hi) as (wF & LF & EF & _).
    exists (w_cursor wF), (w_buf wF).
    destruct (roundtrip_full buf _ w0 (pre ++ ops2) E0 Hrc F1 F2 F3) as (rr & Err & Hrt).
    assert (Hrr' : rr = mkRR (opre ++ outs2) (d_regs d') (Some (w_cursor wF, w_buf wF))).
    { unfold run_writer, run_writer_gen in Err. rewrite E0 in Err. cbn [bind] in Err. rewrite Hrun in Err. cbn [bind] in Err.
      unfold finish in Err. rewrite EF in Err. cbn [bind] in Err. inversion Err. reflexivity. }
    subst rr. cbn [rr_final rr_outcomes] in Hrt.
    destruct Hrt as (m & Em & Hh & _ & Han & Hns & Har & _). fold A H in Hh, Han, Hns, Har.
    exists m. split; [exact EF|]. split; [exact Em|].
    assert (Etc : tc_bit m = h_tc H) by (unfold tc_bit; apply Hh).
    split.
    - intros Ht. rewrite Etc. destruct (h_tc H) eqn:E; [|reflexivity]. destruct (Htc eq_refl) as [X _]. congruence.
    - intros Ht. rewrite Etc in Ht. destruct (Htc Ht) as (_ & A1 & A2 & A3).
      rewrite A1 in Han. rewrite A2 in Hns. rewrite A3 in Har. inversion Han; subst. inversion Hns; subst.
      split; [reflexivity|]. split; [reflexivity|].
      cbn [app] in Har. unfold pseudo_of in Har. rewrite Hts, app_nil_r in Har.
      destruct (h_edns H) as [[u up]|].
      + inversion Har as [|a d l l' Hd Hrest]; subst. inversion Hrest; subst.
        destruct (opt_decoded _ _ _ _ Hd) as (_ & Ho & _). cbn [forallb]. unfold is_pseudo. rewrite Ho. reflexivity.
      + inversion Har; subst. reflexivity. }
  (* a run that stays within Pop_q: TC clear *)
  assert (FinQ : forall d' g', St Pop_q (mkD w []) (g_prepared qname) d' g' ->
            exists len b m, finish (d_w d') = Ok (len, b) /\ decode_msg (firstn len b) = Some m /\
              (tcp = true -> tc_bit m = false) /\
              (tc_bit m = true -> m_an m = [] /\ m_ns m = [] /\ forallb is_pseudo (m_ar m) = true)).
  { intros d' g' (ops2 & outs2 & L & Rq & Hi).
    destruct (Reach_run _ _ _ _ _ _ _ Rq) as (_ & _ & _ & _ & _ & F4q & _).
    assert (G : Good_q (hreplay ah0 (pre ++ ops2) (opre ++ outs2))).
    { rewrite hreplay_app by exact Hlp. apply Good_q_replay; [exact F4q|]. apply Good_q_prepared. }
    destruct G as [G1 G2].
    apply (Fin ops2 outs2 d' g' L (Reach_weaken _ _ Pop_q_t _ _ _ _ _ _ Rq) Hi G2).
    intros Ht. congruence. }
  unfold respond_w. rewrite Ew. unfold handle_non_axfr_query.
  match goal with |- context [match ?q with Ok _ => _ | Err _ => _ | Panic => _ end] => set (qq := q) end.
  (* the query phase never touches TC *)
  assert (Q : QS Pop_q (mkD w []) (g_prepared qname) (mkD w []) (g_prepared qname) qq).
  { unfold qq. destruct (qtype =? QTYPE_ANY)%N.
    - apply (answer_any_S reqf apex cls R z Hinv (fun _ _ => True) Pop_q HR Hapex Hclass
               (fun _ _ _ _ _ _ _ _ => I) (fun _ _ _ _ _ _ _ _ => I) (fun _ => I) (fun _ => I) negttl _ _ qname Gq Hz
               (mkD w []) (g_prepared qname) Sp eq_refl).
    - apply (answer_S reqf apex cls R z Hinv (fun _ _ => True) Pop_q HR Hapex Hclass
               (fun _ _ _ _ _ _ _ _ => I) (fun _ _ _ _ _ _ _ _ => I) (fun _ => I) (fun _ => I) negttl _ _ qname Gq Hz
               qtype (mkD w []) (g_prepared qname) Sp eq_refl). }
  clearbody qq.
  destruct qq as [[u w1]|[[|] w1]|]; cbn [QS] in Q; try contradiction.
  - (* Ok *)
    destruct Q as (d1 & g1 & HS1 & Hw1 & _). subst w1.
    destruct (FinQ d1 g1 HS1) as (len & b & m & Ef & X). exists len, b, m. rewrite Ef. split; [reflexivity|exact X].
  - (* ServFail *)
    destruct Q as (d1 & g1 & HS1 & Hw1 & _). subst w1.
    destruct (St_set_aa Pop_q _ _ d1 g1 false HS1 I) as (w2 & E2 & HS2). rewrite E2.
    destruct (St_set_rcode Pop_q _ _ (mkD w2 (d_regs d1)) g1 RCODE_SERVFAIL HS2 eq_refl I) as (w3 & E3 & HS3).
    cbn [d_w] in E3. rewrite E3. cbn [d_regs] in HS3.
    pose proof (St_clear Pop_q _ _ _ _ HS3 I) as HS4. cbn [d_w d_regs] in HS4.
    destruct (FinQ _ _ HS4) as (len & b & m & Ef & X). cbn [d_w] in Ef. exists len, b, m. rewrite Ef. split; [reflexivity|exact X].
  - (* Truncation *)
    destruct Q as (d1 & g1 & HS1 & Hw1 & _). subst w1. cbv zeta.
    destruct tcp.
    + pose proof (St_clear Pop_q _ _ _ _ HS1 I) as HS2.
      destruct (St_set_aa Pop_q _ _ _ _ false HS2 I) as (w3 & E3 & HS3). cbn [d_w d_regs] in E3, HS3. rewrite E3.
      destruct (St_set_rcode Pop_q _ _ _ _ RCODE_SERVFAIL HS3 eq_refl I) as (w4 & E4 & HS4). cbn [d_w d_regs] in E4, HS4.
      rewrite E4. destruct (FinQ _ _ HS4) as (len & b & m & Ef & X). cbn [d_w] in Ef. exists len, b, m. rewrite Ef. split; [reflexivity|exact X].
    + (* UDP: clear_rrs, then the one set_tc(true) of the whole run *)
      destruct HS1 as (ops1 & outs1 & L1 & R1 & Hi1).
      destruct (Reach_run _ _ _ _ _ _ _ R1) as (_ & _ & _ & _ & _ & F4q & Hl1).
      set (d2 := mkD (clear_rrs (d_w d1)) (d_regs d1)).
      assert (Hok1 : op_ok Pop_t OClearRrs) by (repeat split; exact I).
      pose proof (step_ok_all d1 g1 L1 OClearRrs Hi1 I I) as S1. unfold step_ok in S1. cbn [step] in S1. destruct S1 as [L2 Hi2].
      pose proof (step_ok_all d2 _ L2 (OSetTc true) Hi2 I I) as S2. unfold step_ok in S2. cbn [step d_w d2] in S2.
      pose proof (w_modify_no_err (clear_rrs (d_w d1)) TC_BYTE (set_bit TC_MASK true)) as NE.
      cbn [wi_set_tc wi_clear_rrs w_iface]. unfold set_tc, w_set_flag in *.
      destruct (w_modify (clear_rrs (d_w d1)) TC_BYTE (set_bit TC_MASK true)) as [w3|e|] eqn:E3; cbn [of_R] in S2;
        [|exfalso; eapply NE; reflexivity|contradiction].
      destruct S2 as [L3 Hi3].
      assert (R2 : Reach Pop_t (mkD w []) (g_prepared qname) (ops1 ++ [OClearRrs; OSetTc true]) (outs1 ++ [RUnit; RUnit])
                     (mkD w3 (d_regs d1)) (gstep d2 (gstep d1 g1 OClearRrs RUnit) (OSetTc true) RUnit)).
      { eapply Reach_trans; [exact (Reach_weaken _ _ Pop_q_t _ _ _ _ _ _ R1)|].
        eapply (R_cons Pop_t d1 g1 OClearRrs d2 RUnit); [exact Hok1|exact I|reflexivity|reflexivity|].
        eapply (R_cons Pop_t d2 _ (OSetTc true) (mkD w3 (d_regs d1)) RUnit); [repeat split; exact I|exact I| |reflexivity|constructor].
        cbn [step d_w d2]. unfold set_tc, w_set_flag. rewrite E3. reflexivity. }
      assert (Hl1' : length ops1 = length outs1) by lia.
      destruct (Fin _ _ _ _ L3 R2 Hi3) as (len & b & m & Ef & X).
      * rewrite hreplay_app by exact Hlp. rewrite hreplay_app by exact Hl1'. cbn [hreplay hstep h_tsig].
        assert (G : Good_q (hreplay (hreplay ah0 pre opre) ops1 outs1)) by (apply Good_q_replay; [exact F4q|apply Good_q_prepared]).
        apply G.
      * intros _. split; [reflexivity|]. rewrite areplay_app by exact Hlp. rewrite areplay_app by exact Hl1'.
        cbn [areplay astep am_an am_ns am_ar]. auto.
      * cbn [d_w] in Ef. exists len, b, m. rewrite Ef. split; [reflexivity|exact X].
Qed.

End Tc.

(* for zones built by adds *)
Theorem respond_w_tc_build reqf apex cls wide recs z negttl buf tcp id rd qname qtype qclass edns limit :
  (forall c t a b d, reqf c t a b = true -> reqf c t b d = true -> reqf c t a d = true) ->
  zone_build reqf (zone_new apex cls wide) recs = Some z ->
  Forall (fun r => good_rd (r_rdata r) /\ (r_type r < 65536)%N) recs -> good_name apex -> (cls < 65536)%N ->
  512 <= length buf -> good_name qname -> in_zone apex qname = true ->
  (id < 65536)%N -> (qtype < 65536)%N -> (qclass < 65536)%N -> (forall s, edns = Some s -> (s < 65536)%N) ->
  exists len b m, respond_w negttl buf tcp id rd qname qtype qclass edns limit z = Some (len, b) /\
    decode_msg (firstn len b) = Some m /\
    (tcp = true -> tc_bit m = false) /\
    (tc_bit m = true -> m_an m = [] /\ m_ns m = [] /\ forallb is_pseudo (m_ar m) = true).
Proof.
  intros Ht Hb Hrecs Ga Hc.
  apply (respond_w_tc reqf apex cls (accepted apex cls recs) z (ZoneTopP.build_inv reqf Ht apex cls wide recs z Hb) Ga Hc).
  apply Forall_forall. intros r Hr. apply QueryTopP.accepted_In in Hr. rewrite Forall_forall in Hrecs.
  destruct (Hrecs r Hr) as [A B]. split; [exact A|split; [exact B|exact I]].
Qed.
