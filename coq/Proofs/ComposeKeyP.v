(* Composition, part 4 — THE KEY LEMMA: the query model (Model/Query.v) instantiated with the
   octet-level Writer (Model/QueryW.v: w_iface) issues only operations that have well-formed
   arguments and obey the Writer's hint contract.  For every zone satisfying the tree invariant of
   C06 (in particular every zone built by adds), every question at/below the apex, both transports,
   from ANY reachable Writer state whose QNAME anchor stands for the question name:
   handle_non_axfr_query never panics, and the state it returns is again reachable by a
   contract-obeying operation sequence (Reach) and satisfies the full invariant AInv.
   Hint by hint:
     Hint::Qname            only with the QNAME itself                       (answer, answer_any, first CNAME)
     MostRecentNameInRdata  only with the name just written as CNAME target  (follow_cname_1/2)
     MostRecentOwner        only for the AAAA RRset right after the A RRset of the same owner
     hint-vector slot i     only with the name parsed from the i-th RDATA of the RRset the vector
                            was issued for (additional-section processing, referral glue)
     Hint::None             everywhere else. *)
From QV Require Import Base.ListX Gen.ZoneConsts Gen.QueryConsts Model.NameWire Model.MsgWriter Model.ZoneTree
  Spec.ZoneLookupS Proofs.ZoneBaseP Proofs.ZoneInvP Proofs.ZoneTopP Model.Query Model.QueryW
  Proofs.MsgWriterP Proofs.MsgWriterScanP Proofs.MsgWriterNameP Proofs.MsgWriterInvP Proofs.MsgWriterOpP
  Proofs.MsgWriterStepP Proofs.QueryNameP Proofs.QueryWfP Proofs.QueryP
  Proofs.ComposeTraceP Proofs.ComposeWfP Proofs.ComposeNameP.
Local Open Scope nat_scope.

Definition prefix {A} (a b : list A) : Prop := exists k, b = a ++ k.
Lemma prefix_refl {A} (a : list A) : prefix a a.
Proof. exists []. rewrite app_nil_r. reflexivity. Qed.
Lemma prefix_trans {A} (a b c : list A) : prefix a b -> prefix b c -> prefix a c.
Proof. intros [k ->] [k' ->]. exists (k ++ k'). rewrite app_assoc. reflexivity. Qed.
Lemma prefix_eq {A} (a b : list A) : b = a -> prefix a b.
Proof. intros ->. apply prefix_refl. Qed.
Lemma prefix_snoc {A} (a b : list A) : (exists x, b = a ++ [x]) -> prefix a b.
Proof. intros [x ->]. exists [x]. reflexivity. Qed.
Lemma prefix_nth {A} (a b : list A) r x : prefix a b -> nth_error a r = Some x -> nth_error b r = Some x.
Proof.
  intros [k ->] H. rewrite nth_error_app1; auto. apply nth_error_Some. congruence.
Qed.

(* what every piece of the answering logic preserves: the QNAME ghost, and registers only grow *)
Definition Frame (d : dstate) (g : gn) (d' : dstate) (g' : gn) : Prop :=
  g_q g' = g_q g /\ prefix (d_regs d) (d_regs d') /\ prefix (g_regs g) (g_regs g').
Lemma Frame_refl d g : Frame d g d g.
Proof. split; [reflexivity|split; apply prefix_refl]. Qed.
Lemma Frame_trans d g d1 g1 d2 g2 : Frame d g d1 g1 -> Frame d1 g1 d2 g2 -> Frame d g d2 g2.
Proof. intros (A & B & C) (A' & B' & C'). split; [congruence|]. split; eapply prefix_trans; eauto. Qed.

Lemma vec_issued_frame d g d' g' r v cts rds : Frame d g d' g' -> vec_issued d g r v cts rds -> vec_issued d' g' r v cts rds.
Proof.
  intros (_ & B & C) (X & Y & Z). split; [eapply prefix_nth; eauto|]. split; [eapply prefix_nth; eauto|exact Z].
Qed.

Lemma addl_cts c ty start : (c = 1 \/ c = 3)%N -> lookup_offset ADDITIONAL_TABLE ty = Some start ->
  component_types c ty = [] \/ one_name (component_types c ty) start.
Proof.
  intros Hc. change ADDITIONAL_TABLE with [(7%N, 0); (3%N, 0); (4%N, 0); (2%N, 0); (15%N, 2); (33%N, 6)].
  cbn [lookup_offset].
  destruct (7 =? ty)%N eqn:E7; [apply N.eqb_eq in E7; subst ty; intros H; inversion H; subst; right; left; split; reflexivity|].
  destruct (3 =? ty)%N eqn:E3; [apply N.eqb_eq in E3; subst ty; intros H; inversion H; subst; right; left; split; reflexivity|].
  destruct (4 =? ty)%N eqn:E4; [apply N.eqb_eq in E4; subst ty; intros H; inversion H; subst; right; left; split; reflexivity|].
  destruct (2 =? ty)%N eqn:E2; [apply N.eqb_eq in E2; subst ty; intros H; inversion H; subst; right; left; split; reflexivity|].
  destruct (15 =? ty)%N eqn:E15; [apply N.eqb_eq in E15; subst ty; intros H; inversion H; subst; right; right; left; reflexivity|].
  destruct (33 =? ty)%N eqn:E33; [|discriminate]. apply N.eqb_eq in E33; subst ty; intros H; inversion H; subst.
  destruct Hc as [-> | ->]; [right; right; right; reflexivity|left; reflexivity].
Qed.

Section Key.
Variable req : N -> N -> bytes -> bytes -> bool.
Variable apex : name.
Variable cls : N.
Variable R : list record.
Variable z : zone.
Hypothesis Hinv : Inv req apex cls z R.
(* [PR ty rd]: whatever else is known of the (type, RDATA) of every record of the zone; [Pop]: the
   predicate on operations it translates to (C01: both trivial; C02: RDATA validity) *)
Variable PR : N -> bytes -> Prop.
Variable Pop : wop -> Prop.
Definition Pz (ty : N) (rd : bytes) : Prop := good_rd rd /\ (ty < 65536)%N /\ PR ty rd.
Hypothesis HR : Forall (fun r => Pz (r_type r) (r_rdata r)) R.
Hypothesis Hapex : good_name apex.
Hypothesis Hclass : (cls < 65536)%N.
Hypothesis Hpop_rr : forall s hs owner ty ttl rd vec, PR ty rd -> Pop (OAddRr s hs owner ty (z_class z) ttl rd vec).
Hypothesis Hpop_rrset : forall s hs owner ty ttl rds vec, Forall (PR ty) rds -> Pop (OAddRrset s hs owner ty (z_class z) ttl rds vec).
Hypothesis Hpop_aa : forall b, Pop (OSetAa b).
Hypothesis Hpop_tc : forall b, Pop (OSetTc b).
Hypothesis Hpop_rc : forall rc, Pop (OSetRcode rc).
Hypothesis Hpop_clr : Pop OClearRrs.
Variable negttl : N -> N -> N.
Variable d0 : dstate.
Variable g0 : gn.

Notation St := (St Pop d0 g0).

Lemma Pz_split ty rds : Forall (Pz ty) rds -> Forall good_rd rds /\ Forall (PR ty) rds.
Proof. intros H. split; eapply Forall_impl; try exact H; intros a (A & B & C); auto. Qed.
Lemma Pz_ty ty rds : Forall (Pz ty) rds -> rds <> [] -> (ty < 65536)%N.
Proof. intros H Hne. destruct rds; [congruence|]. inversion H as [|? ? (A & B & C)]. exact B. Qed.

Lemma Hzc : z_class z = cls. Proof. destruct Hinv as (_ & H & _). exact H. Qed.
Lemma Hzn : zone_name z = apex. Proof. destruct Hinv as (H & _ & _). exact H. Qed.

Definition RS (d : dstate) (g : gn) (r : res (wierr * writer) writer) : Prop :=
  match r with
  | Ok w' => exists d' g', St d' g' /\ d_w d' = w' /\ Frame d g d' g'
  | Err (_, w') => exists d' g', St d' g' /\ d_w d' = w' /\ Frame d g d' g'
  | Panic => False
  end.
Definition QS {A} (d : dstate) (g : gn) (q : res (perr * writer) (A * writer)) : Prop :=
  match q with
  | Ok (_, w') => exists d' g', St d' g' /\ d_w d' = w' /\ Frame d g d' g'
  | Err (_, w') => exists d' g', St d' g' /\ d_w d' = w' /\ Frame d g d' g'
  | Panic => False
  end.

Lemma QS_here {A} d g e : St d g -> @QS A d g (Err (e, d_w d)).
Proof. intros H. exists d, g. split; [exact H|]. split; [reflexivity|apply Frame_refl]. Qed.
Lemma QS_ok_here {A} d g (a : A) : St d g -> QS d g (Ok (a, d_w d)).
Proof. intros H. exists d, g. split; [exact H|]. split; [reflexivity|apply Frame_refl]. Qed.

Lemma QS_frame {A} d g d1 g1 (q : res (perr * writer) (A * writer)) : Frame d g d1 g1 -> QS d1 g1 q -> QS d g q.
Proof.
  intros F. destruct q as [[a w']|[e w']|]; cbn [QS]; auto; intros (d' & g' & H1 & H2 & H3);
    exists d', g'; (split; [exact H1|]); (split; [exact H2|]); eapply Frame_trans; eauto.
Qed.

Lemma allow_QS d g r : RS d g r -> QS d g (allow_truncation r).
Proof. destruct r as [w'|[[|] w']|]; cbn; auto. Qed.
Lemma lift_add_QS d g r : RS d g r -> QS d g (lift_add r).
Proof. destruct r as [w'|[e w']|]; cbn; auto. Qed.

Lemma ty_a : (ZoneConsts.TYPE_A < 65536)%N. Proof. reflexivity. Qed.
Lemma ty_aaaa : (ZoneConsts.TYPE_AAAA < 65536)%N. Proof. reflexivity. Qed.
Lemma cl_in : (ZoneConsts.CLASS_IN < 65536)%N. Proof. reflexivity. Qed.
Lemma zc16 : (z_class z < 65536)%N. Proof. rewrite Hzc. exact Hclass. Qed.

(* ---- add_additional_addresses *)
Lemma addrs_S d g owner h hs sbc : St d g -> good_name owner -> hint_agrees (d_regs d) h hs ->
  hs_contract (d_regs d) g hs owner -> RS d g (add_additional_addresses w_iface z owner h sbc (d_w d)).
Proof.
  intros HS Hown Hh Hc. unfold add_additional_addresses.
  destruct (zone_lookup_addrs_refines req apex cls z R owner false sbc Hinv) as (r & Hz & Hs); [discriminate|].
  rewrite Hz. cbn [zl].
  pose proof (spec_addrs_good req apex cls R Pz HR _ _ _ _ Hs) as G.
  assert (Here : RS d g (Ok (d_w d))).
  { exists d, g. split; [exact HS|]. split; [reflexivity|apply Frame_refl]. }
  destruct r as [a aaaa sos|c ns| |]; try exact Here.
  destruct G as [Ga Gb].
  (* the AAAA step, from any state reached so far *)
  assert (Haaaa : forall d1 g1 h1 hs1, St d1 g1 -> Frame d g d1 g1 -> hint_agrees (d_regs d1) h1 hs1 ->
            hs_contract (d_regs d1) g1 hs1 owner ->
            RS d g (if (z_class z =? ZoneConsts.CLASS_IN)%N
                    then match aaaa with
                         | Some (ttl, rdatas) =>
                           match wi_add_rrset w_iface SAr h1 owner ZoneConsts.TYPE_AAAA ZoneConsts.CLASS_IN ttl rdatas false (d_w d1) with
                           | Ok (_, w2) => Ok w2 | Err e => Err e | Panic => Panic end
                         | None => Ok (d_w d1)
                         end
                    else Ok (d_w d1))).
  { intros d1 g1 h1 hs1 HS1 F1 Hh1 Hc1.
    assert (Here1 : RS d g (Ok (d_w d1))).
    { exists d1, g1. split; [exact HS1|]. split; [reflexivity|exact F1]. }
    destruct (z_class z =? ZoneConsts.CLASS_IN)%N eqn:Ecl; [|exact Here1]. apply N.eqb_eq in Ecl.
    destruct aaaa as [[tb rb]|]; [|exact Here1].
    destruct (Gb _ eq_refl) as [GbP _]. cbn [snd] in GbP. destruct (Pz_split _ _ GbP) as [GbG GbR].
    assert (Hp : Pop (OAddRrset (sec_of SAr) hs1 owner ZoneConsts.TYPE_AAAA ZoneConsts.CLASS_IN tb rb false)).
    { rewrite <- Ecl. apply Hpop_rrset. exact GbR. }
    pose proof (St_add_rrset Pop d0 g0 d1 g1 SAr h1 hs1 owner ZoneConsts.TYPE_AAAA ZoneConsts.CLASS_IN tb rb HS1 Hh1 Hown GbG ty_aaaa cl_in Hp Hc1) as X.
    destruct (wi_add_rrset w_iface SAr h1 owner ZoneConsts.TYPE_AAAA ZoneConsts.CLASS_IN tb rb false (d_w d1)) as [[v w2]|[e w2]|]; cbn [RS]; auto.
    - destruct X as (d2 & g2 & HS2 & Hw2 & Hr2 & Hg2 & (Gq & _)). exists d2, g2. split; [exact HS2|]. split; [exact Hw2|].
      eapply Frame_trans; [exact F1|]. split; [exact Gq|]. split; apply prefix_eq; auto.
    - destruct X as (d2 & g2 & HS2 & Hw2 & Hr2 & Hg2 & (Gq & _)). exists d2, g2. split; [exact HS2|]. split; [exact Hw2|].
      eapply Frame_trans; [exact F1|]. split; [exact Gq|]. split; apply prefix_eq; auto. }
  destruct a as [[ta ra]|].
  - destruct (Ga _ eq_refl) as [GaP Gane]. cbn [snd] in *. destruct (Pz_split _ _ GaP) as [GaG GaR].
    pose proof (St_add_rrset Pop d0 g0 d g SAr h hs owner ZoneConsts.TYPE_A (z_class z) ta ra HS Hh Hown GaG ty_a zc16
                  (Hpop_rrset _ _ _ _ _ _ _ GaR) Hc) as X.
    destruct (wi_add_rrset w_iface SAr h owner ZoneConsts.TYPE_A (z_class z) ta ra false (d_w d)) as [[v w1]|[e w1]|]; cbn [RS]; auto.
    + destruct X as (d1 & g1 & HS1 & Hw1 & Hr1 & Hg1 & (Gq & Go & _)). subst w1.
      apply (Haaaa d1 g1 QhOwner HsOwner HS1).
      * split; [exact Gq|]. split; apply prefix_eq; auto.
      * reflexivity.
      * cbn [hs_contract]. intros m Hm. rewrite Go in Hm. destruct ra; [congruence|]. inversion Hm; subst. apply name_eq_refl.
    + destruct X as (d1 & g1 & HS1 & Hw1 & Hr1 & Hg1 & (Gq & _)). exists d1, g1. split; [exact HS1|]. split; [exact Hw1|].
      split; [exact Gq|]. split; apply prefix_eq; auto.
  - apply (Haaaa d g h hs HS (Frame_refl d g) Hh Hc).
Qed.

(* ---- the hint taken from slot i of an issued vector *)
Lemma vec_hint d g r v cts rds i nm : vec_issued d g r v cts rds ->
  (cts = [] \/ nth_error (rds_names cts rds) i = Some nm) ->
  exists hs, hint_agrees (d_regs d) (hint_from_vec (Some v) i) hs /\ hs_contract (d_regs d) g hs nm.
Proof.
  intros (X & Y & Z) [Hc|Hn].
  - rewrite (Z Hc). exists HsNone. split; [|exact I]. unfold hint_agrees, hint_from_vec. destruct i; reflexivity.
  - exists (HsReg r i). split.
    + unfold hint_agrees, hint_from_vec. cbn [resolve_hint]. rewrite X. destruct (nth_error v i) as [[p|]|]; reflexivity.
    + cbn [hs_contract]. intros v' p _ _. exists (map Some (rds_names cts rds)), nm. split; [exact Y|].
      split; [apply map_nth_error; exact Hn|apply name_eq_refl].
Qed.

(* ---- do_additional_section_processing *)
Lemma additional_loop_S start cts r v : forall rest pre d g, St d g -> Forall good_rd rest ->
  vec_issued d g r v cts (pre ++ rest) ->
  (cts = [] \/ (one_name cts start /\ length (rds_names cts pre) = length pre)) ->
  QS d g (additional_loop w_iface z start rest (Some v) (length pre) (d_w d)).
Proof.
  induction rest as [|rd rest IH]; intros pre d g HS Hrds Hv Hcts; cbn [additional_loop].
  - apply QS_ok_here; auto.
  - inversion Hrds as [|? ? [Hrd _] Hrest]; subst.
    pose proof (read_name_no_panic rd start) as NP.
    destruct (read_name_from_rdata rd start) as [nm|e|] eqn:Er; [| |congruence].
    2:{ apply QS_here; auto. }
    destruct (read_name_facts _ _ _ Hrd Er) as (_ & Gn & _).
    assert (Hslot : cts = [] \/ nth_error (rds_names cts (pre ++ rd :: rest)) (length pre) = Some nm).
    { destruct Hcts as [Hc|[H1 Hl]]; [left; exact Hc|right].
      rewrite rds_names_app. cbn [rds_names]. rewrite (rd_names_one _ _ _ _ Hrd H1 Er).
      rewrite nth_error_app2 by lia. rewrite Hl, Nat.sub_diag. reflexivity. }
    destruct (vec_hint d g r v cts _ (length pre) nm Hv Hslot) as (hs & Hh & Hc).
    pose proof (allow_QS _ _ _ (addrs_S d g nm _ hs false HS Gn Hh Hc)) as Q.
    destruct (allow_truncation (add_additional_addresses w_iface z nm (hint_from_vec (Some v) (length pre)) false (d_w d)))
      as [[u w1]|[e w1]|]; cbn [QS] in Q |- *; auto.
    destruct Q as (d1 & g1 & HS1 & Hw1 & F1). subst w1.
    apply (QS_frame d g d1 g1 _ F1).
    replace (S (length pre)) with (length (pre ++ [rd])) by (rewrite app_length; simpl; lia).
    apply IH; auto.
    + rewrite <- app_assoc. cbn [app]. eapply vec_issued_frame; eauto.
    + destruct Hcts as [Hc'|[H1 Hl]]; [left; exact Hc'|right]. split; [exact H1|].
      rewrite rds_names_app. cbn [rds_names]. rewrite (rd_names_one _ _ _ _ Hrd H1 Er).
      rewrite !app_length. cbn [length]. lia.
Qed.

Lemma additional_S ty rs r v d g : St d g -> Forall good_rd (snd rs) ->
  vec_issued d g r v (component_types (z_class z) ty) (snd rs) ->
  QS d g (do_additional_section_processing w_iface z ty rs (Some v) (d_w d)).
Proof.
  intros HS Hrds Hv. unfold do_additional_section_processing.
  change ADDITIONAL_CLASSES with [1%N; 3%N]. cbn [existsb]. rewrite orb_false_r.
  destruct ((z_class z =? 1)%N || (z_class z =? 3)%N) eqn:Ec; cbn [negb]; [|apply QS_ok_here; auto].
  destruct (lookup_offset ADDITIONAL_TABLE ty) as [start|] eqn:Eo; [|apply QS_ok_here; auto].
  assert (Hc : (z_class z = 1 \/ z_class z = 3)%N).
  { apply orb_prop in Ec. destruct Ec as [E|E]; apply N.eqb_eq in E; auto. }
  apply (additional_loop_S start _ r v (snd rs) [] d g HS Hrds Hv).
  destruct (addl_cts _ _ _ Hc Eo) as [H|H]; [left; exact H|right; split; [exact H|reflexivity]].
Qed.

(* ---- the negative-caching SOA *)
Lemma ty_soa : (ZoneConsts.TYPE_SOA < 65536)%N. Proof. reflexivity. Qed.
Lemma ty_ns : (ZoneConsts.TYPE_NS < 65536)%N. Proof. reflexivity. Qed.
Lemma ty_cname : (ZoneConsts.TYPE_CNAME < 65536)%N. Proof. reflexivity. Qed.

Lemma in_zone_apex' : in_zone apex apex = true.
Proof. unfold in_zone. apply is_suffixb_refl. Qed.

Lemma negsoa_S d g : St d g -> QS d g (add_negative_caching_soa w_iface negttl z (d_w d)).
Proof.
  intros HS.
  destruct (zone_lookup_refines req apex cls z R apex 6 true false Hinv (fun _ => in_zone_apex')) as (r & Hz & Hs).
  pose proof (zone_soa_lookup z) as L. rewrite Hzn in L. change ZoneConsts.TYPE_SOA with 6%N in L.
  rewrite L in Hz. inversion Hz as [Hr]. clear Hz L.
  pose proof (spec_lookup_good req apex cls R Pz HR _ _ _ _ _ Hs) as G.
  unfold add_negative_caching_soa.
  destruct (zone_soa z) as [[ttl rds]|]; [|apply QS_here; auto].
  subst r. cbn [lookup_good] in G. destruct G as [GP _]. cbn [snd] in GP.
  destruct rds as [|rd rest]; [apply QS_here; auto|].
  inversion GP as [|? ? (Grd & _ & GPR) _]; subst. pose proof Grd as [Hrd _].
  pose proof (soa_minimum_spec rd Hrd) as Hm.
  destruct (read_soa_minimum rd) as [m|e|]; [| |contradiction]; [|apply QS_here; auto].
  apply lift_add_QS.
  assert (Hown : good_name (zone_name z)) by (rewrite Hzn; exact Hapex).
  pose proof (St_add_rr Pop d0 g0 d g SNs QhNone HsNone (zone_name z) ZoneConsts.TYPE_SOA (z_class z) (negttl ttl m) rd HS eq_refl Hown Grd ty_soa zc16
                (Hpop_rr _ _ _ _ _ _ _ GPR) I) as X.
  destruct (wi_add_rr w_iface SNs QhNone (zone_name z) ZoneConsts.TYPE_SOA (z_class z) (negttl ttl m) rd (d_w d)) as [w1|[e w1]|]; cbn [RS]; auto.
  - destruct X as (d1 & g1 & HS1 & Hw1 & Hr1 & Hg1 & (Gq & _)). exists d1, g1. split; [exact HS1|]. split; [exact Hw1|].
    split; [exact Gq|]. split; apply prefix_eq; auto.
  - destruct X as (d1 & g1 & HS1 & Hw1 & Hr1 & Hg1 & (Gq & _)). exists d1, g1. split; [exact HS1|]. split; [exact Hw1|].
    split; [exact Gq|]. split; apply prefix_eq; auto.
Qed.

(* ---- referrals *)
Lemma referral_names_facts child : forall rds idx glues adds, Forall good_rd rds ->
  referral_names child rds idx = Ok (glues, adds) ->
  forall i nm, In (i, nm) (glues ++ adds) ->
    good_name nm /\ idx <= i /\ nth_error (rds_names [CtCompressible] rds) (i - idx) = Some nm.
Proof.
  induction rds as [|rd rds IH]; intros idx glues adds Hrds; cbn [referral_names].
  - intros H. inversion H; subst. intros i nm [].
  - inversion Hrds as [|? ? [Hrd _] Hrest]; subst.
    destruct (read_name_from_rdata rd 0) as [n|e|] eqn:Er; cbn [bind]; try discriminate.
    destruct (referral_names child rds (S idx)) as [[g1 a1]|e|] eqn:Ern; cbn [bind]; try discriminate.
    destruct (read_name_facts _ _ _ Hrd Er) as (_ & Gn & _).
    assert (H1 : rd_names [CtCompressible] rd = [n]) by (apply (rd_names_one _ 0 _ _ Hrd); [left; split; reflexivity|exact Er]).
    assert (Hcase : forall i nm, (i, nm) = (idx, n) \/ In (i, nm) (g1 ++ a1) ->
              good_name nm /\ idx <= i /\ nth_error (rds_names [CtCompressible] (rd :: rds)) (i - idx) = Some nm).
    { intros i nm [E|Hin].
      - inversion E; subst. split; [exact Gn|]. split; [lia|]. cbn [rds_names]. rewrite H1, Nat.sub_diag. reflexivity.
      - destruct (IH (S idx) g1 a1 Hrest Ern i nm Hin) as (A & B & C). split; [exact A|]. split; [lia|].
        cbn [rds_names]. rewrite H1. cbn [app]. replace (i - idx) with (S (i - S idx)) by lia. exact C. }
    destruct (eq_or_subdomain_of n child); intros H; inversion H; subst; intros i nm Hin; apply Hcase.
    + cbn [app] in Hin. destruct Hin as [E|Hin]; [left; auto|right; exact Hin].
    + apply in_app_or in Hin. destruct Hin as [Hin|[E|Hin]]; [right; apply in_or_app; auto|left; auto|right; apply in_or_app; auto].
Qed.

Lemma referral_names_no_panic child : forall rds idx, referral_names child rds idx <> Panic.
Proof.
  induction rds as [|rd rds IH]; intros idx; cbn [referral_names]; [discriminate|].
  pose proof (read_name_no_panic rd 0) as NP.
  destruct (read_name_from_rdata rd 0) as [n|e|]; cbn [bind]; try discriminate; try congruence.
  specialize (IH (S idx)). destruct (referral_names child rds (S idx)) as [[g1 a1]|e|]; cbn [bind]; try discriminate; try congruence.
  destruct (eq_or_subdomain_of n child); discriminate.
Qed.

Lemma glue_loop_S r v rds : forall l d g, St d g -> vec_issued d g r v [CtCompressible] rds ->
  (forall i nm, In (i, nm) l -> good_name nm /\ nth_error (rds_names [CtCompressible] rds) i = Some nm) ->
  QS d g (glue_loop w_iface z l v (d_w d)).
Proof.
  induction l as [|[idx n] l IH]; intros d g HS Hv Hl; cbn [glue_loop]; [apply QS_ok_here; auto|].
  destruct (Hl idx n (or_introl eq_refl)) as [Gn Hn].
  destruct (vec_hint d g r v _ _ idx n Hv (or_intror Hn)) as (hs & Hh & Hc).
  pose proof (lift_add_QS _ _ _ (addrs_S d g n _ hs true HS Gn Hh Hc)) as Q.
  destruct (lift_add (add_additional_addresses w_iface z n (hint_from_vec (Some v) idx) true (d_w d)))
    as [[u w1]|[e w1]|]; cbn [QS] in Q |- *; auto.
  destruct Q as (d1 & g1 & HS1 & Hw1 & F1). subst w1. apply (QS_frame d g d1 g1 _ F1).
  apply IH; auto; [eapply vec_issued_frame; eauto|]. intros i nm Hin. apply Hl. right. exact Hin.
Qed.

Lemma optional_loop_S r v rds : forall l d g, St d g -> vec_issued d g r v [CtCompressible] rds ->
  (forall i nm, In (i, nm) l -> good_name nm /\ nth_error (rds_names [CtCompressible] rds) i = Some nm) ->
  QS d g (optional_loop w_iface z l v (d_w d)).
Proof.
  induction l as [|[idx n] l IH]; intros d g HS Hv Hl; cbn [optional_loop]; [apply QS_ok_here; auto|].
  destruct (Hl idx n (or_introl eq_refl)) as [Gn Hn].
  destruct (vec_hint d g r v _ _ idx n Hv (or_intror Hn)) as (hs & Hh & Hc).
  pose proof (allow_QS _ _ _ (addrs_S d g n _ hs true HS Gn Hh Hc)) as Q.
  destruct (allow_truncation (add_additional_addresses w_iface z n (hint_from_vec (Some v) idx) true (d_w d)))
    as [[u w1]|[e w1]|]; cbn [QS] in Q |- *; auto.
  destruct Q as (d1 & g1 & HS1 & Hw1 & F1). subst w1. apply (QS_frame d g d1 g1 _ F1).
  apply IH; auto; [eapply vec_issued_frame; eauto|]. intros i nm Hin. apply Hl. right. exact Hin.
Qed.

Lemma referral_S child ns d g : St d g -> good_name child -> Forall (Pz 2%N) (snd ns) ->
  QS d g (do_referral w_iface z child ns (d_w d)).
Proof.
  intros HS Gc HrdsP. destruct (Pz_split _ _ HrdsP) as [Hrds HrdsR]. unfold do_referral.
  pose proof (St_add_rrset_vec Pop d0 g0 d g SNs QhNone HsNone child ZoneConsts.TYPE_NS (z_class z) (fst ns) (snd ns) HS eq_refl Gc Hrds ty_ns zc16
                (Hpop_rrset _ _ _ _ _ _ _ HrdsR) I) as X.
  destruct (wi_add_rrset w_iface SNs QhNone child ZoneConsts.TYPE_NS (z_class z) (fst ns) (snd ns) true (d_w d)) as [[v w1]|[e w1]|];
    cbn [lift_addv QS]; auto.
  2:{ destruct X as (d1 & g1 & HS1 & Hw1 & Hr1 & Hg1 & (Gq & _)). exists d1, g1. split; [exact HS1|]. split; [exact Hw1|].
      split; [exact Gq|]. split; apply prefix_snoc; auto. }
  destruct X as (d1 & g1 & HS1 & Hw1 & Hr1 & Hg1 & Hv & (Gq & _)). subst w1.
  assert (F1 : Frame d g d1 g1) by (split; [exact Gq|split; apply prefix_snoc; auto]).
  apply (QS_frame d g d1 g1 _ F1).
  change (component_types (z_class z) ZoneConsts.TYPE_NS) with [CtCompressible] in Hv.
  pose proof (referral_names_no_panic child (snd ns) 0) as NP.
  destruct (referral_names child (snd ns) 0) as [[glues adds]|e|] eqn:Ern; [| |congruence]; [|apply QS_here; auto].
  pose proof (referral_names_facts child (snd ns) 0 glues adds Hrds Ern) as Hf.
  assert (Hg : forall i nm, In (i, nm) glues -> good_name nm /\ nth_error (rds_names [CtCompressible] (snd ns)) i = Some nm).
  { intros i nm Hin. destruct (Hf i nm (in_or_app _ _ _ (or_introl Hin))) as (A & _ & C). rewrite Nat.sub_0_r in C. auto. }
  assert (Ha : forall i nm, In (i, nm) adds -> good_name nm /\ nth_error (rds_names [CtCompressible] (snd ns)) i = Some nm).
  { intros i nm Hin. destruct (Hf i nm (in_or_app _ _ _ (or_intror Hin))) as (A & _ & C). rewrite Nat.sub_0_r in C. auto. }
  pose proof (glue_loop_S (length (d_regs d)) v (snd ns) glues d1 g1 HS1 Hv Hg) as Q.
  destruct (glue_loop w_iface z glues v (d_w d1)) as [[u w2]|[e w2]|]; cbn [QS] in Q |- *; auto.
  destruct Q as (d2 & g2 & HS2 & Hw2 & F2). subst w2. apply (QS_frame d1 g1 d2 g2 _ F2).
  apply (optional_loop_S (length (d_regs d)) v (snd ns) adds d2 g2 HS2); auto. eapply vec_issued_frame; eauto.
Qed.

(* ---- a positive answer *)
Lemma found_S h hs owner ty rs d g : St d g -> good_name owner -> single_good Pz ty rs ->
  hint_agrees (d_regs d) h hs -> hs_contract (d_regs d) g hs owner ->
  QS d g (add_found w_iface z h owner ty rs (d_w d)).
Proof.
  intros HS Gn [HrdsP Hne] Hh Hc. destruct (Pz_split _ _ HrdsP) as [Hrds HrdsR]. pose proof (Pz_ty _ _ HrdsP Hne) as Hty.
  unfold add_found.
  pose proof (St_add_rrset_vec Pop d0 g0 d g SAn h hs owner ty (z_class z) (fst rs) (snd rs) HS Hh Gn Hrds Hty zc16
                (Hpop_rrset _ _ _ _ _ _ _ HrdsR) Hc) as X.
  destruct (wi_add_rrset w_iface SAn h owner ty (z_class z) (fst rs) (snd rs) true (d_w d)) as [[v w1]|[e w1]|];
    cbn [lift_addv QS]; auto.
  2:{ destruct X as (d1 & g1 & HS1 & Hw1 & Hr1 & Hg1 & (Gq & _)). exists d1, g1. split; [exact HS1|]. split; [exact Hw1|].
      split; [exact Gq|]. split; apply prefix_snoc; auto. }
  destruct X as (d1 & g1 & HS1 & Hw1 & Hr1 & Hg1 & Hv & (Gq & _)). subst w1.
  assert (F1 : Frame d g d1 g1) by (split; [exact Gq|split; apply prefix_snoc; auto]).
  apply (QS_frame d g d1 g1 _ F1). eapply additional_S; eauto.
Qed.

(* ---- set_rcode / set_aa in front of a continuation *)
Lemma set_rcode_QS {A} d g rc (k : writer -> res (perr * writer) (A * writer)) : St d g -> (rc < 16)%N ->
  (forall d1, St d1 g -> d_regs d1 = d_regs d -> QS d1 g (k (d_w d1))) ->
  QS d g (match lift_set (wi_set_rcode w_iface rc (d_w d)) with Ok (_, w1) => k w1 | Err e => Err e | Panic => Panic end).
Proof.
  intros HS Hrc Hk. destruct (St_set_rcode Pop d0 g0 d g rc HS Hrc (Hpop_rc rc)) as (w' & E & HS'). rewrite E. cbn [lift_set].
  apply (QS_frame d g (mkD w' (d_regs d)) g); [split; [reflexivity|split; apply prefix_refl]|].
  apply (Hk (mkD w' (d_regs d))); auto.
Qed.

Lemma set_aa_then_QS d g (k : writer -> res (perr * writer) (unit * writer)) : St d g ->
  (forall d1, St d1 g -> d_regs d1 = d_regs d -> QS d1 g (k (d_w d1))) ->
  QS d g (set_aa_then w_iface k (d_w d)).
Proof.
  intros HS Hk. unfold set_aa_then. destruct (St_set_aa Pop d0 g0 d g true HS (Hpop_aa true)) as (w' & E & HS'). rewrite E. cbn [lift_set].
  apply (QS_frame d g (mkD w' (d_regs d)) g); [split; [reflexivity|split; apply prefix_refl]|].
  apply (Hk (mkD w' (d_regs d))); auto.
Qed.

(* ---- CNAME chains *)
Variable qname : zname.
Hypothesis Hqn : good_name qname.

Definition Gq (g : gn) : Prop := g_q g = Some qname.

Lemma cname_S ty : forall fuel cn os d g, St d g -> Gq g -> Forall (Pz 5%N) (snd cn) ->
  1 <= fuel -> length os + fuel = 8 ->
  (forall o, last_opt os = Some o -> good_name o /\ g_r g = Some o) ->
  QS d g (follow_cname_1 w_iface negttl z fuel qname ty cn os (d_w d)).
Proof.
  induction fuel as [|fuel IH]; intros cn os d g HS HGq Hrds Hf Hlen Hlast; [lia|].
  cbn [follow_cname_1].
  destruct (snd cn) as [|rd rest] eqn:Ecn; [apply QS_here; auto|].
  inversion Hrds as [|? ? (Grd & _ & GPR) _]; subst. pose proof Grd as [Hrd _].
  pose proof (name_from_all_no_panic rd) as NP.
  destruct (name_from_all rd) as [[[cname wire]|]|e|] eqn:En; try congruence; try (apply QS_here; auto; fail).
  destruct (name_from_all_facts _ _ _ Hrd En) as (-> & Hne & Gcn & _).
  destruct (zname_eqb cname qname || existsb (zname_eqb cname) os); [apply QS_here; auto|].
  assert (Hstep : forall h hs owner, good_name owner -> hint_agrees (d_regs d) h hs -> hs_contract (d_regs d) g hs owner ->
    QS d g (match rd with
            | [] => Panic
            | _ :: _ =>
              match lift_add (wi_add_rr w_iface SAn h owner ZoneConsts.TYPE_CNAME (z_class z) (fst cn) rd (d_w d)) with
              | Ok (_, w1) => follow_cname_2_body w_iface negttl z (follow_cname_1 w_iface negttl z fuel qname ty) qname cname ty os w1
              | Err e => Err e
              | Panic => Panic
              end
            end)).
  { intros h hs owner Gown Hh Hc. destruct rd as [|b0 rd']; [congruence|]. set (rd := b0 :: rd') in *.
    pose proof (St_add_rr Pop d0 g0 d g SAn h hs owner ZoneConsts.TYPE_CNAME (z_class z) (fst cn) rd HS Hh Gown Grd ty_cname zc16
                  (Hpop_rr _ _ _ _ _ _ _ GPR) Hc) as X.
    destruct (wi_add_rr w_iface SAn h owner ZoneConsts.TYPE_CNAME (z_class z) (fst cn) rd (d_w d)) as [w1|[e w1]|]; cbn [lift_add QS]; auto.
    2:{ destruct X as (d1 & g1 & HS1 & Hw1 & Hr1 & Hg1 & (Gq1 & _)). exists d1, g1. split; [exact HS1|]. split; [exact Hw1|].
        split; [exact Gq1|]. split; apply prefix_eq; auto. }
    destruct X as (d1 & g1 & HS1 & Hw1 & Hr1 & Hg1 & (Gq1 & Go1 & Gr1)). subst w1.
    assert (F1 : Frame d g d1 g1) by (split; [exact Gq1|split; apply prefix_eq; auto]).
    apply (QS_frame d g d1 g1 _ F1).
    assert (HGq1 : Gq g1) by (unfold Gq; rewrite Gq1; exact HGq).
    assert (Hgr : g_r g1 = Some cname).
    { rewrite Gr1. change ZoneConsts.TYPE_CNAME with TYPE_CNAME. rewrite (cname_rd_names (z_class z) rd cname rd Hrd En). reflexivity. }
    unfold follow_cname_2_body.
    destruct (zone_lookup_refines req apex cls z R cname ty false false Hinv) as (r & Hz & Hs); [discriminate|].
    rewrite Hz. cbn [zl].
    pose proof (spec_lookup_good req apex cls R Pz HR _ _ _ _ _ Hs) as G.
    destruct r as [s sos|next sos|c ns|sos| |]; cbn [lookup_good] in G.
    - apply (found_S QhRdata HsRdata); auto; [reflexivity|].
      cbn [hs_contract]. intros m Hm. rewrite Hgr in Hm. inversion Hm; subst. apply name_eq_refl.
    - destruct G as [GP _].
      destruct (_ <? PREVIOUS_OWNERS_CAP) eqn:L; change PREVIOUS_OWNERS_CAP with 7 in L; [|apply QS_here; auto].
      apply Nat.ltb_lt in L.
      assert (Hfu : 1 <= fuel /\ length (os ++ [cname]) + fuel = 8).
      { rewrite app_length. cbn [length]. unfold zname, ZoneTree.name, ZoneTree.label, wname, bytes in *. lia. }
      apply IH; auto; try tauto.
      intros o Ho. rewrite last_opt_snoc in Ho. inversion Ho; subst. auto.
    - destruct G as [GP Gs]. apply referral_S; auto. eapply good_name_suffix; eauto.
    - apply negsoa_S; auto.
    - apply (set_rcode_QS d1 g1 RCODE_NXDOMAIN); auto; [reflexivity|]. intros d2 HS2 _. apply negsoa_S; auto.
    - apply QS_ok_here; auto. }
  destruct (last_opt _) as [o|] eqn:Elast.
  - destruct (Hlast o eq_refl) as [Go Hgr]. apply (Hstep QhRdata HsRdata o Go); [reflexivity|].
    cbn [hs_contract]. intros m Hm. rewrite Hgr in Hm. inversion Hm; subst. apply name_eq_refl.
  - apply (Hstep QhQname HsQname qname Hqn); [reflexivity|].
    cbn [hs_contract]. intros m Hm. rewrite HGq in Hm. inversion Hm; subst. apply name_eq_refl.
Qed.

(* ---- ANY *)
Lemma any_loop_S : forall rrsets n d g, St d g -> Gq g ->
  Forall (fun x => Forall (Pz (rs_type x)) (rs_rdatas x) /\ rs_rdatas x <> []) rrsets ->
  QS d g (any_loop w_iface z qname rrsets n (d_w d)).
Proof.
  induction rrsets as [|x rrsets IH]; intros n d g HS HGq Hall; cbn [any_loop]; [apply QS_ok_here; auto|].
  inversion Hall as [|? ? (HxP & Hxne) Hrest]; subst. destruct (Pz_split _ _ HxP) as [Hx1 HxR]. pose proof (Pz_ty _ _ HxP Hxne) as Hx3.
  assert (Hc : hs_contract (d_regs d) g HsQname qname).
  { cbn [hs_contract]. intros m Hm. rewrite HGq in Hm. inversion Hm; subst. apply name_eq_refl. }
  pose proof (St_add_rrset Pop d0 g0 d g SAn QhQname HsQname qname (rs_type x) (z_class z) (rs_ttl x) (rs_rdatas x) HS eq_refl Hqn Hx1 Hx3 zc16
                (Hpop_rrset _ _ _ _ _ _ _ HxR) Hc) as X.
  destruct (wi_add_rrset w_iface SAn QhQname qname (rs_type x) (z_class z) (rs_ttl x) (rs_rdatas x) false (d_w d)) as [[v w1]|[e w1]|];
    cbn [lift_addv QS]; auto.
  - destruct X as (d1 & g1 & HS1 & Hw1 & Hr1 & Hg1 & (Gq1 & _)). subst w1.
    apply (QS_frame d g d1 g1); [split; [exact Gq1|split; apply prefix_eq; auto]|].
    apply IH; auto. unfold Gq. rewrite Gq1. exact HGq.
  - destruct X as (d1 & g1 & HS1 & Hw1 & Hr1 & Hg1 & (Gq1 & _)). exists d1, g1. split; [exact HS1|]. split; [exact Hw1|].
    split; [exact Gq1|]. split; apply prefix_eq; auto.
Qed.

Hypothesis Hzone : in_zone apex qname = true.

Lemma nxdomain_S d g : St d g -> QS d g (nxdomain w_iface negttl z (d_w d)).
Proof.
  intros HS. unfold nxdomain. apply set_rcode_QS; auto; [reflexivity|]. intros d1 HS1 _.
  apply set_aa_then_QS; auto. intros d2 HS2 _. apply negsoa_S; auto.
Qed.

Lemma answer_S ty d g : St d g -> Gq g -> QS d g (answer w_iface negttl z qname ty (d_w d)).
Proof.
  intros HS HGq. unfold answer.
  destruct (zone_lookup_refines req apex cls z R qname ty true false Hinv (fun _ => Hzone)) as (r & Hz & Hs).
  rewrite Hz. cbn [zl].
  pose proof (spec_lookup_good req apex cls R Pz HR _ _ _ _ _ Hs) as G.
  pose proof (spec_lookup_not_wrong req apex cls R qname ty true false Hzone) as Hnw.
  destruct r as [s sos|cn sos|c ns|sos| |]; cbn [lookup_good norm_lookup] in *.
  - apply set_aa_then_QS; auto. intros d1 HS1 Hr1.
    apply (found_S QhQname HsQname); auto; [reflexivity|].
    cbn [hs_contract]. intros m Hm. rewrite HGq in Hm. inversion Hm; subst. apply name_eq_refl.
  - destruct G as [GP _]. unfold do_cname. destruct (St_set_aa Pop d0 g0 d g true HS (Hpop_aa true)) as (w' & E & HS'). rewrite E. cbn [lift_set].
    apply (QS_frame d g (mkD w' (d_regs d)) g); [split; [reflexivity|split; apply prefix_refl]|].
    change (S PREVIOUS_OWNERS_CAP) with 8.
    apply (cname_S ty 8 cn [] (mkD w' (d_regs d)) g); auto; try (cbn; lia).
    intros o Ho. discriminate.
  - destruct G as [GP Gs]. apply referral_S; auto. eapply good_name_suffix; eauto.
  - apply set_aa_then_QS; auto. intros d1 HS1 _. apply negsoa_S; auto.
  - apply nxdomain_S; auto.
  - congruence.
Qed.

Lemma answer_any_S d g : St d g -> Gq g -> QS d g (answer_any w_iface negttl z qname (d_w d)).
Proof.
  intros HS HGq. unfold answer_any.
  destruct (zone_lookup_all_refines req apex cls z R qname true false Hinv (fun _ => Hzone)) as (r & Hz & Hs).
  rewrite Hz. cbn [zl].
  pose proof (spec_all_good req apex cls R Pz HR _ _ _ _ Hs) as G.
  pose proof (spec_lookup_all_not_wrong req apex cls R qname true false Hzone) as Hnw.
  destruct r as [rrsets sos|c ns| |]; cbn [all_good norm_all] in *.
  - apply set_aa_then_QS; auto. intros d1 HS1 _.
    pose proof (any_loop_S rrsets 0 d1 g HS1 HGq G) as Q.
    destruct (any_loop w_iface z qname rrsets 0 (d_w d1)) as [[n w2]|[e w2]|]; cbn [QS] in Q |- *; auto.
    destruct (n =? 0); [|exact Q].
    destruct Q as (d2 & g2 & HS2 & Hw2 & F2). subst w2. apply (QS_frame d1 g d2 g2 _ F2). apply negsoa_S; auto.
  - destruct G as [GP Gs]. apply referral_S; auto. eapply good_name_suffix; eauto.
  - apply nxdomain_S; auto.
  - congruence.
Qed.

(* ---- handle_non_axfr_query: the error mapping *)
Lemma finish_S (tcp : bool) d g (q : res (perr * writer) (unit * writer)) : QS d g q ->
  exists w' d' g',
    match q with
    | Panic => None
    | Ok (_, w1) => Some w1
    | Err (PServFail, w1) =>
      match wi_set_aa w_iface false w1 with
      | None => None
      | Some w2 => match wi_set_rcode w_iface RCODE_SERVFAIL w2 with
                   | None => None
                   | Some w3 => Some (wi_clear_rrs w_iface w3)
                   end
      end
    | Err (PTruncation, w1) =>
      let w2 := wi_clear_rrs w_iface w1 in
      if tcp then
        match wi_set_aa w_iface false w2 with
        | None => None
        | Some w3 => wi_set_rcode w_iface RCODE_SERVFAIL w3
        end
      else wi_set_tc w_iface true w2
    end = Some w' /\ St d' g' /\ d_w d' = w'.
Proof.
  intros Q. destruct q as [[u w1]|[[|] w1]|]; cbn [QS] in Q; try contradiction.
  - destruct Q as (d1 & g1 & HS1 & Hw1 & _). exists w1, d1, g1. auto.
  - destruct Q as (d1 & g1 & HS1 & Hw1 & _). subst w1.
    destruct (St_set_aa Pop d0 g0 d1 g1 false HS1 (Hpop_aa false)) as (w2 & E2 & HS2). rewrite E2.
    destruct (St_set_rcode Pop d0 g0 (mkD w2 (d_regs d1)) g1 RCODE_SERVFAIL HS2 eq_refl (Hpop_rc _)) as (w3 & E3 & HS3).
    cbn [d_w] in E3. rewrite E3. cbn [d_regs] in HS3.
    pose proof (St_clear Pop d0 g0 _ _ HS3 Hpop_clr) as HS4. cbn [d_w d_regs] in HS4.
    eexists _, _, _. split; [reflexivity|]. split; [exact HS4|reflexivity].
  - destruct Q as (d1 & g1 & HS1 & Hw1 & _). subst w1.
    pose proof (St_clear Pop d0 g0 _ _ HS1 Hpop_clr) as HS2. cbv zeta.
    destruct tcp.
    + destruct (St_set_aa Pop d0 g0 _ _ false HS2 (Hpop_aa false)) as (w3 & E3 & HS3). cbn [d_w d_regs] in E3, HS3. rewrite E3.
      destruct (St_set_rcode Pop d0 g0 _ _ RCODE_SERVFAIL HS3 eq_refl (Hpop_rc _)) as (w4 & E4 & HS4). cbn [d_w d_regs] in E4, HS4.
      eexists _, _, _. split; [exact E4|]. split; [exact HS4|reflexivity].
    + destruct (St_set_tc Pop d0 g0 _ _ true HS2 (Hpop_tc true)) as (w3 & E3 & HS3). cbn [d_w d_regs] in E3, HS3.
      eexists _, _, _. split; [exact E3|]. split; [exact HS3|reflexivity].
Qed.

Theorem handle_S ty tcp d g : St d g -> Gq g ->
  exists w' d' g', handle_non_axfr_query w_iface negttl z qname ty tcp (d_w d) = Some w' /\ St d' g' /\ d_w d' = w'.
Proof.
  intros HS HGq. unfold handle_non_axfr_query. apply (finish_S tcp d g).
  destruct (ty =? QTYPE_ANY)%N; [apply answer_any_S|apply answer_S]; auto.
Qed.

End Key.
