(* RdataSetOwned::from_iter keeps the first member of each equality class in
   insertion order: iterating the result gives nodup_by of the inputs. *)
From QV Require Import Base.ListX Model.RdataM Model.RdataSetM Spec.RdataFormatS Spec.RdataEqS
  Proofs.RdNameP Proofs.RdataFormatSP Proofs.RdataVP.
Local Open Scope nat_scope.

Definition small (r : bytes) : Prop := (N.of_nat (length r) < 65536)%N.
Definition enc (be : bool) (r : bytes) : bytes := enc16 be (N.of_nat (length r) mod 65536) ++ r.
Definition inner_of (be : bool) (rs : list bytes) : bytes := flat_map (enc be) rs.

Lemma dec_enc16 be L : (L < 65536)%N ->
  exists x y, enc16 be L = [x; y] /\ dec16 be x y = L.
Proof.
  intros H. destruct (be16_parts L H) as (P1 & P2 & P3).
  unfold enc16, dec16. destruct be; eexists; eexists; split; try reflexivity; lia.
Qed.

Lemma iter_next_enc be r rest : small r -> iter_next be (enc be r ++ rest) = Some (r, rest).
Proof.
  intros Hs. unfold small in Hs. unfold enc. rewrite N.mod_small by exact Hs.
  destruct (dec_enc16 be _ Hs) as (x & y & -> & D).
  unfold iter_next. cbn [app]. unfold get_range at 1. cbn [Nat.ltb Nat.leb orb length slice skipn firstn Nat.sub].
  rewrite D, Nat2N.id. unfold get_range.
  destruct (length r + 2 <? 2) eqn:A; [apply Nat.ltb_lt in A; lia|]. cbn [orb].
  destruct (length (x :: y :: r ++ rest) <? length r + 2) eqn:B.
  { apply Nat.ltb_lt in B. simpl in B. rewrite app_length in B. lia. }
  unfold slice. replace (length r + 2 - 2) with (length r) by lia. cbn [skipn].
  rewrite firstn_app_exact by reflexivity.
  replace (length r + 2) with (S (S (length r))) by lia. cbn [skipn].
  rewrite skipn_app_exact by reflexivity. reflexivity.
Qed.

Lemma iter_all_inner be : forall rs fuel, Forall small rs -> length rs < fuel ->
  iter_all fuel be (inner_of be rs) = rs.
Proof.
  induction rs as [|r rs IH]; intros fuel Hs Hf; (destruct fuel as [|f]; [lia|]); cbn [iter_all].
  - reflexivity.
  - inversion Hs; subst. cbn [inner_of flat_map]. rewrite iter_next_enc by assumption.
    f_equal. apply IH; auto. simpl in Hf. lia.
Qed.

Lemma inner_len be rs : length rs <= length (inner_of be rs).
Proof.
  induction rs as [|r rs IH]; simpl; [lia|]. unfold enc at 1, enc16. rewrite !app_length.
  destruct be; simpl; lia.
Qed.

Lemma set_iter_inner be rs : Forall small rs -> set_iter be (inner_of be rs) = rs.
Proof. intros H. unfold set_iter. apply iter_all_inner; auto. pose proof (inner_len be rs). lia. Qed.

Lemma inner_snoc be kept r :
  inner_of be (kept ++ [r]) = inner_of be kept ++ enc16 be (N.of_nat (length r) mod 65536) ++ r.
Proof. unfold inner_of. rewrite flat_map_app. simpl. rewrite app_nil_r. reflexivity. Qed.

Section WithEq.
  Variables (c t : N) (eqf : bytes -> bytes -> bool) (all : list bytes).
  (* on the inputs, the model's equals is the total boolean function eqf *)
  Hypothesis Heq : forall x y, In x all -> In y all -> equals c t x y = Ok (eqf x y).

  Lemma any_equal_spec r ex : In r all -> incl ex all ->
    any_equal c t r ex = Ok (existsb (fun y => eqf r y) ex).
  Proof.
    intros Hr. induction ex as [|x ex IH]; intros Hi; cbn [any_equal existsb]; [reflexivity|].
    rewrite Heq by (auto; apply Hi; left; reflexivity). cbn [bind].
    destruct (eqf r x); cbn [orb]; [reflexivity|]. apply IH. intros z Hz. apply Hi. right. exact Hz.
  Qed.

  Lemma from_iter_loop_spec be : forall rs kept acc,
    match acc with Some i => i | None => [] end = inner_of be kept ->
    Forall small kept -> Forall small rs -> incl kept all -> incl rs all ->
    from_iter_loop be c t acc rs =
    Ok (match rs with [] => acc | _ => Some (inner_of be (kept ++ nodup_by eqf kept rs)) end).
  Proof.
    induction rs as [|r rs IH]; intros kept acc Hacc Hk Hs Ik Ir; cbn [from_iter_loop]; [reflexivity|].
    inversion Hs as [|? ? Hr Hs']; subst.
    cbv zeta.
    match goal with |- context [set_insert be c t ?x r] =>
      replace x with (inner_of be kept) by (symmetry; exact Hacc) end.
    unfold set_insert. rewrite set_iter_inner by exact Hk.
    rewrite any_equal_spec by (auto; apply Ir; left; reflexivity). cbn [bind nodup_by].
    assert (Ir' : incl rs all) by (intros z Hz; apply Ir; right; exact Hz).
    destruct (existsb (fun y => eqf r y) kept) eqn:E; cbn [bind].
    - rewrite (IH kept (Some (inner_of be kept))) by auto.
      destruct rs; [rewrite app_nil_r|]; reflexivity.
    - rewrite (IH (kept ++ [r])).
      + destruct rs; cbn [nodup_by]; rewrite <- ?app_assoc; [rewrite inner_snoc|]; reflexivity.
      + cbn iota. symmetry. apply inner_snoc.
      + apply Forall_app. split; auto.
      + exact Hs'.
      + intros z Hz. apply in_app_or in Hz. destruct Hz as [Hz|[<-|[]]]; [apply Ik; exact Hz|].
        apply Ir. left. reflexivity.
      + exact Ir'.
  Qed.

  Theorem from_iter_spec be rs : Forall small rs -> incl rs all ->
    from_iter be c t rs =
    Ok (match rs with [] => None | _ => Some (inner_of be (nodup_by eqf [] rs)) end) /\
    (forall inner, from_iter be c t rs = Ok (Some inner) -> set_iter be inner = nodup_by eqf [] rs).
  Proof.
    intros Hs Hi. unfold from_iter.
    assert (L : from_iter_loop be c t None rs =
                Ok (match rs with [] => None | _ => Some (inner_of be ([] ++ nodup_by eqf [] rs)) end)).
    { apply (from_iter_loop_spec be rs [] None); auto; try reflexivity; try (intros z []). }
    rewrite L.
    split; [destruct rs; reflexivity|].
    intros inner H. destruct rs as [|r rs]; [discriminate|].
    assert (E : inner = inner_of be (nodup_by eqf [] (r :: rs))) by (cbn [app] in H; congruence).
    rewrite E.
    apply set_iter_inner.
    (* the kept members are members of the input, hence small *)
    assert (G : forall l seen, Forall small l -> Forall small (nodup_by eqf seen l)).
    { induction l as [|x l IHl]; intros seen Hl; cbn [nodup_by]; [constructor|].
      inversion Hl; subst. destruct (existsb _ seen); [apply IHl; auto|constructor; auto]. }
    apply G. exact Hs.
  Qed.
End WithEq.
