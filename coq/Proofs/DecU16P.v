(* Lemmas about the decimal codec of Model/DecU16.v (Rust's u16::from_str / Display) against the
   naive reading of Spec/CodeTextS.v ([horner], [spec_number]). *)
From QV Require Import Base.ListX Model.DecU16 Spec.CodeTextS.
Local Open Scope N_scope.

Lemma is_dec_digit_spec c : is_dec_digit c = true <-> 48 <= c <= 57.
Proof.
  unfold is_dec_digit. rewrite andb_true_iff, !N.leb_le. tauto.
Qed.

Definition hfold (a : N) (l : bytes) : N := fold_left (fun a d => a * 10 + (d - 48)) l a.

Lemma horner_hfold l : horner l = hfold 0 l.
Proof. reflexivity. Qed.

Lemma hfold_cons a d l : hfold a (d :: l) = hfold (a * 10 + (d - 48)) l.
Proof. reflexivity. Qed.

Lemma hfold_app a l1 l2 : hfold a (l1 ++ l2) = hfold (hfold a l1) l2.
Proof. unfold hfold. apply fold_left_app. Qed.

Lemma hfold_ge a l : a <= hfold a l.
Proof.
  revert a. induction l as [|d l IH]; intros a.
  - simpl. lia.
  - rewrite hfold_cons. specialize (IH (a * 10 + (d - 48))). lia.
Qed.

(* the checked loop computes the Horner value, and fails exactly when a non-digit is met or
   the value leaves the range *)
Lemma digits_loop_spec max l : forall a v, a <= max ->
  (digits_loop max l a = Ok v <-> forallb is_dec_digit l = true /\ hfold a l = v /\ v <= max).
Proof.
  induction l as [|c r IH]; intros a v Ha.
  - simpl. split.
    + intros H. inversion H; subst. auto.
    + intros (_ & H & _). subst. reflexivity.
  - cbn [digits_loop forallb]. rewrite hfold_cons.
    destruct (is_dec_digit c) eqn:Ed.
    + destruct (max <? a * 10) eqn:E1.
      * apply N.ltb_lt in E1. split; [discriminate|].
        intros (_ & H & Hv). pose proof (hfold_ge (a * 10 + (c - 48)) r). lia.
      * apply N.ltb_ge in E1.
        destruct (max <? a * 10 + (c - 48)) eqn:E2.
        -- apply N.ltb_lt in E2. split; [discriminate|].
           intros (_ & H & Hv). pose proof (hfold_ge (a * 10 + (c - 48)) r). lia.
        -- apply N.ltb_ge in E2. rewrite (IH _ v E2). simpl. tauto.
    + simpl. split; [discriminate|]. intros (H & _). discriminate.
Qed.

Lemma digits_loop_no_panic max l : forall a, digits_loop max l a <> Panic.
Proof.
  induction l as [|c r IH]; intros a; cbn [digits_loop]; [discriminate|].
  destruct (is_dec_digit c); [|discriminate].
  destruct (max <? a * 10); [discriminate|].
  destruct (max <? a * 10 + (c - 48)); [discriminate|]. apply IH.
Qed.

Lemma uint_from_str_no_panic max s : uint_from_str max s <> Panic.
Proof.
  unfold uint_from_str. destruct s as [|c r]; [discriminate|].
  destruct (((c =? 43) || (c =? 45)) && is_nil r); [discriminate|].
  destruct (c =? 43); apply digits_loop_no_panic.
Qed.

(* digits only: one or more decimal digits whose value fits *)
Definition spec_digits (ds : bytes) : option N :=
  if is_nil ds then None
  else if forallb is_dec_digit ds then (if horner ds <=? 65535 then Some (horner ds) else None) else None.

Lemma spec_number_unfold lenient l :
  spec_number lenient l =
  spec_digits (match l with c :: r => if lenient && (c =? 43) then r else l | [] => l end).
Proof. reflexivity. Qed.

Lemma digits_loop_spec_digits ds v : ds <> [] ->
  (digits_loop u16_max ds 0 = Ok v <-> spec_digits ds = Some v).
Proof.
  intros Hne. rewrite digits_loop_spec by (unfold u16_max; lia).
  unfold spec_digits. destruct ds as [|c r]; [congruence|]. cbn [is_nil].
  change (horner (c :: r)) with (hfold 0 (c :: r)). unfold u16_max.
  destruct (forallb is_dec_digit (c :: r)).
  - destruct (hfold 0 (c :: r) <=? 65535) eqn:E.
    + apply N.leb_le in E. split.
      * intros (_ & H & _). congruence.
      * intros H. inversion H; subst. auto.
    + apply N.leb_gt in E. split; [|discriminate]. intros (_ & H & Hv). lia.
  - split; [|discriminate]. intros (H & _). discriminate.
Qed.

(* Rust's u16::from_str accepts exactly: an optional '+', then one or more digits with value <= 65535 *)
Lemma u16_from_str_spec s v : u16_from_str s = Ok v <-> spec_number true s = Some v.
Proof.
  rewrite spec_number_unfold. unfold u16_from_str, uint_from_str.
  destruct s as [|c r].
  - cbn. split; discriminate.
  - cbn [andb]. destruct (c =? 43) eqn:E43.
    + cbn [orb]. destruct r as [|c' r'].
      * cbn. split; discriminate.
      * cbn [is_nil andb]. apply digits_loop_spec_digits. discriminate.
    + cbn [orb]. destruct (c =? 45) eqn:E45.
      * apply N.eqb_eq in E45. subst c. destruct r as [|c' r'].
        -- cbn. split; discriminate.
        -- cbn [is_nil andb]. apply digits_loop_spec_digits. discriminate.
      * cbn [andb]. apply digits_loop_spec_digits. discriminate.
Qed.

Lemma spec_number_strict_lenient l v : spec_number false l = Some v -> spec_number true l = Some v.
Proof.
  rewrite !spec_number_unfold. destruct l as [|c r]; [auto|].
  cbn [andb]. destruct (c =? 43) eqn:E; [|auto].
  apply N.eqb_eq in E. subst c. unfold spec_digits at 1. cbn. discriminate.
Qed.

(* a text whose first octet is neither '+' nor a digit is no number *)
Lemma spec_number_bad_head lenient b r : b <> 43 -> is_dec_digit b = false -> spec_number lenient (b :: r) = None.
Proof.
  intros H43 Hd. rewrite spec_number_unfold.
  apply N.eqb_neq in H43. rewrite H43, andb_false_r.
  unfold spec_digits. cbn [is_nil forallb]. rewrite Hd. reflexivity.
Qed.

(* ---- Display ------------------------------------------------------------------ *)

Lemma to_dec_aux_app f : forall n acc, to_dec_aux f n acc = to_dec_aux f n [] ++ acc.
Proof.
  induction f as [|f IH]; intros n acc; cbn [to_dec_aux]; [reflexivity|].
  destruct (n / 10 =? 0); [reflexivity|].
  rewrite (IH _ (_ :: acc)), (IH _ [_]), <- app_assoc. reflexivity.
Qed.

Lemma divmod10 n : exists q m, n / 10 = q /\ n mod 10 = m /\ n = 10 * q + m /\ m < 10.
Proof.
  exists (n / 10), (n mod 10). split; [reflexivity|]. split; [reflexivity|]. split.
  - apply N.div_mod'.
  - apply N.mod_lt. discriminate.
Qed.

Lemma to_dec_aux_digits f : forall n, n < 10 ^ N.of_nat f ->
  hfold 0 (to_dec_aux f n []) = n /\ forallb is_dec_digit (to_dec_aux f n []) = true.
Proof.
  induction f as [|f IH]; intros n Hn.
  - cbn in *. split; [lia|reflexivity].
  - cbn [to_dec_aux].
    rewrite Nat2N.inj_succ, N.pow_succ_r' in Hn.
    set (P := 10 ^ N.of_nat f) in *. clearbody P.
    destruct (divmod10 n) as (q & m & Eq & Em & Hnm & Hm). rewrite Eq, Em. clear Eq Em.
    assert (Hd : is_dec_digit (48 + m) = true) by (apply is_dec_digit_spec; lia).
    destruct (q =? 0) eqn:E.
    + apply N.eqb_eq in E. split.
      * unfold hfold. cbn [fold_left]. lia.
      * cbn [forallb]. rewrite Hd. reflexivity.
    + rewrite to_dec_aux_app.
      assert (Hq : q < P) by lia.
      destruct (IH _ Hq) as [Hv Hall]. split.
      * rewrite hfold_app, Hv. unfold hfold. cbn [fold_left]. lia.
      * rewrite forallb_app, Hall. cbn [forallb]. rewrite Hd. reflexivity.
Qed.

Lemma to_dec_aux_nonempty f n : to_dec_aux (S f) n [] <> [].
Proof.
  cbn [to_dec_aux]. destruct (n / 10 =? 0); [discriminate|].
  rewrite to_dec_aux_app. intros H. apply app_eq_nil in H. destruct H; discriminate.
Qed.

Lemma u16_display_digits v : v < 65536 ->
  u16_display v <> [] /\ forallb is_dec_digit (u16_display v) = true /\ horner (u16_display v) = v.
Proof.
  intros Hv. unfold u16_display. split; [apply to_dec_aux_nonempty|].
  destruct (to_dec_aux_digits 5 v) as [H1 H2].
  { change (10 ^ N.of_nat 5) with 100000. lia. }
  split; [exact H2|exact H1].
Qed.

(* the rendered number reads back as itself under the strict (digits only) reading *)
Lemma spec_number_display lenient v : v < 65536 -> spec_number lenient (u16_display v) = Some v.
Proof.
  intros Hv. destruct (u16_display_digits v Hv) as (Hne & Hall & Hval).
  rewrite spec_number_unfold. destruct (u16_display v) as [|c r] eqn:E; [congruence|].
  assert (Hc : (c =? 43) = false).
  { cbn [forallb] in Hall. apply andb_true_iff in Hall. destruct Hall as [Hc _].
    apply is_dec_digit_spec in Hc. apply N.eqb_neq. lia. }
  rewrite Hc, andb_false_r. unfold spec_digits. cbn [is_nil]. rewrite Hall, Hval.
  assert (Hle : (v <=? 65535) = true) by (apply N.leb_le; lia).
  rewrite Hle. reflexivity.
Qed.

(* parse (display v) = v for Rust's u16 codec, every v *)
Lemma u16_codec v : v < 65536 -> u16_from_str (u16_display v) = Ok v.
Proof. intros Hv. apply u16_from_str_spec. apply spec_number_display. exact Hv. Qed.

(* leading zeros do not change the value *)
Lemma hfold_zeros k : forall l, hfold 0 (repeat 48 k ++ l) = hfold 0 l.
Proof.
  induction k as [|k IH]; intros l; [reflexivity|].
  cbn [repeat app]. rewrite hfold_cons. change (0 * 10 + (48 - 48)) with 0. apply IH.
Qed.

Lemma spec_number_zeros lenient k v : v < 65536 ->
  spec_number lenient (repeat 48 k ++ u16_display v) = Some v.
Proof.
  intros Hv. destruct k as [|k]; [apply spec_number_display; exact Hv|].
  destruct (u16_display_digits v Hv) as (Hne & Hall & Hval).
  rewrite spec_number_unfold. cbn [repeat app].
  change (48 =? 43) with false. rewrite andb_false_r.
  unfold spec_digits. cbn [is_nil].
  assert (Hall' : forallb is_dec_digit (48 :: repeat 48 k ++ u16_display v) = true).
  { cbn [forallb]. change (is_dec_digit 48) with true. cbn [andb].
    rewrite forallb_app, Hall, andb_true_r.
    clear. induction k; [reflexivity|]. cbn [repeat forallb]. rewrite IHk. reflexivity. }
  rewrite Hall'.
  assert (Hh : horner (48 :: repeat 48 k ++ u16_display v) = v).
  { change (horner (48 :: repeat 48 k ++ u16_display v)) with (hfold 0 (repeat 48 (S k) ++ u16_display v)).
    rewrite hfold_zeros. exact Hval. }
  rewrite Hh.
  assert (Hle : (v <=? 65535) = true) by (apply N.leb_le; lia).
  rewrite Hle. reflexivity.
Qed.
