(* The executable twins of Spec/RdataFormatS.v are the relations:
   smatch = matches, s_cmatch = cmatches, spec_read = read_spec. *)
From QV Require Import Base.ListX Spec.NameWireS Proofs.NameWireP Proofs.NameWireSP
  Model.RdataM Spec.RdataFormatS Proofs.RdNameP.
Local Open Scope nat_scope.

Lemma wf_app (a b : bytes) : wf_bytes (a ++ b) <-> wf_bytes a /\ wf_bytes b.
Proof. unfold wf_bytes. apply Forall_app. Qed.

Lemma wf_skipn n (r : bytes) : wf_bytes r -> wf_bytes (skipn n r).
Proof. unfold wf_bytes. rewrite !Forall_forall. intros H x Hx. apply H. eapply In_skipn; eauto. Qed.

Lemma wf_firstn n (r : bytes) : wf_bytes r -> wf_bytes (firstn n r).
Proof. unfold wf_bytes. rewrite !Forall_forall. intros H x Hx. apply H. eapply In_firstn; eauto. Qed.

Lemma wf_cons x (r : bytes) : wf_bytes (x :: r) <-> is_octet x /\ wf_bytes r.
Proof. unfold wf_bytes. split; [intros H; inversion H; auto|intros [? ?]; constructor; auto]. Qed.

(* ---- names ---- *)

Lemma sname_gen r l :
  sname r = Some l <-> exists ls, valid_name ls /\ l = wire_len ls /\ r = wire_of ls ++ skipn l r.
Proof.
  rewrite sname_Some. split; intros [ls H]; exists ls; apply decodes_unc_gen; exact H.
Qed.

Lemma sname_of_wire ls rest : valid_name ls -> sname (wire_of ls ++ rest) = Some (wire_len ls).
Proof.
  intros Hv. apply sname_gen. exists ls. split; [exact Hv|]. split; [reflexivity|].
  rewrite skipn_app_exact by reflexivity. reflexivity.
Qed.

(* ---- 16-bit lengths ---- *)

Lemma be16_dec l1 l2 : (l1 < 256)%N -> (l2 < 256)%N -> be16 (l1 * 256 + l2) = [l1; l2].
Proof.
  intros H1 H2. unfold be16. f_equal; [|f_equal].
  - rewrite N.div_add_l by lia. rewrite N.div_small by lia. lia.
  - rewrite N.add_comm, N.mod_add by lia. apply N.mod_small. lia.
Qed.

Lemma be16_parts L : (L < 65536)%N ->
  (L / 256 < 256)%N /\ (L mod 256 < 256)%N /\ (L / 256 * 256 + L mod 256 = L)%N.
Proof.
  intros H. split; [apply N.div_lt_upper_bound; lia|]. split; [apply N.mod_lt; lia|].
  rewrite (N.div_mod' L 256) at 3. lia.
Qed.

(* ---- repeated fields ---- *)

Lemma s_charstrs_iff : forall fuel r, length r < fuel -> wf_bytes r ->
  (s_charstrs fuel r = true <-> exists ss, Forall valid_charstr ss /\ r = flat_map charstr ss).
Proof.
  induction fuel as [|f IH]; intros r Hf Hwf; [lia|]. cbn [s_charstrs].
  destruct r as [|len tl].
  - split; [intros _; exists []; split; [constructor|reflexivity]|reflexivity].
  - apply wf_cons in Hwf. destruct Hwf as [Hlen Htl]. unfold is_octet in Hlen.
    destruct (N.to_nat len <=? length tl) eqn:E.
    + apply Nat.leb_le in E. simpl in Hf.
      rewrite IH by (try apply wf_skipn; auto; rewrite skipn_length; lia).
      split.
      * intros (ss & Hv & Hr). exists (firstn (N.to_nat len) tl :: ss). split.
        -- constructor; auto. unfold valid_charstr. rewrite firstn_length_le by lia. lia.
        -- cbn [flat_map]. unfold charstr at 1. rewrite firstn_length_le by lia.
           rewrite N2Nat.id. simpl. f_equal. rewrite <- Hr. symmetry. apply firstn_skipn.
      * intros (ss & Hv & Hr). destruct ss as [|s ss]; [discriminate|].
        cbn [flat_map] in Hr. unfold charstr at 1 in Hr. simpl in Hr. inversion Hr; subst.
        inversion Hv; subst. exists ss. split; auto.
        rewrite Nat2N.id. rewrite skipn_app_exact by reflexivity. reflexivity.
    + apply Nat.leb_gt in E. split; [discriminate|].
      intros (ss & Hv & Hr). destruct ss as [|s ss]; [discriminate|].
      cbn [flat_map] in Hr. unfold charstr at 1 in Hr. simpl in Hr. inversion Hr; subst.
      rewrite Nat2N.id, app_length in E. lia.
Qed.

Lemma s_options_iff : forall fuel r, length r < fuel -> wf_bytes r ->
  (s_options fuel r = true <-> exists os, Forall valid_option os /\ r = flat_map option_enc os).
Proof.
  induction fuel as [|f IH]; intros r Hf Hwf; [lia|]. cbn [s_options].
  destruct r as [|c1 r].
  { split; [intros _; exists []; split; [constructor|reflexivity]|reflexivity]. }
  assert (Hshort : forall os, Forall valid_option os -> length (flat_map option_enc os) <> 1 /\
            length (flat_map option_enc os) <> 2 /\ length (flat_map option_enc os) <> 3).
  { intros os Hv. destruct os as [|[code data] os]; [simpl; lia|].
    inversion Hv as [|? ? [Hc _] _]; subst. cbn [flat_map]. rewrite app_length.
    assert (4 <= length (option_enc (code, data))).
    { unfold option_enc, blob16, be16. cbn [fst snd] in *. rewrite !app_length. simpl length. lia. }
    lia. }
  destruct r as [|c2 r].
  { split; [discriminate|]. intros (os & Hv & Hr). apply (f_equal (@length N)) in Hr.
    destruct (Hshort os Hv) as (H1 & _). simpl in Hr. lia. }
  destruct r as [|l1 r].
  { split; [discriminate|]. intros (os & Hv & Hr). apply (f_equal (@length N)) in Hr.
    destruct (Hshort os Hv) as (_ & H2 & _). simpl in Hr. lia. }
  destruct r as [|l2 tl].
  { split; [discriminate|]. intros (os & Hv & Hr). apply (f_equal (@length N)) in Hr.
    destruct (Hshort os Hv) as (_ & _ & H3). simpl in Hr. lia. }
  apply wf_cons in Hwf. destruct Hwf as [Hc1 Hwf]. apply wf_cons in Hwf. destruct Hwf as [Hc2 Hwf].
  apply wf_cons in Hwf. destruct Hwf as [Hl1 Hwf]. apply wf_cons in Hwf. destruct Hwf as [Hl2 Htl].
  unfold is_octet in *. simpl in Hf.
  destruct (N.to_nat (l1 * 256 + l2) <=? length tl) eqn:E.
  - apply Nat.leb_le in E.
    rewrite IH by (try apply wf_skipn; auto; rewrite skipn_length; lia).
    split.
    + intros (os & Hv & Hr). exists (([c1; c2], firstn (N.to_nat (l1 * 256 + l2)) tl) :: os). split.
      * constructor; auto. split; [reflexivity|]. unfold valid_blob16. cbn [snd].
        rewrite firstn_length_le by lia. lia.
      * cbn [flat_map]. unfold option_enc at 1, blob16. cbn [fst snd].
        rewrite firstn_length_le by lia. rewrite N2Nat.id, be16_dec by lia.
        simpl. do 4 f_equal. rewrite <- Hr. symmetry. apply firstn_skipn.
    + intros (os & Hv & Hr). destruct os as [|[code data] os]; [discriminate|].
      inversion Hv as [|? ? [Hc Hd] Hv']; subst. cbn [fst snd] in *.
      cbn [flat_map] in Hr. unfold option_enc at 1, blob16 in Hr. cbn [fst snd] in Hr.
      destruct code as [|x1 [|x2 [|? ?]]]; try discriminate.
      unfold valid_blob16 in Hd. destruct (be16_parts _ Hd) as (P1 & P2 & P3).
      unfold be16 in Hr. simpl in Hr. inversion Hr; subst.
      exists os. split; auto.
      rewrite P3, Nat2N.id. rewrite skipn_app_exact by reflexivity. reflexivity.
  - apply Nat.leb_gt in E. split; [discriminate|].
    intros (os & Hv & Hr). destruct os as [|[code data] os]; [discriminate|].
    inversion Hv as [|? ? [Hc Hd] Hv']; subst. cbn [fst snd] in *.
    cbn [flat_map] in Hr. unfold option_enc at 1, blob16 in Hr. cbn [fst snd] in Hr.
    destruct code as [|x1 [|x2 [|? ?]]]; try discriminate.
    unfold valid_blob16 in Hd. destruct (be16_parts _ Hd) as (P1 & P2 & P3).
    unfold be16 in Hr. simpl in Hr. inversion Hr; subst.
    rewrite P3, Nat2N.id, app_length in E. lia.
Qed.

(* ---- smatch = matches ---- *)

Theorem smatch_iff : forall g r, wf_bytes r -> (smatch g r = true <-> matches g r).
Proof.
  induction g as [|f g IH]; intros r Hwf.
  - simpl. destruct r; split; intros H; try discriminate; try constructor; inversion H; auto.
  - destruct f; cbn [smatch].
    + (* FName *)
      destruct (sname r) as [l|] eqn:S.
      * destruct (proj1 (sname_gen r l) S) as (ls & Hv & -> & Hr).
        rewrite IH by (apply wf_skipn; exact Hwf). split.
        -- intros M. rewrite Hr. constructor; auto.
        -- intros M. inversion M as [|ls' g' rest Hv' M' E1| | | | | |]; subst.
           rewrite (sname_of_wire ls' rest Hv') in S. inversion S as [S'].
           rewrite skipn_app_exact by reflexivity. exact M'.
      * split; [discriminate|]. intros M. inversion M as [|ls' g' rest Hv' M' E1| | | | | |]; subst.
        rewrite (sname_of_wire ls' rest Hv') in S. discriminate.
    + (* FBytes *)
      destruct (n <=? length r) eqn:E; cbn [andb].
      * apply Nat.leb_le in E. rewrite IH by (apply wf_skipn; exact Hwf). split.
        -- intros M. rewrite <- (firstn_skipn n r). constructor; auto. apply firstn_length_le. exact E.
        -- intros M. inversion M as [| |n' b g' rest Hb M' E1| | | | |]; subst.
           rewrite skipn_app_exact by reflexivity. exact M'.
      * apply Nat.leb_gt in E. split; [discriminate|]. intros M.
        inversion M as [| |n' b g' rest Hb M' E1| | | | |]; subst. rewrite app_length in E. lia.
    + (* FCharStr *)
      destruct r as [|len tl].
      * split; [discriminate|]. intros M. inversion M.
      * apply wf_cons in Hwf. destruct Hwf as [Hlen Htl]. unfold is_octet in Hlen.
        destruct (N.to_nat len <=? length tl) eqn:E; cbn [andb].
        -- apply Nat.leb_le in E. rewrite IH by (apply wf_skipn; exact Htl). split.
           ++ intros M.
              replace (len :: tl) with (charstr (firstn (N.to_nat len) tl) ++ skipn (N.to_nat len) tl).
              ** constructor; auto. unfold valid_charstr. rewrite firstn_length_le by lia. lia.
              ** unfold charstr. rewrite firstn_length_le by lia. rewrite N2Nat.id. simpl. f_equal.
                 apply firstn_skipn.
           ++ intros M. inversion M as [| | |s g' rest Hs M' E1| | | |]; subst.
              rewrite Nat2N.id, skipn_app_exact by reflexivity. exact M'.
        -- apply Nat.leb_gt in E. split; [discriminate|]. intros M.
           inversion M as [| | |s g' rest Hs M' E1| | | |]; subst.
           rewrite Nat2N.id, app_length in E. lia.
    + (* FBlob16 *)
      destruct r as [|l1 [|l2 tl]].
      * split; [discriminate|]. intros M. inversion M.
      * split; [discriminate|]. intros M. inversion M.
      * apply wf_cons in Hwf. destruct Hwf as [Hl1 Hwf]. apply wf_cons in Hwf. destruct Hwf as [Hl2 Htl].
        unfold is_octet in *.
        destruct (N.to_nat (l1 * 256 + l2) <=? length tl) eqn:E; cbn [andb].
        -- apply Nat.leb_le in E. rewrite IH by (apply wf_skipn; exact Htl). split.
           ++ intros M.
              replace (l1 :: l2 :: tl) with
                (blob16 (firstn (N.to_nat (l1 * 256 + l2)) tl) ++ skipn (N.to_nat (l1 * 256 + l2)) tl).
              ** constructor; auto. unfold valid_blob16. rewrite firstn_length_le by lia. lia.
              ** unfold blob16. rewrite firstn_length_le by lia. rewrite N2Nat.id, be16_dec by lia.
                 simpl. do 2 f_equal. apply firstn_skipn.
           ++ intros M. inversion M as [| | | |b g' rest Hb M' E1| | |]; subst.
              unfold valid_blob16 in Hb. destruct (be16_parts _ Hb) as (P1 & P2 & P3).
              rewrite P3, Nat2N.id, skipn_app_exact by reflexivity. exact M'.
        -- apply Nat.leb_gt in E. split; [discriminate|]. intros M.
           inversion M as [| | | |b g' rest Hb M' E1| | |]; subst.
           unfold valid_blob16 in Hb. destruct (be16_parts _ Hb) as (P1 & P2 & P3).
           rewrite P3, Nat2N.id, app_length in E. lia.
    + (* FRest *)
      destruct g; split; intros M; try discriminate; try constructor; inversion M.
    + (* FCharStrs1 *)
      destruct g.
      * destruct r as [|x r'].
        -- split; [discriminate|]. intros M. inversion M as [| | | | | |ss Hne Hv E1|]; subst.
           destruct ss as [|s ss]; [congruence|]. discriminate.
        -- rewrite s_charstrs_iff by (auto; lia). split.
           ++ intros (ss & Hv & Hr). rewrite Hr. constructor; auto. intros ->. discriminate.
           ++ intros M. inversion M as [| | | | | |ss Hne Hv E1|]; subst. eauto.
      * split; [discriminate|]. intros M. inversion M.
    + (* FOptions *)
      destruct g.
      * rewrite s_options_iff by (auto; lia). split.
        -- intros (os & Hv & Hr). rewrite Hr. constructor; auto.
        -- intros M. inversion M as [| | | | | | |os Hv E1]; subst. eauto.
      * split; [discriminate|]. intros M. inversion M.
Qed.

Theorem spec_valid_iff c t r : wf_bytes r -> (spec_valid c t r = true <-> matches (grammar c t) r).
Proof. apply smatch_iff. Qed.

(* ---- s_cmatch = cmatches ---- *)

Theorem s_cmatch_iff msg e : forall g pos out,
  s_cmatch msg e pos g = Some out <-> cmatches msg e pos g out.
Proof.
  induction g as [|f g IH]; intros pos out.
  - simpl. destruct (pos =? e) eqn:E.
    + apply Nat.eqb_eq in E; subst. split; intros H; [inversion H; constructor|inversion H; reflexivity].
    + apply Nat.eqb_neq in E. split; [discriminate|]. intros H; inversion H; congruence.
  - destruct f; cbn [s_cmatch]; try (split; [discriminate|intros H; inversion H]).
    + destruct (spec_decode_name (firstn e msg) pos) as [[ls l]|] eqn:S.
      * destruct (s_cmatch msg e (pos + l) g) as [o|] eqn:R.
        -- split.
           ++ intros H; inversion H; subst. econstructor; [apply spec_decode_name_iff; exact S|].
              apply IH. exact R.
           ++ intros H. inversion H as [|pos' ls' l' g' out' D C|]; subst.
              apply spec_decode_name_iff in D. rewrite S in D. inversion D; subst.
              apply IH in C. rewrite R in C. inversion C; reflexivity.
        -- split; [discriminate|]. intros H. inversion H as [|pos' ls' l' g' out' D C|]; subst.
           apply spec_decode_name_iff in D. rewrite S in D. inversion D; subst.
           apply IH in C. rewrite R in C. discriminate.
      * split; [discriminate|]. intros H. inversion H as [|pos' ls' l' g' out' D C|]; subst.
        apply spec_decode_name_iff in D. rewrite S in D. discriminate.
    + destruct (pos + n <=? e) eqn:E.
      * apply Nat.leb_le in E. destruct (s_cmatch msg e (pos + n) g) as [o|] eqn:R.
        -- split.
           ++ intros H; inversion H; subst. constructor; auto. apply IH. exact R.
           ++ intros H. inversion H as [| |pos' n' g' out' Hle C]; subst.
              apply IH in C. rewrite R in C. inversion C; reflexivity.
        -- split; [discriminate|]. intros H. inversion H as [| |pos' n' g' out' Hle C]; subst.
           apply IH in C. rewrite R in C. discriminate.
      * apply Nat.leb_gt in E. split; [discriminate|]. intros H.
        inversion H as [| |pos' n' g' out' Hle C]; subst. lia.
Qed.

Theorem spec_read_iff c t msg cur rdlen r : wf_bytes msg ->
  (spec_read c t msg cur rdlen = Some r <-> read_spec c t msg cur rdlen r).
Proof.
  intros Hwf. unfold spec_read, read_spec. cbv zeta.
  destruct (cur + N.to_nat rdlen <=? length msg) eqn:E.
  - apply Nat.leb_le in E. destruct (decompressed c t).
    + rewrite s_cmatch_iff. split; [intros H; split; auto|intros [_ H]; exact H].
    + destruct (smatch (grammar c t) (slice msg cur (cur + N.to_nat rdlen))) eqn:S.
      * apply smatch_iff in S; [|apply Forall_slice; exact Hwf]. split.
        -- intros H; inversion H; subst. auto.
        -- intros (_ & -> & _). reflexivity.
      * split; [discriminate|]. intros (_ & -> & M).
        apply smatch_iff in M; [|apply Forall_slice; exact Hwf]. congruence.
  - apply Nat.leb_gt in E. split; [discriminate|]. intros [H _]. lia.
Qed.

(* what a successful compressed match produces is a valid, pointer-free encoding *)
Lemma cmatches_matches msg e : e <= length msg ->
  forall pos g out, cmatches msg e pos g out -> matches g out.
Proof.
  intros He. induction 1 as [|pos ls l g out D C IH|pos n g out Hle C IH].
  - constructor.
  - constructor; auto. eapply decodes_name_valid; eauto.
  - constructor; auto. rewrite slice_length by lia. lia.
Qed.
