(* C04 clause (iii), restricted to answers that end Ok: if query answering over the Writer model
   succeeds with EVERY Writer operation succeeding (run on the strict interface) and the finished body
   fits an available space a, then the same answering on the state with limit l and available a (the
   UDP writer) performs the same operations with the same results and ends in the same state up to
   (l, a); and finish then produces the same octets.  Combines Proofs/WriterMonoP.v (the Writer) with
   Proofs/QuerySimP.v (the answering logic). *)
From QV Require Import Base.ListX Gen.Consts Model.MsgWriter Model.ZoneTree Model.Query Model.QueryW
  Proofs.MsgWriterP Proofs.MsgWriterNameP Proofs.MsgWriterInvP Proofs.WriterMonoP Proofs.QuerySimP.
Local Open Scope nat_scope.

(* the octet-level interface with every failure of an add turned into a panic *)
Definition w_strict : wiface writer :=
  mkWi writer
    (fun s h o ty c ttl rd w => match wi_add_rr w_iface s h o ty c ttl rd w with Err _ => Panic | x => x end)
    (fun s h o ty c ttl rds b w => match wi_add_rrset w_iface s h o ty c ttl rds b w with Err _ => Panic | x => x end)
    (wi_set_aa w_iface) (wi_set_rcode w_iface) (wi_set_tc w_iface) (wi_clear_rrs w_iface).

Lemma strict_rr_ok s h o ty c ttl rd w w' : wi_add_rr w_strict s h o ty c ttl rd w = Ok w' ->
  exists v, add_section_rr (sec_of s) (hint_of h) o ty c (ttl_from ttl) rd None w = Ok (v, w').
Proof.
  cbn [wi_add_rr w_strict w_iface].
  destruct (add_section_rr (sec_of s) (hint_of h) o ty c (ttl_from ttl) rd None w) as [[v w1]|[e w1]|]; try discriminate.
  intros H; inversion H; subst. eauto.
Qed.
Lemma strict_rrset_ok s h o ty c ttl rds b w v w' : wi_add_rrset w_strict s h o ty c ttl rds b w = Ok (v, w') ->
  exists v0, add_section_rrset (sec_of s) (hint_of h) o ty c (ttl_from ttl) rds (if b then Some [] else None) w = Ok (v0, w') /\
             v = match v0 with Some l => l | None => [] end.
Proof.
  cbn [wi_add_rrset w_strict w_iface].
  destruct (add_section_rrset (sec_of s) (hint_of h) o ty c (ttl_from ttl) rds (if b then Some [] else None) w) as [[v0 w1]|[e w1]|]; try discriminate.
  intros H; inversion H; subst. eauto.
Qed.

Lemma w_modify_lower l a w i f : w_modify (lower l a w) i f =
  match w_modify w i f with Ok w' => Ok (lower l a w') | Err e => Err e | Panic => Panic end.
Proof.
  unfold w_modify, w_write. change (w_buf (lower l a w)) with (w_buf w).
  destruct (nth_error (w_buf w) (N.to_nat i)); [|reflexivity]. destruct (buf_write _ _ _); reflexivity.
Qed.
Lemma w_modify_cursor w i f w' : w_modify w i f = Ok w' -> w_cursor w' = w_cursor w.
Proof.
  unfold w_modify, w_write. destruct (nth_error _ _); [|discriminate]. destruct (buf_write _ _ _); [|discriminate].
  intros H; inversion H; reflexivity.
Qed.

Section Lowered.
Variables l a : nat.
Let R (w1 w2 : writer) : Prop := w2 = lower l a w1.
Let G (w1 : writer) : Prop := w_cursor w1 <= a.

Lemma low_rr s h o ty c ttl rd : simR R G (wi_add_rr w_strict s h o ty c ttl rd) (wi_add_rr w_iface s h o ty c ttl rd).
Proof.
  intros w1 w1' H HG. apply strict_rr_ok in H as (v & H).
  destruct (mono_section_rr l a _ _ _ _ _ _ _ _ _ _ _ H) as [A1 A2]. unfold G in *. split; [lia|].
  intros w2 ->. exists (lower l a w1'). split; [|reflexivity]. cbn [wi_add_rr w_iface]. rewrite A2 by exact HG. reflexivity.
Qed.
Lemma low_rrset s h o ty c ttl rds b w1 v w1' :
  wi_add_rrset w_strict s h o ty c ttl rds b w1 = Ok (v, w1') -> G w1' ->
  G w1 /\ forall w2, R w1 w2 -> exists w2', wi_add_rrset w_iface s h o ty c ttl rds b w2 = Ok (v, w2') /\ R w1' w2'.
Proof.
  intros H HG. apply strict_rrset_ok in H as (v0 & H & ->).
  destruct (mono_section_rrset l a _ _ _ _ _ _ _ _ _ _ _ H) as [A1 A2]. unfold G in *. split; [lia|].
  intros w2 ->. exists (lower l a w1'). split; [|reflexivity]. cbn [wi_add_rrset w_iface]. rewrite A2 by exact HG. reflexivity.
Qed.
Lemma low_aa b w1 w1' : wi_set_aa w_strict b w1 = Some w1' -> G w1' ->
  G w1 /\ forall w2, R w1 w2 -> exists w2', wi_set_aa w_iface b w2 = Some w2' /\ R w1' w2'.
Proof.
  cbn [wi_set_aa w_strict w_iface]. unfold set_aa, w_set_flag.
  destruct (w_modify w1 AA_BYTE (set_bit AA_MASK b)) as [w1a|e|] eqn:E; try discriminate.
  intros H HG; inversion H; subst. unfold G in *. rewrite (w_modify_cursor _ _ _ _ E) in HG. split; [exact HG|].
  intros w2 ->. rewrite w_modify_lower, E. exists (lower l a w1'). split; reflexivity.
Qed.
Lemma low_rc c w1 w1' : wi_set_rcode w_strict c w1 = Some w1' -> G w1' ->
  G w1 /\ forall w2, R w1 w2 -> exists w2', wi_set_rcode w_iface c w2 = Some w2' /\ R w1' w2'.
Proof.
  cbn [wi_set_rcode w_strict w_iface]. unfold set_rcode.
  destruct (w_modify w1 RCODE_BYTE _) as [w1a|e|] eqn:E; cbn [bind]; try discriminate.
  intros H HG; inversion H; subst. unfold G in *.
  assert (C : w_cursor (clear_upper w1a) = w_cursor w1a) by (unfold clear_upper; destruct (w_edns w1a); reflexivity).
  rewrite C, (w_modify_cursor _ _ _ _ E) in HG. split; [exact HG|].
  intros w2 ->. rewrite w_modify_lower, E. cbn [bind]. exists (lower l a (clear_upper w1a)). split; [|reflexivity].
  unfold clear_upper. change (w_edns (lower l a w1a)) with (w_edns w1a). destruct (w_edns w1a); reflexivity.
Qed.
Lemma strict_rr_noerr s h o ty c ttl rd w e : wi_add_rr w_strict s h o ty c ttl rd w <> Err e.
Proof. cbn [wi_add_rr w_strict]. destruct (wi_add_rr w_iface s h o ty c ttl rd w); discriminate. Qed.
Lemma strict_rrset_noerr s h o ty c ttl rds b w e : wi_add_rrset w_strict s h o ty c ttl rds b w <> Err e.
Proof. cbn [wi_add_rrset w_strict]. destruct (wi_add_rrset w_iface s h o ty c ttl rds b w); discriminate. Qed.

Theorem lowered_answer negttl z qname ty w u w' :
  answer w_strict negttl z qname ty w = Ok (u, w') -> w_cursor w' <= a ->
  answer w_iface negttl z qname ty (lower l a w) = Ok (u, lower l a w').
Proof.
  intros H HG.
  destruct (sim_answer w_strict w_iface negttl z R G low_rr low_rrset low_aa low_rc strict_rrset_noerr
              qname ty w u w' H HG) as [_ S].
  destruct (S (lower l a w) eq_refl) as (w2' & E & ->). exact E.
Qed.
Theorem lowered_answer_any negttl z qname w u w' :
  answer_any w_strict negttl z qname w = Ok (u, w') -> w_cursor w' <= a ->
  answer_any w_iface negttl z qname (lower l a w) = Ok (u, lower l a w').
Proof.
  intros H HG.
  destruct (sim_answer_any w_strict w_iface negttl z R G low_rr low_rrset low_aa low_rc strict_rrset_noerr
              qname w u w' H HG) as [_ S].
  destruct (S (lower l a w) eq_refl) as (w2' & E & ->). exact E.
Qed.
End Lowered.

(* a run on the strict interface that ends Ok is a run on the ordinary interface *)
Section Same.
Let R (w1 w2 : writer) : Prop := w2 = w1.
Let G (w1 : writer) : Prop := True.

Lemma same_rr s h o ty c ttl rd : simR R G (wi_add_rr w_strict s h o ty c ttl rd) (wi_add_rr w_iface s h o ty c ttl rd).
Proof.
  intros w1 w1' H _. split; [exact I|]. intros w2 ->. exists w1'. split; [|reflexivity].
  cbn [wi_add_rr w_strict] in H. destruct (wi_add_rr w_iface s h o ty c ttl rd w1); try discriminate. exact H.
Qed.
Lemma same_rrset s h o ty c ttl rds b w1 v w1' :
  wi_add_rrset w_strict s h o ty c ttl rds b w1 = Ok (v, w1') -> G w1' ->
  G w1 /\ forall w2, R w1 w2 -> exists w2', wi_add_rrset w_iface s h o ty c ttl rds b w2 = Ok (v, w2') /\ R w1' w2'.
Proof.
  intros H _. split; [exact I|]. intros w2 ->. exists w1'. split; [|reflexivity].
  cbn [wi_add_rrset w_strict] in H. destruct (wi_add_rrset w_iface s h o ty c ttl rds b w1); try discriminate. exact H.
Qed.
Lemma same_aa b w1 w1' : wi_set_aa w_strict b w1 = Some w1' -> G w1' ->
  G w1 /\ forall w2, R w1 w2 -> exists w2', wi_set_aa w_iface b w2 = Some w2' /\ R w1' w2'.
Proof. intros H _. split; [exact I|]. intros w2 ->. exists w1'. split; [exact H|reflexivity]. Qed.
Lemma same_rc c w1 w1' : wi_set_rcode w_strict c w1 = Some w1' -> G w1' ->
  G w1 /\ forall w2, R w1 w2 -> exists w2', wi_set_rcode w_iface c w2 = Some w2' /\ R w1' w2'.
Proof. intros H _. split; [exact I|]. intros w2 ->. exists w1'. split; [exact H|reflexivity]. Qed.

Theorem strict_answer negttl z qname ty w u w' :
  answer w_strict negttl z qname ty w = Ok (u, w') -> answer w_iface negttl z qname ty w = Ok (u, w').
Proof.
  intros H.
  destruct (sim_answer w_strict w_iface negttl z R G same_rr same_rrset same_aa same_rc strict_rrset_noerr
              qname ty w u w' H I) as [_ S].
  destruct (S w eq_refl) as (w2' & E & ->). exact E.
Qed.
Theorem strict_answer_any negttl z qname w u w' :
  answer_any w_strict negttl z qname w = Ok (u, w') -> answer_any w_iface negttl z qname w = Ok (u, w').
Proof.
  intros H.
  destruct (sim_answer_any w_strict w_iface negttl z R G same_rr same_rrset same_aa same_rc strict_rrset_noerr
              qname w u w' H I) as [_ S].
  destruct (S w eq_refl) as (w2' & E & ->). exact E.
Qed.
End Same.

(* finish: the same octets under the lowered limit, when the finished message fits *)
Lemma w_write_lower l a w pos d : w_write (lower l a w) pos d =
  match w_write w pos d with Ok w' => Ok (lower l a w') | Err e => Err e | Panic => Panic end.
Proof. unfold w_write. change (w_buf (lower l a w)) with (w_buf w). destruct (buf_write _ _ _); reflexivity. Qed.

Theorem finish_lower l a w len b : finish w = Ok (len, b) -> w_tsig w = None -> w_cursor w <= w_avail w ->
  len <= a + (if w_edns w then opt_record_size else 0) ->
  finish (lower l a w) = Ok (len, b).
Proof.
  unfold finish, finish_gen. intros H Ht Hcav Hlen.
  change (w_qd (lower l a w)) with (w_qd w).
  rewrite w_write_lower.
  destruct (w_write w (N.to_nat QDCOUNT_START) (be16 (w_qd w))) as [w1|e|] eqn:E1; cbn [bind] in *; try discriminate.
  change (w_an (lower l a w1)) with (w_an w1). rewrite w_write_lower.
  destruct (w_write w1 (N.to_nat ANCOUNT_START) (be16 (w_an w1))) as [w2|e|] eqn:E2; cbn [bind] in *; try discriminate.
  change (w_ns (lower l a w2)) with (w_ns w2). rewrite w_write_lower.
  destruct (w_write w2 (N.to_nat NSCOUNT_START) (be16 (w_ns w2))) as [w3|e|] eqn:E3; cbn [bind] in *; try discriminate.
  change (w_ar (lower l a w3)) with (w_ar w3). rewrite w_write_lower.
  destruct (w_write w3 (N.to_nat ARCOUNT_START) (be16 (w_ar w3))) as [w4|e|] eqn:E4; cbn [bind] in *; try discriminate.
  assert (K : w_edns w4 = w_edns w /\ w_tsig w4 = w_tsig w /\ w_cursor w4 = w_cursor w /\ w_avail w4 = w_avail w).
  { apply w_write_inv in E1 as (b1 & _ & ->). apply w_write_inv in E2 as (b2 & _ & ->).
    apply w_write_inv in E3 as (b3 & _ & ->). apply w_write_inv in E4 as (b4 & _ & ->).
    repeat split. }
  destruct K as (Ke & Kt & Kc & Ka). change (w_edns (lower l a w4)) with (w_edns w4). rewrite Ke in *.
  destruct (w_edns w) as [ed|].
  - change (set_avail (lower l a w4) (w_avail (lower l a w4) + opt_record_size))
      with (lower l (a + opt_record_size) (set_avail w4 (w_avail w4 + opt_record_size))).
    destruct (add_rr HNone [] TYPE_OPT (e_udp ed) (e_upper ed * 16777216)%N [] None
                (set_avail w4 (w_avail w4 + opt_record_size))) as [[v w5]|[e w5]|] eqn:E5; cbn [unwrap_w bind] in H; try discriminate.
    destruct (mono_add_rr l (a + opt_record_size) _ _ _ _ _ _ _ _ _ _ E5) as [_ L5].
    assert (T5 : w_tsig w5 = None).
    { assert (Hp : pre 0 (set_avail w4 (w_avail w4 + opt_record_size)))
        by (split; cbn [w_cursor w_avail set_avail set_limit_avail]; lia).
      pose proof (frame_add_rr 0 HNone [] TYPE_OPT (e_udp ed) (e_upper ed * 16777216)%N [] None _ Hp) as F.
      rewrite E5 in F. cbn [frame] in F. rewrite (x_tsig _ _ _ F). cbn. congruence. }
    rewrite T5 in H. inversion H; subst.
    rewrite L5 by exact Hlen. cbn [unwrap_w bind]. change (w_tsig (lower l (a + opt_record_size) w5)) with (w_tsig w5).
    rewrite T5. reflexivity.
  - cbn [bind] in *. change (w_tsig (lower l a w4)) with (w_tsig w4). rewrite Kt, Ht in *. cbn [bind] in *.
    inversion H; subst. reflexivity.
Qed.

(* clause (iii) for answers that end Ok: TCP-side run strict and Ok, the finished message fits the lowered
   space => the UDP-side run is the same run and the finished octets are identical *)
Theorem udp_same_as_tcp negttl z qname qtype l a wt wt' len b :
  (if (qtype =? QTYPE_ANY)%N then answer_any w_strict negttl z qname wt else answer w_strict negttl z qname qtype wt) = Ok (tt, wt') ->
  finish wt' = Ok (len, b) -> w_tsig wt' = None -> w_cursor wt' <= w_avail wt' ->
  w_cursor wt' <= a -> len <= a + (if w_edns wt' then opt_record_size else 0) ->
  handle_non_axfr_query w_iface negttl z qname qtype true wt = Some wt' /\
  exists wu', handle_non_axfr_query w_iface negttl z qname qtype false (lower l a wt) = Some wu' /\
              finish wu' = Ok (len, b).
Proof.
  intros H Hf Ht Hcav Hc Hlen. unfold handle_non_axfr_query. destruct (qtype =? QTYPE_ANY)%N.
  - rewrite (strict_answer_any _ _ _ _ _ _ H). rewrite (lowered_answer_any l a _ _ _ _ _ _ H Hc).
    split; [reflexivity|]. exists (lower l a wt'). split; [reflexivity|]. apply finish_lower; assumption.
  - rewrite (strict_answer _ _ _ _ _ _ _ H). rewrite (lowered_answer l a _ _ _ _ _ _ _ H Hc).
    split; [reflexivity|]. exists (lower l a wt'). split; [reflexivity|]. apply finish_lower; assumption.
Qed.

(* ---------------------------------------------------------------- the two prepared writers *)
Lemma lower_lower l a l' a' w : lower l a (lower l' a' w) = lower l a w.
Proof. reflexivity. Qed.
Lemma lower_self w : lower (w_limit w) (w_avail w) w = w.
Proof. destruct w; reflexivity. Qed.

Lemma add_question_facts qn qt qc w u w' : Inv_n w -> add_question qn qt qc w = Ok (u, w') ->
  Inv_n w' /\ w_avail w' = w_avail w /\ w_limit w' = w_limit w.
Proof.
  intros Hi E. pose proof (inv_pre _ Hi) as Hp.
  assert (Hi' : Inv_n w').
  { pose proof (step_good_all (mkD w []) (OAddQuestion qn qt qc) Hi) as G. cbn [step d_w] in G. rewrite E in G. exact G. }
  split; [exact Hi'|]. unfold add_question in E. destruct (w_section w); try discriminate.
  destruct (checked_add16 (w_qd w) 1) as [nq|]; [|discriminate].
  match type of E with context [with_rollback ?f _] =>
    pose proof (rollback_spec f w Hi (question_body_frame _ qn qt qc w Hp)) as R;
    destruct (with_rollback f w) as [[[] w1]|[e w1]|] end; cbn [bind] in E; try discriminate.
  injection E as _ Hw. subst w'. cbn. split; [exact (x_av _ _ _ R)|exact (x_lim _ _ _ R)].
Qed.

Lemma modify_fields w i f w' : w_modify w i f = Ok w' -> w_limit w' = w_limit w /\ w_avail w' = w_avail w.
Proof.
  unfold w_modify, w_write. destruct (nth_error _ _); [|discriminate]. destruct (buf_write _ _ _); [|discriminate].
  intros H; inversion H; subst. split; reflexivity.
Qed.

Lemma udp_le_tcp : udp_limit_w <= tcp_limit_w.
Proof.
  unfold udp_limit_w, tcp_limit_w. apply Nat.compare_le_iff. rewrite <- N2Nat.inj_compare. discriminate.
Qed.

Theorem prepare_lower buf id rd qname qtype qclass edns limit wt wu :
  prepare_w buf true id rd qname qtype qclass edns limit = Some wt ->
  prepare_w buf false id rd qname qtype qclass edns limit = Some wu ->
  wu = lower (w_limit wu) (w_avail wu) wt.
Proof.
  unfold prepare_w. intros HT HU.
  destruct (writer_new buf tcp_limit_w) as [t0|e|] eqn:T0; try discriminate.
  destruct (writer_new buf udp_limit_w) as [u0|e|] eqn:U0; try discriminate.
  pose proof (writer_new_inv _ _ _ U0) as IU0.
  assert (R0 : u0 = lower (w_limit u0) (w_avail u0) t0 /\ w_avail u0 <= w_avail t0 /\
               w_limit t0 = w_avail t0).
  { unfold writer_new in T0, U0.
    set (Lt := Nat.min tcp_limit_w (length buf)) in *. set (Lu := Nat.min udp_limit_w (length buf)) in *.
    destruct (Lt <? header_size); [discriminate|]. destruct (Lu <? header_size); [discriminate|].
    destruct (length buf <? header_size); [discriminate|]. inversion T0; inversion U0; subst.
    cbn [w_limit w_avail]. split; [reflexivity|]. split; [|reflexivity].
    unfold Lu, Lt. apply Nat.min_le_compat_r. exact udp_le_tcp. }
  destruct R0 as (R0 & O0 & Lt0).
  (* the four header setters *)
  destruct (set_id id t0) as [t1|e|] eqn:T1; cbn [bind] in HT; try discriminate.
  destruct (set_qr true t1) as [t2|e|] eqn:T2; cbn [bind] in HT; try discriminate.
  destruct (set_opcode 0 t2) as [t3|e|] eqn:T3; cbn [bind] in HT; try discriminate.
  destruct (set_rd rd t3) as [t4|e|] eqn:T4; try discriminate.
  destruct (set_id id u0) as [u1|e|] eqn:U1; cbn [bind] in HU; try discriminate.
  destruct (set_qr true u1) as [u2|e|] eqn:U2; cbn [bind] in HU; try discriminate.
  destruct (set_opcode 0 u2) as [u3|e|] eqn:U3; cbn [bind] in HU; try discriminate.
  destruct (set_rd rd u3) as [u4|e|] eqn:U4; try discriminate.
  set (l := w_limit u0) in *. set (a := w_avail u0) in *.
  assert (R1 : u1 = lower l a t1).
  { unfold set_id in *. rewrite R0, w_write_lower, T1 in U1. inversion U1. reflexivity. }
  assert (R2 : u2 = lower l a t2).
  { unfold set_qr, w_set_flag in *. rewrite R1, w_modify_lower, T2 in U2. inversion U2. reflexivity. }
  assert (R3 : u3 = lower l a t3).
  { unfold set_opcode in *. rewrite R2, w_modify_lower, T3 in U3. inversion U3. reflexivity. }
  assert (R4 : u4 = lower l a t4).
  { unfold set_rd, w_set_flag in *. rewrite R3, w_modify_lower, T4 in U4. inversion U4. reflexivity. }
  assert (F4 : w_limit t4 = w_limit t0 /\ w_avail t4 = w_avail t0).
  { unfold set_id in T1. apply w_write_inv in T1 as (b1 & _ & ->).
    destruct (modify_fields _ _ _ _ T2) as [A2 B2]. destruct (modify_fields _ _ _ _ T3) as [A3 B3].
    destruct (modify_fields _ _ _ _ T4) as [A4 B4]. cbn in *. split; congruence. }
  assert (IU4 : Inv_n u4).
  { unfold set_id in U1. pose proof (inv_w_write _ _ _ _ IU0 U1) as I1.
    pose proof (inv_w_modify _ _ _ _ I1 U2) as I2. pose proof (inv_w_modify _ _ _ _ I2 U3) as I3.
    exact (inv_w_modify _ _ _ _ I3 U4). }
  (* the question *)
  destruct (add_question qname qtype qclass t4) as [[ut t5]|e|] eqn:T5; try discriminate.
  destruct (add_question qname qtype qclass u4) as [[uu u5]|e|] eqn:U5; try discriminate.
  destruct (add_question_facts _ _ _ _ _ _ IU4 U5) as (IU5 & AV5 & LI5).
  assert (R5 : u5 = lower (w_limit u5) (w_avail u5) t5).
  { destruct (mono_add_question (w_limit t4) (w_avail t4) _ _ _ _ _ _ U5) as [_ L5].
    assert (Hfit : w_cursor u5 <= w_avail t4).
    { destruct IU5 as [_ _ h3 _ _]. rewrite AV5, R4 in h3. cbn in h3. destruct F4 as [_ F4]. rewrite F4. unfold a in h3. lia. }
    specialize (L5 Hfit). rewrite R4, lower_lower, lower_self, T5 in L5. injection L5 as _ E5.
    rewrite E5, lower_lower. symmetry. apply lower_self. }
  destruct edns as [size|].
  - destruct (set_edns size t5) as [[ue t6]|e|] eqn:T6; try discriminate.
    destruct (set_edns size u5) as [[ue2 u6]|e|] eqn:U6; try discriminate.
    assert (R6 : u6 = lower (w_limit u6) (w_avail u6) t6).
    { unfold set_edns in T6, U6. rewrite R5 in U6.
      change (w_edns (lower (w_limit u5) (w_avail u5) t5)) with (w_edns t5) in U6.
      change (w_ar (lower (w_limit u5) (w_avail u5) t5)) with (w_ar t5) in U6.
      destruct (w_edns t5); [discriminate|]. destruct (_ <? _) in T6; [discriminate|]. destruct (_ <? _) in U6; [discriminate|].
      destruct (checked_add16 (w_ar t5) 1); [|discriminate]. injection T6 as _ <-. injection U6 as _ <-. reflexivity. }
    injection HT as <-.
    destruct (MsgWriter.set_limit limit u6) as [u7|e|] eqn:U7; try discriminate. injection HU as <-.
    unfold MsgWriter.set_limit in U7. rewrite R6 in U7.
    destruct (w_limit (lower (w_limit u6) (w_avail u6) t6) <=? limit).
    + destruct (_ <? _) in U7; [discriminate|]. injection U7 as <-. reflexivity.
    + destruct (_ <? _) in U7; [discriminate|]. destruct (_ <? _) in U7; [discriminate|]. destruct (_ <? _) in U7; [discriminate|].
      injection U7 as <-. reflexivity.
  - injection HT as <-. injection HU as <-. exact R5.
Qed.

(* Clause (iii) at the level of complete responses, for answers that end Ok: *)
Theorem respond_udp_identical negttl buf id rd qname qtype qclass edns limit z wt wu wt' len b :
  prepare_w buf true id rd qname qtype qclass edns limit = Some wt ->
  prepare_w buf false id rd qname qtype qclass edns limit = Some wu ->
  (if (qtype =? QTYPE_ANY)%N then answer_any w_strict negttl z qname wt else answer w_strict negttl z qname qtype wt) = Ok (tt, wt') ->
  finish wt' = Ok (len, b) -> w_tsig wt' = None -> w_cursor wt' <= w_avail wt' ->
  w_cursor wt' <= w_avail wu -> len <= w_avail wu + (if w_edns wt' then opt_record_size else 0) ->
  respond_w negttl buf true id rd qname qtype qclass edns limit z = Some (len, b) /\
  respond_w negttl buf false id rd qname qtype qclass edns limit z = Some (len, b).
Proof.
  intros HT HU Ha Hf Ht Hcav Hc Hlen. unfold respond_w. rewrite HT, HU.
  pose proof (prepare_lower _ _ _ _ _ _ _ _ _ _ HT HU) as Hl.
  destruct (udp_same_as_tcp negttl z qname qtype (w_limit wu) (w_avail wu) wt wt' len b Ha Hf Ht Hcav Hc Hlen)
    as (E1 & wu' & E2 & E3).
  rewrite E1, Hf. split; [reflexivity|]. rewrite Hl, E2, E3. reflexivity.
Qed.
