(* The hypothesis "the query name is at or below the apex" of c05_answer_refines, discharged from the
   server model: the catalog entry that handle_query selects (Model/Server.v: cat_lookup, longest
   suffix within the class) has a name that is a suffix of the query name. *)
From QV Require Import Base.ListX Model.NameWire Model.Reader Model.Server Proofs.ServerP
  Model.ZoneTree Spec.ZoneLookupS Proofs.ZoneBaseP Model.Query.
Local Open Scope nat_scope.

Lemma wire_labels_same : forall fuel w, Server.wire_labels_aux fuel w = q_wire_labels fuel w.
Proof.
  induction fuel as [|f IH]; intros w; [reflexivity|]. cbn [Server.wire_labels_aux q_wire_labels].
  destruct w as [|l r]; [reflexivity|]. destruct (l =? 0)%N; [reflexivity|]. rewrite IH. reflexivity.
Qed.

Lemma name_key_labels nm : name_key nm = lc (labels_of nm).
Proof. unfold name_key, labels_of, Server.wire_labels, lower_labels, lc. rewrite wire_labels_same. reflexivity. Qed.

Lemma bytes_eqb_octets a b : Server.bytes_eqb a b = octets_eqb a b.
Proof.
  unfold Server.bytes_eqb. revert b. induction a as [|x a IH]; destruct b as [|y b]; cbn; auto.
  rewrite <- IH. destruct (length a =? length b); cbn; [reflexivity|]. rewrite andb_false_r. reflexivity.
Qed.

Lemma labels_eqb_name a b : labels_eqb a b = name_eqb a b.
Proof.
  unfold labels_eqb. revert b. induction a as [|x a IH]; destruct b as [|y b]; cbn; auto.
  rewrite <- IH, bytes_eqb_octets. destruct (length a =? length b); cbn; [reflexivity|]. rewrite andb_false_r. reflexivity.
Qed.

Lemma is_suffix_suffixb s l : Server.is_suffix s l = is_suffixb s l.
Proof.
  unfold Server.is_suffix, is_suffixb. rewrite labels_eqb_name, name_eqb_sym. reflexivity.
Qed.

Theorem dispatch_in_zone es (q : question) cls e apex :
  cat_lookup es (name_key (q_name q)) cls None = Some e ->
  e_name e = lower_labels apex ->
  in_zone apex (labels_of (q_name q)) = true.
Proof.
  intros H Hn. pose proof (cat_lookup_spec es _ _ _ _ H) as S. cbn in S.
  destruct S as ([S|(_ & _ & S)] & _); [discriminate|].
  unfold in_zone. rewrite <- name_key_labels. rewrite <- is_suffix_suffixb.
  change (lc apex) with (lower_labels apex). rewrite <- Hn. exact S.
Qed.
