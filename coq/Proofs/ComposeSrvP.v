(* Composition, part 6: the composed server model (Model/ServerW.v) never panics.
   Request side: prescan_facts (Proofs/ServerP.v).  Response side: respond_w_run (Proofs/ComposeTopP.v),
   whose hypotheses are discharged from what the pre-scan guarantees about a clean request (the
   question's name is a valid Name, id / QTYPE / QCLASS are 16-bit, the EDNS size is the server's)
   and from the dispatch (the catalog entry selected is a suffix of the query name, in its class). *)
From QV Require Import Base.ListX Model.NameWire Spec.NameWireS Spec.NameRepr Spec.ReaderS Model.Reader Model.RdataLite
  Model.Server Proofs.ReaderP Proofs.ServerP Model.MsgWriter Model.ZoneTree Spec.ZoneLookupS Proofs.ZoneBaseP
  Proofs.ZoneInvP Proofs.ZoneTopP Model.Query Model.QueryW Model.ServerW
  Proofs.MsgWriterP Proofs.MsgWriterScanP Proofs.MsgWriterNameP Proofs.MsgWriterInvP Proofs.MsgWriterNameSP Proofs.MsgWriterOpP
  Proofs.MsgWriterStepP Proofs.MsgWriterHdrP Proofs.MsgWriterRtP Proofs.QueryNameP Proofs.QueryDispatchP Proofs.QueryTopP
  Proofs.ComposeTraceP Proofs.ComposeWfP Proofs.ComposeNameP Proofs.ComposeKeyP Proofs.ComposeTopP.
Local Open Scope nat_scope.

(* ---- what the Reader guarantees about the question *)
Lemma decodes_valid b : forall cs i ls e, decodes b cs i ls e -> Forall wf_label ls.
Proof.
  induction 1 as [cs i H0|cs i len rest e Hn H0 H63 Hle _ IH|cs i hi lo rest e' Hh H192 Hl Hlt _ IH]; auto.
  constructor; auto. unfold wf_label. rewrite slice_length by lia. lia.
Qed.

Lemma sbe16_lt b a v : wf_bytes b -> sbe16 b a = Some v -> (v < 65536)%N.
Proof.
  intros Hwf. unfold sbe16. destruct (nth_error b a) as [h|] eqn:E1; [|discriminate].
  destruct (nth_error b (a + 1)) as [l|] eqn:E2; [|discriminate]. intros H. inversion H; subst.
  apply nth_error_In in E1, E2. unfold wf_bytes in Hwf. rewrite Forall_forall in Hwf.
  pose proof (Hwf _ E1) as X1. pose proof (Hwf _ E2) as X2. unfold is_octet in *. lia.
Qed.

Lemma be16_at_lt {E} b a v : wf_bytes b -> @be16_at E b a = Ok v -> (v < 65536)%N.
Proof.
  intros Hwf. unfold be16_at. destruct (length b <? a + 2); [discriminate|].
  destruct (nth_error b a) as [h|] eqn:E1; [|discriminate].
  destruct (nth_error b (a + 1)) as [l|] eqn:E2; [|discriminate]. intros H. inversion H; subst.
  apply nth_error_In in E1, E2. unfold wf_bytes in Hwf. rewrite Forall_forall in Hwf.
  pose proof (Hwf _ E1) as X1. pose proof (Hwf _ E2) as X2. unfold is_octet in *. lia.
Qed.

Lemma question_good r r1 q : rinv r -> read_question r = (r1, Ok q) ->
  good_name (labels_of (Reader.q_name q)) /\ (Reader.q_type q < 65536)%N /\ (Reader.q_class q < 65536)%N.
Proof.
  intros Hinv E. pose proof Hinv as (Hwf & _). pose proof (read_question_facts r Hinv) as (_ & _ & _ & F).
  rewrite E in F. cbn [fst snd] in F. destruct (F q eq_refl) as (ls & D & Hn & _).
  inversion D as [ls' l qt qc DN Hqt Hqc]; subst. destruct DN as (e & Dd & _ & Hw).
  pose proof (decodes_valid _ _ _ _ _ Dd) as Hl.
  assert (Hlab : labels_of (Reader.q_name q) = ls).
  { rewrite Hn. apply labels_of_name_of. eapply Forall_impl; [|exact Hl]. intros a Ha. exact Ha. }
  rewrite Hlab. split; [|split; eapply sbe16_lt; eauto].
  split.
  - split; [exact Hl|]. pose proof (lwire_len_ge ls Hl) as Hge.
    assert (Hwl : length (nm_wire ls) = wire_len ls) by reflexivity. rewrite nm_wire_length in Hwl. lia.
  - exact Hw.
Qed.

(* ---- the catalog *)
Definition rec_ok (r : record) : Prop := good_rd (r_rdata r) /\ (r_type r < 65536)%N.

(* every Loaded entry stands for a zone built by adds (Zone::new + Zone::add per record) under the
   entry's name and class; the records are what the Rust types guarantee (RDATA of at most 65535
   octets < 256, 16-bit type); the apex is a valid Name *)
Definition catalog_ok (cfg : config) (zones : nat -> option zone) : Prop :=
  forall e zid, In e (c_catalog cfg) -> e_kind e = ELoaded zid ->
    exists z reqf apex wide recs,
      zones zid = Some z /\
      (forall c t a b d, reqf c t a b = true -> reqf c t b d = true -> reqf c t a d = true) /\
      zone_build reqf (zone_new apex (e_class e) wide) recs = Some z /\
      e_name e = lower_labels apex /\ good_name apex /\ Forall rec_ok recs.

Lemma handle_query_w_same zones negttl answer cfg buf w w' :
  handle_query_w zones negttl answer cfg buf w = Ok (RAbs w') -> w' = handle_query answer cfg w.
Proof.
  unfold handle_query_w, handle_query. destruct (Server.w_question w) as [q|]; [|intros H; inversion H; reflexivity].
  destruct (existsb _ _); [intros H; inversion H; reflexivity|].
  destruct (_ =? _)%N; [intros H; inversion H; reflexivity|].
  destruct (cat_lookup _ _ _ _) as [e|]; [|intros H; inversion H; reflexivity].
  destruct (e_kind e); try (intros H; inversion H; reflexivity).
  destruct (Server.w_tsig w); [intros H; inversion H; reflexivity|].
  destruct (zones zone_id); [|discriminate]. destruct (respond_w _ _ _ _ _ _ _ _ _ _ _) as [[len b]|]; discriminate.
Qed.

Section Srv.
Variable zones : nat -> option zone.
Variable negttl : N -> N -> N.
Variable answer : answer_fn.
Variable verify : tsig_verifier.
Variable cfg : config.
Variable buf : bytes.
Hypothesis Hcfg : wf_cfg cfg.
Hypothesis Hbuf : length buf = c_buflen cfg.
Hypothesis Hcat : catalog_ok cfg zones.

Lemma buf_512 : 512 <= length buf.
Proof.
  destruct Hcfg as (H512 & H64 & Hb). rewrite Hbuf. destruct (c_transport cfg).
  - unfold tcp_limit in Hb. lia.
  - lia.
Qed.

(* the response side for a clean QUERY: whatever Pop / PR instance *)
Lemma loaded_respond (PR : N -> bytes -> Prop) (Pop : wop -> Prop) req w q e zid :
  wf_bytes req -> early_or_clean cfg req w -> Server.w_question w = Some q ->
  cat_lookup (c_catalog cfg) (name_key (Reader.q_name q)) (Reader.q_class q) None = Some e ->
  e_kind e = ELoaded zid ->
  exists z reqf apex wide recs,
    zones zid = Some z /\
    (forall c t a b d, reqf c t a b = true -> reqf c t b d = true -> reqf c t a d = true) /\
    zone_build reqf (zone_new apex (Reader.q_class q) wide) recs = Some z /\ good_name apex /\ Forall rec_ok recs /\
    In e (c_catalog cfg) /\
    good_name (labels_of (Reader.q_name q)) /\ in_zone apex (labels_of (Reader.q_name q)) = true /\
    (Server.w_id w < 65536)%N /\ (Reader.q_type q < 65536)%N /\ (Reader.q_class q < 65536)%N /\
    (forall s, option_map fst (Server.w_edns w) = Some s -> (s < 65536)%N).
Proof.
  intros Hwf (H12 & _ & (Hid & _) & Hq & _ & _ & Hed & _) Ew El Ek.
  pose proof (cat_lookup_spec _ _ _ _ _ El) as S. cbn in S. destruct S as ([S|(Sin & Scl & _)] & _); [discriminate|].
  apply N.eqb_eq in Scl.
  destruct (Hcat e zid Sin Ek) as (z & reqf & apex & wide & recs & Hz & Ht & Hb & Hn & Ga & Hrecs).
  exists z, reqf, apex, wide, recs. rewrite Scl in Hb.
  destruct Hq as [Hq|(_ & r1 & q' & Erq & Ew')]; [congruence|]. rewrite Ew in Ew'. inversion Ew'; subst q'.
  destruct (question_good _ _ _ (r0_inv req Hwf H12) Erq) as (Gq & Hqt & Hqc).
  repeat (split; [assumption|]).
  split; [exact (dispatch_in_zone _ _ _ _ _ El Hn)|].
  split; [unfold rd_id in Hid; eapply be16_at_lt; [|exact Hid]; exact Hwf|].
  split; [exact Hqt|]. split; [exact Hqc|].
  intros s Hs. unfold edns_ok in Hed. destruct (Server.w_edns w) as [[sz up]|]; [|discriminate].
  inversion Hs; subst. cbn [fst]. destruct Hcfg as (_ & H64 & _). lia.
Qed.

Theorem handle_message_w_total req : wf_bytes req ->
  exists x, handle_message_w zones negttl answer verify cfg buf req = Ok x.
Proof.
  intros Hwf. destruct (prescan_facts verify cfg req Hcfg Hwf) as (p & Ep & Post).
  unfold handle_message_w. rewrite Ep. cbn [bind].
  destruct p as [|w|opc w]; try (eexists; reflexivity).
  destruct (opc =? OPCODE_QUERY)%N; [|eexists; reflexivity].
  destruct Post as [Hec _].
  unfold handle_query_w.
  destruct (Server.w_question w) as [q|] eqn:Ew; [|eexists; reflexivity].
  destruct (existsb _ _); [eexists; reflexivity|].
  destruct (_ =? _)%N; [eexists; reflexivity|].
  destruct (cat_lookup _ _ _ _) as [e|] eqn:El; [|eexists; reflexivity].
  destruct (e_kind e) as [zid| |] eqn:Ek; try (eexists; reflexivity).
  destruct (Server.w_tsig w); [eexists; reflexivity|].
  destruct (loaded_respond (fun _ _ => True) (fun _ => True) req w q e zid Hwf Hec Ew El Ek)
    as (z & reqf & apex & wide & recs & Hz & Ht & Hb & Ga & Hrecs & _ & Gq & Hin & Hid & Hqt & Hqc & Hed).
  rewrite Hz.
  assert (HR : Forall (fun r => Pz (fun _ _ => True) (r_type r) (r_rdata r)) (accepted apex (Reader.q_class q) recs)).
  { apply Forall_forall. intros r Hr. apply accepted_In in Hr. rewrite Forall_forall in Hrecs.
    destruct (Hrecs r Hr) as [A B]. split; [exact A|split; [exact B|exact I]]. }
  destruct (respond_w_run reqf apex (Reader.q_class q) _ z (build_inv reqf Ht apex _ wide recs z Hb)
              (fun _ _ => True) (fun _ => True) HR Ga Hqc
              (fun _ _ _ _ _ _ _ _ => I) (fun _ _ _ _ _ _ _ _ => I)
              (fun o => match o with OSetQr false => I | _ => I end) negttl
              buf (is_tcp (c_transport cfg)) (Server.w_id w) (Server.w_rd w) (labels_of (Reader.q_name q))
              (Reader.q_type q) (Reader.q_class q) (option_map fst (Server.w_edns w)) (Server.w_limit w)
              buf_512 Gq Hin Hid Hqt Hqc Hed)
    as (len & b & ops & w0 & rr & Er & _).
  rewrite Er. eexists; reflexivity.
Qed.

End Srv.
