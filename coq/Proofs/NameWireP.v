From QV Require Import Base.ListX Model.NameWire Spec.NameWireS Spec.NameRepr.

Local Open Scope nat_scope.

Lemma consts_vals : max_label_len = 63%N /\ max_wire_len = 255 /\ max_n_labels = 128.
Proof. repeat split; reflexivity. Qed.

(* ---------- bit-level facts, by finite sweep ---------- *)

Fixpoint upto (n : nat) : list N :=
  match n with O => [] | S k => upto k ++ [N.of_nat k] end.

Lemma upto_In n x : (x < N.of_nat n)%N -> In x (upto n).
Proof.
  induction n as [|n IH]; intros H; [lia|].
  simpl. apply in_or_app.
  destruct (N.eq_dec x (N.of_nat n)) as [->|Hne]; [right; left; reflexivity|].
  left. apply IH. lia.
Qed.

Lemma is_pointer_octet_spec b : (b < 256)%N -> is_pointer_octet b = (192 <=? b)%N.
Proof.
  intros H.
  assert (A : forallb (fun b => Bool.eqb (is_pointer_octet b) (192 <=? b)%N) (upto 256) = true)
    by (vm_compute; reflexivity).
  rewrite forallb_forall in A. specialize (A b (upto_In 256 b H)).
  apply Bool.eqb_prop in A. exact A.
Qed.

Lemma pointer_value hi lo : (192 <= hi)%N -> (hi < 256)%N -> (lo < 256)%N ->
  N.land (hi * 256 + lo) 16383 = ((hi - 192) * 256 + lo)%N.
Proof.
  intros H1 H2 H3.
  change 16383%N with (N.ones 14). rewrite N.land_ones.
  change (2 ^ 14)%N with 16384%N.
  replace (hi * 256 + lo)%N with (((hi - 192) * 256 + lo) + 3 * 16384)%N by lia.
  rewrite N.mod_add by lia. apply N.mod_small. lia.
Qed.

(* ---------- spec facts ---------- *)

Lemma lwire_app a c : lwire (a ++ c) = lwire a ++ lwire c.
Proof. unfold lwire. apply flat_map_app. Qed.

Lemma wire_of_cons l r : wire_of (l :: r) = N.of_nat (length l) :: l ++ wire_of r.
Proof. unfold wire_of, lwire. simpl. rewrite <- app_assoc. reflexivity. Qed.

Lemma wire_len_cons l r : wire_len (l :: r) = 1 + length l + wire_len r.
Proof. unfold wire_len. rewrite wire_of_cons. simpl. rewrite app_length. lia. Qed.

Lemma wire_len_pos ls : 1 <= wire_len ls.
Proof. unfold wire_len, wire_of. rewrite app_length. simpl. lia. Qed.

Lemma decodes_end_le b cs i ls e : decodes b cs i ls e -> i < e /\ e <= length b.
Proof.
  induction 1 as [cs i H | cs i len rest e H Hp Hl Hb Hd IH | cs i hi lo rest e' H Hh Hlo Ht Hd IH].
  - apply nth_error_Some_lt in H. lia.
  - lia.
  - apply nth_error_Some_lt in Hlo. lia.
Qed.

(* The relation is functional. *)
Lemma decodes_fun b cs i ls e : decodes b cs i ls e ->
  forall ls' e', decodes b cs i ls' e' -> ls = ls' /\ e = e'.
Proof.
  induction 1 as [cs i H | cs i len rest e H Hp Hl Hb Hd IH | cs i hi lo rest e1 H Hh Hlo Ht Hd IH];
    intros ls' e' D; inversion D; subst;
    try (match goal with A : nth_error b i = Some _, B : nth_error b i = Some _ |- _ =>
           rewrite A in B; inversion B; subst end); try lia.
  - auto.
  - match goal with D' : decodes b cs _ _ e' |- _ => destruct (IH _ _ D') as [-> ->] end. auto.
  - match goal with A : nth_error b (i+1) = Some _, B : nth_error b (i+1) = Some _ |- _ =>
           rewrite A in B; inversion B; subst end.
    match goal with D' : decodes b _ _ ls' _ |- _ => destruct (IH _ _ D') as [-> _] end. auto.
Qed.

(* ---------- model facts ---------- *)


Lemma is_pointer_octet_0 : is_pointer_octet 0 = false.
Proof. reflexivity. Qed.

Lemma push_offset_ok offs x : length offs < 128 ->
  push_offset offs x = Some (offs ++ [(N.of_nat x mod 256)%N]).
Proof.
  intros H. unfold push_offset. change max_n_labels with 128.
  destruct (128 <=? length offs) eqn:E; [apply Nat.leb_le in E; lia|reflexivity].
Qed.

Lemma try_extend_ok wire s : length wire + length s <= 255 -> try_extend wire s = Some (wire ++ s).
Proof.
  intros H. unfold try_extend. change max_wire_len with 255.
  destruct (255 <? length wire + length s) eqn:E; [apply Nat.ltb_lt in E; lia|reflexivity].
Qed.

Lemma try_extend_inv wire s w : try_extend wire s = Some w ->
  w = wire ++ s /\ length wire + length s <= 255.
Proof.
  unfold try_extend. change max_wire_len with 255.
  destruct (255 <? length wire + length s) eqn:E; intros H; inversion H; subst.
  apply Nat.ltb_ge in E. auto.
Qed.

Lemma parse_pointer_ok b cs i hi lo : wf_bytes b ->
  nth_error b i = Some hi -> (192 <= hi)%N -> nth_error b (i + 1) = Some lo ->
  N.to_nat ((hi - 192) * 256 + lo) < cs ->
  parse_pointer b cs i = Ok (N.to_nat ((hi - 192) * 256 + lo)).
Proof.
  intros Hwf H Hh Hlo Ht. unfold parse_pointer.
  pose proof (nth_error_Some_lt _ _ _ Hlo) as Hlt.
  destruct (i + 1 <? length b) eqn:E; [|apply Nat.ltb_ge in E; lia].
  rewrite H, Hlo.
  rewrite pointer_value; auto.
  - destruct (cs <=? _) eqn:F; [apply Nat.leb_le in F; lia|reflexivity].
  - exact (nth_error_Forall _ _ _ _ Hwf H).
  - exact (nth_error_Forall _ _ _ _ Hwf Hlo).
Qed.

Lemma parse_pointer_inv b cs i t : wf_bytes b -> parse_pointer b cs i = Ok t ->
  forall hi, nth_error b i = Some hi -> (192 <= hi)%N ->
  exists lo, nth_error b (i + 1) = Some lo /\ t = N.to_nat ((hi - 192) * 256 + lo) /\ t < cs.
Proof.
  intros Hwf H hi Hi Hh. unfold parse_pointer in H.
  destruct (i + 1 <? length b) eqn:E; [|discriminate].
  rewrite Hi in H. destruct (nth_error b (i + 1)) as [lo|] eqn:Hlo; [|discriminate].
  rewrite pointer_value in H; auto.
  - destruct (cs <=? _) eqn:F; [discriminate|]. inversion H; subst.
    apply Nat.leb_gt in F. eauto.
  - exact (nth_error_Forall _ _ _ _ Hwf Hi).
  - exact (nth_error_Forall _ _ _ _ Hwf Hlo).
Qed.

Lemma parse_pointer_no_panic b cs i : parse_pointer b cs i <> Panic.
Proof.
  unfold parse_pointer. destruct (i + 1 <? length b) eqn:E; [|discriminate].
  apply Nat.ltb_lt in E.
  destruct (nth_error b i) eqn:A; [|apply nth_error_None in A; lia].
  destruct (nth_error b (i + 1)) eqn:B; [|apply nth_error_None in B; lia].
  destruct (cs <=? _); discriminate.
Qed.

Lemma parse_pointer_lt b cs i t : parse_pointer b cs i = Ok t -> t < cs.
Proof.
  unfold parse_pointer. destruct (i + 1 <? length b); [|discriminate].
  destruct (nth_error b i); [|discriminate]. destruct (nth_error b (i + 1)); [|discriminate].
  destruct (cs <=? _) eqn:F; [discriminate|]. intros H; inversion H; subst.
  apply Nat.leb_gt in F. exact F.
Qed.

(* ---------- completeness of pc_loop w.r.t. the relation ---------- *)

Lemma pc_complete b : wf_bytes b ->
  forall cs i rest e, decodes b cs i rest e ->
  forall fuel first offs wire,
    length wire + wire_len rest <= 255 ->
    2 * length offs <= length wire ->
    256 - length wire + cs < fuel ->
    pc_loop fuel b cs i first offs wire =
      Ok (mkName (offs ++ offs_of (length wire) rest) (wire ++ wire_of rest),
          match first with None => e - cs | Some x => x end).
Proof.
  intros Hwf cs i rest e D.
  induction D as [cs i H | cs i len rest e H Hp Hl Hb Hd IH | cs i hi lo rest e' H Hh Hlo Ht Hd IH];
    intros fuel first offs wire Hw Ho Hf; (destruct fuel as [|fuel]; [lia|]); cbn [pc_loop]; rewrite H.
  - (* root *)
    rewrite is_pointer_octet_0. change (max_label_len <? 0)%N with false. cbv iota.
    rewrite push_offset_ok by lia. change (0 =? 0)%N with true. cbv iota.
    change (N.to_nat 0) with 0.
    rewrite (slice_cons b i 0%N) by (auto; lia).
    replace (S i) with (i + 0 + 1) by lia. rewrite slice_nil.
    unfold wire_len, wire_of in Hw. simpl in Hw.
    rewrite try_extend_ok by (simpl; lia).
    replace (i + 0 + 1) with (i + 1) by lia. reflexivity.
  - (* label *)
    pose proof (nth_error_Forall _ _ _ _ Hwf H) as Hoct. unfold is_octet in Hoct.
    rewrite is_pointer_octet_spec by exact Hoct.
    destruct (192 <=? len)%N eqn:E1; [apply N.leb_le in E1; lia|].
    change max_label_len with 63%N.
    destruct (63 <? len)%N eqn:E2; [apply N.ltb_lt in E2; lia|].
    rewrite push_offset_ok by lia.
    destruct (len =? 0)%N eqn:E3; [apply N.eqb_eq in E3; lia|].
    pose proof (decodes_end_le _ _ _ _ _ Hd) as [Hlt Hle].
    destruct (length b <=? i + N.to_nat len + 1) eqn:E4; [apply Nat.leb_le in E4; lia|].
    rewrite wire_len_cons in Hw.
    assert (Hsl : length (slice b (i + 1) (i + 1 + N.to_nat len)) = N.to_nat len)
      by (rewrite slice_length; lia).
    rewrite Hsl in Hw.
    rewrite (slice_cons b i len) by (auto; lia).
    replace (S i) with (i + 1) by lia.
    replace (i + N.to_nat len + 1) with (i + 1 + N.to_nat len) by lia.
    rewrite try_extend_ok by (simpl; rewrite Hsl; lia).
    rewrite IH.
    + f_equal. f_equal. f_equal.
      * rewrite <- app_assoc. f_equal. cbn [offs_of app]. f_equal. f_equal.
        rewrite app_length. simpl. rewrite Hsl. lia.
      * rewrite <- app_assoc. f_equal. rewrite wire_of_cons. rewrite Hsl.
        rewrite N2Nat.id. reflexivity.
    + rewrite app_length. cbn [length]. rewrite Hsl. lia.
    + rewrite !app_length. cbn [length]. rewrite Hsl. lia.
    + rewrite app_length. cbn [length]. rewrite Hsl. lia.
  - (* pointer *)
    pose proof (nth_error_Forall _ _ _ _ Hwf H) as Hoct. unfold is_octet in Hoct.
    rewrite is_pointer_octet_spec by exact Hoct.
    destruct (192 <=? hi)%N eqn:E1; [|apply N.leb_gt in E1; lia].
    rewrite (parse_pointer_ok b cs i hi lo) by auto. cbn [bind].
    rewrite IH by (auto; lia).
    destruct first; reflexivity.
Qed.

(* ---------- soundness of pc_loop ---------- *)

Lemma pc_sound b : wf_bytes b ->
  forall fuel cs i first offs wire nm l,
    pc_loop fuel b cs i first offs wire = Ok (nm, l) ->
    exists rest e, decodes b cs i rest e /\
      nm = mkName (offs ++ offs_of (length wire) rest) (wire ++ wire_of rest) /\
      length wire + wire_len rest <= 255 /\
      l = match first with None => e - cs | Some x => x end.
Proof.
  intros Hwf fuel. induction fuel as [|fuel IH]; intros cs i first offs wire nm l H; [discriminate|].
  cbn [pc_loop] in H.
  destruct (nth_error b i) as [len|] eqn:Hi; [|discriminate].
  pose proof (nth_error_Forall _ _ _ _ Hwf Hi) as Hoct. unfold is_octet in Hoct.
  rewrite is_pointer_octet_spec in H by exact Hoct.
  destruct (192 <=? len)%N eqn:E1.
  - (* pointer *)
    apply N.leb_le in E1.
    destruct (parse_pointer b cs i) as [t| |] eqn:Hp; try discriminate. cbn [bind] in H.
    destruct (parse_pointer_inv _ _ _ _ Hwf Hp _ Hi E1) as (lo & Hlo & -> & Hlt).
    apply IH in H. destruct H as (rest & e & D & -> & Hw & ->).
    exists rest, (i + 2). split; [|split; [reflexivity|split; [exact Hw|]]].
    + eapply dec_ptr; eauto.
    + destruct first; reflexivity.
  - apply N.leb_gt in E1. change max_label_len with 63%N in H.
    destruct (63 <? len)%N eqn:E2; [discriminate|]. apply N.ltb_ge in E2.
    destruct (push_offset offs (length wire)) as [offs'|] eqn:Hpush; [|discriminate].
    assert (offs' = offs ++ [(N.of_nat (length wire) mod 256)%N]) as ->.
    { unfold push_offset in Hpush. destruct (max_n_labels <=? length offs); inversion Hpush; auto. }
    destruct (len =? 0)%N eqn:E3.
    + (* root *)
      apply N.eqb_eq in E3. subst len. change (N.to_nat 0) with 0 in H.
      rewrite (slice_cons b i 0%N) in H by (auto; lia).
      replace (S i) with (i + 0 + 1) in H by lia. rewrite slice_nil in H.
      destruct (try_extend wire [0%N]) as [w|] eqn:Ht; [|discriminate].
      apply try_extend_inv in Ht. destruct Ht as [-> Hlen]. inversion H; subst.
      exists [], (i + 1). split; [constructor; auto|]. split; [reflexivity|].
      split; [unfold wire_len, wire_of; simpl in *; lia|].
      replace (i + 0 + 1) with (i + 1) by lia. reflexivity.
    + apply N.eqb_neq in E3.
      destruct (length b <=? i + N.to_nat len + 1) eqn:E4; [discriminate|]. apply Nat.leb_gt in E4.
      destruct (try_extend wire _) as [w|] eqn:Ht; [|discriminate].
      apply try_extend_inv in Ht. destruct Ht as [-> Hlen].
      apply IH in H. destruct H as (rest & e & D & -> & Hw & ->).
      replace (i + N.to_nat len + 1) with (i + 1 + N.to_nat len) in * by lia.
      assert (Hsl : length (slice b (i + 1) (i + 1 + N.to_nat len)) = N.to_nat len)
        by (rewrite slice_length; lia).
      rewrite (slice_cons b i len) in * by (auto; lia).
      replace (S i) with (i + 1) in * by lia.
      exists (slice b (i + 1) (i + 1 + N.to_nat len) :: rest), e.
      split; [apply dec_label; auto; lia|].
      rewrite app_length in *. cbn [length] in *. rewrite Hsl in *.
      split; [|split; [rewrite wire_len_cons, Hsl; lia|reflexivity]].
      f_equal.
      * rewrite <- app_assoc. f_equal. cbn [offs_of app]. f_equal. f_equal. rewrite Hsl. lia.
      * rewrite <- app_assoc. f_equal. rewrite wire_of_cons, Hsl, N2Nat.id. reflexivity.
Qed.

(* ---------- totality: no panic, fuel suffices ---------- *)

Lemma pc_total b :
  forall fuel cs i first offs wire,
    2 * length offs <= length wire -> length wire <= 255 ->
    256 - length wire + cs < fuel ->
    pc_loop fuel b cs i first offs wire <> Panic /\
    pc_loop fuel b cs i first offs wire <> Err OutOfFuel.
Proof.
  induction fuel as [|fuel IH]; intros cs i first offs wire Ho Hw Hf; [lia|].
  cbn [pc_loop].
  destruct (nth_error b i) as [len|] eqn:Hi; [|split; discriminate].
  destruct (is_pointer_octet len).
  - destruct (parse_pointer b cs i) as [t|e|] eqn:Hp; cbn [bind].
    + apply parse_pointer_lt in Hp. apply IH; auto; lia.
    + split; [discriminate|]. unfold parse_pointer in Hp.
      destruct (i + 1 <? length b); [|inversion Hp; discriminate].
      destruct (nth_error b i); [|discriminate]. destruct (nth_error b (i + 1)); [|discriminate].
      destruct (cs <=? _); inversion Hp; discriminate.
    + exfalso. eapply parse_pointer_no_panic; eauto.
  - destruct (max_label_len <? len)%N; [split; discriminate|].
    rewrite push_offset_ok by lia.
    destruct (len =? 0)%N eqn:E3.
    + destruct (try_extend wire _); split; discriminate.
    + apply N.eqb_neq in E3.
      destruct (length b <=? i + N.to_nat len + 1) eqn:E4; [split; discriminate|]. apply Nat.leb_gt in E4.
      destruct (try_extend wire _) as [w|] eqn:Ht; [|split; discriminate].
      apply try_extend_inv in Ht. destruct Ht as [-> Hlen].
      assert (Hsl : length (slice b i (i + N.to_nat len + 1)) = N.to_nat len + 1)
        by (rewrite slice_length; lia).
      rewrite Hsl in Hlen.
      apply IH; rewrite ?app_length; cbn [length]; rewrite ?Hsl; lia.
Qed.

(* ---------- top level: parse_compressed_name ---------- *)

Theorem parse_compressed_iff b start nm l : wf_bytes b ->
  (parse_compressed_name b start = Ok (nm, l) <->
   exists ls, decodes_name b start ls l /\ nm = name_of ls).
Proof.
  intros Hwf. unfold parse_compressed_name, decodes_name. split.
  - intros H. apply (pc_sound b Hwf) in H. destruct H as (rest & e & D & -> & Hw & ->).
    exists rest. split; [|reflexivity]. exists e. simpl in Hw. auto.
  - intros (ls & (e & D & -> & Hw) & ->).
    rewrite (pc_complete b Hwf _ _ _ _ D); simpl; auto; unfold pc_fuel; change max_wire_len with 255; lia.
Qed.

Theorem parse_compressed_total b start :
  parse_compressed_name b start <> Panic /\ parse_compressed_name b start <> Err OutOfFuel.
Proof.
  unfold parse_compressed_name. apply pc_total; simpl; unfold pc_fuel; change max_wire_len with 255; lia.
Qed.

Theorem parse_compressed_err b start : wf_bytes b ->
  ~ (exists ls l, decodes_name b start ls l) ->
  exists e, parse_compressed_name b start = Err e /\ e <> OutOfFuel.
Proof.
  intros Hwf Hn. destruct (parse_compressed_total b start) as [Hp Hf].
  destruct (parse_compressed_name b start) as [[nm l]|e|] eqn:E.
  - exfalso. apply Hn. apply (parse_compressed_iff b start nm l Hwf) in E.
    destruct E as (ls & D & _). eauto.
  - exists e. split; auto. intros ->. apply Hf. reflexivity.
  - congruence.
Qed.

(* the pre-fix code panicked exactly when start is out of range *)
Theorem prefix_panics_iff b start :
  parse_compressed_name_prefix b start = Panic <-> length b <= start.
Proof.
  unfold parse_compressed_name_prefix. destruct (nth_error b start) eqn:E.
  - split; intros H.
    + exfalso. destruct (parse_compressed_total b start) as [Hp _]. auto.
    + apply nth_error_Some_lt in E. lia.
  - split; auto. intros _. apply nth_error_None. exact E.
Qed.

(* ---------- uncompressed names ---------- *)

Lemma decodes_nc_end b cs i rest e : decodes b cs i rest e -> cs = 0 ->
  e = i + wire_len rest /\ slice b i e = wire_of rest.
Proof.
  induction 1 as [cs i H | cs i len rest e H Hp Hl Hb Hd IH | cs i hi lo rest e' H Hh Hlo Ht Hd IH];
    intros ->.
  - split; [reflexivity|]. rewrite (slice_cons b i 0%N) by (auto; lia).
    replace (S i) with (i + 1) by lia. rewrite slice_nil. reflexivity.
  - destruct (IH eq_refl) as [-> Hs].
    assert (Hsl : length (slice b (i + 1) (i + 1 + N.to_nat len)) = N.to_nat len)
      by (rewrite slice_length; lia).
    split; [rewrite wire_len_cons, Hsl; lia|].
    pose proof (wire_len_pos rest).
    rewrite (slice_cons b i len) by (auto; lia). replace (S i) with (i + 1) by lia.
    rewrite (slice_app b (i + 1) (i + 1 + N.to_nat len)) by lia.
    rewrite Hs, wire_of_cons, Hsl, N2Nat.id. reflexivity.
  - lia.
Qed.

Lemma unc_complete b : wf_bytes b ->
  forall cs i rest e, decodes b cs i rest e -> cs = 0 ->
  forall fuel offs, e <= 255 -> 2 * length offs <= i -> 256 - i < fuel ->
    unc_loop fuel b i offs = Ok (e, offs ++ offs_of i rest).
Proof.
  intros Hwf cs i rest e D.
  induction D as [cs i H | cs i len rest e H Hp Hl Hb Hd IH | cs i hi lo rest e' H Hh Hlo Ht Hd IH];
    intros -> fuel offs He Ho Hf; [| |lia]; (destruct fuel as [|fuel]; [lia|]); cbn [unc_loop]; rewrite H.
  - change (max_label_len <? 0)%N with false. cbv iota.
    rewrite push_offset_ok by lia. change (N.to_nat 0) with 0. change max_wire_len with 255.
    destruct (255 <? i + 0 + 1) eqn:E; [apply Nat.ltb_lt in E; lia|].
    change (0 =? 0)%N with true. cbv iota. repeat f_equal. lia.
  - change max_label_len with 63%N.
    destruct (63 <? len)%N eqn:E2; [apply N.ltb_lt in E2; lia|].
    pose proof (decodes_end_le _ _ _ _ _ Hd) as [Hlt Hle].
    rewrite push_offset_ok by lia. change max_wire_len with 255.
    destruct (255 <? i + N.to_nat len + 1) eqn:E; [apply Nat.ltb_lt in E; lia|].
    destruct (len =? 0)%N eqn:E3; [apply N.eqb_eq in E3; lia|].
    replace (i + N.to_nat len + 1) with (i + 1 + N.to_nat len) by lia.
    rewrite IH; auto; [|rewrite app_length; cbn [length]; lia|lia].
    rewrite <- app_assoc. cbn [app offs_of]. rewrite slice_length by lia.
    repeat f_equal. lia.
Qed.

Lemma unc_sound b : wf_bytes b ->
  forall fuel i offs e offs', unc_loop fuel b i offs = Ok (e, offs') ->
  exists rest, decodes b 0 i rest e /\ offs' = offs ++ offs_of i rest /\ e <= 255.
Proof.
  intros Hwf fuel; induction fuel as [|fuel IH]; intros i offs e offs' H; [discriminate|].
  cbn [unc_loop] in H. destruct (nth_error b i) as [len|] eqn:Hi; [|discriminate].
  change max_label_len with 63%N in H.
  destruct (63 <? len)%N eqn:E2; [discriminate|]. apply N.ltb_ge in E2.
  destruct (push_offset offs i) as [o|] eqn:Hpush; [|discriminate].
  assert (o = offs ++ [(N.of_nat i mod 256)%N]) as ->.
  { unfold push_offset in Hpush. destruct (max_n_labels <=? length offs); inversion Hpush; auto. }
  change max_wire_len with 255 in H.
  destruct (255 <? i + N.to_nat len + 1) eqn:E; [discriminate|]. apply Nat.ltb_ge in E.
  destruct (len =? 0)%N eqn:E3.
  - apply N.eqb_eq in E3; subst len. inversion H; subst.
    exists []. change (N.to_nat 0) with 0 in *. replace (i + 0 + 1) with (i + 1) in * by lia.
    split; [constructor; auto|]. split; [reflexivity|lia].
  - apply N.eqb_neq in E3. apply IH in H. destruct H as (rest & D & -> & He).
    replace (i + N.to_nat len + 1) with (i + 1 + N.to_nat len) in * by lia.
    pose proof (decodes_end_le _ _ _ _ _ D) as [Hlt Hle].
    exists (slice b (i + 1) (i + 1 + N.to_nat len) :: rest).
    split; [apply dec_label; auto; lia|]. split; [|exact He].
    rewrite <- app_assoc. cbn [app offs_of]. rewrite slice_length by lia. repeat f_equal. lia.
Qed.

Lemma unc_total b : forall fuel i offs, 2 * length offs <= i -> i <= 255 -> 256 - i < fuel ->
  unc_loop fuel b i offs <> Panic /\ unc_loop fuel b i offs <> Err OutOfFuel.
Proof.
  induction fuel as [|fuel IH]; intros i offs Ho Hi Hf; [lia|].
  cbn [unc_loop]. destruct (nth_error b i) as [len|]; [|split; discriminate].
  destruct (max_label_len <? len)%N; [split; discriminate|].
  change max_wire_len with 255.
  rewrite push_offset_ok by lia.
  destruct (255 <? i + N.to_nat len + 1) eqn:E; [split; discriminate|]. apply Nat.ltb_ge in E.
  destruct (len =? 0)%N eqn:E3; [split; discriminate|]. apply N.eqb_neq in E3.
  apply IH; [rewrite app_length; cbn [length]; lia|lia|lia].
Qed.

Lemma val_unc b : forall fuel i offs, 2 * length offs <= i -> i <= 255 ->
  val_loop fuel b i = map_ok fst (unc_loop fuel b i offs).
Proof.
  induction fuel as [|fuel IH]; intros i offs Ho Hi; [reflexivity|].
  cbn [unc_loop val_loop]. destruct (nth_error b i) as [len|]; [|reflexivity].
  destruct (max_label_len <? len)%N; [reflexivity|].
  rewrite push_offset_ok by lia. change max_wire_len with 255.
  destruct (255 <? i + N.to_nat len + 1) eqn:E; [reflexivity|]. apply Nat.ltb_ge in E.
  destruct (len =? 0)%N eqn:E3; [reflexivity|]. apply N.eqb_neq in E3.
  apply IH; [rewrite app_length; cbn [length]; lia|lia].
Qed.

Theorem parse_uncompressed_iff b all nm l : wf_bytes b ->
  (parse_uncompressed_name b all = Ok (nm, l) <->
   exists ls, decodes_uncompressed b ls l /\ nm = name_of ls /\ (all = true -> l = length b)).
Proof.
  intros Hwf. unfold parse_uncompressed_name, decodes_uncompressed. split.
  - intros H. destruct (unc_loop unc_fuel b 0 []) as [[e offs]| |] eqn:Hu; try discriminate.
    cbn [bind] in H. apply (unc_sound b Hwf) in Hu. destruct Hu as (rest & D & -> & He).
    destruct (decodes_nc_end _ _ _ _ _ D eq_refl) as [Hlen Hs]. simpl in Hlen.
    pose proof (decodes_end_le _ _ _ _ _ D) as [_ Hle].
    destruct (all && (e <? length b)) eqn:Ha; [discriminate|]. inversion H; subst l nm.
    exists rest. split; [split; [exact D|lia]|]. split.
    + unfold name_of. f_equal. rewrite <- slice_0. exact Hs.
    + intros ->. simpl in Ha. apply Nat.ltb_ge in Ha. lia.
  - intros (ls & (D & Hw) & -> & Hall).
    destruct (decodes_nc_end _ _ _ _ _ D eq_refl) as [Hlen Hs]. simpl in Hlen.
    assert (Hl255 : l <= 255) by lia.
    rewrite (unc_complete b Hwf _ _ _ _ D eq_refl unc_fuel [] Hl255);
      [|simpl; lia|unfold unc_fuel; change max_wire_len with 255; lia].
    cbn [bind app].
    destruct (all && (l <? length b)) eqn:Ha.
    + apply andb_true_iff in Ha. destruct Ha as [-> Hlt]. apply Nat.ltb_lt in Hlt.
      specialize (Hall eq_refl). lia.
    + unfold name_of. simpl. rewrite <- slice_0, Hs. reflexivity.
Qed.

Theorem parse_uncompressed_total b all :
  parse_uncompressed_name b all <> Panic /\ parse_uncompressed_name b all <> Err OutOfFuel.
Proof.
  unfold parse_uncompressed_name.
  assert (A1 : 2 * length (@nil N) <= 0) by (cbn [length]; lia).
  assert (A2 : 0 <= 255) by lia.
  assert (A3 : 256 - 0 < unc_fuel) by (unfold unc_fuel; change max_wire_len with 255; lia).
  destruct (unc_total b unc_fuel 0 [] A1 A2 A3) as [Hp Hf].
  destruct (unc_loop unc_fuel b 0 []) as [[e offs]|e|]; cbn [bind]; try congruence.
  - destruct (all && (e <? length b)); split; discriminate.
  - split; congruence.
Qed.

Theorem validate_agrees b all :
  validate_uncompressed_name b all = map_ok snd (parse_uncompressed_name b all).
Proof.
  unfold validate_uncompressed_name, parse_uncompressed_name.
  rewrite (val_unc b unc_fuel 0 []) by (simpl; lia).
  destruct (unc_loop unc_fuel b 0 []) as [[e offs]|e|]; cbn [bind map_ok fst]; try reflexivity.
  destruct (all && (e <? length b)); reflexivity.
Qed.

(* ---------- skip_compressed_name ---------- *)

Lemma skip_complete b : wf_bytes b ->
  forall cs i rest e, decodes b cs i rest e ->
  forall start fuel, start <= i -> (i - start) + wire_len rest <= 255 -> 256 - (i - start) < fuel ->
    skip_loop fuel (skipn start b) (i - start) = Ok (e - start).
Proof.
  intros Hwf cs i rest e D.
  induction D as [cs i H | cs i len rest e H Hp Hl Hb Hd IH | cs i hi lo rest e' H Hh Hlo Ht Hd IH];
    intros start fuel Hs Hw Hf; (destruct fuel as [|fuel]; [lia|]); cbn [skip_loop];
    rewrite nth_error_skipn; replace (start + (i - start)) with i by lia; rewrite H.
  - rewrite is_pointer_octet_0. change (max_label_len <? 0)%N with false. change (0 =? 0)%N with true.
    cbv iota. unfold skip_fin. change max_wire_len with 255.
    unfold wire_len, wire_of in Hw. simpl in Hw.
    destruct (255 <? i - start + 1) eqn:E; [apply Nat.ltb_lt in E; lia|]. f_equal. lia.
  - pose proof (nth_error_Forall _ _ _ _ Hwf H) as Hoct. unfold is_octet in Hoct.
    rewrite is_pointer_octet_spec by exact Hoct.
    destruct (192 <=? len)%N eqn:E1; [apply N.leb_le in E1; lia|].
    change max_label_len with 63%N.
    destruct (63 <? len)%N eqn:E2; [apply N.ltb_lt in E2; lia|].
    destruct (len =? 0)%N eqn:E3; [apply N.eqb_eq in E3; lia|].
    rewrite wire_len_cons, slice_length in Hw by lia. pose proof (wire_len_pos rest).
    change max_wire_len with 255.
    destruct (255 <? i - start + 1 + N.to_nat len) eqn:E; [apply Nat.ltb_lt in E; lia|].
    replace (i - start + 1 + N.to_nat len) with (i + 1 + N.to_nat len - start) by lia.
    apply IH; lia.
  - pose proof (nth_error_Forall _ _ _ _ Hwf H) as Hoct. unfold is_octet in Hoct.
    rewrite is_pointer_octet_spec by exact Hoct.
    destruct (192 <=? hi)%N eqn:E1; [|apply N.leb_gt in E1; lia].
    unfold skip_fin. change max_wire_len with 255. pose proof (wire_len_pos rest).
    destruct (255 <? i - start + 1) eqn:E; [apply Nat.ltb_lt in E; lia|]. f_equal. lia.
Qed.

Theorem skip_agrees b start nm l : wf_bytes b ->
  parse_compressed_name b start = Ok (nm, l) ->
  skip_compressed_name (skipn start b) = Ok l.
Proof.
  intros Hwf H. apply (parse_compressed_iff b start nm l Hwf) in H.
  destruct H as (ls & (e & D & -> & Hw) & _).
  unfold skip_compressed_name.
  pose proof (skip_complete b Hwf _ _ _ _ D start unc_fuel) as S.
  rewrite Nat.sub_diag in S. apply S; try lia.
  unfold unc_fuel. change max_wire_len with 255. lia.
Qed.

Lemma skip_total b : forall fuel i, 256 - i < fuel ->
  skip_loop fuel b i <> Panic /\ skip_loop fuel b i <> Err OutOfFuel.
Proof.
  induction fuel as [|fuel IH]; intros i Hf; [lia|]. cbn [skip_loop].
  destruct (nth_error b i) as [len|]; [|split; discriminate].
  unfold skip_fin.
  destruct (is_pointer_octet len); [destruct (max_wire_len <? i + 1); split; discriminate|].
  destruct (max_label_len <? len)%N; [split; discriminate|].
  destruct (len =? 0)%N eqn:E3; [destruct (max_wire_len <? i + 1); split; discriminate|].
  apply N.eqb_neq in E3. change max_wire_len with 255.
  destruct (255 <? i + 1 + N.to_nat len) eqn:E; [split; discriminate|]. apply Nat.ltb_ge in E.
  apply IH. lia.
Qed.

Theorem skip_compressed_total b :
  skip_compressed_name b <> Panic /\ skip_compressed_name b <> Err OutOfFuel.
Proof. apply skip_total. unfold unc_fuel. change max_wire_len with 255. lia. Qed.
