(* Names and fixed fields inside RDATA: what the query model's readers (read_name_from_rdata,
   name_from_all, read_soa_minimum, Ttl::from) return, in terms of the independent decoders of
   Spec/ResolveS.v (which are the C14 specification decoder). *)
From QV Require Import Base.ListX Model.NameWire Spec.NameWireS Spec.NameRepr
  Proofs.NameWireP Proofs.NameWireSP Spec.RdataFormatS Proofs.RdNameP
  Gen.QueryConsts Model.ZoneTree Spec.ZoneLookupS Model.Query Spec.ResolveS.
Local Open Scope nat_scope.

Lemma q_wire_labels_lwire ls : Forall valid_label ls -> forall fuel rest,
  length (lwire ls) < fuel -> q_wire_labels fuel (lwire ls ++ 0%N :: rest) = ls.
Proof.
  induction 1 as [|l ls Hl Hls IH]; intros fuel rest Hf.
  - destruct fuel; [simpl in Hf; lia|]. reflexivity.
  - destruct fuel; [lia|].
    change (lwire (l :: ls)) with ((N.of_nat (length l) :: l) ++ lwire ls) in *.
    rewrite app_length in Hf. cbn [length] in Hf.
    cbn [app q_wire_labels]. destruct Hl as [H1 H2].
    destruct (N.eqb_spec (N.of_nat (length l)) 0) as [E|E]; [lia|].
    rewrite Nat2N.id. rewrite <- app_assoc.
    rewrite firstn_app_exact by reflexivity. rewrite skipn_app_exact by reflexivity.
    f_equal. apply IH. lia.
Qed.

Lemma labels_of_name_of ls : Forall valid_label ls -> labels_of (name_of ls) = ls.
Proof.
  intros H. unfold labels_of, name_of. cbn [n_wire]. unfold wire_of.
  apply q_wire_labels_lwire; auto. rewrite app_length. simpl. lia.
Qed.

(* Name::try_from_uncompressed_all against the spec decoder *)
Lemma name_from_all_spec w : wf_bytes w ->
  match name_from_all w with
  | Ok (Some (n, wire)) => name_of_wire w = Some n /\ wire = w /\ w <> []
  | Ok None => name_of_wire w = None
  | _ => False
  end.
Proof.
  intros Hwf. unfold name_from_all. destruct (parse_uncompressed_total w true) as [Hp Hf].
  destruct (parse_uncompressed_name w true) as [[nm l]|e|] eqn:E; [| |congruence].
  - apply (parse_uncompressed_iff w true nm l Hwf) in E. destruct E as (ls & D & -> & Hl).
    specialize (Hl eq_refl). subst l.
    pose proof D as D'. apply decodes_unc_gen in D'. destruct D' as ((Hv & Hw) & Hlen & Hb).
    rewrite skipn_all in Hb. rewrite app_nil_r in Hb.
    assert (S : spec_decode_name w 0 = Some (ls, length w)).
    { apply spec_decode_name_iff. apply decodes_name0_unc. exact D. }
    unfold name_of_wire. rewrite S, Nat.eqb_refl. rewrite labels_of_name_of by exact Hv.
    split; [reflexivity|]. split; [cbn [name_of n_wire]; congruence|].
    rewrite Hb. unfold wire_of. destruct (lwire ls); discriminate.
  - unfold name_of_wire. destruct (spec_decode_name w 0) as [[ls l]|] eqn:S; [|reflexivity].
    destruct (l =? length w) eqn:L; [|reflexivity]. exfalso. apply Nat.eqb_eq in L. subst l.
    apply spec_decode_name_iff, decodes_name0_unc in S.
    assert (P : parse_uncompressed_name w true = Ok (name_of ls, length w)).
    { apply (parse_uncompressed_iff w true _ _ Hwf). exists ls. auto. }
    congruence.
Qed.

Lemma wf_skipn (l : bytes) k : wf_bytes l -> wf_bytes (skipn k l).
Proof.
  unfold wf_bytes. rewrite !Forall_forall. intros H x Hx. apply H.
  rewrite <- (firstn_skipn k l). apply in_or_app. right. exact Hx.
Qed.

Lemma read_name_spec rd off : wf_bytes rd ->
  match read_name_from_rdata rd off with
  | Ok n => rdata_name rd off = Some n
  | Err e => e = PServFail /\ rdata_name rd off = None
  | Panic => False
  end.
Proof.
  intros Hwf. unfold read_name_from_rdata, rdata_name.
  destruct (length rd <? off); [auto|].
  pose proof (name_from_all_spec (skipn off rd) (wf_skipn rd off Hwf)) as H.
  destruct (name_from_all (skipn off rd)) as [[[n wire]|]|e|]; try contradiction.
  - destruct H as [H _]. exact H.
  - auto.
Qed.

(* the SOA MINIMUM field *)
Lemma skipn_skipn' {A} (l : list A) a b : skipn a (skipn b l) = skipn (b + a) l.
Proof.
  revert l. induction b as [|b IH]; intros l; [reflexivity|].
  destruct l; [rewrite !skipn_nil; reflexivity|]. simpl. apply IH.
Qed.

Lemma be32_u32 l : length l = 4 -> u32_of l = Some (be32_value l).
Proof.
  destruct l as [|a [|b [|c [|d [|x l]]]]]; simpl; intros H; try discriminate.
  f_equal. lia.
Qed.

Lemma soa_minimum_spec rd : wf_bytes rd ->
  match read_soa_minimum rd with
  | Ok m => soa_minimum rd = Some m
  | Err e => e = PServFail /\ soa_minimum rd = None
  | Panic => False
  end.
Proof.
  intros Hwf. unfold read_soa_minimum, soa_minimum.
  pose proof (vun_spec rd Hwf) as H1. unfold sname in H1.
  destruct (validate_uncompressed_name rd false) as [l1|e1|]; [| |contradiction].
  2:{ destruct H1 as [H1 _]. destruct (spec_decode_name rd 0) as [[? ?]|]; [discriminate|auto]. }
  destruct H1 as (H1 & H1a & H1b).
  destruct (spec_decode_name rd 0) as [[ls1 l1']|]; [|discriminate]. inversion H1; subst l1'.
  destruct (length rd <? l1) eqn:L1; [apply Nat.ltb_lt in L1; lia|].
  pose proof (vun_spec (skipn l1 rd) (wf_skipn rd l1 Hwf)) as H2. unfold sname in H2.
  destruct (validate_uncompressed_name (skipn l1 rd) false) as [l2|e2|]; [| |contradiction].
  2:{ destruct H2 as [H2 _]. destruct (spec_decode_name (skipn l1 rd) 0) as [[? ?]|]; [discriminate|auto]. }
  destruct H2 as (H2 & H2a & H2b).
  destruct (spec_decode_name (skipn l1 rd) 0) as [[ls2 l2']|]; [|discriminate]. inversion H2; subst l2'.
  change SOA_MINIMUM_OFFSET with 16.
  rewrite skipn_length in H2b.
  rewrite skipn_skipn'. rewrite !skipn_length.
  destruct (length rd <? l1 + l2 + 16) eqn:L2.
  - apply Nat.ltb_lt in L2. destruct (length rd - (l1 + l2) =? 20) eqn:L3; [apply Nat.eqb_eq in L3; lia|auto].
  - apply Nat.ltb_ge in L2.
    destruct (length rd - (l1 + l2 + 16) =? 4) eqn:L4.
    + apply Nat.eqb_eq in L4.
      assert (L3 : length rd - (l1 + l2) = 20) by lia. rewrite L3. cbn [Nat.eqb].
      apply be32_u32. rewrite skipn_length. exact L4.
    + apply Nat.eqb_neq in L4.
      destruct (length rd - (l1 + l2) =? 20) eqn:L3; [apply Nat.eqb_eq in L3; lia|auto].
Qed.

Lemma ttl_from_value m : q_ttl_from m = ttl_value m.
Proof.
  unfold q_ttl_from, ttl_value.
  destruct (N.ltb_spec 2147483647 m), (N.leb_spec 2147483648 m); auto; lia.
Qed.

(* Name == Name is equality of the lower-cased label lists *)
Lemma zname_eqb_lc a b : zname_eqb a b = name_eqb (lc a) (lc b).
Proof.
  unfold zname_eqb. revert b. induction a as [|x a IH]; intros [|y b]; simpl; auto.
  specialize (IH b). destruct (length a =? length b) eqn:L.
  - cbn [andb] in IH |- *. rewrite IH. unfold label_eqb, lower_label.
    assert (E : forall p q, ZoneTree.bytes_eqb p q = octets_eqb p q).
    { induction p; destruct q; simpl; auto; try (rewrite IHp; reflexivity). }
    rewrite E. reflexivity.
  - cbn [andb] in IH |- *. rewrite <- IH. symmetry. apply andb_false_r.
Qed.
