(* The inductive invariant of the LTS of Model/Pool.v (repaired worker loop) and the
   tactics that reduce its preservation to linear arithmetic over weighted sums. *)
From Coq Require Import Lia Permutation.
From QV Require Export Model.Pool Spec.PoolS Proofs.PoolLemmas.

Definition is_counted (p : pc) : bool := match p with WWait _ | WWoken _ _ => true | _ => false end.
Definition is_wwoken (p : pc) : bool := match p with WWoken _ _ => true | _ => false end.
Definition is_rwait (p : pc) : bool := match p with RWait => true | _ => false end.
Definition is_awwait (p : pc) : bool := match p with AwWait => true | _ => false end.
Definition is_ghold (p : pc) : bool := match p with GHold | QMid => true | _ => false end.   (* holds the group lock *)
Definition is_gh (p : pc) : bool := match p with GHold => true | _ => false end.     (* inside ThreadGroup::shut_down *)
Definition is_qmid (p : pc) : bool := match p with QMid => true | _ => false end.
Definition is_awret (p : pc) : bool := match p with AwRet => true | _ => false end.
Definition occ (l : list nat) (t : nat) : nat := count_occ Nat.eq_dec l t.
Definition occ_run (t : nat) (p : pc) : nat := occ (run_of p) t.
Arguments occ : simpl never.

Record Inv (s : state) : Prop := mkInv {
  i_crash : crashed s = false;
  i_live : tcount s = cnt is_live (thr s);
  i_cnt_le : cnt is_counted (thr s) <= avail s;
  i_cnt_eq : psd s = false -> avail s = cnt is_counted (thr s);
  i_queue : length (queue s) <= cnt is_wwoken (thr s);
  i_tasks : forall t, occ (queue s) t + sumf (occ_run t) (thr s) + occ (done s) t = b2n (t <? next s);
  i_started : forall t, occ (started s) t = sumf (occ_run t) (thr s) + occ (done s) t;
  i_glock : cnt is_ghold (thr s) = b2n (glock s);
  i_psd_w : psd s = true -> cnt on_task (thr s) = 0 /\ cnt on_avail (thr s) = 0;
  i_gsd_w : gsd s = true -> cnt is_gh (thr s) = 0 ->
            cnt is_rwait (thr s) = 0 /\ (tcount s = 0 -> cnt is_awwait (thr s) = 0);
  i_reg : reg s = false -> psd s = true \/ glock s = true;
  i_gsd_reg : gsd s = true -> reg s = false;
  i_awret : 1 <= cnt is_awret (thr s) -> gsd s = true /\ tcount s = 0
}.

(* ---- tactics ------------------------------------------------------------------------ *)

Lemma occ_app l1 l2 t : occ (l1 ++ l2) t = occ l1 t + occ l2 t.
Proof. apply count_occ_app. Qed.

Lemma occ_cons x l t : occ (x :: l) t = b2n (x =? t) + occ l t.
Proof.
  unfold occ; simpl. destruct (Nat.eq_dec x t) as [->|N].
  - rewrite Nat.eqb_refl; reflexivity.
  - apply Nat.eqb_neq in N; rewrite N; reflexivity.
Qed.

Lemma occ_nil t : occ [] t = 0.
Proof. reflexivity. Qed.

Lemma occ_run_run t k t0 : occ_run t (WRun k t0) = b2n (t0 =? t).
Proof. unfold occ_run; simpl run_of; rewrite occ_cons, occ_nil; lia. Qed.

(* eliminate [sumf w (upd i q l)] using a hypothesis [nth_error l i = Some p] *)
Ltac elim_upd :=
  repeat match goal with
  | E : nth_error ?l ?i = Some ?p |- context [sumf ?w (upd ?i ?q ?l)] =>
    let U := fresh "U" in
    pose proof (sumf_upd w l i p q E) as U; cbn beta in U;
    generalize dependent (sumf w (upd i q l)); intros
  | E : nth_error ?l ?i = Some ?p, H : context [sumf ?w (upd ?i ?q ?l)] |- _ =>
    let U := fresh "U" in
    pose proof (sumf_upd w l i p q E) as U; cbn beta in U;
    generalize dependent (sumf w (upd i q l)); intros
  end.

Ltac elim_snoc := rewrite ?sumf_snoc.

(* eliminate [sumf w l'] where [Hw : forall w, sumf w l' + w p = sumf w l + w (wake p)] *)
Ltac elim_woken l' Hw :=
  repeat match goal with
  | |- context [sumf ?w l'] =>
    let U := fresh "V" in
    pose proof (Hw w) as U; cbn beta in U;
    generalize dependent (sumf w l'); intros
  | H : context [sumf ?w l'] |- _ =>
    lazymatch type of H with
    | forall _, _ => fail
    | _ => let U := fresh "V" in
           pose proof (Hw w) as U; cbn beta in U;
           generalize dependent (sumf w l'); intros
    end
  end.

Ltac b2n_cases :=
  repeat match goal with
  | |- context [b2n (?a <? ?b)] => destruct (Nat.ltb_spec a b)
  | H : context [b2n (?a <? ?b)] |- _ => destruct (Nat.ltb_spec a b)
  | |- context [b2n (?a =? ?b)] => destruct (Nat.eqb_spec a b)
  | H : context [b2n (?a =? ?b)] |- _ => destruct (Nat.eqb_spec a b)
  | |- context [b2n (glock ?s)] => destruct (glock s) eqn:?
  | H : context [b2n (glock ?s)] |- _ => destruct (glock s) eqn:?
  | |- context [if glock ?s then _ else _] => destruct (glock s) eqn:?
  | H : context [if glock ?s then _ else _] |- _ => destruct (glock s) eqn:?
  | |- context [if Nat.eq_dec ?a ?b then _ else _] => destruct (Nat.eq_dec a b)
  | H : context [if Nat.eq_dec ?a ?b then _ else _] |- _ => destruct (Nat.eq_dec a b)
  end; unfold b2n in *.

Ltac spec_t HT HS :=
  match goal with
  | |- forall t : nat, _ => let t := fresh "t" in intro t; specialize (HT t); specialize (HS t)
  | _ => idtac
  end.

(* discharge the premises of implications among the hypotheses when they are provable *)
Ltac use_imps :=
  repeat match goal with
  | H : ?A -> _ |- _ =>
    match type of A with
    | Prop => let HA := fresh in
              assert (HA : A) by (first [assumption | lia | congruence]);
              specialize (H HA); clear HA
    end
  end.

Ltac fin :=
  try match goal with Eq : queue _ = _ |- _ => rewrite Eq in * end;
  repeat match goal with
  | Eb : glock ?s = ?v |- _ => progress (rewrite Eb in * )
  end;
  unfold occ_run in *; simpl in *; rewrite ?occ_app, ?occ_cons, ?occ_nil, ?app_length in *; simpl in *;
  use_imps; b2n_cases; use_imps; intuition (try congruence; try lia).

Lemma cnt_wwoken_na_task l : cnt is_wwoken (notify_all on_task l) = cnt is_wwoken l + cnt on_task l.
Proof.
  rewrite sumf_na, <- sumf_plus. apply sumf_ext. intros []; reflexivity.
Qed.

Ltac na_side :=
  let p := fresh "p" in
  intros p; destruct p; unfold occ_run; simpl; intros; try discriminate; try reflexivity.

(* eliminate [sumf w (notify_all g l)] *)
Ltac elim_na :=
  repeat match goal with
  | |- context [sumf ?w (notify_all ?g ?l)] =>
    first [ rewrite (sumf_na_same w g l) by na_side
          | rewrite (sumf_na_zero w g l) by na_side
          | rewrite (cnt_wwoken_na_task l) ]
  | H : context [sumf ?w (notify_all ?g ?l)] |- _ =>
    first [ rewrite (sumf_na_same w g l) in H by na_side
          | rewrite (sumf_na_zero w g l) in H by na_side
          | rewrite (cnt_wwoken_na_task l) in H ]
  end.

Ltac elim_all := repeat (progress (elim_na; rewrite ?sumf_snoc in *; elim_upd)).

(* [Inv] of an explicit successor state, from the fields of [Inv s] in the context *)
Ltac inv_case HT HS :=
  constructor; simpl; spec_t HT HS; intros; elim_all; fin.

(* what thread i's pc contributes to the sums of the invariant *)
Ltac nth_facts E :=
  pose proof (sumf_nth_le (fun p => b2n (is_live p)) _ _ _ E);
  pose proof (sumf_nth_le (fun p => b2n (is_counted p)) _ _ _ E);
  pose proof (sumf_nth_le (fun p => b2n (is_wwoken p)) _ _ _ E);
  pose proof (sumf_nth_le (fun p => b2n (is_ghold p)) _ _ _ E);
  cbn beta in *.

Lemma cnt_counted_split l : cnt is_counted l = cnt on_task l + cnt is_wwoken l.
Proof.
  rewrite <- sumf_plus. apply sumf_ext. intros []; reflexivity.
Qed.

Ltac open_inv I :=
  destruct I as [Hcr Hlv Hcl Hce Hq HT HS Hgl Hpw Hgw Hrg Hgr Har];
  match goal with s : state |- _ => pose proof (cnt_counted_split (thr s)) as Hsplit end.

