(* The numbers of the server model's abstract Writer when query answering starts.
   For a request that passes the pre-processing as a clean QUERY without TSIG, the response under
   construction satisfies the full invariant [srv_inv] (so available + reservation = limit, 512 <= limit
   <= buffer) and its cursor is exactly 12 + the question's size: nothing but the question has been
   written.  (Proofs/ServerP.v keeps [srv_inv] only up to the last additional record; here it is carried
   through it.) *)
From QV Require Import Base.ListX Model.NameWire Model.Reader Model.RdataLite Model.Server
  Proofs.NameWireP Proofs.ReaderP Proofs.RdataLiteP Proofs.ServerP.
Local Open Scope nat_scope.

(* cursor and buffer never change; the limit changes only by the EDNS negotiation over UDP *)
Definition keepc (cfg : config) (w w' : resp) : Prop :=
  w_cursor w' = w_cursor w /\ w_buflen w' = w_buflen w /\
  (w_edns w' = None -> w_limit w' = w_limit w /\ w_edns w = None) /\
  (c_transport cfg = Tcp -> w_limit w' = w_limit w).

Lemma keepc_refl cfg w : keepc cfg w w.
Proof. repeat split; auto. Qed.

Lemma keepc_trans cfg a b c : keepc cfg a b -> keepc cfg b c -> keepc cfg a c.
Proof.
  intros (A1 & A2 & A3 & A4) (B1 & B2 & B3 & B4). split; [congruence|]. split; [congruence|]. split.
  - intros X. destruct (B3 X) as [Y1 Y2]. destruct (A3 Y2) as [Z1 Z2]. split; congruence.
  - intros T. rewrite (B4 T). apply A4. exact T.
Qed.

Lemma set_edns_keepc cfg w sz w' : set_edns w sz = Ok w' -> keepc cfg w w'.
Proof.
  unfold set_edns. destruct (w_edns w); [discriminate|]. destruct (_ <? _); [discriminate|].
  destruct (_ <=? _)%N; [discriminate|]. intros H; inv H. repeat split; simpl; auto; discriminate.
Qed.

Lemma set_limit_same w l w' : set_limit w l = Ok w' ->
  w_cursor w' = w_cursor w /\ w_buflen w' = w_buflen w /\ w_edns w' = w_edns w.
Proof.
  unfold set_limit. destruct (_ <=? _).
  - destruct (_ <? _); [discriminate|]. intros H; inv H. auto.
  - destruct (_ <? _); [discriminate|]. destruct (_ <? _); [discriminate|]. destruct (_ <? _); [discriminate|].
    intros H; inv H. auto.
Qed.

(* the limit negotiation keeps the invariant (the argument of process_additional_facts, as a lemma) *)
Lemma set_limit_inv cfg w1 their w2 : wf_cfg cfg -> c_transport cfg = Udp -> srv_inv cfg true w1 ->
  set_limit w1 (N.to_nat (N.max 512 (N.min their (c_edns_size cfg)))) = Ok w2 -> srv_inv cfg true w2.
Proof.
  intros Hcfg Tr I1 H. destruct Hcfg as (H512 & H64k & Hbuf). rewrite Tr in Hbuf.
  destruct I1 as (A1 & B1' & C1' & D1 & E1' & F1 & G1 & H1 & J1).
  set (neg := N.to_nat (N.max 512 (N.min their (c_edns_size cfg)))) in *.
  assert (Hneg : 512 <= neg /\ neg <= N.to_nat (c_edns_size cfg)) by (unfold neg; lia).
  assert (Er : reserved w1 = 11).
  { unfold reserved. destruct (w_edns w1); auto. exfalso. apply (proj1 B1' eq_refl). reflexivity. }
  rewrite Er in G1. unfold set_limit in H.
  destruct (w_limit w1 <=? neg) eqn:Br.
  - apply Nat.leb_le in Br.
    destruct (Nat.min neg (w_buflen w1) <? w_limit w1) eqn:Y; [discriminate|]. apply Nat.ltb_ge in Y. inv H.
    unfold srv_inv, edns_ok, reserved in *; simpl. repeat split; auto; try lia.
    all: try solve [apply B1' | intros _; reflexivity | destruct (w_edns w1); lia].
  - apply Nat.leb_gt in Br.
    destruct (w_cursor w1 + w_limit w1 <? w_avail w1) eqn:Y1; [discriminate|].
    destruct (w_limit w1 <? Nat.max neg (w_cursor w1 + w_limit w1 - w_avail w1)) eqn:Y2; [discriminate|].
    destruct (w_avail w1 <? w_limit w1 - Nat.max neg (w_cursor w1 + w_limit w1 - w_avail w1)) eqn:Y3; [discriminate|].
    apply Nat.ltb_ge in Y1, Y2, Y3. inv H.
    unfold srv_inv, edns_ok, reserved in *; simpl. repeat split; auto; try lia.
    all: try solve [apply B1' | intros _; reflexivity | destruct (w_edns w1); lia].
Qed.

Lemma tsig_or_truncate_tsig w t : snd (set_tsig_or_truncate w t) = true -> w_tsig (fst (set_tsig_or_truncate w t)) <> None.
Proof.
  unfold set_tsig_or_truncate. destruct (set_tsig w t) as [w'|e|] eqn:E; cbn [fst snd]; try discriminate. intros _.
  unfold set_tsig in E. destruct (w_tsig w); [discriminate|]. destruct (_ <? _); [discriminate|].
  destruct (_ <=? _)%N; [discriminate|]. inv E. simpl. discriminate.
Qed.

(* one additional record that lets processing continue, without a TSIG: the invariant is kept, the cursor untouched *)
Lemma pa_continue_inv verify cfg r w seen last r' w' seen' : wf_cfg cfg -> rinv r -> srv_inv cfg seen w ->
  process_additional verify cfg r w seen last = Ok (r', Continue w', seen') -> w_tsig w' = None ->
  srv_inv cfg seen' w' /\ keepc cfg w w'.
Proof.
  intros Hcfg Hinv I H Hts. unfold process_additional, peek_rr in H.
  destruct (peek_core r) as [p|e|] eqn:P; [|inv H|discriminate].
  destruct (peek_type r p) as [ty|e|]; cbn [bind] in H; try discriminate.
  destruct (ty =? TYPE_OPT)%N.
  - destruct seen; [inv H|].
    destruct (set_edns_ok cfg w I) as (w1 & E1 & _ & I1 & _). rewrite E1 in H.
    pose proof (set_edns_keepc cfg _ _ _ E1) as K1.
    destruct (peek_raw_ttl r p) as [raw|e|]; cbn [bind] in H; try discriminate.
    destruct (peek_parse rd_lite r p) as [r0 x]. destruct x as [opt_rr|e|]; [|inv H|discriminate].
    destruct (c_transport cfg) eqn:Tr.
    + cbn [bind] in H. destruct (validate_opt _ _); [destruct (set_extended_rcode _ _); try discriminate; inv H|].
      inv H. split; [exact I1|exact K1].
    + destruct (c_edns_size cfg <? 512)%N; [discriminate|].
      destruct (set_limit w1 _) as [w2|e|] eqn:SL; cbn [bind] in H; try discriminate.
      destruct (validate_opt _ _); [destruct (set_extended_rcode _ _); try discriminate; inv H|].
      inv H. assert (I2 : srv_inv cfg true w') by (eapply set_limit_inv; eauto). split; [exact I2|].
      destruct K1 as (K1 & K2 & _ & _). destruct (set_limit_same _ _ _ SL) as (L1 & L2 & L3).
      split; [congruence|]. split; [congruence|]. split; [|intros T; congruence].
      intros X. exfalso. destruct I2 as (_ & Bs & _). apply (proj1 Bs eq_refl). exact X.
  - destruct (ty =? TYPE_TSIG)%N.
    + exfalso. destruct last; cbn [negb] in H; [|inv H].
      repeat (first [bm_hyp H | bb_hyp H]; try discriminate); inv H.
      match goal with E : snd (set_tsig_or_truncate ?a ?b) = true |- _ => exact (tsig_or_truncate_tsig a b E Hts) end.
    + inv H. split; [exact I|apply keepc_refl].
Qed.

Lemma scan_additional_continue_inv verify cfg : wf_cfg cfg -> forall n r w seen r' w',
  rinv r -> srv_inv cfg seen w ->
  scan_additional verify cfg n r w seen = Ok (r', Continue w') -> w_tsig w' = None ->
  (exists seen', srv_inv cfg seen' w') /\ keepc cfg w w'.
Proof.
  intros Hcfg. induction n as [|n IH]; intros r w seen r' w' Hinv I H Hts; cbn [scan_additional] in H.
  - inv H. split; [eauto|apply keepc_refl].
  - destruct (process_additional_facts verify cfg r w seen (n =? 0) Hcfg Hinv I) as (r1 & s1 & seen1 & E & Hinv1 & RO).
    rewrite E in H. cbn [bind] in H. destruct s1 as [w1|w1|]; [|inv H|inv H].
    assert (Hts1 : w_tsig w1 = None).
    { cbn [result_ok] in RO. destruct RO as (_ & [I1|L1] & _); [destruct I1 as (_ & _ & X & _); exact X|].
      apply Nat.eqb_eq in L1. subst n. cbn [scan_additional] in H. inv H. exact Hts. }
    destruct (pa_continue_inv verify cfg r w seen (n =? 0) r1 w1 seen1 Hcfg Hinv I E Hts1) as [I1 K1].
    destruct (IH r1 w1 seen1 r' w' Hinv1 I1 H Hts) as [I2 K2]. split; [exact I2|].
    eapply keepc_trans; eauto.
Qed.

Lemma scan_an_ns_continue n : forall r w r' w', scan_an_ns n r w = Ok (r', Continue w') -> w' = w.
Proof.
  intros r w r' w' H. destruct (scan_an_ns_reader _ _ _ _ _ H) as [[X _]|[X _]]; [inv X; reflexivity|discriminate].
Qed.

Lemma prescan_rest_clean_inv verify cfg r1 w1 o w : wf_cfg cfg -> rinv r1 -> srv_inv cfg false w1 ->
  prescan_rest verify cfg r1 w1 = Ok (PClean o w) -> w_tsig w = None ->
  (exists seen, srv_inv cfg seen w) /\ keepc cfg w1 w.
Proof.
  intros Hcfg Hinv1 I1 H Hts. unfold prescan_rest in H. cbv zeta in H.
  destruct (rd_ancount (rd_mark r1)) as [an|e|]; cbn [bind] in H; try discriminate.
  destruct (rd_nscount (rd_mark r1)) as [ns|e|]; cbn [bind] in H; try discriminate.
  destruct (scan_an_ns_facts (N.to_nat an + N.to_nat ns) (rd_mark r1) w1 (rd_mark_inv r1 Hinv1)) as (r2 & s2 & E2 & Hinv2 & _ & _).
  rewrite E2 in H. cbn [bind] in H. destruct s2 as [w2|w2|]; [|inv H|inv H].
  pose proof (scan_an_ns_continue _ _ _ _ _ E2) as ->.
  destruct (rd_arcount r2) as [ar|e|]; cbn [bind] in H; try discriminate.
  destruct (scan_additional verify cfg (N.to_nat ar) r2 w1 false) as [[r3 s3]|e|] eqn:E3; cbn [bind] in H; try discriminate.
  destruct s3 as [w3|w3|]; [|inv H|inv H].
  destruct (negb (at_eom r3)); [inv H|].
  destruct (rd_rewind r3) as [r4 x]. destruct x as [u|e|]; try discriminate.
  destruct (rd_opcode r4) as [opc|e|]; cbn [bind] in H; try discriminate. inv H.
  exact (scan_additional_continue_inv verify cfg Hcfg _ _ _ _ _ _ Hinv2 I1 E3 Hts).
Qed.

(* the clean QUERY with its question, no TSIG *)
Theorem clean_query_numbers verify cfg req o w q : wf_cfg cfg -> wf_bytes req ->
  prescan verify cfg req = Ok (PClean o w) -> w_tsig w = None -> w_question w = Some q ->
  (exists seen, srv_inv cfg seen w) /\
  w_cursor w = 12 + length (n_wire (q_name q)) + 4 /\ w_buflen w = c_buflen cfg /\
  length (n_wire (q_name q)) <= 255 /\
  let L0 := Nat.min (match c_transport cfg with Tcp => tcp_limit | Udp => udp_limit end) (c_buflen cfg) in
  (w_edns w = None -> w_limit w = L0) /\ (c_transport cfg = Tcp -> w_limit w = L0).
Proof.
  intros Hcfg Hwf H Hts Hq. pose proof Hcfg as (H512 & H64k & Hbuf).
  destruct (prescan_facts verify cfg req Hcfg Hwf) as (p & Ep & Fp). rewrite H in Ep. inv Ep.
  destruct Fp as ((H12 & Eqr & _ & QE & _) & _).
  unfold question_echo in QE. rewrite Hq in QE. destruct QE as [QE|(Eqd & r1 & q' & RQ & QE)]; [discriminate|]. inv QE.
  unfold prescan in H. destruct (c_buflen cfg <? _) eqn:Eb; [discriminate|]. clear Eb.
  rewrite (reader_new_r0 req H12) in H. set (r0 := r0_of req) in *. pose proof (r0_inv req Hwf H12) as Hinv0. fold r0 in Hinv0.
  rewrite Eqr in H. cbn [bind] in H.
  destruct (rd_id r0) as [id|e|]; cbn [bind] in H; try discriminate.
  destruct (rd_opcode r0) as [opc|e|]; cbn [bind] in H; try discriminate.
  destruct (rd_rd r0) as [rdf|e|]; cbn [bind] in H; try discriminate.
  unfold initial_resp in H. change header_size with 12 in H.
  set (limit := Nat.min (match c_transport cfg with Tcp => tcp_limit | Udp => udp_limit end) (c_buflen cfg)) in H.
  assert (Hlim : 512 <= limit /\ limit <= c_buflen cfg).
  { unfold limit, tcp_limit, udp_limit in *. destruct (c_transport cfg); lia. }
  destruct (limit <? 12) eqn:El; [discriminate|]. cbn [bind] in H.
  rewrite Eqd in H. cbn [bind] in H. change (1 =? 0)%N with false in H. change (1 =? 1)%N with true in H. cbv iota in H.
  rewrite RQ in H.
  destruct (read_question_wire_bound r0 r1 q' Hinv0 RQ) as [Hwire Hinv1].
  unfold add_question in H. cbn [w_avail w_cursor] in H.
  destruct (limit <? 12) eqn:X1; [discriminate|].
  destruct (limit - 12 <? length (n_wire (q_name q'))) eqn:X2; [apply Nat.ltb_lt in X2; lia|].
  destruct (limit - (12 + length (n_wire (q_name q'))) <? 4) eqn:X3; [apply Nat.ltb_lt in X3; lia|].
  match type of H with prescan_rest verify cfg r1 ?x = _ => set (w1 := x) in H end.
  assert (I1 : srv_inv cfg false w1).
  { unfold srv_inv, edns_ok, reserved, w1; simpl. repeat split; auto; try lia; try discriminate.
    all: try (intros X; exfalso; apply X; reflexivity). }
  destruct (prescan_rest_clean_inv verify cfg r1 w1 o w Hcfg Hinv1 I1 H Hts) as [Iw (Kc & Kb & Ke & Kt)].
  split; [exact Iw|]. split; [rewrite Kc; unfold w1; simpl; lia|]. split; [rewrite Kb; reflexivity|]. split; [exact Hwire|].
  cbv zeta. fold limit. split; [intros X; destruct (Ke X) as [Y _]; rewrite Y; reflexivity|intros T; rewrite (Kt T); reflexivity].
Qed.
