(* The names an answer reports (referral child zone, source of synthesis) are node names, and node
   names are spelled as the specification says: exact (not only case-insensitive) agreement. *)
From QV Require Import Base.Res Base.Octets Base.ListX Gen.ZoneConsts Model.ZoneTree Spec.ZoneLookupS
  Proofs.ZoneBaseP Proofs.ZoneRrsetP Proofs.ZoneViewP Proofs.ZoneInvP Proofs.ZoneLookupP Proofs.ZoneTopP.

Definition node_in (t : node) (n : name) : Prop := exists p d, view p t = Some (n, d).

Definition base_names (b : base_result) : list name :=
  match b with
  | BFound _ (Some w) => [w]
  | BReferral c _ => [c]
  | _ => []
  end.

Lemma node_in_child t x c n : find_child x (node_children t) = Some c -> node_in c n -> node_in t n.
Proof.
  intros F (p & d & V). exists (x :: p), d. cbn [view]. rewrite F. exact V.
Qed.

Lemma lookup_impl_nodes level : forall t nm sbc at_apex b,
  lookup_impl level t nm sbc at_apex = Ok b -> forall n, In n (base_names b) -> node_in t n.
Proof.
  induction level as [|l IH]; intros t nm sbc at_apex b H n Hn; rewrite lookup_impl_unfold in H.
  - destruct (if negb at_apex && negb sbc then rr_lookup TYPE_NS (node_data t) else None).
    + inversion H; subst. simpl in Hn. destruct Hn as [<-|[]]. exists [], (node_data t). reflexivity.
    + inversion H; subst. destruct Hn.
  - destruct (if negb at_apex && negb sbc then rr_lookup TYPE_NS (node_data t) else None).
    + inversion H; subst. simpl in Hn. destruct Hn as [<-|[]]. exists [], (node_data t). reflexivity.
    + destruct (name_index nm l) as [lab| |]; cbn [bind] in H; try discriminate.
      destruct (find_child lab (node_children t)) as [c|] eqn:F.
      * eapply node_in_child; eauto.
      * destruct (find_child ASTERISK_LABEL (node_children t)) as [w|] eqn:Fw.
        -- inversion H; subst. simpl in Hn. destruct Hn as [<-|[]].
           exists [ASTERISK_LABEL], (node_data w). cbn [view]. rewrite Fw. reflexivity.
        -- inversion H; subst. destruct Hn.
Qed.

Lemma lookup_base_nodes z nm u sbc b : lookup_base z nm u sbc = Ok b ->
  forall n, In n (base_names b) -> node_in (z_apex z) n.
Proof.
  unfold lookup_base. intros H n Hn.
  destruct (negb u && negb (eq_or_subdomain_of nm (zone_name z))).
  - inversion H; subst. destruct Hn.
  - destruct (usub _ _) as [level| |]; cbn [bind] in H; try discriminate.
    eapply lookup_impl_nodes; eauto.
Qed.

Section Spell.
Variable req : N -> N -> bytes -> bytes -> bool.
Variable apex : name.
Variable cls : N.
Variables (z : zone) (R : list record).
Hypothesis HI : Inv req apex cls z R.
Hypothesis HS : Inv_sp apex z R.

Lemma node_spelled n : node_in (z_apex z) n -> spelled apex R (lc n) = n.
Proof.
  intros (p & d & V). destruct HI as (_ & _ & Hv). specialize (Hv p). rewrite V in Hv.
  destruct Hv as (_ & Hn & _). rewrite Hn. symmetry. eapply HS; eauto.
Qed.

Lemma sos_spelled s : (forall n, s = Some n -> node_in (z_apex z) n) ->
  option_map (spelled apex R) (norm_sos s) = s.
Proof.
  destruct s as [n|]; simpl; auto. intros H. rewrite node_spelled; auto.
Qed.

Lemma lookup_spell qn ty u sbc r : zone_lookup z qn ty u sbc = Ok r ->
  spell_lookup apex R (norm_lookup r) = r.
Proof.
  unfold zone_lookup. destruct (lookup_base z qn u sbc) as [b| |] eqn:B; cbn [bind]; try discriminate.
  intros H. inversion H; subst; clear H. pose proof (lookup_base_nodes _ _ _ _ _ B) as Hn.
  destruct b as [data sos|c ns| |]; simpl; auto.
  - assert (Hs : option_map (spelled apex R) (norm_sos sos) = sos).
    { apply sos_spelled. intros n ->. apply Hn. left. reflexivity. }
    destruct (rr_lookup ty data); simpl; [rewrite Hs; reflexivity|].
    destruct (rr_lookup TYPE_CNAME data); simpl; rewrite Hs; reflexivity.
  - rewrite node_spelled; auto. apply Hn. left. reflexivity.
Qed.

Lemma lookup_addrs_spell qn u sbc r : zone_lookup_addrs z qn u sbc = Ok r ->
  spell_addrs apex R (norm_addrs r) = r.
Proof.
  unfold zone_lookup_addrs. destruct (lookup_base z qn u sbc) as [b| |] eqn:B; cbn [bind]; try discriminate.
  intros H. inversion H; subst; clear H. pose proof (lookup_base_nodes _ _ _ _ _ B) as Hn.
  destruct b as [data sos|c ns| |]; simpl; auto.
  - rewrite sos_spelled; auto. intros n ->. apply Hn. left. reflexivity.
  - rewrite node_spelled; auto. apply Hn. left. reflexivity.
Qed.

Lemma lookup_all_spell qn u sbc r : zone_lookup_all z qn u sbc = Ok r ->
  spell_all apex R (norm_all r) = r.
Proof.
  unfold zone_lookup_all. destruct (lookup_base z qn u sbc) as [b| |] eqn:B; cbn [bind]; try discriminate.
  intros H. inversion H; subst; clear H. pose proof (lookup_base_nodes _ _ _ _ _ B) as Hn.
  destruct b as [data sos|c ns| |]; simpl; auto.
  - rewrite sos_spelled; auto. intros n ->. apply Hn. left. reflexivity.
  - rewrite node_spelled; auto. apply Hn. left. reflexivity.
Qed.

End Spell.

(* ---- over whole histories: exact equality with the specification's answer, names included *)
Section FinalSp.
Variable req : N -> N -> bytes -> bytes -> bool.
Hypothesis req_trans : forall cls ty a b c,
  req cls ty a b = true -> req cls ty b c = true -> req cls ty a c = true.

Lemma build_lookup_exact apex cls wide recs z qn ty u sbc :
  zone_build req (zone_new apex cls wide) recs = Some z ->
  (u = true -> in_zone apex qn = true) ->
  exists r', spec_lookup req apex cls (accepted apex cls recs) qn ty u sbc = Some r' /\
             zone_lookup z qn ty u sbc = Ok (spell_lookup apex (accepted apex cls recs) r').
Proof.
  intros H Hu. destruct (build_lookup_refines req req_trans apex cls wide recs z qn ty u sbc H Hu) as (r & Hr & Hs).
  exists (norm_lookup r). split; auto. rewrite Hr. f_equal. symmetry.
  eapply lookup_spell; eauto.
  - eapply build_inv; eauto.
  - eapply zone_build_new_sp; eauto.
Qed.

Lemma build_lookup_addrs_exact apex cls wide recs z qn u sbc :
  zone_build req (zone_new apex cls wide) recs = Some z ->
  (u = true -> in_zone apex qn = true) ->
  exists r', spec_lookup_addrs req apex cls (accepted apex cls recs) qn u sbc = Some r' /\
             zone_lookup_addrs z qn u sbc = Ok (spell_addrs apex (accepted apex cls recs) r').
Proof.
  intros H Hu. destruct (build_lookup_addrs_refines req req_trans apex cls wide recs z qn u sbc H Hu) as (r & Hr & Hs).
  exists (norm_addrs r). split; auto. rewrite Hr. f_equal. symmetry.
  eapply lookup_addrs_spell; eauto.
  - eapply build_inv; eauto.
  - eapply zone_build_new_sp; eauto.
Qed.

Lemma build_lookup_all_exact apex cls wide recs z qn u sbc :
  zone_build req (zone_new apex cls wide) recs = Some z ->
  (u = true -> in_zone apex qn = true) ->
  exists r', spec_lookup_all req apex cls (accepted apex cls recs) qn u sbc = Some r' /\
             zone_lookup_all z qn u sbc = Ok (spell_all apex (accepted apex cls recs) r').
Proof.
  intros H Hu. destruct (build_lookup_all_refines req req_trans apex cls wide recs z qn u sbc H Hu) as (r & Hr & Hs).
  exists (norm_all r). split; auto. rewrite Hr. f_equal. symmetry.
  eapply lookup_all_spell; eauto.
  - eapply build_inv; eauto.
  - eapply zone_build_new_sp; eauto.
Qed.

End FinalSp.
