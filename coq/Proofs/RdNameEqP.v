(* Name equality of the model (impl PartialEq for Name, through label offsets and
   label_at) on parsed names is label-wise case-insensitive equality of the label lists. *)
From QV Require Import Base.ListX Model.NameWire Spec.NameWireS Spec.NameRepr Proofs.NameWireP
  Model.RdataM Spec.RdataFormatS Spec.RdataEqS Proofs.RdNameP.
Local Open Scope nat_scope.

Lemma ci_eqb_label a b : ci_eqb a b = label_ci_eqb a b.
Proof. revert b; induction a as [|x a IH]; intros [|y b]; simpl; auto; try rewrite IH; reflexivity. Qed.

Lemma bytes_eqb_octets a b : bytes_eqb a b = octets_eqb a b.
Proof. revert b; induction a as [|x a IH]; intros [|y b]; simpl; auto; try rewrite IH; reflexivity. Qed.

Lemma octets_eqb_eq a b : octets_eqb a b = true <-> a = b.
Proof.
  revert b; induction a as [|x a IH]; intros [|y b]; simpl; split; intros H; try discriminate; auto.
  - apply andb_true_iff in H. destruct H as [H1 H2]. apply N.eqb_eq in H1. apply IH in H2. congruence.
  - inversion H; subst. rewrite N.eqb_refl. simpl. apply IH. reflexivity.
Qed.

Lemma octets_eqb_refl a : octets_eqb a a = true.
Proof. apply octets_eqb_eq. reflexivity. Qed.

Lemma octets_eqb_false_len a b : length a <> length b -> octets_eqb a b = false.
Proof.
  intros H. destruct (octets_eqb a b) eqn:E; [|reflexivity]. apply octets_eqb_eq in E. subst. congruence.
Qed.

Lemma labels_ci_eqb_len a b : labels_ci_eqb a b = true -> length a = length b.
Proof.
  revert b; induction a as [|x a IH]; intros [|y b]; simpl; intros H; try discriminate; auto.
  apply andb_true_iff in H. destruct H as [_ H]. f_equal. apply IH. exact H.
Qed.

Lemma offs_of_length base ls : length (offs_of base ls) = S (length ls).
Proof. revert base; induction ls as [|l ls IH]; intros base; simpl; auto. Qed.

Lemma label_at_gen : forall ls pre offs_pre,
  Forall valid_label ls -> length pre + wire_len ls <= 256 ->
  forall i, i <= length ls ->
  label_at (mkName (offs_pre ++ offs_of (length pre) ls) (pre ++ wire_of ls)) (length offs_pre + i)
  = Ok (nth i ls []).
Proof.
  induction ls as [|l ls IH]; intros pre offs_pre Hv Hlen i Hi.
  - assert (i = 0) by (simpl in Hi; lia). subst i. unfold wire_len in Hlen. simpl in Hlen.
    unfold label_at. cbn [n_offsets n_wire offs_of]. rewrite Nat.add_0_r, nth_error_app_at.
    rewrite N.mod_small by lia. rewrite Nat2N.id.
    change (wire_of []) with [0%N]. rewrite nth_error_app_at. change (N.to_nat 0) with 0.
    rewrite app_length. simpl length.
    destruct (length pre + 1 <? length pre + 1 + 0) eqn:E; [apply Nat.ltb_lt in E; lia|].
    rewrite Nat.add_0_r, slice_nil. reflexivity.
  - inversion Hv as [|? ? [Hl1 Hl2] Hv']; subst. rewrite wire_len_cons in Hlen.
    destruct i as [|i].
    + unfold label_at. cbn [n_offsets n_wire offs_of]. rewrite Nat.add_0_r, nth_error_app_at.
      rewrite N.mod_small by lia. rewrite Nat2N.id.
      rewrite wire_of_cons, nth_error_app_at. rewrite Nat2N.id.
      destruct (length (pre ++ N.of_nat (length l) :: l ++ wire_of ls) <? length pre + 1 + length l) eqn:E.
      { apply Nat.ltb_lt in E. rewrite !app_length in E. simpl in E. rewrite app_length in E. lia. }
      cbn [nth]. f_equal.
      replace (pre ++ N.of_nat (length l) :: l ++ wire_of ls)
        with ((pre ++ [N.of_nat (length l)]) ++ l ++ wire_of ls)
        by (rewrite <- app_assoc; reflexivity).
      apply slice_app_mid; rewrite app_length; simpl; lia.
    + cbn [offs_of nth].
      replace (offs_pre ++ (N.of_nat (length pre) mod 256)%N :: offs_of (length pre + 1 + length l) ls)
        with ((offs_pre ++ [(N.of_nat (length pre) mod 256)%N]) ++ offs_of (length (pre ++ N.of_nat (length l) :: l)) ls).
      2: { rewrite <- app_assoc. simpl. do 3 f_equal. rewrite app_length. simpl. lia. }
      replace (pre ++ wire_of (l :: ls)) with ((pre ++ N.of_nat (length l) :: l) ++ wire_of ls)
        by (rewrite wire_of_cons, <- app_assoc; reflexivity).
      replace (length offs_pre + S i) with (length (offs_pre ++ [(N.of_nat (length pre) mod 256)%N]) + i)
        by (rewrite app_length; simpl; lia).
      apply IH; auto; [rewrite app_length; simpl; lia|simpl in Hi; lia].
Qed.

Lemma label_at_name_of ls i : valid_name ls -> i <= length ls ->
  label_at (name_of ls) i = Ok (nth i ls []).
Proof.
  intros [Hv Hw] Hi. unfold name_of.
  apply (label_at_gen ls [] [] Hv); [simpl; lia|exact Hi].
Qed.

Lemma labels_eq_spec la lb : valid_name la -> valid_name lb -> length la = length lb ->
  forall k i, i + k = S (length la) ->
  labels_eq k i (name_of la) (name_of lb) = Ok (labels_ci_eqb (skipn i la) (skipn i lb) ).
Proof.
  intros Ha Hb Hl. induction k as [|k IH]; intros i Hk.
  - cbn [labels_eq]. rewrite !skipn_all2 by lia. reflexivity.
  - cbn [labels_eq]. rewrite !label_at_name_of by (auto; lia). cbn [map_err bind].
    rewrite ci_eqb_label.
    destruct (Nat.eq_dec i (length la)) as [->|Hne].
    + rewrite (nth_overflow la) by lia. rewrite (nth_overflow lb) by lia. cbn [label_ci_eqb].
      rewrite IH by lia. rewrite !skipn_all2 by lia. reflexivity.
    + assert (Hi : i < length la) by lia.
      destruct (skipn i la) as [|x ra] eqn:Sa.
      { apply (f_equal (@length _)) in Sa. rewrite skipn_length in Sa. simpl in Sa. lia. }
      destruct (skipn i lb) as [|y rb] eqn:Sb.
      { apply (f_equal (@length _)) in Sb. rewrite skipn_length in Sb. simpl in Sb. lia. }
      assert (Na : nth i la [] = x).
      { rewrite <- (firstn_skipn i la), Sa. rewrite app_nth2; rewrite firstn_length_le by lia; [|lia].
        rewrite Nat.sub_diag. reflexivity. }
      assert (Nb : nth i lb [] = y).
      { rewrite <- (firstn_skipn i lb), Sb. rewrite app_nth2; rewrite firstn_length_le by lia; [|lia].
        rewrite Nat.sub_diag. reflexivity. }
      rewrite Na, Nb. cbn [labels_ci_eqb].
      assert (Ra : skipn (S i) la = ra).
      { replace (S i) with (i + 1) by lia. rewrite <- skipn_plus, Sa. reflexivity. }
      assert (Rb : skipn (S i) lb = rb).
      { replace (S i) with (i + 1) by lia. rewrite <- skipn_plus, Sb. reflexivity. }
      destruct (label_ci_eqb x y); cbn [andb]; [|reflexivity].
      rewrite IH by lia. rewrite Ra, Rb. reflexivity.
Qed.

Theorem name_eq_spec la lb : valid_name la -> valid_name lb ->
  name_eq (name_of la) (name_of lb) = Ok (labels_ci_eqb la lb).
Proof.
  intros Ha Hb. unfold name_eq. cbn [name_of n_offsets]. rewrite !offs_of_length.
  destruct (S (length la) =? S (length lb)) eqn:E.
  - apply Nat.eqb_eq in E. apply (labels_eq_spec la lb Ha Hb ltac:(lia) (S (length la)) 0). lia.
  - apply Nat.eqb_neq in E. destruct (labels_ci_eqb la lb) eqn:L; [|reflexivity].
    apply labels_ci_eqb_len in L. lia.
Qed.
