(* C23 stage 1 (names): parse_name on a rendered <domain-name> — absolute, relative to the origin, "@",
   "." — gives the representation [name_of] of the label list, for every legal escaping choice. *)
From QV Require Import Base.ListX Model.NameWire Spec.NameWireS Spec.NameRepr Proofs.NameWireP
  Model.ZfReader Model.ZfParser Proofs.ZfReaderP Spec.ZfValidS Proofs.ZfNameP Proofs.ZfFieldsP
  Proofs.ZfRunP Proofs.ZfTokP Spec.ZfRenderS.

Local Open Scope nat_scope.

(* ---- the NameBuilder operations succeed on good labels ---------------------------------------------------------- *)

Lemma nb_wire_len b ds cur : nb_inv b ds cur -> length (nb_wire b) = length (lwire ds) + 1 + length cur.
Proof. intros (Hw & _). rewrite Hw, app_length. simpl. lia. Qed.

Lemma nb_try_push_exact b ds cur o : nb_inv b ds cur -> length cur < 63 -> length (nb_wire b) < 255 ->
  exists b', nb_try_push b o = Ok b' /\ nb_inv b' ds (cur ++ [o]).
Proof.
  intros Hinv Hc Hw. pose proof (nb_try_push_ok b ds cur o Hinv) as H.
  destruct Hinv as (_ & _ & _ & Hl & _). unfold nb_try_push in *.
  change (max_label_len mod 256)%N with 63%N in *. change max_wire_len with 255 in *.
  destruct (63 <=? nb_len b)%N eqn:E1; [apply N.leb_le in E1; lia|].
  destruct (255 <=? length (nb_wire b)) eqn:E2; [apply Nat.leb_le in E2; lia|]. eauto.
Qed.

Lemma nb_next_label_exact b ds cur : nb_inv b ds cur -> cur <> [] -> length (nb_wire b) < 255 ->
  exists b', nb_next_label b = Ok b' /\ nb_inv b' (ds ++ [cur]) [].
Proof.
  intros Hinv Hc Hw. pose proof (nb_next_label_ok b ds cur Hinv) as H.
  destruct Hinv as (_ & _ & _ & Hl & _). unfold nb_next_label, nb_fq in *. change max_wire_len with 255 in *.
  destruct (nb_len b =? 0)%N eqn:E0.
  { apply N.eqb_eq in E0. destruct cur; [congruence|simpl in Hl; lia]. }
  destruct (255 <=? length (nb_wire b)) eqn:E2; [apply Nat.leb_le in E2; lia|].
  destruct (nb_update_label_len b); [|contradiction]. destruct (push_offset _ _); [|contradiction]. eauto.
Qed.

Lemma nb_finish_exact b ds : nb_inv b ds [] -> nb_fq b = true /\ nb_finish b = Ok (name_of ds).
Proof.
  intros (Hw & Ho & _ & Hl & _). unfold nb_finish, nb_fq. rewrite Hl. simpl. split; [reflexivity|].
  unfold name_of. rewrite Ho, Hw. reflexivity.
Qed.

Lemma nb_push_labels_exact ss W0 : good_labels ss -> length W0 + wire_len ss <= 255 -> forall n i w,
  i <= length ss -> i + n = S (length ss) -> w = W0 ++ lwire (firstn i ss) ->
  nb_push_labels (name_of ss) n i w = Ok (W0 ++ wire_of ss).
Proof.
  intros Hss Hlen. induction n as [|n IH]; intros i w Hile Hin Hw; [lia|].
  cbn [nb_push_labels]. rewrite (label_at_name_of ss i Hss) by lia. change max_wire_len with 255.
  pose proof (firstn_lwire_le ss i) as Hfl. rewrite wire_len_lwire in Hlen.
  assert (Hwl : length w = length W0 + length (lwire (firstn i ss))) by (subst w; rewrite app_length; reflexivity).
  destruct (255 <=? length w) eqn:E1; [apply Nat.leb_le in E1; lia|].
  destruct (Nat.eq_dec i (length ss)) as [->|Hne].
  - rewrite nth_overflow by lia. simpl length. simpl N.of_nat. change (0 mod 256)%N with 0%N.
    unfold try_extend. change max_wire_len with 255. rewrite app_length. simpl length.
    destruct (255 <? length w + 1 + 0) eqn:E2; [apply Nat.ltb_lt in E2; rewrite firstn_all in Hwl; lia|].
    rewrite app_nil_r. assert (n = 0) by lia. subst n. simpl.
    rewrite firstn_all in Hw. subst w. unfold wire_of. rewrite <- app_assoc. reflexivity.
  - assert (Hlt : i < length ss) by lia. destruct Hss as [Hg Hwlen].
    pose proof (Forall_nth_good ss i Hg Hlt) as Hgl. unfold good_label in Hgl.
    rewrite N.mod_small by lia.
    pose proof (firstn_lwire_le ss (S i)) as Hfl2. rewrite (lwire_firstn_S ss i Hlt), app_length in Hfl2. cbn [length] in Hfl2.
    unfold try_extend. change max_wire_len with 255. rewrite app_length. cbn [length].
    destruct (255 <? length w + 1 + length (nth i ss [])) eqn:E2; [apply Nat.ltb_lt in E2; lia|].
    apply IH; [lia|lia|]. subst w. rewrite (lwire_firstn_S ss i Hlt). rewrite <- !app_assoc. reflexivity.
Qed.

Lemma nb_finish_with_suffix_exact b ds cur ss : nb_inv b ds cur -> cur <> [] ->
  good_labels ss -> good_labels (ds ++ cur :: ss) ->
  nb_finish_with_suffix b (name_of ss) = Ok (name_of (ds ++ cur :: ss)).
Proof.
  intros Hinv Hne Hss Hall. pose proof Hinv as (Hw & Ho & Hs & Hl & Hg & Hc & Hlen).
  unfold nb_finish_with_suffix, nb_fq.
  destruct (nb_len b =? 0)%N eqn:E0.
  { apply N.eqb_eq in E0. destruct cur; [congruence|simpl in Hl; lia]. }
  rewrite (nb_update_ok b ds cur Hinv).
  set (w := lwire (ds ++ [cur])) in *.
  assert (Hww : wire_of (ds ++ cur :: ss) = w ++ wire_of ss).
  { replace (ds ++ cur :: ss) with ((ds ++ [cur]) ++ ss) by (rewrite <- app_assoc; reflexivity).
    apply good_labels_app_wire. }
  assert (HL : length w + wire_len ss <= 255).
  { destruct Hall as [_ Hwl]. unfold wire_len in Hwl. rewrite Hww, app_length in Hwl. exact Hwl. }
  replace (length (n_offsets (name_of ss))) with (S (length ss))
    by (unfold name_of; cbn [n_offsets]; rewrite offs_of_length; reflexivity).
  rewrite (nb_push_labels_exact ss w Hss HL (S (length ss)) 0 w (Nat.le_0_l _) eq_refl (eq_sym (app_nil_r w))).
  cbn [bind]. pose proof (wire_len_pos ss).
  rewrite N.mod_small by lia.
  pose proof (good_labels_count _ Hall) as Hcnt. rewrite app_length in Hcnt. simpl in Hcnt.
  unfold name_of at 1. cbn [n_offsets].
  rewrite (nb_push_offsets_ok (length w) ss 0 (nb_offs b)); [|simpl; lia|rewrite Ho, offs_of_length; lia].
  f_equal. unfold name_of. rewrite Hww. f_equal.
  replace (ds ++ cur :: ss) with ((ds ++ [cur]) ++ ss) by (rewrite <- app_assoc; reflexivity).
  rewrite offs_of_app. rewrite Ho. simpl Nat.add. fold w.
  rewrite offs_of_snoc. rewrite app_length. simpl length.
  rewrite firstn_app. rewrite offs_of_length.
  replace (length ds + 1 - S (length ds)) with 0 by lia. simpl firstn at 2. rewrite app_nil_r.
  rewrite firstn_all2 by (rewrite offs_of_length; lia). reflexivity.
Qed.

(* ---- the loop of parse_non_root_name ------------------------------------------------------------------------------------- *)

Section Loop.
Variables (T : bytes -> Prop) (s2 : bytes) (p p' : bool) (ns : pos) (v : nb).

(* the octets of (the rest of) one label; the hypothesis is the rest of the loop *)
Lemma pnr_octets : forall l es ds cur,
  octets_ok KLabel es l = true ->
  (forall n lst b1, nb_inv b1 ds (cur ++ l) -> runsN n T (pnr_loop n ns lst b1) s2 p p' v) ->
  forall n lst b0, nb_inv b0 ds cur -> length cur + length l <= 63 -> length (nb_wire b0) + length l <= 255 ->
  runsN n T (pnr_loop n ns lst b0) (render_octets es l ++ s2) p p' v.
Proof.
  induction l as [|c l IH]; intros es ds cur Hok HK n lst b0 Hinv Hc Hw.
  - cbn [render_octets app]. rewrite app_nil_r in HK. apply HK. exact Hinv.
  - destruct n as [|n]; [apply runsN_0|].
    cbn [octets_ok] in Hok. apply andb_true_iff in Hok. destruct Hok as [Hcok Hl]. cbn [length] in Hc, Hw.
    assert (HK' : forall n lst b1, nb_inv b1 ds ((cur ++ [c]) ++ l) -> runsN n T (pnr_loop n ns lst b1) s2 p p' v).
    { intros n' lst' b1 Hb1. apply HK. rewrite <- app_assoc in Hb1. exact Hb1. }
    cbn [render_octets pnr_loop]. rewrite <- app_assoc.
    destruct (nb_try_push_exact b0 ds cur c Hinv ltac:(lia) ltac:(lia)) as (b' & Eb & Hinv').
    assert (Hw' : length (nb_wire b') + length l <= 255).
    { rewrite (nb_wire_len _ _ _ Hinv'), app_length. rewrite (nb_wire_len _ _ _ Hinv) in Hw. simpl. lia. }
    assert (Hc' : length (cur ++ [c]) + length l <= 63) by (rewrite app_length; simpl; lia).
    destruct (hd EDec es) eqn:Ee.
    + apply esc_ok_raw, raw_label_plain in Hcok. destruct Hcok as (Hp & H92 & H46).
      cbn [render_octet]. eapply runsN_bind_dec; [apply rfo_plain; exact Hp|discriminate|intros; exact I|].
      cbv beta iota. apply N.eqb_neq in H92, H46. rewrite H92, H46, Eb.
      apply (IH (tl es) ds (cur ++ [c]) Hl HK' n lst b' Hinv' Hc' Hw').
    + rewrite (render_octet_esc EChar c) by discriminate. cbn [app].
      change (92%N :: tl (render_octet EChar c) ++ render_octets (tl es) l ++ s2)
        with ([92%N] ++ tl (render_octet EChar c) ++ render_octets (tl es) l ++ s2).
      eapply runsN_bind_dec; [apply rfo_plain; exact plain92|discriminate|intros; exact I|].
      cbv beta iota. change (92 =? 92)%N with true. cbv iota.
      eapply runsN_bind; [eapply escape_runs; [|exact Hcok]; discriminate|intros; exact I|].
      cbv beta. rewrite Eb. apply (IH (tl es) ds (cur ++ [c]) Hl HK' n lst b' Hinv' Hc' Hw').
    + rewrite (render_octet_esc EDec c) by discriminate. cbn [app].
      change (92%N :: tl (render_octet EDec c) ++ render_octets (tl es) l ++ s2)
        with ([92%N] ++ tl (render_octet EDec c) ++ render_octets (tl es) l ++ s2).
      eapply runsN_bind_dec; [apply rfo_plain; exact plain92|discriminate|intros; exact I|].
      cbv beta iota. change (92 =? 92)%N with true. cbv iota.
      eapply runsN_bind; [eapply escape_runs; [|exact Hcok]; discriminate|intros; exact I|].
      cbv beta. rewrite Eb. apply (IH (tl es) ds (cur ++ [c]) Hl HK' n lst b' Hinv' Hc' Hw').
Qed.

(* the dot between two labels *)
Lemma pnr_dot ds cur :
  (forall n lst b1, nb_inv b1 (ds ++ [cur]) [] -> runsN n T (pnr_loop n ns lst b1) s2 p p' v) ->
  forall n lst b0, nb_inv b0 ds cur -> cur <> [] -> length (nb_wire b0) < 255 ->
  runsN n T (pnr_loop n ns lst b0) (46%N :: s2) p p' v.
Proof.
  intros HK n lst b0 Hinv Hne Hw. destruct n as [|n]; [apply runsN_0|].
  destruct (nb_next_label_exact b0 ds cur Hinv Hne Hw) as (b' & Eb & Hinv').
  cbn [pnr_loop]. change (46%N :: s2) with ([46%N] ++ s2).
  eapply runsN_bind_dec; [apply rfo_plain; reflexivity|discriminate|intros; exact I|].
  cbv beta iota. change (46 =? 92)%N with false. change (46 =? 46)%N with true. cbv iota. rewrite Eb.
  apply runsN_getpos. intros q. apply HK. exact Hinv'.
Qed.
End Loop.

(* the end of the name: the loop returns the builder *)
Lemma pnr_end n ns lst b0 p : runsN n fend (pnr_loop n ns lst b0) [] p p b0.
Proof.
  destruct n as [|n]; [apply runsN_0|]. cbn [pnr_loop].
  change (@nil N) with (@nil N ++ []). eapply runsN_bind; [apply rfo_end|intros t Ht; exact Ht|].
  cbv beta iota. apply runs_N, runs_ret.
Qed.

(* ---- a whole relative name: labels separated by dots -------------------------------------------------------------------- *)

Lemma lwire_snoc_len ds l : length (lwire (ds ++ [l])) = length (lwire ds) + 1 + length l.
Proof. rewrite lwire_app, app_length. simpl. rewrite app_nil_r. simpl. lia. Qed.

Lemma lwire_app_len a b : length (lwire (a ++ b)) = length (lwire a) + length (lwire b).
Proof. rewrite lwire_app, app_length. reflexivity. Qed.

Lemma pnr_rel T s2 p p' ns v : forall ls ess ds,
  ls <> [] -> labels_ok ess ls = true -> Forall good_label ls -> length (lwire (ds ++ ls)) <= 254 ->
  (forall n lst b1, nb_inv b1 (ds ++ removelast ls) (last ls []) -> runsN n T (pnr_loop n ns lst b1) s2 p p' v) ->
  forall n lst b0, nb_inv b0 ds [] -> runsN n T (pnr_loop n ns lst b0) (render_rel ess ls ++ s2) p p' v.
Proof.
  induction ls as [|l ls IH]; intros ess ds Hne Hok Hg Hlen HK n lst b0 Hinv; [congruence|].
  cbn [labels_ok] in Hok. apply andb_true_iff in Hok. destruct Hok as [Hl Hls].
  inversion Hg as [|? ? Hgl Hgls]; subst. unfold good_label in Hgl.
  rewrite lwire_app_len, lwire_cons in Hlen. cbn [length] in Hlen. rewrite app_length in Hlen.
  pose proof (nb_wire_len _ _ _ Hinv) as Hwl. cbn [length] in Hwl.
  cbn [render_rel]. destruct ls as [|l2 ls].
  - rewrite app_nil_r. cbn [removelast last] in HK. rewrite app_nil_r in HK.
    apply (pnr_octets T s2 p p' ns v l (hd [] ess) ds []); [exact Hl|exact HK|exact Hinv|simpl; lia|lia].
  - rewrite <- app_assoc. cbn [app].
    apply (pnr_octets T _ p p' ns v l (hd [] ess) ds []); [exact Hl| |exact Hinv|simpl; lia|lia].
    intros n1 lst1 b1 Hb1. cbn [app] in Hb1.
    apply (pnr_dot T _ p p' ns v ds l); [|exact Hb1|destruct l; [simpl in Hgl; lia|discriminate]|rewrite (nb_wire_len _ _ _ Hb1); lia].
    intros n2 lst2 b2 Hb2.
    apply (IH (tl ess) (ds ++ [l])); [discriminate|exact Hls|exact Hgls| | |exact Hb2].
    + rewrite <- app_assoc. cbn [app]. rewrite lwire_app_len, lwire_cons. cbn [length]. rewrite app_length. lia.
    + intros n3 lst3 b3 Hb3. apply HK. rewrite <- app_assoc in Hb3. cbn [app] in Hb3.
      change (removelast (l :: l2 :: ls)) with (l :: removelast (l2 :: ls)).
      change (last (l :: l2 :: ls) []) with (last (l2 :: ls) []). exact Hb3.
Qed.

(* ---- the builder state as a function of the labels read ----------------------------------------------------------------------- *)

Definition nb_of (ds : list label) (cur : label) : nb :=
  mkNb (lwire ds ++ 0%N :: cur) (offs_of 0 ds) (length (lwire ds)) (N.of_nat (length cur)).

Lemma nb_inv_eq b ds cur : nb_inv b ds cur -> b = nb_of ds cur.
Proof. intros (H1 & H2 & H3 & H4 & _). destruct b. simpl in *. subst. reflexivity. Qed.

Lemma nb_of_inv ds cur : Forall good_label ds -> length cur <= 63 -> length (lwire ds) + 1 + length cur <= 255 ->
  nb_inv (nb_of ds cur) ds cur.
Proof.
  intros H1 H2 H3. unfold nb_inv, nb_of. cbn [nb_wire nb_offs nb_start nb_len].
  repeat split; auto. rewrite app_length. simpl. lia.
Qed.

Lemma nb_new_of : nb_new = nb_of [] []. Proof. reflexivity. Qed.

Lemma good_labels_b_spec ls : good_labels_b ls = true -> good_labels ls.
Proof.
  unfold good_labels_b. intros H. apply andb_true_iff in H. destruct H as [H1 H2]. apply Nat.leb_le in H2.
  split; [|exact H2]. rewrite forallb_forall in H1. apply Forall_forall. intros l Hl. specialize (H1 l Hl).
  apply andb_true_iff in H1. destruct H1 as [A B]. apply Nat.leb_le in A, B. unfold good_label. lia.
Qed.

Lemma removelast_last_eq {A} (l : list A) d : l <> [] -> removelast l ++ [last l d] = l.
Proof. intros H. symmetry. apply app_removelast_last. exact H. Qed.

Lemma Forall_removelast {A} (P : A -> Prop) l : Forall P l -> Forall P (removelast l).
Proof.
  induction 1 as [|x l Hx Hl IH]; [constructor|]. destruct l; [constructor|].
  change (removelast (x :: a :: l)) with (x :: removelast (a :: l)). constructor; assumption.
Qed.

Lemma Forall_last {A} (P : A -> Prop) l d : l <> [] -> Forall P l -> P (last l d).
Proof.
  intros Hne H. rewrite Forall_forall in H. apply H. rewrite <- (removelast_last_eq l d Hne) at 2.
  apply in_or_app. right. left. reflexivity.
Qed.

(* the loop on "l1.l2. ... lk" (no trailing dot), from the fresh builder *)
Lemma pnr_rel_runs ess ls p q n : ls <> [] -> labels_ok ess ls = true -> Forall good_label ls -> length (lwire ls) <= 254 ->
  runsN n fend (pnr_loop n q q nb_new) (render_rel ess ls) p p (nb_of (removelast ls) (last ls [])).
Proof.
  intros Hne Hok Hg Hlen. rewrite <- (app_nil_r (render_rel ess ls)).
  apply (pnr_rel fend [] p p q _ ls ess []); [exact Hne|exact Hok|exact Hg|exact Hlen| |rewrite nb_new_of; apply nb_inv_new].
  intros n1 lst1 b1 Hb1. cbn [app] in Hb1. rewrite <- (nb_inv_eq _ _ _ Hb1). apply pnr_end.
Qed.

(* ... and on "l1.l2. ... lk." *)
Lemma pnr_abs_runs ess ls p q n : ls <> [] -> labels_ok ess ls = true -> Forall good_label ls -> length (lwire ls) <= 254 ->
  runsN n fend (pnr_loop n q q nb_new) (render_rel ess ls ++ [46%N]) p p (nb_of ls []).
Proof.
  intros Hne Hok Hg Hlen.
  apply (pnr_rel fend [46%N] p p q _ ls ess []); [exact Hne|exact Hok|exact Hg|exact Hlen| |rewrite nb_new_of; apply nb_inv_new].
  intros n1 lst1 b1 Hb1. cbn [app] in Hb1.
  apply (pnr_dot fend [] p p q _ (removelast ls) (last ls [])); [|exact Hb1| |].
  - intros n2 lst2 b2 Hb2. rewrite (removelast_last_eq ls [] Hne) in Hb2. rewrite <- (nb_inv_eq _ _ _ Hb2). apply pnr_end.
  - pose proof (Forall_last good_label ls [] Hne Hg) as G. unfold good_label in G. destruct (last ls []); [simpl in G; lia|discriminate].
  - rewrite (nb_wire_len _ _ _ Hb1). rewrite <- (removelast_last_eq ls [] Hne) in Hlen at 1. rewrite lwire_snoc_len in Hlen. lia.
Qed.

(* ---- tokens that are not the words "@", "." or "\#" ---------------------------------------------------------------------------- *)

Lemma raw_label_unq c : raw_ok KLabel c = true -> raw_ok KUnquoted c = true.
Proof. unfold raw_ok. intros H. apply negb_true_iff, orb_false_iff in H. destruct H as [H _]. rewrite H. reflexivity. Qed.

Lemma esc_label_unq e c : esc_ok KLabel e c = true -> esc_ok KUnquoted e c = true.
Proof.
  unfold esc_ok. intros H. apply andb_true_iff in H. destruct H as [H1 H2]. rewrite H1. cbn [andb].
  destruct e; auto. apply raw_label_unq. exact H2.
Qed.

Lemma octets_label_unq : forall s es, octets_ok KLabel es s = true -> octets_ok KUnquoted es s = true.
Proof.
  induction s as [|c s IH]; intros es H; [reflexivity|]. cbn [octets_ok] in *. apply andb_true_iff in H. destruct H as [H1 H2].
  rewrite (esc_label_unq _ _ H1), (IH _ H2). reflexivity.
Qed.

(* a continuation of a token: nothing, or something that begins with an octet that does not end a field *)
Definition tailish (R : bytes) : Prop := R = [] \/ exists y R', R = y :: R' /\ plainb y = true.

Lemma octets_tailish es s R : octets_ok KUnquoted es s = true -> tailish R -> tailish (render_octets es s ++ R).
Proof.
  intros Hok HR. destruct s as [|c s]; [exact HR|]. right. cbn [octets_ok] in Hok. apply andb_true_iff in Hok. destruct Hok as [Hc _].
  cbn [render_octets]. destruct (hd EDec es).
  - apply esc_ok_raw, raw_unq_plain in Hc. destruct Hc as [Hp _]. cbn [render_octet app]. eauto.
  - cbn [render_octet app]. eexists _, _. split; [reflexivity|reflexivity].
  - cbn [render_octet app]. eexists _, _. split; [reflexivity|reflexivity].
Qed.

Lemma expect_differs_head fld r c l d fl : r_rest r = c :: l -> fld = d :: fl -> c <> d ->
  expect_field fld r = Ok (false, r).
Proof.
  intros E -> H. apply expect_field_differs. rewrite E. cbn [length firstn]. apply bytes_eqb_head. exact H.
Qed.

(* the token is not the one-octet word [x] *)
Lemma tok_expect1 x es c s R r t : octets_ok KUnquoted es (c :: s) = true -> tailish R -> plainb x = true -> x <> 92%N ->
  render_octets es (c :: s) ++ R <> [x] -> r_rest r = (render_octets es (c :: s) ++ R) ++ t ->
  expect_field [x] r = Ok (false, r).
Proof.
  intros Hok HR Hx H92 Hne E. cbn [octets_ok] in Hok. apply andb_true_iff in Hok. destruct Hok as [Hc Hs].
  cbn [render_octets] in *. destruct (hd EDec es).
  - cbn [render_octet app] in *. destruct (N.eq_dec c x) as [->|Hcx].
    + destruct (octets_tailish (tl es) s R Hs HR) as [HY|(y & Y' & HY & Hy)].
      * rewrite HY in Hne. congruence.
      * rewrite HY in E. cbn [app] in E. eapply (expect_field_cont [x] bytes_eqb r y (Y' ++ t)); [exact E|exact Hy].
    + eapply expect_differs_head; [exact E|reflexivity|exact Hcx].
  - cbn [render_octet app] in E. eapply expect_differs_head; [exact E|reflexivity|congruence].
  - cbn [render_octet app] in E. eapply expect_differs_head; [exact E|reflexivity|congruence].
Qed.

(* the token is not the word \# *)
Lemma tok_expect_bh es c s R r t : octets_ok KUnquoted es (c :: s) = true -> tailish R ->
  render_octets es (c :: s) ++ R <> bh -> r_rest r = (render_octets es (c :: s) ++ R) ++ t ->
  expect_field bh r = Ok (false, r).
Proof.
  intros Hok HR Hne E. cbn [octets_ok] in Hok. apply andb_true_iff in Hok. destruct Hok as [Hc Hs].
  cbn [render_octets] in *. destruct (hd EDec es).
  - apply esc_ok_raw, raw_unq_plain in Hc. destruct Hc as [_ H92].
    cbn [render_octet app] in E. eapply expect_differs_head; [exact E|reflexivity|exact H92].
  - cbn [render_octet app] in *. destruct (N.eq_dec c 35) as [->|Hc35].
    + destruct (octets_tailish (tl es) s R Hs HR) as [HY|(y & Y' & HY & Hy)].
      * rewrite HY in Hne. unfold bh in Hne. congruence.
      * rewrite HY in E. cbn [app] in E. eapply (expect_field_cont bh bytes_eqb r y (Y' ++ t)); [exact E|exact Hy].
    + apply expect_field_differs. rewrite E. unfold bh. cbn [length firstn bytes_eqb].
      apply N.eqb_neq in Hc35. rewrite Hc35. reflexivity.
  - cbn [render_octet dec3 app] in E. apply expect_field_differs. rewrite E. unfold bh. cbn [length firstn bytes_eqb].
    assert (H : (48 + c / 100 =? 35)%N = false) by (apply N.eqb_neq; generalize (c / 100)%N; intros; lia).
    rewrite H. reflexivity.
Qed.

Lemma render_octets_nonempty es c s : render_octets es (c :: s) <> [].
Proof. cbn [render_octets]. destruct (hd EDec es); discriminate. Qed.

Lemma render_octets_len es c s : 1 <= length (render_octets es (c :: s)).
Proof. pose proof (render_octets_nonempty es c s). destruct (render_octets es (c :: s)); [congruence|simpl; lia]. Qed.

Lemma label_head es c s : octets_ok KLabel es (c :: s) = true ->
  exists h Y, render_octets es (c :: s) = h :: Y /\ h <> 46%N.
Proof.
  cbn [octets_ok]. intros H. apply andb_true_iff in H. destruct H as [Hc _]. cbn [render_octets]. destruct (hd EDec es).
  - apply esc_ok_raw, raw_label_plain in Hc. cbn [render_octet app]. eexists _, _. split; [reflexivity|tauto].
  - cbn [render_octet app]. eexists _, _. split; [reflexivity|discriminate].
  - cbn [render_octet app]. eexists _, _. split; [reflexivity|discriminate].
Qed.

(* ---- parse_name ----------------------------------------------------------------------------------------------------------------------- *)

Lemma beq_eq : forall a b, beq a b = true -> a = b.
Proof.
  induction a as [|x a IH]; intros [|y b] H; simpl in H; try discriminate; [reflexivity|].
  apply andb_true_iff in H. destruct H as [H1 H2]. apply N.eqb_eq in H1. rewrite H1, (IH b H2). reflexivity.
Qed.

Lemma lbeq_eq : forall a b, lbeq a b = true -> a = b.
Proof.
  induction a as [|x a IH]; intros [|y b] H; simpl in H; try discriminate; [reflexivity|].
  apply andb_true_iff in H. destruct H as [H1 H2]. apply beq_eq in H1. rewrite H1, (IH b H2). reflexivity.
Qed.

Lemma beq_false a b : beq a b = false -> a <> b.
Proof.
  intros H Heq. subst b. assert (G : forall a, beq a a = true).
  { induction a0 as [|x a0 IH]; simpl; [reflexivity|]. rewrite N.eqb_refl, IH. reflexivity. }
  rewrite G in H. discriminate.
Qed.

Lemma opt_lbeq_eq o ls : opt_lbeq o ls = true -> o = Some ls.
Proof. destruct o as [x|]; simpl; [|discriminate]. intros H. apply lbeq_eq in H. congruence. Qed.

Definition origin_good (origin : option (list label)) : Prop := forall ols, origin = Some ols -> good_labels ols.

Lemma root_name_of : root_name = name_of []. Proof. reflexivity. Qed.

Lemma good_firstn k ls : Forall good_label ls -> Forall good_label (firstn k ls).
Proof. intros H. rewrite Forall_forall in *. intros l Hl. apply H. eapply In_firstn. exact Hl. Qed.

(* the text of a non-root name as "first label, then something tail-ish" *)
Lemma render_rel_shape ess l ls : exists R, render_rel ess (l :: ls) = render_octets (hd [] ess) l ++ R /\ tailish R /\
  (R = [] <-> ls = []).
Proof.
  cbn [render_rel]. destruct ls as [|l2 ls].
  - exists []. split; [reflexivity|]. split; [left; reflexivity|tauto].
  - eexists. split; [reflexivity|]. split; [right; eexists _, _; split; reflexivity|]. split; [discriminate|discriminate].
Qed.

Lemma tailish_app R S : tailish R -> tailish S -> tailish (R ++ S).
Proof. intros [->|(y & R' & -> & Hy)] HS; [exact HS|]. right. cbn [app]. eauto. Qed.

Theorem name_runs first bol origin nc ls p :
  name_ok first bol origin nc ls = true -> origin_good origin ->
  runs fend (parse_name (option_map name_of origin)) (render_name nc ls) p p (name_of ls).
Proof.
  unfold name_ok. intros H Hog. apply andb_true_iff in H. destruct H as [Hgood H].
  apply good_labels_b_spec in Hgood. pose proof Hgood as [Hg Hwl]. rewrite wire_len_lwire in Hwl.
  unfold parse_name. apply runs_getpos. intros q.
  destruct nc as [|ess|k ess]; cbn [render_name].
  - (* @ *)
    apply opt_lbeq_eq in H. subst origin. cbn [option_map].
    apply runs_app_nil. eapply runs_bind; [apply expect_field_yes; [reflexivity|repeat constructor; discriminate]|intros t Ht; exact Ht|].
    cbv beta iota. apply runs_ret.
  - apply andb_true_iff in H. destruct H as [Hok _]. destruct ls as [|l ls].
    + (* the root *)
      cbn [render_rel app]. eapply runs_peek.
      { intros r t E _. eapply expect_differs_head; [exact E|reflexivity|discriminate]. }
      cbv beta iota. apply runs_app_nil. eapply runs_bind; [apply expect_field_yes; [reflexivity|repeat constructor; discriminate]|intros t Ht; exact Ht|].
      cbv beta iota. rewrite root_name_of. apply runs_ret.
    + (* absolute *)
      pose proof Hok as Hok'. cbn [labels_ok] in Hok'. apply andb_true_iff in Hok'. destruct Hok' as [Hl _].
      inversion Hg as [|? ? Hgl _]; subst. unfold good_label in Hgl. destruct l as [|c l]; [simpl in Hgl; lia|].
      destruct (render_rel_shape ess (c :: l) ls) as (R & ER & HR & _).
      assert (HR' : tailish (R ++ [46%N])) by (apply tailish_app; [exact HR|right; eexists _, _; split; reflexivity]).
      assert (Hlen2 : 2 <= length (render_octets (hd [] ess) (c :: l) ++ R ++ [46%N])).
      { pose proof (render_octets_len (hd [] ess) c l). rewrite !app_length. cbn [length]. lia. }
      eapply runs_peek.
      { intros r t E _. rewrite ER in E. rewrite <- (app_assoc _ R [46%N]) in E.
        eapply (tok_expect1 64%N (hd [] ess) c l (R ++ [46%N])); [apply octets_label_unq; exact Hl|exact HR'|reflexivity|discriminate| |exact E].
        intros Heq. rewrite Heq in Hlen2. simpl in Hlen2. lia. }
      cbv beta iota. eapply runs_peek.
      { intros r t E _. rewrite ER in E. rewrite <- (app_assoc _ R [46%N]) in E.
        eapply (tok_expect1 46%N (hd [] ess) c l (R ++ [46%N])); [apply octets_label_unq; exact Hl|exact HR'|reflexivity|discriminate| |exact E].
        intros Heq. rewrite Heq in Hlen2. simpl in Hlen2. lia. }
      cbv beta iota. unfold parse_non_root_name. apply runs_getpos. intros q2. apply runs_get_fuel. intros n.
      apply runsN_app_nil.
      eapply runsN_bind_l; [apply pnr_abs_runs; [discriminate|exact Hok|exact Hg|lia]|intros t Ht; exact Ht|].
      cbv beta.
      match goal with |- context [nb_fq ?b] => set (bb := b) end.
      assert (Hinv : nb_inv bb ((c :: l) :: ls) []) by (apply nb_of_inv; [exact Hg|simpl; lia|cbn [length]; rewrite Nat.add_0_r; exact Hwl]).
      destruct (nb_finish_exact _ _ Hinv) as [Hfq Hfin]. rewrite Hfq, Hfin. apply runs_ret.
  - (* relative to the origin *)
    repeat (apply andb_true_iff in H; destruct H as [H ?]).
    apply Nat.leb_le in H, H5. apply opt_lbeq_eq in H4. subst origin. cbn [option_map].
    apply negb_true_iff, beq_false in H2. cbn [render_name] in H2.
    pose proof (Hog _ eq_refl) as Hss.
    set (rel := firstn k ls) in *.
    assert (Hrel : rel <> []) by (unfold rel; destruct ls; [simpl in H5; lia|destruct k; [lia|discriminate]]).
    assert (Hgr : Forall good_label rel) by (apply good_firstn; exact Hg).
    destruct rel as [|l rel'] eqn:Erel; [congruence|].
    inversion Hgr as [|? ? Hgl _]; subst. unfold good_label in Hgl. destruct l as [|c l]; [simpl in Hgl; lia|].
    pose proof H3 as Hok'. cbn [labels_ok] in Hok'. apply andb_true_iff in Hok'. destruct Hok' as [Hl _].
    destruct (render_rel_shape ess (c :: l) rel') as (R & ER & HR & _).
    eapply runs_peek.
    { intros r t E _. rewrite ER in E, H2.
      eapply (tok_expect1 64%N (hd [] ess) c l R); [apply octets_label_unq; exact Hl|exact HR|reflexivity|discriminate|exact H2|exact E]. }
    cbv beta iota. eapply runs_peek.
    { intros r t E _. rewrite ER in E.
      eapply (tok_expect1 46%N (hd [] ess) c l R); [apply octets_label_unq; exact Hl|exact HR|reflexivity|discriminate| |exact E].
      destruct (label_head _ _ _ Hl) as (h & Y & EY & Hh). rewrite EY. cbn [app]. congruence. }
    cbv beta iota. unfold parse_non_root_name. apply runs_getpos. intros q2. apply runs_get_fuel. intros n.
    apply runsN_app_nil.
    assert (Hlw : length (lwire rel) <= 254) by (unfold rel; pose proof (firstn_lwire_le ls k); lia).
    rewrite Erel in Hlw. unfold rel in Erel.
    eapply runsN_bind_l; [apply pnr_rel_runs; [discriminate|exact H3|exact Hgr|exact Hlw]|intros t Ht; exact Ht|].
    cbv beta.
    match goal with |- context [nb_of (removelast ?x) (last ?x [])] => set (full := x) in * end.
    set (ds := removelast full). set (cur := last full []).
    assert (Hdc : ds ++ [cur] = full) by (apply removelast_last_eq; exact Hrel).
    assert (Hcur : good_label cur) by (apply Forall_last; [exact Hrel|exact Hgr]). unfold good_label in Hcur.
    match goal with |- context [nb_fq ?b] => set (bb := b) end.
    assert (Hinv : nb_inv bb ds cur).
    { apply nb_of_inv; [apply Forall_removelast; exact Hgr|lia|]. rewrite <- Hdc, lwire_snoc_len in Hlw. lia. }
    assert (Hfq : nb_fq bb = false).
    { unfold bb, nb_fq, nb_of. cbn [nb_len]. apply N.eqb_neq. lia. }
    rewrite Hfq.
    assert (Hls : ds ++ cur :: skipn k ls = ls).
    { replace (ds ++ cur :: skipn k ls) with ((ds ++ [cur]) ++ skipn k ls) by (rewrite <- app_assoc; reflexivity).
      rewrite Hdc. rewrite <- (firstn_skipn k ls) at 2. f_equal. symmetry. exact Erel. }
    rewrite (nb_finish_with_suffix_exact _ ds cur (skipn k ls) Hinv); [|destruct cur; [simpl in Hcur; lia|discriminate]|exact Hss|rewrite Hls; exact Hgood].
    rewrite Hls. apply runs_ret.
Qed.
