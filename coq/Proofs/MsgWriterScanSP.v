(* The compression scan only ever stands on, and only ever reports, members of the set L of
   label starts (so a pointer it yields leads to a label start of an earlier name), and a
   reported match covers at least one label (so compressing never lengthens a name). *)
From QV Require Import Base.ListX Model.MsgWriter Proofs.NameWireP Proofs.MsgWriterP
     Proofs.MsgWriterScanP Proofs.MsgWriterClosP.

Local Open Scope nat_scope.

Section ScanL.
Variables (b : bytes) (lo c h : nat) (L : nat -> Prop).
Hypothesis HC : closed b lo c h L.

Lemma next_real_L : forall fuel i p, nextok b lo c h L i -> next_real fuel b i = Ok p -> L p.
Proof.
  induction fuel as [|fuel IH]; intros i p Hk; simpl; [discriminate|].
  destruct Hk as [Hs|[hi [l [K1 [K2 [K3 [K4 [K5 [K6 K7]]]]]]]]].
  - destruct (HC i Hs) as [x [X1 [X2 _]]]. rewrite X1, (small_not_pointer x X2).
    intros H; inversion H; subst; auto.
  - rewrite K1, K2, K3. fold (ptr_target hi l).
    destruct (ptr_target hi l <? i); [|discriminate]. apply IH. left; auto.
Qed.

Lemma move_L i p : nextok b lo c h L i -> move_to_next_real_label b i = Ok p -> L p.
Proof. unfold move_to_next_real_label. apply next_real_L. Qed.

Lemma next_of_label p len : L p -> nth_error b p = Some len -> (0 < len)%N ->
  nextok b lo c h L (p + 1 + N.to_nat len).
Proof.
  intros Hs E H0. destruct (HC p Hs) as [x [X1 [_ [_ X4]]]]. rewrite E in X1. inversion X1; subst x.
  apply X4. lia.
Qed.

Lemma skip_labels_L cur : forall k p ls p', name_at b cur p ls -> L p -> k <= length ls ->
  skip_labels k b p = Ok p' -> L p'.
Proof.
  induction k as [|k IH]; intros p ls p' Hn Hs Hk; simpl.
  - intros H; inversion H; subst; auto.
  - destruct ls as [|l rest]; [simpl in Hk; lia|].
    pose proof (closed_real _ _ _ _ _ _ HC Hs) as Hr.
    destruct (name_at_cons_real b cur p l rest Hn Hr) as [len [E [H0 [H63 [Hc [_ Hn']]]]]].
    rewrite E. replace (p + (N.to_nat len + 1)) with (p + 1 + N.to_nat len) by lia.
    destruct (move_ok b cur _ _ Hn') as [p2 [M1 [M2 [M3 _]]]]. rewrite M1. simpl.
    apply (IH p2 rest); auto; [|simpl in Hk; lia].
    eapply move_L; [|exact M1]. apply next_of_label; auto.
Qed.

Definition ctxL (dl : nat) (x : pctx) : Prop :=
  L (c_ptr x) /\ forall sc pp, c_match x = Some (sc, pp) -> L pp /\ sc < dl.
Definition octxL (dl : nat) (o : option pctx) : Prop :=
  match o with Some x => ctxL dl x | None => True end.

Lemma step_ctx_L cur cp done lab rest x x' :
  ctx_ok b cur cp done (lab :: rest) x -> ctxL (length done) x ->
  step_ctx b cp (length done) lab x = Ok x' -> ctxL (S (length done)) x'.
Proof.
  intros [Hr [Hnone [rem [Hn [Hlen Hm]]]]] [HL HmL].
  unfold step_ctx. destruct (length done <? c_start x) eqn:E.
  - intros H; inversion H; subst x'. split; auto.
    intros sc pp Hs. destruct (HmL sc pp Hs). split; auto.
  - apply Nat.ltb_ge in E.
    destruct rem as [|pl rem']; [simpl in Hlen; lia|].
    destruct (name_at_cons_real b cur _ pl rem' Hn Hr) as [len [E1 [H0 [H63 [Hc [Hpl Hn']]]]]].
    rewrite E1.
    destruct (length b <? c_ptr x + 1 + N.to_nat len); [discriminate|].
    destruct (move_ok b cur _ _ Hn') as [p2 [M1 [M2 [M3 _]]]]. rewrite M1. simpl.
    intros H; inversion H; subst x'. simpl. split.
    + eapply move_L; [|exact M1]. apply next_of_label; auto.
    + intros sc pp Hs.
      destruct (hp_new (c_ptr x)) as [pp0|] eqn:Eh; [|discriminate].
      destruct (labels_equal cp lab (slice b (c_ptr x + 1) (c_ptr x + 1 + N.to_nat len))); [|discriminate].
      apply hp_new_some in Eh as [-> _].
      destruct (c_match x) as [[sc0 pp1]|] eqn:Em.
      * inversion Hs; subst sc0 pp1. destruct (HmL sc pp eq_refl). split; auto.
      * inversion Hs; subst sc pp. split; auto.
Qed.

Lemma opt_step_L cur cp done lab rest o o' :
  octx_ok b cur cp done (lab :: rest) o -> octxL (length done) o ->
  opt_step b cp (length done) lab o = Ok o' ->
  octx_ok b cur cp (done ++ [lab]) rest o' /\ octxL (S (length done)) o'.
Proof.
  destruct o as [x|]; simpl; intros H HL.
  - destruct (step_ctx_ok _ _ _ _ _ _ _ H) as [x' [E H']]. rewrite E. simpl.
    intros K; inversion K; subst o'. simpl. split; auto. eapply step_ctx_L; eauto.
  - intros K; inversion K; subst o'. simpl. auto.
Qed.

Lemma dedupe_L dl cs : octxL dl (fst cs) -> octxL dl (snd cs) ->
  octxL dl (fst (dedupe cs)) /\ octxL dl (snd (dedupe cs)).
Proof.
  destruct cs as [[a|] [d|]]; simpl; intros H1 H2; auto.
  destruct (c_ptr a =? c_ptr d); simpl; auto.
  destruct (c_match a) as [[sa ?]|]; destruct (c_match d) as [[sb ?]|]; simpl; auto.
  destruct (sa <=? sb); simpl; auto.
Qed.

Lemma scan_L cur cp : forall labs done cs cs',
  octx_ok b cur cp done labs (fst cs) -> octx_ok b cur cp done labs (snd cs) ->
  octxL (length done) (fst cs) -> octxL (length done) (snd cs) ->
  scan b cp (length done) labs cs = Ok cs' ->
  octxL (length (done ++ labs)) (fst cs') /\ octxL (length (done ++ labs)) (snd cs').
Proof.
  induction labs as [|lab rest IH]; intros done cs cs' H1 H2 L1 L2.
  - simpl. intros K; inversion K; subst. rewrite app_nil_r. auto.
  - simpl. destruct (dedupe_ok _ _ _ _ _ cs H1 H2) as [D1 D2].
    destruct (dedupe_L _ cs L1 L2) as [E1 E2].
    destruct (dedupe cs) as [c0 c1]. simpl in D1, D2, E1, E2.
    destruct (opt_step b cp (length done) lab c0) as [c0'| |] eqn:S0; simpl; try discriminate.
    destruct (opt_step b cp (length done) lab c1) as [c1'| |] eqn:S1; simpl; try discriminate.
    destruct (opt_step_L _ _ _ _ _ _ _ D1 E1 S0) as [K0 M0].
    destruct (opt_step_L _ _ _ _ _ _ _ D2 E2 S1) as [K1 M1].
    intros Hs.
    specialize (IH (done ++ [lab]) (c0', c1') cs' K0 K1).
    rewrite app_length in IH. simpl in IH. replace (length done + 1) with (S (length done)) in IH by lia.
    rewrite <- app_assoc in IH. simpl in IH. apply IH; auto.
Qed.

Lemma build_ctx_L cur n pr x : prior_ok b cur pr -> L (p_ptr pr) ->
  build_prior_ctx b (nm_len n) pr = Ok x -> ctxL 0 x.
Proof.
  intros [H1 [H2 [H3 [ls [H4 H5]]]]] HL. unfold build_prior_ctx, nm_len. rewrite H5.
  destruct (S (length n) <? S (length ls)) eqn:E.
  - apply Nat.ltb_lt in E.
    destruct (skip_labels (S (length ls) - S (length n)) b (p_ptr pr)) as [p'| |] eqn:Sk; simpl; try discriminate.
    intros K; inversion K; subst x. split; simpl; [|intros; discriminate].
    eapply skip_labels_L; [exact H4|exact HL| |exact Sk]. lia.
  - simpl. intros K; inversion K; subst x. split; simpl; [auto|intros; discriminate].
Qed.

Lemma opt_build_L cur n o o' : oprior_ok b cur o -> (forall pr, o = Some pr -> L (p_ptr pr)) ->
  opt_build b (nm_len n) o = Ok o' -> octxL 0 o'.
Proof.
  destruct o as [pr|]; simpl; intros H HL.
  - destruct (build_prior_ctx b (nm_len n) pr) as [x| |] eqn:E; simpl; try discriminate.
    intros K; inversion K; subst o'. simpl. eapply build_ctx_L; eauto.
  - intros K; inversion K; subst o'. exact I.
Qed.

Lemma longest_L dl cs sc pp : octxL dl (fst cs) -> octxL dl (snd cs) ->
  longest_match cs = Some (sc, pp) -> L pp /\ sc < dl.
Proof.
  intros H1 H2. unfold longest_match, ctx_match.
  destruct (fst cs) as [x|]; destruct (snd cs) as [y|]; simpl in *.
  - destruct (c_match x) as [[sa pa]|] eqn:Ea; destruct (c_match y) as [[sb pb]|] eqn:Eb; try discriminate.
    + simpl. destruct (sb <? sa); intros K; inversion K; subst.
      * apply H2; auto.
      * apply H1; auto.
    + intros K; inversion K; subst. apply H1; auto.
    + intros K; inversion K; subst. apply H2; auto.
  - destruct (c_match x) as [[sa pa]|] eqn:Ea; try discriminate.
    intros K; inversion K; subst. apply H1; auto.
  - destruct (c_match y) as [[sb pb]|] eqn:Eb; try discriminate.
    intros K; inversion K; subst. apply H2; auto.
  - discriminate.
Qed.

(* the whole search: a reported match points into L and leaves at least one label to the pointer *)
Lemma search_L cur cp n o1 o2 cs sc pp : oprior_ok b cur o1 -> oprior_ok b cur o2 ->
  (forall pr, o1 = Some pr -> L (p_ptr pr)) -> (forall pr, o2 = Some pr -> L (p_ptr pr)) ->
  (let* c0 := opt_build b (nm_len n) o1 in
   let* c1 := opt_build b (nm_len n) o2 in
   scan b cp 0 n (c0, c1)) = Ok cs ->
  longest_match cs = Some (sc, pp) -> L pp /\ sc < length n.
Proof.
  intros H1 H2 L1 L2.
  destruct (opt_build_ok b cur cp n o1 H1) as [c0 [E0 K0]]. rewrite E0. simpl.
  destruct (opt_build_ok b cur cp n o2 H2) as [c1 [E1 K1]]. rewrite E1. simpl.
  intros Hs Hm.
  pose proof (opt_build_L cur n o1 c0 H1 L1 E0) as M0.
  pose proof (opt_build_L cur n o2 c1 H2 L2 E1) as M1.
  destruct (scan_L cur cp n [] (c0, c1) cs K0 K1 M0 M1 Hs) as [F1 F2].
  simpl in F1, F2. eapply longest_L; eauto.
Qed.

End ScanL.
