(* Rdata::components (model: comp_collect over the regenerated ComponentType arrays):
   the components partition the RDATA, embedded names are classified
   compressible/uncompressible exactly as RFC 3597 §4 prescribes (Spec/RdataCompS.v),
   the iterator never panics, and on VALID RDATA it never reports an error. *)
From QV Require Import Base.ListX Model.NameWire Spec.NameWireS Spec.NameRepr Proofs.NameWireP
  Proofs.NameWireSP Model.RdataM Spec.RdataFormatS Spec.RdataCompS Proofs.RdNameP
  Proofs.RdataFormatSP Proofs.RdataVP Proofs.RdataRP.
Local Open Scope nat_scope.

Definition ck_of (ty : comp_type) : ckind :=
  match ty with
  | CompressibleName => KName true
  | UncompressibleName => KName false
  | FixedLen n => KFixed n
  end.

Definition kind_of (x : component) : ckind :=
  match x with CName cb _ => KName cb | COther b => KFixed (length b) end.

(* a name component is the parsed form of a valid name *)
Definition comp_ok (x : component) : Prop :=
  match x with
  | CName _ nm => exists ls, valid_name ls /\ nm = name_of ls
  | COther _ => True
  end.

(* what may follow the declared layout: nothing, or one non-empty remainder *)
Definition is_tail (tl : list ckind) : Prop := tl = [] \/ exists k, 0 < k /\ tl = [KFixed k].

Lemma ck_of_inj a b : ck_of a = ck_of b -> a = b.
Proof. destruct a, b; cbn; intros H; inversion H; reflexivity. Qed.

(* ---- the steps of the iterator ---- *)

Lemma uname_ok r : wf_bytes r ->
  match uname r with
  | Ok (nm, len) => exists ls, valid_name ls /\ nm = name_of ls /\ len = wire_len ls /\
                    r = wire_of ls ++ skipn len r /\ len <= length r /\ sname r = Some len
  | Err e => sname r = None /\ e <> ROutOfFuel /\ e <> InvalidName OutOfFuel
  | Panic => False
  end.
Proof.
  intros Hwf. unfold uname. pose proof (uname_spec r Hwf) as H.
  destruct (parse_uncompressed_name r false) as [[nm n]|e|]; cbn [map_err]; [| |exact H].
  - destruct H as (ls & D & ->). pose proof (proj1 (decodes_unc_gen r ls n) D) as (Hv & Hn & Hr).
    exists ls. split; [exact Hv|]. split; [reflexivity|]. split; [exact Hn|]. split; [exact Hr|].
    split.
    + destruct D as [D _]. apply decodes_end_le in D. lia.
    + apply sname_Some. exists ls. exact D.
  - destruct H as [H1 H2]. repeat split; auto; congruence.
Qed.

Definition name_step (cb : bool) (rest : list comp_type) (r : bytes) : res rd_err (list component) :=
  let* (nm, len) := uname r in
  let* remaining := slice_from r len in
  let* tl := comp_collect rest remaining in
  Ok (CName cb nm :: tl).

Lemma comp_collect_cname rest r :
  comp_collect (CompressibleName :: rest) r = name_step true rest r.
Proof. reflexivity. Qed.

Lemma comp_collect_uname rest r :
  comp_collect (UncompressibleName :: rest) r = name_step false rest r.
Proof. reflexivity. Qed.

Lemma comp_collect_fixed n rest r :
  comp_collect (FixedLen n :: rest) r =
  if length r <? n then Err RUnexpectedEom
  else let* tl := comp_collect rest (skipn n r) in Ok (COther (firstn n r) :: tl).
Proof.
  cbn [comp_collect]. unfold get_range.
  destruct (n <? 0) eqn:A; [apply Nat.ltb_lt in A; lia|]. cbn [orb].
  destruct (length r <? n) eqn:B; [reflexivity|]. apply Nat.ltb_ge in B.
  rewrite slice_from_ok by lia. rewrite slice_0. reflexivity.
Qed.

Lemma comp_collect_nil r : comp_collect [] r = Ok (match r with [] => [] | _ => [COther r] end).
Proof. destruct r; reflexivity. Qed.

(* ---- partition, classification, well-formed names: any layout, any octets ---- *)

Lemma name_step_partition cb rest r comps : wf_bytes r ->
  (forall r' comps', wf_bytes r' -> comp_collect rest r' = Ok comps' ->
     concat (map component_octets comps') = r' /\
     (exists tl, map kind_of comps' = map ck_of rest ++ tl /\ is_tail tl) /\
     Forall comp_ok comps') ->
  name_step cb rest r = Ok comps ->
  concat (map component_octets comps) = r /\
  (exists tl, map kind_of comps = KName cb :: map ck_of rest ++ tl /\ is_tail tl) /\
  Forall comp_ok comps.
Proof.
  intros Hwf IH H. unfold name_step in H. pose proof (uname_ok r Hwf) as U.
  destruct (uname r) as [[nm len]|e|]; cbn [bind] in H; try discriminate.
  destruct U as (ls & Hv & -> & Hn & Hr & Hl & _).
  rewrite slice_from_ok in H by exact Hl. cbn [bind] in H.
  destruct (comp_collect rest (skipn len r)) as [tl|e|] eqn:C; cbn [bind] in H; try discriminate.
  inversion H; subst comps.
  destruct (IH _ _ (wf_skipn len r Hwf) C) as (P & (t & K & T) & O).
  split; [|split].
  - cbn [map concat component_octets name_of n_wire]. rewrite P. symmetry. exact Hr.
  - exists t. split; [|exact T]. cbn [map kind_of]. rewrite K. reflexivity.
  - constructor; [|exact O]. exists ls. split; [exact Hv|reflexivity].
Qed.

Theorem comp_collect_partition : forall types r comps, wf_bytes r ->
  comp_collect types r = Ok comps ->
  concat (map component_octets comps) = r /\
  (exists tl, map kind_of comps = map ck_of types ++ tl /\ is_tail tl) /\
  Forall comp_ok comps.
Proof.
  induction types as [|ty rest IH]; intros r comps Hwf H.
  - rewrite comp_collect_nil in H. inversion H; subst comps. destruct r as [|x r'].
    + split; [reflexivity|]. split; [|constructor].
      exists []. split; [reflexivity|left; reflexivity].
    + cbn [map concat component_octets kind_of]. split; [apply app_nil_r|].
      split; [|repeat constructor].
      exists [KFixed (length (x :: r'))]. split; [reflexivity|]. right.
      eexists. split; [|reflexivity]. simpl. lia.
  - destruct ty.
    + rewrite comp_collect_cname in H. apply (name_step_partition true rest r comps Hwf IH H).
    + rewrite comp_collect_uname in H. apply (name_step_partition false rest r comps Hwf IH H).
    + rewrite comp_collect_fixed in H.
      destruct (length r <? n) eqn:B; [discriminate|]. apply Nat.ltb_ge in B.
      destruct (comp_collect rest (skipn n r)) as [tl|e|] eqn:C; cbn [bind] in H; try discriminate.
      inversion H; subst comps.
      destruct (IH _ _ (wf_skipn n r Hwf) C) as (P & (t & K & T) & O).
      split; [|split].
      * cbn [map concat component_octets]. rewrite P. apply firstn_skipn.
      * exists t. split; [|exact T]. cbn [map kind_of ck_of]. rewrite K, firstn_length_le by exact B.
        reflexivity.
      * constructor; [exact I|exact O].
Qed.

(* ---- no panic, no fuel: any layout, any octets ---- *)

Definition comp_safe (x : res rd_err (list component)) : Prop :=
  x <> Panic /\ x <> Err ROutOfFuel /\ x <> Err (InvalidName OutOfFuel).

Lemma comp_safe_ok l : comp_safe (Ok l).
Proof. repeat split; discriminate. Qed.

Lemma comp_safe_bind x (f : list component -> list component) :
  comp_safe x -> comp_safe (let* tl := x in Ok (f tl)).
Proof.
  intros (H1 & H2 & H3). destruct x as [l|e|]; cbn [bind]; [apply comp_safe_ok| |congruence].
  repeat split; congruence.
Qed.

Lemma name_step_safe cb rest r : wf_bytes r ->
  (forall r', wf_bytes r' -> comp_safe (comp_collect rest r')) -> comp_safe (name_step cb rest r).
Proof.
  intros Hwf IH. unfold name_step. pose proof (uname_ok r Hwf) as U.
  destruct (uname r) as [[nm len]|e|]; cbn [bind]; [| |contradiction].
  - destruct U as (ls & _ & _ & _ & _ & Hl & _). rewrite slice_from_ok by exact Hl. cbn [bind].
    apply (comp_safe_bind _ (fun tl => CName cb nm :: tl)). apply IH. apply wf_skipn. exact Hwf.
  - destruct U as (_ & H1 & H2). repeat split; congruence.
Qed.

Theorem comp_collect_safe : forall types r, wf_bytes r -> comp_safe (comp_collect types r).
Proof.
  induction types as [|ty rest IH]; intros r Hwf.
  - rewrite comp_collect_nil. apply comp_safe_ok.
  - destruct ty.
    + rewrite comp_collect_cname. apply name_step_safe; auto.
    + rewrite comp_collect_uname. apply name_step_safe; auto.
    + rewrite comp_collect_fixed. destruct (length r <? n); [repeat split; discriminate|].
      apply (comp_safe_bind _ (fun tl => COther (firstn n r) :: tl)). apply IH. apply wf_skipn. exact Hwf.
Qed.

(* ---- on RDATA that matches the format, the layout derived from the format never fails ---- *)

Lemma layout_total cb : forall g types r, wf_bytes r ->
  map ck_of types = layout_of cb g -> smatch g r = true ->
  exists comps, comp_collect types r = Ok comps.
Proof.
  induction g as [|f g IH]; intros types r Hwf L M.
  - cbn [layout_of] in L. destruct types; [|discriminate]. rewrite comp_collect_nil. eauto.
  - cbn [layout_of] in L. destruct (existsb is_FName (f :: g)) eqn:X.
    2: { destruct types; [|discriminate]. rewrite comp_collect_nil. eauto. }
    destruct f; try (destruct types; [|discriminate]; rewrite comp_collect_nil; eauto).
    + (* a name *)
      destruct types as [|ty types']; [discriminate|]. cbn [map] in L. inversion L as [[Hty Hrest]].
      rewrite smatch_name in M. pose proof (uname_ok r Hwf) as U.
      assert (S : name_step cb types' r = comp_collect (ty :: types') r).
      { destruct ty, cb; try discriminate; reflexivity. }
      rewrite <- S. unfold name_step.
      destruct (uname r) as [[nm len]|e|]; [| |contradiction].
      * destruct U as (ls & _ & _ & _ & _ & Hl & Sn). rewrite Sn in M. cbn [bind].
        rewrite slice_from_ok by exact Hl. cbn [bind].
        destruct (IH types' (skipn len r) (wf_skipn len r Hwf) Hrest M) as [tl C]. rewrite C. cbn [bind]. eauto.
      * destruct U as (Sn & _). rewrite Sn in M. discriminate.
    + (* fixed octets, merged with the fixed octets that follow *)
      rewrite smatch_bytes in M. apply andb_true_iff in M. destruct M as [K M]. apply Nat.leb_le in K.
      destruct (layout_of cb g) as [|[cb'|m] r0] eqn:Lg.
      * destruct types as [|ty types']; [discriminate|]. cbn [map] in L. inversion L as [[Hty Hrest]].
        change (KFixed n) with (ck_of (FixedLen n)) in Hty. apply ck_of_inj in Hty. subst ty.
        rewrite comp_collect_fixed. replace (length r <? n) with false by (symmetry; apply Nat.ltb_ge; lia).
        destruct (IH types' (skipn n r) (wf_skipn n r Hwf) Hrest M) as [tl C]. rewrite C. cbn [bind]. eauto.
      * destruct types as [|ty types']; [discriminate|]. cbn [map] in L. inversion L as [[Hty Hrest]].
        change (KFixed n) with (ck_of (FixedLen n)) in Hty. apply ck_of_inj in Hty. subst ty.
        rewrite comp_collect_fixed. replace (length r <? n) with false by (symmetry; apply Nat.ltb_ge; lia).
        destruct (IH types' (skipn n r) (wf_skipn n r Hwf) Hrest M) as [tl C]. rewrite C. cbn [bind]. eauto.
      * destruct types as [|ty types']; [discriminate|]. cbn [map] in L. inversion L as [[Hty Hrest]].
        change (KFixed (n + m)) with (ck_of (FixedLen (n + m))) in Hty. apply ck_of_inj in Hty. subst ty.
        assert (L' : map ck_of (FixedLen m :: types') = KFixed m :: r0) by (cbn [map ck_of]; rewrite Hrest; reflexivity).
        destruct (IH (FixedLen m :: types') (skipn n r) (wf_skipn n r Hwf) L' M) as [tl C].
        rewrite comp_collect_fixed in C. rewrite skipn_length in C.
        destruct (length r - n <? m) eqn:B; [discriminate|]. apply Nat.ltb_ge in B.
        rewrite skipn_plus in C.
        destruct (comp_collect types' (skipn (n + m) r)) as [tl'|e|] eqn:C'; cbn [bind] in C; try discriminate.
        rewrite comp_collect_fixed. replace (length r <? n + m) with false by (symmetry; apply Nat.ltb_ge; lia).
        rewrite C'. cbn [bind]. eauto.
Qed.

(* ---- the regenerated ComponentType table against RFC 3597 §4 ---- *)

Theorem dispatch_components c t :
  map ck_of (lookup components_arms components_default c t) = spec_layout c t.
Proof.
  unfold spec_layout, decompressed, compressible_type, grammar, one_of, components_arms, components_default.
  unfold_types. cbn [lookup]. unfold arm_matches. cbn [existsb fst snd]. case_types c t.
Qed.

(* ---- Rdata::components ---- *)

(* ---- the executable oracle spec_components is what the iterator returns ---- *)

Definition piece_of (x : component) : piece :=
  match x with CName cb nm => PName cb (n_wire nm) | COther b => POctets b end.

Definition cagrees (x : res rd_err (list component)) (o : option (list piece)) : Prop :=
  match x with
  | Ok comps => o = Some (map piece_of comps)
  | Err _ => o = None
  | Panic => False
  end.

Lemma uname_decode0 r : wf_bytes r ->
  match uname r with
  | Ok (nm, n) => exists ls, spec_decode_name r 0 = Some (ls, n) /\ nm = name_of ls /\ n <= length r
  | Err _ => spec_decode_name r 0 = None
  | Panic => False
  end.
Proof.
  intros Hwf. pose proof (uname_ok r Hwf) as U. unfold uname in *. pose proof (uname_spec r Hwf) as H.
  destruct (parse_uncompressed_name r false) as [[nm n]|e|]; cbn [map_err] in *; [| |exact H].
  - destruct H as (ls & D & ->). destruct U as (_ & _ & _ & _ & _ & Hl & _).
    exists ls. split; [|split; [reflexivity|exact Hl]].
    apply spec_decode_name_iff, decodes_name0_unc. exact D.
  - destruct U as (Sn & _). unfold sname in Sn.
    destruct (spec_decode_name r 0) as [[? ?]|]; [discriminate|reflexivity].
Qed.

Lemma name_step_agrees cb rest r : wf_bytes r ->
  (forall r', wf_bytes r' -> cagrees (comp_collect rest r') (split_by (map ck_of rest) r')) ->
  cagrees (name_step cb rest r) (split_by (KName cb :: map ck_of rest) r).
Proof.
  intros Hwf IH. unfold name_step. cbn [split_by]. pose proof (uname_decode0 r Hwf) as U.
  destruct (uname r) as [[nm len]|e|]; cbn [bind]; [| |contradiction].
  - destruct U as (ls & -> & -> & Hl). rewrite slice_from_ok by exact Hl. cbn [bind].
    specialize (IH (skipn len r) (wf_skipn len r Hwf)).
    destruct (comp_collect rest (skipn len r)) as [tl|e|]; cbn [bind cagrees] in *; [| |contradiction].
    + rewrite IH. reflexivity.
    + rewrite IH. reflexivity.
  - cbn [cagrees]. rewrite U. reflexivity.
Qed.

Theorem comp_collect_agrees : forall types r, wf_bytes r ->
  cagrees (comp_collect types r) (split_by (map ck_of types) r).
Proof.
  induction types as [|ty rest IH]; intros r Hwf.
  - rewrite comp_collect_nil. cbn [map split_by cagrees]. destruct r; reflexivity.
  - destruct ty; cbn [map ck_of].
    + rewrite comp_collect_cname. apply name_step_agrees; auto.
    + rewrite comp_collect_uname. apply name_step_agrees; auto.
    + rewrite comp_collect_fixed. cbn [split_by].
      destruct (length r <? n) eqn:B.
      * apply Nat.ltb_lt in B. replace (n <=? length r) with false by (symmetry; apply Nat.leb_gt; lia).
        reflexivity.
      * apply Nat.ltb_ge in B. replace (n <=? length r) with true by (symmetry; apply Nat.leb_le; lia).
        specialize (IH (skipn n r) (wf_skipn n r Hwf)).
        destruct (comp_collect rest (skipn n r)) as [tl|e|]; cbn [bind cagrees] in *; [| |contradiction].
        -- rewrite IH. reflexivity.
        -- rewrite IH. reflexivity.
Qed.

Theorem components_agrees c t r : wf_bytes r ->
  cagrees (components c t r) (spec_components c t r).
Proof.
  intros Hwf. unfold components, spec_components. rewrite <- dispatch_components.
  apply comp_collect_agrees. exact Hwf.
Qed.


Theorem components_partition c t r comps : wf_bytes r -> components c t r = Ok comps ->
  concat (map component_octets comps) = r /\
  (exists tl, map kind_of comps = spec_layout c t ++ tl /\ is_tail tl) /\
  Forall comp_ok comps.
Proof.
  intros Hwf H. unfold components in H. rewrite <- dispatch_components.
  apply comp_collect_partition; assumption.
Qed.

Theorem components_safe c t r : wf_bytes r ->
  components c t r <> Panic /\ components c t r <> Err ROutOfFuel /\
  components c t r <> Err (InvalidName OutOfFuel).
Proof. intros Hwf. apply comp_collect_safe. exact Hwf. Qed.

Theorem components_valid_total c t r : wf_bytes r -> matches (grammar c t) r ->
  exists comps, components c t r = Ok comps.
Proof.
  intros Hwf M. apply (smatch_iff _ _ Hwf) in M. unfold components.
  pose proof (dispatch_components c t) as D. unfold spec_layout in D.
  destruct (decompressed c t).
  - eapply layout_total; eauto.
  - destruct (lookup components_arms components_default c t); [|discriminate].
    rewrite comp_collect_nil. eauto.
Qed.

(* types without a decompressed name are one opaque component (or none when empty) *)
Theorem components_opaque c t r : decompressed c t = false ->
  components c t r = Ok (match r with [] => [] | _ => [COther r] end).
Proof.
  intros D. unfold components. pose proof (dispatch_components c t) as H. unfold spec_layout in H.
  rewrite D in H. destruct (lookup components_arms components_default c t); [|discriminate].
  apply comp_collect_nil.
Qed.
