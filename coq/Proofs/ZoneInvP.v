(* The abstraction invariant between the tree built by add and the flat list of accepted records,
   its preservation by HashMapTreeZone::add, and the verdict of add. *)
From QV Require Import Base.Res Base.Octets Base.ListX Model.ZoneTree Spec.ZoneLookupS
  Proofs.ZoneBaseP Proofs.ZoneRrsetP Proofs.ZoneViewP.

(* ---- eq_or_subdomain_of is the suffix test on lower-cased names *)
Lemma forallb_combine_lc l1 l2 : length l1 = length l2 ->
  (forallb (fun p => label_eqb (fst p) (snd p)) (combine l1 l2) = true <-> lc l1 = lc l2).
Proof.
  revert l2; induction l1 as [|x l1 IH]; intros [|y l2] H; simpl in *; try discriminate.
  - tauto.
  - rewrite andb_true_iff, label_eqb_iff, IH by lia. split.
    + intros [E1 E2]. rewrite !lc_cons. congruence.
    + rewrite !lc_cons. intros E. inversion E. auto.
Qed.

Lemma combine_app_len {A B} (l1 l1' : list A) (l2 : list B) : length l1 = length l2 ->
  combine (l1 ++ l1') l2 = combine l1 l2.
Proof.
  revert l2; induction l1 as [|x l1 IH]; intros [|y l2] H; simpl in *; try discriminate; auto.
  - destruct l1'; reflexivity.
  - rewrite IH by lia. reflexivity.
Qed.

Lemma eq_or_subdomain_of_iff a b : eq_or_subdomain_of a b = true <-> exists q, lc a = q ++ lc b.
Proof.
  unfold eq_or_subdomain_of, name_len. rewrite andb_true_iff. split.
  - intros [H1 H2]. apply Nat.leb_le in H1.
    rewrite <- (firstn_skipn (length a - length b) a) in H2 at 1.
    rewrite rev_app_distr in H2. rewrite combine_app_len in H2
      by (rewrite !rev_length, skipn_length; lia).
    apply forallb_combine_lc in H2; [|rewrite !rev_length, skipn_length; lia].
    rewrite !lc_rev in H2. apply (f_equal (@rev _)) in H2. rewrite !rev_involutive in H2.
    exists (lc (firstn (length a - length b) a)).
    rewrite <- H2, <- lc_app, firstn_skipn. reflexivity.
  - intros [q H].
    assert (L : length a = length q + length b).
    { apply (f_equal (@length _)) in H. rewrite app_length, !lc_length in H. exact H. }
    split; [apply Nat.leb_le; lia|].
    rewrite <- (firstn_skipn (length a - length b) a) at 1.
    rewrite rev_app_distr. rewrite combine_app_len by (rewrite !rev_length, skipn_length; lia).
    apply forallb_combine_lc; [rewrite !rev_length, skipn_length; lia|].
    rewrite !lc_rev. f_equal.
    rewrite <- (firstn_skipn (length a - length b) a) in H. rewrite lc_app in H.
    apply app_inv_length_tail in H; [tauto|]. rewrite !lc_length, skipn_length. lia.
Qed.

Lemma eq_or_subdomain_of_in_zone apex o : eq_or_subdomain_of o apex = in_zone apex o.
Proof.
  unfold in_zone. destruct (is_suffixb (lc apex) (lc o)) eqn:E.
  - apply eq_or_subdomain_of_iff. apply is_suffixb_iff. exact E.
  - destruct (eq_or_subdomain_of o apex) eqn:F; auto.
    apply eq_or_subdomain_of_iff in F. apply is_suffixb_iff in F. congruence.
Qed.

Lemma view_lc_eq p : forall d, lc p = lc d -> forall t, view p t = view d t.
Proof.
  induction p as [|x p IH]; intros [|y d] Eq t; unfold lc in Eq; simpl in Eq; try discriminate; auto.
  inversion Eq. cbn [view].
  rewrite (find_child_eqv x y) by (apply label_eqb_iff; auto).
  destruct (find_child y (node_children t)); auto.
Qed.

Section Inv.
Variable req : N -> N -> bytes -> bytes -> bool.
Hypothesis req_trans : forall cls ty a b c,
  req cls ty a b = true -> req cls ty b c = true -> req cls ty a c = true.
Variable apex : name.
Variable cls : N.

Definition pname (p : list label) : name := lc (rev p ++ apex).

Definition node_ok (R : list record) (p : list label) (x : option (name * rrset_list)) : Prop :=
  match x with
  | Some (n, d) => exists_name apex R (pname p) = true /\ lc n = pname p /\ rrsets_ok req cls R (pname p) d
  | None => exists_name apex R (pname p) = false
  end.

Definition Inv (z : zone) (R : list record) : Prop :=
  zone_name z = apex /\ z_class z = cls /\ forall p, node_ok R p (view p (z_apex z)).

(* ---- facts about exists_name / records *)
Lemma exists_name_snoc R r m :
  exists_name apex (R ++ [r]) m = exists_name apex R m || is_suffixb m (lc (r_owner r)).
Proof. unfold exists_name. rewrite existsb_snoc. apply orb_assoc. Qed.

Lemma no_records_if_absent R m ty : exists_name apex R m = false -> spec_rrset req cls R m ty = None.
Proof.
  intros H. unfold spec_rrset. destruct (records_at R m ty) as [|r0 rest] eqn:E; auto.
  exfalso. assert (Hin : In r0 (records_at R m ty)) by (rewrite E; left; reflexivity).
  unfold records_at in Hin. apply filter_In in Hin. destruct Hin as [Hin Hp].
  apply andb_true_iff in Hp. destruct Hp as [Hp _]. apply name_eqb_eq in Hp.
  unfold exists_name in H. apply orb_false_iff in H. destruct H as [_ H].
  assert (existsb (fun r => is_suffixb m (lc (r_owner r))) R = true).
  { apply existsb_exists. exists r0. split; auto. rewrite Hp. apply is_suffixb_refl. }
  congruence.
Qed.

Lemma rrsets_ok_absent R m : exists_name apex R m = false -> rrsets_ok req cls R m [].
Proof.
  intros H. split; [simpl; auto|]. intros ty. simpl. symmetry. apply no_records_if_absent. exact H.
Qed.

(* ---- the initial zone *)
Lemma Inv_new wide : Inv (zone_new apex cls wide) [].
Proof.
  split; [reflexivity|]. split; [reflexivity|]. intros p. simpl z_apex. rewrite view_node_new.
  destruct p as [|x p]; unfold node_ok, pname.
  - simpl rev. simpl app. split; [|split; [reflexivity|]].
    + unfold exists_name. rewrite name_eqb_refl. reflexivity.
    + split; [simpl; auto|]. intros ty. reflexivity.
  - unfold exists_name. simpl existsb. rewrite orb_false_r. apply name_eqb_neq.
    intros E. apply (f_equal (@length _)) in E. rewrite !lc_length, app_length, rev_length in E.
    simpl in E. lia.
Qed.

(* ---- geometry of an in-zone owner *)
Lemma in_zone_split o : in_zone apex o = true ->
  let level := length o - length apex in
  level <= length o /\ length apex <= length o /\ lc o = lc (firstn level o) ++ lc apex.
Proof.
  intros H. unfold in_zone in H. apply is_suffixb_iff in H. destruct H as [q H].
  assert (L : length o = length q + length apex).
  { apply (f_equal (@length _)) in H. rewrite app_length, !lc_length in H. exact H. }
  cbv zeta. split; [lia|]. split; [lia|].
  rewrite <- (firstn_skipn (length o - length apex) o) in H at 1. rewrite lc_app in H.
  apply app_inv_length_tail in H; [|rewrite !lc_length, skipn_length; lia].
  destruct H as [H1 H2]. rewrite <- H2. rewrite <- lc_app, firstn_skipn. reflexivity.
Qed.

Lemma prefix_suffix o level p : level <= length o -> lc o = lc (firstn level o) ++ lc apex ->
  prefixb p (descent o level) = is_suffixb (pname p) (lc o).
Proof.
  intros Hl Ho. rewrite descent_rev by exact Hl. unfold pname.
  destruct (is_suffixb (lc (rev p ++ apex)) (lc o)) eqn:E.
  - apply is_suffixb_iff in E. destruct E as [q E]. apply prefixb_iff.
    rewrite Ho, lc_app, app_assoc in E. apply app_inv_tail in E.
    exists (rev q). rewrite lc_rev, E, rev_app_distr, lc_rev, rev_involutive. reflexivity.
  - destruct (prefixb p (rev (firstn level o))) eqn:F; auto.
    apply prefixb_iff in F. destruct F as [q F].
    assert (is_suffixb (lc (rev p ++ apex)) (lc o) = true); [|congruence].
    apply is_suffixb_iff. exists (rev q). rewrite Ho, lc_app, app_assoc. f_equal.
    rewrite lc_rev in F. apply (f_equal (@rev _)) in F. rewrite rev_involutive in F.
    rewrite F, rev_app_distr, lc_rev. reflexivity.
Qed.

Lemma prefix_target o level p : level <= length o -> lc o = lc (firstn level o) ++ lc apex ->
  prefixb p (descent o level) = true -> length p = level -> pname p = lc o.
Proof.
  intros Hl Ho P Lp. rewrite descent_rev in P by exact Hl. apply prefixb_iff in P. destruct P as [q P].
  assert (q = []).
  { apply (f_equal (@length _)) in P. rewrite app_length, !lc_length, rev_length, firstn_length in P.
    destruct q; auto. simpl in P. lia. }
  subst q. rewrite app_nil_r in P. unfold pname. rewrite Ho, lc_app. f_equal.
  rewrite lc_rev, <- P, lc_rev, rev_involutive. reflexivity.
Qed.

Lemma prefix_fresh_name o level p : level <= length o -> lc o = lc (firstn level o) ++ lc apex ->
  prefixb p (descent o level) = true -> lc (skipn (level - length p) o) = pname p.
Proof.
  intros Hl Ho P. rewrite descent_rev in P by exact Hl.
  pose proof (prefixb_length _ _ P) as Lp. rewrite rev_length, firstn_length in Lp.
  apply prefixb_iff in P. destruct P as [q P].
  rewrite lc_rev in P. apply (f_equal (@rev _)) in P. rewrite rev_involutive, rev_app_distr in P.
  rewrite lc_skipn, Ho, P, <- app_assoc.
  assert (Lq : length (rev q) = level - length p).
  { apply (f_equal (@length _)) in P. rewrite app_length, !rev_length, !lc_length, firstn_length in P.
    rewrite rev_length. lia. }
  rewrite <- Lq. rewrite skipn_app, skipn_all, Nat.sub_diag. simpl.
  unfold pname. rewrite lc_app, lc_rev. reflexivity.
Qed.

(* ---- spelling of node names *)
Definition Inv_sp (z : zone) (R : list record) : Prop :=
  forall p n d, view p (z_apex z) = Some (n, d) -> n = spelled apex R (pname p).

Lemma find_app_l {A} (P : A -> bool) l1 l2 :
  find P (l1 ++ l2) = match find P l1 with Some x => Some x | None => find P l2 end.
Proof. induction l1 as [|x l1 IH]; simpl; auto. destruct (P x); auto. Qed.

Lemma find_none_existsb {A} (P : A -> bool) l : existsb P l = false -> find P l = None.
Proof.
  induction l as [|x l IH]; simpl; auto. destruct (P x); simpl; [discriminate|auto].
Qed.

Lemma spelled_snoc_exists R r m : exists_name apex R m = true ->
  spelled apex (R ++ [r]) m = spelled apex R m.
Proof.
  unfold exists_name, spelled. intros H. destruct (name_eqb m (lc apex)); auto. simpl in H.
  rewrite find_app_l.
  destruct (find (fun r0 => is_suffixb m (lc (r_owner r0))) R) eqn:F; auto.
  exfalso. apply existsb_exists in H. destruct H as (x & Hx & Hs).
  apply (find_none _ _ F) in Hx. congruence.
Qed.

Lemma spelled_snoc_fresh R r m : exists_name apex R m = false ->
  is_suffixb m (lc (r_owner r)) = true ->
  spelled apex (R ++ [r]) m = skipn (length (r_owner r) - length m) (r_owner r).
Proof.
  unfold exists_name, spelled. intros H Hs. apply orb_false_iff in H. destruct H as [H1 H2].
  rewrite H1, find_app_l, (find_none_existsb _ _ H2). simpl. rewrite Hs. reflexivity.
Qed.

Lemma Inv_sp_new wide : Inv_sp (zone_new apex cls wide) [].
Proof.
  intros p n d V. simpl z_apex in V. rewrite view_node_new in V. destruct p; [|discriminate].
  inversion V; subst. unfold spelled, pname. simpl. rewrite name_eqb_refl. reflexivity.
Qed.

(* ---- one add *)
Lemma usub_ok a b : b <= a -> usub a b = Ok (a - b).
Proof. intros H. unfold usub. apply Nat.leb_le in H. rewrite H. reflexivity. Qed.

Lemma set_child_same lab c ch : find_child lab ch = Some c -> set_child lab c ch = ch.
Proof.
  induction ch as [|[k c0] ch IH]; simpl; auto.
  destruct (label_eqb k lab); intros H.
  - inversion H; subst. reflexivity.
  - rewrite IH; auto.
Qed.

Lemma node_update_err_same f level nm : forall t n0 d0 e, level <= length nm ->
  view (descent nm level) t = Some (n0, d0) -> f d0 = Err e ->
  node_update level nm f t = Ok (t, Some e).
Proof.
  induction level as [|l IH]; intros t n0 d0 e Hl V F.
  - simpl in *. inversion V; subst. rewrite F. reflexivity.
  - cbn [node_update descent view] in *.
    assert (Hnth : nth_error nm l = Some (nth l nm [])) by (apply nth_error_nth'; lia).
    unfold name_index. rewrite Hnth. cbn [bind].
    destruct (find_child (nth l nm []) (node_children t)) as [c|] eqn:Fc; [|discriminate].
    rewrite (IH c n0 d0 e) by (auto; lia). cbn [bind].
    rewrite (set_child_same _ _ _ Fc). destruct t; reflexivity.
Qed.

Definition state_after (R : list record) (r : record) : list record :=
  match add_verdict apex cls R r with None => R ++ [r] | Some _ => R end.

Lemma zone_add_step z R r : Inv z R ->
  exists z', zone_add req z r = Ok (z', add_verdict apex cls R r) /\
             Inv z' (state_after R r) /\
             (add_verdict apex cls R r <> None -> z' = z) /\
             (Inv_sp z R -> Inv_sp z' (state_after R r)).
Proof.
  intros (Hn & Hc & Hv). unfold zone_add, add_verdict, state_after.
  rewrite Hn, Hc, eq_or_subdomain_of_in_zone.
  unfold add_verdict.
  destruct (in_zone apex (r_owner r)) eqn:Z; cbn [negb].
  2:{ exists z. split; auto. split; [split; auto|split; auto]. }
  destruct (r_class r =? cls)%N eqn:C; cbn [negb].
  2:{ exists z. split; auto. split; [split; auto|split; auto]. }
  apply N.eqb_eq in C.
  destruct (in_zone_split _ Z) as (Hl & Hla & Ho). set (level := length (r_owner r) - length apex) in *.
  unfold name_len. rewrite usub_ok by lia. cbn [bind].
  replace (S (length (r_owner r)) - S (length apex)) with level by (unfold level; lia).
  set (f := rrsets_add req (r_class r) (r_type r) (r_ttl r) (r_rdata r)).
  assert (Hf : forall d, f d <> Panic) by (intros d; apply rrsets_add_no_panic).
  destruct (node_update_view f Hf level (r_owner r) (z_apex z) Hl) as (a' & Hup & Hname & Hview).
  set (d := descent (r_owner r) level) in *.
  assert (Pd : prefixb d d = true) by (apply prefixb_iff; exists []; rewrite app_nil_r; reflexivity).
  assert (Ld : length d = level) by apply descent_length.
  assert (Td : pname d = lc (r_owner r)) by (apply (prefix_target _ level); auto).
  (* the data at the target before the add *)
  assert (Hd0 : rrsets_ok req cls R (lc (r_owner r)) (snd (viewd d (z_apex z) (r_owner r) level))).
  { unfold viewd. specialize (Hv d). destruct (view d (z_apex z)) as [[n0 d0]|]; simpl in Hv |- *.
    - rewrite <- Td. tauto.
    - rewrite <- Td. apply rrsets_ok_absent. exact Hv. }
  pose proof (rrsets_ok_add req req_trans R r _ ltac:(rewrite C; exact Hd0)) as Hadd.
  fold f in Hadd.
  destruct (ttl_ok R r) eqn:T; cbn [negb].
  - destruct Hadd as (d' & Hfd & Hok').
    rewrite Hup. cbn [bind]. unfold err_of. rewrite Hfd.
    eexists; split; [reflexivity|]. split; [|split; [congruence|]].
    split; [unfold zone_name; simpl; rewrite Hname; exact Hn|]. split; [reflexivity|]. simpl z_apex.
    intros p. rewrite Hview. specialize (Hv p). unfold node_ok in Hv.
    assert (Epre : prefixb p d = is_suffixb (pname p) (lc (r_owner r))) by (apply prefix_suffix; auto).
    rewrite Epre.
    unfold node_ok. rewrite exists_name_snoc.
    destruct (is_suffixb (pname p) (lc (r_owner r))) eqn:Sx.
    + rewrite orb_true_r.
      pose proof Epre as Pp.
      split; [reflexivity|]. split.
      * unfold viewd. destruct (view p (z_apex z)) as [[n0 d0]|]; simpl; [tauto|].
        apply (prefix_fresh_name _ level); auto.
      * destruct (length p =? level) eqn:Lp.
        -- apply Nat.eqb_eq in Lp.
           assert (Tp : pname p = lc (r_owner r)) by (apply (prefix_target _ level); auto).
           assert (Evd : snd (viewd p (z_apex z) (r_owner r) level) = snd (viewd d (z_apex z) (r_owner r) level)).
           { unfold viewd. pose proof (Hv' := Hv). specialize (Hview p).
             (* both paths denote the same node: compare through the invariant on data *)
             clear Hview.
             assert (Eq : lc p = lc d).
             { apply prefixb_iff in Pp. destruct Pp as [q Pq].
               assert (q = []).
               { apply (f_equal (@length _)) in Pq. rewrite app_length, !lc_length in Pq.
                 destruct q; auto. simpl in Pq. lia. }
               subst q. rewrite app_nil_r in Pq. auto. }
             assert (Vpd : forall t, view p t = view d t) by (apply view_lc_eq; exact Eq).
             rewrite Vpd. rewrite Lp, Ld. reflexivity. }
           unfold apply_f. rewrite Evd, Hfd. rewrite Tp, <- C. exact Hok'.
        -- assert (Np : name_eqb (lc (r_owner r)) (pname p) = false).
           { apply name_eqb_neq. intros E. apply Nat.eqb_neq in Lp. apply Lp.
             apply (f_equal (@length _)) in E. unfold pname in E. rewrite Ho in E.
             rewrite !lc_length, !app_length, !lc_length, rev_length, firstn_length in E. lia. }
           apply rrsets_ok_other; auto.
           unfold viewd. destruct (view p (z_apex z)) as [[n0 d0]|]; simpl; [tauto|].
           apply rrsets_ok_absent. exact Hv.
    + rewrite orb_false_r.
      pose proof Epre as Pp.
      assert (Np : name_eqb (lc (r_owner r)) (pname p) = false).
      { apply name_eqb_neq. intros E. rewrite <- E, is_suffixb_refl in Sx. discriminate. }
      destruct (view p (z_apex z)) as [[n0 d0]|]; auto.
      destruct Hv as (H1 & H2 & H3). split; auto. split; auto. apply rrsets_ok_other; auto.
    + (* spelling of the node names *)
      intros Hsp p n dd Vp. simpl z_apex in Vp. rewrite Hview in Vp.
      assert (Epre : prefixb p d = is_suffixb (pname p) (lc (r_owner r))) by (apply prefix_suffix; auto).
      pose proof (Hv p) as Hvp. unfold node_ok in Hvp.
      destruct (prefixb p d) eqn:Pp.
      * inversion Vp; subst n. unfold viewd.
        destruct (view p (z_apex z)) as [[n0 d0]|] eqn:V0; simpl.
        -- rewrite (Hsp p n0 d0 V0). symmetry. apply spelled_snoc_exists. tauto.
        -- rewrite spelled_snoc_fresh; auto. f_equal.
           pose proof (prefixb_length _ _ Pp) as Lp. rewrite Ld in Lp.
           unfold pname. rewrite lc_length, app_length, rev_length. unfold level in *. lia.
      * destruct (view p (z_apex z)) as [[n0 d0]|] eqn:V0; [|discriminate]. inversion Vp; subst.
        rewrite (Hsp p n dd V0). symmetry. apply spelled_snoc_exists. tauto.
  - (* TTL mismatch: the target exists, nothing is created, the tree is unchanged *)
    assert (Hex : exists n0 d0, view d (z_apex z) = Some (n0, d0)).
    { destruct (view d (z_apex z)) as [[n0 d0]|] eqn:V; eauto.
      exfalso. unfold viewd in Hadd. rewrite V in Hadd. simpl in Hadd. unfold f in Hadd. simpl in Hadd. discriminate. }
    destruct Hex as (n0 & d0 & V).
    unfold viewd in Hadd. rewrite V in Hadd. simpl in Hadd.
    rewrite (node_update_err_same f level (r_owner r) (z_apex z) n0 d0 TtlMismatch Hl V Hadd).
    cbn [bind]. exists z. split; [|split; [split; auto|split; auto]].
    clear - Hc. destruct z as [zc zw za]. simpl in *. subst zc. reflexivity.
Qed.

(* ---- a whole load *)
Lemma accepted_fold rs : forall acc,
  fold_left (fun acc r => if acceptable apex cls acc r then acc ++ [r] else acc) rs acc =
  fold_left state_after rs acc.
Proof.
  induction rs as [|r rs IH]; intros acc; simpl; auto.
  rewrite IH. f_equal. unfold state_after, add_verdict, acceptable.
  destruct (in_zone apex (r_owner r)); simpl; auto.
  destruct (r_class r =? cls)%N; simpl; auto.
  destruct (ttl_ok acc r); reflexivity.
Qed.

Lemma zone_build_inv rs : forall z R, Inv z R ->
  exists z', zone_build req z rs = Some z' /\ Inv z' (fold_left state_after rs R).
Proof.
  induction rs as [|r rs IH]; intros z R H; simpl.
  - eauto.
  - destruct (zone_add_step z R r H) as (z1 & Hadd & Hinv & _). rewrite Hadd.
    apply IH. exact Hinv.
Qed.

Lemma zone_build_inv_sp rs : forall z R z', Inv z R -> Inv_sp z R ->
  zone_build req z rs = Some z' -> Inv_sp z' (fold_left state_after rs R).
Proof.
  induction rs as [|r rs IH]; intros z R z' H Hs B; simpl in *.
  - inversion B; subst. exact Hs.
  - destruct (zone_add_step z R r H) as (z1 & Hadd & Hinv & _ & Hsp). rewrite Hadd in B.
    eapply IH; eauto.
Qed.

Lemma zone_build_new_sp rs wide z :
  zone_build req (zone_new apex cls wide) rs = Some z -> Inv_sp z (accepted apex cls rs).
Proof.
  unfold accepted. rewrite accepted_fold. apply zone_build_inv_sp; [apply Inv_new|apply Inv_sp_new].
Qed.

Lemma zone_build_new rs wide :
  exists z, zone_build req (zone_new apex cls wide) rs = Some z /\ Inv z (accepted apex cls rs).
Proof.
  unfold accepted. rewrite accepted_fold. apply zone_build_inv. apply Inv_new.
Qed.

End Inv.
