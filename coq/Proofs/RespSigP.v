(* Facts about the TSIG-tolerant pair relation of Spec/RespSigS.v: it is [pair_check] on responses
   without a TSIG record, and what a verdict [SPair PairOk] means. *)
From Coq Require Import List Bool Arith NArith Lia.
From QV Require Import Base.Res Base.Octets Spec.NameWireS Spec.MsgWriterS Spec.RdataFormatS Spec.RespS Spec.RespSigS.
Import ListNotations.

Lemma split_tsig_none : forall ar,
  forallb (fun r => negb (is_tsig r)) ar = true -> split_tsig ar = (ar, None).
Proof.
  intros ar H. unfold split_tsig. destruct (rev ar) as [|last before] eqn:E; [reflexivity|].
  assert (Hin : In last ar). { apply in_rev. rewrite E. left. reflexivity. }
  rewrite forallb_forall in H. specialize (H _ Hin). apply negb_true_iff in H. rewrite H. reflexivity.
Qed.

(* the additional section is the body followed by the TSIG record that was set aside *)
Lemma split_tsig_spec : forall ar body ts,
  split_tsig ar = (body, ts) ->
  match ts with
  | Some x => ar = body ++ [x] /\ is_tsig x = true
  | None => body = ar
  end.
Proof.
  intros ar body ts. unfold split_tsig. destruct (rev ar) as [|last before] eqn:E.
  - intros H. inversion H. reflexivity.
  - destruct (is_tsig last) eqn:T; intros H; inversion H; subst; [|reflexivity].
    split; [|exact T]. rewrite <- (rev_involutive ar), E. reflexivity.
Qed.

Theorem pair_check_signed_plain : forall their server u t,
  no_tsig u -> no_tsig t ->
  pair_check_signed their server u t = SPair (pair_check their server u t).
Proof.
  intros their server u t Hu Ht. unfold no_tsig in Hu, Ht. unfold pair_check_signed, pair_rel_signed, pair_check.
  destruct (decode_msg u) as [mu|]; [|reflexivity].
  destruct (decode_msg t) as [mt|]; [|reflexivity].
  rewrite (split_tsig_none _ Hu), (split_tsig_none _ Ht). cbn [tsig_eq_mod_rdata negb].
  destruct (_ || _); [reflexivity|]. destruct (tc_bit mt); [reflexivity|].
  destruct (length t <=? _); [destruct (label_eqb u t); reflexivity|].
  destruct (tc_bit mu); [destruct (_ && _); reflexivity|].
  destruct (negb _); [reflexivity|]. destruct (negb _); [reflexivity|].
  destruct (omitted _ _); [|reflexivity]. destruct (existsb _ _); reflexivity.
Qed.

Lemma label_eqb_eq' : forall a b, label_eqb a b = true -> a = b.
Proof.
  induction a as [|x a IH]; destruct b as [|y b]; simpl; try discriminate; auto.
  intros H. apply andb_true_iff in H. destruct H as [H1 H2]. apply N.eqb_eq in H1. f_equal; auto.
Qed.

(* sizes, TC never over TCP, octet identity (TSIG included) when the complete response fits *)
Theorem signed_sizes_and_identity : forall their server u t mu mt,
  decode_msg u = Some mu -> decode_msg t = Some mt ->
  pair_check_signed their server u t = SPair PairOk ->
  length u <= udp_limit_of mu their server /\ length t <= N.to_nat 65535 /\ tc_bit mt = false /\
  (length t <= udp_limit_of mu their server -> u = t).
Proof.
  intros their server u t mu mt Hu Ht. unfold pair_check_signed, pair_rel_signed. rewrite Hu, Ht.
  destruct (udp_limit_of mu their server <? length u) eqn:A; [discriminate|].
  destruct (N.to_nat 65535 <? length t) eqn:B; [discriminate|]. cbn [orb].
  apply Nat.ltb_ge in A. apply Nat.ltb_ge in B.
  destruct (tc_bit mt); [discriminate|]. intros H. repeat split; auto.
  intros Hfit. apply Nat.leb_le in Hfit. rewrite Hfit in H.
  destruct (label_eqb u t) eqn:E; [|discriminate]. apply label_eqb_eq'. exact E.
Qed.

Lemma length_zero_nil : forall {A} (l : list A), (length l =? 0) = true -> l = [].
Proof. intros A [|x l]; simpl; [reflexivity|discriminate]. Qed.

(* TC shape: a truncated UDP response carries nothing but the OPT and/or TSIG record *)
Theorem signed_tc_shape : forall their server u t mu mt,
  decode_msg u = Some mu -> decode_msg t = Some mt ->
  pair_check_signed their server u t = SPair PairOk -> tc_bit mu = true ->
  m_an mu = [] /\ m_ns mu = [] /\ forallb is_pseudo (m_ar mu) = true /\ tc_bit mt = false /\
  udp_limit_of mu their server < length t.
Proof.
  intros their server u t mu mt Hu Ht. unfold pair_check_signed, pair_rel_signed. rewrite Hu, Ht.
  destruct (_ || _); [discriminate|]. destruct (tc_bit mt) eqn:Tt; [discriminate|].
  intros H Htc. destruct (length t <=? udp_limit_of mu their server) eqn:F.
  { destruct (label_eqb u t) eqn:E; [|discriminate]. apply label_eqb_eq' in E. subst t.
    rewrite Hu in Ht. inversion Ht; subst. rewrite Htc in *. discriminate. }
  rewrite Htc in H.
  destruct (length (m_an mu) =? 0) eqn:A; [|discriminate]. destruct (length (m_ns mu) =? 0) eqn:B; [|discriminate].
  destruct (forallb is_pseudo (m_ar mu)) eqn:C; [|discriminate].
  apply length_zero_nil in A. apply length_zero_nil in B. apply Nat.leb_gt in F. repeat split; auto.
Qed.

(* the omission clause: complete response too long, TC clear *)
Theorem signed_omission : forall their server u t mu mt,
  decode_msg u = Some mu -> decode_msg t = Some mt ->
  pair_check_signed their server u t = SPair PairOk ->
  udp_limit_of mu their server < length t -> tc_bit mu = false ->
  m_id mu = m_id mt /\ m_flags2 mu = m_flags2 mt /\ m_flags3 mu = m_flags3 mt /\
  rrs_eq (m_an mu) (m_an mt) = true /\ rrs_eq (m_ns mu) (m_ns mt) = true /\
  exists au su at_ st left_out,
    split_tsig (m_ar mu) = (au, su) /\ split_tsig (m_ar mt) = (at_, st) /\
    tsig_eq_mod_rdata su st = true /\
    omitted au at_ = Some left_out /\
    forallb (fun r => negb (is_pseudo r) && negb (is_glue_for (m_ns mt) r)) left_out = true.
Proof.
  intros their server u t mu mt Hu Ht. unfold pair_check_signed, pair_rel_signed. rewrite Hu, Ht.
  destruct (_ || _); [discriminate|]. destruct (tc_bit mt); [discriminate|].
  intros H Hlong Htc. apply Nat.leb_gt in Hlong. rewrite Hlong, Htc in H.
  destruct ((m_id mu =? m_id mt)%N && (m_flags2 mu =? m_flags2 mt)%N && (m_flags3 mu =? m_flags3 mt)%N) eqn:Hh;
    cbn [negb] in H; [|discriminate].
  destruct (rrs_eq (m_an mu) (m_an mt) && rrs_eq (m_ns mu) (m_ns mt) && (length (m_qs mu) =? length (m_qs mt))) eqn:Hm;
    cbn [negb] in H; [|discriminate].
  apply andb_true_iff in Hh. destruct Hh as [Hh H3]. apply andb_true_iff in Hh. destruct Hh as [H1 H2].
  apply N.eqb_eq in H1. apply N.eqb_eq in H2. apply N.eqb_eq in H3.
  apply andb_true_iff in Hm. destruct Hm as [Hm _]. apply andb_true_iff in Hm. destruct Hm as [Ha Hn].
  destruct (split_tsig (m_ar mu)) as [au su] eqn:Su. destruct (split_tsig (m_ar mt)) as [at_ st] eqn:St.
  destruct (tsig_eq_mod_rdata su st) eqn:Te; cbn [negb] in H; [|discriminate].
  destruct (omitted au at_) as [left_out|] eqn:Om; [|discriminate].
  destruct (existsb _ left_out) eqn:Ex; [discriminate|].
  repeat split; auto. exists au, su, at_, st, left_out. repeat split; auto.
  apply forallb_forall. intros r Hr.
  destruct (is_pseudo r || is_glue_for (m_ns mt) r) eqn:Q.
  - assert (existsb (fun r => is_pseudo r || is_glue_for (m_ns mt) r) left_out = true).
    { apply existsb_exists. exists r. split; auto. }
    congruence.
  - apply orb_false_iff in Q. destruct Q as [Q1 Q2]. rewrite Q1, Q2. reflexivity.
Qed.

(* Under C02's verdict the set-aside is complete: a well-formed response carries at most one TSIG record, as the last
   record, so the additional-section bodies compared by the omission clause contain no TSIG record at all. *)
Lemma count_zero_all_false : forall {A} (f : A -> bool) l, (count f l =? 0) = true -> forall x, In x l -> f x = false.
Proof.
  intros A f l H x Hin. destruct (f x) eqn:F; [|reflexivity].
  apply Nat.eqb_eq in H. unfold count in H.
  assert (Hx : In x (filter f l)). { apply filter_In. split; assumption. }
  destruct (filter f l); [contradiction|discriminate].
Qed.

Theorem split_tsig_complete : forall m body ts,
  wf_decoded m = true -> split_tsig (m_ar m) = (body, ts) ->
  forallb (fun r => negb (is_tsig r)) body = true.
Proof.
  intros m body ts Hwf. unfold wf_decoded in Hwf. apply andb_true_iff in Hwf. destruct Hwf as [_ Hlast].
  unfold split_tsig. destruct (rev (m_ar m)) as [|last before] eqn:E.
  - intros H. inversion H; subst. assert (m_ar m = []) as ->.
    { rewrite <- (rev_involutive (m_ar m)), E. reflexivity. } reflexivity.
  - pose proof (count_zero_all_false _ _ Hlast) as Hb.
    destruct (is_tsig last) eqn:T; intros H; inversion H; subst; apply forallb_forall; intros x Hx.
    + apply in_rev in Hx. rewrite (Hb _ Hx). reflexivity.
    + assert (Hx' : In x (rev (m_ar m))). { apply in_rev. rewrite rev_involutive. exact Hx. }
      rewrite E in Hx'. destruct Hx' as [<-|Hx']; [rewrite T; reflexivity|]. rewrite (Hb _ Hx'). reflexivity.
Qed.
