(* C25 — the first-wave machine (a file = pre-split logical lines + a pure line parser,
   Model/ZfFs.v, Spec/ZfFsS.v) is the special case of the iterator machine (Model/ZfInc.v,
   Spec/ZfIncS.v) in which the per-file parser state is (context, remaining lines):
   the two structural expansions coincide, hence so do the two machines' complete runs. *)
From QV Require Import Base.Res Base.Octets Model.ZfFs Spec.ZfFsS Proofs.ZfFsP Model.ZfInc Spec.ZfIncS Proofs.ZfIncP.

Section LinesAsIter.
  Variables Origin Own Ttl Cls Rec SErr L : Type.
  Notation ctx := (ZfFs.ctx Origin Own Ttl Cls).
  Notation lres := (lres Origin Own Ttl Cls Rec SErr).
  Variable pline : ctx -> L -> lres.
  Variable fs : path -> option (list (nat * L)).

  Definition lstate := (ctx * list (nat * L))%type.

  (* <Parser as Iterator>::next for a line-structured file: skip the silent lines *)
  Fixpoint lnext_from (c : ctx) (t : list (nat * L)) : pres Origin Rec SErr nat lstate :=
    match t with
    | [] => PNone _ _ _ _ _ (c, [])
    | (n, l) :: t' =>
        match pline c l with
        | LSkip _ _ _ _ _ _ c' => lnext_from c' t'
        | LErr _ _ _ _ _ _ e => PErr _ _ _ _ _ e
        | LRec _ _ _ _ _ _ r c' => PRec _ _ _ _ _ n r (c', t')
        | LInc _ _ _ _ _ _ ip o c' => PInc _ _ _ _ _ n ip o (c', t')
        end
    end.
  Definition lnext (s : lstate) := lnext_from (fst s) (snd s).
  Definition lctx (s : lstate) : ctx := fst s.
  Definition lwith (s : lstate) (c : ctx) : lstate := (c, snd s).
  Definition lnew (t : list (nat * L)) (c : ctx) : lstate := (c, t).
  Definition lsize (s : lstate) : nat := length (snd s).

  Notation gexp := (gexpand Origin Own Ttl Cls Rec SErr nat lstate (list (nat * L)) lnext lctx lwith lnew fs lsize).
  Notation expand := (expand Origin Own Ttl Cls Rec SErr L pline fs).

  Definition conv_err (e : fs_err SErr) : ierr SErr nat :=
    match e with
    | ESyntax _ e => ISyntax _ _ e
    | ETooDeep _ n ch => ITooDeep _ _ n ch
    | EOpen _ n p => IOpen _ _ n p
    end.
  Definition conv_out (o : outcome Origin Own Ttl Cls SErr) : goutcome Origin Own Ttl Cls SErr nat :=
    match o with
    | OCtx _ _ _ _ _ c => GCtx _ _ _ _ _ _ c
    | OBad _ _ _ _ _ p e => GBad _ _ _ _ _ _ p (conv_err e)
    | OPanic _ _ _ _ _ => GAbort _ _ _ _ _ _ APanic
    end.

  Lemma lnext_skip c n l t' c' : pline c l = LSkip _ _ _ _ _ _ c' ->
    lnext (c, (n, l) :: t') = lnext (c', t').
  Proof. intros H. unfold lnext. cbn [fst snd lnext_from]. rewrite H. reflexivity. Qed.

  (* the two expansions coincide once the budget covers the remaining lines *)
  Lemma gexpand_lines : forall d chain p t c k, length t < k ->
    gexp d chain p k (c, t) = (fst (expand d chain p c t), conv_out (snd (expand d chain p c t))).
  Proof.
    induction d as [|d IHd]; intros chain p; induction t as [|[n l] t IHt]; intros c k Hk;
      (destruct k as [|k]; [lia|]); rewrite gexpand_S.
    - reflexivity.
    - cbn [length] in Hk. cbn [ZfFsS.expand]. unfold lnext at 1. cbn [fst snd lnext_from].
      destruct (pline c l) as [c'|e|r c'|ip o c'] eqn:Hp.
      + fold (lnext (c', t)). specialize (IHt c' (S k)). rewrite gexpand_S in IHt. cbn [ZfFsS.expand] in IHt.
        apply IHt. lia.
      + reflexivity.
      + specialize (IHt c' k). cbn [ZfFsS.expand] in IHt. rewrite IHt by lia.
        destruct (expand 0 chain p c' t) as [it o] eqn:E; cbn [ZfFsS.expand] in E; rewrite E. reflexivity.
      + reflexivity.
    - reflexivity.
    - cbn [length] in Hk. cbn [ZfFsS.expand]. unfold lnext at 1. cbn [fst snd lnext_from].
      destruct (pline c l) as [c'|e|r c'|ip o c'] eqn:Hp.
      + fold (lnext (c', t)). specialize (IHt c' (S k)). rewrite gexpand_S in IHt. cbn [ZfFsS.expand] in IHt.
        apply IHt. lia.
      + reflexivity.
      + specialize (IHt c' k). cbn [ZfFsS.expand] in IHt. rewrite IHt by lia.
        destruct (expand (S d) chain p c' t) as [it o] eqn:E; cbn [ZfFsS.expand] in E; rewrite E. reflexivity.
      + destruct (compute_path p ip) as [newp|]; [|reflexivity].
        destruct (fs newp) as [t2|]; [|reflexivity]. cbv zeta.
        change (lctx (c', t)) with c'.
        change (lnew t2 (start_ctx _ _ _ _ c' o)) with (start_ctx _ _ _ _ c' o, t2).
        change (lsize (start_ctx _ _ _ _ c' o, t2)) with (length t2).
        rewrite (IHd (chain ++ [(p, n)]) newp t2 (start_ctx _ _ _ _ c' o) (S (length t2))) by lia.
        destruct (expand d (chain ++ [(p, n)]) newp (start_ctx _ _ _ _ c' o) t2) as [it [cend|bp be|]] eqn:Ei;
          cbn [fst snd conv_out]; try reflexivity.
        change (lwith (c', t) (resume_ctx _ _ _ _ c' cend)) with (resume_ctx _ _ _ _ c' cend, t).
        specialize (IHt (resume_ctx _ _ _ _ c' cend) k). cbn [ZfFsS.expand] in IHt. rewrite IHt by lia.
        destruct (expand (S d) chain p (resume_ctx _ _ _ _ c' cend) t) as [it' o'] eqn:E2;
          cbn [ZfFsS.expand] in E2; rewrite E2. reflexivity.
  Qed.

  Lemma conv_out_not_fuel o : conv_out o <> GFuel _ _ _ _ _ _.
  Proof. destruct o; discriminate. Qed.

  Variable max_depth : nat.

  (* hence: the iterator machine run on (context, lines) states yields the first-wave expansion *)
  Theorem lines_iter_run p0 n0 c0 t0 :
    exists f0, forall fuel, f0 <= fuel ->
      ZfInc.run Origin Own Ttl Cls Rec SErr nat lstate (list (nat * L)) lnext lctx lwith lnew fs max_depth fuel
        [(p0, n0, (c0, t0))] =
      (fst (expand max_depth [] p0 c0 t0),
       gfinal_of _ _ _ _ _ _ (conv_out (snd (expand max_depth [] p0 c0 t0)))).
  Proof.
    pose proof (run_eq_gexpand Origin Own Ttl Cls Rec SErr nat lstate (list (nat * L)) lnext lctx lwith lnew fs lsize
                  max_depth p0 n0 (c0, t0) (S (length t0))) as H.
    rewrite (gexpand_lines max_depth [] p0 t0 c0 (S (length t0))) in H by lia. cbn [fst snd] in H.
    apply H. apply conv_out_not_fuel.
  Qed.
End LinesAsIter.
