(* C28: the interleaving semantics of Model/RrlConc.v sends exactly min(n, tokens) responses. *)
From QV Require Import Base.Res Base.Octets Model.Rrl Model.RrlConc Spec.RrlBucketS Proofs.RrlP.
Local Open Scope N_scope.

(* ---- lists ---------------------------------------------------------------------------- *)

Lemma nth_error_set_nth_same {A} (l : list A) i x y : nth_error l i = Some y ->
  nth_error (set_nth l i x) i = Some x.
Proof.
  revert i. induction l as [|z l IH]; intros [|i] H; simpl in *; try discriminate; [reflexivity|].
  apply IH. exact H.
Qed.

Lemma nth_error_set_nth_other {A} (l : list A) i j x : i <> j ->
  nth_error (set_nth l i x) j = nth_error l j.
Proof.
  revert i j. induction l as [|z l IH]; intros [|i] [|j] H; simpl; try reflexivity; try contradiction.
  apply IH. intros E. apply H. f_equal. exact E.
Qed.

Definition total (f : thread -> nat) (ths : list thread) : nat := list_sum (map f ths).

Lemma total_set_nth f ths i th th' : nth_error ths i = Some th ->
  (total f (set_nth ths i th') + f th = total f ths + f th')%nat.
Proof.
  unfold total. revert i. induction ths as [|z l IH]; intros [|i] H; simpl in *; try discriminate.
  - inversion H; subst. lia.
  - specialize (IH i H). lia.
Qed.

(* ---- the critical section inside one refill second ------------------------------------- *)

(* tokens the cell still holds for stream k (a cell holding another key will be replaced by
   a fresh, full bucket) *)
Definition avail (p : params) (k : key) (e : entry) : N :=
  if key_eqb (e_key e) k then limit_of p (k_category k) - e_count e else limit_of p (k_category k).

(* the cell is within its limit and no whole second will have elapsed by time [hi] *)
Definition cell_ok (p : params) (k : key) (hi : N) (e : entry) : Prop :=
  key_eqb (e_key e) k = true ->
  e_count e <= limit_of p (k_category k) /\ hi - e_last e < nanos_per_sec.

Lemma cell_step_spec p k lo hi e now rnd :
  wf_params p -> cell_ok p k hi e -> lo <= now <= hi -> hi - lo < nanos_per_sec ->
  exists e' act,
    cell_step p k e now rnd = Ok (e', act) /\ cell_ok p k hi e' /\
    ((act = Send /\ avail p k e = avail p k e' + 1) \/
     (act <> Send /\ avail p k e = 0 /\ e' = e)).
Proof.
  intros W CO [T1 T2] TW. pose proof W as (W1 & W2 & W3).
  destruct (W1 (k_category k)) as [Hr Hl]. fold (limit_of p (k_category k)) in *.
  set (lim := limit_of p (k_category k)) in *.
  assert (Hlim : 1 <= lim) by (unfold lim, limit_of; nia).
  unfold cell_step, avail, cell_ok in *. fold lim in CO |- *.
  destruct (key_eqb (e_key e) k) eqn:EK.
  - destruct (CO eq_refl) as [Hc Ht].
    unfold entry_step_gen. rewrite (rate_and_limit_wf p (k_category k) W). fold lim.
    assert (E : nanos_per_sec <=? now - e_last e = false) by (apply N.leb_gt; lia).
    rewrite E. cbn [bind].
    destruct (lim <=? e_count e) eqn:EL.
    + apply N.leb_le in EL. eexists; eexists. split; [reflexivity|].
      split; [intros _; split; assumption|].
      right. split; [destruct (should_slip p rnd); discriminate|]. split; [lia|reflexivity].
    + apply N.leb_gt in EL.
      assert (Hov : e_count e + 1 <=? u32_max = true) by (apply N.leb_le; lia). rewrite Hov.
      eexists; eexists. split; [reflexivity|]. cbn [e_key e_count e_last]. rewrite EK.
      split; [intros _; split; [lia|exact Ht]|].
      left. split; [reflexivity|lia].
  - eexists; eexists. split; [reflexivity|]. cbn [e_key e_count e_last]. rewrite key_eqb_refl.
    split; [intros _; split; [exact Hlim|lia]|].
    left. split; [reflexivity|lia].
Qed.

(* ---- the invariant ------------------------------------------------------------------------ *)

Definition in_cs (q : pc) : bool := match q with Idle => false | _ => true end.

(* requests of a thread whose decision has not been taken yet *)
Definition pending (th : thread) : nat :=
  (th_todo th + match th_pc th with Locked | HasRead _ => 1 | _ => 0 end)%nat.

Record inv (p : params) (k : key) (hi A0 : N) (n : nat) (s : cstate) : Prop := mkInv {
  (* mutual exclusion: a thread is inside the critical section iff it owns the lock *)
  inv_lock : forall i th, nth_error (c_threads s) i = Some th ->
                          (in_cs (th_pc th) = true <-> c_lock s = Some i);
  (* the lock is only ever owned by a thread that is inside the critical section *)
  inv_owner : forall o, c_lock s = Some o ->
                        exists th, nth_error (c_threads s) o = Some th /\ in_cs (th_pc th) = true;
  (* what a thread has read is still what the cell holds *)
  inv_read : forall i th e, nth_error (c_threads s) i = Some th -> th_pc th = HasRead e -> e = c_cell s;
  inv_cell : cell_ok p k hi (c_cell s);
  (* no update lost or double-counted: every response sent took exactly one token *)
  inv_acct : N.of_nat (c_sent s) + avail p k (c_cell s) = A0;
  (* a response was limited only when no token was left (and none comes back in this second) *)
  inv_lim : (0 < c_limited s)%nat -> avail p k (c_cell s) = 0;
  inv_total : (c_sent s + c_limited s + total pending (c_threads s) = n)%nat }.

Lemma inv_init p k hi e bursts :
  cell_ok p k hi e ->
  inv p k hi (avail p k e) (list_sum bursts) (cinit e bursts).
Proof.
  intros CO. unfold cinit. constructor; cbn [c_threads c_lock c_cell c_sent c_limited].
  - intros i th H. apply nth_error_In in H. apply in_map_iff in H. destruct H as (b & <- & _).
    cbn. split; discriminate.
  - discriminate.
  - intros i th e' H. apply nth_error_In in H. apply in_map_iff in H. destruct H as (b & <- & _).
    cbn. discriminate.
  - exact CO.
  - reflexivity.
  - lia.
  - cbn. unfold total. rewrite map_map. cbn. f_equal. rewrite <- (map_id bursts) at 2.
    apply map_ext. intros b. unfold pending. cbn. lia.
Qed.

Lemma inv_step p k lo hi A0 n s s' tid now rnd :
  wf_params p -> hi - lo < nanos_per_sec -> lo <= now <= hi ->
  inv p k hi A0 n s -> cstep p k s (tid, now, rnd) = Some s' -> inv p k hi A0 n s'.
Proof.
  intros W TW TN I H. destruct I as [IL IO IR IC IA IM IT].
  unfold cstep in H. destruct (nth_error (c_threads s) tid) as [th|] eqn:ET; [|discriminate].
  assert (Lset : forall th' j x, nth_error (set_nth (c_threads s) tid th') j = Some x ->
                 (j = tid /\ x = th') \/ (j <> tid /\ nth_error (c_threads s) j = Some x)).
  { intros th' j x Hj. destruct (Nat.eq_dec j tid) as [->|Hne].
    - rewrite (nth_error_set_nth_same _ _ th' th ET) in Hj. inversion Hj. left; split; reflexivity.
    - rewrite nth_error_set_nth_other in Hj by (intros E; apply Hne; symmetry; exact E).
      right; split; assumption. }
  destruct (th_pc th) as [| |e|] eqn:EP.
  - (* Acquire *)
    destruct (th_todo th) as [|m] eqn:ETD; [discriminate|].
    destruct (c_lock s) as [o|] eqn:ELK; [discriminate|].
    inversion H; subst s'; clear H. constructor; cbn [c_threads c_lock c_cell c_sent c_limited].
    + intros j x Hj. destruct (Lset _ _ _ Hj) as [[-> ->]|[Hne Hj']].
      * cbn. split; reflexivity.
      * pose proof (IL j x Hj') as IL'. split.
        -- intros Hc. apply IL' in Hc. discriminate.
        -- intros Hc. congruence.
    + intros o Ho. inversion Ho; subst o. eexists. split; [apply (nth_error_set_nth_same _ _ _ th ET)|reflexivity].
    + intros j x e' Hj Hp. destruct (Lset _ _ _ Hj) as [[-> ->]|[Hne Hj']]; [discriminate|].
      exact (IR j x e' Hj' Hp).
    + exact IC.
    + exact IA.
    + exact IM.
    + pose proof (total_set_nth pending (c_threads s) tid th (mkThread Locked m) ET) as HT.
      set (T1 := total pending (set_nth _ _ _)) in *. set (T0 := total pending (c_threads s)) in *.
      unfold pending in HT. rewrite EP, ETD in HT. cbn in HT. lia.
  - (* Read *)
    inversion H; subst s'; clear H. constructor; cbn [c_threads c_lock c_cell c_sent c_limited].
    + intros j x Hj. destruct (Lset _ _ _ Hj) as [[-> ->]|[Hne Hj']].
      * cbn. rewrite <- (IL tid th ET), EP. split; reflexivity.
      * exact (IL j x Hj').
    + intros o Ho. destruct (Nat.eq_dec o tid) as [->|Hne].
      * eexists. split; [apply (nth_error_set_nth_same _ _ _ th ET)|reflexivity].
      * destruct (IO o Ho) as (x & Hx & Hc). exists x. split; [|exact Hc].
        rewrite nth_error_set_nth_other by (intros E; apply Hne; symmetry; exact E). exact Hx.
    + intros j x e' Hj Hp. destruct (Lset _ _ _ Hj) as [[-> ->]|[Hne Hj']].
      * cbn in Hp. inversion Hp. reflexivity.
      * exact (IR j x e' Hj' Hp).
    + exact IC.
    + exact IA.
    + exact IM.
    + pose proof (total_set_nth pending (c_threads s) tid th (mkThread (HasRead (c_cell s)) (th_todo th)) ET) as HT.
      set (T1 := total pending (set_nth _ _ _)) in *. set (T0 := total pending (c_threads s)) in *.
      unfold pending in HT. rewrite EP in HT. cbn in HT. lia.
  - (* Write *)
    pose proof (IR tid th e ET EP) as He. subst e.
    destruct (cell_step_spec p k lo hi (c_cell s) now rnd W IC TN TW) as (e' & act & HS & CO' & HA).
    rewrite HS in H. inversion H; subst s'; clear H.
    assert (Own : c_lock s = Some tid) by (apply (IL tid th ET); rewrite EP; reflexivity).
    constructor; cbn [c_threads c_lock c_cell c_sent c_limited].
    + intros j x Hj. destruct (Lset _ _ _ Hj) as [[-> ->]|[Hne Hj']].
      * cbn. rewrite Own. split; reflexivity.
      * exact (IL j x Hj').
    + intros o Ho. destruct (Nat.eq_dec o tid) as [->|Hne].
      * eexists. split; [apply (nth_error_set_nth_same _ _ _ th ET)|reflexivity].
      * destruct (IO o Ho) as (x & Hx & Hc). exists x. split; [|exact Hc].
        rewrite nth_error_set_nth_other by (intros E; apply Hne; symmetry; exact E). exact Hx.
    + intros j x e'' Hj Hp. destruct (Lset _ _ _ Hj) as [[-> ->]|[Hne Hj']]; [discriminate|].
      (* another thread inside the critical section would own the lock too *)
      exfalso. assert (Hc : c_lock s = Some j) by (apply (IL j x Hj'); rewrite Hp; reflexivity).
      rewrite Own in Hc. congruence.
    + exact CO'.
    + destruct HA as [[-> HA]|[Hn [HA ->]]].
      * rewrite Nat2N.inj_succ. lia.
      * destruct act; [contradiction| |]; exact IA.
    + destruct HA as [[-> HA]|[Hn [HA ->]]].
      * intros Hl. specialize (IM Hl). lia.
      * intros _. exact HA.
    + pose proof (total_set_nth pending (c_threads s) tid th (mkThread Written (th_todo th)) ET) as HT.
      set (T1 := total pending (set_nth _ _ _)) in *. set (T0 := total pending (c_threads s)) in *.
      unfold pending in HT. rewrite EP in HT. cbn in HT.
      destruct act; lia.
  - (* Release *)
    inversion H; subst s'; clear H.
    assert (Own : c_lock s = Some tid) by (apply (IL tid th ET); rewrite EP; reflexivity).
    constructor; cbn [c_threads c_lock c_cell c_sent c_limited].
    + intros j x Hj. destruct (Lset _ _ _ Hj) as [[-> ->]|[Hne Hj']].
      * cbn. split; discriminate.
      * split.
        -- intros Hc. apply (IL j x Hj') in Hc. rewrite Own in Hc. congruence.
        -- discriminate.
    + discriminate.
    + intros j x e' Hj Hp. destruct (Lset _ _ _ Hj) as [[-> ->]|[Hne Hj']]; [discriminate|].
      exact (IR j x e' Hj' Hp).
    + exact IC.
    + exact IA.
    + exact IM.
    + pose proof (total_set_nth pending (c_threads s) tid th (mkThread Idle (th_todo th)) ET) as HT.
      set (T1 := total pending (set_nth _ _ _)) in *. set (T0 := total pending (c_threads s)) in *.
      unfold pending in HT. rewrite EP in HT. cbn in HT. lia.
Qed.

Definition label_now (l : label) : N := snd (fst l).

Lemma inv_run p k lo hi A0 n sched : wf_params p -> hi - lo < nanos_per_sec ->
  Forall (fun l => lo <= label_now l <= hi) sched ->
  forall s, inv p k hi A0 n s -> inv p k hi A0 n (crun p k s sched).
Proof.
  intros W TW. induction sched as [|[[tid now] rnd] r IH]; intros HF s I.
  - exact I.
  - inversion HF as [|? ? Hl HF']; subst. cbn [crun].
    destruct (cstep p k s (tid, now, rnd)) as [s'|] eqn:ES.
    + apply IH; [exact HF'|]. eapply inv_step; eauto.
    + apply IH; assumption.
Qed.

Lemma all_done_pending ths : forallb thread_done ths = true -> total pending ths = 0%nat.
Proof.
  unfold total. induction ths as [|th l IH]; intros H; [reflexivity|].
  simpl in H. apply andb_true_iff in H. destruct H as [H1 H2]. simpl. rewrite (IH H2).
  unfold thread_done in H1. unfold pending.
  destruct (th_pc th); try discriminate. destruct (th_todo th); [reflexivity|discriminate].
Qed.

(* MAIN: any number of threads, any bursts, any schedule, any clock readings inside one
   refill second: when every thread has finished, exactly min(n, tokens) responses were
   sent and the other n - min(n, tokens) were limited. *)
Lemma conc_exact p k lo hi e bursts sched :
  wf_params p -> cell_ok p k hi e -> hi - lo < nanos_per_sec ->
  Forall (fun l => lo <= label_now l <= hi) sched ->
  let s' := crun p k (cinit e bursts) sched in
  all_done s' = true ->
  let n := N.of_nat (list_sum bursts) in
  N.of_nat (c_sent s') = N.min n (avail p k e) /\
  N.of_nat (c_limited s') = n - N.min n (avail p k e).
Proof.
  intros W CO TW HF s' HD n.
  pose proof (inv_run p k lo hi _ _ sched W TW HF _ (inv_init p k hi e bursts CO)) as I.
  fold s' in I. destruct I as [_ _ _ _ IA IM IT].
  rewrite (all_done_pending _ HD) in IT.
  assert (Hn : n = N.of_nat (c_sent s') + N.of_nat (c_limited s')) by (unfold n; lia).
  destruct (c_limited s') as [|m] eqn:EL.
  - split; lia.
  - assert (Hz : avail p k (c_cell s') = 0) by (apply IM; lia). split; lia.
Qed.

(* on a fresh server (the cell holds Rrl::new's placeholder, not k): min(n, rate x window) *)
Lemma conc_exact_fresh p k lo hi e bursts sched :
  wf_params p -> key_eqb (e_key e) k = false -> hi - lo < nanos_per_sec ->
  Forall (fun l => lo <= label_now l <= hi) sched ->
  let s' := crun p k (cinit e bursts) sched in
  all_done s' = true ->
  let n := N.of_nat (list_sum bursts) in
  let cap := rate_of p (k_category k) * p_window p in
  N.of_nat (c_sent s') = N.min n cap /\ N.of_nat (c_limited s') = n - N.min n cap.
Proof.
  intros W EK TW HF s' HD n cap.
  assert (CO : cell_ok p k hi e) by (unfold cell_ok; rewrite EK; discriminate).
  pose proof (conc_exact p k lo hi e bursts sched W CO TW HF HD) as H.
  unfold avail in H. rewrite EK in H. exact H.
Qed.

(* ---- progress: the lock discipline never deadlocks, the critical section never panics --- *)

Lemma not_all_done_ex ths : forallb thread_done ths = false ->
  exists i th, nth_error ths i = Some th /\ thread_done th = false.
Proof.
  induction ths as [|x l IH]; intros H; [discriminate|].
  simpl in H. destruct (thread_done x) eqn:Ex.
  - destruct (IH H) as (i & th & H1 & H2). exists (S i), th. split; assumption.
  - exists 0%nat, x. split; [reflexivity|exact Ex].
Qed.

Lemma conc_progress p k lo hi A0 n s now rnd :
  wf_params p -> hi - lo < nanos_per_sec -> lo <= now <= hi ->
  inv p k hi A0 n s -> all_done s = false ->
  exists tid s', cstep p k s (tid, now, rnd) = Some s'.
Proof.
  intros W TW TN I ND. destruct I as [IL IO IR IC _ _ _].
  destruct (c_lock s) as [o|] eqn:ELK.
  - (* the owner can always take its next step *)
    destruct (IO o eq_refl) as (th & ET & HC). exists o. unfold cstep. rewrite ET.
    destruct (th_pc th) as [| |e|] eqn:EP; [discriminate| | |]; try (eexists; reflexivity).
    pose proof (IR o th e ET EP) as He. subst e.
    destruct (cell_step_spec p k lo hi (c_cell s) now rnd W IC TN TW) as (e' & act & HS & _).
    rewrite HS. eexists; reflexivity.
  - (* the lock is free: an unfinished thread is idle with work left and can acquire it *)
    destruct (not_all_done_ex _ ND) as (i & th & ET & Hnd). exists i. unfold cstep. rewrite ET.
    assert (HI : th_pc th = Idle).
    { destruct (th_pc th) eqn:EP; [reflexivity| | |];
        (assert (Hc : @None nat = Some i) by (apply (IL i th ET); rewrite EP; reflexivity);
         discriminate). }
    rewrite HI. unfold thread_done in Hnd. rewrite HI in Hnd.
    destruct (th_todo th); [discriminate|]. rewrite ELK. eexists; reflexivity.
Qed.

(* ---- the critical section IS process_response on the stream's bucket -------------------- *)

Lemma process_response_is_cell_step hname hkey p t c k now rnd :
  subject_to_rrl c = true -> key_of hname p c = Some k -> t_len t <> 0 ->
  process_response hname hkey p t c now rnd =
  let idx := bucket_index hkey t k in
  let* (e', act) := cell_step p k (t_get t idx) now rnd in
  Ok (t_set t idx e', apply_action c act).
Proof.
  intros Hs Hk Hl. unfold process_response, process_response_gen. rewrite Hs, Hk. cbn [negb].
  apply N.eqb_neq in Hl. rewrite Hl. fold (bucket_index hkey t k). cbn zeta. unfold cell_step.
  destruct (key_eqb (e_key (t_get t (bucket_index hkey t k))) k); reflexivity.
Qed.

(* ---- without the lock an update is lost ---------------------------------------------------- *)

Definition cw_params : params := mkParams 1 1 1 1 0 RRL_DEFAULT_IPV4_NETMASK RRL_DEFAULT_IPV6_NETMASK 1.
Definition cw_key : key := mkKey 7 false 0 NxDomain.
Definition cw_cell : entry := mkEntry cw_key 0 1000.      (* the stream's bucket, one token left *)
Definition cw_sched : list label :=
  [(0%nat, 2000, 0); (1%nat, 2000, 0);        (* both enter *)
   (0%nat, 2000, 0); (1%nat, 2001, 0);        (* both read count = 0 *)
   (0%nat, 2002, 0); (1%nat, 2003, 0);        (* both store count = 1 and send *)
   (0%nat, 2004, 0); (1%nat, 2004, 0)].

Lemma lockless_loses_update :
  let s' := crun_nolock cw_params cw_key (cinit cw_cell [1%nat; 1%nat]) cw_sched in
  all_done s' = true /\ c_sent s' = 2%nat /\ avail cw_params cw_key cw_cell = 1 /\
  (* the same schedule under the lock: the second Acquire waits, one response is sent *)
  c_sent (crun cw_params cw_key (cinit cw_cell [1%nat; 1%nat]) cw_sched) = 1%nat.
Proof. vm_compute. repeat split; reflexivity. Qed.

(* ---- a complete run ---------------------------------------------------------------------------- *)

Definition cx_params : params := mkParams 3 3 3 1 1 RRL_DEFAULT_IPV4_NETMASK RRL_DEFAULT_IPV6_NETMASK 1.
(* thread ids in the order in which they are scheduled: 2,0,1,1 round and round; a thread
   that cannot move (waiting for the lock, finished) stutters *)
Definition cx_order : list nat := concat (repeat [2; 0; 1; 1]%nat 30).
Definition cx_sched : list label := map (fun i => (i, 5000 + N.of_nat i, 0)) cx_order.
Lemma conc_example :
  let s' := crun cx_params cw_key (cinit (mkEntry init_key 0 0) [2; 1; 2]%nat) cx_sched in
  all_done s' = true /\ c_sent s' = 3%nat /\ c_limited s' = 2%nat.
Proof. vm_compute. repeat split; reflexivity. Qed.

(* ---- every workload can run to completion ------------------------------------------------- *)

Definition rem_steps (th : thread) : nat :=
  (4 * th_todo th + match th_pc th with Idle => 0 | Locked => 3 | HasRead _ => 2 | Written => 1 end)%nat.

Lemma cstep_measure p k s l s' : cstep p k s l = Some s' ->
  (S (total rem_steps (c_threads s')) = total rem_steps (c_threads s))%nat.
Proof.
  destruct l as [[tid now] rnd]. unfold cstep.
  destruct (nth_error (c_threads s) tid) as [th|] eqn:ET; [|discriminate].
  destruct (th_pc th) as [| |e|] eqn:EP.
  - destruct (th_todo th) as [|m] eqn:ETD; [discriminate|]. destruct (c_lock s); [discriminate|].
    intros H; inversion H; subst s'; cbn [c_threads].
    pose proof (total_set_nth rem_steps (c_threads s) tid th (mkThread Locked m) ET) as HT.
    set (T1 := total rem_steps (set_nth _ _ _)) in *. set (T0 := total rem_steps (c_threads s)) in *.
    unfold rem_steps in HT. rewrite EP, ETD in HT. cbn in HT. lia.
  - intros H; inversion H; subst s'; cbn [c_threads].
    pose proof (total_set_nth rem_steps (c_threads s) tid th (mkThread (HasRead (c_cell s)) (th_todo th)) ET) as HT.
    set (T1 := total rem_steps (set_nth _ _ _)) in *. set (T0 := total rem_steps (c_threads s)) in *.
    unfold rem_steps in HT. rewrite EP in HT. cbn in HT. lia.
  - destruct (cell_step p k e now rnd) as [[e' act]| |]; try discriminate.
    intros H; inversion H; subst s'; cbn [c_threads].
    pose proof (total_set_nth rem_steps (c_threads s) tid th (mkThread Written (th_todo th)) ET) as HT.
    set (T1 := total rem_steps (set_nth _ _ _)) in *. set (T0 := total rem_steps (c_threads s)) in *.
    unfold rem_steps in HT. rewrite EP in HT. cbn in HT. lia.
  - intros H; inversion H; subst s'; cbn [c_threads].
    pose proof (total_set_nth rem_steps (c_threads s) tid th (mkThread Idle (th_todo th)) ET) as HT.
    set (T1 := total rem_steps (set_nth _ _ _)) in *. set (T0 := total rem_steps (c_threads s)) in *.
    unfold rem_steps in HT. rewrite EP in HT. cbn in HT. lia.
Qed.

Lemma conc_can_finish_from p k lo hi A0 n now : wf_params p -> hi - lo < nanos_per_sec -> lo <= now <= hi ->
  forall m s, total rem_steps (c_threads s) = m -> inv p k hi A0 n s ->
  exists sched, Forall (fun l => lo <= label_now l <= hi) sched /\ all_done (crun p k s sched) = true.
Proof.
  intros W TW TN. induction m as [|m IH]; intros s Hm I.
  - exists []. split; [constructor|]. cbn [crun].
    destruct (all_done s) eqn:ED; [reflexivity|exfalso].
    destruct (conc_progress p k lo hi A0 n s now 0 W TW TN I ED) as (tid & s' & HS).
    pose proof (cstep_measure _ _ _ _ _ HS) as HM. lia.
  - destruct (all_done s) eqn:ED.
    + exists []. split; [constructor|exact ED].
    + destruct (conc_progress p k lo hi A0 n s now 0 W TW TN I ED) as (tid & s' & HS).
      pose proof (cstep_measure _ _ _ _ _ HS) as HM.
      destruct (IH s' ltac:(lia) (inv_step p k lo hi A0 n s s' tid now 0 W TW TN I HS)) as (sched & HF & HD).
      exists ((tid, now, 0) :: sched). split; [constructor; [exact TN|exact HF]|].
      cbn [crun]. rewrite HS. exact HD.
Qed.

(* for every workload there is a complete schedule inside the window (so the hypotheses of
   conc_exact are satisfiable for every workload, and the lock discipline cannot deadlock) *)
Lemma conc_can_finish p k lo hi e bursts : wf_params p -> cell_ok p k hi e ->
  hi - lo < nanos_per_sec -> lo <= hi ->
  exists sched, Forall (fun l => lo <= label_now l <= hi) sched /\
                all_done (crun p k (cinit e bursts) sched) = true.
Proof.
  intros W CO TW LH.
  apply (conc_can_finish_from p k lo hi (avail p k e) (list_sum bursts) lo W TW ltac:(lia) _ _ eq_refl
           (inv_init p k hi e bursts CO)).
Qed.
