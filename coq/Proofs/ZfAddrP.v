(* C23 stage 1: IPv4 dotted quads through the model of Ipv4Addr::from_str, Chaosnet octal addresses. *)
From QV Require Import Base.ListX Model.ZfReader Model.ZfParser Proofs.ZfReaderP Proofs.ZfStdP
  Proofs.ZfRunP Proofs.ZfTokP Spec.ZfRenderS.

Local Open Scope N_scope.

(* ---- core::net::parser::read_number on decimal digits ----------------------------------------------------------- *)

Definition stopper (radix : N) (l : bytes) : Prop := match l with [] => True | c :: _ => to_digit radix c = None end.

Lemma to_digit_dec c : digit_of 10 c -> to_digit 10 c = Some (c - 48).
Proof.
  unfold digit_of. intros H. unfold to_digit, is_digit.
  destruct (48 <=? c) eqn:E1; [|apply N.leb_gt in E1; lia]. destruct (c <=? 57) eqn:E2; [|apply N.leb_gt in E2; lia].
  cbn [andb]. destruct (c - 48 <? 10) eqn:E3; [reflexivity|apply N.ltb_ge in E3; lia].
Qed.

Lemma rn_loop_digits maxd : forall ds l result count, Forall (digit_of 10) ds -> stopper 10 l ->
  (count + length ds <= maxd)%nat ->
  rn_loop 10 maxd (ds ++ l) result count = Some (dval 10 ds result, (count + length ds)%nat, l).
Proof.
  induction ds as [|c ds IH]; intros l result count Hd Hs Hl.
  - cbn [app length dval fold_left]. rewrite Nat.add_0_r. destruct l as [|x l]; [reflexivity|].
    cbn [rn_loop]. simpl in Hs. rewrite Hs. reflexivity.
  - inversion Hd as [|? ? Hc Hds]; subst. cbn [app rn_loop]. rewrite (to_digit_dec c Hc). cbn [length] in Hl.
    destruct (maxd <? S count)%nat eqn:E; [apply Nat.ltb_lt in E; lia|].
    rewrite IH; [|exact Hds|exact Hs|lia]. cbn [length]. do 2 f_equal. f_equal. lia.
Qed.

Definition dec_good (a : N) : bool :=
  (length (dec a) <=? 3)%nat && negb (head_is 48 (dec a) && (1 <? length (dec a))%nat).
Lemma dec_sweep : forallb dec_good octets256 = true. Proof. vm_compute. reflexivity. Qed.

Lemma read_number_dec a l : a < 256 -> stopper 10 l -> read_number 10 3 false U8_MAX (dec a ++ l) = Some (a, l).
Proof.
  intros Ha Hs. pose proof (sweep256 _ dec_sweep a Ha) as G. unfold dec_good in G.
  apply andb_true_iff in G. destruct G as [G1 G2]. apply Nat.leb_le in G1. apply negb_true_iff in G2.
  pose proof (num_digits 10 a ltac:(lia)) as Hd. fold (dec a) in Hd.
  pose proof (num_nonempty 10 a) as Hne. fold (dec a) in Hne.
  pose proof (num_val 10 a ltac:(lia)) as Hv. fold (dec a) in Hv.
  unfold read_number. rewrite (rn_loop_digits 3 (dec a) l 0 0%nat Hd Hs) by (simpl; lia). rewrite Hv. cbn [Nat.add].
  destruct (dec a) as [|x ds] eqn:Ed; [congruence|]. cbn [app length]. cbn [Nat.eqb].
  cbn [head_is length] in G2. cbn [negb andb]. rewrite G2. unfold U8_MAX.
  destruct (255 <? a) eqn:E; [apply N.ltb_lt in E; lia|]. reflexivity.
Qed.

Lemma stopper_dot l : stopper 10 (46 :: l). Proof. reflexivity. Qed.

Lemma dec_len3 x : x < 256 -> (length (dec x) <= 3)%nat.
Proof.
  intros Hx. pose proof (sweep256 _ dec_sweep x Hx) as G. unfold dec_good in G. apply andb_true_iff in G.
  destruct G as [G _]. apply Nat.leb_le in G. exact G.
Qed.

Lemma ip4_ok_inv a b c d : ip4_ok a b c d = true -> a < 256 /\ b < 256 /\ c < 256 /\ d < 256.
Proof.
  unfold ip4_ok. intros H. apply andb_true_iff in H. destruct H as [H Hd]. apply andb_true_iff in H. destruct H as [H Hc].
  apply andb_true_iff in H. destruct H as [Ha Hb]. apply N.ltb_lt in Ha, Hb, Hc, Hd. auto.
Qed.

Lemma ip4_len a b c d : ip4_ok a b c d = true -> (length (render_ip4 a b c d) <= 15)%nat.
Proof.
  intros H. apply ip4_ok_inv in H. destruct H as (Ha & Hb & Hc & Hd). unfold render_ip4.
  pose proof (dec_len3 a Ha). pose proof (dec_len3 b Hb). pose proof (dec_len3 c Hc). pose proof (dec_len3 d Hd).
  repeat (rewrite app_length; cbn [length]). lia.
Qed.

Theorem ipv4_roundtrip a b c d : ip4_ok a b c d = true -> ipv4_from_str (render_ip4 a b c d) = Some [a; b; c; d].
Proof.
  intros H. pose proof (ip4_len a b c d H) as HL. apply ip4_ok_inv in H. destruct H as (Ha & Hb & Hc & Hd).
  unfold ipv4_from_str. destruct (Nat.ltb 15 (length (render_ip4 a b c d))) eqn:E; [apply Nat.ltb_lt in E; lia|].
  unfold render_ip4, read_ipv4_addr. cbn [read_sep].
  rewrite (read_number_dec a _ Ha (stopper_dot _)). change (46 =? 46) with true. cbv iota.
  rewrite (read_number_dec b _ Hb (stopper_dot _)). change (46 =? 46) with true. cbv iota.
  rewrite (read_number_dec c _ Hc (stopper_dot _)). change (46 =? 46) with true. cbv iota.
  rewrite <- (app_nil_r (dec d)). rewrite (read_number_dec d [] Hd I). reflexivity.
Qed.

Lemma ip4_tok a b c d : forallb tokch (render_ip4 a b c d) = true.
Proof.
  unfold render_ip4. assert (T : forall x, forallb tokch (dec x) = true).
  { intros x. eapply digits_tokch; [|apply num_digits; lia]. lia. }
  repeat (rewrite forallb_app; cbn [forallb]). rewrite !T. reflexivity.
Qed.

Theorem ip4_field_runs a b c d p : ip4_ok a b c d = true -> runs fend parse_ipv4 (render_ip4 a b c d) p p [a; b; c; d].
Proof.
  intros H. unfold parse_ipv4. apply read_field_runs; [apply ip4_tok|pose proof (ip4_len a b c d H); lia|].
  rewrite (ipv4_roundtrip a b c d H). reflexivity.
Qed.

(* ---- Chaosnet addresses: octal ---------------------------------------------------------------------------------------- *)

Lemma chaos_runs start p : forall ds acc fuel, Forall (digit_of 8) ds -> dval 8 ds acc <= 65535 ->
  runsN fuel fend (chaos_loop fuel start acc) ds p p (dval 8 ds acc).
Proof.
  induction ds as [|c ds IH]; intros acc fuel Hd Hm; (destruct fuel as [|fuel]; [apply runsN_0|]).
  - cbn [chaos_loop]. change (@nil N) with (@nil N ++ []). eapply runsN_bind; [apply rfo_end|intros t Ht; exact Ht|].
    cbv beta iota. apply runs_N, runs_ret.
  - inversion Hd as [|? ? Hc Hds]; subst. unfold digit_of in Hc.
    change (dval 8 (c :: ds) acc) with (dval 8 ds (acc * 8 + (c - 48))) in *.
    pose proof (dval_ge 8 ltac:(lia) ds (acc * 8 + (c - 48))) as Hge.
    cbn [chaos_loop]. change (c :: ds) with ([c] ++ ds).
    assert (Hpl : plainb c = true).
    { pose proof (digit_tokch 8 c ltac:(lia) Hc) as G. unfold tokch in G. apply andb_true_iff in G. tauto. }
    eapply runsN_bind_dec; [apply rfo_plain; exact Hpl|discriminate|intros; exact I|].
    cbv beta iota. unfold inr_.
    destruct (48 <=? c) eqn:E1; [|apply N.leb_gt in E1; lia]. destruct (c <=? 55) eqn:E2; [|apply N.leb_gt in E2; lia].
    cbn [andb]. destruct (65535 <? acc * 8) eqn:E3; [apply N.ltb_lt in E3; lia|].
    destruct (65535 <? acc * 8 + (c - 48)) eqn:E4; [apply N.ltb_lt in E4; lia|].
    apply IH; assumption.
Qed.

Theorem oct_field_runs ic n p : oct_ok ic n = true -> runs fend parse_chaosnet_address (render_oct ic n) p p n.
Proof.
  unfold oct_ok. intros H. apply andb_true_iff in H. destruct H as [H _]. apply andb_true_iff in H. destruct H as [Hn _].
  apply N.leb_le in Hn. unfold parse_chaosnet_address. apply runs_getpos. intros q. apply runs_get_fuel. intros fuel.
  unfold render_oct.
  assert (Hv : dval 8 (repeat 48 (i_zeros ic) ++ oct n) 0 = n).
  { rewrite dval_app. change 0 with (0 * 0) at 1. rewrite zeros_val. apply num_val. lia. }
  rewrite <- Hv at 2. apply chaos_runs.
  - apply Forall_app. split; [apply zeros_digits; lia|apply num_digits; lia].
  - rewrite Hv. exact Hn.
Qed.

(* ---- IPv6: eight colon-separated hexadecimal groups ---------------------------------------------------------------------- *)

Definition hexv (c : N) : N := match to_digit 16 c with Some d => d | None => 0 end.
Definition hval (ds : bytes) (acc : N) : N := fold_left (fun a c => a * 16 + hexv c) ds acc.
Definition is_hex (c : N) : Prop := to_digit 16 c <> None.

Lemma rn_loop_hex maxd : forall ds l result count, Forall is_hex ds -> stopper 16 l ->
  (count + length ds <= maxd)%nat ->
  rn_loop 16 maxd (ds ++ l) result count = Some (hval ds result, (count + length ds)%nat, l).
Proof.
  induction ds as [|c ds IH]; intros l result count Hd Hs Hl.
  - cbn [app length hval fold_left]. rewrite Nat.add_0_r. destruct l as [|x l]; [reflexivity|].
    cbn [rn_loop]. simpl in Hs. rewrite Hs. reflexivity.
  - inversion Hd as [|? ? Hc Hds]; subst. cbn [app rn_loop]. unfold is_hex in Hc.
    change (hval (c :: ds) result) with (hval ds (result * 16 + hexv c)). unfold hexv.
    destruct (to_digit 16 c) as [dv|]; [|congruence]. cbn [length] in Hl.
    destruct (maxd <? S count)%nat eqn:E; [apply Nat.ltb_lt in E; lia|].
    rewrite IH; [|exact Hds|exact Hs|lia]. cbn [length]. do 2 f_equal. f_equal. lia.
Qed.

(* all 65536 groups, every legal number of dropped zeros, both letter cases *)
Definition group_case_good (g : N) (drop : nat) (upper : bool) : bool :=
  implb (group_ok drop g)
    (let t := render_group drop upper g in
     forallb (fun c => match to_digit 16 c with Some _ => true | None => false end) t &&
     (hval t 0 =? g) && (1 <=? length t)%nat && (length t <=? 4)%nat &&
     forallb (fun c => negb (c =? 46) && tokch c) t &&
     forallb (fun c => match to_digit 10 c with Some _ => true | None => negb (c =? 46) end) t).
Definition group_good (g : N) : bool :=
  forallb (fun drop => group_case_good g drop true && group_case_good g drop false) [0; 1; 2; 3; 4]%nat.
Lemma group_sweep : forallb (fun hi => forallb (fun lo => group_good (hi * 256 + lo)) octets256) octets256 = true.
Proof. vm_compute. reflexivity. Qed.

Lemma group_facts drop upper g : group_ok drop g = true ->
  let t := render_group drop upper g in
  Forall is_hex t /\ hval t 0 = g /\ (1 <= length t <= 4)%nat /\ forallb tokch t = true /\ Forall (fun c => c <> 46) t.
Proof.
  intros Hok. pose proof Hok as Hok'. unfold group_ok in Hok'. apply andb_true_iff in Hok'. destruct Hok' as [Hok' _].
  apply andb_true_iff in Hok'. destruct Hok' as [Hg Hd]. apply N.ltb_lt in Hg. apply Nat.leb_le in Hd.
  pose proof group_sweep as S. rewrite forallb_forall in S.
  assert (Hhi : In (g / 256) octets256).
  { unfold octets256. rewrite <- (N2Nat.id (g / 256)). apply in_map, in_seq.
    assert (Hq : g / 256 < 256) by (apply N.div_lt_upper_bound; lia). revert Hq. generalize (g / 256). intros q Hq. lia. }
  specialize (S _ Hhi). rewrite forallb_forall in S.
  assert (Hlo : In (g mod 256) octets256).
  { unfold octets256. rewrite <- (N2Nat.id (g mod 256)). apply in_map, in_seq.
    assert (Hq : g mod 256 < 256) by (apply N.mod_lt; lia). revert Hq. generalize (g mod 256). intros q Hq. lia. }
  specialize (S _ Hlo). rewrite (N.mul_comm (g / 256) 256), <- N.div_mod in S by lia.
  unfold group_good in S. rewrite forallb_forall in S.
  assert (Hin : In drop [0; 1; 2; 3; 4]%nat) by (simpl; lia). specialize (S _ Hin).
  apply andb_true_iff in S. destruct S as [S1 S2].
  assert (G : group_case_good g drop upper = true) by (destruct upper; assumption).
  unfold group_case_good in G. rewrite Hok in G. cbn [implb] in G. cbv zeta in G.
  repeat (apply andb_true_iff in G; destruct G as [G ?]).
  intros t. subst t. repeat split.
  - apply Forall_forall. intros c Hc. rewrite forallb_forall in G. specialize (G c Hc). unfold is_hex. destruct (to_digit 16 c); congruence.
  - apply N.eqb_eq. assumption.
  - apply Nat.leb_le. assumption.
  - apply Nat.leb_le. assumption.
  - apply forallb_forall. intros c Hc. rewrite forallb_forall in H0. specialize (H0 c Hc). apply andb_true_iff in H0. tauto.
  - apply Forall_forall. intros c Hc. rewrite forallb_forall in H0. specialize (H0 c Hc). apply andb_true_iff in H0.
    destruct H0 as [H0 _]. apply negb_true_iff, N.eqb_neq in H0. exact H0.
Qed.

(* the decimal reader gives back a suffix of its input *)
Lemma rn_loop_suffix radix maxd : forall l result count r n l1,
  rn_loop radix maxd l result count = Some (r, n, l1) -> exists pre, l = pre ++ l1.
Proof.
  induction l as [|c l IH]; intros result count r n l1 H; cbn [rn_loop] in H.
  - inversion H; subst. exists []. reflexivity.
  - destruct (to_digit radix c) as [d|].
    + destruct (maxd <? S count)%nat; [discriminate|]. destruct (IH _ _ _ _ _ H) as (pre & ->). exists (c :: pre). reflexivity.
    + inversion H; subst. exists []. reflexivity.
Qed.

Lemma read_number_suffix radix maxd z tmax l v l1 : read_number radix maxd z tmax l = Some (v, l1) -> exists pre, l = pre ++ l1.
Proof.
  unfold read_number. destruct (rn_loop radix maxd l 0 0) as [[[r n] l']|] eqn:E; [|discriminate].
  destruct (n =? 0)%nat; [discriminate|]. destruct (_ && _ && _); [discriminate|]. destruct (tmax <? r); [discriminate|].
  intros H. inversion H; subst. eapply rn_loop_suffix. exact E.
Qed.

(* no dotted quad without a dot *)
Lemma read_ipv4_nodot l : Forall (fun c => c <> 46) l -> read_ipv4_addr l = None.
Proof.
  intros H. unfold read_ipv4_addr. cbn [read_sep].
  destruct (read_number 10 3 false U8_MAX l) as [[a l1]|] eqn:E; [|reflexivity].
  destruct (read_number_suffix _ _ _ _ _ _ _ E) as (pre & ->). apply Forall_app in H. destruct H as [_ H].
  destruct l1 as [|c l1]; [reflexivity|]. inversion H as [|? ? Hc _]; subst. apply N.eqb_neq in Hc. rewrite Hc. reflexivity.
Qed.

Lemma render_groups_nodot : forall gs drops uppers, groups_ok drops gs = true ->
  Forall (fun c => c <> 46) (render_groups drops uppers gs).
Proof.
  induction gs as [|g gs IH]; intros drops uppers H; [constructor|]. cbn [groups_ok] in H. apply andb_true_iff in H. destruct H as [Hg Hgs].
  cbn [render_groups]. apply Forall_app. split; [apply (group_facts _ _ _ Hg)|].
  destruct gs; [constructor|]. constructor; [discriminate|]. apply IH. exact Hgs.
Qed.

Lemma stopper16_colon l : stopper 16 (58 :: l). Proof. reflexivity. Qed.

Lemma read_group_hex drop upper g l : group_ok drop g = true -> stopper 16 l ->
  read_number 16 4 true U16_MAX (render_group drop upper g ++ l) = Some (g, l).
Proof.
  intros Hok Hs. destruct (group_facts drop upper g Hok) as (Hh & Hv & [Hl1 Hl4] & _).
  pose proof Hok as Hok'. unfold group_ok in Hok'. apply andb_true_iff in Hok'. destruct Hok' as [Hok' _].
  apply andb_true_iff in Hok'. destruct Hok' as [Hg _]. apply N.ltb_lt in Hg.
  unfold read_number. rewrite (rn_loop_hex 4 _ l 0 0%nat Hh Hs) by (simpl; lia). rewrite Hv. cbn [Nat.add negb andb].
  destruct (length (render_group drop upper g) =? 0)%nat eqn:E0; [apply Nat.eqb_eq in E0; lia|].
  unfold U16_MAX. destruct (65535 <? g) eqn:E; [apply N.ltb_lt in E; lia|]. reflexivity.
Qed.

(* what may follow a run of groups: the end of the text, or "::" *)
Definition gstop (rest : bytes) : Prop := rest = [] \/ exists X, rest = 58 :: 58 :: X.

Lemma gstop_stopper rest : gstop rest -> stopper 16 rest.
Proof. intros [->|(X & ->)]; reflexivity. Qed.

Lemma read_number_colon radix maxd z tmax X : read_number radix maxd z tmax (58 :: X) = None.
Proof.
  unfold read_number. cbn [rn_loop]. assert (H : to_digit radix 58 = None) by (unfold to_digit; cbn; reflexivity).
  rewrite H. reflexivity.
Qed.

Lemma read_ipv4_colon X : read_ipv4_addr (58 :: X) = None.
Proof. unfold read_ipv4_addr. cbn [read_sep]. rewrite read_number_colon. reflexivity. Qed.

Lemma read_ipv4_nil : read_ipv4_addr [] = None. Proof. reflexivity. Qed.

(* the next iteration finds no group *)
Lemma read_groups_stop m i limit rest acc : gstop rest -> (1 <= i)%nat -> read_groups m i limit rest acc = (acc, false, rest).
Proof.
  intros Hs Hi. destruct m as [|m]; [reflexivity|]. cbn [read_groups]. destruct i as [|i]; [lia|]. cbn [read_sep].
  destruct Hs as [->|(X & ->)].
  - destruct (S i <? limit - 1)%nat; reflexivity.
  - change (58 =? 58) with true. cbv iota. rewrite read_ipv4_colon, read_number_colon. destruct (S i <? limit - 1)%nat; reflexivity.
Qed.

Lemma render_groups_nodot_app gs drops uppers rest : groups_ok drops gs = true -> Forall (fun c => c <> 46) rest ->
  Forall (fun c => c <> 46) (render_groups drops uppers gs ++ rest).
Proof. intros H Hr. apply Forall_app. split; [apply render_groups_nodot; exact H|exact Hr]. Qed.

(* the groups after the first: each is preceded by a colon *)
Lemma read_groups_tail limit : forall gs drops uppers m i acc rest, groups_ok drops gs = true -> (1 <= i)%nat ->
  gstop rest -> Forall (fun c => c <> 46) rest ->
  read_groups (length gs + m) i limit (match gs with [] => [] | _ => 58 :: render_groups drops uppers gs end ++ rest) acc =
  read_groups m (i + length gs) limit rest (acc ++ gs).
Proof.
  induction gs as [|g gs IH]; intros drops uppers m i acc rest Hok Hi Hs Hnd.
  - cbn [length app Nat.add]. rewrite Nat.add_0_r, app_nil_r. reflexivity.
  - pose proof (render_groups_nodot_app _ _ uppers rest Hok Hnd) as Hnd'.
    cbn [groups_ok] in Hok. apply andb_true_iff in Hok. destruct Hok as [Hg Hgs].
    cbn [length Nat.add read_groups app]. destruct i as [|i]; [lia|]. cbn [read_sep]. change (58 =? 58) with true. cbv iota.
    rewrite (read_ipv4_nodot _ Hnd').
    assert (Hrd : read_number 16 4 true U16_MAX (render_groups drops uppers (g :: gs) ++ rest) =
                  Some (g, match gs with [] => [] | _ => 58 :: render_groups (tl drops) (tl uppers) gs end ++ rest)).
    { cbn [render_groups]. rewrite <- app_assoc. apply read_group_hex; [exact Hg|].
      destruct gs; [cbn [app]; apply gstop_stopper; exact Hs|apply stopper16_colon]. }
    rewrite Hrd.
    assert (Hnext : read_groups (length gs + m) (S (S i)) limit
              (match gs with [] => [] | _ => 58 :: render_groups (tl drops) (tl uppers) gs end ++ rest) (acc ++ [g]) =
              read_groups m (S i + S (length gs)) limit rest (acc ++ g :: gs)).
    { rewrite (IH (tl drops) (tl uppers) m (S (S i)) (acc ++ [g]) rest Hgs ltac:(lia) Hs Hnd).
      rewrite <- app_assoc. cbn [app]. f_equal. lia. }
    destruct (S i <? limit - 1)%nat; exact Hnext.
Qed.

(* a run of groups from the beginning of a (part of an) address *)
Lemma read_groups_run limit : forall gs drops uppers m rest, groups_ok drops gs = true -> gs <> [] ->
  gstop rest -> Forall (fun c => c <> 46) rest ->
  read_groups (length gs + m) 0 limit (render_groups drops uppers gs ++ rest) [] = read_groups m (length gs) limit rest gs.
Proof.
  intros gs drops uppers m rest Hok Hne Hs Hnd. destruct gs as [|g gs]; [congruence|].
  pose proof (render_groups_nodot_app _ _ uppers rest Hok Hnd) as Hnd'.
  cbn [groups_ok] in Hok. apply andb_true_iff in Hok. destruct Hok as [Hg Hgs].
  cbn [length Nat.add read_groups]. cbn [read_sep]. rewrite (read_ipv4_nodot _ Hnd').
  assert (Hrd : read_number 16 4 true U16_MAX (render_groups drops uppers (g :: gs) ++ rest) =
                Some (g, match gs with [] => [] | _ => 58 :: render_groups (tl drops) (tl uppers) gs end ++ rest)).
  { cbn [render_groups]. rewrite <- app_assoc. apply read_group_hex; [exact Hg|].
    destruct gs; [cbn [app]; apply gstop_stopper; exact Hs|apply stopper16_colon]. }
  rewrite Hrd.
  assert (Hnext : read_groups (length gs + m) 1 limit
            (match gs with [] => [] | _ => 58 :: render_groups (tl drops) (tl uppers) gs end ++ rest) ([] ++ [g]) =
            read_groups m (S (length gs)) limit rest (g :: gs)).
  { rewrite (read_groups_tail limit gs (tl drops) (tl uppers) m 1 ([] ++ [g]) rest Hgs ltac:(lia) Hs Hnd). reflexivity. }
  destruct (0 <? limit - 1)%nat; exact Hnext.
Qed.

(* nothing to read at index 0: the text is empty or begins with "::" *)
Lemma read_groups_none m limit rest : gstop rest -> read_groups m 0 limit rest [] = ([], false, rest).
Proof.
  intros Hs. destruct m as [|m]; [reflexivity|]. cbn [read_groups read_sep]. destruct Hs as [->|(X & ->)].
  - destruct (0 <? limit - 1)%nat; reflexivity.
  - rewrite read_ipv4_colon, read_number_colon. destruct (0 <? limit - 1)%nat; reflexivity.
Qed.

(* any run, possibly empty, with enough iterations left (or exactly as many as groups, at the end of the text) *)
Lemma read_groups_part limit gs drops uppers m rest : groups_ok drops gs = true -> gstop rest -> Forall (fun c => c <> 46) rest ->
  (m = 0%nat -> rest = []) ->
  read_groups (length gs + m) 0 limit (render_groups drops uppers gs ++ rest) [] = (gs, false, rest).
Proof.
  intros Hok Hs Hnd Hm. destruct gs as [|g gs].
  - cbn [length Nat.add render_groups app]. apply read_groups_none. exact Hs.
  - rewrite (read_groups_run limit (g :: gs) drops uppers m rest Hok ltac:(discriminate) Hs Hnd).
    destruct m as [|m]; [cbn [read_groups]; rewrite (Hm eq_refl); reflexivity|].
    apply read_groups_stop; [exact Hs|cbn [length]; lia].
Qed.

Lemma groups_ok_firstn : forall gs drops k, groups_ok drops gs = true -> groups_ok drops (firstn k gs) = true.
Proof.
  induction gs as [|g gs IH]; intros drops k H; [destruct k; reflexivity|]. destruct k as [|k]; [reflexivity|].
  cbn [groups_ok firstn] in *. apply andb_true_iff in H. destruct H as [Hg Hgs]. rewrite Hg, (IH _ _ Hgs). reflexivity.
Qed.

Lemma groups_ok_skipn : forall gs drops k, groups_ok drops gs = true -> groups_ok (skipn k drops) (skipn k gs) = true.
Proof.
  induction gs as [|g gs IH]; intros drops k H; [destruct k; reflexivity|]. destruct k as [|k]; [exact H|].
  cbn [groups_ok] in H. apply andb_true_iff in H. destruct H as [_ Hgs]. cbn [skipn]. destruct drops as [|d drops].
  - specialize (IH [] k Hgs). destruct k; exact IH.
  - apply IH. exact Hgs.
Qed.

Lemma zeros_repeat : forall l : list N, forallb (N.eqb 0) l = true -> l = repeat 0 (length l).
Proof.
  induction l as [|x l IH]; intros H; [reflexivity|]. cbn [forallb] in H. apply andb_true_iff in H. destruct H as [Hx Hl].
  apply N.eqb_eq in Hx. subst x. cbn [length repeat]. f_equal. apply IH. exact Hl.
Qed.

Theorem ipv6_roundtrip c gs : ip6_ok c gs = true -> ipv6_from_str (render_ip6 c gs) = Some (flat_map sbe16 gs).
Proof.
  unfold ip6_ok. intros H. apply andb_true_iff in H. destruct H as [H Hzip]. apply andb_true_iff in H. destruct H as [Hlen Hok].
  apply Nat.eqb_eq in Hlen. unfold ipv6_from_str, read_ipv6_addr, render_ip6. destruct (g_zip c) as [[i n]|].
  - apply andb_true_iff in Hzip. destruct Hzip as [Hzip Hz]. apply andb_true_iff in Hzip. destruct Hzip as [Hn Hin].
    apply Nat.leb_le in Hn, Hin.
    set (L := firstn i gs). set (R := skipn (i + n) gs).
    assert (HL : length L = i) by (unfold L; rewrite firstn_length; lia).
    assert (HR : length R = (8 - (i + n))%nat) by (unfold R; rewrite skipn_length; lia).
    pose proof (groups_ok_firstn gs (g_drop c) i Hok) as HokL. fold L in HokL.
    pose proof (groups_ok_skipn gs (g_drop c) (i + n) Hok) as HokR. fold R in HokR.
    set (Rt := render_groups (skipn (i + n) (g_drop c)) (skipn (i + n) (g_upper c)) R) in *.
    assert (HndR : Forall (fun c => c <> 46) Rt) by (apply render_groups_nodot; exact HokR).
    (* the part before "::" *)
    assert (E8 : 8%nat = (length L + (8 - i))%nat) by lia. rewrite E8 at 1.
    rewrite (read_groups_part 8 L (g_drop c) (g_upper c) (8 - i) ([58; 58] ++ Rt) HokL);
      [|right; eexists; reflexivity|constructor; [discriminate|constructor; [discriminate|exact HndR]]|intros Hm; lia].
    rewrite HL. destruct (i =? 8)%nat eqn:Ei8; [apply Nat.eqb_eq in Ei8; lia|].
    cbn [app]. change (58 =? 58) with true. cbn [andb].
    (* the part after it *)
    assert (Elim : (8 - (i + 1))%nat = (length R + (n - 1))%nat) by lia. rewrite Elim.
    rewrite <- (app_nil_r Rt). unfold Rt.
    rewrite (read_groups_part (length R + (n - 1)) R (skipn (i + n) (g_drop c)) (skipn (i + n) (g_upper c)) (n - 1) [] HokR); [|left; reflexivity|constructor|reflexivity].
    f_equal. rewrite HR.
    assert (Egs : gs = L ++ repeat 0 n ++ R).
    { unfold L, R. rewrite <- (firstn_skipn i gs) at 1. f_equal. rewrite <- (firstn_skipn n (skipn i gs)) at 1. f_equal.
      - rewrite (zeros_repeat _ Hz) at 1. f_equal. rewrite firstn_length, skipn_length. lia.
      - rewrite skipn_plus. f_equal. }
    replace (8 - i - (8 - (i + n)))%nat with n by lia. rewrite <- Egs. reflexivity.
  - destruct gs as [|g gs]; [discriminate|]. cbn [length] in Hlen.
    assert (E8 : 8%nat = (length (g :: gs) + 0)%nat) by (cbn [length]; lia). rewrite E8 at 1.
    rewrite <- (app_nil_r (render_groups (g_drop c) (g_upper c) (g :: gs))).
    rewrite (read_groups_part 8 (g :: gs) _ _ 0 [] Hok); [|left; reflexivity|constructor|reflexivity].
    cbn [length]. replace (S (length gs) =? 8)%nat with true by (symmetry; apply Nat.eqb_eq; lia). reflexivity.
Qed.

Lemma render_groups_tok : forall gs drops uppers, groups_ok drops gs = true ->
  forallb tokch (render_groups drops uppers gs) = true /\ (length (render_groups drops uppers gs) <= 5 * length gs)%nat.
Proof.
  induction gs as [|g gs IH]; intros drops uppers H; [split; [reflexivity|simpl; lia]|].
  cbn [groups_ok] in H. apply andb_true_iff in H. destruct H as [Hg Hgs].
  destruct (group_facts (hd 0%nat drops) (hd false uppers) g Hg) as (_ & _ & [_ L4] & Ht & _).
  destruct (IH (tl drops) (tl uppers) Hgs) as [IH1 IH2].
  cbn [render_groups]. rewrite forallb_app, app_length. destruct gs as [|g2 gs].
  - split; [rewrite Ht; reflexivity|simpl; lia].
  - cbn [forallb length]. rewrite Ht, IH1. split; [reflexivity|]. cbn [length] in IH2. lia.
Qed.

Lemma ip6_ok_len c gs : ip6_ok c gs = true -> length gs = 8%nat.
Proof. unfold ip6_ok. intros H. apply andb_true_iff in H. destruct H as [H _]. apply andb_true_iff in H. destruct H as [H _]. apply Nat.eqb_eq. exact H. Qed.

Lemma ip6_tok c gs : ip6_ok c gs = true -> forallb tokch (render_ip6 c gs) = true /\ (length (render_ip6 c gs) <= 50)%nat.
Proof.
  intros H. pose proof (ip6_ok_len c gs H) as Hlen. unfold ip6_ok in H. apply andb_true_iff in H. destruct H as [H Hzip].
  apply andb_true_iff in H. destruct H as [_ Hok]. unfold render_ip6. destruct (g_zip c) as [[i n]|].
  - destruct (render_groups_tok _ _ (g_upper c) (groups_ok_firstn gs (g_drop c) i Hok)) as [A1 A2].
    destruct (render_groups_tok _ _ (skipn (i + n) (g_upper c)) (groups_ok_skipn gs (g_drop c) (i + n) Hok)) as [B1 B2].
    rewrite !forallb_app, A1, B1. split; [reflexivity|]. rewrite !app_length. cbn [length].
    rewrite firstn_length in A2. rewrite skipn_length in B2. lia.
  - destruct (render_groups_tok gs (g_drop c) (g_upper c) Hok) as [A1 A2]. split; [exact A1|lia].
Qed.

Lemma ip6_head c gs : ip6_ok c gs = true -> exists h tl, render_ip6 c gs = h :: tl /\ h <> 92 /\ plainb h = true.
Proof.
  intros H. destruct (ip6_tok c gs H) as [Ht _]. pose proof (ipv6_roundtrip c gs H) as Hr.
  destruct (render_ip6 c gs) as [|h tl]; [change (ipv6_from_str []) with (@None bytes) in Hr; discriminate|]. exists h, tl. split; [reflexivity|].
  cbn [forallb] in Ht. apply andb_true_iff in Ht. destruct Ht as [Hh _]. split; [|unfold tokch in Hh; apply andb_true_iff in Hh; tauto].
  intros ->. unfold ipv6_from_str, read_ipv6_addr in Hr. cbn [read_groups read_sep] in Hr.
  assert (E1 : read_ipv4_addr (92 :: tl) = None) by (unfold read_ipv4_addr; cbn [read_sep]; unfold read_number; cbn [rn_loop]; reflexivity).
  assert (E2 : read_number 16 4 true U16_MAX (92 :: tl) = None) by (unfold read_number; cbn [rn_loop]; reflexivity).
  rewrite E1, E2 in Hr. destruct tl as [|c2 l2]; cbn in Hr; discriminate.
Qed.

Theorem ip6_field_runs c gs p : ip6_ok c gs = true -> runs fend parse_ipv6 (render_ip6 c gs) p p (flat_map sbe16 gs).
Proof.
  intros H. destruct (ip6_tok c gs H) as [T1 T2].
  unfold parse_ipv6. apply read_field_runs; [exact T1|lia|].
  rewrite (ipv6_roundtrip c gs H). reflexivity.
Qed.
