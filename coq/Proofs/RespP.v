(* C02: what acceptance by the message decoder means. *)
From QV Require Import Base.ListX Spec.NameWireS Proofs.NameWireSP Spec.MsgWriterS Spec.RdataFormatS Spec.RespS.
Local Open Scope nat_scope.

Lemma dec_questions_len b : forall n pos qs e, dec_questions n b pos = Some (qs, e) -> length qs = n.
Proof.
  induction n as [|n IH]; intros pos qs e; cbn [dec_questions].
  - intros H; inversion H; reflexivity.
  - destruct (dec_cname b pos) as [[ls l]|]; [|discriminate].
    destruct (get16 b (pos + l)); [|discriminate]. destruct (get16 b (pos + l + 2)); [|discriminate].
    destruct (dec_questions n b (pos + l + 4)) as [[qs' e']|] eqn:E; [|discriminate].
    intros H; inversion H; subst. cbn. f_equal. eapply IH; eauto.
Qed.

(* the owner name of a decoded record decodes, at the record's position, under the C14 relation *)
Definition rr_name_ok (b : bytes) (r : drr) : Prop := exists l, decodes_name b (dr_pos r) (dr_owner r) l.

Lemma dec_rrs_facts b : forall n pos rs e, dec_rrs n b pos = Some (rs, e) ->
  length rs = n /\ Forall (rr_name_ok b) rs.
Proof.
  induction n as [|n IH]; intros pos rs e; cbn [dec_rrs].
  - intros H; inversion H; subst. split; [reflexivity|constructor].
  - destruct (dec_cname b pos) as [[ls l]|] eqn:En; [|discriminate].
    destruct (get16 b (pos + l)) as [t|]; [|discriminate]. destruct (get16 b (pos + l + 2)) as [c|]; [|discriminate].
    destruct (get32 b (pos + l + 4)) as [ttl|]; [|discriminate]. destruct (get16 b (pos + l + 8)) as [rdlen|]; [|discriminate].
    destruct (_ <=? length b); [|discriminate].
    destruct (dec_parts false (layout c t) b (pos + l + 10) (pos + l + 10 + N.to_nat rdlen)) as [ps|]; [|discriminate].
    destruct (dec_rrs n b (pos + l + 10 + N.to_nat rdlen)) as [[rs' e']|] eqn:E; [|discriminate].
    intros H; inversion H; subst. destruct (IH _ _ _ E) as [Hl Hf]. split; [cbn; f_equal; exact Hl|].
    constructor; [|exact Hf]. exists l. cbn [dr_pos dr_owner]. apply spec_decode_name_iff. exact En.
Qed.

Theorem decode_counts_and_end b m : decode_msg b = Some m ->
  exists qd an ns ar p1 p2 p3,
    get16 b 4 = Some qd /\ get16 b 6 = Some an /\ get16 b 8 = Some ns /\ get16 b 10 = Some ar /\
    length (m_qs m) = N.to_nat qd /\ length (m_an m) = N.to_nat an /\
    length (m_ns m) = N.to_nat ns /\ length (m_ar m) = N.to_nat ar /\
    dec_questions (N.to_nat qd) b 12 = Some (m_qs m, p1) /\ dec_rrs (N.to_nat an) b p1 = Some (m_an m, p2) /\
    dec_rrs (N.to_nat ns) b p2 = Some (m_ns m, p3) /\ dec_rrs (N.to_nat ar) b p3 = Some (m_ar m, length b).
Proof.
  unfold decode_msg.
  destruct (get16 b 0) as [id|]; [|discriminate]. destruct (nth_error b 2) as [f2|]; [|discriminate].
  destruct (nth_error b 3) as [f3|]; [|discriminate]. destruct (get16 b 4) as [qd|]; [|discriminate].
  destruct (get16 b 6) as [an|]; [|discriminate]. destruct (get16 b 8) as [ns|]; [|discriminate].
  destruct (get16 b 10) as [ar|]; [|discriminate].
  destruct (dec_questions (N.to_nat qd) b 12) as [[qs p1]|] eqn:E1; [|discriminate].
  destruct (dec_rrs (N.to_nat an) b p1) as [[ans p2]|] eqn:E2; [|discriminate].
  destruct (dec_rrs (N.to_nat ns) b p2) as [[nss p3]|] eqn:E3; [|discriminate].
  destruct (dec_rrs (N.to_nat ar) b p3) as [[ars p4]|] eqn:E4; [|discriminate].
  destruct (p4 =? length b) eqn:E5; [|discriminate]. apply Nat.eqb_eq in E5. subst p4.
  intros H; inversion H; subst. cbn [m_qs m_an m_ns m_ar].
  exists qd, an, ns, ar, p1, p2, p3.
  pose proof (dec_questions_len _ _ _ _ _ E1). destruct (dec_rrs_facts _ _ _ _ _ E2) as [? _].
  destruct (dec_rrs_facts _ _ _ _ _ E3) as [? _]. destruct (dec_rrs_facts _ _ _ _ _ E4) as [? _].
  repeat split; auto.
Qed.

Theorem decode_names b m : decode_msg b = Some m ->
  Forall (rr_name_ok b) (m_an m) /\ Forall (rr_name_ok b) (m_ns m) /\ Forall (rr_name_ok b) (m_ar m).
Proof.
  intros H. destruct (decode_counts_and_end b m H) as (qd & an & ns & ar & p1 & p2 & p3 & _ & _ & _ & _ & _ & _ & _ & _ & _ & E2 & E3 & E4).
  destruct (dec_rrs_facts _ _ _ _ _ E2) as [_ A]. destruct (dec_rrs_facts _ _ _ _ _ E3) as [_ B].
  destruct (dec_rrs_facts _ _ _ _ _ E4) as [_ C]. auto.
Qed.

Lemma count_zero_forall {A} (f : A -> bool) l : count f l = 0 <-> forall x, In x l -> f x = false.
Proof.
  unfold count. induction l as [|y l IH]; simpl; [split; auto; intros _ x []|].
  destruct (f y) eqn:E; simpl.
  - split; [discriminate|]. intros H. specialize (H y (or_introl eq_refl)). congruence.
  - rewrite IH. split; intros H x; [intros [<-|Hx]; auto|intros Hx; apply H; auto].
Qed.

Theorem wf_meaning b : wf_response b = true <->
  exists m, decode_msg b = Some m /\ qr_bit m = true /\
    (forall r, In r (m_an m ++ m_ns m ++ m_ar m) -> rr_rdata_ok r = true) /\
    (forall r, In r (m_an m ++ m_ns m) -> is_opt r = false /\ is_tsig r = false) /\
    count is_opt (m_ar m) <= 1 /\ count is_tsig (m_ar m) <= 1 /\
    (forall before last, m_ar m = before ++ [last] -> forall r, In r before -> is_tsig r = false).
Proof.
  unfold wf_response. split.
  - destruct (decode_msg b) as [m|]; [|discriminate]. intros H. exists m. split; [reflexivity|].
    unfold wf_decoded in H. repeat (apply andb_true_iff in H; destruct H as [H ?]).
    split; [exact H|]. split; [apply forallb_forall; assumption|].
    split.
    { intros r Hr. match goal with Hc : (count is_pseudo _ =? 0) = true |- _ => apply Nat.eqb_eq in Hc;
        pose proof (proj1 (count_zero_forall _ _) Hc r Hr) as Hp end.
      unfold is_pseudo in Hp. apply orb_false_iff in Hp. exact Hp. }
    split; [apply Nat.leb_le; assumption|]. split; [apply Nat.leb_le; assumption|].
    intros before last Hm r Hr. match goal with Hl : match rev (m_ar m) with _ => _ end = true |- _ => rename Hl into HL end.
    rewrite Hm, rev_app_distr in HL. cbn [rev app] in HL. rewrite <- (rev_involutive before) in Hr.
    apply Nat.eqb_eq in HL. apply (proj1 (count_zero_forall _ _) HL). apply in_rev. exact Hr.
  - intros (m & -> & Hq & Hr & Hp & Ho & Ht & Hl). unfold wf_decoded. rewrite Hq. cbn [andb].
    repeat (apply andb_true_iff; split).
    + apply forallb_forall. exact Hr.
    + apply Nat.eqb_eq. apply count_zero_forall. intros r Hin. destruct (Hp r Hin) as [A B]. unfold is_pseudo. rewrite A, B. reflexivity.
    + apply Nat.leb_le. exact Ho.
    + apply Nat.leb_le. exact Ht.
    + destruct (rev (m_ar m)) as [|last before] eqn:E; [reflexivity|].
      apply Nat.eqb_eq. apply count_zero_forall. intros r Hin.
      apply (Hl (rev before) last); [|apply in_rev in Hin; exact Hin].
      rewrite <- (rev_involutive (m_ar m)), E. reflexivity.
Qed.
