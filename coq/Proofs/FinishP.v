(* C02, the part that composes from C12's frame lemmas: the four section counts that
   Writer::finish writes into the header are the Writer's counters (the reserved OPT / TSIG records,
   already counted in ARCOUNT, are appended above the header and leave it alone). *)
From QV Require Import Base.ListX Gen.Consts Model.MsgWriter Proofs.MsgWriterP Proofs.MsgWriterNameP
  Proofs.MsgWriterInvP Spec.MsgWriterS.
Local Open Scope nat_scope.

Lemma be16_get16 b i v : slice b i (i + 2) = be16 v -> (v < 65536)%N -> get16 b i = Some v.
Proof.
  unfold be16. intros H Hv. apply slice_head in H as (H1 & H2 & _).
  replace (S i) with (i + 1) in H2 by lia. apply slice_head in H2 as (H2 & _ & _).
  unfold get16. rewrite H1, H2. f_equal.
  assert (E : (v / 256 < 256)%N) by (apply N.div_lt_upper_bound; lia).
  rewrite (N.mod_small (v / 256) 256 E). rewrite N.mul_comm. symmetry. apply N.div_mod. lia.
Qed.

Lemma w_write_slices w pos d w' : w_write w pos d = Ok w' ->
  slice (w_buf w') pos (pos + length d) = d /\ agree pos (w_buf w) (w_buf w').
Proof.
  intros H. apply w_write_inv in H as (b' & Hb & ->). cbn [w_buf set_buf]. split.
  - eapply buf_write_data; eauto.
  - eapply buf_write_agree; eauto.
Qed.

Theorem finish_header_counts w len b : Inv_n w -> finish w = Ok (len, b) ->
  (w_qd w < 65536)%N -> (w_an w < 65536)%N -> (w_ns w < 65536)%N -> (w_ar w < 65536)%N ->
  get16 b 4 = Some (w_qd w) /\ get16 b 6 = Some (w_an w) /\ get16 b 8 = Some (w_ns w) /\ get16 b 10 = Some (w_ar w).
Proof.
  intros Hi Hf Hqd Han Hns Har. unfold finish, finish_gen in Hf.
  destruct (w_write w (N.to_nat QDCOUNT_START) _) as [w1|e|] eqn:E1; cbn [bind] in Hf; try discriminate.
  destruct (w_write w1 (N.to_nat ANCOUNT_START) _) as [w2|e|] eqn:E2; cbn [bind] in Hf; try discriminate.
  destruct (w_write w2 (N.to_nat NSCOUNT_START) _) as [w3|e|] eqn:E3; cbn [bind] in Hf; try discriminate.
  destruct (w_write w3 (N.to_nat ARCOUNT_START) _) as [w4|e|] eqn:E4; cbn [bind] in Hf; try discriminate.
  pose proof (inv_w_write _ _ _ _ Hi E1) as I1. pose proof (inv_w_write _ _ _ _ I1 E2) as I2.
  pose proof (inv_w_write _ _ _ _ I2 E3) as I3. pose proof (inv_w_write _ _ _ _ I3 E4) as I4.
  (* the counters are untouched by the four writes *)
  assert (Hc : w_qd w1 = w_qd w /\ w_an w1 = w_an w /\ w_ns w2 = w_ns w /\ w_ar w3 = w_ar w /\ w_an w1 = w_an w).
  { apply w_write_inv in E1 as (b1 & _ & ->). apply w_write_inv in E2 as (b2 & _ & ->).
    apply w_write_inv in E3 as (b3 & _ & ->). cbn. auto. }
  destruct Hc as (C1 & C2 & C3 & C4 & _). rewrite C2 in E2. rewrite C3 in E3. rewrite C4 in E4.
  change (N.to_nat QDCOUNT_START) with 4 in E1. change (N.to_nat ANCOUNT_START) with 6 in E2.
  change (N.to_nat NSCOUNT_START) with 8 in E3. change (N.to_nat ARCOUNT_START) with 10 in E4.
  destruct (w_write_slices _ _ _ _ E1) as [S1 _]. destruct (w_write_slices _ _ _ _ E2) as [S2 A2].
  destruct (w_write_slices _ _ _ _ E3) as [S3 A3]. destruct (w_write_slices _ _ _ _ E4) as [S4 A4].
  cbn [length be16] in S1, S2, S3, S4.
  assert (H4 : slice (w_buf w4) 4 6 = be16 (w_qd w) /\ slice (w_buf w4) 6 8 = be16 (w_an w) /\
               slice (w_buf w4) 8 10 = be16 (w_ns w) /\ slice (w_buf w4) 10 12 = be16 (w_ar w)).
  { repeat split.
    - rewrite (agree_slice 10 _ _ 4 6 A4) by lia. rewrite (agree_slice 8 _ _ 4 6 A3) by lia.
      rewrite (agree_slice 6 _ _ 4 6 A2) by lia. exact S1.
    - rewrite (agree_slice 10 _ _ 6 8 A4) by lia. rewrite (agree_slice 8 _ _ 6 8 A3) by lia. exact S2.
    - rewrite (agree_slice 10 _ _ 8 10 A4) by lia. exact S3.
    - exact S4. }
  clear S1 S2 S3 S4 A2 A3 A4 E1 E2 E3 E4 I1 I2 I3.
  (* the OPT and TSIG records are written at or above the cursor >= 12 *)
  assert (Hfin : agree 12 (w_buf w4) b).
  { destruct I4 as [h1 h2 h3 h4 h5]. change header_size with 12 in h1.
    destruct (match w_edns w4 with Some e => _ | None => Ok w4 end) as [w5|e|] eqn:E5; cbn [bind] in Hf; try discriminate.
    assert (X5 : agree 12 (w_buf w4) (w_buf w5) /\ 12 <= w_cursor w5 /\
                 w_cursor w5 <= w_avail w5 + match w_tsig w5 with Some t => t_reserved t | None => 0 end).
    { destruct (w_edns w4) as [ed|] eqn:Ee.
      - assert (Hp : pre 12 (set_avail w4 (w_avail w4 + opt_record_size)))
          by (split; cbn [w_avail w_cursor set_avail set_limit_avail]; lia).
        pose proof (unwrap_frame 12 _ _ _ E5 (frame_add_rr 12 _ _ _ _ _ _ _ _ Hp)) as X.
        pose proof (x_cav _ _ _ X). pose proof (x_cur _ _ _ X).
        cbn [w_cursor w_avail w_buf set_avail set_limit_avail] in *.
        split; [exact (x_agree _ _ _ X)|]. split; lia.
      - inversion E5; subst. split; [apply agree_refl|]. split; lia. }
    destruct X5 as (A5 & C5 & V5).
    destruct (w_tsig w5) as [t|] eqn:Et.
    - destruct (unwrap_w _) as [w6|e|] eqn:E6; cbn [bind] in Hf; try discriminate.
      inversion Hf; subst.
      assert (Hp : pre 12 (set_avail (set_tsig_f w5 None) (w_avail w5 + t_reserved t)))
        by (split; cbn [w_avail w_cursor set_avail set_limit_avail set_tsig_f]; lia).
      pose proof (unwrap_frame 12 _ _ _ E6 (frame_add_rr 12 _ _ _ _ _ _ _ _ Hp)) as X.
      eapply agree_trans; [exact A5|]. exact (x_agree _ _ _ X).
    - inversion Hf; subst. exact A5. }
  destruct H4 as (S1 & S2 & S3 & S4).
  repeat split; apply be16_get16; auto.
  - change 6 with (4 + 2) in S1. rewrite (agree_slice 12 _ _ 4 (4 + 2) Hfin) by lia. exact S1.
  - change 8 with (6 + 2) in S2. rewrite (agree_slice 12 _ _ 6 (6 + 2) Hfin) by lia. exact S2.
  - change 10 with (8 + 2) in S3. rewrite (agree_slice 12 _ _ 8 (8 + 2) Hfin) by lia. exact S3.
  - change 12 with (10 + 2) in S4. rewrite (agree_slice 12 _ _ 10 (10 + 2) Hfin) by lia. exact S4.
Qed.
