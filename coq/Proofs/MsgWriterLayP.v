(* The physical layout of what the writer has put into the buffer (ghost): name chunks with their
   shape, RDATA parts, records, questions; stability of the layout under writes outside the
   readable region. *)
From QV Require Import Base.ListX Model.MsgWriter Spec.NameWireS Proofs.NameWireP Proofs.MsgWriterP
     Proofs.MsgWriterScanP Proofs.MsgWriterNameP Proofs.MsgWriterClosP Proofs.MsgWriterNameSP.

Local Open Scope nat_scope.

Record nchunk := mkNC { nc_pos : nat; nc_end : nat; nc_name : wname; nc_cp : bool; nc_sh : shape }.

Definition chunk_ok (b : bytes) (L : nat -> Prop) (ch : nchunk) : Prop :=
  nc_pos ch < nc_end ch /\ shape_at (nc_cp ch) (nc_name ch) b L (nc_pos ch) (nc_end ch) (nc_sh ch).

Definition chunk_starts (ch : nchunk) : list nat := own_starts (nc_pos ch) (nc_name ch) (nc_sh ch).

Inductive lpart := LPName (ch : nchunk) (comp : bool) | LPRaw (pos : nat) (data : bytes).

Fixpoint parts_at (b : bytes) (L : nat -> Prop) (ps : list lpart) (pos e : nat) : Prop :=
  match ps with
  | [] => pos = e
  | LPRaw p data :: r => p = pos /\ True /\ slice b pos (pos + length data) = data /\
                         pos + length data <= e /\ parts_at b L r (pos + length data) e
  | LPName ch comp :: r => nc_pos ch = pos /\ chunk_ok b L ch /\ (comp = false -> nc_sh ch = None) /\
                           nc_end ch <= e /\ parts_at b L r (nc_end ch) e
  end.

Fixpoint parts_starts (ps : list lpart) : list nat :=
  match ps with
  | [] => []
  | LPRaw _ _ :: r => parts_starts r
  | LPName ch _ :: r => chunk_starts ch ++ parts_starts r
  end.

Record lrr := mkLR { lr_owner : nchunk; lr_ty : N; lr_cl : N; lr_ttl : N; lr_parts : list lpart; lr_end : nat }.

Definition rr_fixed (r : lrr) : bytes :=
  be16 (lr_ty r) ++ be16 (lr_cl r) ++ be32 (lr_ttl r) ++
  be16 (N.of_nat (lr_end r - (nc_end (lr_owner r) + 10)) mod 65536).

Definition rr_at (b : bytes) (L : nat -> Prop) (r : lrr) : Prop :=
  chunk_ok b L (lr_owner r) /\
  slice b (nc_end (lr_owner r)) (nc_end (lr_owner r) + 10) = rr_fixed r /\
  nc_end (lr_owner r) + 10 <= lr_end r /\
  parts_at b L (lr_parts r) (nc_end (lr_owner r) + 10) (lr_end r).

Definition rr_starts (r : lrr) : list nat := chunk_starts (lr_owner r) ++ parts_starts (lr_parts r).

Fixpoint rrs_at (b : bytes) (L : nat -> Prop) (rs : list lrr) (pos e : nat) : Prop :=
  match rs with
  | [] => pos = e
  | r :: rest => nc_pos (lr_owner r) = pos /\ rr_at b L r /\ lr_end r <= e /\ rrs_at b L rest (lr_end r) e
  end.

Definition rrs_starts (rs : list lrr) : list nat := flat_map rr_starts rs.

Record lq := mkLQ { lq_name : nchunk; lq_ty : N; lq_cl : N }.

Definition q_at (b : bytes) (L : nat -> Prop) (q : lq) : Prop :=
  chunk_ok b L (lq_name q) /\
  slice b (nc_end (lq_name q)) (nc_end (lq_name q) + 4) = be16 (lq_ty q) ++ be16 (lq_cl q).

Fixpoint qs_at (b : bytes) (L : nat -> Prop) (qs : list lq) (pos e : nat) : Prop :=
  match qs with
  | [] => pos = e
  | q :: rest => nc_pos (lq_name q) = pos /\ q_at b L q /\ nc_end (lq_name q) + 4 <= e /\
                 qs_at b L rest (nc_end (lq_name q) + 4) e
  end.

Definition qs_starts (qs : list lq) : list nat := flat_map (fun q => chunk_starts (lq_name q)) qs.

(* ---------------------------------------------------------------- monotonicity in L *)

Lemma shape_mono cp n b (L L' : nat -> Prop) pos e sh : (forall s, L s -> L' s) ->
  shape_at cp n b L pos e sh -> shape_at cp n b L' pos e sh.
Proof.
  intros HL. destruct sh as [[k pp]|]; simpl; auto. intros [H1 [H2 [H3 H4]]]. auto.
Qed.

Lemma chunk_mono b (L L' : nat -> Prop) ch : (forall s, L s -> L' s) -> chunk_ok b L ch -> chunk_ok b L' ch.
Proof. intros HL [H1 H2]. split; auto. eapply shape_mono; eauto. Qed.

Lemma parts_mono b (L L' : nat -> Prop) : (forall s, L s -> L' s) ->
  forall ps pos e, parts_at b L ps pos e -> parts_at b L' ps pos e.
Proof.
  intros HL. induction ps as [|[ch comp|p data] r IH]; intros pos e; simpl; auto.
  - intros [H1 [H2 [H3 [H4 H5]]]]. split; auto. split; [apply (chunk_mono b L L'); auto|]. auto.
  - intros [H1 [H2 [H3 [H4 H5]]]]. repeat split; auto.
Qed.

Lemma rr_mono b (L L' : nat -> Prop) r : (forall s, L s -> L' s) -> rr_at b L r -> rr_at b L' r.
Proof.
  intros HL [H1 [H2 [H3 H4]]]. split; [eapply chunk_mono; eauto|]. split; auto. split; auto.
  eapply parts_mono; eauto.
Qed.

Lemma rrs_mono b (L L' : nat -> Prop) : (forall s, L s -> L' s) ->
  forall rs pos e, rrs_at b L rs pos e -> rrs_at b L' rs pos e.
Proof.
  intros HL. induction rs as [|r rest IH]; intros pos e; simpl; auto.
  intros [H1 [H2 [H3 H4]]]. split; auto. split; [eapply rr_mono; eauto|]. auto.
Qed.

Lemma qs_mono b (L L' : nat -> Prop) : (forall s, L s -> L' s) ->
  forall qs pos e, qs_at b L qs pos e -> qs_at b L' qs pos e.
Proof.
  intros HL. induction qs as [|q rest IH]; intros pos e; simpl; auto.
  intros [H1 [[H2 H2'] [H3 H4]]]. split; auto. split; [split; auto; eapply chunk_mono; eauto|]. auto.
Qed.

(* ---------------------------------------------------------------- transfer *)

Lemma okr_sub lo c h a e a' e' : okr lo c h a e -> a <= a' -> e' <= e -> okr lo c h a' e'.
Proof. unfold okr. lia. Qed.

Lemma shape_transfer cp n b lo c h L b' pos e sh : closed b lo c h L -> ragree lo c h b b' ->
  okr lo c h pos e -> pos <= e -> e <= length b ->
  shape_at cp n b L pos e sh -> shape_at cp n b' L pos e sh.
Proof.
  intros Hc R O Hpe He. destruct sh as [[k pp]|]; simpl.
  - intros [H1 [H2 [H3 [H4 [H5 [H6 [m [H7 H8]]]]]]]].
    rewrite (ragree_slice _ _ _ _ _ _ _ R O Hpe He). repeat split; auto.
    exists m. split; auto. eapply name_at_transfer; eauto. left; auto.
  - rewrite (ragree_slice _ _ _ _ _ _ _ R O Hpe He). auto.
Qed.

Lemma chunk_transfer b lo c h L b' ch : closed b lo c h L -> ragree lo c h b b' ->
  okr lo c h (nc_pos ch) (nc_end ch) -> nc_end ch <= length b ->
  chunk_ok b L ch -> chunk_ok b' L ch.
Proof.
  intros Hc R O He [H1 H2]. split; auto. eapply shape_transfer; eauto. lia.
Qed.

Lemma parts_transfer b lo c h L b' : closed b lo c h L -> ragree lo c h b b' ->
  forall ps pos e, okr lo c h pos e -> e <= length b ->
  parts_at b L ps pos e -> parts_at b' L ps pos e.
Proof.
  intros Hc R. induction ps as [|[ch comp|p data] r IH]; intros pos e O He; simpl; auto.
  - intros [H1 [H2 [H3 [H4 H5]]]]. pose proof (proj1 H2) as Hlt.
    split; auto. split.
    + eapply chunk_transfer; eauto; [eapply okr_sub; eauto; lia|lia].
    + split; auto. split; auto. apply IH; auto. eapply okr_sub; eauto; lia.
  - intros [H1 [H2 [H3 [H4 H5]]]]. subst p. split; auto. split; auto. split.
    + rewrite (ragree_slice lo c h b b' pos (pos + length data) R); auto; try lia.
      eapply okr_sub; eauto; lia.
    + split; auto. apply IH; auto. eapply okr_sub; eauto; lia.
Qed.

Lemma parts_le b L : forall ps pos e, parts_at b L ps pos e -> pos <= e.
Proof.
  induction ps as [|[ch comp|p data] r IH]; intros pos e; simpl.
  - lia.
  - intros [H1 [[H2 _] [_ [H4 H5]]]]. lia.
  - intros [H1 [H2 [H3 [H4 H5]]]]. lia.
Qed.

(* a completed record: every octet of it lies in [lo, c), no hole *)
Lemma rr_transfer b lo c h L b' r : closed b lo c h L -> ragree lo c h b b' ->
  okr lo c h (nc_pos (lr_owner r)) (lr_end r) -> lr_end r <= length b ->
  rr_at b L r -> rr_at b' L r.
Proof.
  intros Hc R O He [H1 [H2 [H3 H4]]]. pose proof (proj1 H1) as Hlt.
  split; [eapply chunk_transfer; eauto; [eapply okr_sub; eauto; lia|lia]|].
  split.
  - rewrite (ragree_slice lo c h b b' _ _ R); auto; try lia. eapply okr_sub; eauto; lia.
  - split; auto. eapply parts_transfer; eauto. eapply okr_sub; eauto; lia.
Qed.

Lemma rrs_le b L : forall rs pos e, rrs_at b L rs pos e -> pos <= e.
Proof.
  induction rs as [|r rest IH]; intros pos e; simpl; [lia|].
  intros [H1 [[[H2 _] [_ [H3 _]]] [H4 H5]]]. apply IH in H5. lia.
Qed.

Lemma rrs_transfer b lo c h L b' : closed b lo c h L -> ragree lo c h b b' ->
  forall rs pos e, okr lo c h pos e -> e <= length b -> rrs_at b L rs pos e -> rrs_at b' L rs pos e.
Proof.
  intros Hc R. induction rs as [|r rest IH]; intros pos e O He; simpl; auto.
  intros [H1 [H2 [H3 H4]]]. pose proof (rrs_le _ _ _ _ _ H4) as Hle.
  destruct H2 as [[K1 K1'] [K2 [K3 K4]]].
  split; auto. split.
  - eapply rr_transfer; eauto; [eapply okr_sub; eauto; lia|lia|].
    split; [split; auto|]. auto.
  - split; auto. apply IH; auto. eapply okr_sub; eauto; lia.
Qed.

Lemma qs_le b L : forall qs pos e, qs_at b L qs pos e -> pos <= e.
Proof.
  induction qs as [|q rest IH]; intros pos e; simpl; [lia|].
  intros [H1 [[[H2 _] _] [H4 H5]]]. apply IH in H5. lia.
Qed.

Lemma qs_transfer b lo c h L b' : closed b lo c h L -> ragree lo c h b b' ->
  forall qs pos e, okr lo c h pos e -> e <= length b -> qs_at b L qs pos e -> qs_at b' L qs pos e.
Proof.
  intros Hc R. induction qs as [|q rest IH]; intros pos e O He; simpl; auto.
  intros [H1 [[H2 H2'] [H3 H4]]]. pose proof (qs_le _ _ _ _ _ H4) as Hle. pose proof (proj1 H2) as Hlt.
  split; auto. split.
  - split; [eapply chunk_transfer; eauto; [eapply okr_sub; eauto; lia|lia]|].
    rewrite (ragree_slice lo c h b b' _ _ R); auto; try lia. eapply okr_sub; eauto; lia.
  - split; auto. apply IH; auto. eapply okr_sub; eauto; lia.
Qed.

(* label starts of a layout lie inside its extent *)
Lemma own_starts_bound cp n b L pos e sh s : shape_at cp n b L pos e sh -> e <= length b -> pos <= e ->
  In s (own_starts pos n sh) -> pos <= s /\ s < e.
Proof.
  intros Hsh He Hpe. assert (Hl : length (slice b pos e) = e - pos) by (apply slice_length; lia).
  destruct sh as [[k pp]|]; simpl in *.
  - destruct Hsh as [_ [Hs _]]. rewrite Hs, app_length in Hl. simpl in Hl.
    intros Hin. apply lstarts_bound in Hin. lia.
  - rewrite Hsh, nm_wire_length in Hl. rewrite in_app_iff. simpl.
    intros [Hin|[<-|[]]]; [apply lstarts_bound in Hin|]; lia.
Qed.

(* ---------------------------------------------------------------- what the parts stand for *)

Inductive apart := APName (n : wname) (comp : bool) | APRaw (data : bytes).
Definition part_abs (p : lpart) : apart :=
  match p with LPName ch comp => APName (nc_name ch) comp | LPRaw _ d => APRaw d end.

Definition is_comp (ct : ctype) : bool := match ct with CtCompressible => true | _ => false end.

Fixpoint rd_parts (cts : list ctype) (rd : bytes) : list apart :=
  match cts with
  | [] => if length rd =? 0 then [] else [APRaw rd]
  | CtFixed k :: r => if length rd <? k then [] else APRaw (firstn k rd) :: rd_parts r (skipn k rd)
  | ct :: r => match parse_uncompressed_name rd false with
               | Ok (nm, len) => APName (labels_of_name nm) (is_comp ct) :: rd_parts r (skipn len rd)
               | _ => []
               end
  end.

Definition part_cp (cp : bool) (p : lpart) : Prop :=
  match p with LPName ch _ => nc_cp ch = cp | LPRaw _ _ => True end.

Lemma agree_slice' c b b' a e : agree c b b' -> e <= c -> slice b' a e = slice b a e.
Proof. apply agree_slice. Qed.

(* a chunk written below the cursor survives appends *)
Lemma chunk_append b c L b' ch : agree c b b' -> nc_end ch <= c -> chunk_ok b L ch -> chunk_ok b' L ch.
Proof.
  intros Ag He [H1 H2]. split; auto. destruct (nc_sh ch) as [[k pp]|]; simpl in *.
  - destruct H2 as [K1 [K2 [K3 [K4 [K5 [K6 [m [K7 K8]]]]]]]].
    rewrite (agree_slice c b b' _ _ Ag He). repeat split; auto.
    exists m. split; auto. eapply name_at_stable; [exact K7|eapply agree_le; [exact Ag|lia]|lia].
  - rewrite (agree_slice c b b' _ _ Ag He). auto.
Qed.

Lemma parts_append b c L b' : agree c b b' -> forall ps pos e, e <= c ->
  parts_at b L ps pos e -> parts_at b' L ps pos e.
Proof.
  intros Ag. induction ps as [|[ch comp|p data] r IH]; intros pos e He; simpl; auto.
  - intros [H1 [H2 [H3 [H4 H5]]]]. split; auto. split; [eapply chunk_append; eauto; lia|]. auto.
  - intros [H1 [H2 [H3 [H4 H5]]]]. split; auto. split; auto. split; [|auto].
    rewrite (agree_slice c b b' _ _ Ag); auto. lia.
Qed.

Lemma rr_append b c L b' r : agree c b b' -> lr_end r <= c -> rr_at b L r -> rr_at b' L r.
Proof.
  intros Ag He [H1 [H2 [H3 H4]]]. pose proof (proj1 H1).
  split; [eapply chunk_append; eauto; lia|]. split.
  - rewrite (agree_slice c b b' _ _ Ag); auto. lia.
  - split; auto. eapply parts_append; eauto.
Qed.

Lemma rrs_append b c L b' : agree c b b' -> forall rs pos e, e <= c ->
  rrs_at b L rs pos e -> rrs_at b' L rs pos e.
Proof.
  intros Ag. induction rs as [|r rest IH]; intros pos e He; simpl; auto.
  intros [H1 [H2 [H3 H4]]]. split; auto. split; [eapply rr_append; eauto; lia|]. auto.
Qed.

Lemma qs_append b c L b' : agree c b b' -> forall qs pos e, e <= c ->
  qs_at b L qs pos e -> qs_at b' L qs pos e.
Proof.
  intros Ag. induction qs as [|q rest IH]; intros pos e He; simpl; auto.
  intros [H1 [[H2 H2'] [H3 H4]]]. pose proof (proj1 H2). split; auto. split.
  - split; [eapply chunk_append; eauto; lia|]. rewrite (agree_slice c b b' _ _ Ag); auto. lia.
  - auto.
Qed.

Lemma rrs_at_app b L : forall rs1 rs2 pos m e, rrs_at b L rs1 pos m -> rrs_at b L rs2 m e ->
  rrs_at b L (rs1 ++ rs2) pos e.
Proof.
  induction rs1 as [|r rest IH]; intros rs2 pos m e H1 H2; simpl in *.
  - subst. exact H2.
  - destruct H1 as [K1 [K2 [K3 K4]]]. split; auto. split; auto.
    pose proof (rrs_le _ _ _ _ _ H2). split; [lia|]. eapply IH; eauto.
Qed.

Lemma rrs_starts_app rs1 rs2 : rrs_starts (rs1 ++ rs2) = rrs_starts rs1 ++ rrs_starts rs2.
Proof. unfold rrs_starts. apply flat_map_app. Qed.

(* ---------------------------------------------------------------- bounds of the label starts *)

Lemma chunk_starts_bound b L ch s : chunk_ok b L ch -> nc_end ch <= length b ->
  In s (chunk_starts ch) -> nc_pos ch <= s /\ s < nc_end ch.
Proof. intros [H1 H2] He. eapply own_starts_bound; eauto. lia. Qed.

Lemma parts_starts_bound b L : forall ps pos e s, parts_at b L ps pos e -> e <= length b ->
  In s (parts_starts ps) -> pos <= s /\ s < e.
Proof.
  induction ps as [|[ch comp|p data] r IH]; intros pos e s; simpl; [tauto| |].
  - intros [H1 [H2 [H3 [H4 H5]]]] He. rewrite in_app_iff. intros [K|K].
    + apply (chunk_starts_bound b L ch s H2) in K; lia.
    + apply (IH _ _ _ H5 He) in K. pose proof (proj1 H2). lia.
  - intros [H1 [H2 [H3 [H4 H5]]]] He K. apply (IH _ _ _ H5 He) in K. lia.
Qed.

Lemma rr_starts_bound b L r s : rr_at b L r -> lr_end r <= length b ->
  In s (rr_starts r) -> nc_pos (lr_owner r) <= s /\ s < lr_end r.
Proof.
  intros [H1 [H2 [H3 H4]]] He. unfold rr_starts. rewrite in_app_iff. intros [K|K].
  - apply (chunk_starts_bound b L _ s H1) in K; lia.
  - apply (parts_starts_bound _ _ _ _ _ _ H4 He) in K. pose proof (proj1 H1). lia.
Qed.

Lemma rrs_starts_bound b L : forall rs pos e s, rrs_at b L rs pos e -> e <= length b ->
  In s (rrs_starts rs) -> pos <= s /\ s < e.
Proof.
  induction rs as [|r rest IH]; intros pos e s; simpl; [tauto|].
  intros [H1 [H2 [H3 H4]]] He. rewrite in_app_iff. intros [K|K].
  - apply (rr_starts_bound b L r s H2) in K; lia.
  - apply (IH _ _ _ H4 He) in K. destruct H2 as [[K1 _] [_ [K3 _]]]. lia.
Qed.

Lemma qs_starts_bound b L : forall qs pos e s, qs_at b L qs pos e -> e <= length b ->
  In s (qs_starts qs) -> pos <= s /\ s < e.
Proof.
  induction qs as [|q rest IH]; intros pos e s; simpl; [tauto|].
  intros [H1 [[H2 H2'] [H3 H4]]] He. rewrite in_app_iff. intros [K|K].
  - apply (chunk_starts_bound b L _ s H2) in K; lia.
  - apply (IH _ _ _ H4 He) in K. pose proof (proj1 H2). lia.
Qed.

(* the questions only point into the questions *)
Lemma qs_restrict b (L : nat -> Prop) rs : forall qs pos e, qs_at b L qs pos e -> e <= rs ->
  qs_at b (fun s => L s /\ s < rs) qs pos e.
Proof.
  induction qs as [|q rest IH]; intros pos e; simpl; auto.
  intros [H1 [[[H2 H2s] H2'] [H3 H4]]] He. pose proof (qs_le _ _ _ _ _ H4).
  split; auto. split; [split; auto; split; auto|auto].
  destruct (nc_sh (lq_name q)) as [[k pp]|]; simpl in *; auto.
  destruct H2s as [K1 [K2 [K3 [K4 K5]]]]. repeat split; auto; try apply K5. lia.
Qed.

Lemma qs_at_app b L : forall qs1 qs2 pos m e, qs_at b L qs1 pos m -> qs_at b L qs2 m e ->
  qs_at b L (qs1 ++ qs2) pos e.
Proof.
  induction qs1 as [|q rest IH]; intros qs2 pos m e H1 H2; simpl in *.
  - subst. exact H2.
  - destruct H1 as [K1 [K2 [K3 K4]]]. split; auto. split; auto.
    pose proof (qs_le _ _ _ _ _ H2). split; [lia|]. eapply IH; eauto.
Qed.

Lemma qs_starts_app q1 q2 : qs_starts (q1 ++ q2) = qs_starts q1 ++ qs_starts q2.
Proof. unfold qs_starts. apply flat_map_app. Qed.

(* the parts follow the component types: one part per component, then the rest as raw octets *)
Fixpoint parts_shape (cts : list ctype) (ps : list lpart) : Prop :=
  match cts with
  | [] => match ps with [] => True | [LPRaw _ d] => d <> [] | _ => False end
  | CtFixed k :: r => match ps with LPRaw _ d :: ps' => length d = k /\ parts_shape r ps' | _ => False end
  | ct :: r => match ps with LPName _ comp :: ps' => comp = is_comp ct /\ parts_shape r ps' | _ => False end
  end.

(* items written with compression disabled: every chunk is the plain wire form *)
Definition part_plain (p : lpart) : Prop := match p with LPName ch _ => nc_sh ch = None | LPRaw _ _ => True end.
Definition rr_plain (r : lrr) : Prop := nc_sh (lr_owner r) = None /\ Forall part_plain (lr_parts r).
