(* C21: the validation model against the flat-record reference checker. *)
From QV Require Import Base.Res Base.Octets Base.ListX Gen.ZoneConsts Model.ZoneTree Model.ZoneValid
  Spec.ZoneLookupS Spec.ZoneValidS
  Proofs.ZoneBaseP Proofs.ZoneRrsetP Proofs.ZoneViewP Proofs.ZoneInvP Proofs.ZoneLookupP Proofs.ZoneTopP
  Proofs.ZoneIterP Proofs.ZoneStoreP.

(* ---- relating the two accumulation monads *)
Definition rel (r : res zone_err (list issue)) (o : option (list issue)) : Prop :=
  match r, o with
  | Ok a, Some b => map norm_issue a = b
  | Err InvalidRdata, None => True
  | _, _ => False
  end.

Definition srel (r : res zone_err (list issue)) (o : option (list issue)) : Prop :=
  match r, o with
  | Ok a, Some b => forall i, In i (map norm_issue a) <-> In i b
  | Err InvalidRdata, None => True
  | _, _ => False
  end.

Lemma collect_rel {A} (f : A -> res zone_err (list issue)) (g : A -> option (list issue)) l :
  (forall x, In x l -> rel (f x) (g x)) -> rel (collect f l) (ocollect g l).
Proof.
  induction l as [|x l IH]; intros H; simpl; auto.
  pose proof (H x (or_introl eq_refl)) as Hx.
  assert (IH' : rel (collect f l) (ocollect g l)) by (apply IH; intros y Hy; apply H; right; exact Hy).
  unfold rel in *.
  destruct (f x) as [a|e|]; [|destruct e|]; destruct (g x) as [b|]; simpl; try contradiction; auto.
  destruct (collect f l) as [a'|e'|]; [|destruct e'|]; destruct (ocollect g l) as [b'|]; simpl;
    try contradiction; auto.
  rewrite map_app. congruence.
Qed.

Lemma collect_cases {A} (f : A -> res zone_err (list issue)) l :
  (forall x, In x l -> (exists a, f x = Ok a) \/ f x = Err InvalidRdata) ->
  (collect f l = Err InvalidRdata /\ exists x, In x l /\ f x = Err InvalidRdata) \/
  (exists r, collect f l = Ok r /\ (forall x, In x l -> exists a, f x = Ok a) /\
             forall i, In i r <-> exists x a, In x l /\ f x = Ok a /\ In i a).
Proof.
  induction l as [|x l IH]; intros H; simpl.
  - right. exists []. split; auto. split; [intros x []|]. intros i. split; [intros []|].
    intros (x & a & [] & _).
  - destruct (H x (or_introl eq_refl)) as [[a Ha]|He].
    + rewrite Ha. simpl.
      destruct (IH (fun y Hy => H y (or_intror Hy))) as [[Hc (y & Hy & Hfy)]|(r & Hc & Hall & Hin)].
      * rewrite Hc. simpl. left. split; auto. exists y. auto.
      * rewrite Hc. simpl. right. exists (a ++ r). split; auto. split.
        -- intros y [<-|Hy]; eauto.
        -- intros i. rewrite in_app_iff, Hin. split.
           ++ intros [Hi|(y & b & Hy & Hb & Hi)]; [exists x, a; auto|exists y, b; auto].
           ++ intros (y & b & [<-|Hy] & Hb & Hi).
              ** rewrite Ha in Hb. inversion Hb; subst. auto.
              ** right. eauto.
    + rewrite He. simpl. left. split; auto. exists x. auto.
Qed.

Lemma ocollect_cases {A} (g : A -> option (list issue)) l :
  (ocollect g l = None /\ exists y, In y l /\ g y = None) \/
  (exists r, ocollect g l = Some r /\ (forall y, In y l -> exists b, g y = Some b) /\
             forall i, In i r <-> exists y b, In y l /\ g y = Some b /\ In i b).
Proof.
  induction l as [|x l IH]; simpl.
  - right. exists []. split; auto. split; [intros x []|]. intros i. split; [intros []|].
    intros (x & a & [] & _).
  - destruct (g x) as [a|] eqn:Ha.
    + destruct IH as [[Hc (y & Hy & Hgy)]|(r & Hc & Hall & Hin)].
      * rewrite Hc. left. split; auto. exists y. auto.
      * rewrite Hc. right. exists (a ++ r). split; auto. split.
        -- intros y [<-|Hy]; eauto.
        -- intros i. rewrite in_app_iff, Hin. split.
           ++ intros [Hi|(y & b & Hy & Hb & Hi)]; [exists x, a; auto|exists y, b; auto].
           ++ intros (y & b & [<-|Hy] & Hb & Hi).
              ** rewrite Ha in Hb. inversion Hb; subst. auto.
              ** right. eauto.
    + left. split; auto. exists x. auto.
Qed.

Lemma rel_shape r o : rel r o -> (exists a, r = Ok a) \/ r = Err InvalidRdata.
Proof.
  unfold rel. destruct r as [a|e|]; [eauto| |destruct o; contradiction].
  destruct e; destruct o; try contradiction; auto.
Qed.

Lemma collect_srel {A B} (f : A -> res zone_err (list issue)) (g : B -> option (list issue)) la lb :
  (forall x, In x la -> exists y, In y lb /\ rel (f x) (g y)) ->
  (forall y, In y lb -> exists x, In x la /\ rel (f x) (g y)) ->
  srel (collect f la) (ocollect g lb).
Proof.
  intros H1 H2.
  assert (Hshape : forall x, In x la -> (exists a, f x = Ok a) \/ f x = Err InvalidRdata).
  { intros x Hx. destruct (H1 x Hx) as (y & _ & Hr). eapply rel_shape; eauto. }
  destruct (collect_cases f la Hshape) as [[Hc (x & Hx & Hfx)]|(r & Hc & Hall & Hin)];
    destruct (ocollect_cases g lb) as [[Hd (y & Hy & Hgy)]|(r' & Hd & Hall' & Hin')];
    rewrite Hc, Hd; unfold srel; auto.
  - destruct (H1 x Hx) as (y & Hy & Hr). destruct (Hall' y Hy) as (b & Hb).
    rewrite Hfx, Hb in Hr. exact Hr.
  - destruct (H2 y Hy) as (x & Hx & Hr). destruct (Hall x Hx) as (a & Ha).
    rewrite Ha, Hgy in Hr. exact Hr.
  - intros i. rewrite in_map_iff. split.
    + intros (j & <- & Hj). apply Hin in Hj. destruct Hj as (x & a & Hx & Ha & Hj).
      destruct (H1 x Hx) as (y & Hy & Hr). destruct (Hall' y Hy) as (b & Hb).
      rewrite Ha, Hb in Hr. simpl in Hr. apply Hin'. exists y, b. split; auto. split; auto.
      rewrite <- Hr. apply in_map. exact Hj.
    + intros Hi. apply Hin' in Hi. destruct Hi as (y & b & Hy & Hb & Hi).
      destruct (H2 y Hy) as (x & Hx & Hr). destruct (Hall x Hx) as (a & Ha).
      rewrite Ha, Hb in Hr. simpl in Hr. rewrite <- Hr in Hi. apply in_map_iff in Hi.
      destruct Hi as (j & Hj & Hja). exists j. split; auto. apply Hin. eauto.
Qed.

(* ---- small facts *)
Lemma name_eq_lc a b : name_eq a b = name_eqb (lc a) (lc b).
Proof.
  unfold name_eq. destruct (length a =? length b) eqn:L; simpl.
  - apply Nat.eqb_eq in L.
    destruct (name_eqb (lc a) (lc b)) eqn:E.
    + apply name_eqb_eq in E. apply forallb_combine_lc; auto.
    + destruct (forallb _ _) eqn:F; auto. apply forallb_combine_lc in F; auto.
      apply name_eqb_eq in F. congruence.
  - symmetry. apply name_eqb_neq. intros E. apply (f_equal (@length _)) in E.
    rewrite !lc_length in E. apply Nat.eqb_neq in L. contradiction.
Qed.

Lemma octets_bytes_eqb a b : octets_eqb a b = bytes_eqb a b.
Proof.
  destruct (bytes_eqb a b) eqn:E.
  - apply bytes_eqb_eq in E. apply octets_eqb_eq. exact E.
  - destruct (octets_eqb a b) eqn:F; auto. apply octets_eqb_eq in F. apply bytes_eqb_eq in F. congruence.
Qed.

Lemma is_wildcard_spec n : is_wildcard n = Ok (is_wild (lc n)).
Proof.
  unfold is_wildcard, name_index. destruct n as [|l n]; simpl; auto.
Qed.

Section Valid.
Variable req : N -> N -> bytes -> bytes -> bool.
Hypothesis req_trans : forall cls ty a b c,
  req cls ty a b = true -> req cls ty b c = true -> req cls ty a c = true.
Variable parse : bytes -> option name.
Variable apex : name.
Variable cls : N.
Variable wide : bool.
Variables (z : zone) (R : list record).
Hypothesis HI : Inv req apex cls z R.
Hypothesis HW : wf (z_apex z).
Hypothesis Hwide : z_wide z = wide.
Hypothesis HR : forall r, In r R -> in_zone apex (r_owner r) = true.

Lemma z_class_eq : z_class z = cls.
Proof. destruct HI as (_ & H & _). exact H. Qed.

Lemma z_name_eq : zone_name z = apex.
Proof. destruct HI as (H & _). exact H. Qed.

Lemma class_has_addrs_spec : class_has_addrs (z_class z) = addr_class cls.
Proof. rewrite z_class_eq. reflexivity. Qed.

Lemma addrs_found_spec a b : addrs_found (z_class z) a b = has_addr cls a b.
Proof.
  rewrite z_class_eq. unfold addrs_found, has_addr. change CLASS_IN with 1%N.
  destruct a, b, (cls =? 1)%N; reflexivity.
Qed.

Lemma lookup_addrs_ok n sbc :
  exists r, zone_lookup_addrs z n false sbc = Ok r /\
            addr_lookup req apex cls R n sbc = Some (norm_addrs r).
Proof. apply (zone_lookup_addrs_refines req apex cls z R n false sbc HI). discriminate. Qed.

Lemma check_simple_rel (mk : name -> issue) n :
  (forall m, norm_issue (mk m) = mk (lc m)) ->
  rel (let* r := zone_lookup_addrs z n false false in
       Ok match r with
          | AFound a b _ => if addrs_found (z_class z) a b then [] else [mk n]
          | ANxDomain => [mk n]
          | AReferral _ _ => []
          | AWrongZone => []
          end)
      (Some (missing_address req apex cls R mk n)).
Proof.
  intros Hmk. destruct (lookup_addrs_ok n false) as (r & Hr & Hs). rewrite Hr. cbn [bind].
  unfold missing_address. rewrite Hs. unfold rel.
  destruct r as [a b s|c ns| |]; simpl; auto.
  - rewrite addrs_found_spec. destruct (has_addr cls a b); simpl; auto. rewrite Hmk. reflexivity.
  - rewrite Hmk. reflexivity.
Qed.

Lemma check_apex_ns_rel n :
  rel (check_apex_ns_address z n) (Some (missing_address req apex cls R MissingNsAddress n)).
Proof. apply (check_simple_rel MissingNsAddress). reflexivity. Qed.

Lemma check_mx_rel n :
  rel (check_mx_address z n) (Some (missing_address req apex cls R MissingMxAddress n)).
Proof. apply (check_simple_rel MissingMxAddress). reflexivity. Qed.

Lemma check_glue_rel n : rel (check_glue z n) (Some (missing_glue req apex cls R n)).
Proof.
  unfold check_glue. destruct (lookup_addrs_ok n true) as (r & Hr & Hs). rewrite Hr. cbn [bind].
  unfold missing_glue. rewrite Hs. unfold rel.
  destruct r as [a b s|c ns| |]; simpl; auto.
  rewrite addrs_found_spec. destruct (has_addr cls a b); reflexivity.
Qed.

Lemma check_delegation_rel n owner :
  rel (check_delegation_ns_address z n owner) (Some (delegation_ns req apex cls wide R n (lc owner))).
Proof.
  unfold check_delegation_ns_address. destruct (lookup_addrs_ok n false) as (r & Hr & Hs).
  rewrite Hr. cbn [bind]. unfold delegation_ns. rewrite Hs.
  destruct r as [a b s|c ns| |]; simpl norm_addrs; cbv iota.
  - unfold rel. rewrite addrs_found_spec. destruct (has_addr cls a b); reflexivity.
  - rewrite Hwide, name_eq_lc. destruct wide; simpl orb.
    + apply check_glue_rel.
    + destruct (name_eqb (lc c) (lc owner)); [apply check_glue_rel|reflexivity].
  - reflexivity.
  - reflexivity.
Qed.

(* ---- one RRset, one node *)
Lemma scan_rrset_rel owner k rs : is_suffixb (lc apex) (lc owner) = true ->
  rel (scan_rrset parse z owner k rs) (rrset_issues req parse apex cls wide R (lc owner) k rs).
Proof.
  intros Hs. unfold scan_rrset, rrset_issues.
  change TYPE_CNAME with 5%N. change TYPE_MX with 15%N. change TYPE_NS with 2%N.
  destruct (rs_type rs =? 5)%N.
  { unfold rel. rewrite map_app. destruct (k =? 1), (length (rs_rdatas rs) =? 1); reflexivity. }
  destruct (rs_type rs =? 15)%N.
  { rewrite class_has_addrs_spec. destruct (addr_class cls); [|reflexivity].
    apply collect_rel. intros rd _. unfold mx_name.
    destruct (if 2 <=? length rd then parse (skipn 2 rd) else None) as [n|]; [apply check_mx_rel|exact I]. }
  destruct (rs_type rs =? 2)%N; [|reflexivity].
  rewrite is_wildcard_spec. cbn [bind]. rewrite class_has_addrs_spec.
  assert (Hapex : (name_len owner =? name_len (zone_name z)) = name_eqb (lc owner) (lc apex)).
  { rewrite z_name_eq. unfold name_len. apply is_suffixb_iff in Hs. destruct Hs as [q Hq].
    destruct (name_eqb (lc owner) (lc apex)) eqn:E.
    - apply name_eqb_eq in E. apply (f_equal (@length _)) in E. rewrite !lc_length in E.
      apply Nat.eqb_eq. lia.
    - apply Nat.eqb_neq. intros L. apply name_eqb_neq in E. apply E.
      assert (q = []).
      { apply (f_equal (@length _)) in Hq. rewrite app_length, !lc_length in Hq.
        destruct q; auto. simpl in Hq. lia. }
      subst q. exact Hq. }
  rewrite Hapex.
  set (cm := collect _ (rs_rdatas rs)). set (co := ocollect _ (rs_rdatas rs)).
  assert (Hc : rel cm co).
  { apply collect_rel. intros rd _. unfold rdata_name.
    destruct (parse rd) as [n|]; [apply check_delegation_rel|exact I]. }
  destruct (negb (name_eqb (lc owner) (lc apex)) && addr_class cls).
  - unfold rel in *. destruct cm as [a|e|]; destruct co as [b|]; try contradiction; cbn [bind]; auto.
    rewrite map_app, Hc. destruct (is_wild (lc owner)); reflexivity.
  - cbn [bind]. unfold rel. rewrite app_nil_r. destruct (is_wild (lc owner)); reflexivity.
Qed.

Lemma scan_node_rel n d : In (n, d) (zone_iter_by_node z) ->
  rel (scan_node parse z n d) (name_issues req parse apex cls wide R (lc n)).
Proof.
  intros Hin. destruct (iter_nodes req apex cls z R HI HW) as (_ & Hmem & Hdata).
  pose proof (Hdata n d Hin) as Hd.
  assert (Hs : is_suffixb (lc apex) (lc n) = true).
  { assert (H : In (lc n) (map (fun nd => lc (fst nd)) (zone_iter_by_node z))).
    { apply in_map_iff. exists (n, d). auto. }
    apply Hmem in H. apply andb_true_iff in H. tauto. }
  unfold scan_node, name_issues. rewrite <- Hd. apply collect_rel. intros rs _.
  apply scan_rrset_rel. exact Hs.
Qed.

(* ---- the names of the zone *)
Lemma zone_names_iff m : In m (zone_names apex R) <->
  is_suffixb (lc apex) m && exists_name apex R m = true.
Proof.
  unfold zone_names. split.
  - intros [<-|H].
    + rewrite is_suffixb_refl. unfold exists_name. rewrite name_eqb_refl. reflexivity.
    + apply in_flat_map in H. destruct H as (r & Hr & Hm). unfold spec_nodes_of in Hm.
      apply in_map_iff in Hm. destruct Hm as (k & <- & Hk). apply in_seq in Hk.
      pose proof (HR r Hr) as Hz. unfold in_zone in Hz. apply is_suffixb_iff in Hz. destruct Hz as [q Hq].
      rewrite Hq in *. rewrite app_length, lc_length in Hk.
      apply andb_true_iff. split.
      * apply is_suffixb_iff. exists (skipn k q). rewrite skipn_app.
        replace (k - length q) with 0 by lia. reflexivity.
      * unfold exists_name. apply orb_true_iff. right. apply existsb_exists. exists r. split; auto.
        rewrite Hq. apply is_suffixb_iff. exists (firstn k (q ++ lc apex)). symmetry. apply firstn_skipn.
  - intros H. apply andb_true_iff in H. destruct H as [Hs He].
    unfold exists_name in He. apply orb_true_iff in He. destruct He as [He|He].
    + apply name_eqb_eq in He. left. auto.
    + right. apply existsb_exists in He. destruct He as (r & Hr & Hsuf).
      apply in_flat_map. exists r. split; auto. unfold spec_nodes_of.
      apply is_suffixb_iff in Hsuf. destruct Hsuf as [q Hq].
      apply is_suffixb_iff in Hs. destruct Hs as [q' Hq'].
      apply in_map_iff. exists (length q). split.
      * rewrite Hq. apply skipn_app_exact.
      * apply in_seq. rewrite Hq, Hq', !app_length, lc_length. lia.
Qed.

(* ---- validate *)
Theorem validate_spec :
  srel (zone_validate parse z) (spec_validate req parse apex cls wide R).
Proof.
  unfold zone_validate, spec_validate.
  destruct (soa_ns req apex cls z R HI HW) as (Hsoa & Hns & _).
  (* apex NS part *)
  assert (Hnsrel : rel
    match zone_ns z with
    | Some (_, rds) =>
      if class_has_addrs (z_class z) then
        collect (fun rd => match parse rd with
                           | Some n => check_apex_ns_address z n
                           | None => Err InvalidRdata
                           end) rds
      else Ok []
    | None => Ok [MissingApexNs]
    end (apex_ns_issues req parse apex cls R)).
  { rewrite Hns. unfold apex_ns_issues, single_of.
    destruct (spec_rrset req cls R (lc apex) 2) as [rs|]; [|reflexivity].
    rewrite class_has_addrs_spec. destruct (addr_class cls); [|reflexivity].
    apply collect_rel. intros rd _. unfold rdata_name.
    destruct (parse rd) as [n|]; [apply check_apex_ns_rel|exact I]. }
  (* nodes part *)
  assert (Hnodes : srel (collect (fun nd => scan_node parse z (fst nd) (snd nd)) (zone_iter_by_node z))
                        (ocollect (name_issues req parse apex cls wide R) (zone_names apex R))).
  { destruct (iter_nodes req apex cls z R HI HW) as (_ & Hmem & _).
    apply collect_srel.
    - intros [n d] Hin. exists (lc n). split; [|apply scan_node_rel; exact Hin].
      apply zone_names_iff. apply Hmem. apply in_map_iff. exists (n, d). auto.
    - intros m Hm. apply zone_names_iff in Hm. apply Hmem in Hm. apply in_map_iff in Hm.
      destruct Hm as ([n d] & <- & Hin). exists (n, d). split; auto. apply scan_node_rel. exact Hin. }
  (* apex SOA part *)
  assert (Hsoa' : map norm_issue
            match zone_soa z with
            | Some (_, rds) => if negb (length rds =? 1) then [TooManyApexSoas] else []
            | None => [MissingApexSoa]
            end = apex_soa_issues req apex cls R).
  { rewrite Hsoa. unfold apex_soa_issues, single_of.
    destruct (spec_rrset req cls R (lc apex) 6) as [rs|]; [|reflexivity].
    destruct (length (rs_rdatas rs) =? 1); reflexivity. }
  set (ns_m := match zone_ns z with Some _ => _ | None => _ end) in *.
  unfold rel in Hnsrel.
  destruct ns_m as [a|e|]; [|destruct e|]; destruct (apex_ns_issues req parse apex cls R) as [a'|];
    try contradiction; cbn [bind]; [|exact I].
  unfold srel in Hnodes.
  destruct (collect _ (zone_iter_by_node z)) as [b|e|]; [|destruct e|];
    destruct (ocollect _ (zone_names apex R)) as [b'|]; try contradiction; cbn [bind]; [|exact I].
  unfold srel. intros i. rewrite !map_app, Hsoa', Hnsrel, !in_app_iff, Hnodes. reflexivity.
Qed.

End Valid.

(* ---- over whole histories *)
Lemma accepted_in_zone apex cls recs : forall r, In r (accepted apex cls recs) -> in_zone apex (r_owner r) = true.
Proof.
  unfold accepted.
  assert (G : forall rs acc, (forall r, In r acc -> in_zone apex (r_owner r) = true) ->
            forall r, In r (fold_left (fun acc r => if acceptable apex cls acc r then acc ++ [r] else acc) rs acc) ->
                      in_zone apex (r_owner r) = true).
  { induction rs as [|x rs IH]; intros acc Hacc r Hr; simpl in Hr; auto.
    apply (IH (if acceptable apex cls acc x then acc ++ [x] else acc)); auto.
    intros r0 H0.
    destruct (acceptable apex cls acc x) eqn:A; auto.
    apply in_app_iff in H0. destruct H0 as [H0|[<-|[]]]; auto.
    unfold acceptable in A. apply andb_true_iff in A. destruct A as [A _].
    apply andb_true_iff in A. tauto. }
  apply G. intros r [].
Qed.

Lemma zone_add_wide req z r z' e : zone_add req z r = Ok (z', e) -> z_wide z' = z_wide z.
Proof.
  unfold zone_add. intros H.
  destruct (negb (eq_or_subdomain_of (r_owner r) (zone_name z))); [inversion H; subst; auto|].
  destruct (negb (r_class r =? z_class z)%N); [inversion H; subst; auto|].
  destruct (usub _ _) as [level| |]; cbn [bind] in H; try discriminate.
  destruct (node_update level (r_owner r) _ (z_apex z)) as [[a' e']| |]; cbn [bind] in H; try discriminate.
  inversion H; subst. reflexivity.
Qed.

Lemma zone_build_wide req rs : forall z z', zone_build req z rs = Some z' -> z_wide z' = z_wide z.
Proof.
  induction rs as [|r rs IH]; simpl; intros z z' H.
  - inversion H; subst; auto.
  - destruct (zone_add req z r) as [[z1 e]| |] eqn:A; try discriminate.
    rewrite (IH _ _ H). eapply zone_add_wide; eauto.
Qed.

Section FinalV.
Variable req : N -> N -> bytes -> bytes -> bool.
Hypothesis req_trans : forall cls ty a b c,
  req cls ty a b = true -> req cls ty b c = true -> req cls ty a c = true.

Lemma build_validate parse apex cls wide recs z :
  zone_build req (zone_new apex cls wide) recs = Some z ->
  srel (zone_validate parse z) (spec_validate req parse apex cls wide (accepted apex cls recs)).
Proof.
  intros H. apply validate_spec.
  - eapply build_inv; eauto.
  - eapply build_wf; eauto.
  - rewrite (zone_build_wide _ _ _ _ H). reflexivity.
  - apply accepted_in_zone.
Qed.

Lemma build_validate_exact parse apex cls wide recs z :
  zone_build req (zone_new apex cls wide) recs = Some z ->
  forall l, zone_validate parse z = Ok l ->
  exists l', spec_validate req parse apex cls wide (accepted apex cls recs) = Some l' /\
             forall i, In i (map norm_issue l) <-> In i l'.
Proof.
  intros H l Hl. pose proof (build_validate parse apex cls wide recs z H) as S.
  rewrite Hl in S. unfold srel in S.
  destruct (spec_validate req parse apex cls wide (accepted apex cls recs)) as [l'|]; [|contradiction].
  eauto.
Qed.

Lemma build_validate_err parse apex cls wide recs z :
  zone_build req (zone_new apex cls wide) recs = Some z ->
  (zone_validate parse z = Err InvalidRdata <->
   spec_validate req parse apex cls wide (accepted apex cls recs) = None) /\
  zone_validate parse z <> Panic /\
  (forall e, zone_validate parse z = Err e -> e = InvalidRdata).
Proof.
  intros H. pose proof (build_validate parse apex cls wide recs z H) as S. unfold srel in S.
  destruct (zone_validate parse z) as [l|e|]; [|destruct e|];
    destruct (spec_validate req parse apex cls wide (accepted apex cls recs)) as [l'|]; try contradiction.
  - split; [split; discriminate|]. split; [discriminate|]. intros e He. discriminate.
  - split; [tauto|]. split; [discriminate|]. intros e He. inversion He; auto.
Qed.

End FinalV.

Lemma severity_spec i : issue_is_error i = negb (spec_is_warning i).
Proof. destruct i; reflexivity. Qed.

Lemma severity_norm i : issue_is_error (norm_issue i) = issue_is_error i.
Proof. destruct i; reflexivity. Qed.
