(* Composition, part 11 (C04, the glue half of clause (iv)): a referral that is answered without TC and
   without SERVFAIL carries EVERY in-bailiwick glue address record the zone holds.
   The abstract message of the trace (areplay) is threaded through the referral path of the query model
   ([StA]: reachable + AInv + "A is the abstract message of the trace"):
     add_additional_addresses   success appends exactly the A / AAAA RRsets the zone lookup reports
     glue_loop                  success appends them for every glue target, in order (lift_add: a failure
                                is an error of the whole answer, never swallowed)
     optional_loop              appends SOME records (execute_allowing_truncation)
     do_referral                success: authority += the NS RRset; additional += all glue ++ some others
   and C12's round trip turns the abstract message into what the RFC 1035 decoder reads from the octets. *)
From QV Require Import Base.ListX Gen.ZoneConsts Gen.QueryConsts Model.NameWire Model.MsgWriter Model.ZoneTree
  Spec.ZoneLookupS Proofs.ZoneBaseP Proofs.ZoneInvP Proofs.ZoneTopP Model.Query Model.QueryW
  Spec.NameWireS Spec.MsgWriterS Spec.MsgWriterAbsS Spec.RespS
  Proofs.MsgWriterP Proofs.MsgWriterScanP Proofs.MsgWriterNameP Proofs.MsgWriterInvP Proofs.MsgWriterOpP
  Proofs.MsgWriterStepP Proofs.MsgWriterDecP Proofs.MsgWriterHdrP Proofs.MsgWriterRtP
  Proofs.QueryNameP Proofs.QueryWfP Proofs.QueryP
  Proofs.ComposeTraceP Proofs.ComposeWfP Proofs.ComposeNameP Proofs.ComposeKeyP Proofs.ComposeTopP Proofs.ComposeRespP
  Proofs.ComposeTcP.
From QV Require Proofs.QueryTopP.
Local Open Scope nat_scope.

Lemma areplay_snoc ops outs A o r : length ops = length outs ->
  areplay A (ops ++ [o]) (outs ++ [r]) = astep (areplay A ops outs) o r.
Proof. intros Hl. rewrite areplay_app by exact Hl. reflexivity. Qed.

(* A' is A with [X] appended to the additional section, nothing else changed *)
Definition ArExt (A A' : amsg) (X : list arr) : Prop :=
  am_mode A' = am_mode A /\ am_qs A' = am_qs A /\ am_an A' = am_an A /\ am_ns A' = am_ns A /\ am_ar A' = am_ar A ++ X.
Lemma ArExt_refl A : ArExt A A [].
Proof. unfold ArExt. rewrite app_nil_r. auto. Qed.
Lemma ArExt_trans A A1 A2 X Y : ArExt A A1 X -> ArExt A1 A2 Y -> ArExt A A2 (X ++ Y).
Proof. intros (a1 & a2 & a3 & a4 & a5) (b1 & b2 & b3 & b4 & b5). unfold ArExt. rewrite b5, a5, app_assoc. repeat split; congruence. Qed.

(* order-preserving omission *)
Inductive Sub {T} : list T -> list T -> Prop :=
| Sub_nil : Sub [] []
| Sub_keep x a b : Sub a b -> Sub (x :: a) (x :: b)
| Sub_drop x a b : Sub a b -> Sub a (x :: b).
Lemma Sub_refl {T} (l : list T) : Sub l l.
Proof. induction l; constructor; auto. Qed.
Lemma Sub_nil_l {T} (l : list T) : Sub [] l.
Proof. induction l; constructor; auto. Qed.
Lemma Sub_app {T} (a b c d : list T) : Sub a b -> Sub c d -> Sub (a ++ c) (b ++ d).
Proof. induction 1; intros Hcd; simpl; auto; constructor; auto. Qed.
Lemma Sub_prefix {T} (y z : list T) : Sub y (y ++ z).
Proof. rewrite <- (app_nil_r y) at 1. apply Sub_app; [apply Sub_refl|apply Sub_nil_l]. Qed.

Section Glue.
Variable req : N -> N -> bytes -> bytes -> bool.
Variable apex : name.
Variable cls : N.
Variable R : list record.
Variable z : zone.
Hypothesis Hinv : Inv req apex cls z R.
Hypothesis HR : Forall (fun r => Pz (fun _ _ => True) (r_type r) (r_rdata r)) R.
Hypothesis Hapex : good_name apex.
Hypothesis Hclass : (cls < 65536)%N.
Variable Pop : wop -> Prop.
Hypothesis Hpop_rrset : forall s hs owner ty cl ttl rds vec, Pop (OAddRrset s hs owner ty cl ttl rds vec).
Variable d0 : dstate.
Variable g0 : gn.
Variable A0 : amsg.

Notation Pz0 := (Pz (fun _ _ => True)).

Definition StA (d : dstate) (g : gn) (A : amsg) : Prop :=
  exists ops outs L, Reach Pop d0 g0 ops outs d g /\ AInv d g L /\ A = areplay A0 ops outs.

Lemma StA_St d g A : StA d g A -> St Pop d0 g0 d g.
Proof. intros (ops & outs & L & HR' & Hi & _). exists ops, outs, L. auto. Qed.

Lemma StA_step d g A o : StA d g A -> op_ok Pop o -> op_contract d g o -> (forall r, stops o r = false) ->
  exists d' r, step d o = Ok (d', r) /\ StA d' (gstep d g o r) (astep A o r).
Proof.
  intros (ops & outs & L & HR' & Hi & HA) Hok Hc Hst. pose proof Hok as [W1 W23].
  pose proof (step_ok_all d g L o Hi W1 Hc) as S. unfold step_ok in S.
  destruct (step d o) as [[d' r]|e|] eqn:E; try contradiction. destruct S as [L' Hi'].
  exists d', r. split; [reflexivity|]. exists (ops ++ [o]), (outs ++ [r]), L'. split; [|split; [exact Hi'|]].
  - eapply Reach_trans; [exact HR'|]. apply Reach_one; auto.
  - destruct (Reach_run Pop _ _ _ _ _ _ HR') as (_ & _ & _ & _ & _ & _ & Hl). rewrite areplay_snoc by lia. rewrite HA. reflexivity.
Qed.

Lemma StA_regs_len d g A : StA d g A -> length (d_regs d) = length (g_regs g).
Proof. intros H. exact (St_regs_len Pop d0 g0 d g (StA_St _ _ _ H)). Qed.

Lemma zcl : z_class z = cls. Proof. destruct Hinv as (_ & H & _). exact H. Qed.
Lemma zc16' : (z_class z < 65536)%N. Proof. rewrite zcl. exact Hclass. Qed.

(* one RRset of the additional section, no hint vector *)
Lemma StA_add_rrset d g A h hs owner ty cl ttl rds : StA d g A -> hint_agrees (d_regs d) h hs ->
  good_name owner -> Forall good_rd rds -> (ty < 65536)%N -> (cl < 65536)%N ->
  hs_contract (d_regs d) g hs owner ->
  match wi_add_rrset w_iface SAr h owner ty cl ttl rds false (d_w d) with
  | Ok (_, w') => exists d' g', StA d' g' (add_rrs A SecAdditional (map (mkAR owner (am_mode A) ty cl (ttl_rfc ttl)) rds)) /\
               d_w d' = w' /\ d_regs d' = d_regs d /\ g_regs g' = g_regs g /\
               ghost_rr_ok g g' owner (rds_names (component_types cl ty) rds) (match rds with [] => false | _ => true end)
  | Err (_, w') => exists d' g', StA d' g' A /\ d_w d' = w' /\ d_regs d' = d_regs d /\ g_regs g' = g_regs g /\ ghost_same g g'
  | Panic => False
  end.
Proof.
  intros HS Hh [Hn1 Hn2] Hr Hty Hcl Hc. destruct (good_rds_split _ Hr) as [Hr1 Hr2].
  set (o := OAddRrset (sec_of SAr) hs owner ty cl ttl rds false).
  assert (Hok : op_ok Pop o) by (split; [split; auto|split; [repeat split; auto|split; [exact I|apply Hpop_rrset]]]).
  assert (Hoc : op_contract d g o) by (intros _; exact Hc).
  destruct (StA_step d g A o HS Hok Hoc (stops_rrset _ _ _ _ _ _ _ _)) as (d' & r & E & HS').
  pose proof (StA_regs_len _ _ _ HS) as L0. pose proof (StA_regs_len _ _ _ HS') as L1.
  unfold o in E. cbn [step] in E. rewrite Hh in E. cbn [wi_add_rrset w_iface].
  destruct (add_section_rrset (sec_of SAr) (hint_of h) owner ty cl (ttl_from ttl) rds None (d_w d)) as [[v w']|[e w']|];
    cbn [of_Mv] in E; inversion E; subst d' r; clear E.
  - unfold o in L1. cbn [gstep g_regs d_regs] in L1. rewrite app_nil_r in L1.
    pose proof (app_same_len _ _ _ L1 L0) as Hx.
    exists (mkD w' (d_regs d ++ match v with Some l => [l] | None => [] end)), (gstep d g o RUnit).
    split; [exact HS'|]. cbn [d_w d_regs]. rewrite Hx, app_nil_r. split; [reflexivity|]. split; [reflexivity|].
    unfold o. cbn [gstep g_regs g_q g_o g_r]. rewrite app_nil_r. split; [reflexivity|].
    split; [reflexivity|]. split; [destruct rds; reflexivity|reflexivity].
  - exists (mkD w' (d_regs d ++ [])), (gstep d g o (RErr e)). split; [exact HS'|]. cbn [d_w d_regs]. rewrite app_nil_r.
    split; [reflexivity|]. split; [reflexivity|]. unfold o. cbn [gstep g_regs g_q g_o g_r]. rewrite app_nil_r.
    repeat split; reflexivity.
Qed.

(* ---- what add_additional_addresses appends on success: the address RRsets of the lookup *)
Definition addr_rrs (owner : zname) (sbc : bool) : list arr :=
  match zl (zone_lookup_addrs z owner false sbc) with
  | Some (AFound a aaaa _) =>
    (match a with Some (ttl, rds) => map (mkAR owner Standard ZoneConsts.TYPE_A (z_class z) (ttl_rfc ttl)) rds | None => [] end) ++
    (if (z_class z =? ZoneConsts.CLASS_IN)%N
     then match aaaa with Some (ttl, rds) => map (mkAR owner Standard ZoneConsts.TYPE_AAAA ZoneConsts.CLASS_IN (ttl_rfc ttl)) rds | None => [] end
     else [])
  | _ => []
  end.

Definition RSA (d : dstate) (g : gn) (A : amsg) (X : list arr) (r : res (wierr * writer) writer) : Prop :=
  match r with
  | Ok w' => exists d' g' A', StA d' g' A' /\ d_w d' = w' /\ Frame d g d' g' /\ ArExt A A' X
  | Err (_, w') => exists d' g' A' Y Z, StA d' g' A' /\ d_w d' = w' /\ Frame d g d' g' /\ ArExt A A' Y /\ X = Y ++ Z
  | Panic => False
  end.

Lemma add_rrs_ext A l : ArExt A (add_rrs A SecAdditional l) l.
Proof. unfold ArExt, add_rrs. cbn. auto. Qed.

Lemma addrs_A d g A owner h hs sbc : StA d g A -> am_mode A = Standard -> good_name owner ->
  hint_agrees (d_regs d) h hs -> hs_contract (d_regs d) g hs owner ->
  RSA d g A (addr_rrs owner sbc) (add_additional_addresses w_iface z owner h sbc (d_w d)).
Proof.
  intros HS Hm Hown Hh Hc. unfold add_additional_addresses, addr_rrs.
  destruct (zone_lookup_addrs_refines req apex cls z R owner false sbc Hinv) as (r & Hz & Hs); [discriminate|].
  rewrite Hz. cbn [zl].
  pose proof (spec_addrs_good req apex cls R Pz0 HR _ _ _ _ Hs) as G.
  assert (Here : RSA d g A [] (Ok (d_w d))).
  { exists d, g, A. split; [exact HS|]. split; [reflexivity|]. split; [apply Frame_refl|apply ArExt_refl]. }
  destruct r as [a aaaa sos|c ns| |]; try exact Here.
  destruct G as [Ga Gb].
  (* the AAAA step, from any state reached so far *)
  assert (Haaaa : forall d1 g1 A1 X h1 hs1, StA d1 g1 A1 -> am_mode A1 = Standard -> Frame d g d1 g1 -> ArExt A A1 X ->
            hint_agrees (d_regs d1) h1 hs1 -> hs_contract (d_regs d1) g1 hs1 owner ->
            RSA d g A (X ++ (if (z_class z =? ZoneConsts.CLASS_IN)%N
                             then match aaaa with
                                  | Some (ttl, rds) => map (mkAR owner Standard ZoneConsts.TYPE_AAAA ZoneConsts.CLASS_IN (ttl_rfc ttl)) rds
                                  | None => [] end
                             else []))
                (if (z_class z =? ZoneConsts.CLASS_IN)%N
                 then match aaaa with
                      | Some (ttl, rdatas) =>
                        match wi_add_rrset w_iface SAr h1 owner ZoneConsts.TYPE_AAAA ZoneConsts.CLASS_IN ttl rdatas false (d_w d1) with
                        | Ok (_, w2) => Ok w2 | Err e => Err e | Panic => Panic end
                      | None => Ok (d_w d1)
                      end
                 else Ok (d_w d1))).
  { intros d1 g1 A1 X h1 hs1 HS1 Hm1 F1 E1 Hh1 Hc1.
    assert (Here1 : RSA d g A (X ++ []) (Ok (d_w d1))).
    { exists d1, g1, A1. split; [exact HS1|]. split; [reflexivity|]. split; [exact F1|]. rewrite app_nil_r. exact E1. }
    destruct (z_class z =? ZoneConsts.CLASS_IN)%N eqn:Ecl; [|exact Here1].
    destruct aaaa as [[tb rb]|]; [|exact Here1].
    destruct (Gb _ eq_refl) as [GbP _]. cbn [snd] in GbP. destruct (Pz_split _ _ _ GbP) as [GbG _].
    pose proof (StA_add_rrset d1 g1 A1 h1 hs1 owner ZoneConsts.TYPE_AAAA ZoneConsts.CLASS_IN tb rb HS1 Hh1 Hown GbG eq_refl eq_refl Hc1) as Y.
    destruct (wi_add_rrset w_iface SAr h1 owner ZoneConsts.TYPE_AAAA ZoneConsts.CLASS_IN tb rb false (d_w d1)) as [[v w2]|[e w2]|]; cbn [RSA]; auto.
    - destruct Y as (d2 & g2 & HS2 & Hw2 & Hr2 & Hg2 & (Gq & _)). eexists d2, g2, _. split; [exact HS2|]. split; [exact Hw2|].
      split; [eapply Frame_trans; [exact F1|]; split; [exact Gq|]; split; apply prefix_eq; auto|].
      rewrite Hm1. eapply ArExt_trans; [exact E1|apply add_rrs_ext].
    - destruct Y as (d2 & g2 & HS2 & Hw2 & Hr2 & Hg2 & (Gq & _)). exists d2, g2, A1, X. eexists. split; [exact HS2|]. split; [exact Hw2|].
      split; [eapply Frame_trans; [exact F1|]; split; [exact Gq|]; split; apply prefix_eq; auto|]. split; [exact E1|reflexivity]. }
  destruct a as [[ta ra]|].
  - destruct (Ga _ eq_refl) as [GaP Gane]. cbn [snd] in *. destruct (Pz_split _ _ _ GaP) as [GaG _].
    pose proof (StA_add_rrset d g A h hs owner ZoneConsts.TYPE_A (z_class z) ta ra HS Hh Hown GaG eq_refl zc16' Hc) as Y.
    destruct (wi_add_rrset w_iface SAr h owner ZoneConsts.TYPE_A (z_class z) ta ra false (d_w d)) as [[v w1]|[e w1]|]; cbn [RSA]; auto.
    + destruct Y as (d1 & g1 & HS1 & Hw1 & Hr1 & Hg1 & (Gq & Go & _)). subst w1. rewrite Hm in HS1.
      apply (Haaaa d1 g1 _ _ QhOwner HsOwner HS1).
      * exact Hm.
      * split; [exact Gq|]. split; apply prefix_eq; auto.
      * apply add_rrs_ext.
      * reflexivity.
      * cbn [hs_contract]. intros m Hm'. rewrite Go in Hm'. destruct ra; [congruence|]. inversion Hm'; subst. apply name_eq_refl.
    + destruct Y as (d1 & g1 & HS1 & Hw1 & Hr1 & Hg1 & (Gq & _)). exists d1, g1, A, []. eexists. split; [exact HS1|]. split; [exact Hw1|].
      split; [split; [exact Gq|]; split; apply prefix_eq; auto|]. split; [apply ArExt_refl|reflexivity].
  - apply (Haaaa d g A [] h hs HS Hm (Frame_refl d g) (ArExt_refl A) Hh Hc).
Qed.

Definition QSA {T} (d : dstate) (g : gn) (A : amsg) (P : amsg -> Prop) (q : res (perr * writer) (T * writer)) : Prop :=
  match q with
  | Ok (_, w') => exists d' g' A', StA d' g' A' /\ d_w d' = w' /\ Frame d g d' g' /\ am_mode A' = Standard /\ P A'
  | Err _ => True
  | Panic => False
  end.

(* ---- glue: every target's addresses, or the whole answer fails *)
Lemma glue_loop_A r v rds : forall l d g A, StA d g A -> am_mode A = Standard -> vec_issued d g r v [CtCompressible] rds ->
  (forall i nm, In (i, nm) l -> good_name nm /\ nth_error (rds_names [CtCompressible] rds) i = Some nm) ->
  QSA d g A (fun A' => ArExt A A' (flat_map (fun t => addr_rrs (snd t) true) l)) (glue_loop w_iface z l v (d_w d)).
Proof.
  induction l as [|[idx n] l IH]; intros d g A HS Hm Hv Hl; cbn [glue_loop flat_map].
  - exists d, g, A. split; [exact HS|]. split; [reflexivity|]. split; [apply Frame_refl|]. split; [exact Hm|apply ArExt_refl].
  - destruct (Hl idx n (or_introl eq_refl)) as [Gn Hn].
    destruct (vec_hint d g r v _ _ idx n Hv (or_intror Hn)) as (hs & Hh & Hc).
    pose proof (addrs_A d g A n _ hs true HS Hm Gn Hh Hc) as Q.
    destruct (add_additional_addresses w_iface z n (hint_from_vec (Some v) idx) true (d_w d)) as [w1|[e w1]|]; cbn [lift_add QSA RSA] in Q |- *; auto.
    destruct Q as (d1 & g1 & A1 & HS1 & Hw1 & F1 & E1). subst w1.
    assert (Hm1 : am_mode A1 = Standard) by (destruct E1 as (X & _); congruence).
    assert (Hl' : forall i nm, In (i, nm) l -> good_name nm /\ nth_error (rds_names [CtCompressible] rds) i = Some nm)
      by (intros i nm Hin; apply Hl; right; exact Hin).
    pose proof (IH d1 g1 A1 HS1 Hm1 (vec_issued_frame _ _ _ _ _ _ _ _ F1 Hv) Hl') as Q2.
    destruct (glue_loop w_iface z l v (d_w d1)) as [[u w2]|[e w2]|]; cbn [QSA] in Q2 |- *; auto.
    destruct Q2 as (d2 & g2 & A2 & HS2 & Hw2 & F2 & Hm2 & E2). exists d2, g2, A2. split; [exact HS2|]. split; [exact Hw2|].
    split; [eapply Frame_trans; eauto|]. split; [exact Hm2|]. cbn [snd]. eapply ArExt_trans; eauto.
Qed.

(* ---- the other name servers: whatever fits *)
Lemma optional_loop_A r v rds : forall l d g A, StA d g A -> am_mode A = Standard -> vec_issued d g r v [CtCompressible] rds ->
  (forall i nm, In (i, nm) l -> good_name nm /\ nth_error (rds_names [CtCompressible] rds) i = Some nm) ->
  QSA d g A (fun A' => exists X, ArExt A A' X /\ Sub X (flat_map (fun t => addr_rrs (snd t) true) l)) (optional_loop w_iface z l v (d_w d)).
Proof.
  induction l as [|[idx n] l IH]; intros d g A HS Hm Hv Hl; cbn [optional_loop flat_map].
  - exists d, g, A. split; [exact HS|]. split; [reflexivity|]. split; [apply Frame_refl|]. split; [exact Hm|]. exists []. split; [apply ArExt_refl|constructor].
  - destruct (Hl idx n (or_introl eq_refl)) as [Gn Hn].
    destruct (vec_hint d g r v _ _ idx n Hv (or_intror Hn)) as (hs & Hh & Hc).
    pose proof (addrs_A d g A n _ hs true HS Hm Gn Hh Hc) as Q.
    assert (Hl' : forall i nm, In (i, nm) l -> good_name nm /\ nth_error (rds_names [CtCompressible] rds) i = Some nm)
      by (intros i nm Hin; apply Hl; right; exact Hin).
    assert (Cont : forall d1 g1 A1 X, StA d1 g1 A1 -> Frame d g d1 g1 -> ArExt A A1 X -> Sub X (addr_rrs n true) ->
              QSA d g A (fun A' => exists X, ArExt A A' X /\ Sub X (addr_rrs n true ++ flat_map (fun t => addr_rrs (snd t) true) l))
                  (optional_loop w_iface z l v (d_w d1))).
    { intros d1 g1 A1 X HS1 F1 E1 HsubX.
      assert (Hm1 : am_mode A1 = Standard) by (destruct E1 as (Y & _); congruence).
      pose proof (IH d1 g1 A1 HS1 Hm1 (vec_issued_frame _ _ _ _ _ _ _ _ F1 Hv) Hl') as Q2.
      destruct (optional_loop w_iface z l v (d_w d1)) as [[u w2]|[e w2]|]; cbn [QSA] in Q2 |- *; auto.
      destruct Q2 as (d2 & g2 & A2 & HS2 & Hw2 & F2 & Hm2 & (Y & E2 & HsubY)). exists d2, g2, A2. split; [exact HS2|]. split; [exact Hw2|].
      split; [eapply Frame_trans; eauto|]. split; [exact Hm2|]. exists (X ++ Y). split; [eapply ArExt_trans; eauto|apply Sub_app; auto]. }
    destruct (add_additional_addresses w_iface z n (hint_from_vec (Some v) idx) true (d_w d)) as [w1|[[|] w1]|];
      cbn [allow_truncation RSA] in Q |- *; auto.
    + destruct Q as (d1 & g1 & A1 & HS1 & Hw1 & F1 & E1). subst w1. cbn [snd]. eapply Cont; eauto. apply Sub_refl.
    + destruct Q as (d1 & g1 & A1 & Y & Z & HS1 & Hw1 & F1 & E1 & EX). subst w1. cbn [snd]. eapply Cont; eauto. rewrite EX. apply Sub_prefix.
    + exact I.
Qed.


(* the NS RRset of a referral: authority section, with a hint vector *)
Lemma StA_add_ns d g A child ttl rds : StA d g A -> good_name child -> Forall good_rd rds ->
  match wi_add_rrset w_iface SNs QhNone child ZoneConsts.TYPE_NS (z_class z) ttl rds true (d_w d) with
  | Ok (v, w') => exists d' g', StA d' g' (add_rrs A SecAuthority (map (mkAR child (am_mode A) ZoneConsts.TYPE_NS (z_class z) (ttl_rfc ttl)) rds)) /\
               d_w d' = w' /\ Frame d g d' g' /\
               vec_issued d' g' (length (d_regs d)) v [CtCompressible] rds
  | Err _ => True
  | Panic => False
  end.
Proof.
  intros HS [Hn1 Hn2] Hr. destruct (good_rds_split _ Hr) as [Hr1 Hr2].
  set (o := OAddRrset (sec_of SNs) HsNone child ZoneConsts.TYPE_NS (z_class z) ttl rds true).
  assert (Hok : op_ok Pop o).
  { split; [split; auto|]. split; [split; [exact Hn2|split; [reflexivity|split; [apply zc16'|exact Hr2]]]|]. split; [exact I|apply Hpop_rrset]. }
  assert (Hoc : op_contract d g o) by (intros _; exact I).
  destruct (StA_step d g A o HS Hok Hoc (stops_rrset _ _ _ _ _ _ _ _)) as (d' & r & E & HS').
  pose proof (StA_regs_len _ _ _ HS) as L0. pose proof (StA_regs_len _ _ _ HS') as L1.
  unfold o in E. cbn [step resolve_hint] in E. cbn [wi_add_rrset w_iface hint_of].
  destruct (add_section_rrset (sec_of SNs) HNone child ZoneConsts.TYPE_NS (z_class z) (ttl_from ttl) rds (Some []) (d_w d)) as [[v w']|[e w']|] eqn:EA;
    cbn [of_Mv] in E; inversion E; subst d' r; clear E; [|exact I].
  unfold o in L1. cbn [gstep g_regs d_regs] in L1. rewrite !app_length in L1. cbn [length] in L1.
  destruct v as [l|]; [|cbn [length] in L1; lia].
  exists (mkD w' (d_regs d ++ [l])), (gstep d g o RUnit).
  split; [exact HS'|]. cbn [d_w d_regs]. split; [reflexivity|]. split.
  - unfold o. cbn [gstep]. split; [reflexivity|]. split; [exists [l]; reflexivity|cbn [g_regs]; eexists; reflexivity].
  - unfold vec_issued, o. cbn [gstep d_regs g_regs]. split; [|split].
    + rewrite nth_error_app2 by lia. rewrite Nat.sub_diag. reflexivity.
    + rewrite nth_error_app2 by lia. rewrite L0, Nat.sub_diag. reflexivity.
    + discriminate.
Qed.

Definition glue_rrs (child : zname) (rds : list bytes) : list arr :=
  match referral_names child rds 0 with
  | Ok (glues, _) => flat_map (fun t => addr_rrs (snd t) true) glues
  | _ => []
  end.
(* the address records of the OTHER name servers: candidates, added as far as they fit *)
Definition opt_rrs (child : zname) (rds : list bytes) : list arr :=
  match referral_names child rds 0 with
  | Ok (_, adds) => flat_map (fun t => addr_rrs (snd t) true) adds
  | _ => []
  end.

Lemma referral_A child ns d g A : StA d g A -> am_mode A = Standard -> good_name child -> Forall (Pz0 2%N) (snd ns) ->
  QSA d g A (fun A' => am_an A' = am_an A /\
                       am_ns A' = am_ns A ++ map (mkAR child Standard ZoneConsts.TYPE_NS (z_class z) (ttl_rfc (fst ns))) (snd ns) /\
                       exists X, am_ar A' = am_ar A ++ glue_rrs child (snd ns) ++ X /\ Sub X (opt_rrs child (snd ns)))
      (do_referral w_iface z child ns (d_w d)).
Proof.
  intros HS Hm Gc HrdsP. destruct (Pz_split _ _ _ HrdsP) as [Hrds _]. unfold do_referral, glue_rrs, opt_rrs.
  pose proof (StA_add_ns d g A child (fst ns) (snd ns) HS Gc Hrds) as X.
  destruct (wi_add_rrset w_iface SNs QhNone child ZoneConsts.TYPE_NS (z_class z) (fst ns) (snd ns) true (d_w d)) as [[v w1]|[e w1]|];
    cbn [lift_addv QSA]; auto.
  destruct X as (d1 & g1 & HS1 & Hw1 & F1 & Hv). subst w1. rewrite Hm in HS1.
  set (A1 := add_rrs A SecAuthority (map (mkAR child Standard ZoneConsts.TYPE_NS (z_class z) (ttl_rfc (fst ns))) (snd ns))) in *.
  assert (Hm1 : am_mode A1 = Standard) by exact Hm.
  pose proof (referral_names_no_panic child (snd ns) 0) as NP.
  destruct (referral_names child (snd ns) 0) as [[glues adds]|e|] eqn:Ern; [| |congruence]; [|exact I].
  pose proof (referral_names_facts cls Hclass child (snd ns) 0 glues adds Hrds Ern) as Hf.
  assert (Hg : forall i nm, In (i, nm) glues -> good_name nm /\ nth_error (rds_names [CtCompressible] (snd ns)) i = Some nm).
  { intros i nm Hin. destruct (Hf i nm (in_or_app _ _ _ (or_introl Hin))) as (B & _ & C). rewrite Nat.sub_0_r in C. auto. }
  assert (Ha : forall i nm, In (i, nm) adds -> good_name nm /\ nth_error (rds_names [CtCompressible] (snd ns)) i = Some nm).
  { intros i nm Hin. destruct (Hf i nm (in_or_app _ _ _ (or_intror Hin))) as (B & _ & C). rewrite Nat.sub_0_r in C. auto. }
  pose proof (glue_loop_A (length (d_regs d)) v (snd ns) glues d1 g1 A1 HS1 Hm1 Hv Hg) as Q.
  destruct (glue_loop w_iface z glues v (d_w d1)) as [[u w2]|[e w2]|]; cbn [QSA] in Q |- *; auto.
  destruct Q as (d2 & g2 & A2 & HS2 & Hw2 & F2 & Hm2 & E2). subst w2.
  pose proof (optional_loop_A (length (d_regs d)) v (snd ns) adds d2 g2 A2 HS2 Hm2 (vec_issued_frame _ _ _ _ _ _ _ _ F2 Hv) Ha) as Q3.
  destruct (optional_loop w_iface z adds v (d_w d2)) as [[u3 w3]|[e w3]|]; cbn [QSA] in Q3 |- *; auto.
  destruct Q3 as (d3 & g3 & A3 & HS3 & Hw3 & F3 & Hm3 & (Y & E3 & HsubY)). exists d3, g3, A3. split; [exact HS3|]. split; [exact Hw3|].
  split; [eapply Frame_trans; [exact F1|eapply Frame_trans; eauto]|]. split; [exact Hm3|].
  destruct E2 as (_ & _ & a3 & a4 & a5). destruct E3 as (_ & _ & b3 & b4 & b5).
  split; [rewrite b3, a3; reflexivity|]. split; [rewrite b4, a4; reflexivity|].
  exists Y. split; [|exact HsubY]. rewrite b5, a5. unfold A1. cbn [add_rrs am_ar]. rewrite <- app_assoc. reflexivity.
Qed.


(* ---- positive answers: the answer RRset, then additional-section processing (all optional) *)

(* the answer RRset: answer section, hinted owner, with a hint vector *)
Lemma StA_add_an d g A h hs owner ty ttl rds : StA d g A -> hint_agrees (d_regs d) h hs -> good_name owner ->
  Forall good_rd rds -> (ty < 65536)%N -> hs_contract (d_regs d) g hs owner ->
  match wi_add_rrset w_iface SAn h owner ty (z_class z) ttl rds true (d_w d) with
  | Ok (v, w') => exists d' g', StA d' g' (add_rrs A SecAnswer (map (mkAR owner (am_mode A) ty (z_class z) (ttl_rfc ttl)) rds)) /\
               d_w d' = w' /\ Frame d g d' g' /\
               vec_issued d' g' (length (d_regs d)) v (component_types (z_class z) ty) rds
  | Err _ => True
  | Panic => False
  end.
Proof.
  intros HS Hh [Hn1 Hn2] Hr Hty Hc. destruct (good_rds_split _ Hr) as [Hr1 Hr2].
  set (o := OAddRrset (sec_of SAn) hs owner ty (z_class z) ttl rds true).
  assert (Hok : op_ok Pop o).
  { split; [split; auto|]. split; [split; [exact Hn2|split; [exact Hty|split; [apply zc16'|exact Hr2]]]|]. split; [exact I|apply Hpop_rrset]. }
  assert (Hoc : op_contract d g o) by (intros _; exact Hc).
  destruct (StA_step d g A o HS Hok Hoc (stops_rrset _ _ _ _ _ _ _ _)) as (d' & r & E & HS').
  pose proof (StA_regs_len _ _ _ HS) as L0. pose proof (StA_regs_len _ _ _ HS') as L1.
  unfold o in E. cbn [step] in E. rewrite Hh in E. cbn [wi_add_rrset w_iface].
  destruct (add_section_rrset (sec_of SAn) (hint_of h) owner ty (z_class z) (ttl_from ttl) rds (Some []) (d_w d)) as [[v w']|[e w']|] eqn:EA;
    cbn [of_Mv] in E; inversion E; subst d' r; clear E; [|exact I].
  unfold o in L1. cbn [gstep g_regs d_regs] in L1. rewrite !app_length in L1. cbn [length] in L1.
  destruct v as [l|]; [|cbn [length] in L1; lia].
  exists (mkD w' (d_regs d ++ [l])), (gstep d g o RUnit).
  split; [exact HS'|]. cbn [d_w d_regs]. split; [reflexivity|]. split.
  - unfold o. cbn [gstep]. split; [reflexivity|]. split; [exists [l]; reflexivity|cbn [g_regs]; eexists; reflexivity].
  - unfold vec_issued, o. cbn [gstep d_regs g_regs]. split; [|split].
    + rewrite nth_error_app2 by lia. rewrite Nat.sub_diag. reflexivity.
    + rewrite nth_error_app2 by lia. rewrite L0, Nat.sub_diag. reflexivity.
    + intros Hcts. apply (section_rrset_nil_v _ _ _ _ _ _ _ _ _ _ _ Hcts) in EA. inversion EA. reflexivity.
Qed.

(* the candidates of additional-section processing: the addresses of the names at [start] of every RDATA *)
Definition rd_addrs (start : nat) (rd : bytes) : list arr :=
  match read_name_from_rdata rd start with Ok nm => addr_rrs nm false | _ => [] end.

Lemma additional_loop_A start cts r v : forall rest pre d g A, StA d g A -> am_mode A = Standard -> Forall good_rd rest ->
  vec_issued d g r v cts (pre ++ rest) ->
  (cts = [] \/ (one_name cts start /\ length (rds_names cts pre) = length pre)) ->
  QSA d g A (fun A' => exists X, ArExt A A' X /\ Sub X (flat_map (rd_addrs start) rest))
      (additional_loop w_iface z start rest (Some v) (length pre) (d_w d)).
Proof.
  induction rest as [|rd rest IH]; intros pre d g A HS Hm Hrds Hv Hcts; cbn [additional_loop flat_map].
  - exists d, g, A. split; [exact HS|]. split; [reflexivity|]. split; [apply Frame_refl|]. split; [exact Hm|].
    exists []. split; [apply ArExt_refl|constructor].
  - inversion Hrds as [|? ? [Hrd _] Hrest]; subst.
    pose proof (read_name_no_panic rd start) as NP. unfold rd_addrs at 1.
    destruct (read_name_from_rdata rd start) as [nm|e|] eqn:Er; [| |congruence]; [|exact I].
    destruct (read_name_facts _ _ _ Hrd Er) as (_ & Gn & _).
    assert (Hslot : cts = [] \/ nth_error (rds_names cts (pre ++ rd :: rest)) (length pre) = Some nm).
    { destruct Hcts as [Hc|[H1 Hl]]; [left; exact Hc|right].
      rewrite rds_names_app. cbn [rds_names]. rewrite (rd_names_one _ _ _ _ Hrd H1 Er).
      rewrite nth_error_app2 by lia. rewrite Hl, Nat.sub_diag. reflexivity. }
    destruct (vec_hint d g r v cts _ (length pre) nm Hv Hslot) as (hs & Hh & Hc).
    pose proof (addrs_A d g A nm _ hs false HS Hm Gn Hh Hc) as Q.
    assert (Cont : forall d1 g1 A1 X, StA d1 g1 A1 -> Frame d g d1 g1 -> ArExt A A1 X -> Sub X (addr_rrs nm false) ->
              QSA d g A (fun A' => exists X, ArExt A A' X /\ Sub X (addr_rrs nm false ++ flat_map (rd_addrs start) rest))
                  (additional_loop w_iface z start rest (Some v) (S (length pre)) (d_w d1))).
    { intros d1 g1 A1 X HS1 F1 E1 HsubX.
      assert (Hm1 : am_mode A1 = Standard) by (destruct E1 as (Y & _); congruence).
      replace (S (length pre)) with (length (pre ++ [rd])) by (rewrite app_length; simpl; lia).
      assert (Hv1 : vec_issued d1 g1 r v cts ((pre ++ [rd]) ++ rest)).
      { rewrite <- app_assoc. cbn [app]. eapply vec_issued_frame; eauto. }
      assert (Hc1 : cts = [] \/ (one_name cts start /\ length (rds_names cts (pre ++ [rd])) = length (pre ++ [rd]))).
      { destruct Hcts as [Hc'|[H1 Hl]]; [left; exact Hc'|right]. split; [exact H1|].
        rewrite rds_names_app. cbn [rds_names]. rewrite (rd_names_one _ _ _ _ Hrd H1 Er).
        rewrite !app_length. cbn [length]. lia. }
      pose proof (IH (pre ++ [rd]) d1 g1 A1 HS1 Hm1 Hrest Hv1 Hc1) as Q2.
      destruct (additional_loop w_iface z start rest (Some v) (length (pre ++ [rd])) (d_w d1)) as [[u w2]|[e w2]|]; cbn [QSA] in Q2 |- *; auto.
      destruct Q2 as (d2 & g2 & A2 & HS2 & Hw2 & F2 & Hm2 & (Y & E2 & HsubY)). exists d2, g2, A2. split; [exact HS2|]. split; [exact Hw2|].
      split; [eapply Frame_trans; eauto|]. split; [exact Hm2|]. exists (X ++ Y). split; [eapply ArExt_trans; eauto|apply Sub_app; auto]. }
    destruct (add_additional_addresses w_iface z nm (hint_from_vec (Some v) (length pre)) false (d_w d)) as [w1|[[|] w1]|];
      cbn [allow_truncation RSA] in Q |- *; auto.
    + destruct Q as (d1 & g1 & A1 & HS1 & Hw1 & F1 & E1). subst w1. eapply Cont; eauto. apply Sub_refl.
    + destruct Q as (d1 & g1 & A1 & Y & Z & HS1 & Hw1 & F1 & E1 & EX). subst w1. eapply Cont; eauto. rewrite EX. apply Sub_prefix.
    + exact I.
Qed.

Definition addl_rrs (ty : N) (rds : list bytes) : list arr :=
  if negb (existsb (N.eqb (z_class z)) ADDITIONAL_CLASSES) then []
  else match lookup_offset ADDITIONAL_TABLE ty with
       | Some start => flat_map (rd_addrs start) rds
       | None => []
       end.

Lemma additional_A ty rs r v d g A : StA d g A -> am_mode A = Standard -> Forall good_rd (snd rs) ->
  vec_issued d g r v (component_types (z_class z) ty) (snd rs) ->
  QSA d g A (fun A' => exists X, ArExt A A' X /\ Sub X (addl_rrs ty (snd rs)))
      (do_additional_section_processing w_iface z ty rs (Some v) (d_w d)).
Proof.
  intros HS Hm Hrds Hv. unfold do_additional_section_processing, addl_rrs.
  assert (Here : QSA d g A (fun A' => exists X, ArExt A A' X /\ Sub X []) (Ok (tt, d_w d))).
  { exists d, g, A. split; [exact HS|]. split; [reflexivity|]. split; [apply Frame_refl|]. split; [exact Hm|].
    exists []. split; [apply ArExt_refl|constructor]. }
  change ADDITIONAL_CLASSES with [1%N; 3%N]. cbn [existsb]. rewrite orb_false_r.
  destruct ((z_class z =? 1)%N || (z_class z =? 3)%N) eqn:Ec; cbn [negb]; [|exact Here].
  destruct (lookup_offset ADDITIONAL_TABLE ty) as [start|] eqn:Eo; [|exact Here].
  assert (Hc : (z_class z = 1 \/ z_class z = 3)%N).
  { apply orb_prop in Ec. destruct Ec as [E|E]; apply N.eqb_eq in E; auto. }
  apply (additional_loop_A start _ r v (snd rs) [] d g A HS Hm Hrds Hv).
  destruct (addl_cts _ _ _ Hc Eo) as [H|H]; [left; exact H|right; split; [exact H|reflexivity]].
Qed.

Lemma found_A h hs owner ty rs d g A : StA d g A -> am_mode A = Standard -> good_name owner -> single_good Pz0 ty rs ->
  hint_agrees (d_regs d) h hs -> hs_contract (d_regs d) g hs owner ->
  QSA d g A (fun A' => am_an A' = am_an A ++ map (mkAR owner Standard ty (z_class z) (ttl_rfc (fst rs))) (snd rs) /\
                       am_ns A' = am_ns A /\
                       exists X, am_ar A' = am_ar A ++ X /\ Sub X (addl_rrs ty (snd rs)))
      (add_found w_iface z h owner ty rs (d_w d)).
Proof.
  intros HS Hm Gn [HrdsP Hne] Hh Hc. destruct (Pz_split _ _ _ HrdsP) as [Hrds _]. pose proof (Pz_ty _ _ _ HrdsP Hne) as Hty.
  unfold add_found.
  pose proof (StA_add_an d g A h hs owner ty (fst rs) (snd rs) HS Hh Gn Hrds Hty Hc) as X.
  destruct (wi_add_rrset w_iface SAn h owner ty (z_class z) (fst rs) (snd rs) true (d_w d)) as [[v w1]|[e w1]|];
    cbn [lift_addv QSA]; auto.
  destruct X as (d1 & g1 & HS1 & Hw1 & F1 & Hv). subst w1. rewrite Hm in HS1.
  set (A1 := add_rrs A SecAnswer (map (mkAR owner Standard ty (z_class z) (ttl_rfc (fst rs))) (snd rs))) in *.
  pose proof (additional_A ty rs (length (d_regs d)) v d1 g1 A1 HS1 Hm Hrds Hv) as Q.
  destruct (do_additional_section_processing w_iface z ty rs (Some v) (d_w d1)) as [[u w2]|[e w2]|]; cbn [QSA] in Q |- *; auto.
  destruct Q as (d2 & g2 & A2 & HS2 & Hw2 & F2 & Hm2 & (Y & E2 & HsubY)). exists d2, g2, A2. split; [exact HS2|]. split; [exact Hw2|].
  split; [eapply Frame_trans; eauto|]. split; [exact Hm2|].
  destruct E2 as (_ & _ & a3 & a4 & a5). split; [rewrite a3; reflexivity|]. split; [rewrite a4; reflexivity|].
  exists Y. split; [rewrite a5; reflexivity|exact HsubY].
Qed.

End Glue.

(* ---------------------------------------------------------------- the theorem on the octets *)

Section GlueTop.
Variable reqf : N -> N -> bytes -> bytes -> bool.
Variable apex : name.
Variable cls : N.
Variable R : list record.
Variable z : zone.
Hypothesis Hinv : Inv reqf apex cls z R.
Hypothesis Hapex : good_name apex.
Hypothesis Hclass : (cls < 65536)%N.
Hypothesis HR : Forall (fun r => Pz (fun _ _ => True) (r_type r) (r_rdata r)) R.
Variable negttl : N -> N -> N.

Notation Pany := Pop_t.

Lemma tsig_t_replay : forall ops outs H, Forall Pop_t ops -> h_tsig H = None -> h_tsig (hreplay H ops outs) = None.
Proof.
  induction ops as [|o ops IH]; intros outs H Hf G; [exact G|].
  destruct outs as [|r outs]; [exact G|]. inversion Hf; subst. cbn [hreplay]. apply IH; auto. apply tsig_t_step; auto.
Qed.

Lemma prepared_mode tcp id rd qname qtype qclass edns limit :
  let ops := pre_ops tcp id rd qname qtype qclass edns limit in
  let A := areplay am0 ops (map (fun _ => RUnit) ops) in
  am_mode A = Standard /\ am_an A = [] /\ am_ns A = [] /\ am_ar A = [].
Proof. unfold pre_ops. destruct edns as [size|]; [destruct tcp|]; cbn; auto. Qed.

Theorem respond_referral_glue buf tcp id rd qname qtype qclass edns limit child ns :
  512 <= length buf -> good_name qname -> in_zone apex qname = true ->
  (id < 65536)%N -> (qtype < 65536)%N -> (qclass < 65536)%N -> (forall s, edns = Some s -> (s < 65536)%N) ->
  (qtype =? QTYPE_ANY)%N = false ->
  zone_lookup z qname qtype true false = Ok (LReferral child ns) ->
  exists w len b m,
    prepare_w buf tcp id rd qname qtype qclass edns limit = Some w /\
    respond_w negttl buf tcp id rd qname qtype qclass edns limit z = Some (len, b) /\
    decode_msg (firstn len b) = Some m /\
    match do_referral w_iface z child ns w with
    | Ok _ =>
      (* the answering logic succeeded: the response is neither truncated nor a SERVFAIL *)
      exists ds_ns ds_glue X ds_opt ds_pseudo,
        m_ns m = ds_ns /\
        Forall2 (rr_rel xparts) (map (mkAR child Standard ZoneConsts.TYPE_NS (z_class z) (ttl_rfc (fst ns))) (snd ns)) ds_ns /\
        m_ar m = ds_glue ++ ds_opt ++ ds_pseudo /\
        Forall2 (rr_rel xparts) (glue_rrs z child (snd ns)) ds_glue /\
        Forall2 (rr_rel xparts) X ds_opt /\ Sub X (opt_rrs z child (snd ns)) /\
        forallb is_pseudo ds_pseudo = true
    | _ => True
    end.
Proof.
  intros Hb Gq Hz Hid Hqt Hqc Hed Hany Hlk.
  destruct (prepare_total buf tcp id rd qname qtype qclass edns limit Hb (proj2 Gq)) as (w & Ew).
  exists w.
  destruct (do_referral w_iface z child ns w) as [[u w1]|e|] eqn:Edr.
  2:{ destruct (respond_w_tc reqf apex cls R z Hinv Hapex Hclass HR negttl buf tcp id rd qname qtype qclass edns limit
                  Hb Gq Hz Hid Hqt Hqc Hed) as (len & b & m & E1 & E2 & _). exists len, b, m. auto. }
  2:{ destruct (respond_w_tc reqf apex cls R z Hinv Hapex Hclass HR negttl buf tcp id rd qname qtype qclass edns limit
                  Hb Gq Hz Hid Hqt Hqc Hed) as (len & b & m & E1 & E2 & _). exists len, b, m. auto. }
  assert (Hhdr : forall o, match o with
    | OSetId _ | OSetQr true | OSetOpcode _ | OSetRd _ | OAddQuestion _ _ _ | OSetEdns _ | OSetLimit _ => Pany o
    | _ => True end).
  { intros o. destruct o; try exact I. destruct b; exact I. }
  destruct (prepare_Reach Pany Hhdr buf tcp id rd qname qtype qclass edns limit w Ew Gq Hid Hqt Hqc Hed) as (w0 & E0 & Rpre).
  set (pre := pre_ops tcp id rd qname qtype qclass edns limit) in *.
  set (opre := map (fun _ : wop => RUnit) pre) in *.
  destruct (Reach_AInv Pany _ _ _ _ _ _ Rpre L0 (AInv_new _ _ _ E0)) as (Lp & Hip).
  destruct (prepared_mode tcp id rd qname qtype qclass edns limit) as (Pm & Pan & Pns & Par). fold pre opre in Pm, Pan, Pns, Par.
  set (Ap := areplay am0 pre opre) in *.
  assert (Sp : StA Pany (mkD w0 []) g0 am0 (mkD w []) (g_prepared qname) Ap).
  { exists pre, opre, Lp. split; [exact Rpre|]. split; [exact Hip|reflexivity]. }
  (* what the lookup handed over *)
  destruct (zone_lookup_refines reqf apex cls z R qname qtype true false Hinv (fun _ => Hz)) as (r & Hzl & Hs).
  rewrite Hlk in Hzl. inversion Hzl; subst r.
  pose proof (spec_lookup_good reqf apex cls R (Pz (fun _ _ => True)) HR _ _ _ _ _ Hs) as G. cbn [lookup_good] in G.
  destruct G as [GP Gs].
  pose proof (referral_A reqf apex cls R z Hinv HR Hclass Pany (fun _ _ _ _ _ _ _ _ => I) (mkD w0 []) g0 am0
                child ns (mkD w []) (g_prepared qname) Ap Sp Pm (good_name_suffix _ _ Gs Gq) GP) as Q.
  cbn [d_w] in Q. rewrite Edr in Q. cbn [QSA] in Q.
  destruct Q as (d3 & g3 & A3 & (ops & outs & L & Rall & Hi & HA) & Hw3 & _ & Hm3 & Han & Hns & (X & Har & HsubX)).
  destruct (Reach_run Pany _ _ _ _ _ _ Rall) as (Hrun & Hrc & F1 & F2 & F3 & F4 & Hlen).
  destruct (MsgWriterStepP.finish_ok (fun x => x) d3 g3 L Hi) as (wF & LF & EF & _).
  exists (w_cursor wF), (w_buf wF).
  destruct (roundtrip_full buf _ w0 ops E0 Hrc F1 F2 F3) as (rr & Err & Hrt).
  assert (Hrr' : rr = mkRR outs (d_regs d3) (Some (w_cursor wF, w_buf wF))).
  { unfold run_writer, run_writer_gen in Err. rewrite E0 in Err. cbn [bind] in Err. rewrite Hrun in Err. cbn [bind] in Err.
    unfold finish in Err. rewrite EF in Err. cbn [bind] in Err. inversion Err. reflexivity. }
  subst rr. cbn [rr_final rr_outcomes] in Hrt.
  destruct Hrt as (m & Em & _ & _ & _ & Hdns & Hdar & _). rewrite <- HA in Hdns, Hdar.
  exists m. split; [exact Ew|]. split.
  { unfold respond_w. rewrite Ew. unfold handle_non_axfr_query. rewrite Hany. unfold answer. rewrite Hlk. cbn [zl].
    rewrite Edr. rewrite <- Hw3. unfold finish. rewrite EF. reflexivity. }
  split; [exact Em|].
  rewrite Hns, Pns in Hdns. cbn [app] in Hdns.
  rewrite Har, Par in Hdar. cbn [app] in Hdar. rewrite <- !app_assoc in Hdar.
  apply Forall2_app_inv_l in Hdar as (dg & dx & Hg' & Hrest & Eq).
  apply Forall2_app_inv_l in Hrest as (dop & dps & Hop & Hps & Eq2).
  exists (m_ns m), dg, X, dop, dps. split; [reflexivity|]. split; [exact Hdns|]. split; [rewrite Eq, Eq2; reflexivity|].
  split; [exact Hg'|]. split; [exact Hop|]. split; [exact HsubX|].
  (* the pseudo-records: no TSIG was ever set, so at most the OPT *)
  assert (Hts : h_tsig (hreplay ah0 ops outs) = None) by (apply tsig_t_replay; [exact F4|reflexivity]).
  unfold pseudo_of in Hps. rewrite Hts, app_nil_r in Hps.
  destruct (h_edns _) as [[uu up]|].
  - inversion Hps as [|a dd l l' Hd Hrest']; subst. inversion Hrest'; subst.
    destruct (opt_decoded _ _ _ _ Hd) as (_ & Ho & _). cbn [forallb]. unfold is_pseudo. rewrite Ho. reflexivity.
  - inversion Hps; subst. reflexivity.
Qed.


(* ---- a direct positive answer: the answer RRset, no authority, and a sub-selection of the additional candidates *)
Theorem respond_found_optional buf tcp id rd qname qtype qclass edns limit rs sos :
  512 <= length buf -> good_name qname -> in_zone apex qname = true ->
  (id < 65536)%N -> (qtype < 65536)%N -> (qclass < 65536)%N -> (forall s, edns = Some s -> (s < 65536)%N) ->
  (qtype =? QTYPE_ANY)%N = false ->
  zone_lookup z qname qtype true false = Ok (LFound rs sos) ->
  exists w len b m,
    prepare_w buf tcp id rd qname qtype qclass edns limit = Some w /\
    respond_w negttl buf tcp id rd qname qtype qclass edns limit z = Some (len, b) /\
    decode_msg (firstn len b) = Some m /\
    match set_aa_then w_iface (add_found w_iface z QhQname qname qtype rs) w with
    | Ok _ =>
      exists X ds_opt ds_pseudo,
        Forall2 (rr_rel xparts) (map (mkAR qname Standard qtype (z_class z) (ttl_rfc (fst rs))) (snd rs)) (m_an m) /\
        m_ns m = [] /\
        m_ar m = ds_opt ++ ds_pseudo /\
        Forall2 (rr_rel xparts) X ds_opt /\ Sub X (addl_rrs z qtype (snd rs)) /\
        forallb is_pseudo ds_pseudo = true
    | _ => True
    end.
Proof.
  intros Hb Gq Hz Hid Hqt Hqc Hed Hany Hlk.
  destruct (prepare_total buf tcp id rd qname qtype qclass edns limit Hb (proj2 Gq)) as (w & Ew).
  exists w.
  destruct (set_aa_then w_iface (add_found w_iface z QhQname qname qtype rs) w) as [[u w1]|e|] eqn:Edr.
  2:{ destruct (respond_w_tc reqf apex cls R z Hinv Hapex Hclass HR negttl buf tcp id rd qname qtype qclass edns limit
                  Hb Gq Hz Hid Hqt Hqc Hed) as (len & b & m & E1 & E2 & _). exists len, b, m. auto. }
  2:{ destruct (respond_w_tc reqf apex cls R z Hinv Hapex Hclass HR negttl buf tcp id rd qname qtype qclass edns limit
                  Hb Gq Hz Hid Hqt Hqc Hed) as (len & b & m & E1 & E2 & _). exists len, b, m. auto. }
  assert (Hhdr : forall o, match o with
    | OSetId _ | OSetQr true | OSetOpcode _ | OSetRd _ | OAddQuestion _ _ _ | OSetEdns _ | OSetLimit _ => Pany o
    | _ => True end).
  { intros o. destruct o; try exact I. destruct b; exact I. }
  destruct (prepare_Reach Pany Hhdr buf tcp id rd qname qtype qclass edns limit w Ew Gq Hid Hqt Hqc Hed) as (w0 & E0 & Rpre).
  set (pre := pre_ops tcp id rd qname qtype qclass edns limit) in *.
  set (opre := map (fun _ : wop => RUnit) pre) in *.
  destruct (Reach_AInv Pany _ _ _ _ _ _ Rpre L0 (AInv_new _ _ _ E0)) as (Lp & Hip).
  destruct (prepared_mode tcp id rd qname qtype qclass edns limit) as (Pm & Pan & Pns & Par). fold pre opre in Pm, Pan, Pns, Par.
  set (Ap := areplay am0 pre opre) in *.
  assert (Sp : StA Pany (mkD w0 []) g0 am0 (mkD w []) (g_prepared qname) Ap).
  { exists pre, opre, Lp. split; [exact Rpre|]. split; [exact Hip|reflexivity]. }
  destruct (zone_lookup_refines reqf apex cls z R qname qtype true false Hinv (fun _ => Hz)) as (r & Hzl & Hs).
  rewrite Hlk in Hzl. inversion Hzl; subst r.
  pose proof (spec_lookup_good reqf apex cls R (Pz (fun _ _ => True)) HR _ _ _ _ _ Hs) as G. cbn [lookup_good] in G.
  (* set_aa(true): one more header step, the abstract message does not move *)
  unfold set_aa_then in Edr.
  destruct (StA_step cls Hclass Pany (mkD w0 []) g0 am0 (mkD w []) (g_prepared qname) Ap (OSetAa true) Sp) as (d1 & r1 & T1 & S1);
    [repeat split; exact I|exact I|reflexivity|].
  cbn [step d_w] in T1. cbn [wi_set_aa w_iface] in Edr.
  pose proof (w_modify_no_err w AA_BYTE (set_bit AA_MASK true)) as NE. unfold set_aa, w_set_flag in *.
  destruct (w_modify w AA_BYTE (set_bit AA_MASK true)) as [wa|e|] eqn:Ea; cbn [of_R] in T1; [|exfalso; eapply NE; reflexivity|discriminate].
  inversion T1; subst d1 r1. clear T1. cbn [lift_set gstep astep d_regs] in *.
  pose proof (found_A reqf apex cls R z Hinv HR Hclass Pany (fun _ _ _ _ _ _ _ _ => I) (mkD w0 []) g0 am0
                QhQname HsQname qname qtype rs (mkD wa []) (g_prepared qname) Ap S1 Pm Gq G eq_refl) as Q.
  cbn [d_w] in Q. rewrite Edr in Q.
  assert (Hcq : hs_contract (d_regs (mkD wa [])) (g_prepared qname) HsQname qname).
  { cbn [hs_contract g_prepared g_q]. intros m Hm. inversion Hm; subst. apply name_eq_refl. }
  specialize (Q Hcq). cbn [QSA] in Q.
  destruct Q as (d3 & g3 & A3 & (ops & outs & L & Rall & Hi & HA) & Hw3 & _ & Hm3 & Han & Hns & (X & Har & HsubX)).
  destruct (Reach_run Pany _ _ _ _ _ _ Rall) as (Hrun & Hrc & F1 & F2 & F3 & F4 & Hlen).
  destruct (MsgWriterStepP.finish_ok (fun x => x) d3 g3 L Hi) as (wF & LF & EF & _).
  exists (w_cursor wF), (w_buf wF).
  destruct (roundtrip_full buf _ w0 ops E0 Hrc F1 F2 F3) as (rr & Err & Hrt).
  assert (Hrr' : rr = mkRR outs (d_regs d3) (Some (w_cursor wF, w_buf wF))).
  { unfold run_writer, run_writer_gen in Err. rewrite E0 in Err. cbn [bind] in Err. rewrite Hrun in Err. cbn [bind] in Err.
    unfold finish in Err. rewrite EF in Err. cbn [bind] in Err. inversion Err. reflexivity. }
  subst rr. cbn [rr_final rr_outcomes] in Hrt.
  destruct Hrt as (m & Em & _ & _ & Hdan & Hdns & Hdar & _). rewrite <- HA in Hdan, Hdns, Hdar.
  exists m. split; [exact Ew|]. split.
  { unfold respond_w. rewrite Ew. unfold handle_non_axfr_query. rewrite Hany. unfold answer. rewrite Hlk. cbn [zl].
    unfold set_aa_then. cbn [wi_set_aa w_iface]. unfold set_aa, w_set_flag. rewrite Ea. cbn [lift_set].
    rewrite Edr. rewrite <- Hw3. unfold finish. rewrite EF. reflexivity. }
  split; [exact Em|].
  rewrite Han, Pan in Hdan. cbn [app] in Hdan.
  rewrite Hns, Pns in Hdns. assert (Ens : m_ns m = []) by (inversion Hdns; reflexivity).
  rewrite Har, Par in Hdar. cbn [app] in Hdar.
  apply Forall2_app_inv_l in Hdar as (dop & dps & Hop & Hps & Eq).
  exists X, dop, dps. split; [exact Hdan|]. split; [exact Ens|]. split; [exact Eq|]. split; [exact Hop|]. split; [exact HsubX|].
  assert (Hts : h_tsig (hreplay ah0 ops outs) = None) by (apply tsig_t_replay; [exact F4|reflexivity]).
  unfold pseudo_of in Hps. rewrite Hts, app_nil_r in Hps.
  destruct (h_edns _) as [[uu up]|].
  - inversion Hps as [|a dd l l' Hd Hrest']; subst. inversion Hrest'; subst.
    destruct (opt_decoded _ _ _ _ Hd) as (_ & Ho & _). cbn [forallb]. unfold is_pseudo. rewrite Ho. reflexivity.
  - inversion Hps; subst. reflexivity.
Qed.

End GlueTop.

(* for zones built by adds *)
Theorem respond_referral_glue_build reqf apex cls wide recs z negttl buf tcp id rd qname qtype qclass edns limit child ns :
  (forall c t a b d, reqf c t a b = true -> reqf c t b d = true -> reqf c t a d = true) ->
  zone_build reqf (zone_new apex cls wide) recs = Some z ->
  Forall (fun r => good_rd (r_rdata r) /\ (r_type r < 65536)%N) recs -> good_name apex -> (cls < 65536)%N ->
  512 <= length buf -> good_name qname -> in_zone apex qname = true ->
  (id < 65536)%N -> (qtype < 65536)%N -> (qclass < 65536)%N -> (forall s, edns = Some s -> (s < 65536)%N) ->
  (qtype =? QTYPE_ANY)%N = false ->
  zone_lookup z qname qtype true false = Ok (LReferral child ns) ->
  exists w len b m,
    prepare_w buf tcp id rd qname qtype qclass edns limit = Some w /\
    respond_w negttl buf tcp id rd qname qtype qclass edns limit z = Some (len, b) /\
    decode_msg (firstn len b) = Some m /\
    match do_referral w_iface z child ns w with
    | Ok _ =>
      exists ds_ns ds_glue X ds_opt ds_pseudo,
        m_ns m = ds_ns /\
        Forall2 (rr_rel xparts) (map (mkAR child Standard ZoneConsts.TYPE_NS (z_class z) (ttl_rfc (fst ns))) (snd ns)) ds_ns /\
        m_ar m = ds_glue ++ ds_opt ++ ds_pseudo /\
        Forall2 (rr_rel xparts) (glue_rrs z child (snd ns)) ds_glue /\
        Forall2 (rr_rel xparts) X ds_opt /\ Sub X (opt_rrs z child (snd ns)) /\
        forallb is_pseudo ds_pseudo = true
    | _ => True
    end.
Proof.
  intros Ht Hb Hrecs Ga Hc.
  apply (respond_referral_glue reqf apex cls (accepted apex cls recs) z (ZoneTopP.build_inv reqf Ht apex cls wide recs z Hb) Ga Hc).
  apply Forall_forall. intros r Hr. apply QueryTopP.accepted_In in Hr. rewrite Forall_forall in Hrecs.
  destruct (Hrecs r Hr) as [A B]. split; [exact A|split; [exact B|exact I]].
Qed.

Theorem respond_found_optional_build reqf apex cls wide recs z negttl buf tcp id rd qname qtype qclass edns limit rs sos :
  (forall c t a b d, reqf c t a b = true -> reqf c t b d = true -> reqf c t a d = true) ->
  zone_build reqf (zone_new apex cls wide) recs = Some z ->
  Forall (fun r => good_rd (r_rdata r) /\ (r_type r < 65536)%N) recs -> good_name apex -> (cls < 65536)%N ->
  512 <= length buf -> good_name qname -> in_zone apex qname = true ->
  (id < 65536)%N -> (qtype < 65536)%N -> (qclass < 65536)%N -> (forall s, edns = Some s -> (s < 65536)%N) ->
  (qtype =? QTYPE_ANY)%N = false ->
  zone_lookup z qname qtype true false = Ok (LFound rs sos) ->
  exists w len b m,
    prepare_w buf tcp id rd qname qtype qclass edns limit = Some w /\
    respond_w negttl buf tcp id rd qname qtype qclass edns limit z = Some (len, b) /\
    decode_msg (firstn len b) = Some m /\
    match set_aa_then w_iface (add_found w_iface z QhQname qname qtype rs) w with
    | Ok _ =>
      exists X ds_opt ds_pseudo,
        Forall2 (rr_rel xparts) (map (mkAR qname Standard qtype (z_class z) (ttl_rfc (fst rs))) (snd rs)) (m_an m) /\
        m_ns m = [] /\
        m_ar m = ds_opt ++ ds_pseudo /\
        Forall2 (rr_rel xparts) X ds_opt /\ Sub X (addl_rrs z qtype (snd rs)) /\
        forallb is_pseudo ds_pseudo = true
    | _ => True
    end.
Proof.
  intros Ht Hb Hrecs Ga Hc.
  apply (respond_found_optional reqf apex cls (accepted apex cls recs) z (ZoneTopP.build_inv reqf Ht apex cls wide recs z Hb) Ga Hc).
  apply Forall_forall. intros r Hr. apply QueryTopP.accepted_In in Hr. rewrite Forall_forall in Hrecs.
  destruct (Hrecs r Hr) as [A B]. split; [exact A|split; [exact B|exact I]].
Qed.
