(* The server model against the spec-level reading of a request (Spec/MsgWalkS.v).
   Part 1: bridges from the Reader model to the spec decoders (delimiting a record, fixed fields,
   the question), the answer/authority walk, and C09's "processing reaches an OPT" ([opt_reached]
   of Proofs/ServerP.v = [s_opt_reached]). *)
From QV Require Import Base.ListX Model.NameWire Model.Reader Model.RdataLite Model.Server
  Spec.NameWireS Spec.NameRepr Spec.ReaderS Spec.MsgWalkS
  Proofs.NameWireP Proofs.NameWireSP Proofs.ReaderP Proofs.RdataLiteP Proofs.ServerP.
Local Open Scope nat_scope.

(* ---------- the first label sequence: skip_compressed_name = s_name_end ---------- *)
Lemma s_name_end_over fuel b : forall i used, 255 <= used -> s_name_end fuel b i used = None.
Proof.
  induction fuel as [|f IH]; intros i used Hu; [reflexivity|]. cbn [s_name_end].
  destruct (nth_error b i) as [len|]; [|reflexivity].
  destruct (len =? 0)%N. { destruct (used + 1 <=? 255) eqn:E; [apply Nat.leb_le in E; lia|reflexivity]. }
  destruct (len <=? 63)%N. { apply IH. lia. }
  destruct (192 <=? len)%N; [|reflexivity].
  destruct (used + 1 <=? 255) eqn:E; [apply Nat.leb_le in E; lia|reflexivity].
Qed.

Lemma skip_loop_spec b c : wf_bytes b -> forall fuel o fuel', 256 - o < fuel -> length b - (c + o) < fuel' ->
  match skip_loop fuel (skipn c b) o with
  | Ok l => exists flag, s_name_end fuel' b (c + o) o = Some (c + l, flag)
  | Err _ => s_name_end fuel' b (c + o) o = None
  | Panic => False
  end.
Proof.
  intros Hw. destruct consts_vals as (C63 & C255 & _).
  induction fuel as [|f IH]; intros o fuel' Hf Hf'; [lia|].
  destruct fuel' as [|f']; [lia|]. cbn [skip_loop s_name_end]. rewrite nth_error_skipn.
  destruct (nth_error b (c + o)) as [l|] eqn:Hn; [|reflexivity].
  pose proof (nth_error_Forall _ _ _ _ Hw Hn) as Hl. unfold is_octet in Hl.
  pose proof (nth_error_Some_lt _ _ _ Hn) as Hlt.
  rewrite (is_pointer_octet_spec l Hl). unfold skip_fin. rewrite C63, C255.
  destruct (192 <=? l)%N eqn:P.
  - apply N.leb_le in P. destruct (l =? 0)%N eqn:Z; [apply N.eqb_eq in Z; lia|].
    destruct (l <=? 63)%N eqn:L; [apply N.leb_le in L; lia|].
    destruct (255 <? o + 1) eqn:X.
    + apply Nat.ltb_lt in X. destruct (o + 1 <=? 255) eqn:Y; [apply Nat.leb_le in Y; lia|reflexivity].
    + apply Nat.ltb_ge in X. destruct (o + 1 <=? 255) eqn:Y; [|apply Nat.leb_gt in Y; lia].
      exists true. f_equal. f_equal. lia.
  - apply N.leb_gt in P. destruct (63 <? l)%N eqn:L.
    + apply N.ltb_lt in L. destruct (l =? 0)%N eqn:Z; [apply N.eqb_eq in Z; lia|].
      destruct (l <=? 63)%N eqn:L'; [apply N.leb_le in L'; lia|reflexivity].
    + apply N.ltb_ge in L. destruct (l =? 0)%N eqn:Z.
      * destruct (255 <? o + 1) eqn:X.
        -- apply Nat.ltb_lt in X. destruct (o + 1 <=? 255) eqn:Y; [apply Nat.leb_le in Y; lia|reflexivity].
        -- apply Nat.ltb_ge in X. destruct (o + 1 <=? 255) eqn:Y; [|apply Nat.leb_gt in Y; lia].
           exists false. f_equal. f_equal. lia.
      * apply N.eqb_neq in Z. destruct (l <=? 63)%N eqn:L'; [|apply N.leb_gt in L'; lia].
        destruct (255 <? o + 1 + N.to_nat l) eqn:X.
        -- apply Nat.ltb_lt in X. apply s_name_end_over. lia.
        -- apply Nat.ltb_ge in X.
           specialize (IH (o + 1 + N.to_nat l) f' ltac:(lia) ltac:(lia)).
           replace (c + (o + 1 + N.to_nat l)) with (c + o + 1 + N.to_nat l) in IH by lia. exact IH.
Qed.

Lemma skip_first_name b c : wf_bytes b -> c <= length b ->
  match skip_compressed_name (skipn c b) with
  | Ok l => exists flag, s_first_name b c = Some (c + l, flag)
  | Err _ => s_first_name b c = None
  | Panic => False
  end.
Proof.
  intros Hw Hc. unfold skip_compressed_name, s_first_name, unc_fuel. destruct consts_vals as (_ & C255 & _). rewrite C255.
  pose proof (skip_loop_spec b c Hw (S (S 255)) 0 (S (length b)) ltac:(lia) ltac:(lia)) as H.
  rewrite Nat.add_0_r in H. exact H.
Qed.

(* ---------- fixed-width fields ---------- *)
Lemma be16_at_sbe16 {E} b a : a + 2 <= length b -> exists v, @be16_at E b a = Ok v /\ sbe16 b a = Some v.
Proof.
  intros H. unfold be16_at, sbe16. destruct (length b <? a + 2) eqn:X; [apply Nat.ltb_lt in X; lia|].
  destruct (nth_error b a) eqn:A; [|apply nth_error_None in A; lia].
  destruct (nth_error b (a + 1)) eqn:B; [|apply nth_error_None in B; lia]. eauto.
Qed.

Lemma be32_at_sbe32 {E} b a : a + 4 <= length b -> exists v, @be32_at E b a = Ok v /\ sbe32 b a = Some v.
Proof.
  intros H. unfold be32_at, sbe32, sbe16. destruct (length b <? a + 4) eqn:X; [apply Nat.ltb_lt in X; lia|].
  destruct (nth_error b a) as [b0|] eqn:A; [|apply nth_error_None in A; lia].
  destruct (nth_error b (a + 1)) as [b1|] eqn:B; [|apply nth_error_None in B; lia].
  replace (a + 2 + 1) with (a + 3) by lia.
  destruct (nth_error b (a + 2)) as [b2|] eqn:C; [|apply nth_error_None in C; lia].
  destruct (nth_error b (a + 3)) as [b3|] eqn:D; [|apply nth_error_None in D; lia].
  eexists. split; [reflexivity|]. f_equal. lia.
Qed.

Lemma read_u16_get_sbe16 b a :
  match read_u16_get b a with
  | Ok v => sbe16 b a = Some v
  | Err _ => sbe16 b a = None
  | Panic => False
  end.
Proof.
  unfold read_u16_get, sbe16. destruct (length b <? a) eqn:X.
  - apply Nat.ltb_lt in X. destruct (nth_error b a) eqn:A; [apply nth_error_Some_lt in A; lia|reflexivity].
  - destruct (nth_error b a); [|reflexivity]. destruct (nth_error b (a + 1)); reflexivity.
Qed.

Lemma sbe16_read_u16_from b a v : sbe16 b a = Some v -> read_u16_from b a = Ok v.
Proof.
  unfold sbe16, read_u16_from. destruct (nth_error b a) eqn:A; [|discriminate].
  destruct (nth_error b (a + 1)); [|discriminate]. intros X; inversion X; subst.
  apply nth_error_Some_lt in A. destruct (length b <? a) eqn:Y; [apply Nat.ltb_lt in Y; lia|reflexivity].
Qed.

(* ---------- delimiting a record: peek_core = s_delimit ---------- *)
Lemma peek_core_spec r : rinv r ->
  match peek_core r with
  | Ok p => s_delimit (r_octets r) (r_cursor r) = Some (p_owner_end p, p_rr_end p)
  | Err _ => s_delimit (r_octets r) (r_cursor r) = None
  | Panic => False
  end.
Proof.
  intros (Hw & H12 & Hc & Hm). unfold peek_core, s_delimit.
  destruct (length (r_octets r) <? r_cursor r) eqn:E; [apply Nat.ltb_lt in E; lia|].
  pose proof (skip_first_name (r_octets r) (r_cursor r) Hw Hc) as S1.
  destruct (skip_compressed_name (skipn (r_cursor r) (r_octets r))) as [l|e|]; cbn [lift_name map_err bind];
    [|rewrite S1; reflexivity|contradiction].
  destruct S1 as [flag S1]. rewrite S1.
  pose proof (read_u16_get_sbe16 (r_octets r) (r_cursor r + l + 8)) as S2.
  destruct (read_u16_get (r_octets r) (r_cursor r + l + 8)) as [rdlen|e|]; cbn [bind];
    [|rewrite S2; reflexivity|contradiction].
  rewrite S2. destruct (length (r_octets r) <? r_cursor r + l + 10 + N.to_nat rdlen) eqn:F.
  - apply Nat.ltb_lt in F. destruct (_ <=? _) eqn:G; [apply Nat.leb_le in G; lia|reflexivity].
  - apply Nat.ltb_ge in F. destruct (_ <=? _) eqn:G; [reflexivity|apply Nat.leb_gt in G; lia].
Qed.

(* a delimited record: bounds, and its fixed fields through both readers *)
Lemma delimited_fields r p : rinv r -> peek_core r = Ok p ->
  s_delimit (r_octets r) (r_cursor r) = Some (p_owner_end p, p_rr_end p) /\
  r_cursor r < p_owner_end p /\ p_owner_end p + 10 <= p_rr_end p /\ p_rr_end p <= length (r_octets r) /\
  exists ty cl raw rdlen,
    @be16_at reader_err (r_octets r) (p_owner_end p) = Ok ty /\ sbe16 (r_octets r) (p_owner_end p) = Some ty /\
    @be16_at reader_err (r_octets r) (p_owner_end p + 2) = Ok cl /\ sbe16 (r_octets r) (p_owner_end p + 2) = Some cl /\
    @be32_at reader_err (r_octets r) (p_owner_end p + 4) = Ok raw /\ sbe32 (r_octets r) (p_owner_end p + 4) = Some raw /\
    @be16_at reader_err (r_octets r) (p_owner_end p + 8) = Ok rdlen /\ sbe16 (r_octets r) (p_owner_end p + 8) = Some rdlen /\
    p_rr_end p = p_owner_end p + 10 + N.to_nat rdlen.
Proof.
  intros Hinv P. pose proof (peek_core_spec r Hinv) as HS. rewrite P in HS.
  destruct (peek_core_facts r Hinv) as [_ Hok]. destruct (Hok p P) as (B1 & B2 & B3).
  split; [exact HS|]. split; [exact B1|]. split; [exact B2|]. split; [exact B3|].
  destruct (@be16_at_sbe16 reader_err (r_octets r) (p_owner_end p) ltac:(lia)) as (ty & T1 & T2).
  destruct (@be16_at_sbe16 reader_err (r_octets r) (p_owner_end p + 2) ltac:(lia)) as (cl & C1 & C2).
  destruct (@be32_at_sbe32 reader_err (r_octets r) (p_owner_end p + 4) ltac:(lia)) as (raw & R1 & R2).
  destruct (@be16_at_sbe16 reader_err (r_octets r) (p_owner_end p + 8) ltac:(lia)) as (rdlen & L1 & L2).
  exists ty, cl, raw, rdlen. repeat (split; [assumption|]).
  unfold s_delimit in HS. destruct (s_first_name _ _) as [[oe fl]|]; [|discriminate].
  destruct (sbe16 (r_octets r) (oe + 8)) as [rl|] eqn:X; [|discriminate].
  destruct (_ <=? _); [|discriminate]. inversion HS; subst oe. rewrite L2 in X. inversion X; subst rl. lia.
Qed.

Lemma type_consts : TYPE_OPT = 41%N /\ TYPE_TSIG = 250%N /\ CLASS_ANY = 255%N.
Proof. repeat split. Qed.

(* ---------- the answer/authority walk ---------- *)
Lemma an_ns_reader_spec n : forall r idx, rinv r ->
  match an_ns_reader n r with
  | Some r' => s_walk_an_ns n (r_octets r) (r_cursor r) idx = inr (r_cursor r') /\ rinv r' /\ reader_same r r'
  | None => exists p, s_walk_an_ns n (r_octets r) (r_cursor r) idx = inl p
  end.
Proof.
  induction n as [|n IH]; intros r idx Hinv; cbn [an_ns_reader s_walk_an_ns].
  - split; [reflexivity|]. split; [exact Hinv|apply reader_same_refl].
  - pose proof (peek_core_spec r Hinv) as HS.
    destruct (peek_core r) as [p|e|] eqn:P; [|rewrite HS; eauto|contradiction].
    destruct (delimited_fields r p Hinv P) as (_ & B1 & B2 & B3 & ty & cl & raw & rdlen & T1 & T2 & _).
    rewrite HS, T1, T2. change TYPE_OPT with 41%N. change TYPE_TSIG with 250%N.
    destruct ((ty =? 41)%N || (ty =? 250)%N); [eauto|].
    assert (Hinv' : rinv (peek_skip r p)) by (apply rinv_with_cursor; [exact Hinv|exact B3]).
    specialize (IH (peek_skip r p) (S idx) Hinv'). cbn [peek_skip with_cursor r_octets r_cursor] in IH.
    destruct (an_ns_reader n (peek_skip r p)) as [r'|].
    + destruct IH as (A & B & C). split; [exact A|]. split; [exact B|].
      eapply reader_same_trans; [apply with_cursor_same|exact C].
    + exact IH.
Qed.

(* ---------- C09: processing reaches an OPT ---------- *)
Lemma opt_reachable_spec n : forall r, rinv r -> opt_reachable n r = s_opt_ahead n (r_octets r) (r_cursor r).
Proof.
  induction n as [|n IH]; intros r Hinv; cbn [opt_reachable s_opt_ahead]; [reflexivity|].
  pose proof (peek_core_spec r Hinv) as HS.
  destruct (peek_core r) as [p|e|] eqn:P; [|rewrite HS; reflexivity|contradiction].
  destruct (delimited_fields r p Hinv P) as (_ & B1 & B2 & B3 & ty & cl & raw & rdlen & T1 & T2 & _).
  rewrite HS, T1, T2. change TYPE_OPT with 41%N. change TYPE_TSIG with 250%N.
  destruct (ty =? 41)%N; [reflexivity|]. destruct (ty =? 250)%N; [reflexivity|].
  rewrite IH by (apply rinv_with_cursor; [exact Hinv|exact B3]). reflexivity.
Qed.

Lemma hdr_counts r : rinv r ->
  exists qd an ns ar,
    rd_qdcount r = Ok qd /\ sbe16 (r_octets r) 4 = Some qd /\ rd_ancount r = Ok an /\ sbe16 (r_octets r) 6 = Some an /\
    rd_nscount r = Ok ns /\ sbe16 (r_octets r) 8 = Some ns /\ rd_arcount r = Ok ar /\ sbe16 (r_octets r) 10 = Some ar.
Proof.
  intros (_ & H12 & _).
  destruct (@be16_at_sbe16 reader_err (r_octets r) 4 ltac:(lia)) as (qd & Q1 & Q2).
  destruct (@be16_at_sbe16 reader_err (r_octets r) 6 ltac:(lia)) as (an & A1 & A2).
  destruct (@be16_at_sbe16 reader_err (r_octets r) 8 ltac:(lia)) as (ns & N1 & N2).
  destruct (@be16_at_sbe16 reader_err (r_octets r) 10 ltac:(lia)) as (ar & R1 & R2).
  exists qd, an, ns, ar. repeat split; assumption.
Qed.

Lemma reach_from_spec r1 : rinv r1 -> reach_from r1 = s_reach_from (r_octets r1) (r_cursor r1).
Proof.
  intros Hinv. unfold reach_from, s_reach_from.
  destruct (hdr_counts r1 Hinv) as (qd & an & ns & ar & _ & _ & A1 & A2 & N1 & N2 & R1 & R2).
  rewrite A1, N1, A2, N2, R2.
  pose proof (an_ns_reader_spec (N.to_nat an + N.to_nat ns) (rd_mark r1) 0 (rd_mark_inv r1 Hinv)) as W.
  cbn [rd_mark r_octets r_cursor] in W.
  destruct (an_ns_reader (N.to_nat an + N.to_nat ns) (rd_mark r1)) as [r2|].
  - destruct W as (W1 & W2 & [So Sm]). rewrite W1.
    assert (R1' : rd_arcount r2 = Ok ar) by (unfold rd_arcount in *; rewrite So; exact R1).
    rewrite R1'. rewrite (opt_reachable_spec _ r2 W2), So. reflexivity.
  - destruct W as [p W]. rewrite W. reflexivity.
Qed.

(* the question: read_question = s_question_end *)
Lemma read_question_spec req : wf_bytes req -> 12 <= length req ->
  match read_question (r0_of req) with
  | (r1, Ok q) => s_question_end req = Some (r_cursor r1)
  | (_, Err _) => s_question_end req = None
  | (_, Panic) => False
  end.
Proof.
  intros Hw H12. pose proof (read_question_facts (r0_of req) (r0_inv req Hw H12)) as (NP & _ & _ & F).
  destruct (read_question (r0_of req)) as [r1 x] eqn:RQ. cbn [fst snd] in *.
  destruct x as [q|e|]; [| |congruence].
  - destruct (F q eq_refl) as (ls & D & _). cbn [r_octets r_cursor r0_of] in D.
    remember (r_cursor r1) as c1. inversion D as [ls' l qt qc DN Sq Sc Hend]; subst.
    unfold s_question_end. rewrite (proj2 (spec_decode_name_iff req 12 ls l) DN), Sq, Sc. reflexivity.
  - unfold s_question_end. destruct (spec_decode_name req 12) as [[ls l]|] eqn:SD; [|reflexivity].
    destruct (sbe16 req (12 + l)) as [qt|] eqn:Sq; [|reflexivity].
    destruct (sbe16 req (12 + l + 2)) as [qc|] eqn:Sc; [|reflexivity]. exfalso.
    apply spec_decode_name_iff in SD.
    assert (P : parse_compressed_name req 12 = Ok (name_of ls, l)) by (apply (parse_compressed_iff _ _ _ _ Hw); eauto).
    unfold read_question in RQ. cbn [r_octets r_cursor r0_of] in RQ. rewrite P in RQ. cbn [lift_name map_err] in RQ.
    rewrite (sbe16_read_u16_from _ _ _ Sq), (sbe16_read_u16_from _ _ _ Sc) in RQ. discriminate.
Qed.

Theorem opt_reached_spec req : wf_bytes req -> opt_reached req = s_opt_reached req.
Proof.
  intros Hw. unfold opt_reached, s_opt_reached. destruct (length req <? 12) eqn:L; [reflexivity|].
  apply Nat.ltb_ge in L. pose proof (r0_inv req Hw L) as Hinv0.
  destruct (hdr_counts (r0_of req) Hinv0) as (qd & an & ns & ar & Q1 & Q2 & _). cbn [r_octets r0_of] in Q2.
  rewrite Q1, Q2. destruct (qd =? 0)%N; [apply (reach_from_spec (r0_of req) Hinv0)|].
  destruct (qd =? 1)%N; [|reflexivity].
  pose proof (read_question_spec req Hw L) as RS.
  pose proof (read_question_facts (r0_of req) Hinv0) as (_ & _ & I1 & F).
  destruct (read_question (r0_of req)) as [r1 x]. cbn [fst snd] in *.
  destruct x as [q|e|]; [|rewrite RS; reflexivity|contradiction].
  rewrite RS. destruct (F q eq_refl) as (ls & _ & _ & Ho & _). cbn [r_octets r0_of] in Ho.
  rewrite (reach_from_spec r1 I1), Ho. reflexivity.
Qed.
